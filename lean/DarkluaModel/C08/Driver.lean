import DarkluaModel.Shared.AstSexp
import DarkluaModel.Rules.EvaluatorFloat
import DarkluaModel.C08.Model
/-!
Line-protocol handlers for property C08 (the evaluator model over IEEE doubles):

* `c08.eval <expr>`   → `(<value> <sideEffects> <sideEffects with pure metamethods> <multi>)`
                        value ::= nil | true | false | (num f<bits>) | (str x<hex>) | table | function | unknown
* `c08.h <expr>`      → `(<h8> <tag>*)` — is the expression inside the proved region; the tags name the
                        failing conditions (`numeq` F1/F2, `numfmt` F3, `interp` F4, `refeq`)
* `c08.panicclass <expr>` → `true`/`false` — some sub-expression evaluates to a string that is a hex literal with a binary
                        exponent whose value overflows u64 (the real evaluator may panic there: known finding C12-F10)
* `c08.coerce x<hex>` → `(num f<bits>)` | `none` — `LuaValue::String(bytes).number_coercion()`
* `c08.fmt f<bits>`   → `x<hex>` — `f64::to_string`
* `c08.semnum f<bits>`→ `x<hex>` — the reference semantics' `tostring` of a number (diagnostics)
-/
namespace DarkluaModel.C08
open DarkluaModel.Evaluator

def valueToSexp : LuaValue floatOps → Sexp
  | .nil => .atom "nil"
  | .true_ => .atom "true"
  | .false_ => .atom "false"
  | .number x => .list [.atom "num", .atom (floatToWire x)]
  | .string s => .list [.atom "str", .atom (bytesToHex s)]
  | .table => .atom "table"
  | .function => .atom "function"
  | .unknown => .atom "unknown"

/-- diagnostics: which conditions of `h8` fail somewhere in `e` (same traversal as `h8`) -/
partial def why (e : Expr) : List String :=
  let E := floatEvalOps
  match e with
  | .bin op l r =>
    why l ++ why r ++
      (match op with
       | .eq | .ne =>
         (if numEqOK E (evaluate E l) (evaluate E r) then [] else ["numeq"]) ++
         (if refEqOK E l r then [] else ["refeq"])
       | .concat => if concatOK E (evaluate E l) (evaluate E r) then [] else ["numfmt"]
       | _ => [])
  | .un _ e => why e
  | .paren e => why e
  | .ifx c t elifs e => why c ++ why t ++ elifs.flatMap (fun (a, b) => why a ++ why b) ++ why e
  | .interp segs =>
    segs.flatMap fun
      | .s _ => []
      | .v e => why e ++ (if !isUnknown (evaluate E e) || hasSideEffects E false e then [] else ["interp"])
  | .cast e _ => why e
  | .inst e _ => why e
  | .table entries =>
    entries.flatMap fun
      | .pos v => why v
      | .named _ v => why v
      | .keyed k v => why k ++ why v
  | _ => []

/-- does some sub-expression of `e` (outside function bodies) EVALUATE to a string of the hex-exponent
overflow class on which the real `number_coercion` panics (C12-F10)? The string may be a literal or
built by `..` / interpolation / `and` / `or` / if-expressions (`"0x1p4" .. 255`). -/
partial def hasOverflowLit (e : Expr) : Bool :=
  (match evaluate floatEvalOps e with
   | .string s => hexExpOverflowStr s
   | _ => false) ||
  match e with
  | .paren e | .un _ e | .cast e _ | .inst e _ | .field e _ => hasOverflowLit e
  | .bin _ l r | .index l r => hasOverflowLit l || hasOverflowLit r
  | .call f _ _ args => hasOverflowLit f || args.any hasOverflowLit
  | .ifx c t elifs e =>
    hasOverflowLit c || hasOverflowLit t || elifs.any (fun (a, b) => hasOverflowLit a || hasOverflowLit b) ||
      hasOverflowLit e
  | .interp segs => segs.any fun | .s _ => false | .v e => hasOverflowLit e
  | .table entries =>
    entries.any fun
      | .pos v => hasOverflowLit v
      | .named _ v => hasOverflowLit v
      | .keyed k v => hasOverflowLit k || hasOverflowLit v
  | _ => false

def handle (op : String) (args : List String) : String :=
  match op, Sexp.parseArgs args with
  | "eval", some [e] =>
    match Expr.ofSexp? e with
    | some e =>
      (Sexp.list [valueToSexp (evaluate floatEvalOps e),
        Sexp.ofBool (hasSideEffects floatEvalOps false e),
        Sexp.ofBool (hasSideEffects floatEvalOps true e),
        Sexp.ofBool (canReturnMultiple e)]).toString
    | none => "bad-request"
  | "h", some [e] =>
    match Expr.ofSexp? e with
    | some e => (Sexp.list (Sexp.ofBool (h8 floatEvalOps e) :: (why e).map Sexp.atom)).toString
    | none => "bad-request"
  | "panicclass", some [e] =>
    match Expr.ofSexp? e with
    | some e => toString (hasOverflowLit e)
    | none => "bad-request"
  | "coerce", some [.atom s] =>
    match hexToBytes? s with
    | some bs =>
      match coerceString floatEvalOps bs with
      | some x => (Sexp.list [.atom "num", .atom (floatToWire x)]).toString
      | none => "none"
    | none => "bad-request"
  | "fmt", some [.atom s] =>
    match wireToFloat? s with
    | some x => bytesToHex (fmtRustFloat x)
    | none => "bad-request"
  | "semnum", some [.atom s] =>
    match wireToFloat? s with
    | some x => bytesToHex (floatToStr x)
    | none => "bad-request"
  | _, _ => "unknown-op " ++ op

end DarkluaModel.C08
