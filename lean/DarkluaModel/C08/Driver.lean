import DarkluaModel.Util.Sexp
/-! Line-protocol handlers for property C08 (stub: nothing modelled yet). -/
namespace DarkluaModel.C08

def handle (op : String) (_args : List String) : String :=
  "unknown-op " ++ op

end DarkluaModel.C08
