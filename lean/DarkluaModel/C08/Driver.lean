import DarkluaModel.Shared.AstSexp
import DarkluaModel.Rules.EvaluatorFloat
import DarkluaModel.C08.Model
/-!
Line-protocol handlers for property C08 (the evaluator model over IEEE doubles):

* `c08.eval <expr>`   → `(<value> <sideEffects> <sideEffects with pure metamethods> <multi>)`
                        value ::= nil | true | false | (num f<bits>) | (str x<hex>) | table | function | unknown
* `c08.h <expr>`      → `(<h8> <tag>*)` — is the expression inside the proved region; the tags name the
                        failing conditions (`refeq`)
* `c08.coerce x<hex>` → `(num f<bits>)` | `none` — `LuaValue::String(bytes).number_coercion()`
* `c08.fmt f<bits>`   → `x<hex>` — `f64::to_string`
* `c08.semnum f<bits>`→ `x<hex>` — the reference semantics' `tostring` of a number (diagnostics)
-/
namespace DarkluaModel.C08
open DarkluaModel.Evaluator

def valueToSexp : LuaValue floatOps → Sexp
  | .nil => .atom "nil"
  | .true_ => .atom "true"
  | .false_ => .atom "false"
  | .number x => .list [.atom "num", .atom (floatToWire x)]
  | .string s => .list [.atom "str", .atom (bytesToHex s)]
  | .table => .atom "table"
  | .function => .atom "function"
  | .unknown => .atom "unknown"

/-- diagnostics: which conditions of `h8` fail somewhere in `e` (same traversal as `h8`) -/
partial def why (e : Expr) : List String :=
  let E := floatEvalOps
  match e with
  | .bin op l r =>
    why l ++ why r ++
      (match op with
       | .eq | .ne =>
         (if refEqOK E l r then [] else ["refeq"])
       | _ => [])
  | .un _ e => why e
  | .paren e => why e
  | .ifx c t elifs e => why c ++ why t ++ elifs.flatMap (fun (a, b) => why a ++ why b) ++ why e
  | .interp segs =>
    segs.flatMap fun
      | .s _ => []
      | .v e => why e
  | .cast e _ => why e
  | .inst e _ => why e
  | .table entries =>
    entries.flatMap fun
      | .pos v => why v
      | .named _ v => why v
      | .keyed k v => why k ++ why v
  | _ => []

def handle (op : String) (args : List String) : String :=
  match op, Sexp.parseArgs args with
  | "eval", some [e] =>
    match Expr.ofSexp? e with
    | some e =>
      (Sexp.list [valueToSexp (evaluate floatEvalOps e),
        Sexp.ofBool (hasSideEffects floatEvalOps false e),
        Sexp.ofBool (hasSideEffects floatEvalOps true e),
        Sexp.ofBool (canReturnMultiple e)]).toString
    | none => "bad-request"
  | "h", some [e] =>
    match Expr.ofSexp? e with
    | some e => (Sexp.list (Sexp.ofBool (h8 floatEvalOps e) :: (why e).map Sexp.atom)).toString
    | none => "bad-request"
  | "coerce", some [.atom s] =>
    match hexToBytes? s with
    | some bs =>
      match coerceString floatEvalOps bs with
      | some x => (Sexp.list [.atom "num", .atom (floatToWire x)]).toString
      | none => "none"
    | none => "bad-request"
  | "fmt", some [.atom s] =>
    match wireToFloat? s with
    | some x => bytesToHex (fmtRustFloat x)
    | none => "bad-request"
  | "semnum", some [.atom s] =>
    match wireToFloat? s with
    | some x => bytesToHex (floatToStr x)
    | none => "bad-request"
  | _, _ => "unknown-op " ++ op

end DarkluaModel.C08
