import DarkluaModel.Shared.AstSexp
import DarkluaModel.Rules.EvaluatorFloat
import DarkluaModel.C08.Model
/-!
Line-protocol handlers for property C08 (the evaluator model over IEEE doubles):

* `c08.eval <expr>`   → `(<value> <sideEffects> <sideEffects with pure metamethods> <multi>)`
                        value ::= nil | true | false | (num f<bits>) | (str x<hex>) | table | function | unknown
* `c08.h <expr>`      → `(<h8> <singleOK>)` — is the expression inside the proved region
* `c08.coerce x<hex>` → `(num f<bits>)` | `none` — `LuaValue::String(bytes).number_coercion()`
* `c08.fmt f<bits>`   → `x<hex>` — `f64::to_string`
* `c08.semnum f<bits>`→ `x<hex>` — the reference semantics' `tostring` of a number (diagnostics)
-/
namespace DarkluaModel.C08
open DarkluaModel.Evaluator

def valueToSexp : LuaValue floatOps → Sexp
  | .nil => .atom "nil"
  | .true_ => .atom "true"
  | .false_ => .atom "false"
  | .number x => .list [.atom "num", .atom (floatToWire x)]
  | .string s => .list [.atom "str", .atom (bytesToHex s)]
  | .table => .atom "table"
  | .function => .atom "function"
  | .unknown => .atom "unknown"

def handle (op : String) (args : List String) : String :=
  match op, Sexp.parseArgs args with
  | "eval", some [e] =>
    match Expr.ofSexp? e with
    | some e =>
      (Sexp.list [valueToSexp (evaluate floatEvalOps e),
        Sexp.ofBool (hasSideEffects floatEvalOps false e),
        Sexp.ofBool (hasSideEffects floatEvalOps true e),
        Sexp.ofBool (canReturnMultiple e)]).toString
    | none => "bad-request"
  | "h", some [e] =>
    match Expr.ofSexp? e with
    | some e => (Sexp.list [Sexp.ofBool (h8 floatEvalOps e), Sexp.ofBool (singleOK e)]).toString
    | none => "bad-request"
  | "coerce", some [.atom s] =>
    match hexToBytes? s with
    | some bs =>
      match coerceString floatEvalOps bs with
      | some x => (Sexp.list [.atom "num", .atom (floatToWire x)]).toString
      | none => "none"
    | none => "bad-request"
  | "fmt", some [.atom s] =>
    match wireToFloat? s with
    | some x => bytesToHex (fmtRustFloat x)
    | none => "bad-request"
  | "semnum", some [.atom s] =>
    match wireToFloat? s with
    | some x => bytesToHex (floatToStr x)
    | none => "bad-request"
  | _, _ => "unknown-op " ++ op

end DarkluaModel.C08
