import DarkluaModel.C08.Sound
/-!
Second induction for C08: inside `h8`, the complete outcome (value, state, error, timeout) of
evaluating a side-effect free expression is the same for every call handler, every external-call
oracle and every call-back budget ≥ 1 — no closure, metamethod, external or library function is
entered. Uses `good` (Sound.lean) for the facts about intermediate values.
-/
namespace DarkluaModel.C08
open Sem Evaluator

theorem bind_congr {N : NumOps} {α β : Type} {r : Res N α} {f g : α → State N → Res N β}
    (h : ∀ a σ1, r = .ok a σ1 → f a σ1 = g a σ1) : r.bind f = r.bind g := by
  cases r with
  | ok a σ1 => exact h a σ1 rfl
  | err v σ1 => rfl
  | timeout => rfl

section indep
variable {N : NumOps} (E : EvalOps N) (call : CallFn N) (ρ : ExtOracle N) (k : Nat)
  (call' : CallFn N) (ρ' : ExtOracle N) (k' : Nat) (env : Env N)

theorem binopVal_indep {op : BinOp} {a b : Val N} {σ : State N}
    (ha : σ.metaOf a = none) (hb : σ.metaOf b = none) :
    binopVal call ρ k op a b σ = binopVal call' ρ' k' op a b σ := by
  cases op <;> simp only [binopVal, callMeta2_none _ _ _ _ ha hb, callMeta2_none _ _ _ _ hb ha,
    metamethod_none ha, metamethod_none hb]

theorem unopVal_indep {op : UnOp} {a : Val N} {σ : State N} (ha : op = .not ∨ σ.metaOf a = none) :
    unopVal call ρ k op a σ = unopVal call' ρ' k' op a σ := by
  cases op
  · rcases ha with h | h
    · cases h
    · simp only [unopVal, metamethod_none h]
  · simp only [unopVal]
  · rcases ha with h | h
    · cases h
    · simp only [unopVal, metamethod_none h]

theorem tostringVal_indep {v : Val N} {σ : State N} (hv : σ.metaOf v = none) (hk : 1 ≤ k) (hk' : 1 ≤ k') :
    tostringVal call ρ k v σ = tostringVal call' ρ' k' v σ := by
  obtain ⟨d, rfl⟩ : ∃ d, k = d + 1 := ⟨k - 1, by omega⟩
  obtain ⟨d', rfl⟩ : ∃ d', k' = d' + 1 := ⟨k' - 1, by omega⟩
  simp only [tostringVal, metamethod_none hv]


/-- the complete outcome of evaluating `e` does not depend on the call handler, the oracle, the bound -/
def Indep (e : Expr) : Prop :=
  ∀ σ, h8 E e = true → hasSideEffects E false e = false →
    evalE call ρ k env e σ = evalE call' ρ' k' env e σ

theorem indep_leaf {e : Expr} (h : ∀ σ, evalE call ρ k env e σ = evalE call' ρ' k' env e σ) :
    Indep E call ρ k call' ρ' k' env e := fun σ _ _ => h σ

theorem indep_paren {e : Expr} (ih : Indep E call ρ k call' ρ' k' env e) :
    Indep E call ρ k call' ρ' k' env (.paren e) := by
  intro σ h8e hp
  simp only [h8, hasSideEffects] at h8e hp
  simp only [evalE, ih σ h8e hp]

theorem indep_cast {e : Expr} (ty : Ty) (ih : Indep E call ρ k call' ρ' k' env e) :
    Indep E call ρ k call' ρ' k' env (.cast e ty) := by
  intro σ h8e hp
  simp only [h8, hasSideEffects] at h8e hp
  simp only [evalE, ih σ h8e hp]

theorem indep_inst {e : Expr} (tys : List Ty) (ih : Indep E call ρ k call' ρ' k' env e) :
    Indep E call ρ k call' ρ' k' env (.inst e tys) := by
  intro σ h8e hp
  simp only [h8, hasSideEffects] at h8e hp
  simp only [evalE, ih σ h8e hp]

theorem indep_un (A : Agree N E) {e : Expr} (op : UnOp) (ih : Indep E call ρ k call' ρ' k' env e) :
    Indep E call ρ k call' ρ' k' env (.un op e) := by
  intro σ h8e hp
  simp only [h8] at h8e
  have hpe : hasSideEffects E false e = false := by
    cases op <;> simp [hasSideEffects] at hp <;> first | exact hp | exact hp.2
  simp only [evalE, ← ih σ h8e hpe]
  refine bind_congr fun vs σ1 h1 => ?_
  obtain ⟨s, x⟩ := good E call ρ k env A e σ σ1 vs h8e h1
  rw [unopVal_indep call ρ k call' ρ' k']
  cases op
  · simp [hasSideEffects, maybeMeta_eq] at hp
    exact Or.inr (metaOf_fresh s.vm hp.1 (x hpe).fresh)
  · exact Or.inl rfl
  · simp [hasSideEffects, maybeMeta_eq] at hp
    exact Or.inr (metaOf_fresh s.vm hp.1 (x hpe).fresh)

theorem indep_and (A : Agree N E) {l r : Expr} (ihl : Indep E call ρ k call' ρ' k' env l)
    (ihr : Indep E call ρ k call' ρ' k' env r) : Indep E call ρ k call' ρ' k' env (.bin .and l r) := by
  intro σ h8e hp
  simp only [h8, Bool.and_eq_true, and_true] at h8e
  simp only [hasSideEffects] at hp
  have hpl : hasSideEffects E false l = false := by
    split at hp
    · simp only [Bool.or_eq_false_iff] at hp; exact hp.1
    · exact hp
  simp only [evalE, ← ihl σ h8e.1 hpl]
  refine bind_congr fun vs σ1 h1 => ?_
  obtain ⟨s, _⟩ := good E call ρ k env A l σ σ1 vs h8e.1 h1
  split
  · rename_i hrt
    have hpr : hasSideEffects E false r = false := by
      split at hp
      · simp only [Bool.or_eq_false_iff] at hp; exact hp.2
      · rename_i hg
        cases htl : (evaluate E l).isTruthy with
        | none => simp [htl] at hg
        | some tb =>
          have := VM.truthy s.vm htl
          rw [hrt] at this
          subst this
          simp [htl] at hg
    rw [ihr σ1 h8e.2 hpr]
  · rfl

theorem indep_or (A : Agree N E) {l r : Expr} (ihl : Indep E call ρ k call' ρ' k' env l)
    (ihr : Indep E call ρ k call' ρ' k' env r) : Indep E call ρ k call' ρ' k' env (.bin .or l r) := by
  intro σ h8e hp
  simp only [h8, Bool.and_eq_true, and_true] at h8e
  simp only [hasSideEffects] at hp
  have hpl : hasSideEffects E false l = false := by
    split at hp
    · exact hp
    · simp only [Bool.or_eq_false_iff] at hp; exact hp.1
  simp only [evalE, ← ihl σ h8e.1 hpl]
  refine bind_congr fun vs σ1 h1 => ?_
  obtain ⟨s, _⟩ := good E call ρ k env A l σ σ1 vs h8e.1 h1
  split
  · rfl
  · rename_i hrt
    have hpr : hasSideEffects E false r = false := by
      split at hp
      · rename_i hg
        cases htl : (evaluate E l).isTruthy with
        | none => simp [htl] at hg
        | some tb =>
          have := VM.truthy s.vm htl
          cases tb
          · simp [htl] at hg
          · exact absurd this hrt
      · simp only [Bool.or_eq_false_iff] at hp; exact hp.2
    rw [ihr σ1 h8e.2 hpr]

theorem indep_binop (A : Agree N E) {op : BinOp} (h1 : op ≠ .and) (h2 : op ≠ .or) {l r : Expr}
    (ihl : Indep E call ρ k call' ρ' k' env l) (ihr : Indep E call ρ k call' ρ' k' env r) :
    Indep E call ρ k call' ρ' k' env (.bin op l r) := by
  intro σ h8e hp
  obtain ⟨h8l, h8r, _, _⟩ := h8_binop E h8e
  rw [hse_binop E h1 h2] at hp
  simp only [Bool.or_eq_false_iff, maybeMeta_eq] at hp
  obtain ⟨⟨⟨ul, ur⟩, pl⟩, pr⟩ := hp
  rw [evalE_binop call ρ k env h1 h2, evalE_binop call' ρ' k' env h1 h2, ← ihl σ h8l pl]
  refine bind_congr fun a σ1 e1 => ?_
  rw [← ihr σ1 h8r pr]
  refine bind_congr fun b σ2 e2 => ?_
  obtain ⟨sl, xl⟩ := good E call ρ k env A l σ σ1 a h8l e1
  obtain ⟨sr, xr⟩ := good E call ρ k env A r σ1 σ2 b h8r e2
  have ma : σ2.metaOf (first a) = none := metaOf_fresh sl.vm ul ((xl pl).fresh.right (xr pr).frame)
  have mb : σ2.metaOf (first b) = none := metaOf_fresh sr.vm ur (xr pr).fresh
  rw [binopVal_indep call ρ k call' ρ' k' ma mb]


def IndepElifs (elifs : List (Expr × Expr)) : Prop :=
  ∀ σ, h8Elifs E elifs = true →
    (hseElifsAll E false elifs = false ∨ hseElifsKnown E false elifs ≠ some true) →
    evalElifs call ρ k env elifs σ = evalElifs call' ρ' k' env elifs σ

theorem indepElifs_nil : IndepElifs E call ρ k call' ρ' k' env [] := by
  intro σ _ _
  simp only [evalElifs]

theorem indepElifs_cons (A : Agree N E) {c t : Expr} {rest : List (Expr × Expr)}
    (ihc : Indep E call ρ k call' ρ' k' env c) (iht : Indep E call ρ k call' ρ' k' env t)
    (ihr : IndepElifs E call ρ k call' ρ' k' env rest) :
    IndepElifs E call ρ k call' ρ' k' env ((c, t) :: rest) := by
  intro σ h8e hp
  simp only [h8Elifs, Bool.and_eq_true] at h8e
  obtain ⟨⟨h8c, h8t⟩, h8r⟩ := h8e
  simp only [hseElifsAll, hseElifsKnown] at hp
  have hpc : hasSideEffects E false c = false := by
    cases hc : hasSideEffects E false c
    · rfl
    · simp [hc] at hp
  simp only [hpc, Bool.false_or, Bool.false_eq_true, if_false] at hp
  simp only [evalElifs, ← ihc σ h8c hpc]
  refine bind_congr fun cv σ1 e1 => ?_
  obtain ⟨sc, _⟩ := good E call ρ k env A c σ σ1 cv h8c e1
  split
  · -- taken: the result must be pure
    rename_i hrt
    have hpt : hasSideEffects E false t = false := by
      cases ht : hasSideEffects E false t
      · rfl
      · rcases hp with hp | hp
        · simp [ht] at hp
        · cases htc : (evaluate E c).isTruthy with
          | none => simp [htc, ht] at hp
          | some tb =>
            have := VM.truthy sc.vm htc
            rw [hrt] at this
            subst this
            simp [htc, ht] at hp
    rw [iht σ1 h8t hpt]
  · -- skipped: the rest decides
    rename_i hrt
    refine ihr σ1 h8r ?_
    rcases hp with hp | hp
    · left
      cases ht : hasSideEffects E false t
      · simpa [ht] using hp
      · simp [ht] at hp
    · right
      cases htc : (evaluate E c).isTruthy with
      | none =>
        cases ht : hasSideEffects E false t
        · simpa [htc, ht] using hp
        · simp [htc, ht] at hp
      | some tb =>
        have := VM.truthy sc.vm htc
        cases tb
        · simpa [htc] using hp
        · exact absurd this hrt

theorem indep_ifx (A : Agree N E) {c t e : Expr} {elifs : List (Expr × Expr)}
    (ihc : Indep E call ρ k call' ρ' k' env c) (iht : Indep E call ρ k call' ρ' k' env t)
    (ihs : IndepElifs E call ρ k call' ρ' k' env elifs) (ihe : Indep E call ρ k call' ρ' k' env e) :
    Indep E call ρ k call' ρ' k' env (.ifx c t elifs e) := by
  intro σ h8e hp
  simp only [h8, Bool.and_eq_true] at h8e
  obtain ⟨⟨⟨h8c, h8t⟩, h8s⟩, h8e'⟩ := h8e
  simp only [hasSideEffects] at hp
  have hpc : hasSideEffects E false c = false := by
    cases hc : hasSideEffects E false c
    · rfl
    · simp [hc] at hp
  simp only [hpc, Bool.false_eq_true, if_false] at hp
  simp only [evalE, ← ihc σ h8c hpc]
  refine bind_congr fun cv σ1 e1 => ?_
  obtain ⟨sc, _⟩ := good E call ρ k env A c σ σ1 cv h8c e1
  split
  · rename_i hrt
    have hpt : hasSideEffects E false t = false := by
      cases htc : (evaluate E c).isTruthy with
      | none =>
        cases ht : hasSideEffects E false t
        · rfl
        · simp [htc, ht] at hp
      | some tb =>
        have := VM.truthy sc.vm htc
        rw [hrt] at this
        subst this
        simpa [htc] using hp
    rw [iht σ1 h8t hpt]
  · rename_i hrt
    cases htc : (evaluate E c).isTruthy with
    | none =>
      simp only [htc] at hp
      have hpt : hasSideEffects E false t = false := by
        cases ht : hasSideEffects E false t
        · rfl
        · simp [ht] at hp
      have hpa : hseElifsAll E false elifs = false := by
        cases ha : hseElifsAll E false elifs
        · rfl
        · simp [hpt, ha] at hp
      have hpe : hasSideEffects E false e = false := by simpa [hpt, hpa] using hp
      rw [← ihs σ1 h8s (Or.inl hpa)]
      refine bind_congr fun r σ2 _ => ?_
      cases r with
      | some vs => rfl
      | none => simp only [ihe σ2 h8e' hpe]
    | some tb =>
      have := VM.truthy sc.vm htc
      cases tb
      · simp only [htc] at hp
        have hk : hseElifsKnown E false elifs ≠ some true := by
          intro hk; simp [hk] at hp
        rw [← ihs σ1 h8s (Or.inr hk)]
        refine bind_congr fun r σ2 e2 => ?_
        cases r with
        | some vs => rfl
        | none =>
          obtain ⟨p1, _⟩ := goodElifs E call ρ k env A elifs σ1 σ2 none h8s e2
          obtain ⟨_, hn⟩ := p1.2 hk
          simp only [hn] at hp
          simp only [ihe σ2 h8e' hp]
      · exact absurd this hrt


def IndepSegs (segs : List Seg) : Prop :=
  ∀ acc σ, h8Segs E segs = true → hseSegs E false segs = false →
    evalSegs call ρ k env segs acc σ = evalSegs call' ρ' k' env segs acc σ

theorem indepSegs_nil : IndepSegs E call ρ k call' ρ' k' env [] := by
  intro acc σ _ _
  simp only [evalSegs]

theorem indepSegs_s (b : List UInt8) {rest : List Seg} (ih : IndepSegs E call ρ k call' ρ' k' env rest) :
    IndepSegs E call ρ k call' ρ' k' env (.s b :: rest) := by
  intro acc σ h8e hp
  simp only [h8Segs, hseSegs] at h8e hp
  simp only [evalSegs]
  exact ih _ σ h8e hp

theorem indepSegs_v (A : Agree N E) (hk : 1 ≤ k) (hk' : 1 ≤ k') {e : Expr} {rest : List Seg}
    (ihe : Indep E call ρ k call' ρ' k' env e) (ih : IndepSegs E call ρ k call' ρ' k' env rest) :
    IndepSegs E call ρ k call' ρ' k' env (.v e :: rest) := by
  intro acc σ h8e hp
  simp only [h8Segs, Bool.and_eq_true] at h8e
  obtain ⟨h8v, h8r⟩ := h8e
  simp only [hseSegs, Bool.not_false, Bool.true_and, Bool.or_eq_false_iff, maybeMeta_eq] at hp
  have hu : isUnknown (evaluate E e) = false := hp.1.1
  replace hp : hasSideEffects E false e = false ∧ hseSegs E false rest = false := ⟨hp.1.2, hp.2⟩
  simp only [evalSegs, ← ihe σ h8v hp.1]
  refine bind_congr fun vs σ1 e1 => ?_
  obtain ⟨se, xe⟩ := good E call ρ k env A e σ σ1 vs h8v e1
  rw [← tostringVal_indep call ρ k call' ρ' k' (metaOf_fresh se.vm hu (xe hp.1).fresh) hk hk']
  refine bind_congr fun ts σ2 _ => ?_
  exact ih _ σ2 h8r hp.2

theorem indep_interp {segs : List Seg} (ih : IndepSegs E call ρ k call' ρ' k' env segs) :
    Indep E call ρ k call' ρ' k' env (.interp segs) := by
  intro σ h8e hp
  simp only [h8, hasSideEffects] at h8e hp
  simp only [evalE, ih [] σ h8e hp]

def IndepEntries (entries : List Entry) : Prop :=
  ∀ t i σ, h8Entries E entries = true → hseEntries E false entries = false →
    evalEntries call ρ k env t i entries σ = evalEntries call' ρ' k' env t i entries σ

theorem indepEntries_nil : IndepEntries E call ρ k call' ρ' k' env [] := by
  intro t i σ _ _
  simp only [evalEntries]

theorem indepEntries_pos {v : Expr} {rest : List Entry} (ihv : Indep E call ρ k call' ρ' k' env v)
    (ih : IndepEntries E call ρ k call' ρ' k' env rest) :
    IndepEntries E call ρ k call' ρ' k' env (.pos v :: rest) := by
  intro t i σ h8e hp
  simp only [h8Entries, Bool.and_eq_true] at h8e
  simp only [hseEntries, Bool.or_eq_false_iff] at hp
  cases rest with
  | nil => simp only [evalEntries, ihv σ h8e.1 hp.1]
  | cons x xs =>
    simp only [evalEntries, ← ihv σ h8e.1 hp.1]
    exact bind_congr fun vs σ1 _ => ih t (i + 1) _ h8e.2 hp.2

theorem indepEntries_named (key : String) {v : Expr} {rest : List Entry}
    (ihv : Indep E call ρ k call' ρ' k' env v) (ih : IndepEntries E call ρ k call' ρ' k' env rest) :
    IndepEntries E call ρ k call' ρ' k' env (.named key v :: rest) := by
  intro t i σ h8e hp
  simp only [h8Entries, Bool.and_eq_true] at h8e
  simp only [hseEntries, Bool.or_eq_false_iff] at hp
  simp only [evalEntries, ← ihv σ h8e.1 hp.1]
  exact bind_congr fun vs σ1 _ => ih t i _ h8e.2 hp.2

theorem indepEntries_keyed {ke v : Expr} {rest : List Entry} (ihk : Indep E call ρ k call' ρ' k' env ke)
    (ihv : Indep E call ρ k call' ρ' k' env v) (ih : IndepEntries E call ρ k call' ρ' k' env rest) :
    IndepEntries E call ρ k call' ρ' k' env (.keyed ke v :: rest) := by
  intro t i σ h8e hp
  simp only [h8Entries, Bool.and_eq_true] at h8e
  simp only [hseEntries, Bool.or_eq_false_iff] at hp
  simp only [evalEntries, ← ihk σ h8e.1.1 hp.1.1]
  refine bind_congr fun ks σ1 _ => ?_
  rw [← ihv σ1 h8e.1.2 hp.1.2]
  refine bind_congr fun vs σ2 _ => ?_
  split
  · rfl
  · split
    · rfl
    · exact ih t i _ h8e.2 hp.2
  · exact ih t i _ h8e.2 hp.2

theorem indep_table {entries : List Entry} (ih : IndepEntries E call ρ k call' ρ' k' env entries) :
    Indep E call ρ k call' ρ' k' env (.table entries) := by
  intro σ h8e hp
  simp only [h8, hasSideEffects] at h8e hp
  simp only [evalE, ih _ 1 _ h8e hp]

theorem indep_impure {e : Expr} (h : hasSideEffects E false e = true) : Indep E call ρ k call' ρ' k' env e := by
  intro σ _ hp
  rw [h] at hp
  cases hp

mutual
  theorem indep (A : Agree N E) (hk : 1 ≤ k) (hk' : 1 ≤ k') : (e : Expr) → Indep E call ρ k call' ρ' k' env e
    | .nil => indep_leaf E call ρ k call' ρ' k' env fun _ => by simp only [evalE]
    | .true => indep_leaf E call ρ k call' ρ' k' env fun _ => by simp only [evalE]
    | .false => indep_leaf E call ρ k call' ρ' k' env fun _ => by simp only [evalE]
    | .vararg => indep_leaf E call ρ k call' ρ' k' env fun _ => by simp only [evalE]
    | .num _ => indep_leaf E call ρ k call' ρ' k' env fun _ => by simp only [evalE]
    | .str _ => indep_leaf E call ρ k call' ρ' k' env fun _ => by simp only [evalE]
    | .var _ => indep_leaf E call ρ k call' ρ' k' env fun _ => by simp only [evalE]
    | .fn _ => indep_leaf E call ρ k call' ρ' k' env fun _ => by simp only [evalE]
    | .paren e => indep_paren E call ρ k call' ρ' k' env (indep A hk hk' e)
    | .un op e => indep_un E call ρ k call' ρ' k' env A op (indep A hk hk' e)
    | .bin .and l r => indep_and E call ρ k call' ρ' k' env A (indep A hk hk' l) (indep A hk hk' r)
    | .bin .or l r => indep_or E call ρ k call' ρ' k' env A (indep A hk hk' l) (indep A hk hk' r)
    | .bin .eq l r => indep_binop E call ρ k call' ρ' k' env A (by decide) (by decide) (indep A hk hk' l) (indep A hk hk' r)
    | .bin .ne l r => indep_binop E call ρ k call' ρ' k' env A (by decide) (by decide) (indep A hk hk' l) (indep A hk hk' r)
    | .bin .lt l r => indep_binop E call ρ k call' ρ' k' env A (by decide) (by decide) (indep A hk hk' l) (indep A hk hk' r)
    | .bin .le l r => indep_binop E call ρ k call' ρ' k' env A (by decide) (by decide) (indep A hk hk' l) (indep A hk hk' r)
    | .bin .gt l r => indep_binop E call ρ k call' ρ' k' env A (by decide) (by decide) (indep A hk hk' l) (indep A hk hk' r)
    | .bin .ge l r => indep_binop E call ρ k call' ρ' k' env A (by decide) (by decide) (indep A hk hk' l) (indep A hk hk' r)
    | .bin .add l r => indep_binop E call ρ k call' ρ' k' env A (by decide) (by decide) (indep A hk hk' l) (indep A hk hk' r)
    | .bin .sub l r => indep_binop E call ρ k call' ρ' k' env A (by decide) (by decide) (indep A hk hk' l) (indep A hk hk' r)
    | .bin .mul l r => indep_binop E call ρ k call' ρ' k' env A (by decide) (by decide) (indep A hk hk' l) (indep A hk hk' r)
    | .bin .div l r => indep_binop E call ρ k call' ρ' k' env A (by decide) (by decide) (indep A hk hk' l) (indep A hk hk' r)
    | .bin .idiv l r => indep_binop E call ρ k call' ρ' k' env A (by decide) (by decide) (indep A hk hk' l) (indep A hk hk' r)
    | .bin .mod l r => indep_binop E call ρ k call' ρ' k' env A (by decide) (by decide) (indep A hk hk' l) (indep A hk hk' r)
    | .bin .pow l r => indep_binop E call ρ k call' ρ' k' env A (by decide) (by decide) (indep A hk hk' l) (indep A hk hk' r)
    | .bin .concat l r => indep_binop E call ρ k call' ρ' k' env A (by decide) (by decide) (indep A hk hk' l) (indep A hk hk' r)
    | .call _ _ _ _ => indep_impure E call ρ k call' ρ' k' env rfl
    | .field _ _ => indep_impure E call ρ k call' ρ' k' env (by simp [hasSideEffects])
    | .index _ _ => indep_impure E call ρ k call' ρ' k' env (by simp [hasSideEffects])
    | .table entries => indep_table E call ρ k call' ρ' k' env (indepEntries A hk hk' entries)
    | .ifx c t elifs e =>
      indep_ifx E call ρ k call' ρ' k' env A (indep A hk hk' c) (indep A hk hk' t) (indepElifs A hk hk' elifs)
        (indep A hk hk' e)
    | .interp segs => indep_interp E call ρ k call' ρ' k' env (indepSegs A hk hk' segs)
    | .cast e ty => indep_cast E call ρ k call' ρ' k' env ty (indep A hk hk' e)
    | .inst e tys => indep_inst E call ρ k call' ρ' k' env tys (indep A hk hk' e)
  theorem indepElifs (A : Agree N E) (hk : 1 ≤ k) (hk' : 1 ≤ k') :
      (elifs : List (Expr × Expr)) → IndepElifs E call ρ k call' ρ' k' env elifs
    | [] => indepElifs_nil E call ρ k call' ρ' k' env
    | (c, t) :: rest =>
      indepElifs_cons E call ρ k call' ρ' k' env A (indep A hk hk' c) (indep A hk hk' t) (indepElifs A hk hk' rest)
  theorem indepSegs (A : Agree N E) (hk : 1 ≤ k) (hk' : 1 ≤ k') :
      (segs : List Seg) → IndepSegs E call ρ k call' ρ' k' env segs
    | [] => indepSegs_nil E call ρ k call' ρ' k' env
    | .s b :: rest => indepSegs_s E call ρ k call' ρ' k' env b (indepSegs A hk hk' rest)
    | .v e :: rest => indepSegs_v E call ρ k call' ρ' k' env A hk hk' (indep A hk hk' e) (indepSegs A hk hk' rest)
  theorem indepEntries (A : Agree N E) (hk : 1 ≤ k) (hk' : 1 ≤ k') :
      (entries : List Entry) → IndepEntries E call ρ k call' ρ' k' env entries
    | [] => indepEntries_nil E call ρ k call' ρ' k' env
    | .pos v :: rest => indepEntries_pos E call ρ k call' ρ' k' env (indep A hk hk' v) (indepEntries A hk hk' rest)
    | .named key v :: rest =>
      indepEntries_named E call ρ k call' ρ' k' env key (indep A hk hk' v) (indepEntries A hk hk' rest)
    | .keyed kk v :: rest =>
      indepEntries_keyed E call ρ k call' ρ' k' env (indep A hk hk' kk) (indep A hk hk' v) (indepEntries A hk hk' rest)
end

end indep
end DarkluaModel.C08
