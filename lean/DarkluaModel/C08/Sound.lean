import DarkluaModel.C08.Lemmas
/-!
The induction behind the C08 theorems: for every expression `e` inside `h8`, every error-free
evaluation on the reference semantics returns what `evaluate` says (`Sound`), and when
`hasSideEffects` is false it only allocates (`Extra`: frame + freshness of the value).
One lemma per syntactic case; `good` ties them by structural recursion.
-/
namespace DarkluaModel.C08
open Sem Evaluator

section main
variable {N : NumOps} (E : EvalOps N) (call : CallFn N) (ρ : ExtOracle N) (k : Nat) (env : Env N)

/-- what is proved of one expression, in every state -/
def Good (e : Expr) : Prop :=
  ∀ σ σ' vs, h8 E e = true → evalE call ρ k env e σ = .ok vs σ' →
    Sound (evaluate E e) vs ∧ (hasSideEffects E false e = false → Extra (evaluate E e) vs σ σ')

theorem good_unknown_impure {e : Expr} (hv : evaluate E e = .unknown) (hs : hasSideEffects E false e = true) :
    Good E call ρ k env e := by
  intro σ σ' vs _ _
  rw [hv, hs]
  exact ⟨Sound.unknown _, fun h => by cases h⟩

theorem good_nil : Good E call ρ k env .nil := by
  intro σ σ' vs _ hr
  simp only [evalE] at hr
  cases hr
  exact ⟨Or.inr ⟨_, rfl, rfl⟩, fun _ => ⟨Frame.refl _, trivial⟩⟩

theorem good_true : Good E call ρ k env .true := by
  intro σ σ' vs _ hr
  simp only [evalE] at hr
  cases hr
  exact ⟨Or.inr ⟨_, rfl, rfl⟩, fun _ => ⟨Frame.refl _, trivial⟩⟩

theorem good_false : Good E call ρ k env .false := by
  intro σ σ' vs _ hr
  simp only [evalE] at hr
  cases hr
  exact ⟨Or.inr ⟨_, rfl, rfl⟩, fun _ => ⟨Frame.refl _, trivial⟩⟩

theorem good_num (b : UInt64) : Good E call ρ k env (.num b) := by
  intro σ σ' vs _ hr
  simp only [evalE] at hr
  cases hr
  exact ⟨Or.inr ⟨_, rfl, rfl⟩, fun _ => ⟨Frame.refl _, trivial⟩⟩

theorem good_str (s : List UInt8) : Good E call ρ k env (.str s) := by
  intro σ σ' vs _ hr
  simp only [evalE] at hr
  cases hr
  exact ⟨Or.inr ⟨_, rfl, rfl⟩, fun _ => ⟨Frame.refl _, trivial⟩⟩

theorem good_var (n : String) : Good E call ρ k env (.var n) := by
  intro σ σ' vs _ hr
  simp only [evalE] at hr
  cases hr
  exact ⟨Sound.unknown _, fun _ => Extra.unknown (Frame.refl _)⟩

theorem good_vararg : Good E call ρ k env .vararg := by
  intro σ σ' vs _ hr
  simp only [evalE] at hr
  cases hr
  exact ⟨Sound.unknown _, fun _ => Extra.unknown (Frame.refl _)⟩

theorem good_fn (body : FnBody) : Good E call ρ k env (.fn body) := by
  intro σ σ' vs _ hr
  simp only [evalE, State.allocClosure] at hr
  cases hr
  refine ⟨Or.inr ⟨_, rfl, ⟨_, rfl⟩⟩, fun _ => ⟨⟨rfl, rfl, rfl, List.prefix_refl _, List.prefix_append _ _⟩, ?_⟩⟩
  simp [evaluate, first, FreshV]

theorem good_paren {e : Expr} (ih : Good E call ρ k env e) : Good E call ρ k env (.paren e) := by
  intro σ σ' vs h8e hr
  simp only [evalE] at hr
  obtain ⟨a, σ1, h1, h2⟩ := bind_ok hr
  cases h2
  simp only [h8] at h8e
  obtain ⟨s, x⟩ := ih σ σ' a h8e h1
  simp only [evaluate, hasSideEffects]
  exact ⟨s.first, fun hp => (x hp).first⟩

theorem good_cast {e : Expr} (ty : Ty) (ih : Good E call ρ k env e) : Good E call ρ k env (.cast e ty) := by
  intro σ σ' vs h8e hr
  simp only [evalE] at hr
  obtain ⟨a, σ1, h1, h2⟩ := bind_ok hr
  cases h2
  simp only [h8] at h8e
  obtain ⟨s, x⟩ := ih σ σ' a h8e h1
  simp only [evaluate, hasSideEffects]
  exact ⟨s.first, fun hp => (x hp).first⟩

theorem good_inst {e : Expr} (tys : List Ty) (ih : Good E call ρ k env e) : Good E call ρ k env (.inst e tys) := by
  intro σ σ' vs h8e hr
  simp only [evalE] at hr
  obtain ⟨a, σ1, h1, h2⟩ := bind_ok hr
  cases h2
  simp only [h8] at h8e
  obtain ⟨s, x⟩ := ih σ σ' a h8e h1
  simp only [evaluate, hasSideEffects]
  split
  · exact ⟨s.first, fun hp => (x hp).first⟩
  · exact ⟨Sound.unknown _, fun hp => Extra.unknown (x hp).frame⟩


theorem maybeMeta_eq (v : LuaValue N) : maybeMetatable v = isUnknown v := by cases v <;> rfl

theorem FreshV.ofBool (b : Bool) (w : Val N) (σ σ' : State N) : FreshV (LuaValue.ofBool b : LuaValue N) w σ σ' := by
  cases b <;> simp [LuaValue.ofBool, FreshV]

theorem evaluateUnary_fresh (op : UnOp) (v : LuaValue N) (w : Val N) (σ σ' : State N) :
    FreshV (evaluateUnary E op v) w σ σ' := by
  cases op <;> simp only [evaluateUnary]
  · split <;> simp [FreshV]
  · split
    · exact FreshV.ofBool _ _ _ _
    · simp [FreshV]
  · cases v <;> simp [LuaValue.length, FreshV]

theorem evaluateEqual_cases (vl vr : LuaValue N) :
    evaluateEqual E vl vr = .unknown ∨ ∃ b, evaluateEqual E vl vr = LuaValue.ofBool b := by
  cases vl <;> cases vr <;> simp only [evaluateEqual] <;>
    first
      | exact Or.inl trivial
      | exact Or.inl rfl
      | exact Or.inr ⟨true, rfl⟩
      | exact Or.inr ⟨false, rfl⟩
      | exact Or.inr ⟨_, rfl⟩

theorem evaluateRelational_fresh (op : BinOp) (vl vr : LuaValue N) (w : Val N) (σ σ' : State N) :
    FreshV (evaluateRelational op vl vr) w σ σ' := by
  cases vl <;> simp only [evaluateRelational] <;> (try (simp [FreshV]; done)) <;>
    cases vr <;> simp only [] <;> (try (simp [FreshV]; done)) <;>
    cases op <;> simp only [] <;> first | exact FreshV.ofBool _ _ _ _ | simp [FreshV]

theorem evaluateBinary_fresh {op : BinOp} (h1 : op ≠ .and) (h2 : op ≠ .or) (vl vr : LuaValue N) (w : Val N)
    (σ σ' : State N) : FreshV (evaluateBinary E op vl vr) w σ σ' := by
  cases op <;> simp only [evaluateBinary] <;> (try contradiction)
  · rcases evaluateEqual_cases E vl vr with h | ⟨b, h⟩ <;> rw [h]
    · simp [FreshV]
    · exact FreshV.ofBool _ _ _ _
  · rcases evaluateEqual_cases E vl vr with h | ⟨b, h⟩ <;> rw [h]
    · simp [FreshV]
    · cases b <;> simp [LuaValue.ofBool, FreshV]
  all_goals first
    | exact evaluateRelational_fresh _ _ _ _ _ _
    | (simp only [mathOp, evaluateMath]; split <;> (try split) <;> simp [FreshV])
    | (split <;> simp [FreshV])

theorem binopVal_frame {op : BinOp} {a b w : Val N} {σ σ' : State N}
    (ha : σ.metaOf a = none) (hb : σ.metaOf b = none)
    (h : binopVal call ρ k op a b σ = .ok w σ') : σ' = σ := by
  cases op
  case and => simp only [binopVal] at h; cases h; rfl
  case or => simp only [binopVal] at h; cases h; rfl
  case eq => rw [binopVal_eq (fun _ _ _ _ => ⟨ha, hb⟩)] at h; cases h; rfl
  case ne => rw [binopVal_ne (fun _ _ _ _ => ⟨ha, hb⟩)] at h; cases h; rfl
  case lt => exact (binopVal_rel (Or.inl rfl) ha hb h).1
  case le => exact (binopVal_rel (Or.inr (Or.inl rfl)) ha hb h).1
  case gt => exact (binopVal_rel (Or.inr (Or.inr (Or.inl rfl))) ha hb h).1
  case ge => exact (binopVal_rel (Or.inr (Or.inr (Or.inr rfl))) ha hb h).1
  case concat => exact (binopVal_concat ha hb h).1
  all_goals exact (binopVal_arith (f := _) rfl ha hb h).1

theorem good_un (A : Agree N E) {e : Expr} (op : UnOp) (ih : Good E call ρ k env e) : Good E call ρ k env (.un op e) := by
  intro σ σ' vs h8e hr
  simp only [evalE] at hr
  obtain ⟨a, σ1, h1, h2⟩ := bind_ok hr
  obtain ⟨w, σ2, h3, h4⟩ := bind_ok h2
  cases h4
  simp only [h8] at h8e
  obtain ⟨s, x⟩ := ih σ σ1 a h8e h1
  simp only [evaluate]
  refine ⟨Sound.of_vm (evaluateUnary_sound A s.vm h3), fun hp => ?_⟩
  refine ⟨?_, evaluateUnary_fresh E _ _ _ _ _⟩
  simp only [hasSideEffects, Bool.false_or] at hp
  cases op
  · -- neg
    simp only [Bool.false_eq_true, if_false, Bool.or_eq_false_iff, maybeMeta_eq] at hp
    have ex := x hp.2
    have := (unopVal_neg (metaOf_fresh s.vm hp.1 ex.fresh) h3).1
    subst this
    exact ex.frame
  · -- not
    simp only [if_true] at hp
    simp only [unopVal] at h3
    cases h3
    exact (x hp).frame
  · -- len
    simp only [Bool.false_eq_true, if_false, Bool.or_eq_false_iff, maybeMeta_eq] at hp
    have ex := x hp.2
    have := (unopVal_len (metaOf_fresh s.vm hp.1 ex.fresh) h3).1
    subst this
    exact ex.frame


theorem good_and {l r : Expr} (ihl : Good E call ρ k env l) (ihr : Good E call ρ k env r) :
    Good E call ρ k env (.bin .and l r) := by
  intro σ σ' vs h8e hr
  simp only [evalE] at hr
  simp only [h8, Bool.and_eq_true, and_true] at h8e
  obtain ⟨a, σ1, h1, h2⟩ := bind_ok hr
  obtain ⟨sl, xl⟩ := ihl σ σ1 a h8e.1 h1
  simp only [evaluate, evaluateBinary, hasSideEffects]
  cases htl : (evaluate E l).isTruthy with
  | none =>
    refine ⟨Sound.unknown _, fun hp => ?_⟩
    simp only [Option.getD_none, if_true, Bool.or_eq_false_iff] at hp
    split at h2
    · obtain ⟨b, σ2, h3, h4⟩ := bind_ok h2
      cases h4
      exact Extra.unknown ((xl hp.1).frame.trans ((ihr σ1 σ' b h8e.2 h3).2 hp.2).frame)
    · cases h2
      exact Extra.unknown (xl hp.1).frame
  | some tb =>
    have ht := VM.truthy sl.vm htl
    cases tb
    · -- statically falsy: the left value
      simp only [ht, Bool.false_eq_true, if_false] at h2
      cases h2
      refine ⟨sl.first, fun hp => ?_⟩
      simp only [Option.getD_some, Bool.false_eq_true, if_false] at hp
      exact (xl hp).first
    · simp only [ht, if_true] at h2
      obtain ⟨b, σ2, h3, h4⟩ := bind_ok h2
      cases h4
      obtain ⟨sr, xr⟩ := ihr σ1 σ' b h8e.2 h3
      refine ⟨sr.first, fun hp => ?_⟩
      simp only [Option.getD_some, if_true, Bool.or_eq_false_iff] at hp
      exact ((xr hp.2).left (xl hp.1).frame).first

theorem good_or {l r : Expr} (ihl : Good E call ρ k env l) (ihr : Good E call ρ k env r) :
    Good E call ρ k env (.bin .or l r) := by
  intro σ σ' vs h8e hr
  simp only [evalE] at hr
  simp only [h8, Bool.and_eq_true, and_true] at h8e
  obtain ⟨a, σ1, h1, h2⟩ := bind_ok hr
  obtain ⟨sl, xl⟩ := ihl σ σ1 a h8e.1 h1
  simp only [evaluate, evaluateBinary, hasSideEffects]
  cases htl : (evaluate E l).isTruthy with
  | none =>
    refine ⟨Sound.unknown _, fun hp => ?_⟩
    simp only [Option.getD_none, Bool.false_eq_true, if_false, Bool.or_eq_false_iff] at hp
    split at h2
    · cases h2
      exact Extra.unknown (xl hp.1).frame
    · obtain ⟨b, σ2, h3, h4⟩ := bind_ok h2
      cases h4
      exact Extra.unknown ((xl hp.1).frame.trans ((ihr σ1 σ' b h8e.2 h3).2 hp.2).frame)
  | some tb =>
    have ht := VM.truthy sl.vm htl
    cases tb
    · simp only [ht, Bool.false_eq_true, if_false] at h2
      obtain ⟨b, σ2, h3, h4⟩ := bind_ok h2
      cases h4
      obtain ⟨sr, xr⟩ := ihr σ1 σ' b h8e.2 h3
      refine ⟨sr.first, fun hp => ?_⟩
      simp only [Option.getD_some, Bool.false_eq_true, if_false, Bool.or_eq_false_iff] at hp
      exact ((xr hp.2).left (xl hp.1).frame).first
    · simp only [ht, if_true] at h2
      cases h2
      refine ⟨sl.first, fun hp => ?_⟩
      simp only [Option.getD_some, if_true] at hp
      exact (xl hp).first


theorem evalE_binop {op : BinOp} (h1 : op ≠ .and) (h2 : op ≠ .or) (l r : Expr) (σ : State N) :
    evalE call ρ k env (.bin op l r) σ =
      (evalE call ρ k env l σ).bind fun vs σ1 =>
        (evalE call ρ k env r σ1).bind fun ws σ2 =>
          (binopVal call ρ k op (first vs) (first ws) σ2).bind fun v σ3 => .ok [v] σ3 := by
  cases op <;> first | contradiction | simp only [evalE]

theorem hse_binop {op : BinOp} (h1 : op ≠ .and) (h2 : op ≠ .or) (l r : Expr) :
    hasSideEffects E false (.bin op l r) =
      (maybeMetatable (evaluate E l) || maybeMetatable (evaluate E r) || hasSideEffects E false l ||
        hasSideEffects E false r) := by
  cases op <;> first | contradiction | simp [hasSideEffects]

theorem VM.tbl {v : LuaValue N} {x : Nat} (h : VM v (.tbl x)) (hu : isUnknown v = false) : v = .table := by
  cases v <;> simp [isUnknown] at hu <;> simp [VM] at h <;> rfl

theorem evaluateEqual_unknown {vl vr : LuaValue N} (h : isUnknown vl = true ∨ isUnknown vr = true) :
    evaluateEqual E vl vr = .unknown := by
  cases vl <;> cases vr <;> simp [isUnknown] at h <;> simp [evaluateEqual]

theorem VM.neBool {v : LuaValue N} {c : Bool} (h : VM v (.bool c)) :
    VM (match v with | .true_ => .false_ | .false_ => .true_ | _ => (.unknown : LuaValue N)) (.bool (!c)) := by
  cases v <;> simp only [VM] at h ⊢ <;> (try trivial) <;> cases h <;> rfl

theorem eq_prep {vl vr : LuaValue N} {a b : Val N} {σ : State N} (hl : VM vl a) (hr : VM vr b)
    (hmeta : vl = .table → vr = .table → σ.metaOf a = none ∧ σ.metaOf b = none ∧ a ≠ b) :
    (isUnknown vl = true ∨ isUnknown vr = true) ∨
      (∀ x y, a = .tbl x → b = .tbl y → σ.metaOf a = none ∧ σ.metaOf b = none) := by
  cases hul : isUnknown vl
  · cases hur : isUnknown vr
    · refine Or.inr fun x y ha hb => ?_
      subst ha hb
      have := hmeta (hl.tbl hul) (hr.tbl hur)
      exact ⟨this.1, this.2.1⟩
    · exact Or.inl (Or.inr rfl)
  · exact Or.inl (Or.inl rfl)

theorem binop_value_sound (A : Agree N E) {op : BinOp} (h1 : op ≠ .and) (h2 : op ≠ .or)
    {vl vr : LuaValue N} {a b w : Val N} {σ σ' : State N} (hl : VM vl a) (hr : VM vr b)
    (hmeta : (op = .eq ∨ op = .ne) → vl = .table → vr = .table → σ.metaOf a = none ∧ σ.metaOf b = none ∧ a ≠ b)
    (hfn : (op = .eq ∨ op = .ne) → vl = .function → vr = .function → a ≠ b)
    (h : binopVal call ρ k op a b σ = .ok w σ') : VM (evaluateBinary E op vl vr) w := by
  cases op <;> (try contradiction)
  case eq =>
    simp only [evaluateBinary]
    rcases eq_prep hl hr (hmeta (Or.inl rfl)) with hu | hm
    · rw [evaluateEqual_unknown E hu]; trivial
    · rw [binopVal_eq hm] at h
      cases h
      exact evaluateEqual_sound hl hr (fun x y => (hmeta (Or.inl rfl) x y).2.2) (hfn (Or.inl rfl))
  case ne =>
    simp only [evaluateBinary]
    rcases eq_prep hl hr (hmeta (Or.inr rfl)) with hu | hm
    · rw [evaluateEqual_unknown E hu]; trivial
    · rw [binopVal_ne hm] at h
      cases h
      exact (evaluateEqual_sound hl hr (fun x y => (hmeta (Or.inr rfl) x y).2.2) (hfn (Or.inr rfl))).neBool
  case concat => exact evaluateConcat_sound A hl hr h
  case lt => exact evaluateRelational_sound (Or.inl rfl) hl hr h
  case le => exact evaluateRelational_sound (Or.inr (Or.inl rfl)) hl hr h
  case gt => exact evaluateRelational_sound (Or.inr (Or.inr (Or.inl rfl))) hl hr h
  case ge => exact evaluateRelational_sound (Or.inr (Or.inr (Or.inr rfl))) hl hr h
  all_goals exact evaluateMath_sound A rfl hl hr h

theorem h8_binop {op : BinOp} {l r : Expr} (h : h8 E (.bin op l r) = true) :
    h8 E l = true ∧ h8 E r = true ∧ True ∧
    ((op = .eq ∨ op = .ne) → refEqOK E l r = true) := by
  simp only [h8, Bool.and_eq_true] at h
  refine ⟨h.1.1, h.1.2, trivial, ?_⟩
  · intro hop
    rcases hop with rfl | rfl <;> simp_all

theorem fresh_tbl_lt {a b : Val N} {σ σ1 σ2 : State N}
    (fa : FreshV (.table : LuaValue N) a σ σ1) (fb : FreshV (.table : LuaValue N) b σ1 σ2)
    (ha : ∃ t, a = .tbl t) (hb : ∃ t, b = .tbl t) : a ≠ b := by
  obtain ⟨t1, rfl⟩ := ha
  obtain ⟨t2, rfl⟩ := hb
  simp only [FreshV] at fa fb
  intro h
  cases h
  omega

theorem fresh_fn_lt {a b : Val N} {σ σ1 σ2 : State N}
    (fa : FreshV (.function : LuaValue N) a σ σ1) (fb : FreshV (.function : LuaValue N) b σ1 σ2)
    (ha : ∃ t, a = .fn t) (hb : ∃ t, b = .fn t) : a ≠ b := by
  obtain ⟨t1, rfl⟩ := ha
  obtain ⟨t2, rfl⟩ := hb
  simp only [FreshV] at fa fb
  intro h
  cases h
  omega

theorem refEq_pure {l r : Expr} (h : refEqOK E l r = true)
    (hv : (evaluate E l = .table ∧ evaluate E r = .table) ∨ (evaluate E l = .function ∧ evaluate E r = .function)) :
    hasSideEffects E false l = false ∧ hasSideEffects E false r = false := by
  rcases hv with ⟨h1, h2⟩ | ⟨h1, h2⟩ <;> simp [refEqOK, h1, h2] at h <;> exact h

theorem good_binop (A : Agree N E) {op : BinOp} (h1 : op ≠ .and) (h2 : op ≠ .or) {l r : Expr}
    (ihl : Good E call ρ k env l) (ihr : Good E call ρ k env r) : Good E call ρ k env (.bin op l r) := by
  intro σ σ' vs h8e hr
  rw [evalE_binop call ρ k env h1 h2] at hr
  obtain ⟨a, σ1, e1, hr⟩ := bind_ok hr
  obtain ⟨b, σ2, e2, hr⟩ := bind_ok hr
  obtain ⟨w, σ3, e3, hr⟩ := bind_ok hr
  cases hr
  obtain ⟨h8l, h8r, _, href⟩ := h8_binop E h8e
  obtain ⟨sl, xl⟩ := ihl σ σ1 a h8l e1
  obtain ⟨sr, xr⟩ := ihr σ1 σ2 b h8r e2
  simp only [evaluate]
  refine ⟨Sound.of_vm (binop_value_sound E call ρ k A h1 h2 sl.vm sr.vm ?_ ?_ e3), fun hp => ?_⟩
  · intro hop hvl hvr
    obtain ⟨pl, pr⟩ := refEq_pure E (href hop) (Or.inl ⟨hvl, hvr⟩)
    have fl := (xl pl).fresh
    have fr := (xr pr).fresh
    have vl := sl.vm
    have vr := sr.vm
    rw [hvl] at fl vl
    rw [hvr] at fr vr
    refine ⟨?_, ?_, fresh_tbl_lt fl fr vl vr⟩
    · exact metaOf_fresh (v := .table) vl rfl (fl.right (xr pr).frame)
    · exact metaOf_fresh (v := .table) vr rfl fr
  · intro hop hvl hvr
    obtain ⟨pl, pr⟩ := refEq_pure E (href hop) (Or.inr ⟨hvl, hvr⟩)
    have fl := (xl pl).fresh
    have fr := (xr pr).fresh
    have vl := sl.vm
    have vr := sr.vm
    rw [hvl] at fl vl
    rw [hvr] at fr vr
    exact fresh_fn_lt fl fr vl vr
  · rw [hse_binop E h1 h2] at hp
    simp only [Bool.or_eq_false_iff, maybeMeta_eq] at hp
    obtain ⟨⟨⟨ul, ur⟩, pl⟩, pr⟩ := hp
    have ma : σ2.metaOf (first a) = none := metaOf_fresh sl.vm ul ((xl pl).fresh.right (xr pr).frame)
    have mb : σ2.metaOf (first b) = none := metaOf_fresh sr.vm ur (xr pr).fresh
    have := binopVal_frame call ρ k ma mb e3
    subst this
    exact ⟨(xl pl).frame.trans (xr pr).frame, evaluateBinary_fresh E h1 h2 _ _ _ _ _⟩


def GoodElifs (elifs : List (Expr × Expr)) : Prop :=
  ∀ σ σ' r, h8Elifs E elifs = true → evalElifs call ρ k env elifs σ = .ok r σ' →
    (match r with
     | some vs => ∃ v, evaluateElifs E elifs = some v ∧ Sound v vs ∧
         (hseElifsKnown E false elifs ≠ some true → Extra v vs σ σ')
     | none => (evaluateElifs E elifs = none ∨ evaluateElifs E elifs = some .unknown) ∧
         (hseElifsKnown E false elifs ≠ some true → Frame σ σ' ∧ hseElifsKnown E false elifs = none)) ∧
    (hseElifsAll E false elifs = false → Frame σ σ')

theorem goodElifs_nil : GoodElifs E call ρ k env [] := by
  intro σ σ' r _ hr
  simp only [evalElifs] at hr
  cases hr
  exact ⟨⟨Or.inl rfl, fun _ => ⟨Frame.refl _, rfl⟩⟩, fun _ => Frame.refl _⟩

theorem goodElifs_cons {c t : Expr} {rest : List (Expr × Expr)} (ihc : Good E call ρ k env c)
    (iht : Good E call ρ k env t) (ihr : GoodElifs E call ρ k env rest) :
    GoodElifs E call ρ k env ((c, t) :: rest) := by
  intro σ σ' r h8e hr
  simp only [evalElifs] at hr
  simp only [h8Elifs, Bool.and_eq_true] at h8e
  obtain ⟨⟨h8c, h8t⟩, h8r⟩ := h8e
  obtain ⟨cv, σ1, e1, hr⟩ := bind_ok hr
  obtain ⟨sc, xc⟩ := ihc σ σ1 cv h8c e1
  simp only [evaluateElifs, hseElifsKnown, hseElifsAll]
  by_cases hrt : (first cv).truthy = true
  · -- the branch is taken at run time
    simp only [hrt, if_true] at hr
    obtain ⟨tv, σ2, e2, hr⟩ := bind_ok hr
    cases hr
    obtain ⟨st, xt⟩ := iht σ1 σ' tv h8t e2
    refine ⟨?_, fun hp => ?_⟩
    · cases htc : (evaluate E c).isTruthy with
      | none =>
        refine ⟨_, rfl, Sound.unknown _, fun hk => ?_⟩
        by_cases hpc : hasSideEffects E false c = true
        · simp [hpc] at hk
        · simp only [hpc, Bool.false_eq_true, if_false] at hk
          by_cases hpt : hasSideEffects E false t = true
          · simp [hpt] at hk
          · exact Extra.unknown ((xc (by simpa using hpc)).frame.trans (xt (by simpa using hpt)).frame)
      | some tb =>
        have := VM.truthy sc.vm htc
        rw [hrt] at this
        subst this
        refine ⟨_, rfl, st.first, fun hk => ?_⟩
        by_cases hpc : hasSideEffects E false c = true
        · simp [hpc] at hk
        · simp only [hpc, Bool.false_eq_true, if_false] at hk
          by_cases hpt : hasSideEffects E false t = true
          · simp [hpt] at hk
          · exact ((xt (by simpa using hpt)).left (xc (by simpa using hpc)).frame).first
    · simp only [Bool.or_eq_true] at hp
      by_cases hpc : hasSideEffects E false c = true
      · simp [hpc] at hp
      · by_cases hpt : hasSideEffects E false t = true
        · simp [hpt] at hp
        · exact (xc (by simpa using hpc)).frame.trans (xt (by simpa using hpt)).frame
  · -- the branch is skipped at run time
    simp only [hrt, Bool.false_eq_true, if_false] at hr
    obtain ⟨p1, p2⟩ := ihr σ1 σ' r h8r hr
    refine ⟨?_, fun hp => ?_⟩
    · cases htc : (evaluate E c).isTruthy with
      | none =>
        cases r with
        | some vs =>
          obtain ⟨v, _, _, xv⟩ := p1
          refine ⟨_, rfl, Sound.unknown _, fun hk => ?_⟩
          by_cases hpc : hasSideEffects E false c = true
          · simp [hpc] at hk
          · simp only [hpc, Bool.false_eq_true, if_false] at hk
            by_cases hpt : hasSideEffects E false t = true
            · simp [hpt] at hk
            · simp only [hpt, Bool.false_eq_true, if_false] at hk
              exact Extra.unknown ((xc (by simpa using hpc)).frame.trans (xv hk).frame)
        | none =>
          refine ⟨Or.inr rfl, fun hk => ?_⟩
          by_cases hpc : hasSideEffects E false c = true
          · simp [hpc] at hk
          · simp only [hpc, Bool.false_eq_true, if_false] at hk ⊢
            by_cases hpt : hasSideEffects E false t = true
            · simp [hpt] at hk
            · simp only [hpt, Bool.false_eq_true, if_false] at hk ⊢
              obtain ⟨f, hn⟩ := p1.2 hk
              exact ⟨(xc (by simpa using hpc)).frame.trans f, hn⟩
      | some tb =>
        have := VM.truthy sc.vm htc
        have hb : tb = false := by
          cases tb
          · rfl
          · exact absurd this hrt
        subst hb
        cases r with
        | some vs =>
          obtain ⟨v, hv, sv, xv⟩ := p1
          refine ⟨v, hv, sv, fun hk => ?_⟩
          by_cases hpc : hasSideEffects E false c = true
          · simp [hpc] at hk
          · simp only [hpc, Bool.false_eq_true, if_false] at hk
            exact (xv hk).left (xc (by simpa using hpc)).frame
        | none =>
          refine ⟨p1.1, fun hk => ?_⟩
          by_cases hpc : hasSideEffects E false c = true
          · simp [hpc] at hk
          · simp only [hpc, Bool.false_eq_true, if_false] at hk ⊢
            obtain ⟨f, hn⟩ := p1.2 hk
            exact ⟨(xc (by simpa using hpc)).frame.trans f, hn⟩
    · by_cases hpc : hasSideEffects E false c = true
      · simp [hpc] at hp
      · by_cases hpt : hasSideEffects E false t = true
        · simp [hpt] at hp
        · simp only [hpc, hpt, Bool.or_self, Bool.false_eq_true, if_false] at hp
          exact (xc (by simpa using hpc)).frame.trans (p2 hp)


theorem good_ifx {c t e : Expr} {elifs : List (Expr × Expr)} (ihc : Good E call ρ k env c)
    (iht : Good E call ρ k env t) (ihs : GoodElifs E call ρ k env elifs) (ihe : Good E call ρ k env e) :
    Good E call ρ k env (.ifx c t elifs e) := by
  intro σ σ' vs h8e hr
  simp only [evalE] at hr
  simp only [h8, Bool.and_eq_true] at h8e
  obtain ⟨⟨⟨h8c, h8t⟩, h8s⟩, h8e'⟩ := h8e
  obtain ⟨cv, σ1, e1, hr⟩ := bind_ok hr
  obtain ⟨sc, xc⟩ := ihc σ σ1 cv h8c e1
  simp only [evaluate, hasSideEffects]
  by_cases hpc : hasSideEffects E false c = true
  · -- effectful condition: only the value matters
    simp only [hpc, if_true]
    refine ⟨?_, fun h => by cases h⟩
    cases htc : (evaluate E c).isTruthy with
    | none => exact Sound.unknown _
    | some tb =>
      have ht := VM.truthy sc.vm htc
      cases tb
      · simp only [ht, Bool.false_eq_true, if_false] at hr
        obtain ⟨r, σ2, e2, hr⟩ := bind_ok hr
        obtain ⟨p1, _⟩ := ihs σ1 σ2 r h8s e2
        cases r with
        | some ws =>
          cases hr
          obtain ⟨v, hv, sv, _⟩ := p1
          simp only [hv]
          exact sv
        | none =>
          obtain ⟨ev, σ3, e3, hr⟩ := bind_ok hr
          cases hr
          rcases p1.1 with hn | hn <;> simp only [hn]
          · exact (ihe σ2 σ' ev h8e' e3).1.first
          · exact Sound.unknown _
      · simp only [ht, if_true] at hr
        obtain ⟨tv, σ2, e2, hr⟩ := bind_ok hr
        cases hr
        exact (iht σ1 σ' tv h8t e2).1.first
  · have hpc' : hasSideEffects E false c = false := by simpa using hpc
    have fc := (xc hpc').frame
    simp only [hpc', Bool.false_eq_true, if_false]
    cases htc : (evaluate E c).isTruthy with
    | none =>
      refine ⟨Sound.unknown _, fun hp => ?_⟩
      by_cases hpt : hasSideEffects E false t = true
      · simp [hpt] at hp
      · simp only [hpt, Bool.false_eq_true, if_false] at hp
        by_cases hpa : hseElifsAll E false elifs = true
        · simp [hpa] at hp
        · simp only [hpa, Bool.false_eq_true, if_false] at hp
          split at hr
          · obtain ⟨tv, σ2, e2, hr⟩ := bind_ok hr
            cases hr
            exact Extra.unknown (fc.trans ((iht σ1 σ' tv h8t e2).2 (by simpa using hpt)).frame)
          · obtain ⟨r, σ2, e2, hr⟩ := bind_ok hr
            have fs := (ihs σ1 σ2 r h8s e2).2 (by simpa using hpa)
            cases r with
            | some ws => cases hr; exact Extra.unknown (fc.trans fs)
            | none =>
              obtain ⟨ev, σ3, e3, hr⟩ := bind_ok hr
              cases hr
              exact Extra.unknown (fc.trans (fs.trans ((ihe σ2 σ' ev h8e' e3).2 hp).frame))
    | some tb =>
      have ht := VM.truthy sc.vm htc
      cases tb
      · simp only [ht, Bool.false_eq_true, if_false] at hr
        obtain ⟨r, σ2, e2, hr⟩ := bind_ok hr
        obtain ⟨p1, _⟩ := ihs σ1 σ2 r h8s e2
        cases r with
        | some ws =>
          cases hr
          obtain ⟨v, hv, sv, xv⟩ := p1
          simp only [hv]
          refine ⟨sv, fun hp => (xv ?_).left fc⟩
          intro hk
          simp [hk] at hp
        | none =>
          obtain ⟨ev, σ3, e3, hr⟩ := bind_ok hr
          cases hr
          obtain ⟨se, xe⟩ := ihe σ2 σ' ev h8e' e3
          have key : (match hseElifsKnown E false elifs with | some b => b | none => hasSideEffects E false e) = false →
              Frame σ1 σ2 ∧ hasSideEffects E false e = false := by
            intro hp
            have hk : hseElifsKnown E false elifs ≠ some true := by
              intro hk
              simp [hk] at hp
            obtain ⟨f, hn⟩ := p1.2 hk
            simp only [hn] at hp
            exact ⟨f, hp⟩
          rcases p1.1 with hn | hn <;> simp only [hn]
          · exact ⟨se.first, fun hp => (((xe (key hp).2).left (key hp).1).left fc).first⟩
          · exact ⟨Sound.unknown _, fun hp => Extra.unknown (fc.trans ((key hp).1.trans (xe (key hp).2).frame))⟩
      · simp only [ht, if_true] at hr
        obtain ⟨tv, σ2, e2, hr⟩ := bind_ok hr
        cases hr
        obtain ⟨st, xt⟩ := iht σ1 σ' tv h8t e2
        exact ⟨st.first, fun hp => ((xt hp).left fc).first⟩


def GoodSegs (segs : List Seg) : Prop :=
  ∀ acc σ σ' s, h8Segs E segs = true → evalSegs call ρ k env segs acc σ = .ok s σ' →
    (evaluateSegs E segs acc = .unknown ∨ evaluateSegs E segs acc = .string s) ∧
    (hseSegs E false segs = false → Frame σ σ')

theorem goodSegs_nil : GoodSegs E call ρ k env [] := by
  intro acc σ σ' s _ hr
  simp only [evalSegs] at hr
  cases hr
  exact ⟨Or.inr rfl, fun _ => Frame.refl _⟩

theorem goodSegs_s (b : List UInt8) {rest : List Seg} (ih : GoodSegs E call ρ k env rest) :
    GoodSegs E call ρ k env (.s b :: rest) := by
  intro acc σ σ' s h8e hr
  simp only [evalSegs] at hr
  simp only [h8Segs] at h8e
  simp only [evaluateSegs, hseSegs]
  exact ih _ σ σ' s h8e hr

theorem segText_sound {v : LuaValue N} {w : Val N} {t : List UInt8} (hv : VM v w) (ht : segText v = some t) :
    (∀ σ : State N, σ.metaOf w = none) ∧ tostringBasic w = t := by
  cases v <;> simp only [segText] at ht <;> (try (cases ht; done)) <;> simp only [VM] at hv <;> subst hv <;>
    cases ht <;> exact ⟨fun _ => rfl, rfl⟩

theorem goodSegs_v {e : Expr} {rest : List Seg} (ihe : Good E call ρ k env e) (ih : GoodSegs E call ρ k env rest) :
    GoodSegs E call ρ k env (.v e :: rest) := by
  intro acc σ σ' s h8e hr
  simp only [evalSegs] at hr
  simp only [h8Segs, Bool.and_eq_true] at h8e
  obtain ⟨h8v, h8r⟩ := h8e
  obtain ⟨ev, σ1, e1, hr1⟩ := bind_ok hr
  obtain ⟨ts, σ2, e2, hr2⟩ := bind_ok hr1
  obtain ⟨se, xe⟩ := ihe σ σ1 ev h8v e1
  simp only [evaluateSegs, hseSegs, Bool.not_false, Bool.true_and, Bool.or_eq_false_iff, maybeMeta_eq]
  refine ⟨?_, fun hp0 => ?_⟩
  · cases hst : segText (evaluate E e) with
    | none => exact Or.inl rfl
    | some t =>
      obtain ⟨hm, hb⟩ := segText_sound se.vm hst
      obtain ⟨h1, h2⟩ := tostringVal_nometa (hm σ1) e2
      rw [h1, h2, hb] at hr2
      exact (ih _ σ1 σ' s h8r hr2).1
  · have hu : isUnknown (evaluate E e) = false := hp0.1.1
    have hp : hasSideEffects E false e = false ∧ hseSegs E false rest = false := ⟨hp0.1.2, hp0.2⟩
    have ex := xe hp.1
    obtain ⟨h1, _⟩ := tostringVal_nometa (metaOf_fresh se.vm hu ex.fresh) e2
    rw [h1] at hr2
    exact ex.frame.trans ((ih _ σ1 σ' s h8r hr2).2 hp.2)

theorem good_interp {segs : List Seg} (ih : GoodSegs E call ρ k env segs) : Good E call ρ k env (.interp segs) := by
  intro σ σ' vs h8e hr
  simp only [evalE] at hr
  simp only [h8] at h8e
  obtain ⟨s, σ1, e1, hr⟩ := bind_ok hr
  cases hr
  obtain ⟨p1, p2⟩ := ih [] σ σ' s h8e e1
  simp only [evaluate, hasSideEffects]
  rcases p1 with h | h <;> rw [h]
  · exact ⟨Sound.unknown _, fun hp => Extra.unknown (p2 hp)⟩
  · exact ⟨Or.inr ⟨_, rfl, rfl⟩, fun hp => ⟨p2 hp, by simp [FreshV]⟩⟩

def GoodEntries (entries : List Entry) : Prop :=
  ∀ t i σ0 σ σ', h8Entries E entries = true → hseEntries E false entries = false →
    evalEntries call ρ k env t i entries σ = .ok () σ' → FreshTbl σ0 σ t → FreshTbl σ0 σ' t

theorem goodEntries_nil : GoodEntries E call ρ k env [] := by
  intro t i σ0 σ σ' _ _ hr ft
  simp only [evalEntries] at hr
  cases hr
  exact ft

theorem goodEntries_pos {v : Expr} {rest : List Entry} (ihv : Good E call ρ k env v)
    (ih : GoodEntries E call ρ k env rest) : GoodEntries E call ρ k env (.pos v :: rest) := by
  intro t i σ0 σ σ' h8e hp hr ft
  simp only [h8Entries, Bool.and_eq_true] at h8e
  simp only [hseEntries, Bool.or_eq_false_iff] at hp
  cases rest with
  | nil =>
    simp only [evalEntries] at hr
    obtain ⟨vs, σ1, e1, hr⟩ := bind_ok hr
    cases hr
    exact FreshTbl.setMany vs i σ1 (ft.step ((ihv σ σ1 vs h8e.1 e1).2 hp.1).frame)
  | cons x xs =>
    simp only [evalEntries] at hr
    obtain ⟨vs, σ1, e1, hr⟩ := bind_ok hr
    exact ih t (i + 1) σ0 _ σ' h8e.2 hp.2 hr ((ft.step ((ihv σ σ1 vs h8e.1 e1).2 hp.1).frame).rawSet _ _)

theorem goodEntries_named (key : String) {v : Expr} {rest : List Entry} (ihv : Good E call ρ k env v)
    (ih : GoodEntries E call ρ k env rest) : GoodEntries E call ρ k env (.named key v :: rest) := by
  intro t i σ0 σ σ' h8e hp hr ft
  simp only [h8Entries, Bool.and_eq_true] at h8e
  simp only [hseEntries, Bool.or_eq_false_iff] at hp
  simp only [evalEntries] at hr
  obtain ⟨vs, σ1, e1, hr⟩ := bind_ok hr
  exact ih t i σ0 _ σ' h8e.2 hp.2 hr ((ft.step ((ihv σ σ1 vs h8e.1 e1).2 hp.1).frame).rawSet _ _)

theorem goodEntries_keyed {ke v : Expr} {rest : List Entry} (ihk : Good E call ρ k env ke)
    (ihv : Good E call ρ k env v) (ih : GoodEntries E call ρ k env rest) :
    GoodEntries E call ρ k env (.keyed ke v :: rest) := by
  intro t i σ0 σ σ' h8e hp hr ft
  simp only [h8Entries, Bool.and_eq_true] at h8e
  simp only [hseEntries, Bool.or_eq_false_iff] at hp
  simp only [evalEntries] at hr
  obtain ⟨ks, σ1, e1, hr⟩ := bind_ok hr
  obtain ⟨vs, σ2, e2, hr⟩ := bind_ok hr
  have f2 := (ft.step ((ihk σ σ1 ks h8e.1.1 e1).2 hp.1.1).frame).step ((ihv σ1 σ2 vs h8e.1.2 e2).2 hp.1.2).frame
  split at hr
  · simp [errS] at hr
  · split at hr
    · simp [errS] at hr
    · exact ih t i σ0 _ σ' h8e.2 hp.2 hr (f2.rawSet _ _)
  · exact ih t i σ0 _ σ' h8e.2 hp.2 hr (f2.rawSet _ _)

theorem good_table {entries : List Entry} (ih : GoodEntries E call ρ k env entries) :
    Good E call ρ k env (.table entries) := by
  intro σ σ' vs h8e hr
  simp only [evalE] at hr
  simp only [h8] at h8e
  obtain ⟨u, σ1, e1, hr⟩ := bind_ok hr
  cases hr
  simp only [evaluate, hasSideEffects]
  refine ⟨Or.inr ⟨_, rfl, ⟨_, rfl⟩⟩, fun hp => ?_⟩
  have ft := ih _ 1 σ _ σ' h8e hp e1 (FreshTbl.alloc σ)
  exact ⟨ft.frame, by simp only [first, List.headD, FreshV]; exact ⟨ft.lo, ft.hi, ft.mt⟩⟩


/-! ### the induction -/

mutual
  theorem good (A : Agree N E) : (e : Expr) → Good E call ρ k env e
    | .nil => good_nil E call ρ k env
    | .true => good_true E call ρ k env
    | .false => good_false E call ρ k env
    | .vararg => good_vararg E call ρ k env
    | .num b => good_num E call ρ k env b
    | .str s => good_str E call ρ k env s
    | .var n => good_var E call ρ k env n
    | .paren e => good_paren E call ρ k env (good A e)
    | .un op e => good_un E call ρ k env A op (good A e)
    | .bin .and l r => good_and E call ρ k env (good A l) (good A r)
    | .bin .or l r => good_or E call ρ k env (good A l) (good A r)
    | .bin .eq l r => good_binop E call ρ k env A (by decide) (by decide) (good A l) (good A r)
    | .bin .ne l r => good_binop E call ρ k env A (by decide) (by decide) (good A l) (good A r)
    | .bin .lt l r => good_binop E call ρ k env A (by decide) (by decide) (good A l) (good A r)
    | .bin .le l r => good_binop E call ρ k env A (by decide) (by decide) (good A l) (good A r)
    | .bin .gt l r => good_binop E call ρ k env A (by decide) (by decide) (good A l) (good A r)
    | .bin .ge l r => good_binop E call ρ k env A (by decide) (by decide) (good A l) (good A r)
    | .bin .add l r => good_binop E call ρ k env A (by decide) (by decide) (good A l) (good A r)
    | .bin .sub l r => good_binop E call ρ k env A (by decide) (by decide) (good A l) (good A r)
    | .bin .mul l r => good_binop E call ρ k env A (by decide) (by decide) (good A l) (good A r)
    | .bin .div l r => good_binop E call ρ k env A (by decide) (by decide) (good A l) (good A r)
    | .bin .idiv l r => good_binop E call ρ k env A (by decide) (by decide) (good A l) (good A r)
    | .bin .mod l r => good_binop E call ρ k env A (by decide) (by decide) (good A l) (good A r)
    | .bin .pow l r => good_binop E call ρ k env A (by decide) (by decide) (good A l) (good A r)
    | .bin .concat l r => good_binop E call ρ k env A (by decide) (by decide) (good A l) (good A r)
    | .call _ _ _ _ => good_unknown_impure E call ρ k env rfl rfl
    | .field _ _ => good_unknown_impure E call ρ k env rfl (by simp [hasSideEffects])
    | .index _ _ => good_unknown_impure E call ρ k env rfl (by simp [hasSideEffects])
    | .fn body => good_fn E call ρ k env body
    | .table entries => good_table E call ρ k env (goodEntries A entries)
    | .ifx c t elifs e => good_ifx E call ρ k env (good A c) (good A t) (goodElifs A elifs) (good A e)
    | .interp segs => good_interp E call ρ k env (goodSegs A segs)
    | .cast e ty => good_cast E call ρ k env ty (good A e)
    | .inst e tys => good_inst E call ρ k env tys (good A e)
  theorem goodElifs (A : Agree N E) : (elifs : List (Expr × Expr)) → GoodElifs E call ρ k env elifs
    | [] => goodElifs_nil E call ρ k env
    | (c, t) :: rest => goodElifs_cons E call ρ k env (good A c) (good A t) (goodElifs A rest)
  theorem goodSegs (A : Agree N E) : (segs : List Seg) → GoodSegs E call ρ k env segs
    | [] => goodSegs_nil E call ρ k env
    | .s b :: rest => goodSegs_s E call ρ k env b (goodSegs A rest)
    | .v e :: rest => goodSegs_v E call ρ k env (good A e) (goodSegs A rest)
  theorem goodEntries (A : Agree N E) : (entries : List Entry) → GoodEntries E call ρ k env entries
    | [] => goodEntries_nil E call ρ k env
    | .pos v :: rest => goodEntries_pos E call ρ k env (good A v) (goodEntries A rest)
    | .named key v :: rest => goodEntries_named E call ρ k env key (good A v) (goodEntries A rest)
    | .keyed kk v :: rest => goodEntries_keyed E call ρ k env (good A kk) (good A v) (goodEntries A rest)
end

end main
end DarkluaModel.C08
