import DarkluaModel.C13.Model
import DarkluaModel.C13.Spec
import DarkluaModel.C13.Lemmas
/-! C13 — lemmas about the generators' own entry points. -/
namespace DarkluaModel.C13
open Spec

theorem denseWriteNumber_eq {F : Type} (ops : NumOps F) (lit : NumLit F) :
    denseWriteNumber ops lit = writeNumber ops lit := by
  cases lit with
  | decimal x e =>
    simp only [denseWriteNumber, writeNumber]
    split
    · rfl
    · split
      · split <;> rfl
      · rfl
  | hex n e ux =>
    simp only [denseWriteNumber, writeNumber]
    cases e with
    | none => rfl
    | some p => obtain ⟨ev, up⟩ := p; cases up <;> rfl
  | binary n ub => rfl

theorem genWriteNumber_eq {F : Type} (ops : NumOps F) (g : Gen) (lit : NumLit F) :
    genWriteNumber ops g lit = writeNumber ops lit := by
  cases g
  · exact denseWriteNumber_eq ops lit
  · rfl
  · rfl

/-- `write_string` always starts with a quote or `[` -/
theorem writeString_head (v : List UInt8) :
    ∃ c t, writeString v = c :: t ∧ (c = 39 ∨ c = 34 ∨ c = 91) := by
  have hq : ∀ w, ∃ c t, writeQuoted w = c :: t ∧ (c = 39 ∨ c = 34 ∨ c = 91) := by
    intro w
    unfold writeQuoted
    have := getQuoteSymbol_cases w
    split
    · exact ⟨_, _, rfl, by rcases this with h | h <;> simp [h]⟩
    · exact ⟨_, _, rfl, by rcases this with h | h <;> simp [h]⟩
  unfold writeString
  split
  · exact ⟨39, [39], rfl, Or.inl rfl⟩
  · split
    · exact ⟨34, _, rfl, Or.inr (Or.inl rfl)⟩
    · split
      · exact ⟨39, _, rfl, Or.inl rfl⟩
      · split
        · exact ⟨39, _, rfl, Or.inl rfl⟩
        · exact ⟨39, _, rfl, Or.inl rfl⟩
  · split
    · unfold writeLongBracket
      split
      · simpa using hq v
      · simp only [Option.getD_some]
        exact ⟨91, _, by simp only [List.singleton_append, List.cons_append, List.append_assoc]; rfl, Or.inr (Or.inr rfl)⟩
    · exact hq v

/-! ### whole interpolated strings -/

def toPiece : InterpPart → InterpPiece
  | .str v => .str v
  | .val t => .val t

/-- the part lists the generators are given after parsing: no empty literal piece, no two literal
pieces in a row, expression texts without braces -/
def wfParts : List InterpPart → Prop
  | [] => True
  | .str v :: rest => v ≠ [] ∧ (match rest with | .str _ :: _ => False | _ => True) ∧ wfParts rest
  | .val t :: rest => (∀ c ∈ t, c ≠ 123 ∧ c ≠ 125) ∧ wfParts rest

def bodyOf (parts : List InterpPart) : List UInt8 := parts.flatMap interpPartText

theorem scanBraces_plain (t r : List UInt8) (ht : ∀ c ∈ t, c ≠ 123 ∧ c ≠ 125) :
    scanBraces 0 (t ++ 125 :: r) = some (t, r) := by
  induction t with
  | nil => simp [scanBraces]
  | cons c cs ih =>
    have hc := ht c (by simp)
    have ih' := ih (fun x hx => ht x (by simp [hx]))
    simp only [List.cons_append, scanBraces, beq_iff_eq, hc.1, hc.2, if_false, ih', Option.map_some]

theorem segment_then (v : List UInt8) (t : UInt8) (rest : List UInt8) (ht : t = 96 ∨ t = 123) :
    decodeInterpSegment (writeInterpSegment v ++ t :: rest) = some (v, t :: rest) := by
  rw [writeInterpSegment_eq]
  refine decodeBody_writeBytes .luau _ _ ?_ (fun _ h => h) v t rest ?_
  · intro c hc
    have : c = 96 ∨ c = 123 := by simpa using hc
    rcases this with rfl | rfl <;> decide
  · rcases ht with rfl | rfl <;> decide

theorem interpLoop_val (t : List UInt8) (ht : ∀ c ∈ t, c ≠ 123 ∧ c ≠ 125) (r : List UInt8)
    (fuel : Nat) (pre : List UInt8) :
    interpLoop (fuel + 1) (writeInterpSegment pre ++ 123 :: (t ++ 125 :: r)) =
      (interpLoop fuel r).map fun ps =>
        (if pre.isEmpty then [] else [InterpPiece.str pre]) ++ InterpPiece.val t :: ps := by
  have hseg := segment_then pre 123 (t ++ 125 :: r) (Or.inr rfl)
  have hhead : (t ++ 125 :: r).head? ≠ some 123 := by
    cases t with
    | nil => simp
    | cons c cs => simp; exact (ht c (by simp)).1
  simp only [interpLoop, hseg]
  have : ((t ++ 125 :: r).head? == some 123) = false := by
    cases h : ((t ++ 125 :: r).head? == some 123) with
    | false => rfl
    | true => exact absurd (by simpa using h) hhead
  simp only [this, Bool.false_eq_true, if_false, scanBraces_plain t r ht]

theorem interpLoop_end (pre : List UInt8) (fuel : Nat) :
    interpLoop (fuel + 1) (writeInterpSegment pre ++ [96]) =
      some (if pre.isEmpty then [] else [InterpPiece.str pre]) := by
  have hseg := segment_then pre 96 [] (Or.inl rfl)
  simp only [interpLoop, hseg]
  simp

theorem interpLoop_parts : ∀ (n : Nat) (parts : List InterpPart), parts.length = n → wfParts parts →
    ∀ fuel, parts.length + 1 ≤ fuel →
      interpLoop fuel (bodyOf parts ++ [96]) = some (parts.map toPiece) := by
  intro n
  induction n using Nat.strongRecOn with
  | _ n ih =>
    intro parts hn hwf fuel hfuel
    cases fuel with
    | zero => omega
    | succ fuel =>
      match parts, hn, hwf, hfuel with
      | [], _, _, _ =>
        have := interpLoop_end [] fuel
        simpa [bodyOf, writeInterpSegment] using this
      | .val t :: rest, hn, hwf, hfuel =>
        have hrest := ih rest.length (by simp at hn; omega) rest rfl hwf.2 fuel (by simp at hfuel; omega)
        have := interpLoop_val t hwf.1 (bodyOf rest ++ [96]) fuel []
        simp only [writeInterpSegment, List.nil_append] at this
        have e : bodyOf (.val t :: rest) ++ [96] = 123 :: (t ++ 125 :: (bodyOf rest ++ [96])) := by
          simp [bodyOf, interpPartText]
        rw [e, this, hrest]
        simp [toPiece]
      | [.str v], _, hwf, _ =>
        have := interpLoop_end v fuel
        have hv : v.isEmpty = false := by
          cases v with
          | nil => exact absurd rfl hwf.1
          | cons _ _ => rfl
        simpa [bodyOf, interpPartText, hv, toPiece] using this
      | .str v :: .str w :: rest, _, hwf, _ => exact absurd hwf.2.1 (by simp)
      | .str v :: .val t :: rest, hn, hwf, hfuel =>
        have hv : v.isEmpty = false := by
          cases v with
          | nil => exact absurd rfl hwf.1
          | cons _ _ => rfl
        cases fuel with
        | zero => simp at hfuel
        | succ fuel' =>
          have hrest := ih rest.length (by simp at hn; omega) rest rfl hwf.2.2.2 (fuel' + 1)
            (by simp at hfuel; omega)
          have := interpLoop_val t hwf.2.2.1 (bodyOf rest ++ [96]) (fuel' + 1) v
          have e : bodyOf (.str v :: .val t :: rest) ++ [96] =
              writeInterpSegment v ++ 123 :: (t ++ 125 :: (bodyOf rest ++ [96])) := by
            simp [bodyOf, interpPartText]
          rw [e, this, hrest]
          simp [hv, toPiece]

theorem writeInterpSegment_length_pos (v : List UInt8) (hv : v ≠ []) :
    0 < (writeInterpSegment v).length := by
  cases v with
  | nil => exact absurd rfl hv
  | cons c rest =>
    simp only [writeInterpSegment, List.length_append]
    have : 0 < (if (c == 96 || c == 123) = true then [92, c]
        else if needsEscaping c = true then escape c rest.head? else [c]).length := by
      split
      · simp
      · split
        · obtain ⟨es, he⟩ := escape_head c rest.head?; rw [he]; simp
        · simp
    omega

theorem bodyOf_length (parts : List InterpPart) (hwf : wfParts parts) :
    parts.length ≤ (bodyOf parts).length := by
  induction parts with
  | nil => simp
  | cons p ps ih =>
    have e : bodyOf (p :: ps) = interpPartText p ++ bodyOf ps := by simp [bodyOf]
    rw [e]
    cases p with
    | str v =>
      have h1 := writeInterpSegment_length_pos v hwf.1
      have h2 := ih hwf.2.2
      simp only [interpPartText, List.length_append, List.length_cons]
      omega
    | val t =>
      have h2 := ih hwf.2
      simp only [interpPartText, List.length_append, List.length_cons]
      omega
