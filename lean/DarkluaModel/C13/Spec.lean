/-
C13 — reference artefacts, written from the language definitions and independent of the model:

* `decodeLiteral .luau`  — what a Luau lexer (Luau `Ast/src/Lexer.cpp`: `readQuotedString`,
  `fixupQuotedString`, `readLongString`/`fixupMultilineString`) makes of the text of ONE string
  literal: `some bytes` iff the text is exactly one well-formed string token;
* `decodeLiteral .lua51` — the same by the Lua 5.1 reference lexer (`llex.c`: `read_string`,
  `read_long_string`, stock `LUA_COMPAT_LSTR = 1`);
* `decodeInterpSegment`  — a Luau interpolated-string section (between `` ` ``/`}` and `{`/`` ` ``);
* `numberValue`          — see the second half of the file (number literals by Luau's rules).

Core only.
-/
import DarkluaModel.C13.Ieee
namespace DarkluaModel.C13.Spec

inductive Dialect where
  | luau
  | lua51
  deriving DecidableEq, Repr

def isDigit (c : UInt8) : Bool := 48 ≤ c && c ≤ 57

/-- value of a hexadecimal digit -/
def hexVal? (c : UInt8) : Option Nat :=
  if 48 ≤ c && c ≤ 57 then some (c.toNat - 48)
  else if 97 ≤ c && c ≤ 102 then some (c.toNat - 87)
  else if 65 ≤ c && c ≤ 70 then some (c.toNat - 55)
  else none

def isHexDigit (c : UInt8) : Bool := (hexVal? c).isSome

/-- C `isspace` in the "C" locale: space, \t \n \v \f \r -/
def isSpace (c : UInt8) : Bool := c == 32 || (9 ≤ c && c ≤ 13)

/-- Luau `toUtf8` (Lexer.cpp): encode a code point, `none` above U+10FFFF. Luau writes
`0xC0 | (code >> 6)`, `0x80 | (code & 0x3F)` …; here with `/` and `%`. Surrogates are encoded
like any other value, as Luau does. -/
def toUtf8 (code : Nat) : Option (List UInt8) :=
  if code < 0x80 then some [UInt8.ofNat code]
  else if code < 0x800 then
    some [UInt8.ofNat (0xC0 + code / 64), UInt8.ofNat (0x80 + code % 64)]
  else if code < 0x10000 then
    some [UInt8.ofNat (0xE0 + code / 4096), UInt8.ofNat (0x80 + code / 64 % 64),
          UInt8.ofNat (0x80 + code % 64)]
  else if code < 0x110000 then
    some [UInt8.ofNat (0xF0 + code / 262144), UInt8.ofNat (0x80 + code / 4096 % 64),
          UInt8.ofNat (0x80 + code / 64 % 64), UInt8.ofNat (0x80 + code % 64)]
  else none

/-- `code = 16 * code + digit` over a run of hex digits -/
def hexFold (acc : Nat) : List UInt8 → Nat
  | [] => acc
  | c :: cs => hexFold (16 * acc + (hexVal? c).getD 0) cs

/-- the single-letter escapes common to both dialects -/
def simpleEscape? (e : UInt8) : Option UInt8 :=
  if e == 97 then some 7        -- \a
  else if e == 98 then some 8   -- \b
  else if e == 102 then some 12 -- \f
  else if e == 110 then some 10 -- \n
  else if e == 114 then some 13 -- \r
  else if e == 116 then some 9  -- \t
  else if e == 118 then some 11 -- \v
  else none

/-- `\d`, `\dd`, `\ddd`: `e` is the first digit, up to two more digits are taken greedily;
a value above 255 is an error in both dialects. Returns the byte and how many bytes of
`rest` were consumed. -/
def decimalEscape (e : UInt8) (rest : List UInt8) : Option (List UInt8 × Nat) :=
  let more := (rest.take 2).takeWhile isDigit
  let code := (e :: more).foldl (fun acc d => 10 * acc + (d.toNat - 48)) 0
  if code > 255 then none else some ([UInt8.ofNat code], more.length)

/-- What follows a backslash. Input: the bytes after `\`. Output: the bytes denoted and the
number of input bytes consumed (≥ 1). -/
def decodeEscape (d : Dialect) : List UInt8 → Option (List UInt8 × Nat)
  | [] => none
  | e :: rest =>
    if isDigit e then
      (decimalEscape e rest).map fun (bs, n) => (bs, n + 1)
    else match simpleEscape? e with
    | some b => some ([b], 1)
    | none =>
      if e == 10 then
        -- backslash-newline; Lua 5.1 also swallows a following `\r` (inclinenumber)
        match d, rest with
        | .lua51, 13 :: _ => some ([10], 2)
        | _, _ => some ([10], 1)
      else if e == 13 then
        match rest with
        | 10 :: _ => some ([10], 2)
        | _ => some ([10], 1)
      else match d with
      | .lua51 => some ([e], 1)      -- llex.c read_string `default:` — the character itself
      | .luau =>
        if e == 0 then none
        else if e == 120 then        -- \xHH : exactly two hex digits
          match rest with
          | a :: b :: _ =>
            if isHexDigit a && isHexDigit b then some ([UInt8.ofNat (hexFold 0 [a, b])], 3) else none
          | _ => none
        else if e == 122 then        -- \z : skip following whitespace
          some ([], 1 + (rest.takeWhile isSpace).length)
        else if e == 117 then        -- \u{X…} : 1..16 hex digits (32-bit accumulator), then `}`
          match rest with
          | 123 :: rest' =>
            let ds := rest'.takeWhile isHexDigit
            if ds.length == 0 || ds.length > 16 then none
            else if (rest'.drop ds.length).head? != some 125 then none
            else (toUtf8 (hexFold 0 ds % 4294967296)).map fun bs => (bs, ds.length + 3)
          | _ => none
        else some ([e], 1)           -- fixupQuotedString `default:` → `unescape(e)` = e

/-- The body of a quoted / interpolated string up to (not including) the first unescaped
byte satisfying `stop`. A raw line break (or NUL) is a broken string. Returns the denoted
bytes and the remaining input, which starts with the stop byte. -/
def decodeBody (d : Dialect) (stop : UInt8 → Bool) : List UInt8 → Option (List UInt8 × List UInt8)
  | [] => none
  | c :: rest =>
    if stop c then some ([], c :: rest)
    else if c == 10 || c == 13 || c == 0 then none
    else if c == 92 then
      match decodeEscape d rest with
      | none => none
      | some (bs, n) =>
        (decodeBody d stop (rest.drop n)).map fun (out, r) => (bs ++ out, r)
    else (decodeBody d stop rest).map fun (out, r) => (c :: out, r)
termination_by l => l.length
decreasing_by all_goals simp; all_goals omega

/-! ### long brackets -/

def closing (level : Nat) : List UInt8 := 93 :: (List.replicate level 61 ++ [93])

/-- raw content up to the first occurrence of the closing bracket of `level`, and what follows it -/
def scanLong (level : Nat) : List UInt8 → Option (List UInt8 × List UInt8)
  | [] => none
  | c :: cs =>
    if (closing level).isPrefixOf (c :: cs) then some ([], (c :: cs).drop (level + 2))
    else (scanLong level cs).map fun (out, r) => (c :: out, r)

/-- the line break directly after the opening bracket is not part of the string -/
def skipFirstNewline (d : Dialect) : List UInt8 → List UInt8
  | 13 :: 10 :: r => r
  | 10 :: 13 :: r => match d with | .lua51 => r | .luau => 13 :: r
  | 10 :: r => r
  | 13 :: r => match d with | .lua51 => r | .luau => 13 :: r
  | r => r

/-- Luau `fixupMultilineString`: `\r\n` becomes `\n` (a lone `\r` stays). -/
def normalizeLuau : List UInt8 → List UInt8
  | [] => []
  | 13 :: 10 :: r => 10 :: normalizeLuau r
  | c :: r => c :: normalizeLuau r

/-- Lua 5.1 `read_long_string`: each of `\r\n`, `\n\r`, `\r`, `\n` becomes `\n`. -/
def normalizeLua51 : List UInt8 → List UInt8
  | [] => []
  | 13 :: 10 :: r => 10 :: normalizeLua51 r
  | 10 :: 13 :: r => 10 :: normalizeLua51 r
  | 13 :: r => 10 :: normalizeLua51 r
  | c :: r => c :: normalizeLua51 r

/-- line-break normalisation inside a long string -/
def normalizeNewlines : Dialect → List UInt8 → List UInt8
  | .luau => normalizeLuau
  | .lua51 => normalizeLua51

/-- `[[` inside a level-0 long string. `llex.c` (5.1.0–5.1.5) `read_long_string`, `case '['`:
`if (skip_sep(ls) == sep) { … #if LUA_COMPAT_LSTR == 1  if (sep == 0) luaX_lexerror(ls, "nesting
of [[...]] is deprecated", '['); }` — active in the stock build (`luaconf.h` defines
`LUA_COMPAT_LSTR` as 1; manual §7.1). By the grammar of manual §2.1 alone such a literal is a
valid string; the decoders take the build option as the parameter `compatLstr`. -/
def hasNestedOpen : List UInt8 → Bool
  | 91 :: 91 :: _ => true
  | _ :: r => hasNestedOpen r
  | [] => false

/-- a long-bracket literal; input starts after the first `[` -/
def decodeLong (d : Dialect) (compatLstr : Bool) (afterBracket : List UInt8) :
    Option (List UInt8 × List UInt8) :=
  let level := (afterBracket.takeWhile (· == 61)).length
  match afterBracket.drop level with
  | 91 :: body =>
    match scanLong level (skipFirstNewline d body) with
    | none => none
    | some (raw, rest) =>
      if compatLstr && d == .lua51 && level == 0 && hasNestedOpen raw then none
      else some (normalizeNewlines d raw, rest)
  | _ => none

/-- The text of exactly one string literal ↦ its bytes. `none` if the text is not exactly one
well-formed string token of the dialect. -/
def decodeLiteral (d : Dialect) (compatLstr : Bool) (text : List UInt8) : Option (List UInt8) :=
  match text with
  | 91 :: r =>
    match decodeLong d compatLstr r with
    | some (out, []) => some out
    | _ => none
  | q :: r =>
    if q == 34 || q == 39 then
      match decodeBody d (· == q) r with
      | some (out, [_]) => some out      -- the remaining input is exactly the closing quote
      | _ => none
    else none
  | [] => none

abbrev decodeLuau := decodeLiteral .luau true
/-- stock Lua 5.1: `LUA_COMPAT_LSTR = 1` -/
abbrev decodeLua51 := decodeLiteral .lua51 true
/-- Lua 5.1 by the manual's grammar alone (`LUA_COMPAT_LSTR` undefined) -/
abbrev decodeLua51Manual := decodeLiteral .lua51 false

/-- One section of a Luau interpolated string: input is the text after `` ` `` or `}`; the
section ends at the first unescaped `` ` `` or `{`. Returns the denoted bytes and the rest
(starting with that terminator). -/
def decodeInterpSegment (text : List UInt8) : Option (List UInt8 × List UInt8) :=
  decodeBody .luau (fun c => c == 96 || c == 123) text

/-! ### whole interpolated strings -/

inductive InterpPiece where
  | str (value : List UInt8)
  | val (exprText : List UInt8)
  deriving DecidableEq, Repr

/-- the text of a `{ … }` part up to its matching `}` (braces counted; the reference is used on
expression texts without string literals or comments) -/
def scanBraces : Nat → List UInt8 → Option (List UInt8 × List UInt8)
  | _, [] => none
  | depth, c :: r =>
    if c == 125 then
      match depth with
      | 0 => some ([], r)
      | d + 1 => (scanBraces d r).map fun (t, rest) => (c :: t, rest)
    else if c == 123 then (scanBraces (depth + 1) r).map fun (t, rest) => (c :: t, rest)
    else (scanBraces depth r).map fun (t, rest) => (c :: t, rest)

/-- after the opening backtick: sections and `{…}` parts up to the closing backtick, which must
end the text. `{{` is refused (Luau: "Double braces are not permitted…"). Empty sections are
not reported. -/
def interpLoop : Nat → List UInt8 → Option (List InterpPiece)
  | 0, _ => none
  | fuel + 1, text =>
    match decodeInterpSegment text with
    | none => none
    | some (bytes, rest) =>
      let pre : List InterpPiece := if bytes.isEmpty then [] else [.str bytes]
      match rest with
      | 96 :: r => if r.isEmpty then some pre else none
      | 123 :: r =>
        if r.head? == some 123 then none
        else match scanBraces 0 r with
          | none => none
          | some (expr, r') => (interpLoop fuel r').map fun ps => pre ++ .val expr :: ps
      | _ => none

/-- the text of one whole interpolated string ↦ its pieces -/
def decodeInterpString (text : List UInt8) : Option (List InterpPiece) :=
  match text with
  | 96 :: r => interpLoop (r.length + 1) r
  | _ => none

/-! # number literals by Luau's rules (Luau `Lexer::readNumber`, `Parser::parseNumber`) -/

def isAlpha (c : UInt8) : Bool := (97 ≤ c && c ≤ 122) || (65 ≤ c && c ≤ 90)

/-- `Lexer::readNumber`: how many bytes of `text` the number token starting at its first
byte takes (the caller has seen a digit, or `.` followed by a digit). -/
def numberTokenLength (text : List UInt8) : Nat :=
  match text with
  | [] => 0
  | _ :: rest =>
    let run1 := rest.takeWhile fun c => isDigit c || c == 46 || c == 95
    let after1 := rest.drop run1.length
    let (expPart, after2) : Nat × List UInt8 := match after1 with
      | c :: r =>
        if c == 101 || c == 69 then
          match r with
          | s :: r' => if s == 43 || s == 45 then (2, r') else (1, r)
          | [] => (1, r)
        else (0, after1)
      | [] => (0, after1)
    let run2 := after2.takeWhile fun c => isAlpha c || isDigit c || c == 95
    1 + run1.length + expPart + run2.length

/-- the whole text is exactly one number token -/
def isNumberToken (text : List UInt8) : Bool :=
  (match text with
   | c :: d :: _ => isDigit c || (c == 46 && isDigit d)
   | [c] => isDigit c
   | [] => false) && numberTokenLength text == text.length

/-- what a number token denotes -/
inductive NumDesc where
  /-- `0x…` / `0b…`: an unsigned integer (converted to a double by rounding) -/
  | int (n : Nat)
  /-- decimal: `digits × 10^exp10` (converted by correct rounding, as `strtod` does) -/
  | dec (digits : Nat) (exp10 : Int)
  deriving DecidableEq, Repr

def digitsValue (base : Nat) (ds : List UInt8) : Nat :=
  ds.foldl (fun acc c => acc * base + (hexVal? c).getD 0) 0

/-- the mantissa scan of `strtod`: integer digits, then optionally `.` and fraction digits;
returns `(integer digits, fraction digits, unread rest)` -/
def scanMantissa (s : List UInt8) : List UInt8 × List UInt8 × List UInt8 :=
  let ip := s.takeWhile isDigit
  match s.drop ip.length with
  | [] => (ip, [], [])
  | c :: r' =>
    if c == 46 then (ip, r'.takeWhile isDigit, r'.drop (r'.takeWhile isDigit).length)
    else (ip, [], c :: r')

/-- what follows `e`/`E`: `[+-] digits+` up to the end of the text -/
def scanExponent (r : List UInt8) : Option Int :=
  match r with
  | 43 :: ed => if ed.isEmpty || !ed.all isDigit then none else some (digitsValue 10 ed : Nat)
  | 45 :: ed => if ed.isEmpty || !ed.all isDigit then none else some (-((digitsValue 10 ed : Nat) : Int))
  | ed => if ed.isEmpty || !ed.all isDigit then none else some (digitsValue 10 ed : Nat)

/-- C `strtod` restricted to what can follow in a number token (no sign, no blanks, not hex):
`digits* [. digits*] [(e|E) [+-] digits+]` with at least one mantissa digit, all consumed. -/
def strtodDecimal (s : List UInt8) : Option NumDesc :=
  match scanMantissa s with
  | (ip, fp, r) =>
    if ip.isEmpty && fp.isEmpty then none
    else
      match r with
      | [] => some (.dec (digitsValue 10 (ip ++ fp)) (-(fp.length : Int)))
      | c :: r' =>
        if c == 101 || c == 69 then
          (scanExponent r').map fun e => .dec (digitsValue 10 (ip ++ fp)) (e - (fp.length : Int))
        else none

/-- `strtoull(s, &end, base)` with `*end == 0` required, on digit-only input -/
def strtoullAll (base : Nat) (s : List UInt8) : Option Nat :=
  if s.isEmpty then none    -- (Luau reads an empty digit run as 0; not part of the grammar here)
  else if s.all fun c => (hexVal? c).any (· < base) then
    -- above 2^64-1 `strtoull` reports ERANGE and Luau raises "… exceeded available precision"
    let n := digitsValue base s
    if n ≤ 18446744073709551615 then some n else none
  else none

/-- `Parser::parseNumber` on the text of one number token: underscores are dropped, then
`0x`/`0X` → base-16 integer, `0b`/`0B` → base-2 integer, otherwise `strtod`. -/
def luauNumber? (text : List UInt8) : Option NumDesc :=
  if !isNumberToken text then none
  else
    let s := text.filter (· != 95)
    match s with
    | 48 :: x :: rest =>
      if x == 120 || x == 88 then (strtoullAll 16 rest).map .int
      else if x == 98 || x == 66 then (strtoullAll 2 rest).map .int
      else strtodDecimal s
    | _ => strtodDecimal s

def descBits : NumDesc → UInt64
  | .int n => Ieee.roundRat n 1
  | .dec digits exp10 => Ieee.ofDecimal false digits exp10

/-- the double a Luau number token denotes (bit pattern) -/
def numberValue (text : List UInt8) : Option UInt64 := (luauNumber? text).map descBits

def nanBits : UInt64 := 0x7ff8000000000000
def negBits (b : UInt64) : UInt64 :=
  if b.toNat ≥ 2 ^ 63 then UInt64.ofNat (b.toNat - 2 ^ 63) else UInt64.ofNat (b.toNat + 2 ^ 63)

/-- `-`? literal -/
def signedValue (text : List UInt8) : Option UInt64 :=
  match text with
  | 45 :: rest => (numberValue rest).map negBits
  | _ => numberValue text

/-- IEEE division of two finite doubles -/
def divBits (a b : UInt64) : UInt64 :=
  let neg := Ieee.signBit a != Ieee.signBit b
  if Ieee.isZeroBits b then
    if Ieee.isZeroBits a then nanBits
    else if neg then 0xfff0000000000000 else 0x7ff0000000000000
  else
    let (_, an, ad) := Ieee.toRat a
    let (_, bn, bd) := Ieee.toRat b
    Ieee.ofRat neg (an * bd) (ad * bn)

/-- The value of a small piece of Luau source as the writers produce it: a literal, `-` literal,
or a division `a/b` of two of those, optionally inside one pair of parentheses
(`(0/0)`, `(-1/0)`, `1/0`, `-0`, `1.5e3` …). Unary minus binds tighter than `/`. -/
def evalWritten (text : List UInt8) : Option UInt64 :=
  let inner := match text with
    | 40 :: rest => if rest.getLast? == some 41 then rest.dropLast else text
    | _ => text
  let i := inner.findIdx (· == 47)
  if i < inner.length then
    match signedValue (inner.take i), signedValue (inner.drop (i + 1)) with
    | some a, some b => some (divBits a b)
    | _, _ => none
  else signedValue inner

end DarkluaModel.C13.Spec
