import DarkluaModel.Util.Sexp
/-! Line-protocol handlers for property C13 (stub: nothing modelled yet). -/
namespace DarkluaModel.C13

def handle (op : String) (_args : List String) : String :=
  "unknown-op " ++ op

end DarkluaModel.C13
