import DarkluaModel.Util.Sexp
import DarkluaModel.C13.Model
import DarkluaModel.C13.Spec
/-! Line-protocol handlers for property C13. -/
namespace DarkluaModel.C13

def dialect? : String → Option (Spec.Dialect × Bool)
  | "luau" => some (.luau, true)
  | "lua51" => some (.lua51, true)          -- stock build: LUA_COMPAT_LSTR = 1
  | "lua51manual" => some (.lua51, false)   -- grammar of the manual only
  | _ => none

def showOptBytes : Option (List UInt8) → String
  | some bs => "some " ++ bytesToHex bs
  | none => "none"

def showOptBytes1 : Option (List UInt8) → String
  | some bs => "some:" ++ bytesToHex bs
  | none => "none"

def showSeg : Option (List UInt8 × List UInt8) → String
  | some (out, rest) => "some:" ++ bytesToHex out ++ ":" ++ bytesToHex rest
  | none => "none"

/-! number literals on the wire: `d:f<16 hex>:<exp|n>:<u|l>`, `h:<int>:<exp|n>:<u|l>:<u|l>`, `b:<int>:<u|l>` -/

def upper? : String → Option Bool
  | "u" => some true
  | "l" => some false
  | _ => none

def wireBits? (s : String) : Option UInt64 :=
  match s.toList with
  | 'f' :: rest => if rest.length == 16 then (hexNat? rest).map UInt64.ofNat else none
  | _ => none

def bitsToWire (b : UInt64) : String := "f" ++ natToHex16 b.toNat

def numLit? (s : String) : Option (NumLit UInt64) :=
  match s.splitOn ":" with
  | ["d", f, e, u] => do
    let bits ← wireBits? f
    let up ← upper? u
    if e == "n" then pure (.decimal bits none)
    else
      let ev ← e.toInt?
      pure (.decimal bits (some (ev, up)))
  | ["h", n, e, eu, xu] => do
    let nv ← n.toNat?
    let eup ← upper? eu
    let xup ← upper? xu
    if e == "n" then pure (.hex nv none xup)
    else
      let ev ← e.toNat?
      pure (.hex nv (some (ev, eup)) xup)
  | ["b", n, u] => do
    let nv ← n.toNat?
    let up ← upper? u
    pure (.binary nv up)
  | _ => none

def ul (b : Bool) : String := if b then "u" else "l"

def showNumLit : NumLit UInt64 → String
  | .decimal x none => s!"d:{bitsToWire x}:n:l"
  | .decimal x (some (e, u)) => s!"d:{bitsToWire x}:{e}:{ul u}"
  | .hex n none xu => s!"h:{n}:n:l:{ul xu}"
  | .hex n (some (e, eu)) xu => s!"h:{n}:{e}:{ul eu}:{ul xu}"
  | .binary n u => s!"b:{n}:{ul u}"

def showErr : NumberParsingError → String
  | .invalidHexadecimalNumber => "InvalidHexadecimalNumber"
  | .invalidHexadecimalExponent => "InvalidHexadecimalExponent"
  | .invalidDecimalNumber => "InvalidDecimalNumber"
  | .invalidDecimalExponent => "InvalidDecimalExponent"
  | .invalidBinaryNumber => "InvalidBinaryNumber"

def showOptBits : Option UInt64 → String
  | some b => "some:" ++ bitsToWire b
  | none => "none"

def showDesc : Option Spec.NumDesc → String
  | some (.int n) => s!"int:{n}"
  | some (.dec d e) => s!"dec:{d}:{e}"
  | none => "none"

def parts? (s : String) : Option (List InterpPart) :=
  if s == "-" then some []
  else (s.splitOn ",").mapM fun item =>
    match item.toList with
    | 'S' :: rest => (hexToBytes? (String.ofList rest)).map InterpPart.str
    | 'V' :: rest => (hexToBytes? (String.ofList rest)).map InterpPart.val
    | _ => none

def showPieces : Option (List Spec.InterpPiece) → String
  | none => "none"
  | some [] => "some:-"
  | some ps => "some:" ++ ",".intercalate (ps.map fun
      | .str v => "S" ++ bytesToHex v
      | .val t => "V" ++ bytesToHex t)

def showNumExpr : NumExpr UInt64 → String
  | .lit n => "L(" ++ showNumLit n ++ ")"
  | .neg e => "N(" ++ showNumExpr e ++ ")"
  | .div a b => "D(" ++ showNumExpr a ++ "," ++ showNumExpr b ++ ")"

def handle (op : String) (args : List String) : String :=
  match op, args with
  | "wstr", [h] =>
    match hexToBytes? h with
    | some v => bytesToHex (writeString v)
    | none => "bad-args"
  | "wseg", [h] =>
    match hexToBytes? h with
    | some v => bytesToHex (writeInterpSegment v)
    | none => "bad-args"
  | "decode", [d, h] =>
    match dialect? d, hexToBytes? h with
    | some (d, c), some t => showOptBytes (Spec.decodeLiteral d c t)
    | _, _ => "bad-args"
  | "dseg", [h] =>
    match hexToBytes? h with
    | some t =>
      match Spec.decodeInterpSegment t with
      | some (out, rest) => "some " ++ bytesToHex out ++ " " ++ bytesToHex rest
      | none => "none"
    | none => "bad-args"
  -- combined: value, real output ↦ model output, both decodings of the REAL output, hypotheses
  | "str", [hv, hr] =>
    match hexToBytes? hv, hexToBytes? hr with
    | some v, some r =>
      " ".intercalate [bytesToHex (writeString v), showOptBytes1 (Spec.decodeLiteral .luau true r),
        showOptBytes1 (Spec.decodeLiteral .lua51 true r), toString (lua51Safe v),
        toString (usesLongBracket v)]
    | _, _ => "bad-args"
  -- combined for interpolated segments: the real output is decoded followed by each terminator
  | "seg", [hv, hr] =>
    match hexToBytes? hv, hexToBytes? hr with
    | some v, some r =>
      " ".intercalate [bytesToHex (writeInterpSegment v), showSeg (Spec.decodeInterpSegment (r ++ [96])),
        showSeg (Spec.decodeInterpSegment (r ++ [123, 120, 125]))]
    | _, _ => "bad-args"
  -- number: literal, real output ↦ model output, value of the REAL output by the reference
  | "num", [lit, hr] =>
    match numLit? lit, hexToBytes? hr with
    | some l, some r =>
      bytesToHex (writeNumber floatOps l) ++ " " ++ showOptBits (Spec.evalWritten r)
    | _, _ => "bad-args"
  -- model of `Expression::from(f64)`: the tree it builds
  | "fromf64", [f] =>
    match wireBits? f with
    | some b => showNumExpr (fromF64 floatFromOps b)
    | none => "bad-args"
  -- hypotheses of the number-parsing theorems
  | "expoverflows", [h] =>
    match hexToBytes? h with
    | some t => toString (expOverflows t)
    | none => "bad-args"
  | "hexfloat", [h] =>
    match hexToBytes? h with
    | some t => toString (hexFloatShape t)
    | none => "bad-args"
  -- a number node through the three generators: model texts, and the values of the REAL texts
  | "numg", [lit, hd, hr, ht] =>
    match numLit? lit, hexToBytes? hd, hexToBytes? hr, hexToBytes? ht with
    | some l, some d, some r, some t =>
      -- `readableWriteNumber` and `tokenBasedWriteNumber` are the same function applied to the
      -- same node: evaluated once; equal real texts are evaluated once
      let md := bytesToHex (genWriteNumber floatOps .dense l)
      let mr := bytesToHex (genWriteNumber floatOps .readable l)
      let vd := showOptBits (Spec.evalWritten d)
      let vr := if r == d then vd else showOptBits (Spec.evalWritten r)
      let vt := if t == d then vd else showOptBits (Spec.evalWritten t)
      " ".intercalate [md, mr, mr, vd, vr, vt]
    | _, _, _, _ => "bad-args"
  -- a whole interpolated string: model text for the parts, pieces of the REAL text
  | "istr", [ps, hr] =>
    match parts? ps, hexToBytes? hr with
    | some parts, some r =>
      bytesToHex (writeInterpolatedString parts) ++ " " ++ showPieces (Spec.decodeInterpString r)
    | _, _ => "bad-args"
  -- the text the dense/readable generators push for a string after a piece ending with `lastPush`
  | "gstr", [hl, hv] =>
    match hexToBytes? hl, hexToBytes? hv with
    | some l, some v => bytesToHex (generatorWriteString l v)
    | _, _ => "bad-args"
  | "wnum", [lit] =>
    match numLit? lit with
    | some l => bytesToHex (writeNumber floatOps l)
    | none => "bad-args"
  -- value of a piece of written number text (literal, `-`literal, `(a/b)`) by the reference
  | "nval", [h] =>
    match hexToBytes? h with
    | some t => showOptBits (Spec.evalWritten t)
    | none => "bad-args"
  -- parse a number token: model of FromStr, reference description and value
  | "pnum", [h] =>
    match hexToBytes? h with
    | some t =>
      (match parseNumber floatOps t with
       | .ok l => "ok:" ++ showNumLit l
       | .error e => "err:" ++ showErr e)
      ++ " " ++ showDesc (Spec.luauNumber? t) ++ " " ++ showOptBits (Spec.numberValue t)
    | none => "bad-args"
  | "lua51safe", [h] =>
    match hexToBytes? h with
    | some v => toString (lua51Safe v)
    | none => "bad-args"
  | "longform", [h] =>
    match hexToBytes? h with
    | some v => toString (usesLongBracket v)
    | none => "bad-args"
  | _, _ => "unknown-op " ++ op

end DarkluaModel.C13
