import DarkluaModel.Util.Sexp
import DarkluaModel.C13.Model
import DarkluaModel.C13.Spec
/-! Line-protocol handlers for property C13. -/
namespace DarkluaModel.C13

def dialect? : String → Option Spec.Dialect
  | "luau" => some .luau
  | "lua51" => some .lua51
  | _ => none

def showOptBytes : Option (List UInt8) → String
  | some bs => "some " ++ bytesToHex bs
  | none => "none"

def showOptBytes1 : Option (List UInt8) → String
  | some bs => "some:" ++ bytesToHex bs
  | none => "none"

def showSeg : Option (List UInt8 × List UInt8) → String
  | some (out, rest) => "some:" ++ bytesToHex out ++ ":" ++ bytesToHex rest
  | none => "none"

def handle (op : String) (args : List String) : String :=
  match op, args with
  | "wstr", [h] =>
    match hexToBytes? h with
    | some v => bytesToHex (writeString v)
    | none => "bad-args"
  | "wseg", [h] =>
    match hexToBytes? h with
    | some v => bytesToHex (writeInterpSegment v)
    | none => "bad-args"
  | "decode", [d, h] =>
    match dialect? d, hexToBytes? h with
    | some d, some t => showOptBytes (Spec.decodeLiteral d t)
    | _, _ => "bad-args"
  | "dseg", [h] =>
    match hexToBytes? h with
    | some t =>
      match Spec.decodeInterpSegment t with
      | some (out, rest) => "some " ++ bytesToHex out ++ " " ++ bytesToHex rest
      | none => "none"
    | none => "bad-args"
  -- combined: value, real output ↦ model output, both decodings of the REAL output, hypotheses
  | "str", [hv, hr] =>
    match hexToBytes? hv, hexToBytes? hr with
    | some v, some r =>
      " ".intercalate [bytesToHex (writeString v), showOptBytes1 (Spec.decodeLiteral .luau r),
        showOptBytes1 (Spec.decodeLiteral .lua51 r), toString (straddles v), toString (lua51Safe v),
        toString (usesLongBracket v)]
    | _, _ => "bad-args"
  -- combined for interpolated segments: the real output is decoded followed by each terminator
  | "seg", [hv, hr] =>
    match hexToBytes? hv, hexToBytes? hr with
    | some v, some r =>
      " ".intercalate [bytesToHex (writeInterpSegment v), showSeg (Spec.decodeInterpSegment (r ++ [96])),
        showSeg (Spec.decodeInterpSegment (r ++ [123, 120, 125]))]
    | _, _ => "bad-args"
  | "lua51safe", [h] =>
    match hexToBytes? h with
    | some v => toString (lua51Safe v)
    | none => "bad-args"
  | "straddles", [h] =>
    match hexToBytes? h with
    | some v => toString (straddles v)
    | none => "bad-args"
  | "longform", [h] =>
    match hexToBytes? h with
    | some v => toString (usesLongBracket v)
    | none => "bad-args"
  | _, _ => "unknown-op " ++ op

end DarkluaModel.C13
