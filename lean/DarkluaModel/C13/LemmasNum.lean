import DarkluaModel.C13.Model
import DarkluaModel.C13.Spec
import DarkluaModel.C13.Lemmas
/-! C13 — lemmas relating the model of `FromStr for NumberExpression` to the reference lexer. -/
namespace DarkluaModel.C13
open Spec

/-! ### underscores -/

def allUS (u : List UInt8) : Prop := ∀ y ∈ u, y = 95

theorem allUS_nil : allUS [] := by intro y hy; simp at hy

theorem allUS_cons {a : UInt8} {u : List UInt8} (ha : a = 95) (hu : allUS u) : allUS (a :: u) := by
  intro y hy; simp at hy; rcases hy with rfl | hy
  · exact ha
  · exact hu y hy

theorem us_decomp (l : List UInt8) :
    allUS l ∨ ∃ u c l', l = u ++ c :: l' ∧ allUS u ∧ c ≠ 95 := by
  induction l with
  | nil => exact Or.inl allUS_nil
  | cons a l ih =>
    by_cases ha : a = 95
    · rcases ih with h | ⟨u, c, l', rfl, hu, hc⟩
      · exact Or.inl (allUS_cons ha h)
      · exact Or.inr ⟨a :: u, c, l', by simp, allUS_cons ha hu, hc⟩
    · exact Or.inr ⟨[], a, l, rfl, allUS_nil, ha⟩

theorem filter_allUS {u : List UInt8} (hu : allUS u) : filterUnderscore u = [] := by
  unfold filterUnderscore
  rw [List.filter_eq_nil_iff]
  intro y hy; simp [hu y hy]

theorem filterUnderscore_append (a b : List UInt8) :
    filterUnderscore (a ++ b) = filterUnderscore a ++ filterUnderscore b := by
  simp [filterUnderscore]

theorem filterUnderscore_cons_ne {c : UInt8} (hc : c ≠ 95) (l : List UInt8) :
    filterUnderscore (c :: l) = c :: filterUnderscore l := by
  simp [filterUnderscore, hc]

theorem filter_us_cons {u : List UInt8} (hu : allUS u) {c : UInt8} (hc : c ≠ 95) (l' : List UInt8) :
    filterUnderscore (u ++ c :: l') = c :: filterUnderscore l' := by
  rw [filterUnderscore_append, filter_allUS hu, filterUnderscore_cons_ne hc]; rfl

theorem filter_eq_cons {l : List UInt8} {c : UInt8} {r : List UInt8}
    (h : filterUnderscore l = c :: r) :
    ∃ u l', l = u ++ c :: l' ∧ allUS u ∧ c ≠ 95 ∧ filterUnderscore l' = r := by
  rcases us_decomp l with hl | ⟨u, c', l', rfl, hu, hc'⟩
  · rw [filter_allUS hl] at h; exact absurd h (by simp)
  · rw [filter_us_cons hu hc'] at h
    simp at h
    obtain ⟨rfl, rfl⟩ := h
    exact ⟨u, l', rfl, hu, hc', rfl⟩

theorem mem_filterUnderscore {c : UInt8} {l : List UInt8} (hc : c ≠ 95) :
    c ∈ filterUnderscore l ↔ c ∈ l := by
  simp [filterUnderscore, hc]

/-! ### `notation_prefix` -/

theorem zipIdx_filter_allUS (u : List UInt8) (k : Nat) (hu : allUS u) :
    (u.zipIdx k).filter (fun p => p.1 != 95) = [] := by
  induction u generalizing k with
  | nil => rfl
  | cons a u ih =>
    have ha : a = 95 := hu a (by simp)
    rw [List.zipIdx_cons, List.filter_cons]
    simp [ha, ih (k + 1) (fun y hy => hu y (by simp [hy]))]

theorem zipIdx_filter_us_cons (u : List UInt8) (c : UInt8) (l' : List UInt8) (k : Nat)
    (hu : allUS u) (hc : c ≠ 95) :
    ((u ++ c :: l').zipIdx k).filter (fun p => p.1 != 95) =
      (c, k + u.length) :: (l'.zipIdx (k + u.length + 1)).filter (fun p => p.1 != 95) := by
  induction u generalizing k with
  | nil => simp [List.zipIdx_cons, hc]
  | cons a u ih =>
    have ha : a = 95 := hu a (by simp)
    rw [List.cons_append, List.zipIdx_cons, List.filter_cons]
    simp only [ha, bne_self_eq_false, Bool.false_eq_true, if_false]
    rw [ih (k + 1) (fun y hy => hu y (by simp [hy]))]
    simp only [List.length_cons]
    have e1 : k + 1 + u.length = k + (u.length + 1) := by omega
    rw [e1]

theorem notationPrefix_eq (text : List UInt8) :
    notationPrefix text =
      (((text.zipIdx.filter (fun p => p.1 != 95)).drop 1).head?).map (fun p => (p.2, p.1)) := rfl

theorem notationPrefix_decomp (u0 u : List UInt8) (c0 ch : UInt8) (body : List UInt8)
    (hu0 : allUS u0) (hu : allUS u) (hc0 : c0 ≠ 95) (hch : ch ≠ 95) :
    notationPrefix (u0 ++ c0 :: (u ++ ch :: body)) = some (u0.length + 1 + u.length, ch) := by
  rw [notationPrefix_eq, zipIdx_filter_us_cons u0 c0 _ 0 hu0 hc0,
    zipIdx_filter_us_cons u ch _ _ hu hch]
  simp

theorem notationPrefix_some {text : List UInt8} {pos : Nat} {ch : UInt8}
    (h : notationPrefix text = some (pos, ch)) :
    ∃ u0 c0 u body, text = u0 ++ c0 :: (u ++ ch :: body) ∧ allUS u0 ∧ allUS u ∧ c0 ≠ 95 ∧
      ch ≠ 95 ∧ pos = u0.length + 1 + u.length := by
  rcases us_decomp text with ht | ⟨u0, c0, l', rfl, hu0, hc0⟩
  · rw [notationPrefix_eq, zipIdx_filter_allUS text 0 ht] at h; simp at h
  · rcases us_decomp l' with hl | ⟨u, ch', body, rfl, hu, hch'⟩
    · rw [notationPrefix_eq, zipIdx_filter_us_cons u0 c0 _ 0 hu0 hc0,
        zipIdx_filter_allUS l' _ hl] at h
      simp at h
    · rw [notationPrefix_decomp u0 u c0 ch' body hu0 hu hc0 hch'] at h
      simp at h
      obtain ⟨rfl, rfl⟩ := h
      exact ⟨u0, c0, u, body, rfl, hu0, hu, hc0, hch', rfl⟩

def isMarker (ch : UInt8) : Prop := ch = 120 ∨ ch = 88 ∨ ch = 98 ∨ ch = 66

theorem isMarker_iff (ch : UInt8) :
    (ch == 120 || ch == 88 || ch == 98 || ch == 66) = true ↔ isMarker ch := by
  simp [isMarker, or_assoc]

theorem hexOrBinPrefix_some {text : List UInt8} {pos : Nat} {ch : UInt8}
    (h : hexOrBinPrefix text = some (pos, ch)) :
    ∃ u body, text = 48 :: (u ++ ch :: body) ∧ allUS u ∧ isMarker ch ∧ pos = u.length + 1 := by
  unfold hexOrBinPrefix at h
  split at h
  · rename_i p c hnp
    split at h
    · rename_i hcond
      simp only [Option.some.injEq, Prod.mk.injEq] at h
      obtain ⟨rfl, rfl⟩ := h
      rw [Bool.and_eq_true] at hcond
      obtain ⟨hhead, hmark⟩ := hcond
      obtain ⟨u0, c0, u, body, rfl, hu0, hu, hc0, hch, rfl⟩ := notationPrefix_some hnp
      cases u0 with
      | nil =>
        simp at hhead
        subst hhead
        exact ⟨u, body, rfl, hu, (isMarker_iff _).mp hmark, by simp; omega⟩
      | cons a u0' =>
        have ha : a = 95 := hu0 a (by simp)
        subst ha
        simp at hhead
    · exact absurd h (by simp)
  · exact absurd h (by simp)

theorem hexOrBinPrefix_of_shape (u body : List UInt8) (ch : UInt8) (hu : allUS u)
    (hm : isMarker ch) :
    hexOrBinPrefix (48 :: (u ++ ch :: body)) = some (u.length + 1, ch) := by
  have hch : ch ≠ 95 := by rcases hm with rfl | rfl | rfl | rfl <;> decide
  have := notationPrefix_decomp [] u 48 ch body allUS_nil hu (by decide) hch
  simp only [List.nil_append, List.length_nil, Nat.zero_add] at this
  unfold hexOrBinPrefix
  rw [this]
  have e : (1 + u.length) = u.length + 1 := by omega
  simp [(isMarker_iff ch).mpr hm, e]

/-! ### `str::find` -/

theorem findByte_cons (c a : UInt8) (s : List UInt8) :
    findByte c (a :: s) = if a == c then some 0 else (findByte c s).map (· + 1) := by
  unfold findByte
  rw [List.findIdx_cons]
  by_cases h : (a == c) = true
  · simp [h]
  · simp only [h, cond_false, List.length_cons, Bool.false_eq_true, if_false]
    by_cases h2 : List.findIdx (fun x => x == c) s < s.length
    · simp [h2]
    · simp [h2]

theorem findByte_none_iff (c : UInt8) (s : List UInt8) : findByte c s = none ↔ c ∉ s := by
  induction s with
  | nil => simp [findByte]
  | cons a s ih =>
    rw [findByte_cons]
    by_cases h : (a == c) = true
    · have : a = c := by simpa using h
      simp [h, this]
    · have hne : ¬ a = c := by simpa using h
      simp only [h, Bool.false_eq_true, if_false, Option.map_eq_none_iff, ih, List.mem_cons, not_or]
      constructor
      · intro h'; exact ⟨fun e => hne e.symm, h'⟩
      · intro h'; exact h'.2

theorem findByte_some {c : UInt8} {s : List UInt8} {i : Nat} (h : findByte c s = some i) :
    s = s.take i ++ c :: s.drop (i + 1) ∧ c ∉ s.take i := by
  induction s generalizing i with
  | nil => simp [findByte] at h
  | cons a s ih =>
    rw [findByte_cons] at h
    by_cases hac : (a == c) = true
    · have : a = c := by simpa using hac
      simp [hac] at h
      subst h; subst this
      simp
    · have hne : ¬ a = c := by simpa using hac
      simp only [hac, Bool.false_eq_true, if_false, Option.map_eq_some_iff] at h
      obtain ⟨j, hj, rfl⟩ := h
      obtain ⟨h1, h2⟩ := ih hj
      refine ⟨?_, ?_⟩
      · simp only [List.take_succ_cons, List.drop_succ_cons, List.cons_append]
        rw [← h1]
      · simp only [List.take_succ_cons, List.mem_cons, not_or]
        exact ⟨fun e => hne e.symm, h2⟩

theorem findEither_none {lo up : UInt8} {s : List UInt8} (h1 : lo ∉ s) (h2 : up ∉ s) :
    findEither lo up s = none := by
  unfold findEither
  rw [(findByte_none_iff lo s).mpr h1, (findByte_none_iff up s).mpr h2]
  rfl

/-! ### shape of number tokens -/

theorem isNumberToken_head {text : List UInt8} (h : isNumberToken text = true) :
    ∃ c t, text = c :: t ∧ c ≠ 95 ∧ ¬ [46, 95] <+: text := by
  unfold isNumberToken at h
  rw [Bool.and_eq_true] at h
  obtain ⟨h1, _⟩ := h
  match text, h1 with
  | [c], h1 =>
    refine ⟨c, [], rfl, ?_, ?_⟩
    · intro e; subst e; exact absurd h1 (by decide)
    · intro hp; have := hp.length_le; simp at this
  | c :: d :: t, h1 =>
    have h1' : (isDigit c || (c == 46 && isDigit d)) = true := h1
    refine ⟨c, d :: t, rfl, ?_, ?_⟩
    · intro e; subst e; simp [show isDigit 95 = false by decide] at h1'
    · intro hp
      have e1 : ([46, 95] : List UInt8) = 46 :: [95] := rfl
      rw [e1, List.cons_prefix_cons] at hp
      obtain ⟨hc, hp2⟩ := hp
      rw [List.cons_prefix_cons] at hp2
      obtain ⟨hd, _⟩ := hp2
      subst hc; subst hd
      exact absurd h1' (by decide)

theorem strtodDecimal_dec {s : List UInt8} {desc : NumDesc} (h : strtodDecimal s = some desc) :
    ∃ d e, desc = .dec d e := by
  unfold strtodDecimal at h
  split at h
  split at h
  · exact absurd h (by simp)
  · split at h
    · simp at h; exact ⟨_, _, h.symm⟩
    · split at h
      · simp only [Option.map_eq_some_iff] at h
        obtain ⟨e, _, he⟩ := h
        exact ⟨_, _, he.symm⟩
      · exact absurd h (by simp)

theorem strtoullAll_some {base : Nat} {s : List UInt8} {n : Nat} (h : strtoullAll base s = some n) :
    s.all (fun c => (hexVal? c).any (· < base)) = true := by
  unfold strtoullAll at h
  split at h
  · exact absurd h (by simp)
  · split at h
    · assumption
    · exact absurd h (by simp)

/-- reference: a text whose underscore-free form is `0`, marker, digits -/
theorem luauNumber_marker {text : List UInt8} {x : UInt8} {rest : List UInt8}
    (htok : isNumberToken text = true) (hs : filterUnderscore text = 48 :: x :: rest) :
    luauNumber? text =
      if x == 120 || x == 88 then (strtoullAll 16 rest).map .int
      else if x == 98 || x == 66 then (strtoullAll 2 rest).map .int
      else strtodDecimal (48 :: x :: rest) := by
  have hs' : text.filter (· != 95) = 48 :: x :: rest := hs
  simp only [luauNumber?, htok, Bool.not_true, Bool.false_eq_true, if_false, hs']

theorem drop_shape (u body : List UInt8) (ch : UInt8) :
    (48 :: (u ++ ch :: body)).drop (u.length + 1 + 1) = body := by
  simp [List.drop_append]

theorem number_parse_spec_digits_aux (ds : List UInt8) :
    (ds.all (fun c => (hexVal? c).any (· < 16)) = true →
      parseUnsigned 16 18446744073709551615 ds = strtoullAll 16 ds) ∧
    (ds.all (fun c => (hexVal? c).any (· < 2)) = true →
      parseUnsigned 2 18446744073709551615 ds = strtoullAll 2 ds) :=
  ⟨parseUnsigned_eq_strtoull 16 toDigit_16 ds, parseUnsigned_eq_strtoull 2 toDigit_2 ds⟩

/-- the integer half of `number_parse_spec`: every hexadecimal / binary literal of the Luau
grammar is accepted by the model parser with the same integer value -/
theorem parseNumber_int {F : Type} (ops : NumOps F) {text : List UInt8} {n : Nat}
    (h : luauNumber? text = some (.int n)) :
    ∃ up, parseNumber ops text = .ok (.hex n none up) ∨ parseNumber ops text = .ok (.binary n up) := by
  have htok : isNumberToken text = true := by
    cases ht : isNumberToken text with
    | true => rfl
    | false => simp [luauNumber?, ht] at h
  obtain ⟨c, t, htext, hc95, _⟩ := isNumberToken_head htok
  -- the underscore-free text must be `0` marker digits, otherwise the reference reads a decimal
  have hshape : ∃ x rest, filterUnderscore text = 48 :: x :: rest ∧ isMarker x := by
    have hs' : ∀ s, text.filter (· != 95) = s → filterUnderscore text = s := fun s e => e
    simp only [luauNumber?, htok, Bool.not_true, Bool.false_eq_true, if_false] at h
    split at h
    · rename_i x rest heq
      refine ⟨x, rest, hs' _ heq, ?_⟩
      split at h
      · rename_i hx; have : x = 120 ∨ x = 88 := by simpa using hx
        rcases this with e | e
        · exact Or.inl e
        · exact Or.inr (Or.inl e)
      · split at h
        · rename_i hx; have : x = 98 ∨ x = 66 := by simpa using hx
          rcases this with e | e
          · exact Or.inr (Or.inr (Or.inl e))
          · exact Or.inr (Or.inr (Or.inr e))
        · obtain ⟨d, e, hd⟩ := strtodDecimal_dec h; exact absurd hd (by simp)
    · obtain ⟨d, e, hd⟩ := strtodDecimal_dec h; exact absurd hd (by simp)
  obtain ⟨x, rest, hs, hm⟩ := hshape
  -- decompose the text itself
  obtain ⟨u0, l', hl, hu0, _, hl'⟩ := filter_eq_cons hs
  have hu0nil : u0 = [] := by
    cases u0 with
    | nil => rfl
    | cons a u0' =>
      have : a = 95 := hu0 a (by simp)
      rw [htext] at hl; simp at hl
      exact absurd (hl.1.trans this) hc95
  subst hu0nil
  obtain ⟨u, body, hbody, hu, hx95, hrest⟩ := filter_eq_cons hl'
  have htext' : text = 48 :: (u ++ x :: body) := by rw [hl, hbody]; rfl
  have hpre := hexOrBinPrefix_of_shape u body x hu hm
  rw [luauNumber_marker htok hs] at h
  rw [htext']
  unfold parseNumber
  rw [hpre]
  simp only
  rcases hm with rfl | rfl | rfl | rfl
  · -- 0x
    simp only [show ((120 : UInt8) == 120 || (120 : UInt8) == 88) = true by decide, if_true,
      Option.map_eq_some_iff] at h ⊢
    obtain ⟨n', hn', hnn⟩ := h
    simp at hnn; subst hnn
    have hall := strtoullAll_some hn'
    have hnop : ∀ p : UInt8, (p = 112 ∨ p = 80) → p ∉ (48 :: (u ++ 120 :: body)) := by
      intro p hp hmem
      have hp95 : p ≠ 95 := by rcases hp with rfl | rfl <;> decide
      have hpv : hexVal? p = none := by rcases hp with rfl | rfl <;> decide
      have : p ∈ filterUnderscore (48 :: (u ++ 120 :: body)) := (mem_filterUnderscore hp95).mpr hmem
      rw [← htext', hs] at this
      simp at this
      rcases this with rfl | rfl | hin
      · rcases hp with h | h <;> exact absurd h (by decide)
      · rcases hp with h | h <;> exact absurd h (by decide)
      · have := List.all_eq_true.mp hall p hin
        rw [hpv] at this; simp at this
    refine ⟨false, Or.inl ?_⟩
    unfold parseHexBranch
    rw [findEither_none (hnop 112 (Or.inl rfl)) (hnop 80 (Or.inr rfl))]
    simp only [drop_shape, hrest]
    rw [(number_parse_spec_digits_aux rest).1 hall, hn']
    rfl
  · -- 0X
    simp only [show ((88 : UInt8) == 120 || (88 : UInt8) == 88) = true by decide, if_true,
      Option.map_eq_some_iff] at h ⊢
    obtain ⟨n', hn', hnn⟩ := h
    simp at hnn; subst hnn
    have hall := strtoullAll_some hn'
    have hnop : ∀ p : UInt8, (p = 112 ∨ p = 80) → p ∉ (48 :: (u ++ 88 :: body)) := by
      intro p hp hmem
      have hp95 : p ≠ 95 := by rcases hp with rfl | rfl <;> decide
      have hpv : hexVal? p = none := by rcases hp with rfl | rfl <;> decide
      have : p ∈ filterUnderscore (48 :: (u ++ 88 :: body)) := (mem_filterUnderscore hp95).mpr hmem
      rw [← htext', hs] at this
      simp at this
      rcases this with rfl | rfl | hin
      · rcases hp with h | h <;> exact absurd h (by decide)
      · rcases hp with h | h <;> exact absurd h (by decide)
      · have := List.all_eq_true.mp hall p hin
        rw [hpv] at this; simp at this
    refine ⟨true, Or.inl ?_⟩
    unfold parseHexBranch
    rw [findEither_none (hnop 112 (Or.inl rfl)) (hnop 80 (Or.inr rfl))]
    simp only [drop_shape, hrest]
    rw [(number_parse_spec_digits_aux rest).1 hall, hn']
    rfl
  · -- 0b
    simp only [show ((98 : UInt8) == 120 || (98 : UInt8) == 88) = false by decide,
      show ((98 : UInt8) == 98 || (98 : UInt8) == 66) = true by decide, Bool.false_eq_true, if_false,
      if_true, Option.map_eq_some_iff] at h ⊢
    obtain ⟨n', hn', hnn⟩ := h
    simp at hnn; subst hnn
    have hall := strtoullAll_some hn'
    refine ⟨false, Or.inr ?_⟩
    unfold parseBinBranch
    simp only [drop_shape, hrest]
    rw [(number_parse_spec_digits_aux rest).2 hall, hn']
    rfl
  · -- 0B
    simp only [show ((66 : UInt8) == 120 || (66 : UInt8) == 88) = false by decide,
      show ((66 : UInt8) == 98 || (66 : UInt8) == 66) = true by decide, Bool.false_eq_true, if_false,
      if_true, Option.map_eq_some_iff] at h ⊢
    obtain ⟨n', hn', hnn⟩ := h
    simp at hnn; subst hnn
    have hall := strtoullAll_some hn'
    refine ⟨true, Or.inr ?_⟩
    unfold parseBinBranch
    simp only [drop_shape, hrest]
    rw [(number_parse_spec_digits_aux rest).2 hall, hn']
    rfl

/-! ### decimal literals -/

theorem luauNumber_dec {text : List UInt8} {d : Nat} {e : Int}
    (h : luauNumber? text = some (.dec d e)) :
    isNumberToken text = true ∧ hexOrBinPrefix text = none ∧
      strtodDecimal (filterUnderscore text) = some (.dec d e) := by
  have htok : isNumberToken text = true := by
    cases ht : isNumberToken text with
    | true => rfl
    | false => simp [luauNumber?, ht] at h
  have hpre : hexOrBinPrefix text = none := by
    cases hp : hexOrBinPrefix text with
    | none => rfl
    | some pc =>
      obtain ⟨pos, ch⟩ := pc
      obtain ⟨u, body, rfl, hu, hm, _⟩ := hexOrBinPrefix_some hp
      have hch : ch ≠ 95 := by rcases hm with rfl | rfl | rfl | rfl <;> decide
      have hs : filterUnderscore (48 :: (u ++ ch :: body)) = 48 :: ch :: filterUnderscore body := by
        rw [filterUnderscore_cons_ne (by decide), filter_us_cons hu hch]
      rw [luauNumber_marker htok hs] at h
      rcases hm with rfl | rfl | rfl | rfl <;> simp at h
  refine ⟨htok, hpre, ?_⟩
  have hs' : text.filter (· != 95) = filterUnderscore text := rfl
  simp only [luauNumber?, htok, Bool.not_true, Bool.false_eq_true, if_false, hs'] at h
  split at h
  · rename_i x rest heq
    split at h
    · simp at h
    · split at h
      · simp at h
      · first | exact h | (rw [heq] at h; exact h)
  · exact h

theorem parseDecBranch_ok {F : Type} (ops : NumOps F) {text : List UInt8} {lit : NumLit F}
    (h : parseDecBranch ops text = .ok lit) :
    ∃ x ex, lit = .decimal x ex ∧ ops.parse (filterUnderscore text) = some x := by
  unfold parseDecBranch at h
  split at h
  · exact absurd h (by simp)
  · split at h
    · split at h
      · exact absurd h (by simp)
      · split at h
        · exact absurd h (by simp)
        · split at h
          · exact absurd h (by simp)
          · split at h
            · exact absurd h (by simp)
            · rename_i x hx
              simp only [Except.ok.injEq] at h
              exact ⟨x, _, h.symm, hx⟩
    · split at h
      · exact absurd h (by simp)
      · rename_i x hx
        simp only [Except.ok.injEq] at h
        exact ⟨x, _, h.symm, hx⟩

/-! #### shape of what `strtod` accepts -/

theorem takeWhile_append_stop' {p : UInt8 → Bool} (l : List UInt8) (y : UInt8) (r : List UInt8)
    (hl : ∀ x ∈ l, p x = true) (hy : p y = false) : (l ++ y :: r).takeWhile p = l :=
  takeWhile_append_stop l y r hl hy

theorem mem_takeWhile_sat {p : UInt8 → Bool} (l : List UInt8) :
    ∀ x ∈ l.takeWhile p, p x = true := by
  induction l with
  | nil => intro x hx; simp at hx
  | cons a l ih =>
    intro x hx
    rw [List.takeWhile_cons] at hx
    split at hx
    · rename_i ha
      simp at hx
      rcases hx with rfl | hx
      · exact ha
      · exact ih x hx
    · simp at hx

theorem takeWhile_all_digits (l : List UInt8) : ∀ x ∈ l.takeWhile isDigit, isDigit x = true :=
  mem_takeWhile_sat l

theorem takeWhile_append_drop (p : UInt8 → Bool) (l : List UInt8) :
    l = l.takeWhile p ++ l.drop (l.takeWhile p).length := by
  have := List.takeWhile_append_dropWhile (p := p) (l := l)
  conv => lhs; rw [← this]
  congr 1
  have h2 : (l.takeWhile p ++ l.dropWhile p).drop (l.takeWhile p).length = l.dropWhile p :=
    List.drop_left
  rw [this] at h2
  exact h2.symm

/-- digits-and-dot part accepted by the mantissa scan -/
def isMantChar (c : UInt8) : Prop := isDigit c = true ∨ c = 46

theorem scanMantissa_shape (s : List UInt8) :
    ∃ mant, s = mant ++ (scanMantissa s).2.2 ∧ (∀ c ∈ mant, isMantChar c) ∧
      scanMantissa mant = ((scanMantissa s).1, (scanMantissa s).2.1, []) := by
  have hsplit := takeWhile_append_drop isDigit s
  have hip := takeWhile_all_digits s
  generalize hipd : s.takeWhile isDigit = ip at *
  rw [show scanMantissa s = _ from rfl]
  unfold scanMantissa
  simp only [hipd]
  cases hr : s.drop ip.length with
  | nil =>
    refine ⟨ip, by rw [hr] at hsplit; simpa using hsplit, fun c hc => Or.inl (hip c hc), ?_⟩
    have : ip.takeWhile isDigit = ip := takeWhile_all ip hip
    simp [scanMantissa, this]
  | cons c r' =>
    by_cases hc : c = 46
    · subst hc
      simp only [beq_self_eq_true, if_true]
      have hsplit2 := takeWhile_append_drop isDigit r'
      have hfp := takeWhile_all_digits r'
      generalize hfpd : r'.takeWhile isDigit = fp at *
      refine ⟨ip ++ 46 :: fp, ?_, ?_, ?_⟩
      · rw [hr] at hsplit
        conv => lhs; rw [hsplit, hsplit2]
        simp
      · intro c hc
        simp only [List.mem_append, List.mem_cons] at hc
        rcases hc with hc | rfl | hc
        · exact Or.inl (hip c hc)
        · exact Or.inr rfl
        · exact Or.inl (hfp c hc)
      · have h1 : (ip ++ 46 :: fp).takeWhile isDigit = ip :=
          takeWhile_append_stop ip 46 fp hip (by decide)
        have h2 : fp.takeWhile isDigit = fp := takeWhile_all fp hfp
        simp [scanMantissa, h1, h2]
    · have hc' : (c == 46) = false := by simpa using hc
      simp only [hc', Bool.false_eq_true, if_false]
      refine ⟨ip, by rw [hr] at hsplit; exact hsplit, fun c hc => Or.inl (hip c hc), ?_⟩
      have : ip.takeWhile isDigit = ip := takeWhile_all ip hip
      simp [scanMantissa, this]

/-- exponent text accepted after `e`/`E` -/
def isExpText (r : List UInt8) : Prop :=
  ∃ ed, (r = ed ∨ r = 43 :: ed ∨ r = 45 :: ed) ∧ ed ≠ [] ∧ ∀ c ∈ ed, isDigit c = true

theorem scanExponent_shape {r : List UInt8} (h : (scanExponent r).isSome = true) : isExpText r := by
  have aux : ∀ ed : List UInt8, ¬ ((ed.isEmpty || !ed.all isDigit) = true) →
      ed ≠ [] ∧ ∀ c ∈ ed, isDigit c = true := by
    intro ed hcond
    simp only [Bool.or_eq_true, Bool.not_eq_true', not_or, Bool.not_eq_false] at hcond
    refine ⟨?_, ?_⟩
    · intro e; rw [e] at hcond; simp at hcond
    · exact List.all_eq_true.mp (by simpa using hcond.2)
  unfold scanExponent at h
  split at h
  · rename_i ed
    split at h
    · simp at h
    · rename_i hc; exact ⟨ed, Or.inr (Or.inl rfl), aux ed hc⟩
  · rename_i ed
    split at h
    · simp at h
    · rename_i hc; exact ⟨ed, Or.inr (Or.inr rfl), aux ed hc⟩
  · split at h
    · simp at h
    · rename_i hc; exact ⟨r, Or.inl rfl, aux r hc⟩

theorem strtodDecimal_shape {s : List UInt8} {d : Nat} {e : Int}
    (h : strtodDecimal s = some (.dec d e)) :
    ∃ mant, (∀ c ∈ mant, isMantChar c) ∧ (strtodDecimal mant).isSome = true ∧
      (s = mant ∨ ∃ ec r', (ec = 101 ∨ ec = 69) ∧ s = mant ++ ec :: r' ∧ isExpText r') := by
  obtain ⟨mant, hs, hmant, hscan⟩ := scanMantissa_shape s
  have hmantsome : ∀ ip fp r, scanMantissa s = (ip, fp, r) → (ip.isEmpty && fp.isEmpty) = false →
      (strtodDecimal mant).isSome = true := by
    intro ip fp r hsm hne
    rw [hsm] at hscan
    unfold strtodDecimal
    rw [hscan]
    simp [hne]
  unfold strtodDecimal at h
  split at h
  rename_i ip fp r hsm
  rw [hsm] at hs
  simp only at hs
  split at h
  · exact absurd h (by simp)
  · rename_i hne
    have hne' : (ip.isEmpty && fp.isEmpty) = false := by simpa using hne
    refine ⟨mant, hmant, hmantsome ip fp r hsm hne', ?_⟩
    split at h
    · left; simpa using hs
    · rename_i c r'
      split at h
      · rename_i hc
        right
        have hc' : c = 101 ∨ c = 69 := by simpa using hc
        refine ⟨c, r', hc', hs, scanExponent_shape ?_⟩
        cases hse : scanExponent r' with
        | none => rw [hse] at h; simp at h
        | some _ => rfl
      · exact absurd h (by simp)

/-! #### splitting at a unique byte -/

theorem split_unique {x : UInt8} : ∀ {l1 l1' l2 l2' : List UInt8}, x ∉ l1 → x ∉ l1' →
    l1 ++ x :: l2 = l1' ++ x :: l2' → l1 = l1' ∧ l2 = l2' := by
  intro l1
  induction l1 with
  | nil =>
    intro l1' l2 l2' _ h1' h
    cases l1' with
    | nil => simp at h; exact ⟨rfl, h⟩
    | cons a l1' =>
      simp at h
      exact absurd (by simp [h.1]) h1'
  | cons a l1 ih =>
    intro l1' l2 l2' h1 h1' h
    cases l1' with
    | nil =>
      simp at h
      exact absurd (by simp [h.1]) h1
    | cons a' l1' =>
      simp at h
      obtain ⟨rfl, h⟩ := h
      obtain ⟨e1, e2⟩ := ih (fun hm => h1 (by simp [hm])) (fun hm => h1' (by simp [hm])) h
      exact ⟨by rw [e1], e2⟩

theorem mantChar_ne {c : UInt8} (hc : isMantChar c) :
    c ≠ 101 ∧ c ≠ 69 ∧ c ≠ 43 ∧ c ≠ 45 ∧ c ≠ 95 := by
  rcases hc with h | rfl
  · refine ⟨?_, ?_, ?_, ?_, ?_⟩ <;> (intro e; subst e; exact absurd h (by decide))
  · decide

theorem expText_chars {r : List UInt8} (h : isExpText r) :
    ∀ c ∈ r, isDigit c = true ∨ c = 43 ∨ c = 45 := by
  obtain ⟨ed, hr, _, hed⟩ := h
  intro c hc
  rcases hr with rfl | rfl | rfl
  · exact Or.inl (hed c hc)
  · simp at hc; rcases hc with rfl | hc
    · exact Or.inr (Or.inl rfl)
    · exact Or.inl (hed c hc)
  · simp at hc; rcases hc with rfl | hc
    · exact Or.inr (Or.inr rfl)
    · exact Or.inl (hed c hc)

/-- the text of a decimal literal with exponent splits at its `e`/`E` exactly where the model
looks for it -/
theorem findEither_exponent {text mant r' : List UInt8} {ec : UInt8} (hec : ec = 101 ∨ ec = 69)
    (hs : filterUnderscore text = mant ++ ec :: r') (hmant : ∀ c ∈ mant, isMantChar c)
    (hr' : isExpText r') :
    ∃ idx, findEither 101 69 text = some (ec == 69, idx) ∧
      text = text.take idx ++ ec :: text.drop (idx + 1) ∧
      filterUnderscore (text.take idx) = mant ∧ filterUnderscore (text.drop (idx + 1)) = r' := by
  have hec95 : ec ≠ 95 := by rcases hec with rfl | rfl <;> decide
  -- e/E occur in the underscore-free text only at the split point
  have hnot : ∀ x : UInt8, (x = 101 ∨ x = 69) → x ∉ mant ∧ x ∉ r' := by
    intro x hx
    refine ⟨fun hm => ?_, fun hm => ?_⟩
    · have := mantChar_ne (hmant x hm)
      rcases hx with rfl | rfl
      · exact this.1 rfl
      · exact this.2.1 rfl
    · rcases expText_chars hr' x hm with h | h | h <;> rcases hx with rfl | rfl <;>
        first | exact absurd h (by decide)
  have hmem : ec ∈ text := by
    have : ec ∈ filterUnderscore text := by rw [hs]; simp
    exact (mem_filterUnderscore hec95).mp this
  have key : ∀ idx, findByte ec text = some idx →
      text = text.take idx ++ ec :: text.drop (idx + 1) ∧
      filterUnderscore (text.take idx) = mant ∧ filterUnderscore (text.drop (idx + 1)) = r' := by
    intro idx hidx
    obtain ⟨h1, h2⟩ := findByte_some hidx
    refine ⟨h1, ?_⟩
    have hf : filterUnderscore (text.take idx) ++ ec :: filterUnderscore (text.drop (idx + 1)) =
        mant ++ ec :: r' := by
      rw [← hs]
      conv => rhs; rw [h1]
      rw [filterUnderscore_append, filterUnderscore_cons_ne hec95]
    have hn1 : ec ∉ filterUnderscore (text.take idx) := fun hm =>
      h2 ((mem_filterUnderscore hec95).mp hm)
    exact split_unique hn1 (hnot ec hec).1 hf
  rcases hec with rfl | rfl
  · cases hf : findByte 101 text with
    | none => exact absurd hmem ((findByte_none_iff 101 text).mp hf)
    | some idx =>
      refine ⟨idx, ?_, key idx hf⟩
      simp [findEither, hf]
  · have h101 : (101 : UInt8) ∉ text := by
      intro hm
      have : (101 : UInt8) ∈ filterUnderscore text := (mem_filterUnderscore (by decide)).mpr hm
      rw [hs] at this
      simp only [List.mem_append, List.mem_cons] at this
      rcases this with h | h | h
      · exact (hnot 101 (Or.inl rfl)).1 h
      · exact absurd h (by decide)
      · exact (hnot 101 (Or.inl rfl)).2 h
    cases hf : findByte 69 text with
    | none => exact absurd hmem ((findByte_none_iff 69 text).mp hf)
    | some idx =>
      refine ⟨idx, ?_, key idx hf⟩
      simp [findEither, (findByte_none_iff 101 text).mpr h101, hf]

/-! #### the token shape keeps `_` away from the exponent sign -/

theorem takeWhile_length_all {p : UInt8 → Bool} (l : List UInt8)
    (h : (l.takeWhile p).length = l.length) : ∀ x ∈ l, p x = true := by
  have hsplit := takeWhile_append_drop p l
  have hd : l.drop (l.takeWhile p).length = [] := by
    rw [h]; simp
  rw [hd, List.append_nil] at hsplit
  intro x hx
  rw [hsplit] at hx
  exact mem_takeWhile_sat l x hx

def isTokTail (c : UInt8) : Prop := (isAlpha c || isDigit c || c == 95) = true

theorem tokTail_not_sign {c : UInt8} (h : isTokTail c) : c ≠ 43 ∧ c ≠ 45 := by
  unfold isTokTail at h
  constructor <;> (intro e; subst e; exact absurd h (by decide))

theorem token_after_exponent {text a' b : List UInt8} {c0 ec : UInt8}
    (htok : isNumberToken text = true) (hsplit : text = (c0 :: a') ++ ec :: b)
    (hec : ec = 101 ∨ ec = 69)
    (ha : ∀ c ∈ a', (isDigit c || c == 46 || c == 95) = true) :
    (∃ sg b', b = sg :: b' ∧ (sg = 43 ∨ sg = 45) ∧ ∀ c ∈ b', isTokTail c) ∨ (∀ c ∈ b, isTokTail c) := by
  subst hsplit
  unfold isNumberToken at htok
  rw [Bool.and_eq_true] at htok
  have hlen : numberTokenLength ((c0 :: a') ++ ec :: b) = ((c0 :: a') ++ ec :: b).length := by
    simpa using htok.2
  have hp1 : (isDigit ec || ec == 46 || ec == 95) = false := by
    rcases hec with rfl | rfl <;> decide
  have hrun1 : (a' ++ ec :: b).takeWhile (fun c => isDigit c || c == 46 || c == 95) = a' :=
    takeWhile_append_stop a' ec b ha hp1
  have hece : (ec == 101 || ec == 69) = true := by rcases hec with rfl | rfl <;> decide
  simp only [List.cons_append, numberTokenLength, hrun1, List.drop_left', hece, if_true] at hlen
  cases b with
  | nil => right; intro c hc; simp at hc
  | cons s r' =>
    by_cases hs : (s == 43 || s == 45) = true
    · left
      simp only [hs, if_true] at hlen
      have hs' : s = 43 ∨ s = 45 := by simpa using hs
      refine ⟨s, r', rfl, hs', takeWhile_length_all r' ?_⟩
      simp only [List.length_cons, List.length_append] at hlen
      omega
    · right
      have hs' : (s == 43 || s == 45) = false := by simpa using hs
      simp only [hs', Bool.false_eq_true, if_false] at hlen
      refine takeWhile_length_all (s :: r') ?_
      simp only [List.length_cons, List.length_append] at hlen ⊢
      omega

theorem containsSub_true {needle hay : List UInt8} (h : containsSub needle hay = true) :
    ∃ l1 l2, hay = l1 ++ needle ++ l2 := by
  induction hay with
  | nil =>
    simp only [containsSub] at h
    obtain ⟨t, ht⟩ := List.isPrefixOf_iff_prefix.mp h
    exact ⟨[], t, by simpa using ht.symm⟩
  | cons c cs ih =>
    simp only [containsSub, Bool.or_eq_true] at h
    rcases h with h | h
    · obtain ⟨t, ht⟩ := List.isPrefixOf_iff_prefix.mp h
      exact ⟨[], t, by simpa using ht.symm⟩
    · obtain ⟨l1, l2, hl⟩ := ih h
      exact ⟨c :: l1, l2, by simp [hl]⟩

theorem no_us_sign {a b : List UInt8} {ec y : UInt8} (hec95 : ec ≠ 95) (hy : y = 43 ∨ y = 45)
    (ha : y ∉ a) (hecy : ec ≠ y)
    (hb : (∃ sg b', b = sg :: b' ∧ y ∉ b') ∨ y ∉ b) :
    containsSub [95, y] (a ++ ec :: b) = false := by
  have hy95 : y ≠ 95 := by rcases hy with rfl | rfl <;> decide
  cases hc : containsSub [95, y] (a ++ ec :: b) with
  | false => rfl
  | true =>
    exfalso
    obtain ⟨l1, l2, hl⟩ := containsSub_true hc
    have hl' : a ++ ec :: b = l1 ++ 95 :: y :: l2 := by simpa using hl
    have hymem : y ∈ a ++ ec :: b := by rw [hl']; simp
    rcases hb with ⟨sg, b', rfl, hb'⟩ | hb
    · by_cases hsg : sg = y
      · subst hsg
        -- the only `y` of the text sits right after `ec`
        have e1 : a ++ ec :: sg :: b' = (a ++ [ec]) ++ sg :: b' := by simp
        have hn1 : sg ∉ a ++ [ec] := by
          simp only [List.mem_append, List.mem_singleton, not_or]
          exact ⟨ha, fun e => hecy e.symm⟩
        by_cases hin : sg ∈ l1
        · cases hf : findByte sg l1 with
          | none => exact absurd hin ((findByte_none_iff sg l1).mp hf)
          | some i =>
            obtain ⟨h1, h2⟩ := findByte_some hf
            have e2 : a ++ ec :: sg :: b' =
                l1.take i ++ sg :: (l1.drop (i + 1) ++ 95 :: sg :: l2) := by
              rw [hl']; conv => lhs; rw [h1]
              simp
            rw [e1] at e2
            obtain ⟨_, e3⟩ := split_unique hn1 h2 e2
            exact hb' (by rw [e3]; simp)
        · have e2 : (a ++ [ec]) ++ sg :: b' = (l1 ++ [95]) ++ sg :: l2 := by
            rw [← e1, hl']; simp
          have hn2 : sg ∉ l1 ++ [95] := by
            simp only [List.mem_append, List.mem_singleton, not_or]
            exact ⟨hin, hy95⟩
          obtain ⟨e3, _⟩ := split_unique hn1 hn2 e2
          have := (List.append_inj' e3 rfl).2
          simp at this
          exact hec95 this
      · simp only [List.mem_append, List.mem_cons] at hymem
        rcases hymem with h | h | h | h
        · exact ha h
        · exact hecy h.symm
        · exact hsg h.symm
        · exact hb' h
    · simp only [List.mem_append, List.mem_cons] at hymem
      rcases hymem with h | h | h
      · exact ha h
      · exact hecy h.symm
      · exact hb h

/-! #### the decimal half of `number_parse_spec` -/

/-- What is assumed about Rust's `str::parse::<f64>` relative to the reference decimal grammar:
every text `digits* [. digits*] [(e|E) [+-] digits+]` (at least one mantissa digit) is accepted
and read as the correctly rounded value of `digits × 10^exp`. -/
structure ParseLaws {F : Type} (ops : NumOps F) : Prop where
  parse_decimal : ∀ s d e, strtodDecimal s = some (.dec d e) →
    ops.parse s = some (ops.ofDecimal d e)

theorem strtodDecimal_nil : strtodDecimal [] = none := by decide

theorem parseNumber_dec {F : Type} (ops : NumOps F) (laws : ParseLaws ops) {text : List UInt8}
    {d : Nat} {e : Int} (h : luauNumber? text = some (.dec d e)) (hov : expOverflows text = false) :
    ∃ ex, parseNumber ops text = .ok (.decimal (ops.ofDecimal d e) ex) := by
  obtain ⟨htok, hpre, hdec⟩ := luauNumber_dec h
  obtain ⟨c0, t0, htext, hc095, hnp⟩ := isNumberToken_head htok
  have hnp' : List.isPrefixOf [46, 95] text = false := by
    cases hh : List.isPrefixOf [46, 95] text with
    | false => rfl
    | true => exact absurd (List.isPrefixOf_iff_prefix.mp hh) hnp
  have hval := laws.parse_decimal _ _ _ hdec
  obtain ⟨mant, hmant, hmsome, hshape⟩ := strtodDecimal_shape hdec
  unfold parseNumber
  rw [hpre]
  simp only
  unfold parseDecBranch
  simp only [hnp', Bool.false_eq_true, if_false]
  rcases hshape with hs | ⟨ec, r', hec, hs, hr'⟩
  · -- no exponent: no `e`/`E` anywhere in the text
    have hno : ∀ x : UInt8, (x = 101 ∨ x = 69) → x ∉ text := by
      intro x hx hm
      have hx95 : x ≠ 95 := by rcases hx with rfl | rfl <;> decide
      have : x ∈ filterUnderscore text := (mem_filterUnderscore hx95).mpr hm
      rw [hs] at this
      have := mantChar_ne (hmant x this)
      rcases hx with rfl | rfl
      · exact this.1 rfl
      · exact this.2.1 rfl
    rw [findEither_none (hno 101 (Or.inl rfl)) (hno 69 (Or.inr rfl))]
    simp only [hval]
    exact ⟨none, rfl⟩
  · obtain ⟨idx, hfind, hsplit, hfa, hfb⟩ := findEither_exponent hec hs hmant hr'
    have hec95 : ec ≠ 95 := by rcases hec with rfl | rfl <;> decide
    -- the part before the exponent is not empty
    have hmne : mant ≠ [] := by
      intro e0; rw [e0, strtodDecimal_nil] at hmsome; exact absurd hmsome (by decide)
    have hachars : ∀ c ∈ text.take idx, c = 95 ∨ isMantChar c := by
      intro c hc
      by_cases h95 : c = 95
      · exact Or.inl h95
      · right
        have : c ∈ filterUnderscore (text.take idx) := (mem_filterUnderscore h95).mpr hc
        rw [hfa] at this
        exact hmant c this
    cases hta : text.take idx with
    | nil => rw [hta] at hfa; exact absurd hfa.symm (by simpa [filterUnderscore] using hmne)
    | cons a0 a' =>
      have ha' : ∀ c ∈ a', (isDigit c || c == 46 || c == 95) = true := by
        intro c hc
        rcases hachars c (by rw [hta]; simp [hc]) with rfl | h | rfl
        · decide
        · simp [h]
        · decide
      have hsplit' : text = (a0 :: a') ++ ec :: text.drop (idx + 1) := by rw [← hta]; exact hsplit
      have htail := token_after_exponent htok hsplit' hec ha'
      have hnosign : ∀ y : UInt8, (y = 43 ∨ y = 45) → containsSub [95, y] text = false := by
        intro y hy
        rw [hsplit']
        apply no_us_sign hec95 hy
        · intro hm
          rcases hachars y (by rw [hta]; exact hm) with rfl | h
          · rcases hy with h | h <;> exact absurd h (by decide)
          · have := mantChar_ne h
            rcases hy with rfl | rfl
            · exact this.2.2.1 rfl
            · exact this.2.2.2.1 rfl
        · rcases hec with rfl | rfl <;> rcases hy with rfl | rfl <;> decide
        · rcases htail with ⟨sg, b', hb, _, hb'⟩ | hb
          · left
            refine ⟨sg, b', hb, fun hm => ?_⟩
            have := tokTail_not_sign (hb' y hm)
            rcases hy with rfl | rfl
            · exact this.1 rfl
            · exact this.2 rfl
          · right
            intro hm
            have := tokTail_not_sign (hb y hm)
            rcases hy with rfl | rfl
            · exact this.1 rfl
            · exact this.2 rfl
      have hexp : ∃ ex, parseI64 (filterUnderscore (text.drop (idx + 1))) = some ex := by
        unfold expOverflows at hov
        rw [hfind] at hov
        simp only at hov
        cases hp : parseI64 (filterUnderscore (text.drop (idx + 1))) with
        | none => rw [hp] at hov; simp at hov
        | some ex => exact ⟨ex, rfl⟩
      obtain ⟨ex, hex⟩ := hexp
      have hmparse : ∃ x, ops.parse (filterUnderscore (text.take idx)) = some x := by
        rw [hfa]
        cases hm : strtodDecimal mant with
        | none => rw [hm] at hmsome; exact absurd hmsome (by decide)
        | some desc =>
          obtain ⟨d', e', rfl⟩ := strtodDecimal_dec hm
          exact ⟨_, laws.parse_decimal _ _ _ hm⟩
      obtain ⟨xm, hxm⟩ := hmparse
      rw [hfind]
      simp only [hnosign 45 (Or.inr rfl), hnosign 43 (Or.inl rfl), Bool.or_self, Bool.false_eq_true,
        if_false, hex, hxm, hval]
      exact ⟨_, rfl⟩

/-! #### rejected spellings are rejected by both -/

theorem foldDigits_none (radix : Nat)
    (htd : ∀ c : UInt8, toDigit radix c = (hexVal? c).filter (· < radix))
    (ds : List UInt8) (hall : ds.all (fun c => (hexVal? c).any (· < radix)) = false) :
    ∀ acc, foldDigits radix acc ds = none := by
  induction ds with
  | nil => simp at hall
  | cons c cs ih =>
    intro acc
    simp only [foldDigits, htd c]
    cases hv : hexVal? c with
    | none => simp [Option.filter]
    | some dgt =>
      by_cases hd : dgt < radix
      · simp only [Option.filter, hd, decide_true, if_true]
        apply ih
        simp only [List.all_cons, hv, Option.any_some, hd, decide_true, Bool.true_and] at hall
        exact hall
      · simp [Option.filter, hd]

theorem parseUnsigned_eq_strtoull' (radix : Nat)
    (htd : ∀ c : UInt8, toDigit radix c = (hexVal? c).filter (· < radix)) (ds : List UInt8)
    (h43 : ds.head? ≠ some 43) :
    parseUnsigned radix 18446744073709551615 ds = strtoullAll radix ds := by
  cases ds with
  | nil => rfl
  | cons c cs =>
    cases hall : (c :: cs).all (fun c => (hexVal? c).any (· < radix)) with
    | true => exact parseUnsigned_eq_strtoull radix htd (c :: cs) hall
    | false =>
      have hc43 : c ≠ 43 := by intro e; subst e; simp at h43
      have hfold := foldDigits_none radix htd (c :: cs) hall 0
      have hst : strtoullAll radix (c :: cs) = none := by
        simp only [strtoullAll, List.isEmpty_cons, Bool.false_eq_true, if_false, hall]
      rw [hst]
      unfold parseUnsigned
      split
      · rename_i h; simp at h; exact absurd h.1 hc43
      · simp only [List.isEmpty_cons, Bool.false_eq_true, if_false, hfold, Option.filter]

theorem token_prefixed_tail {u body : List UInt8} {ch : UInt8}
    (htok : isNumberToken (48 :: (u ++ ch :: body)) = true) (hu : allUS u) (hm : isMarker ch) :
    ∀ c ∈ body, isTokTail c := by
  unfold isNumberToken at htok
  rw [Bool.and_eq_true] at htok
  have hlen : numberTokenLength (48 :: (u ++ ch :: body)) = (48 :: (u ++ ch :: body)).length := by
    simpa using htok.2
  have hp1 : (isDigit ch || ch == 46 || ch == 95) = false := by
    rcases hm with rfl | rfl | rfl | rfl <;> decide
  have hrun1 : (u ++ ch :: body).takeWhile (fun c => isDigit c || c == 46 || c == 95) = u :=
    takeWhile_append_stop u ch body (by intro c hc; rw [hu c hc]; decide) hp1
  have hece : (ch == 101 || ch == 69) = false := by
    rcases hm with rfl | rfl | rfl | rfl <;> decide
  simp only [numberTokenLength, hrun1, List.drop_left', hece, Bool.false_eq_true, if_false] at hlen
  have hall := takeWhile_length_all (p := fun c => isAlpha c || isDigit c || c == 95) (ch :: body) (by
    simp only [List.length_cons, List.length_append] at hlen ⊢
    omega)
  intro c hc
  exact hall c (by simp [hc])

/-- a token whose underscore-free form is `0` marker … has the marker as the model sees it -/
theorem marker_shape {text : List UInt8} {x : UInt8} {rest : List UInt8}
    (htok : isNumberToken text = true) (hs : filterUnderscore text = 48 :: x :: rest) :
    ∃ u body, text = 48 :: (u ++ x :: body) ∧ allUS u ∧ filterUnderscore body = rest := by
  obtain ⟨c, t, htext, hc95, _⟩ := isNumberToken_head htok
  obtain ⟨u0, l', hl, hu0, _, hl'⟩ := filter_eq_cons hs
  have hu0nil : u0 = [] := by
    cases u0 with
    | nil => rfl
    | cons a u0' =>
      have : a = 95 := hu0 a (by simp)
      rw [htext] at hl; simp at hl
      exact absurd (hl.1.trans this) hc95
  subst hu0nil
  obtain ⟨u, body, hbody, hu, _, hrest⟩ := filter_eq_cons hl'
  exact ⟨u, body, by rw [hl, hbody]; rfl, hu, hrest⟩

/-- What is assumed about the texts Rust's `str::parse::<f64>` refuses: a text starting with a
digit or `.` that is not of the form `digits* [. digits*] [(e|E) [+-] digits+]` is refused. -/
structure RejectLaws {F : Type} (ops : NumOps F) : Prop where
  parse_reject : ∀ s c t, s = c :: t → (isDigit c = true ∨ c = 46) → strtodDecimal s = none →
    ops.parse s = none

theorem isNumberToken_head' {text : List UInt8} (h : isNumberToken text = true) :
    ∃ c t, text = c :: t ∧ (isDigit c = true ∨ c = 46) := by
  unfold isNumberToken at h
  rw [Bool.and_eq_true] at h
  obtain ⟨h1, _⟩ := h
  match text, h1 with
  | [c], h1 => exact ⟨c, [], rfl, Or.inl h1⟩
  | c :: d :: t, h1 =>
    have h1' : (isDigit c || (c == 46 && isDigit d)) = true := h1
    refine ⟨c, d :: t, rfl, ?_⟩
    rw [Bool.or_eq_true] at h1'
    rcases h1' with h | h
    · exact Or.inl h
    · rw [Bool.and_eq_true] at h; exact Or.inr (by simpa using h.1)

theorem parseNumber_reject {F : Type} (ops : NumOps F) (laws : RejectLaws ops) {text : List UInt8}
    (htok : isNumberToken text = true) (h : luauNumber? text = none)
    (hhf : hexFloatShape text = false) :
    ∃ err, parseNumber ops text = .error err := by
  unfold parseNumber
  cases hp : hexOrBinPrefix text with
  | some pc =>
    obtain ⟨pos, ch⟩ := pc
    obtain ⟨u, body, rfl, hu, hm, rfl⟩ := hexOrBinPrefix_some hp
    have hch : ch ≠ 95 := by rcases hm with rfl | rfl | rfl | rfl <;> decide
    have hs : filterUnderscore (48 :: (u ++ ch :: body)) = 48 :: ch :: filterUnderscore body := by
      rw [filterUnderscore_cons_ne (by decide), filter_us_cons hu hch]
    rw [luauNumber_marker htok hs] at h
    have htail := token_prefixed_tail htok hu hm
    have h43 : (filterUnderscore body).head? ≠ some 43 := by
      intro e
      cases hb : filterUnderscore body with
      | nil => rw [hb] at e; simp at e
      | cons b0 bs =>
        rw [hb] at e; simp at e; subst e
        have : (43 : UInt8) ∈ filterUnderscore body := by rw [hb]; simp
        have := (mem_filterUnderscore (by decide)).mp this
        exact (tokTail_not_sign (htail 43 this)).1 rfl
    simp only
    rcases hm with rfl | rfl | rfl | rfl
    · -- 0x…: no `p`/`P` by hypothesis
      simp only [hexFloatShape, hp, Option.any_some, show ((120 : UInt8) == 120 || (120 : UInt8) == 88) = true by decide,
        Bool.true_and, Bool.or_eq_false_iff] at hhf
      have hp1 : (112 : UInt8) ∉ (48 :: (u ++ 120 :: body)) := by
        intro hm; have := List.contains_iff_mem.mpr hm; rw [hhf.1] at this; exact absurd this (by decide)
      have hp2 : (80 : UInt8) ∉ (48 :: (u ++ 120 :: body)) := by
        intro hm; have := List.contains_iff_mem.mpr hm; rw [hhf.2] at this; exact absurd this (by decide)
      simp only [show ((120 : UInt8) == 120 || (120 : UInt8) == 88) = true by decide, if_true,
        Option.map_eq_none_iff] at h ⊢
      unfold parseHexBranch
      rw [findEither_none hp1 hp2]
      simp only [drop_shape, parseUnsigned_eq_strtoull' 16 toDigit_16 _ h43, h]
      exact ⟨_, rfl⟩
    · simp only [hexFloatShape, hp, Option.any_some, show ((88 : UInt8) == 120 || (88 : UInt8) == 88) = true by decide,
        Bool.true_and, Bool.or_eq_false_iff] at hhf
      have hp1 : (112 : UInt8) ∉ (48 :: (u ++ 88 :: body)) := by
        intro hm; have := List.contains_iff_mem.mpr hm; rw [hhf.1] at this; exact absurd this (by decide)
      have hp2 : (80 : UInt8) ∉ (48 :: (u ++ 88 :: body)) := by
        intro hm; have := List.contains_iff_mem.mpr hm; rw [hhf.2] at this; exact absurd this (by decide)
      simp only [show ((88 : UInt8) == 120 || (88 : UInt8) == 88) = true by decide, if_true,
        Option.map_eq_none_iff] at h ⊢
      unfold parseHexBranch
      rw [findEither_none hp1 hp2]
      simp only [drop_shape, parseUnsigned_eq_strtoull' 16 toDigit_16 _ h43, h]
      exact ⟨_, rfl⟩
    · simp only [show ((98 : UInt8) == 120 || (98 : UInt8) == 88) = false by decide,
        show ((98 : UInt8) == 98 || (98 : UInt8) == 66) = true by decide, Bool.false_eq_true, if_false,
        if_true, Option.map_eq_none_iff] at h ⊢
      unfold parseBinBranch
      simp only [drop_shape, parseUnsigned_eq_strtoull' 2 toDigit_2 _ h43, h]
      exact ⟨_, rfl⟩
    · simp only [show ((66 : UInt8) == 120 || (66 : UInt8) == 88) = false by decide,
        show ((66 : UInt8) == 98 || (66 : UInt8) == 66) = true by decide, Bool.false_eq_true, if_false,
        if_true, Option.map_eq_none_iff] at h ⊢
      unfold parseBinBranch
      simp only [drop_shape, parseUnsigned_eq_strtoull' 2 toDigit_2 _ h43, h]
      exact ⟨_, rfl⟩
  | none =>
    simp only
    -- the reference read the text as a decimal and refused it
    have hdec : strtodDecimal (filterUnderscore text) = none := by
      have hs' : text.filter (· != 95) = filterUnderscore text := rfl
      simp only [luauNumber?, htok, Bool.not_true, Bool.false_eq_true, if_false, hs'] at h
      split at h
      · rename_i x rest heq
        by_cases hmk : isMarker x
        · obtain ⟨u, body, rfl, hu, _⟩ := marker_shape htok heq
          rw [hexOrBinPrefix_of_shape u body x hu hmk] at hp
          exact absurd hp (by simp)
        · have h1 : (x == 120 || x == 88) = false := by
            cases hh : (x == 120 || x == 88) with
            | false => rfl
            | true =>
              have : x = 120 ∨ x = 88 := by simpa using hh
              exact absurd (by rcases this with e | e; exact Or.inl e; exact Or.inr (Or.inl e)) hmk
          have h2 : (x == 98 || x == 66) = false := by
            cases hh : (x == 98 || x == 66) with
            | false => rfl
            | true =>
              have : x = 98 ∨ x = 66 := by simpa using hh
              exact absurd (by rcases this with e | e; exact Or.inr (Or.inr (Or.inl e)); exact Or.inr (Or.inr (Or.inr e))) hmk
          simp only [h1, h2, Bool.false_eq_true, if_false] at h
          first | exact h | (rw [heq]; exact h)
      · exact h
    obtain ⟨c, t, htext, hc⟩ := isNumberToken_head' htok
    have hc95 : c ≠ 95 := by
      rcases hc with h' | rfl
      · intro e; subst e; exact absurd h' (by decide)
      · decide
    have hsf : filterUnderscore text = c :: filterUnderscore t := by
      rw [htext, filterUnderscore_cons_ne hc95]
    have hnone := laws.parse_reject _ c _ hsf hc hdec
    cases hr : parseDecBranch ops text with
    | error err => exact ⟨err, rfl⟩
    | ok lit =>
      obtain ⟨x, ex, _, hx⟩ := parseDecBranch_ok ops hr
      rw [hnone] at hx; exact absurd hx (by simp)
