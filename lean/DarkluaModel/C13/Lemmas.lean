import DarkluaModel.C13.Model
import DarkluaModel.C13.Spec
namespace DarkluaModel.C13
open Spec

theorem isAsciiDigit_eq (c : UInt8) : isAsciiDigit c = isDigit c := rfl

theorem isDigit_digitByte : ∀ k, k < 10 → isDigit (digitByte k) = true := by decide
theorem digitByte_val : ∀ k, k < 10 → (digitByte k).toNat - 48 = k := by decide

theorem ofNat_toNat_eq (c : UInt8) (n : Nat) (h : n = c.toNat) : UInt8.ofNat n = c := by
  subst h; simp

/-- head-not-digit predicate -/
def headNotDigit (tail : List UInt8) : Prop := ∀ t ts, tail = t :: ts → isDigit t = false

theorem takeWhile_take_of_headNotDigit {tail : List UInt8} (h : headNotDigit tail) (k : Nat) :
    (tail.take k).takeWhile isDigit = [] := by
  cases tail with
  | nil => simp
  | cons t ts =>
    cases k with
    | zero => simp
    | succ k => simp [List.take, List.takeWhile, h t ts rfl]

theorem decimalEscape_pad3 (c : UInt8) (tail : List UInt8) :
    decimalEscape (digitByte (c.toNat / 100))
      (digitByte (c.toNat / 10 % 10) :: digitByte (c.toNat % 10) :: tail) = some ([c], 2) := by
  have hc : c.toNat < 256 := c.toNat_lt
  have h1 := isDigit_digitByte (c.toNat / 10 % 10) (by omega)
  have h2 := isDigit_digitByte (c.toNat % 10) (by omega)
  have v0 := digitByte_val (c.toNat / 100) (by omega)
  have v1 := digitByte_val (c.toNat / 10 % 10) (by omega)
  have v2 := digitByte_val (c.toNat % 10) (by omega)
  simp only [decimalEscape, List.take, List.takeWhile, h1, h2, List.foldl, v0, v1, v2, List.length]
  have : ¬ (10 * (10 * (10 * 0 + c.toNat / 100) + c.toNat / 10 % 10) + c.toNat % 10 > 255) := by omega
  rw [if_neg this]
  congr 3
  apply ofNat_toNat_eq; omega

theorem decimalEscape_fmtU8 (c : UInt8) (tail : List UInt8) (h : headNotDigit tail) :
    ∃ e es, fmtU8 c = e :: es ∧ isDigit e = true ∧
      decimalEscape e (es ++ tail) = some ([c], es.length) := by
  have hc : c.toNat < 256 := c.toNat_lt
  unfold fmtU8
  by_cases h10 : c.toNat < 10
  · refine ⟨_, _, by simp only [h10, if_true]; rfl, isDigit_digitByte _ h10, ?_⟩
    have v0 := digitByte_val (c.toNat) h10
    simp only [decimalEscape, List.nil_append, takeWhile_take_of_headNotDigit h, List.foldl, v0,
      List.length]
    rw [if_neg (by omega)]
    congr 3
    apply ofNat_toNat_eq; omega
  · by_cases h100 : c.toNat < 100
    · refine ⟨_, _, by simp only [h10, h100, if_true, if_false]; rfl,
        isDigit_digitByte _ (by omega), ?_⟩
      have h1 := isDigit_digitByte (c.toNat % 10) (by omega)
      have v0 := digitByte_val (c.toNat / 10) (by omega)
      have v1 := digitByte_val (c.toNat % 10) (by omega)
      have := takeWhile_take_of_headNotDigit h 1
      simp only [decimalEscape, List.cons_append, List.nil_append, List.take, List.takeWhile, h1,
        this, List.foldl, v0, v1, List.length]
      rw [if_neg (by omega)]
      congr 3
      apply ofNat_toNat_eq; omega
    · refine ⟨_, _, by simp only [h10, h100, if_false]; rfl,
        isDigit_digitByte _ (by omega), ?_⟩
      exact decimalEscape_pad3 c tail

/-- compatibility of the look-ahead with the actual continuation -/
def nextCompat (next : Option UInt8) (tail : List UInt8) : Prop :=
  ∀ t ts, tail = t :: ts → isDigit t = true → ∃ n, next = some n ∧ isDigit n = true

theorem decodeEscape_escape (d : Dialect) (c : UInt8) (next : Option UInt8) (tail : List UInt8)
    (hc : nextCompat next tail) :
    ∃ es, escape c next = 92 :: es ∧ decodeEscape d (es ++ tail) = some ([c], es.length) := by
  unfold escape
  by_cases h1 : c = 10; · subst h1; exact ⟨[110], rfl, by simp [decodeEscape, isDigit, simpleEscape?]⟩
  by_cases h2 : c = 9; · subst h2; exact ⟨[116], rfl, by simp [decodeEscape, isDigit, simpleEscape?]⟩
  by_cases h3 : c = 92
  · subst h3; refine ⟨[92], rfl, ?_⟩
    cases d <;> simp [decodeEscape, isDigit, simpleEscape?]
  by_cases h4 : c = 13; · subst h4; exact ⟨[114], rfl, by simp [decodeEscape, isDigit, simpleEscape?]⟩
  by_cases h5 : c = 7; · subst h5; exact ⟨[97], rfl, by simp [decodeEscape, isDigit, simpleEscape?]⟩
  by_cases h6 : c = 8; · subst h6; exact ⟨[98], rfl, by simp [decodeEscape, isDigit, simpleEscape?]⟩
  by_cases h7 : c = 11; · subst h7; exact ⟨[118], rfl, by simp [decodeEscape, isDigit, simpleEscape?]⟩
  by_cases h8 : c = 12; · subst h8; exact ⟨[102], rfl, by simp [decodeEscape, isDigit, simpleEscape?]⟩
  simp only [beq_iff_eq, h1, h2, h3, h4, h5, h6, h7, h8, if_false]
  by_cases hn : (next.filter isAsciiDigit).isSome = true
  · simp only [hn, if_true]
    refine ⟨fmtU8Pad3 c, rfl, ?_⟩
    have hc' : c.toNat < 256 := c.toNat_lt
    have hd := isDigit_digitByte (c.toNat / 100) (by omega)
    simp only [fmtU8Pad3, List.cons_append, List.nil_append, decodeEscape, hd, if_true,
      decimalEscape_pad3, Option.map, List.length]
  · simp only [hn]
    have hnd : headNotDigit tail := by
      intro t ts ht
      cases hdt : isDigit t with
      | false => rfl
      | true =>
        obtain ⟨n, rfl, hn'⟩ := hc t ts ht hdt
        simp [Option.filter, isAsciiDigit_eq, hn'] at hn
    obtain ⟨e, es, hf, he, hdec⟩ := decimalEscape_fmtU8 c tail hnd
    refine ⟨fmtU8 c, by simp, ?_⟩
    rw [hf]
    simp only [List.cons_append, decodeEscape, he, if_true, hdec, Option.map, List.length]

/-- the per-byte encoder shared by the three loops -/
def writeByte (special : UInt8 → Bool) (c : UInt8) (next : Option UInt8) : List UInt8 :=
  if special c then [92, c] else if needsEscaping c then escape c next else [c]

/-- bytes the writers put behind a backslash as themselves: quotes, backtick, `{` -/
def passThrough (c : UInt8) : Bool := c == 34 || c == 39 || c == 96 || c == 123

theorem decodeEscape_passThrough (d : Dialect) : ∀ (c : UInt8), passThrough c = true → ∀ tail,
    decodeEscape d (c :: tail) = some ([c], 1) := by
  intro c hc tail
  have : ((c = 34 ∨ c = 39) ∨ c = 96) ∨ c = 123 := by
    simpa [passThrough] using hc
  rcases this with ((h | h) | h) | h <;> subst h <;> cases d <;>
    simp [decodeEscape, isDigit, simpleEscape?]

theorem forall_uint8 (P : UInt8 → Prop) (h : ∀ n, n < 256 → P (UInt8.ofNat n)) : ∀ c, P c := by
  intro c
  have := h c.toNat c.toNat_lt
  simpa using this

theorem plain_not_special : ∀ c : UInt8, needsEscaping c = false →
    (c == 10 || c == 13 || c == 0) = false ∧ (c == 92) = false := by
  apply forall_uint8; decide +kernel

theorem decodeBody_writeByte (d : Dialect) (stop special : UInt8 → Bool)
    (hsp : ∀ c, special c = true → passThrough c = true)
    (hstop : ∀ c, stop c = true → special c = true)
    (hstop92 : stop 92 = false)
    (c : UInt8) (next : Option UInt8) (tail : List UInt8) (hc : nextCompat next tail) :
    decodeBody d stop (writeByte special c next ++ tail) =
      (decodeBody d stop tail).map fun (out, r) => (c :: out, r) := by
  unfold writeByte
  by_cases hs : special c = true
  · simp only [hs, if_true, List.cons_append, List.nil_append]
    rw [decodeBody]
    simp [hstop92, decodeEscape_passThrough d c (hsp c hs)]
  · simp only [hs]
    by_cases hne : needsEscaping c = true
    · obtain ⟨es, he, hdec⟩ := decodeEscape_escape d c next tail hc
      simp only [hne, if_true, he, List.cons_append, Bool.false_eq_true, if_false]
      rw [decodeBody]
      simp [hstop92, hdec]
    · have hne' : needsEscaping c = false := by simpa using hne
      have hns : stop c = false := by
        cases h : stop c with
        | false => rfl
        | true => exact absurd (hstop c h) hs
      obtain ⟨p1, p2⟩ := plain_not_special c hne'
      simp only [hne', Bool.false_eq_true, if_false, List.cons_append, List.nil_append]
      rw [decodeBody]
      simp [hns, p1, p2]

/-! ### hex -/

theorem hexVal_hexDigitByte : ∀ k, k < 16 → hexVal? (hexDigitByte k) = some k := by decide

theorem isHexDigit_hexDigitByte (k : Nat) (h : k < 16) : isHexDigit (hexDigitByte k) = true := by
  simp [isHexDigit, hexVal_hexDigitByte k h]

theorem hexFold_append_single (acc : Nat) (xs : List UInt8) (x : UInt8) :
    hexFold acc (xs ++ [x]) = 16 * hexFold acc xs + (hexVal? x).getD 0 := by
  induction xs generalizing acc with
  | nil => simp [hexFold]
  | cons y ys ih => simp [hexFold, ih]

theorem hexFold_fmtHex (n : Nat) : hexFold 0 (fmtHex n) = n := by
  induction n using Nat.strongRecOn with
  | _ n ih =>
    rw [fmtHex]
    split
    · rename_i h; simp [hexFold, hexVal_hexDigitByte n h]
    · rename_i h
      rw [hexFold_append_single, ih (n / 16) (by omega), hexVal_hexDigitByte _ (by omega)]
      simp; omega

theorem fmtHex_allHex (n : Nat) : ∀ x ∈ fmtHex n, isHexDigit x = true := by
  induction n using Nat.strongRecOn with
  | _ n ih =>
    rw [fmtHex]
    split
    · rename_i h; intro x hx; simp at hx; subst hx; exact isHexDigit_hexDigitByte n h
    · rename_i h
      intro x hx
      simp only [List.mem_append, List.mem_singleton] at hx
      rcases hx with hx | hx
      · exact ih (n / 16) (by omega) x hx
      · subst hx; exact isHexDigit_hexDigitByte _ (by omega)

theorem fmtHex_length_pos (n : Nat) : 0 < (fmtHex n).length := by
  rw [fmtHex]; split <;> simp

theorem fmtHex_length_le (k : Nat) : ∀ n, n < 16 ^ (k + 1) → (fmtHex n).length ≤ k + 1 := by
  induction k with
  | zero => intro n h; rw [fmtHex]; simp at h; simp [h]
  | succ k ih =>
    intro n h
    rw [fmtHex]
    split
    · simp
    · have : n / 16 < 16 ^ (k + 1) := by
        rw [Nat.div_lt_iff_lt_mul (by omega)]; rw [Nat.pow_succ] at h; exact h
      have := ih (n / 16) this
      simp; omega

theorem takeWhile_append_stop {p : UInt8 → Bool} (l : List UInt8) (y : UInt8) (r : List UInt8)
    (hl : ∀ x ∈ l, p x = true) (hy : p y = false) : (l ++ y :: r).takeWhile p = l := by
  induction l with
  | nil => simp [List.takeWhile, hy]
  | cons a l ih =>
    simp only [List.cons_append, List.takeWhile, hl a (by simp)]
    rw [ih (fun x hx => hl x (by simp [hx]))]

theorem toUtf8_char (ch : Char) : toUtf8 ch.toNat = some (String.utf8EncodeChar ch) := by
  have hv := ch.valid
  have hv' : ch.toNat < 0xd800 ∨ (0xdfff < ch.toNat ∧ ch.toNat < 0x110000) := hv
  have e : ch.val.toNat = ch.toNat := rfl
  unfold toUtf8 String.utf8EncodeChar
  simp only [e]
  generalize ch.toNat = v at *
  have a0 : v % 64 + 128 = 128 + v % 64 := by omega
  have a1 : v / 64 % 64 + 128 = 128 + v / 64 % 64 := by omega
  have a2 : v / 4096 % 64 + 128 = 128 + v / 4096 % 64 := by omega
  by_cases h1 : v < 0x80
  · rw [if_pos h1, if_pos (show v ≤ 127 by omega)]
  · rw [if_neg h1, if_neg (show ¬ v ≤ 127 by omega)]
    by_cases h2 : v < 0x800
    · rw [if_pos h2, if_pos (show v ≤ 2047 by omega)]
      have b : v / 64 % 32 + 192 = 192 + v / 64 := by omega
      rw [a0, b]
    · rw [if_neg h2, if_neg (show ¬ v ≤ 2047 by omega)]
      by_cases h3 : v < 0x10000
      · rw [if_pos h3, if_pos (show v ≤ 65535 by omega)]
        have b : v / 4096 % 16 + 224 = 224 + v / 4096 := by omega
        rw [a0, a1, b]
      · rw [if_neg h3, if_neg (show ¬ v ≤ 65535 by omega), if_pos (show v < 1114112 by omega)]
        have b : v / 262144 % 8 + 240 = 240 + v / 262144 := by omega
        rw [a0, a1, a2, b]

theorem decodeEscape_unicode (ch : Char) (tail : List UInt8) :
    decodeEscape .luau (117 :: 123 :: (fmtHex ch.toNat ++ 125 :: tail)) =
      some (String.utf8EncodeChar ch, (fmtHex ch.toNat).length + 3) := by
  have hlt : ch.toNat < 0x110000 := by
    have := ch.valid
    have hv' : ch.toNat < 0xd800 ∨ (0xdfff < ch.toNat ∧ ch.toNat < 0x110000) := this
    omega
  have htw : (fmtHex ch.toNat ++ 125 :: tail).takeWhile isHexDigit = fmtHex ch.toNat :=
    takeWhile_append_stop _ _ _ (fmtHex_allHex _) (by decide)
  have hlen := fmtHex_length_le 5 ch.toNat (by omega)
  have hpos := fmtHex_length_pos ch.toNat
  have hmod : ch.toNat % 4294967296 = ch.toNat := Nat.mod_eq_of_lt (by omega)
  have h1 : isDigit 117 = false := by decide
  have h2 : simpleEscape? 117 = none := by decide
  simp only [decodeEscape, h1, h2, htw, hexFold_fmtHex, hmod, toUtf8_char, List.drop_left]
  simp
  refine ⟨?_, by omega⟩
  intro h; rw [h] at hpos; simp at hpos

theorem decodeBody_unicode (stop : UInt8 → Bool) (hstop92 : stop 92 = false) (ch : Char)
    (tail : List UInt8) :
    decodeBody .luau stop ([92, 117, 123] ++ fmtHex ch.toNat ++ [125] ++ tail) =
      (decodeBody .luau stop tail).map fun (out, r) => (String.utf8EncodeChar ch ++ out, r) := by
  have e : [92, 117, 123] ++ fmtHex ch.toNat ++ [125] ++ tail =
      92 :: 117 :: 123 :: (fmtHex ch.toNat ++ 125 :: tail) := by simp
  rw [e, decodeBody]
  have hd : (117 :: 123 :: (fmtHex ch.toNat ++ 125 :: tail)).drop ((fmtHex ch.toNat).length + 3) = tail := by
    simp
  simp [hstop92, decodeEscape_unicode, hd]

/-! ### the loops -/

def writeBytesWith (special : UInt8 → Bool) : List UInt8 → List UInt8
  | [] => []
  | c :: rest => writeByte special c rest.head? ++ writeBytesWith special rest

theorem writeQuotedBytes_eq (q : UInt8) (v : List UInt8) :
    writeQuotedBytes q v = writeBytesWith (· == q) v := by
  induction v with
  | nil => rfl
  | cons c cs ih =>
    simp only [writeQuotedBytes, writeBytesWith, writeByte, ih]
    by_cases h : (c == q) = true
    · have : c = q := by simpa using h
      subst this; simp
    · simp [h]

theorem writeInterpSegment_eq (v : List UInt8) :
    writeInterpSegment v = writeBytesWith (fun c => c == 96 || c == 123) v := by
  induction v with
  | nil => rfl
  | cons c cs ih => simp only [writeInterpSegment, writeBytesWith, writeByte, ih]

theorem escape_head (c : UInt8) (next : Option UInt8) : ∃ es, escape c next = 92 :: es := by
  unfold escape
  repeat (first | exact ⟨_, rfl⟩ | split)

theorem writeByte_head (special : UInt8 → Bool) (c : UInt8) (next : Option UInt8) :
    ∃ t ts, writeByte special c next = t :: ts ∧ (isDigit t = true → t = c) := by
  unfold writeByte
  split
  · exact ⟨92, [c], rfl, fun h => absurd h (by decide)⟩
  · split
    · obtain ⟨es, h⟩ := escape_head c next
      exact ⟨92, es, h, fun h => absurd h (by decide)⟩
    · exact ⟨c, [], rfl, fun _ => rfl⟩

theorem passThrough_not_digit : ∀ c : UInt8, passThrough c = true → isDigit c = false := by
  apply forall_uint8; decide +kernel

theorem nextCompat_writeBytes (special : UInt8 → Bool) (cs : List UInt8) (s : UInt8)
    (rest : List UInt8) (hs : passThrough s = true) :
    nextCompat cs.head? (writeBytesWith special cs ++ s :: rest) := by
  intro t ts ht hd
  cases cs with
  | nil =>
    simp [writeBytesWith] at ht
    rw [← ht.1, passThrough_not_digit s hs] at hd
    exact absurd hd (by decide)
  | cons c cs' =>
    obtain ⟨t', ts', hw, hdig⟩ := writeByte_head special c cs'.head?
    simp only [writeBytesWith, hw, List.cons_append, List.cons.injEq] at ht
    obtain ⟨rfl, _⟩ := ht
    exact ⟨c, by simp, by rw [← hdig hd]; exact hd⟩

theorem decodeBody_writeBytes (d : Dialect) (stop special : UInt8 → Bool)
    (hsp : ∀ c, special c = true → passThrough c = true)
    (hstop : ∀ c, stop c = true → special c = true)
    (v : List UInt8) (s : UInt8) (rest : List UInt8) (hs : stop s = true) :
    decodeBody d stop (writeBytesWith special v ++ s :: rest) = some (v, s :: rest) := by
  have hstop92 : stop 92 = false := by
    cases h : stop 92 with
    | false => rfl
    | true => exact absurd (hsp 92 (hstop 92 h)) (by decide)
  induction v with
  | nil =>
    simp only [writeBytesWith, List.nil_append]
    rw [decodeBody]; simp [hs]
  | cons c cs ih =>
    simp only [writeBytesWith, List.append_assoc]
    rw [decodeBody_writeByte d stop special hsp hstop hstop92 c cs.head? _
      (nextCompat_writeBytes special cs s rest (hsp s (hstop s hs))), ih]
    rfl

/-! ### the `chars()` loop of `write_quoted` -/

theorem charAsU8_toNat (ch : Char) (h : charIsAscii ch = true) : (charAsU8 ch).toNat = ch.toNat := by
  have : ch.toNat < 128 := by simpa [charIsAscii] using h
  simp only [charAsU8, UInt8.toNat_ofNat']
  omega

theorem utf8EncodeChar_ascii (ch : Char) (h : charIsAscii ch = true) :
    String.utf8EncodeChar ch = [charAsU8 ch] := by
  have h' : ch.toNat < 128 := by simpa [charIsAscii] using h
  have e : ch.val.toNat = ch.toNat := rfl
  unfold String.utf8EncodeChar
  simp only [e]
  rw [if_pos (show ch.toNat ≤ 127 by omega)]
  rfl

/-- one iteration of the chars loop -/
def writeCharItem (q : UInt8) (ch : Char) (next : Option Char) : List UInt8 :=
  if ch.toNat == q.toNat then [92, q]
  else if !charIsAscii ch || needsEscaping (charAsU8 ch) then
    if charIsAscii ch then escape (charAsU8 ch) (next.map charAsU8)
    else [92, 117, 123] ++ fmtHex ch.toNat ++ [125]
  else [charAsU8 ch]

theorem writeQuotedChars_cons (q : UInt8) (ch : Char) (rest : List Char) :
    writeQuotedChars q (ch :: rest) = writeCharItem q ch rest.head? ++ writeQuotedChars q rest := rfl

theorem writeCharItem_ascii (q : UInt8) (ch : Char) (next : Option Char)
    (h : charIsAscii ch = true) :
    writeCharItem q ch next = writeByte (· == q) (charAsU8 ch) (next.map charAsU8) := by
  have hn := charAsU8_toNat ch h
  unfold writeCharItem writeByte
  by_cases hq : ch.toNat = q.toNat
  · have : charAsU8 ch = q := by
      apply UInt8.toNat_inj.mp; omega
    simp [hq, this]
  · have : ¬ charAsU8 ch = q := by
      intro e; rw [e] at hn; exact hq hn.symm
    simp [hq, this, h]

theorem writeCharItem_nonascii (q : UInt8) (hq : q = 34 ∨ q = 39) (ch : Char) (next : Option Char)
    (h : charIsAscii ch = false) :
    writeCharItem q ch next = [92, 117, 123] ++ fmtHex ch.toNat ++ [125] := by
  have h' : ¬ ch.toNat < 128 := by simpa [charIsAscii] using h
  unfold writeCharItem
  have : ¬ ch.toNat = q.toNat := by
    rcases hq with rfl | rfl <;> (intro e; rw [e] at h'; exact h' (by decide))
  simp [this, h]

theorem writeCharItem_head (q : UInt8) (hq : q = 34 ∨ q = 39) (ch : Char) (next : Option Char) :
    ∃ t ts, writeCharItem q ch next = t :: ts ∧ (isDigit t = true → t = charAsU8 ch) := by
  cases h : charIsAscii ch with
  | true => rw [writeCharItem_ascii q ch next h]; exact writeByte_head _ _ _
  | false =>
    rw [writeCharItem_nonascii q hq ch next h]
    exact ⟨92, _, rfl, fun h => absurd h (by decide)⟩

theorem nextCompat_writeChars (q : UInt8) (hq : q = 34 ∨ q = 39) (cs : List Char)
    (rest : List UInt8) :
    nextCompat (cs.head?.map charAsU8) (writeQuotedChars q cs ++ q :: rest) := by
  intro t ts ht hd
  cases cs with
  | nil =>
    simp [writeQuotedChars] at ht
    rw [← ht.1] at hd
    rcases hq with rfl | rfl <;> exact absurd hd (by decide)
  | cons c cs' =>
    obtain ⟨t', ts', hw, hdig⟩ := writeCharItem_head q hq c cs'.head?
    simp only [writeQuotedChars_cons, hw, List.cons_append, List.cons.injEq] at ht
    obtain ⟨rfl, _⟩ := ht
    exact ⟨charAsU8 c, by simp, by rw [← hdig hd]; exact hd⟩

theorem decodeBody_writeChars (d : Dialect) (q : UInt8) (hq : q = 34 ∨ q = 39) (cs : List Char)
    (hd : d = .luau ∨ ∀ ch ∈ cs, charIsAscii ch = true) (rest : List UInt8) :
    decodeBody d (· == q) (writeQuotedChars q cs ++ q :: rest) =
      some (cs.flatMap String.utf8EncodeChar, q :: rest) := by
  have hsp : ∀ c : UInt8, (c == q) = true → passThrough c = true := by
    intro c hc
    have : c = q := by simpa using hc
    subst this
    rcases hq with rfl | rfl <;> decide
  have hstop92 : ((92 : UInt8) == q) = false := by
    rcases hq with rfl | rfl <;> decide
  induction cs with
  | nil =>
    simp only [writeQuotedChars, List.nil_append, List.flatMap_nil]
    rw [decodeBody]; simp
  | cons ch cs ih =>
    have ih' := ih (hd.imp id (fun h ch' hm => h ch' (by simp [hm])))
    rw [writeQuotedChars_cons, List.append_assoc]
    cases ha : charIsAscii ch with
    | true =>
      rw [writeCharItem_ascii q ch _ ha,
        decodeBody_writeByte d (· == q) (· == q) hsp (fun _ h => h) hstop92 _ _ _
          (nextCompat_writeChars q hq cs rest), ih']
      simp [utf8EncodeChar_ascii ch ha]
    | false =>
      have hl : d = .luau := by
        rcases hd with h | h
        · exact h
        · have := h ch (by simp); rw [ha] at this; exact absurd this (by decide)
      subst hl
      rw [writeCharItem_nonascii q hq ch _ ha, decodeBody_unicode _ hstop92, ih']
      simp

/-! ### `write_quoted` as a whole -/

theorem fromUtf8_eq_some {v : List UInt8} {cs : List Char} (h : fromUtf8 v = some cs) :
    cs.flatMap String.utf8EncodeChar = v := by
  unfold fromUtf8 at h
  cases hdec : v.toByteArray.utf8Decode? with
  | none => simp [hdec] at h
  | some arr =>
    simp [hdec] at h
    subst h
    have hs : v.toByteArray.utf8Decode?.isSome := by simp [hdec]
    have := ByteArray.utf8Encode_get_utf8Decode? (b := v.toByteArray) (h := hs)
    simp only [hdec, Option.get_some] at this
    exact List.toByteArray_inj.mp this

theorem getQuoteSymbol_cases (v : List UInt8) : getQuoteSymbol v = 34 ∨ getQuoteSymbol v = 39 := by
  unfold getQuoteSymbol
  split
  · exact Or.inr rfl
  · split
    · exact Or.inl rfl
    · exact Or.inr rfl

theorem decodeLiteral_writeQuoted (d : Dialect) (compat : Bool) (v : List UInt8)
    (hd : d = .luau ∨ hasUnicodeEscape v = false) :
    decodeLiteral d compat (writeQuoted v) = some v := by
  have hq := getQuoteSymbol_cases v
  unfold writeQuoted
  generalize getQuoteSymbol v = q at hq
  have hq91 : q ≠ 91 := by rcases hq with rfl | rfl <;> decide
  have hqq : (q == 34 || q == 39) = true := by rcases hq with rfl | rfl <;> decide
  cases hf : fromUtf8 v with
  | some cs =>
    have hd' : d = .luau ∨ ∀ ch ∈ cs, charIsAscii ch = true := by
      refine hd.imp id ?_
      intro h
      simp only [hasUnicodeEscape, hf] at h
      intro ch hm
      have := List.any_eq_false.mp h ch hm
      simpa using this
    have hb := decodeBody_writeChars d q hq cs hd' []
    rw [fromUtf8_eq_some hf] at hb
    show decodeLiteral d compat (q :: (writeQuotedChars q cs ++ [q])) = some v
    unfold decodeLiteral
    split
    · rename_i heq; simp at heq; exact absurd heq.1 hq91
    · rename_i heq; simp at heq
      obtain ⟨rfl, rfl⟩ := heq
      simp only [hqq, if_true, hb]
    · rename_i heq; simp at heq
  | none =>
    have hsp : ∀ c : UInt8, (c == q) = true → passThrough c = true := by
      intro c hc
      have : c = q := by simpa using hc
      subst this
      rcases hq with rfl | rfl <;> decide
    have hb := decodeBody_writeBytes d (· == q) (· == q) hsp (fun _ h => h) v q [] (by simp)
    rw [← writeQuotedBytes_eq] at hb
    show decodeLiteral d compat (q :: (writeQuotedBytes q v ++ [q])) = some v
    unfold decodeLiteral
    split
    · rename_i heq; simp at heq; exact absurd heq.1 hq91
    · rename_i heq; simp at heq
      obtain ⟨rfl, rfl⟩ := heq
      simp only [hqq, if_true, hb]
    · rename_i heq; simp at heq

/-! ### long brackets -/

theorem closer_eq_closing (i : Nat) : closer i = closing i := rfl

theorem closing_length (i : Nat) : (closing i).length = i + 2 := by simp [closing]

theorem containsSub_false_suffix (needle : List UInt8) (hay : List UInt8)
    (h : containsSub needle hay = false) :
    ∀ a b, hay = a ++ b → ¬ needle <+: b := by
  induction hay with
  | nil =>
    intro a b hab
    simp at hab
    obtain ⟨rfl, rfl⟩ := hab
    simp only [containsSub] at h
    intro hp
    have := List.isPrefixOf_iff_prefix.mpr hp
    rw [this] at h; exact absurd h (by decide)
  | cons c cs ih =>
    simp only [containsSub, Bool.or_eq_false_iff] at h
    intro a b hab
    cases a with
    | nil =>
      simp at hab; subst hab
      intro hp
      have := List.isPrefixOf_iff_prefix.mpr hp
      rw [this] at h; exact absurd h.1 (by decide)
    | cons a0 as =>
      simp at hab
      exact ih h.2 as b hab.2

theorem containsSub_length (needle hay : List UInt8) (h : containsSub needle hay = true) :
    needle.length ≤ hay.length := by
  induction hay with
  | nil =>
    simp only [containsSub] at h
    have := List.isPrefixOf_iff_prefix.mp h
    exact this.length_le
  | cons c cs ih =>
    simp only [containsSub, Bool.or_eq_true] at h
    rcases h with h | h
    · exact (List.isPrefixOf_iff_prefix.mp h).length_le
    · have := ih h; simp; omega

theorem findLevel_spec (v : List UInt8) : ∀ fuel i, v.length < fuel + i + 2 →
    containsSub (closer (findLevel v fuel i)) v = false := by
  intro fuel
  induction fuel with
  | zero =>
    intro i h
    simp only [findLevel]
    cases hc : containsSub (closer i) v with
    | false => rfl
    | true =>
      have := containsSub_length _ _ hc
      rw [closer_eq_closing, closing_length] at this
      omega
  | succ fuel ih =>
    intro i h
    simp only [findLevel]
    cases hc : containsSub (closer i) v with
    | false => simp [hc]
    | true => simp only [if_true]; exact ih (i + 1) (by omega)

theorem findLevel_ge (s : List UInt8) : ∀ fuel i, i ≤ findLevel s fuel i := by
  intro fuel
  induction fuel with
  | zero => intro i; simp [findLevel]
  | succ fuel ih =>
    intro i
    simp only [findLevel]
    split
    · exact Nat.le_trans (Nat.le_succ i) (ih (i + 1))
    · exact Nat.le_refl i

/-- a value containing `[[` is never written at level 0 -/
theorem longLevel_pos_of_nested (v : List UInt8) (h : containsSub [91, 91] v = true) :
    1 ≤ longLevel v := by
  unfold longLevel
  have := findLevel_ge (v ++ [93]) (v.length + 2)
    (if v.getLast? == some 93 || containsSub [91, 91] v then 1 else 0)
  simpa [h] using this

theorem longLevel_spec (v : List UInt8) :
    containsSub (closing (longLevel v)) (v ++ [93]) = false := by
  rw [← closer_eq_closing]
  exact findLevel_spec (v ++ [93]) _ _ (by simp; omega)

/-- the key combinatorial fact behind F14 -/
theorem tail_prefix_cases (X : List UInt8) : ∀ (i : Nat) (bs : List UInt8),
    (List.replicate i 61 ++ [93]) <+: (bs ++ 93 :: X) →
    (List.replicate i 61 ++ [93]) <+: bs ∨ bs = List.replicate i 61 := by
  intro i
  induction i with
  | zero =>
    intro bs h
    cases bs with
    | nil => exact Or.inr rfl
    | cons y ys =>
      left
      simp only [List.replicate, List.nil_append, List.cons_append] at h ⊢
      rw [List.cons_prefix_cons] at h ⊢
      exact ⟨h.1, List.nil_prefix⟩
  | succ i ih =>
    intro bs h
    cases bs with
    | nil =>
      simp only [List.replicate_succ, List.cons_append, List.nil_append] at h
      rw [List.cons_prefix_cons] at h
      exact absurd h.1 (by decide)
    | cons y ys =>
      simp only [List.replicate_succ, List.cons_append] at h ⊢
      rw [List.cons_prefix_cons] at h ⊢
      rcases ih ys h.2 with h' | h'
      · exact Or.inl ⟨h.1, h'⟩
      · right; rw [← h.1, h']

theorem closing_prefix_cases (i : Nat) (b rest : List UInt8) (hb : b ≠ [])
    (h : closing i <+: b ++ closing i ++ rest) :
    closing i <+: b ∨ b = 93 :: List.replicate i 61 := by
  cases b with
  | nil => exact absurd rfl hb
  | cons b0 bs =>
    simp only [closing, List.cons_append, List.append_assoc] at h ⊢
    rw [List.cons_prefix_cons] at h ⊢
    rcases tail_prefix_cases _ i bs h.2 with h' | h'
    · exact Or.inl ⟨h.1, h'⟩
    · right; rw [← h.1, h']

theorem scanLong_spec (i : Nat) (content rest : List UInt8)
    (h : ∀ a b, content = a ++ b → b ≠ [] → ¬ closing i <+: b ++ closing i ++ rest) :
    scanLong i (content ++ closing i ++ rest) = some (content, rest) := by
  induction content with
  | nil =>
    have e : ([] : List UInt8) ++ closing i ++ rest = 93 :: (List.replicate i 61 ++ [93] ++ rest) := by
      simp [closing]
    rw [e, scanLong]
    have hp : (closing i).isPrefixOf (93 :: (List.replicate i 61 ++ [93] ++ rest)) = true := by
      rw [List.isPrefixOf_iff_prefix]
      exact ⟨rest, by simp [closing]⟩
    rw [if_pos hp]
    have : (93 :: (List.replicate i 61 ++ [93] ++ rest)).drop (i + 2) = rest := by
      have : (93 :: (List.replicate i 61 ++ [93] ++ rest)) = closing i ++ rest := by simp [closing]
      rw [this, ← closing_length i, List.drop_left]
    rw [this]
  | cons c cs ih =>
    have e : (c :: cs) ++ closing i ++ rest = c :: (cs ++ closing i ++ rest) := by simp
    rw [e, scanLong]
    have hp : (closing i).isPrefixOf (c :: (cs ++ closing i ++ rest)) = false := by
      cases hh : (closing i).isPrefixOf (c :: (cs ++ closing i ++ rest)) with
      | false => rfl
      | true =>
        have := List.isPrefixOf_iff_prefix.mp hh
        rw [← e] at this
        exact absurd this (h [] (c :: cs) rfl (by simp))
    rw [hp]
    have ih' := ih (fun a b hab hb => h (c :: a) b (by simp [hab]) hb)
    rw [List.append_assoc] at ih'
    simp [ih']

/-- the closer occurs neither inside the value nor across its end ⇒ the scan stops exactly at
the delimiter -/
theorem scanLong_content (v rest : List UInt8) :
    scanLong (longLevel v) (v ++ closing (longLevel v) ++ rest) = some (v, rest) := by
  apply scanLong_spec
  intro a b hab hb hp
  have hspec := longLevel_spec v
  generalize longLevel v = i at *
  rcases closing_prefix_cases _ b rest hb hp with h | h
  · -- the closer inside the value
    obtain ⟨t, ht⟩ := h
    exact containsSub_false_suffix _ (v ++ [93]) hspec a (b ++ [93])
      (by rw [hab]; simp) ⟨t ++ [93], by rw [← ht]; simp⟩
  · -- the closer straddling the end of the value: it is a suffix of `value ++ "]"`
    exact containsSub_false_suffix _ (v ++ [93]) hspec a (closing i)
      (by rw [hab, h]; simp [closing]) (List.prefix_refl _)

theorem normalizeLuau_id (v : List UInt8) (h : ∀ c ∈ v, c ≠ 13) : normalizeLuau v = v := by
  induction v with
  | nil => simp [normalizeLuau]
  | cons c cs ih =>
    have hc : c ≠ 13 := h c (by simp)
    have ih' := ih (fun x hx => h x (by simp [hx]))
    unfold normalizeLuau
    split <;> simp_all

theorem normalizeLua51_id (v : List UInt8) (h : ∀ c ∈ v, c ≠ 13) : normalizeLua51 v = v := by
  induction v with
  | nil => simp [normalizeLua51]
  | cons c cs ih =>
    have hc : c ≠ 13 := h c (by simp)
    have ih' := ih (fun x hx => h x (by simp [hx]))
    cases cs with
    | nil => unfold normalizeLua51; split <;> simp_all [normalizeLua51]
    | cons c2 cs2 =>
      have hc2 : c2 ≠ 13 := h c2 (by simp)
      unfold normalizeLua51
      split <;> simp_all

theorem normalizeNewlines_id (d : Dialect) (v : List UInt8) (h : ∀ c ∈ v, c ≠ 13) :
    normalizeNewlines d v = v := by
  cases d
  · exact normalizeLuau_id v h
  · exact normalizeLua51_id v h

theorem skipFirstNewline_spec (d : Dialect) (v X : List UInt8) (h : ∀ c ∈ v, c ≠ 13)
    (hX : ∃ X', X = 93 :: X') :
    skipFirstNewline d ((if v.head? == some 10 then [10] else []) ++ v ++ X) = v ++ X := by
  obtain ⟨X', rfl⟩ := hX
  cases v with
  | nil => simp [skipFirstNewline]
  | cons c cs =>
    have hc : c ≠ 13 := h c (by simp)
    by_cases h10 : c = 10
    · subst h10
      simp [skipFirstNewline]
    · have : (some c == some (10 : UInt8)) = false := by simp [h10]
      simp only [List.head?_cons, this, Bool.false_eq_true, if_false, List.nil_append,
        List.cons_append]
      unfold skipFirstNewline
      split <;> simp_all

theorem decodeLiteral_longBracket (d : Dialect) (compat : Bool) (v : List UInt8) (h13 : ∀ c ∈ v, c ≠ 13)
    (h51 : compat = true → d = .lua51 → longLevel v = 0 → hasNestedOpen v = false) :
    decodeLiteral d compat ([91] ++ List.replicate (longLevel v) 61 ++ [91]
        ++ (if v.head? == some 10 then [10] else []) ++ v ++ [93]
        ++ List.replicate (longLevel v) 61 ++ [93]) = some v := by
  generalize hi : longLevel v = i at *
  have e : [91] ++ List.replicate i 61 ++ [91] ++ (if v.head? == some 10 then [10] else []) ++ v
      ++ [93] ++ List.replicate i 61 ++ [93] =
      91 :: (List.replicate i 61 ++ 91 :: ((if v.head? == some 10 then [10] else []) ++ v ++ closing i)) := by
    simp [closing]
  rw [e]
  have htw : (List.replicate i 61 ++ 91 :: ((if v.head? == some 10 then [10] else []) ++ v ++ closing i)).takeWhile (· == 61)
      = List.replicate i 61 :=
    takeWhile_append_stop _ _ _ (by intro x hx; simp [List.eq_of_mem_replicate hx]) (by decide)
  have hskip := skipFirstNewline_spec d v (closing i) h13 ⟨_, rfl⟩
  have hscan : scanLong i (v ++ closing i) = some (v, []) := by
    have := scanLong_content v []
    rw [hi] at this
    simpa using this
  have hnest : (compat && d == Dialect.lua51 && i == 0 && hasNestedOpen v) = false := by
    cases hcm : compat with
    | false => rfl
    | true =>
      cases hd : d with
      | luau => rfl
      | lua51 =>
        by_cases h0 : i = 0
        · simp [h51 hcm hd h0]
        · simp [h0]
  simp only [decodeLiteral, decodeLong, htw, List.length_replicate, List.drop_left', hskip, hscan]
  simp only [hnest, Bool.false_eq_true, if_false, normalizeNewlines_id d v h13]

/-! ### ASCII values are always valid UTF-8 -/

theorem char_ofNat_toNat : ∀ n, n < 128 → (Char.ofNat n).toNat = n := by decide

theorem flatMap_encode_ascii (v : List UInt8) (h : ∀ c ∈ v, c.toNat < 128) :
    (v.map fun c => Char.ofNat c.toNat).flatMap String.utf8EncodeChar = v := by
  induction v with
  | nil => rfl
  | cons c cs ih =>
    have hc := h c (by simp)
    have hn := char_ofNat_toNat c.toNat hc
    have ha : charIsAscii (Char.ofNat c.toNat) = true := by simp [charIsAscii, hn, hc]
    simp only [List.map_cons, List.flatMap_cons, utf8EncodeChar_ascii _ ha, charAsU8, hn,
      ih (fun x hx => h x (by simp [hx]))]
    simp

theorem fromUtf8_ascii (v : List UInt8) (h : ∀ c ∈ v, c.toNat < 128) :
    fromUtf8 v = some (v.map fun c => Char.ofNat c.toNat) := by
  unfold fromUtf8
  have : v.toByteArray = (v.map fun c => Char.ofNat c.toNat).utf8Encode := by
    unfold List.utf8Encode
    rw [flatMap_encode_ascii v h]
  rw [this, List.utf8Decode?_utf8Encode]
  simp

theorem not_needsQuotedString : ∀ c : UInt8, needsQuotedString c = false →
    c.toNat < 128 ∧ c ≠ 13 := by
  apply forall_uint8; decide +kernel

theorem fromUtf8_of_longContent (v : List UInt8) (h : v.any needsQuotedString = false) :
    (fromUtf8 v).isSome = true := by
  rw [fromUtf8_ascii v]
  · rfl
  · intro c hc
    have := List.any_eq_false.mp h c hc
    exact (not_needsQuotedString c (by simpa using this)).1

/-! ### the straddling closer really breaks the literal -/

theorem scanLong_early (i : Nat) (a r : List UInt8) (hr : r ≠ []) :
    ∃ out rest, scanLong i (a ++ closing i ++ r) = some (out, rest) ∧ rest ≠ [] := by
  induction a with
  | nil =>
    have := scanLong_spec i [] r (by intro a b hab hb; simp at hab; exact absurd hab.2 hb)
    exact ⟨[], r, this, hr⟩
  | cons c cs ih =>
    have e : (c :: cs) ++ closing i ++ r = c :: (cs ++ closing i ++ r) := by simp
    rw [e, scanLong]
    split
    · refine ⟨[], _, rfl, ?_⟩
      intro h
      have := congrArg List.length h
      simp [closing_length] at this
      cases r with
      | nil => exact hr rfl
      | cons _ _ => simp at this; omega
    · obtain ⟨out, rest, h1, h2⟩ := ih
      rw [List.append_assoc] at h1
      exact ⟨c :: out, rest, by simp [h1], h2⟩

/-! ### `write_string` as a whole -/

theorem decodeLiteral_quotedBytes (d : Dialect) (compat : Bool) (q : UInt8) (hq : q = 34 ∨ q = 39) (v : List UInt8) :
    decodeLiteral d compat (q :: (writeBytesWith (· == q) v ++ [q])) = some v := by
  have hq91 : q ≠ 91 := by rcases hq with rfl | rfl <;> decide
  have hqq : (q == 34 || q == 39) = true := by rcases hq with rfl | rfl <;> decide
  have hsp : ∀ c : UInt8, (c == q) = true → passThrough c = true := by
    intro c hc
    have : c = q := by simpa using hc
    subst this
    rcases hq with rfl | rfl <;> decide
  have hb := decodeBody_writeBytes d (· == q) (· == q) hsp (fun _ h => h) v q [] (by simp)
  unfold decodeLiteral
  split
  · rename_i heq; simp at heq; exact absurd heq.1 hq91
  · rename_i heq; simp at heq
    obtain ⟨rfl, rfl⟩ := heq
    simp only [hqq, if_true, hb]
  · rename_i heq; simp at heq

theorem wantsLongBracket_content (v : List UInt8) (h : wantsLongBracket v = true) :
    v.any needsQuotedString = false := by
  simp only [wantsLongBracket, Bool.and_eq_true, Bool.not_eq_true'] at h
  exact h.1.1

theorem decodeLiteral_writeString (d : Dialect) (compat : Bool) (v : List UInt8)
    (hd : d = .luau ∨ hasUnicodeEscape v = false)
    (h51 : compat = true → d = .lua51 → usesLongBracket v = true → longLevel v = 0 →
      hasNestedOpen v = false) :
    decodeLiteral d compat (writeString v) = some v := by
  unfold writeString
  split
  · -- empty
    exact decodeLiteral_quotedBytes d compat 39 (Or.inr rfl) []
  · -- one byte
    rename_i c
    by_cases h39 : c = 39
    · subst h39
      exact decodeLiteral_quotedBytes d compat 34 (Or.inl rfl) [39]
    · by_cases h34 : c = 34
      · subst h34
        exact decodeLiteral_quotedBytes d compat 39 (Or.inr rfl) [34]
      · have := decodeLiteral_quotedBytes d compat 39 (Or.inr rfl) [c]
        simp only [writeBytesWith, writeByte, beq_iff_eq, h39, if_false, List.head?_nil,
          List.append_nil] at this
        simp only [beq_iff_eq, h39, h34, if_false]
        split
        · rename_i hne; simpa [hne] using this
        · rename_i hne; simpa [hne] using this
  · -- two or more bytes
    by_cases hw : wantsLongBracket v = true
    · rw [if_pos hw]
      have hcontent := wantsLongBracket_content v hw
      have hsome := fromUtf8_of_longContent v hcontent
      have huses : usesLongBracket v = true := by simp [usesLongBracket, hw, hsome]
      have h13 : ∀ c ∈ v, c ≠ 13 := by
        intro c hc
        have := List.any_eq_false.mp hcontent c hc
        exact (not_needsQuotedString c (by simpa using this)).2
      unfold writeLongBracket
      cases hf : fromUtf8 v with
      | none => rw [hf] at hsome; exact absurd hsome (by decide)
      | some cs =>
        simp only [Option.getD_some]
        exact decodeLiteral_longBracket d compat v h13 (fun h0 h1 h2 => h51 h0 h1 huses h2)
    · rw [if_neg hw]
      exact decodeLiteral_writeQuoted d compat v hd

theorem wantsLongBracket_length (v : List UInt8) (h : wantsLongBracket v = true) : v.length ≥ 20 := by
  simp only [wantsLongBracket, Bool.and_eq_true, decide_eq_true_eq] at h
  exact h.1.2

theorem hasNestedOpen_eq (v : List UInt8) : hasNestedOpen v = containsSub [91, 91] v := by
  induction v with
  | nil => rfl
  | cons c cs ih =>
    cases cs with
    | nil =>
      unfold hasNestedOpen
      split
      · rename_i h; simp at h
      · rename_i h; simp at h; obtain ⟨rfl, rfl⟩ := h
        simp [hasNestedOpen, containsSub, List.isPrefixOf]
      · rename_i h; simp at h
    | cons c2 cs2 =>
      unfold hasNestedOpen
      split
      · rename_i h; simp at h; obtain ⟨rfl, rfl, _⟩ := h; simp [containsSub, List.isPrefixOf]
      · rename_i h1 h2
        simp at h2; obtain ⟨rfl, rfl⟩ := h2
        rw [ih]
        have : List.isPrefixOf [91, 91] (c :: c2 :: cs2) = false := by
          cases hh : List.isPrefixOf [91, 91] (c :: c2 :: cs2) with
          | false => rfl
          | true =>
            simp [List.isPrefixOf] at hh
            exact (h1 cs2 hh.1.symm (by rw [hh.2])).elim
        simp [containsSub, this]
      · rename_i h; simp at h

/-! ### numbers: hexadecimal / binary literals as written are Luau literals with the same value -/

theorem mem_fmtHex (n : Nat) : ∀ c ∈ fmtHex n, ∃ k, k < 16 ∧ c = hexDigitByte k := by
  induction n using Nat.strongRecOn with
  | _ n ih =>
    rw [fmtHex]
    split
    · rename_i h; intro c hc; simp at hc; exact ⟨n, h, hc⟩
    · intro c hc
      simp only [List.mem_append, List.mem_singleton] at hc
      rcases hc with hc | hc
      · exact ih (n / 16) (by omega) c hc
      · exact ⟨n % 16, by omega, hc⟩

theorem mem_fmtBin (n : Nat) : ∀ c ∈ fmtBin n, ∃ k, k < 2 ∧ c = UInt8.ofNat (48 + k) := by
  induction n using Nat.strongRecOn with
  | _ n ih =>
    rw [fmtBin]
    split
    · rename_i h; intro c hc; exact ⟨n, h, List.mem_singleton.mp hc⟩
    · intro c hc
      simp only [List.mem_append, List.mem_singleton] at hc
      rcases hc with hc | hc
      · exact ih (n / 2) (by omega) c hc
      · exact ⟨n % 2, by omega, hc⟩

theorem digitsValue_append_single (base : Nat) (xs : List UInt8) (x : UInt8) :
    digitsValue base (xs ++ [x]) = digitsValue base xs * base + (hexVal? x).getD 0 := by
  simp [digitsValue, List.foldl_append]

theorem digitsValue_fmtHex (n : Nat) : digitsValue 16 (fmtHex n) = n := by
  induction n using Nat.strongRecOn with
  | _ n ih =>
    rw [fmtHex]
    split
    · rename_i h; simp [digitsValue, hexVal_hexDigitByte n h]
    · rw [digitsValue_append_single, ih (n / 16) (by omega), hexVal_hexDigitByte _ (by omega)]
      simp; omega

theorem hexVal_binDigit : ∀ k, k < 2 → hexVal? (UInt8.ofNat (48 + k)) = some k := by decide

theorem digitsValue_fmtBin (n : Nat) : digitsValue 2 (fmtBin n) = n := by
  induction n using Nat.strongRecOn with
  | _ n ih =>
    rw [fmtBin]
    split
    · rename_i h
      simp only [digitsValue, List.foldl]
      rw [hexVal_binDigit n h]; simp
    · rw [digitsValue_append_single, ih (n / 2) (by omega), hexVal_binDigit _ (by omega)]
      simp; omega

theorem fmtHex_ne_nil (n : Nat) : fmtHex n ≠ [] := by
  intro h; have := fmtHex_length_pos n; rw [h] at this; simp at this

theorem fmtBin_ne_nil (n : Nat) : fmtBin n ≠ [] := by
  rw [fmtBin]; split <;> simp

theorem takeWhile_all {p : UInt8 → Bool} (l : List UInt8) (h : ∀ x ∈ l, p x = true) :
    l.takeWhile p = l := by
  induction l with
  | nil => rfl
  | cons a l ih => simp [List.takeWhile, h a (by simp), ih (fun x hx => h x (by simp [hx]))]

theorem filter_all {p : UInt8 → Bool} (l : List UInt8) (h : ∀ x ∈ l, p x = true) :
    l.filter p = l := List.filter_eq_self.mpr h

/-- a prefixed integer literal `0` `x|X|b|B` digits is one Luau number token -/
theorem isNumberToken_prefixed (xch : UInt8) (ds : List UInt8)
    (hx : xch = 120 ∨ xch = 88 ∨ xch = 98 ∨ xch = 66)
    (hds : ∀ c ∈ ds, (isAlpha c || isDigit c || c == 95) = true) :
    isNumberToken (48 :: xch :: ds) = true := by
  have h1 : (isDigit xch || xch == 46 || xch == 95) = false := by
    rcases hx with rfl | rfl | rfl | rfl <;> decide
  have h2 : (xch == 101 || xch == 69) = false := by
    rcases hx with rfl | rfl | rfl | rfl <;> decide
  have h3 : (isAlpha xch || isDigit xch || xch == 95) = true := by
    rcases hx with rfl | rfl | rfl | rfl <;> decide
  have hrun2 : (xch :: ds).takeWhile (fun c => isAlpha c || isDigit c || c == 95) = xch :: ds :=
    takeWhile_all _ (by intro c hc; simp at hc; rcases hc with rfl | hc; exact h3; exact hds c hc)
  have hd48 : isDigit 48 = true := by decide
  have hrun1 : (xch :: ds).takeWhile (fun c => isDigit c || c == 46 || c == 95) = [] := by
    simp [List.takeWhile, h1]
  simp only [isNumberToken, hd48, Bool.true_or, Bool.true_and, numberTokenLength, hrun1,
    List.length_nil, List.drop_zero, h2, Bool.false_eq_true, if_false, hrun2]
  simp
  omega

theorem hexDigit_props : ∀ k, k < 16 →
    (isAlpha (hexDigitByte k) || isDigit (hexDigitByte k) || hexDigitByte k == 95) = true ∧
    (hexDigitByte k != 95) = true ∧ ((hexVal? (hexDigitByte k)).any (· < 16)) = true := by decide

theorem binDigit_props : ∀ k, k < 2 →
    (isAlpha (UInt8.ofNat (48 + k)) || isDigit (UInt8.ofNat (48 + k)) || UInt8.ofNat (48 + k) == 95) = true ∧
    (UInt8.ofNat (48 + k) != 95) = true ∧ ((hexVal? (UInt8.ofNat (48 + k))).any (· < 2)) = true := by decide

theorem luauNumber_hex (n : Nat) (hn : n ≤ 18446744073709551615) (ux : Bool) :
    luauNumber? ([48, if ux then 88 else 120] ++ fmtHex n) = some (.int n) := by
  have hx : (if ux then (88 : UInt8) else 120) = 120 ∨ (if ux then (88 : UInt8) else 120) = 88 := by
    cases ux <;> simp
  generalize (if ux then (88 : UInt8) else 120) = xch at hx
  have hprops : ∀ c ∈ fmtHex n, (isAlpha c || isDigit c || c == 95) = true ∧ (c != 95) = true ∧
      ((hexVal? c).any (· < 16)) = true := by
    intro c hc
    obtain ⟨k, hk, rfl⟩ := mem_fmtHex n c hc
    exact hexDigit_props k hk
  have htok : isNumberToken (48 :: xch :: fmtHex n) = true :=
    isNumberToken_prefixed xch _ (by rcases hx with h | h <;> simp [h]) (fun c hc => (hprops c hc).1)
  have hx95 : (xch != 95) = true := by rcases hx with rfl | rfl <;> decide
  have hfilter : (48 :: xch :: fmtHex n).filter (· != 95) = 48 :: xch :: fmtHex n :=
    filter_all _ (by
      intro c hc; simp at hc
      rcases hc with rfl | rfl | hc
      · decide
      · exact hx95
      · exact (hprops c hc).2.1)
  have hxx : (xch == 120 || xch == 88) = true := by rcases hx with rfl | rfl <;> decide
  have hall : (fmtHex n).all (fun c => (hexVal? c).any (· < 16)) = true :=
    List.all_eq_true.mpr (fun c hc => (hprops c hc).2.2)
  have hne : (fmtHex n).isEmpty = false := by
    cases h : fmtHex n with
    | nil => exact absurd h (fmtHex_ne_nil n)
    | cons _ _ => rfl
  show luauNumber? (48 :: xch :: fmtHex n) = some (.int n)
  simp only [luauNumber?, htok, Bool.not_true, Bool.false_eq_true, if_false, hfilter, hxx, if_true,
    strtoullAll, hne, hall, digitsValue_fmtHex, hn, Option.map_some]

theorem luauNumber_bin (n : Nat) (hn : n ≤ 18446744073709551615) (ub : Bool) :
    luauNumber? ([48, if ub then 66 else 98] ++ fmtBin n) = some (.int n) := by
  have hx : (if ub then (66 : UInt8) else 98) = 98 ∨ (if ub then (66 : UInt8) else 98) = 66 := by
    cases ub <;> simp
  generalize (if ub then (66 : UInt8) else 98) = xch at hx
  have hprops : ∀ c ∈ fmtBin n, (isAlpha c || isDigit c || c == 95) = true ∧ (c != 95) = true ∧
      ((hexVal? c).any (· < 2)) = true := by
    intro c hc
    obtain ⟨k, hk, rfl⟩ := mem_fmtBin n c hc
    exact binDigit_props k hk
  have htok : isNumberToken (48 :: xch :: fmtBin n) = true :=
    isNumberToken_prefixed xch _ (by rcases hx with h | h <;> simp [h]) (fun c hc => (hprops c hc).1)
  have hx95 : (xch != 95) = true := by rcases hx with rfl | rfl <;> decide
  have hfilter : (48 :: xch :: fmtBin n).filter (· != 95) = 48 :: xch :: fmtBin n :=
    filter_all _ (by
      intro c hc; simp at hc
      rcases hc with rfl | rfl | hc
      · decide
      · exact hx95
      · exact (hprops c hc).2.1)
  have hxx : (xch == 120 || xch == 88) = false := by rcases hx with rfl | rfl <;> decide
  have hbb : (xch == 98 || xch == 66) = true := by rcases hx with rfl | rfl <;> decide
  have hall : (fmtBin n).all (fun c => (hexVal? c).any (· < 2)) = true :=
    List.all_eq_true.mpr (fun c hc => (hprops c hc).2.2)
  have hne : (fmtBin n).isEmpty = false := by
    cases h : fmtBin n with
    | nil => exact absurd h (fmtBin_ne_nil n)
    | cons _ _ => rfl
  show luauNumber? (48 :: xch :: fmtBin n) = some (.int n)
  simp only [luauNumber?, htok, Bool.not_true, Bool.false_eq_true, if_false, hfilter, hxx, hbb, if_true,
    strtoullAll, hne, hall, digitsValue_fmtBin, hn, Option.map_some]

/-! ### the model parser's digit folding is the reference lexer's -/

theorem toDigit_16 : ∀ c : UInt8, toDigit 16 c = (hexVal? c).filter (· < 16) := by
  apply forall_uint8; decide +kernel

theorem toDigit_2 : ∀ c : UInt8, toDigit 2 c = (hexVal? c).filter (· < 2) := by
  apply forall_uint8; decide +kernel

theorem foldDigits_eq (radix : Nat)
    (htd : ∀ c : UInt8, toDigit radix c = (hexVal? c).filter (· < radix))
    (ds : List UInt8) (hall : ds.all (fun c => (hexVal? c).any (· < radix)) = true) :
    ∀ acc, foldDigits radix acc ds =
      some (ds.foldl (fun acc c => acc * radix + (hexVal? c).getD 0) acc) := by
  induction ds with
  | nil => intro acc; rfl
  | cons c cs ih =>
    intro acc
    simp only [List.all_cons, Bool.and_eq_true] at hall
    obtain ⟨hc, hcs⟩ := hall
    cases hv : hexVal? c with
    | none => rw [hv] at hc; simp at hc
    | some d =>
      rw [hv] at hc
      have hd : d < radix := by simpa using hc
      simp only [foldDigits, htd c, hv, Option.filter, hd, decide_true, if_true, List.foldl,
        Option.getD_some]
      exact ih hcs _

theorem parseUnsigned_eq_strtoull (radix : Nat)
    (htd : ∀ c : UInt8, toDigit radix c = (hexVal? c).filter (· < radix)) (ds : List UInt8) :
    (ds.all (fun c => (hexVal? c).any (· < radix)) = true) →
    parseUnsigned radix 18446744073709551615 ds = strtoullAll radix ds := by
  intro hall
  cases ds with
  | nil => rfl
  | cons c cs =>
    have h43 : hexVal? 43 = none := by decide
    have hc43 : c ≠ 43 := by
      intro h; subst h
      simp only [List.all_cons, Bool.and_eq_true, h43] at hall
      simp at hall
    have hdigits : (match (c :: cs) with | 43 :: rest => rest | _ => c :: cs) = c :: cs := by
      split
      · rename_i h; simp at h; exact absurd h.1 hc43
      · rfl
    have hfold := foldDigits_eq radix htd (c :: cs) hall 0
    simp only [parseUnsigned, hdigits, strtoullAll, List.isEmpty_cons, Bool.false_eq_true, if_false,
      hall, if_true, hfold, digitsValue, Option.filter]
    split <;> simp_all
