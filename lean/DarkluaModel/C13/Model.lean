/-
C13 — model of darklua's literal writers (`/repo/src/generator/utils.rs`).

Every function mirrors the Rust function of the same name *as it is* (bugs included).
Outputs are byte lists (the Rust `String` results are always ASCII-only for these
functions: every byte ≥ 0x80 is escaped, so "bytes" and "chars" coincide on the output side).
Core only (no Std / Mathlib imports) so that the line-protocol driver links.
-/
import DarkluaModel.C13.Ieee
namespace DarkluaModel.C13

/-! ## character classes (`u8::is_ascii_graphic`, `u8::is_ascii_digit`) -/

/-- `u8::is_ascii_graphic`: `b'!'..=b'~'`. -/
def isAsciiGraphic (c : UInt8) : Bool := 0x21 ≤ c && c ≤ 0x7e

/-- `u8::is_ascii_digit`. -/
def isAsciiDigit (c : UInt8) : Bool := 48 ≤ c && c ≤ 57

/-- utils.rs `needs_escaping`. -/
def needsEscaping (c : UInt8) : Bool :=
  !(isAsciiGraphic c || c == 32) || c == 92

/-- utils.rs `needs_quoted_string`. -/
def needsQuotedString (c : UInt8) : Bool :=
  !(isAsciiGraphic c || c == 32 || c == 10)

/-! ## `format!("{}", u8)`, `format!("{:03}", u8)`, `format!("{:x}", u32)` -/

def digitByte (k : Nat) : UInt8 := UInt8.ofNat (48 + k)

/-- `format!("{}", c)` for `c : u8`. -/
def fmtU8 (c : UInt8) : List UInt8 :=
  let n := c.toNat
  if n < 10 then [digitByte n]
  else if n < 100 then [digitByte (n / 10), digitByte (n % 10)]
  else [digitByte (n / 100), digitByte (n / 10 % 10), digitByte (n % 10)]

/-- `format!("{:03}", c)` for `c : u8`. -/
def fmtU8Pad3 (c : UInt8) : List UInt8 :=
  let n := c.toNat
  [digitByte (n / 100), digitByte (n / 10 % 10), digitByte (n % 10)]

/-- one lowercase hex digit -/
def hexDigitByte (k : Nat) : UInt8 :=
  if k < 10 then UInt8.ofNat (48 + k) else UInt8.ofNat (87 + k)

/-- `format!("{:x}", n)`: lowercase hex, no padding. -/
def fmtHex (n : Nat) : List UInt8 :=
  if _h : n < 16 then [hexDigitByte n] else fmtHex (n / 16) ++ [hexDigitByte (n % 16)]
termination_by n
decreasing_by omega

/-! ## utils.rs `escape` -/

/-- utils.rs `escape(character, next_character)`. -/
def escape (c : UInt8) (next : Option UInt8) : List UInt8 :=
  if c == 10 then [92, 110]        -- \n
  else if c == 9 then [92, 116]    -- \t
  else if c == 92 then [92, 92]    -- \\
  else if c == 13 then [92, 114]   -- \r
  else if c == 7 then [92, 97]     -- \a
  else if c == 8 then [92, 98]     -- \b
  else if c == 11 then [92, 118]   -- \v
  else if c == 12 then [92, 102]   -- \f
  else if (next.filter isAsciiDigit).isSome then 92 :: fmtU8Pad3 c
  else 92 :: fmtU8 c

/-- utils.rs `count_new_lines`. -/
def countNewLines (v : List UInt8) : Nat := (v.filter (· == 10)).length

/-! ## `str::from_utf8` -/

/-- `str::from_utf8(value).ok()` followed by `.chars()`: the scalar values of a valid UTF-8
byte string, `none` when the bytes are not valid UTF-8 (Lean core's validating decoder:
rejects overlong forms, surrogates, values above U+10FFFF and truncated sequences — the same
language as Rust's; the correspondence run compares them on invalid families). -/
def fromUtf8 (v : List UInt8) : Option (List Char) :=
  v.toByteArray.utf8Decode?.map Array.toList

/-! ## utils.rs `get_quote_symbol`, `write_quoted` -/

/-- utils.rs `get_quote_symbol`. -/
def getQuoteSymbol (v : List UInt8) : UInt8 :=
  if v.contains 34 then 39
  else if v.contains 39 then 34
  else 39

/-- `c as u8` for a `char` (truncation). -/
def charAsU8 (c : Char) : UInt8 := UInt8.ofNat c.toNat

/-- `char::is_ascii`. -/
def charIsAscii (c : Char) : Bool := c.toNat < 128

/-- the `else` branch loop of `write_quoted` (value is not UTF-8): bytes with lookahead. -/
def writeQuotedBytes (q : UInt8) : List UInt8 → List UInt8
  | [] => []
  | c :: rest =>
    (if c == q then [92, q]
     else if needsEscaping c then escape c rest.head?
     else [c]) ++ writeQuotedBytes q rest

/-- the `if let Ok(stringified)` branch loop of `write_quoted`: chars with lookahead. Note
`next_character.map(|c| c as u8)` truncates the *next char* to its low byte. -/
def writeQuotedChars (q : UInt8) : List Char → List UInt8
  | [] => []
  | ch :: rest =>
    (if ch.toNat == q.toNat then [92, q]
     else if !charIsAscii ch || needsEscaping (charAsU8 ch) then
       if charIsAscii ch then escape (charAsU8 ch) (rest.head?.map charAsU8)
       else [92, 117, 123] ++ fmtHex ch.toNat ++ [125]       -- \u{…}
     else [charAsU8 ch]) ++ writeQuotedChars q rest

/-- utils.rs `write_quoted`. -/
def writeQuoted (v : List UInt8) : List UInt8 :=
  let q := getQuoteSymbol v
  match fromUtf8 v with
  | some chars => q :: (writeQuotedChars q chars ++ [q])
  | none => q :: (writeQuotedBytes q v ++ [q])

/-! ## utils.rs `write_long_bracket` -/

/-- `bstr::ByteSlice::find(..).is_some()`: naive substring test. -/
def containsSub (needle : List UInt8) : List UInt8 → Bool
  | [] => needle.isPrefixOf []
  | c :: cs => needle.isPrefixOf (c :: cs) || containsSub needle cs

/-- the vector `equals` of `write_long_bracket` when the counter is `i`: `]` `=`ⁱ `]`. -/
def closer (i : Nat) : List UInt8 := 93 :: (List.replicate i 61 ++ [93])

/-- the `loop` of `write_long_bracket` over the byte string `searched`; `fuel` bounds the
iterations (the Rust loop is unbounded but stops at the latest when the closer is longer than
the searched bytes, see `Lemmas.findLevel_spec`). -/
def findLevel (searched : List UInt8) : Nat → Nat → Nat
  | 0, i => i
  | fuel + 1, i => if containsSub (closer i) searched then findLevel searched fuel (i + 1) else i

/-- the level `i` chosen by `write_long_bracket`: the closer is searched in `searched` = the
value followed by the first `]` of the closing delimiter (fix of F14), so a level whose closer
would be completed by the delimiter itself is skipped as well; the search starts at level 1
when the value ends with `]` or contains `[[` (fix of F14b: stock Lua 5.1 refuses `[[` inside a
level-0 long string). -/
def longLevel (v : List UInt8) : Nat :=
  findLevel (v ++ [93]) (v.length + 2)
    (if v.getLast? == some 93 || containsSub [91, 91] v then 1 else 0)

/-- utils.rs `write_long_bracket`. -/
def writeLongBracket (v : List UInt8) : Option (List UInt8) :=
  match fromUtf8 v with
  | none => none
  | some _ =>
    let i := longLevel v
    let nl : List UInt8 := if v.head? == some 10 then [10] else []
    some ([91] ++ List.replicate i 61 ++ [91] ++ nl ++ v ++ [93] ++ List.replicate i 61 ++ [93])

/-- the condition under which `write_string` tries the long-bracket form. -/
def wantsLongBracket (v : List UInt8) : Bool :=
  !v.any needsQuotedString && decide (v.length ≥ 20)
    && (decide (v.length ≥ 60) || decide (countNewLines v ≥ 6))

/-- utils.rs `write_string`. -/
def writeString (v : List UInt8) : List UInt8 :=
  match v with
  | [] => [39, 39]
  | [c] =>
    if c == 39 then [34, 39, 34]
    else if c == 34 then [39, 34, 39]
    else if needsEscaping c then 39 :: (escape c none ++ [39])
    else [39, c, 39]
  | _ =>
    if wantsLongBracket v then (writeLongBracket v).getD (writeQuoted v)
    else writeQuoted v

/-- utils.rs `write_interpolated_string_segment` (on the segment's value bytes). -/
def writeInterpSegment : List UInt8 → List UInt8
  | [] => []
  | c :: rest =>
    (if c == 96 || c == 123 then [92, c]
     else if needsEscaping c then escape c rest.head?
     else [c]) ++ writeInterpSegment rest

/-! ## which form `write_string` takes -/

/-- `write_string v` takes the long-bracket form. -/
def usesLongBracket (v : List UInt8) : Bool :=
  wantsLongBracket v && (fromUtf8 v).isSome

/-! ## the hypothesis of the Lua 5.1 theorem -/

/-- `v` is valid UTF-8 with at least one non-ASCII scalar: exactly when `write_quoted` emits `\u{…}`
(an escape Lua 5.1 does not have). -/
def hasUnicodeEscape (v : List UInt8) : Bool :=
  match fromUtf8 v with
  | some cs => cs.any fun ch => !charIsAscii ch
  | none => false

/-- the literal written for `v` stays inside what Lua 5.1 reads back as `v`: no `\u{…}` -/
def lua51Safe (v : List UInt8) : Bool :=
  !hasUnicodeEscape v

/-! # numbers -/

def strBytes (s : String) : List UInt8 := s.toUTF8.toList

/-- `format!("{}", n)` for a signed integer -/
def fmtInt (n : Int) : List UInt8 :=
  if n < 0 then 45 :: strBytes (toString n.natAbs) else strBytes (toString n.natAbs)

/-- `format!("{:b}", n)` -/
def fmtBin (n : Nat) : List UInt8 :=
  if _h : n < 2 then [UInt8.ofNat (48 + n)] else fmtBin (n / 2) ++ [UInt8.ofNat (48 + n % 2)]
termination_by n
decreasing_by omega

/-- The floating-point operations `write_number` and `FromStr` rely on (Rust `core`/`std`):
everything the model needs to know about `f64`. The theorems hold for every such structure
satisfying the stated laws; `floatOps` below is the executable instance. -/
structure NumOps (F : Type) where
  isNaN : F → Bool
  isInf : F → Bool
  isZero : F → Bool
  signNeg : F → Bool
  /-- `float.fract() == 0.0` -/
  fractIsZero : F → Bool
  /-- `float / 10.0_f64.powi(exponent)` -/
  divPow10 : F → Int → F
  /-- `format!("{}", x)` (= `format!("{:.}", x)`) -/
  fmt : F → List UInt8
  /-- `format!("{:e}", x)` / `format!("{:E}", x)` (`true` = uppercase) -/
  fmtExp : Bool → F → List UInt8
  /-- `str::parse::<f64>().ok()` -/
  parse : List UInt8 → Option F
  /-- the double nearest to `digits × 10^exp10` (ties to even): what a correctly rounding
  decimal-to-binary conversion returns; used only to state laws about `parse` -/
  ofDecimal : Nat → Int → F
  /-- `==` on `f64` -/
  eq : F → F → Bool

/-- nodes/expressions/number.rs `NumberExpression` (tokens dropped) -/
inductive NumLit (F : Type) where
  | decimal (float : F) (exponent : Option (Int × Bool))
  | hex (integer : Nat) (exponent : Option (Nat × Bool)) (isXUppercase : Bool)
  | binary (value : Nat) (isBUppercase : Bool)

/-- `i64 → i32` `TryInto` -/
def tryIntoI32 (e : Int) : Option Int :=
  if -2147483648 ≤ e ∧ e ≤ 2147483647 then some e else none

/-- utils.rs `write_number`. -/
def writeNumber {F : Type} (ops : NumOps F) : NumLit F → List UInt8
  | .decimal x exponent =>
    if ops.isNaN x then [40, 48, 47, 48, 41]                       -- "(0/0)"
    else if ops.isInf x then
      [40] ++ (if ops.signNeg x then [45] else []) ++ [49, 47, 48, 41]   -- "({}1/0)"
    else
      match (exponent.map (·.1)).bind tryIntoI32 with
      | some e =>
        let upper := (exponent.map (·.2)).getD false
        let mantissa := ops.divPow10 x e
        let formatted := ops.fmt mantissa ++ (if upper then [69] else [101]) ++ fmtInt e
        if (ops.parse formatted).any (ops.eq · x) then formatted
        else ops.fmtExp upper x
      | none =>
        if ops.fractIsZero x then ops.fmt x else ops.fmt x
  | .hex n exponent ux =>
    [48, if ux then 88 else 120] ++ fmtHex n ++
      (match exponent with
       | some (e, up) => (if up then [80] else [112]) ++ fmtInt e
       | none => [])
  | .binary n ub => [48, if ub then 66 else 98] ++ fmtBin n

/-! ## nodes/expressions/number.rs `FromStr for NumberExpression` -/

inductive NumberParsingError where
  | invalidHexadecimalNumber | invalidHexadecimalExponent | invalidDecimalNumber
  | invalidDecimalExponent | invalidBinaryNumber
  deriving DecidableEq, Repr

/-- `filter_underscore` -/
def filterUnderscore (s : List UInt8) : List UInt8 := s.filter (· != 95)

/-- value of a digit in `radix` (`char::to_digit`) -/
def toDigit (radix : Nat) (c : UInt8) : Option Nat :=
  let v := if 48 ≤ c ∧ c ≤ 57 then some (c.toNat - 48)
    else if 97 ≤ c ∧ c ≤ 122 then some (c.toNat - 87)
    else if 65 ≤ c ∧ c ≤ 90 then some (c.toNat - 55)
    else none
  v.filter (· < radix)

def foldDigits (radix : Nat) : Nat → List UInt8 → Option Nat
  | acc, [] => some acc
  | acc, c :: cs => match toDigit radix c with
    | some d => foldDigits radix (acc * radix + d) cs
    | none => none

/-- `uN::from_str_radix(s, radix).ok()` for an unsigned type with `max` as largest value:
an optional `+`, at least one digit, no overflow. -/
def parseUnsigned (radix max : Nat) (s : List UInt8) : Option Nat :=
  let digits := match s with
    | 43 :: rest => rest
    | _ => s
  if digits.isEmpty then none
  else (foldDigits radix 0 digits).filter (· ≤ max)

/-- `str::parse::<i64>().ok()`: optional sign, at least one digit, within range -/
def parseI64 (s : List UInt8) : Option Int :=
  let (neg, digits) := match s with
    | 43 :: rest => (false, rest)
    | 45 :: rest => (true, rest)
    | _ => (false, s)
  if digits.isEmpty then none
  else match foldDigits 10 0 digits with
    | none => none
    | some n =>
      if neg then (if n ≤ 9223372036854775808 then some (-(n : Int)) else none)
      else (if n ≤ 9223372036854775807 then some (n : Int) else none)

/-- index of the first occurrence of `c` (`str::find(char)`) -/
def findByte (c : UInt8) (s : List UInt8) : Option Nat :=
  let i := s.findIdx (· == c)
  if i < s.length then some i else none

/-- `value.char_indices().filter(|(_, c)| *c != '_').take(2).nth(1)` -/
def notationPrefix (s : List UInt8) : Option (Nat × UInt8) :=
  ((s.zipIdx.filter fun (c, _) => c != 95).drop 1).head?.map fun (c, i) => (i, c)

/-- the `(starts_with_zero, notation_prefix)` match guard of `from_str`: position and character
of the `x`/`X`/`b`/`B` marker when the value starts with `0` and the marker is its second
non-underscore character -/
def hexOrBinPrefix (value : List UInt8) : Option (Nat × UInt8) :=
  match notationPrefix value with
  | some (position, notationCh) =>
    if value.head? == some 48 &&
        (notationCh == 120 || notationCh == 88 || notationCh == 98 || notationCh == 66)
    then some (position, notationCh) else none
  | none => none

/-- `value.find(lower).map(|i| (false, i)).or_else(|| value.find(upper).map(|i| (true, i)))` -/
def findEither (lower upper : UInt8) (value : List UInt8) : Option (Bool × Nat) :=
  match findByte lower value with
  | some i => some (false, i)
  | none => (findByte upper value).map fun i => (true, i)

/-- the hexadecimal arm of `from_str` -/
def parseHexBranch {F : Type} (value : List UInt8) (position : Nat) (isUppercase : Bool) :
    Except NumberParsingError (NumLit F) :=
  match findEither 112 80 value with
  | some (exponentIsUppercase, index) =>
    match parseUnsigned 10 4294967295 (value.drop (index + 1)) with
    | none => .error .invalidHexadecimalExponent
    | some exponent =>
      -- `value.get(position + 1..index).unwrap()` panics when `index < position + 1`;
      -- that needs a `p` before the `x`, impossible since `x` is the 2nd non-`_` char after `0`
      match parseUnsigned 16 18446744073709551615 ((value.take index).drop (position + 1)) with
      | none => .error .invalidHexadecimalNumber
      | some n => .ok (.hex n (some (exponent, exponentIsUppercase)) isUppercase)
  | none =>
    match parseUnsigned 16 18446744073709551615 (filterUnderscore (value.drop (position + 1))) with
    | none => .error .invalidHexadecimalNumber
    | some n => .ok (.hex n none isUppercase)

/-- the binary arm of `from_str` -/
def parseBinBranch {F : Type} (value : List UInt8) (position : Nat) (isUppercase : Bool) :
    Except NumberParsingError (NumLit F) :=
  match parseUnsigned 2 18446744073709551615 (filterUnderscore (value.drop (position + 1))) with
  | none => .error .invalidBinaryNumber
  | some n => .ok (.binary n isUppercase)

/-- the decimal arm (`_ =>`) of `from_str` -/
def parseDecBranch {F : Type} (ops : NumOps F) (value : List UInt8) :
    Except NumberParsingError (NumLit F) :=
  if [46, 95].isPrefixOf value then .error .invalidDecimalNumber
  else
    match findEither 101 69 value with
    | some (exponentIsUppercase, index) =>
      if containsSub [95, 45] value || containsSub [95, 43] value then
        .error .invalidDecimalExponent
      else
        match parseI64 (filterUnderscore (value.drop (index + 1))) with
        | none => .error .invalidDecimalExponent
        | some exponent =>
          match ops.parse (filterUnderscore (value.take index)) with
          | none => .error .invalidDecimalNumber
          | some _ =>
            match ops.parse (filterUnderscore value) with
            | none => .error .invalidDecimalNumber
            | some x => .ok (.decimal x (some (exponent, exponentIsUppercase)))
    | none =>
      match ops.parse (filterUnderscore value) with
      | none => .error .invalidDecimalNumber
      | some x => .ok (.decimal x none)

/-- `0x…p…`: a hexadecimal float (Lua 5.2 syntax). Luau has none; `from_str` accepts them. -/
def hexFloatShape (value : List UInt8) : Bool :=
  (hexOrBinPrefix value).any (fun pc => pc.2 == 120 || pc.2 == 88) &&
    (value.contains 112 || value.contains 80)

/-- the exponent text of a decimal literal does not fit `i64` (`1e99999999999999999999`):
`from_str` then answers `InvalidDecimalExponent` although Luau reads the literal (as ±inf or 0) -/
def expOverflows (value : List UInt8) : Bool :=
  match findEither 101 69 value with
  | some (_, index) => (parseI64 (filterUnderscore (value.drop (index + 1)))).isNone
  | none => false

/-- `FromStr::from_str` on ASCII text (number tokens are ASCII). -/
def parseNumber {F : Type} (ops : NumOps F) (value : List UInt8) :
    Except NumberParsingError (NumLit F) :=
  match hexOrBinPrefix value with
  | some (position, notationCh) =>
    let isUppercase := notationCh == 88 || notationCh == 66
    if notationCh == 120 || notationCh == 88 then parseHexBranch value position isUppercase
    else parseBinBranch value position isUppercase
  | none => parseDecBranch ops value

/-! ## the executable `NumOps` instance: IEEE binary64 as bit patterns

`fmt`, `fmtExp` (shortest round-tripping digits, laid out as `core::fmt::float` does) and
`parse` (the `f64::from_str` grammar with correct rounding) are computed exactly from the bit
pattern; `divPow10` follows compiler-rt `__powidf2` (what `f64::powi` lowers to) with hardware
`Float` multiplication and division. -/

def digitsToBytes (ds : List Nat) : List UInt8 := ds.map fun d => UInt8.ofNat (48 + d)

/-- `core::fmt::float::float_to_decimal_common_shortest` with `Sign::Minus`, precision 0 -/
def fmtBits (bits : UInt64) : List UInt8 :=
  if Ieee.isNaNBits bits then strBytes "NaN"
  else
    let sign : List UInt8 := if Ieee.signBit bits then [45] else []
    if Ieee.isInfBits bits then sign ++ strBytes "inf"
    else if Ieee.isZeroBits bits then sign ++ [48]
    else
      let (ds, k) := Ieee.shortestDigits bits
      let n := ds.length
      if k ≤ 0 then sign ++ [48, 46] ++ List.replicate (-k).toNat 48 ++ digitsToBytes ds
      else if k.toNat < n then
        sign ++ digitsToBytes (ds.take k.toNat) ++ [46] ++ digitsToBytes (ds.drop k.toNat)
      else sign ++ digitsToBytes ds ++ List.replicate (k.toNat - n) 48

/-- `float_to_exponential_common_shortest` (`{:e}` / `{:E}`) -/
def fmtExpBits (upper : Bool) (bits : UInt64) : List UInt8 :=
  if Ieee.isNaNBits bits then strBytes "NaN"
  else
    let sign : List UInt8 := if Ieee.signBit bits then [45] else []
    let e : UInt8 := if upper then 69 else 101
    if Ieee.isInfBits bits then sign ++ strBytes "inf"
    else if Ieee.isZeroBits bits then sign ++ [48, e, 48]
    else
      let (ds, k) := Ieee.shortestDigits bits
      match digitsToBytes ds with
      | [] => []
      | [d] => sign ++ [d, e] ++ fmtInt (k - 1)
      | d :: rest => sign ++ [d, 46] ++ rest ++ [e] ++ fmtInt (k - 1)

def lowerByte (c : UInt8) : UInt8 := if 65 ≤ c ∧ c ≤ 90 then c + 32 else c

/-- `f64::from_str` (`core::num::dec2flt`): `[+-]? (inf | infinity | nan | digits [. digits] [eE [+-] digits])`
with at least one mantissa digit; correctly rounded. -/
def parseBits (s : List UInt8) : Option UInt64 :=
  let (neg, body) := match s with
    | 43 :: rest => (false, rest)
    | 45 :: rest => (true, rest)
    | _ => (false, s)
  let low := body.map lowerByte
  if low == strBytes "inf" || low == strBytes "infinity" then
    some (if neg then 0xfff0000000000000 else 0x7ff0000000000000)
  else if low == strBytes "nan" then some (if neg then 0xfff8000000000000 else 0x7ff8000000000000)
  else
    let intDigits := body.takeWhile isAsciiDigit
    let rest := body.drop intDigits.length
    let (fracDigits, rest) := match rest with
      | 46 :: r => (r.takeWhile isAsciiDigit, r.drop (r.takeWhile isAsciiDigit).length)
      | r => ([], r)
    if intDigits.isEmpty && fracDigits.isEmpty then none
    else
      let exp? : Option Int := match rest with
        | [] => some 0
        | c :: r =>
          if c == 101 || c == 69 then
            let (eneg, ed) := match r with
              | 43 :: r' => (false, r')
              | 45 :: r' => (true, r')
              | _ => (false, r)
            if ed.isEmpty || !ed.all isAsciiDigit then none
            else
              let n : Nat := ed.foldl (fun (acc : Nat) d => acc * 10 + (d.toNat - 48)) 0
              some (if eneg then -(n : Int) else (n : Int))
          else none
      match exp? with
      | none => none
      | some e =>
        let digits : Nat := (intDigits ++ fracDigits).foldl (fun (acc : Nat) d => acc * 10 + (d.toNat - 48)) 0
        -- huge exponents cannot change the result beyond these clamps (digits has < 2^63 digits…)
        let e10 : Int := e - (fracDigits.length : Int)
        let mlen : Int := ((intDigits ++ fracDigits).length : Int)
        if digits == 0 then some (if neg then 0x8000000000000000 else 0)
        else if e10 > 400 then some (if neg then 0xfff0000000000000 else 0x7ff0000000000000)
        else if e10 + mlen < -400 then some (if neg then 0x8000000000000000 else 0)
        else some (Ieee.ofDecimal neg digits e10)

/-- compiler-rt `__powidf2(a, b)` -/
def powi (a : Float) (b : Int) : Float :=
  let rec go : Nat → Nat → Float → Float → Float
    | 0, _, _, r => r
    | fuel + 1, n, a, r =>
      let r := if n % 2 == 1 then r * a else r
      let n := n / 2
      if n == 0 then r else go fuel n (a * a) r
  let r := go 40 b.natAbs a 1.0
  if b < 0 then 1.0 / r else r

def floatOps : NumOps UInt64 where
  isNaN := Ieee.isNaNBits
  isInf := Ieee.isInfBits
  isZero := Ieee.isZeroBits
  signNeg := Ieee.signBit
  fractIsZero b :=
    let (m, e) := Ieee.decode b
    e ≥ 0 || m % 2 ^ (-e).toNat == 0
  divPow10 b e := (Float.ofBits b / powi 10.0 e).toBits
  fmt := fmtBits
  fmtExp := fmtExpBits
  parse := parseBits
  ofDecimal := Ieee.ofDecimal false
  eq a b :=
    !Ieee.isNaNBits a && !Ieee.isNaNBits b && (a == b || (Ieee.isZeroBits a && Ieee.isZeroBits b))

/-! ## the generators' own entry points

`utils::write_number` / `utils::write_string` / `utils::write_interpolated_string_segment` are
shared helpers; what ends up in the output is decided by each generator's `write_number`,
`write_string`, `write_interpolated_string`. These wrappers state the arm structure of those
methods (the blanks the `push_*` primitives may put BEFORE a piece are layout, not literal text). -/

/-- dense.rs `DenseLuaGenerator::write_number`: its own arms for NaN, the infinities, hexadecimal
and binary nodes; `utils::write_number` for every other decimal. -/
def denseWriteNumber {F : Type} (ops : NumOps F) : NumLit F → List UInt8
  | .decimal x exponent =>
    if ops.isNaN x then [40] ++ [48] ++ [47] ++ [48] ++ [41]              -- push_char × 5
    else if ops.isInf x then
      [40] ++ (if ops.signNeg x then [45] else []) ++ [49] ++ [47] ++ [48] ++ [41]
    else writeNumber ops (.decimal x exponent)
  | .hex n exponent ux =>
    [48, if ux then 88 else 120] ++ fmtHex n ++
      (match exponent with
       | some (e, up) => [if up then 80 else 112] ++ fmtInt e
       | none => [])
  | .binary n ub => [48, if ub then 66 else 98] ++ fmtBin n

/-- readable.rs `ReadableLuaGenerator::write_number` -/
def readableWriteNumber {F : Type} (ops : NumOps F) (lit : NumLit F) : List UInt8 :=
  writeNumber ops lit

/-- token_based.rs `write_number` for a node without token (`Token::from_content(utils::write_number(..))`) -/
def tokenBasedWriteNumber {F : Type} (ops : NumOps F) (lit : NumLit F) : List UInt8 :=
  writeNumber ops lit

/-- the three generators -/
inductive Gen where
  | dense | readable | tokenBased
  deriving DecidableEq, Repr

/-- the number text generator `g` writes for a (token-less) node -/
def genWriteNumber {F : Type} (ops : NumOps F) : Gen → NumLit F → List UInt8
  | .dense => denseWriteNumber ops
  | .readable => readableWriteNumber ops
  | .tokenBased => tokenBasedWriteNumber ops

/-- dense.rs / readable.rs `write_string`: `utils::write_string`, and for the long-bracket form
`push_str_and_break_if(result, break_long_string)`: a blank (space or new line) goes first when
the last pushed piece ends with `[`. `lastPush` is that piece. (token_based.rs writes the same
text through `write_symbol`.) -/
def generatorWriteString (lastPush : List UInt8) (v : List UInt8) : List UInt8 :=
  let result := writeString v
  if result.head? == some 91 then
    (if lastPush.getLast? == some 91 then [32] else []) ++ result
  else result

/-- a piece of an interpolated string: literal bytes, or the text written for a `{value}` -/
inductive InterpPart where
  | str (value : List UInt8)
  | val (exprText : List UInt8)
  deriving DecidableEq, Repr

/-- dense.rs / readable.rs / token_based.rs `write_interpolated_string`: backtick, then per
segment `write_interpolated_string_segment` or `{` expression `}`, backtick. (The expression
text is whatever `write_expression` wrote, including the blank dense/readable put after `{`
before a table constructor.) -/
def interpPartText : InterpPart → List UInt8
  | .str v => writeInterpSegment v
  | .val t => [123] ++ t ++ [125]

def writeInterpolatedString (parts : List InterpPart) : List UInt8 :=
  [96] ++ parts.flatMap interpPartText ++ [96]

/-! ## nodes/expressions/mod.rs `impl From<f64> for Expression` -/

/-- the little expression trees `Expression::from(f64)` builds -/
inductive NumExpr (F : Type) where
  | lit (n : NumLit F)
  /-- `UnaryExpression::new(UnaryOperator::Minus, e)` -/
  | neg (e : NumExpr F)
  /-- `BinaryExpression::new(BinaryOperator::Slash, a, b)` -/
  | div (a b : NumExpr F)

/-- The `f64` operations `From<f64>` relies on. `log10Floor x` is `x.log10().floor()` (an
integer-valued float of magnitude < 400, hence an `Int` here; `exponent -= 1.0`, `exponent > 2.0`
and `exponent as i64` are exact on it), `powf10 e` is `10_f64.powf(e)`. -/
structure FromOps (F : Type) where
  isNaN : F → Bool
  isInf : F → Bool
  isZero : F → Bool
  /-- `!is_sign_positive()` -/
  signNeg : F → Bool
  posZero : F
  negZero : F
  one : F
  /-- `value < 0.0` -/
  ltZero : F → Bool
  abs : F → F
  /-- `value < 0.1` -/
  ltTenth : F → Bool
  /-- `value > 999.0` -/
  gt999 : F → Bool
  /-- `(value / 100.0).fract() == 0.0` -/
  div100FractZero : F → Bool
  log10Floor : F → Int
  powf10 : Int → F
  /-- `power / 10.0` -/
  div10 : F → F
  /-- `(value / power).fract() != 0.0` -/
  divFractNonZero : F → F → Bool

/-- the `while exponent > 2.0 && (value / power).fract() != 0.0` loop (`fuel` bounds the
iterations; the exponent starts below 400 and decreases by one per iteration) -/
def shrinkExponent {F : Type} (ops : FromOps F) (value : F) : Nat → Int → F → Int
  | 0, exponent, _ => exponent
  | fuel + 1, exponent, power =>
    if exponent > 2 && ops.divFractNonZero value power then
      shrinkExponent ops value fuel (exponent - 1) (ops.div10 power)
    else exponent

/-- the `Subnormal | Normal` arm for a non-negative value -/
def fromPositive {F : Type} (ops : FromOps F) (value : F) : NumLit F :=
  if ops.ltTenth value then .decimal value (some (ops.log10Floor value, true))
  else if ops.gt999 value && ops.div100FractZero value then
    let exponent := ops.log10Floor value
    .decimal value (some (shrinkExponent ops value 400 exponent (ops.powf10 exponent), true))
  else .decimal value none

/-- `impl From<f64> for Expression`. -/
def fromF64 {F : Type} (ops : FromOps F) (value : F) : NumExpr F :=
  if ops.isNaN value then
    .div (.lit (.decimal ops.posZero none)) (.lit (.decimal ops.posZero none))
  else if ops.isInf value then
    -- `Expression::from(±1.0)`: `1.0` is a plain decimal, `-1.0` its negation
    .div (if ops.signNeg value then .neg (.lit (.decimal ops.one none)) else .lit (.decimal ops.one none))
      (.lit (.decimal ops.posZero none))
  else if ops.isZero value then
    .lit (.decimal (if ops.signNeg value then ops.negZero else ops.posZero) none)
  else if ops.ltZero value then .neg (.lit (fromPositive ops (ops.abs value)))
  else .lit (fromPositive ops value)

/-- executable instance on bit patterns (libm `log10`, `pow` through Lean's `Float`) -/
def floatFromOps : FromOps UInt64 where
  isNaN := Ieee.isNaNBits
  isInf := Ieee.isInfBits
  isZero := Ieee.isZeroBits
  signNeg := Ieee.signBit
  posZero := 0
  negZero := 0x8000000000000000
  one := 0x3ff0000000000000
  ltZero b := Float.ofBits b < 0.0
  abs b := UInt64.ofNat (b.toNat % 2 ^ 63)
  ltTenth b := Float.ofBits b < Float.ofBits 0x3fb999999999999a
  gt999 b := Float.ofBits b > 999.0
  div100FractZero b := floatOps.fractIsZero (Float.ofBits b / 100.0).toBits
  log10Floor b := (Float.ofBits b).log10.floor.toInt64.toInt
  powf10 e := ((10.0 : Float).pow (Float.ofInt e)).toBits
  div10 b := (Float.ofBits b / 10.0).toBits
  divFractNonZero v p := !floatOps.fractIsZero (Float.ofBits v / Float.ofBits p).toBits

end DarkluaModel.C13
