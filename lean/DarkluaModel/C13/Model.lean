/-
C13 — model of darklua's literal writers (`/repo/src/generator/utils.rs`).

Every function mirrors the Rust function of the same name *as it is* (bugs included).
Outputs are byte lists (the Rust `String` results are always ASCII-only for these
functions: every byte ≥ 0x80 is escaped, so "bytes" and "chars" coincide on the output side).
Core only (no Std / Mathlib imports) so that the line-protocol driver links.
-/
namespace DarkluaModel.C13

/-! ## character classes (`u8::is_ascii_graphic`, `u8::is_ascii_digit`) -/

/-- `u8::is_ascii_graphic`: `b'!'..=b'~'`. -/
def isAsciiGraphic (c : UInt8) : Bool := 0x21 ≤ c && c ≤ 0x7e

/-- `u8::is_ascii_digit`. -/
def isAsciiDigit (c : UInt8) : Bool := 48 ≤ c && c ≤ 57

/-- utils.rs `needs_escaping`. -/
def needsEscaping (c : UInt8) : Bool :=
  !(isAsciiGraphic c || c == 32) || c == 92

/-- utils.rs `needs_quoted_string`. -/
def needsQuotedString (c : UInt8) : Bool :=
  !(isAsciiGraphic c || c == 32 || c == 10)

/-! ## `format!("{}", u8)`, `format!("{:03}", u8)`, `format!("{:x}", u32)` -/

def digitByte (k : Nat) : UInt8 := UInt8.ofNat (48 + k)

/-- `format!("{}", c)` for `c : u8`. -/
def fmtU8 (c : UInt8) : List UInt8 :=
  let n := c.toNat
  if n < 10 then [digitByte n]
  else if n < 100 then [digitByte (n / 10), digitByte (n % 10)]
  else [digitByte (n / 100), digitByte (n / 10 % 10), digitByte (n % 10)]

/-- `format!("{:03}", c)` for `c : u8`. -/
def fmtU8Pad3 (c : UInt8) : List UInt8 :=
  let n := c.toNat
  [digitByte (n / 100), digitByte (n / 10 % 10), digitByte (n % 10)]

/-- one lowercase hex digit -/
def hexDigitByte (k : Nat) : UInt8 :=
  if k < 10 then UInt8.ofNat (48 + k) else UInt8.ofNat (87 + k)

/-- `format!("{:x}", n)`: lowercase hex, no padding. -/
def fmtHex (n : Nat) : List UInt8 :=
  if _h : n < 16 then [hexDigitByte n] else fmtHex (n / 16) ++ [hexDigitByte (n % 16)]
termination_by n
decreasing_by omega

/-! ## utils.rs `escape` -/

/-- utils.rs `escape(character, next_character)`. -/
def escape (c : UInt8) (next : Option UInt8) : List UInt8 :=
  if c == 10 then [92, 110]        -- \n
  else if c == 9 then [92, 116]    -- \t
  else if c == 92 then [92, 92]    -- \\
  else if c == 13 then [92, 114]   -- \r
  else if c == 7 then [92, 97]     -- \a
  else if c == 8 then [92, 98]     -- \b
  else if c == 11 then [92, 118]   -- \v
  else if c == 12 then [92, 102]   -- \f
  else if (next.filter isAsciiDigit).isSome then 92 :: fmtU8Pad3 c
  else 92 :: fmtU8 c

/-- utils.rs `count_new_lines`. -/
def countNewLines (v : List UInt8) : Nat := (v.filter (· == 10)).length

/-! ## `str::from_utf8` -/

/-- `str::from_utf8(value).ok()` followed by `.chars()`: the scalar values of a valid UTF-8
byte string, `none` when the bytes are not valid UTF-8 (Lean core's validating decoder:
rejects overlong forms, surrogates, values above U+10FFFF and truncated sequences — the same
language as Rust's; the correspondence run compares them on invalid families). -/
def fromUtf8 (v : List UInt8) : Option (List Char) :=
  v.toByteArray.utf8Decode?.map Array.toList

/-! ## utils.rs `get_quote_symbol`, `write_quoted` -/

/-- utils.rs `get_quote_symbol`. -/
def getQuoteSymbol (v : List UInt8) : UInt8 :=
  if v.contains 34 then 39
  else if v.contains 39 then 34
  else 39

/-- `c as u8` for a `char` (truncation). -/
def charAsU8 (c : Char) : UInt8 := UInt8.ofNat c.toNat

/-- `char::is_ascii`. -/
def charIsAscii (c : Char) : Bool := c.toNat < 128

/-- the `else` branch loop of `write_quoted` (value is not UTF-8): bytes with lookahead. -/
def writeQuotedBytes (q : UInt8) : List UInt8 → List UInt8
  | [] => []
  | c :: rest =>
    (if c == q then [92, q]
     else if needsEscaping c then escape c rest.head?
     else [c]) ++ writeQuotedBytes q rest

/-- the `if let Ok(stringified)` branch loop of `write_quoted`: chars with lookahead. Note
`next_character.map(|c| c as u8)` truncates the *next char* to its low byte. -/
def writeQuotedChars (q : UInt8) : List Char → List UInt8
  | [] => []
  | ch :: rest =>
    (if ch.toNat == q.toNat then [92, q]
     else if !charIsAscii ch || needsEscaping (charAsU8 ch) then
       if charIsAscii ch then escape (charAsU8 ch) (rest.head?.map charAsU8)
       else [92, 117, 123] ++ fmtHex ch.toNat ++ [125]       -- \u{…}
     else [charAsU8 ch]) ++ writeQuotedChars q rest

/-- utils.rs `write_quoted`. -/
def writeQuoted (v : List UInt8) : List UInt8 :=
  let q := getQuoteSymbol v
  match fromUtf8 v with
  | some chars => q :: (writeQuotedChars q chars ++ [q])
  | none => q :: (writeQuotedBytes q v ++ [q])

/-! ## utils.rs `write_long_bracket` -/

/-- `bstr::ByteSlice::find(..).is_some()`: naive substring test. -/
def containsSub (needle : List UInt8) : List UInt8 → Bool
  | [] => needle.isPrefixOf []
  | c :: cs => needle.isPrefixOf (c :: cs) || containsSub needle cs

/-- the vector `equals` of `write_long_bracket` when the counter is `i`: `]` `=`ⁱ `]`. -/
def closer (i : Nat) : List UInt8 := 93 :: (List.replicate i 61 ++ [93])

/-- the `loop` of `write_long_bracket`; `fuel` bounds the iterations (the Rust loop is
unbounded but stops at the latest when the closer is longer than the value, see
`Lemmas.findLevel_spec`). -/
def findLevel (v : List UInt8) : Nat → Nat → Nat
  | 0, i => i
  | fuel + 1, i => if containsSub (closer i) v then findLevel v fuel (i + 1) else i

/-- the level `i` chosen by `write_long_bracket`. -/
def longLevel (v : List UInt8) : Nat :=
  findLevel v (v.length + 1) (if v.getLast? == some 93 then 1 else 0)

/-- utils.rs `write_long_bracket`. -/
def writeLongBracket (v : List UInt8) : Option (List UInt8) :=
  match fromUtf8 v with
  | none => none
  | some _ =>
    let i := longLevel v
    let nl : List UInt8 := if v.head? == some 10 then [10] else []
    some ([91] ++ List.replicate i 61 ++ [91] ++ nl ++ v ++ [93] ++ List.replicate i 61 ++ [93])

/-- the condition under which `write_string` tries the long-bracket form. -/
def wantsLongBracket (v : List UInt8) : Bool :=
  !v.any needsQuotedString && decide (v.length ≥ 20)
    && (decide (v.length ≥ 60) || decide (countNewLines v ≥ 6))

/-- utils.rs `write_string`. -/
def writeString (v : List UInt8) : List UInt8 :=
  match v with
  | [] => [39, 39]
  | [c] =>
    if c == 39 then [34, 39, 34]
    else if c == 34 then [39, 34, 39]
    else if needsEscaping c then 39 :: (escape c none ++ [39])
    else [39, c, 39]
  | _ =>
    if wantsLongBracket v then (writeLongBracket v).getD (writeQuoted v)
    else writeQuoted v

/-- utils.rs `write_interpolated_string_segment` (on the segment's value bytes). -/
def writeInterpSegment : List UInt8 → List UInt8
  | [] => []
  | c :: rest =>
    (if c == 96 || c == 123 then [92, c]
     else if needsEscaping c then escape c rest.head?
     else [c]) ++ writeInterpSegment rest

/-! ## the region of finding F14 -/

/-- `write_string v` takes the long-bracket form. -/
def usesLongBracket (v : List UInt8) : Bool :=
  wantsLongBracket v && (fromUtf8 v).isSome

/-- F14: the value ends with `]` `=`ⁱ where `i` is the chosen level, so the closing
delimiter `]` `=`ⁱ `]` already matches one byte early, across the end of the content. -/
def straddles (v : List UInt8) : Bool :=
  usesLongBracket v && (93 :: List.replicate (longLevel v) 61).isSuffixOf v

/-! ## the hypothesis of the Lua 5.1 theorem -/

/-- `v` is valid UTF-8 with at least one non-ASCII scalar: exactly when `write_quoted` emits `\u{…}`
(an escape Lua 5.1 does not have). -/
def hasUnicodeEscape (v : List UInt8) : Bool :=
  match fromUtf8 v with
  | some cs => cs.any fun ch => !charIsAscii ch
  | none => false

/-- the level-0 long bracket form is used and the content contains `[[` — stock Lua 5.1
rejects that ("nesting of [[...]] is deprecated"). -/
def nestedOpen51 (v : List UInt8) : Bool :=
  usesLongBracket v && longLevel v == 0 && containsSub [91, 91] v

/-- the literal written for `v` stays inside what Lua 5.1 reads back as `v` -/
def lua51Safe (v : List UInt8) : Bool :=
  !hasUnicodeEscape v && !straddles v && !nestedOpen51 v

end DarkluaModel.C13
