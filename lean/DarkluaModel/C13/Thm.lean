import DarkluaModel.C13.Model
import DarkluaModel.C13.Spec
import DarkluaModel.C13.Lemmas
/-!
C13 — String and number literals survive generation exactly: the property theorems.

`writeString`, `writeQuoted`, `writeInterpSegment`, … are the model functions the driver
executes (`Model.lean`); `decodeLuau`, `decodeLua51`, `decodeInterpSegment` are the reference
decoders of `Spec.lean` (Luau / Lua 5.1 lexer rules; `some v` iff the text is exactly one
string token denoting `v`).
-/
namespace DarkluaModel.C13
open Spec

/-! ## strings -/

/-- The property at full strength: every byte string survives `write_string` + Luau decoding. -/
def string_roundtrip_full : Prop :=
  ∀ v : List UInt8, decodeLuau (writeString v) = some v

/-- F14 witness: `]]` + 60 × `x` + `]=` -/
def f14Witness : List UInt8 := [93, 93] ++ List.replicate 60 120 ++ [93, 61]

theorem f14Witness_straddles : straddles f14Witness = true := by
  have h1 : wantsLongBracket f14Witness = true := by decide +kernel
  have h2 := fromUtf8_of_longContent f14Witness (wantsLongBracket_content _ h1)
  have h3 : (93 :: List.replicate (longLevel f14Witness) 61).isSuffixOf f14Witness = true := by
    decide +kernel
  simp [straddles, usesLongBracket, h1, h2, h3]

/-- On the straddling region the written text is not even one string token (the token ends
one byte early; `=]`-junk follows): F14 is exactly this region. -/
theorem string_straddle_breaks (v : List UInt8) (h : straddles v = true) :
    decodeLuau (writeString v) = none :=
  decodeLiteral_straddle .luau v h

example : decodeLuau (writeString f14Witness) = none :=
  string_straddle_breaks _ f14Witness_straddles

/-- The full statement is false of the code as it is (finding F14). -/
theorem string_roundtrip_full_false : ¬ string_roundtrip_full := by
  intro h
  have h1 := h f14Witness
  rw [string_straddle_breaks _ f14Witness_straddles] at h1
  exact absurd h1 (by simp)

/-- Outside the straddling region (a decidable condition, `H₁₃ v := straddles v = false`)
every byte string survives: whatever quoting form `write_string` picks, the Luau lexer
reads the text as exactly one string token denoting `v`. -/
theorem string_roundtrip_partial (v : List UInt8) (H : straddles v = false) :
    decodeLuau (writeString v) = some v :=
  decodeLiteral_writeString .luau v (Or.inl rfl) H (fun h => absurd h (by decide))

/-- `H₁₃` is exact: the literal survives iff the value is outside the straddling region. -/
theorem string_roundtrip_iff (v : List UInt8) :
    decodeLuau (writeString v) = some v ↔ straddles v = false := by
  constructor
  · intro h
    cases hs : straddles v with
    | false => rfl
    | true => rw [string_straddle_breaks v hs] at h; exact absurd h (by simp)
  · exact string_roundtrip_partial v

-- non-vacuity: a long value ending in `]` (level-1 brackets), outside the region
def okLongValue : List UInt8 := [93, 93] ++ List.replicate 60 120 ++ [61, 93]
example : straddles okLongValue = false := by
  have h3 : (93 :: List.replicate (longLevel okLongValue) 61).isSuffixOf okLongValue = false := by
    decide +kernel
  simp only [straddles, h3, Bool.and_false]
example : usesLongBracket okLongValue = true := by
  have h1 : wantsLongBracket okLongValue = true := by decide +kernel
  simp only [usesLongBracket, h1, fromUtf8_of_longContent _ (wantsLongBracket_content _ h1), Bool.and_self]
-- non-vacuity: short values are never in the region
example : straddles [27, 48, 39, 34, 92, 0xc3, 0xa9] = false := by
  have : wantsLongBracket [27, 48, 39, 34, 92, 0xc3, 0xa9] = false := by decide
  simp [straddles, usesLongBracket, this]

/-- The quoted form is right unconditionally: for every byte string, valid UTF-8 or not,
with every escape (`\a\b\f\n\r\t\v\\`, quote, `\ddd` padded to three digits exactly when a
digit follows, `\u{…}`), both quote choices. -/
theorem quoted_roundtrip (v : List UInt8) : decodeLuau (writeQuoted v) = some v :=
  decodeLiteral_writeQuoted .luau v (Or.inl rfl)

example : decodeLuau (writeQuoted [1, 48, 39, 34, 10, 0xff]) = some [1, 48, 39, 34, 10, 0xff] :=
  quoted_roundtrip _

/-- The quoted form is also right by Lua 5.1's rules unless a `\u{…}` escape is needed. -/
theorem quoted_roundtrip_lua51 (v : List UInt8) (H : hasUnicodeEscape v = false) :
    decodeLua51 (writeQuoted v) = some v :=
  decodeLiteral_writeQuoted .lua51 v (Or.inr H)

/-- Lua 5.1 reads the literal back as `v` when no `\u{…}` is emitted, the value is outside
the F14 region, and the level-0 long-bracket form does not contain `[[` (which stock
Lua 5.1 rejects as "nesting of [[...]] is deprecated"). `lua51Safe` is decidable. -/
theorem lua51_roundtrip (v : List UInt8) (H : lua51Safe v = true) :
    decodeLua51 (writeString v) = some v := by
  simp only [lua51Safe, Bool.and_eq_true, Bool.not_eq_true'] at H
  obtain ⟨⟨hu, hs⟩, hn⟩ := H
  refine decodeLiteral_writeString .lua51 v (Or.inr hu) hs ?_
  intro _ huse hlvl
  rw [hasNestedOpen_eq]
  simpa [nestedOpen51, huse, hlvl] using hn

example : lua51Safe [27, 48, 39, 34, 92, 0xff] = true := by
  have h1 : wantsLongBracket [27, 48, 39, 34, 92, 0xff] = false := by decide
  have h2 : hasUnicodeEscape [27, 48, 39, 34, 92, 0xff] = false := by
    cases h : hasUnicodeEscape [27, 48, 39, 34, 92, 0xff] with
    | false => rfl
    | true =>
      -- `0xff` is not valid UTF-8, so `write_quoted` is on its byte path
      simp only [hasUnicodeEscape] at h
      split at h
      · rename_i cs hf
        have := fromUtf8_eq_some hf
        have hm : (0xff : UInt8) ∈ cs.flatMap String.utf8EncodeChar := by rw [this]; simp
        obtain ⟨ch, _, hch⟩ := List.mem_flatMap.mp hm
        exact absurd hch (by
          intro hmem
          have hv := ch.valid
          have hv' : ch.toNat < 0xd800 ∨ (0xdfff < ch.toNat ∧ ch.toNat < 0x110000) := hv
          have e : ch.val.toNat = ch.toNat := rfl
          unfold String.utf8EncodeChar at hmem
          simp only [e] at hmem
          generalize ch.toNat = n at *
          split at hmem
          · simp at hmem; have := congrArg UInt8.toNat hmem; simp at this; omega
          · split at hmem
            · simp at hmem
              rcases hmem with h | h <;> (have := congrArg UInt8.toNat h; simp at this; omega)
            · split at hmem
              · simp at hmem
                rcases hmem with h | h | h <;> (have := congrArg UInt8.toNat h; simp at this; omega)
              · simp at hmem
                rcases hmem with h | h | h | h <;> (have := congrArg UInt8.toNat h; simp at this; omega))
      · exact absurd h (by decide)
  simp [lua51Safe, h2, straddles, nestedOpen51, usesLongBracket, h1]

/-- Interpolated-string segments: the text `write_interpolated_string_segment` produces,
followed by a segment terminator (`` ` `` or `{`) and anything else, is read back by Luau as
exactly the segment's bytes, stopping at that terminator. -/
theorem interp_segment_roundtrip (v : List UInt8) (t : UInt8) (rest : List UInt8)
    (ht : t = 96 ∨ t = 123) :
    decodeInterpSegment (writeInterpSegment v ++ t :: rest) = some (v, t :: rest) := by
  rw [writeInterpSegment_eq]
  refine decodeBody_writeBytes .luau _ _ ?_ (fun _ h => h) v t rest ?_
  · intro c hc
    have : c = 96 ∨ c = 123 := by simpa using hc
    rcases this with rfl | rfl <;> decide
  · rcases ht with rfl | rfl <;> decide

example : decodeInterpSegment (writeInterpSegment [96, 123, 10, 1, 48] ++ 96 :: []) =
    some ([96, 123, 10, 1, 48], [96]) :=
  interp_segment_roundtrip _ 96 [] (Or.inl rfl)

end DarkluaModel.C13
