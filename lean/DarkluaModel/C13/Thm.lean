import DarkluaModel.C13.Model
import DarkluaModel.C13.Spec
import DarkluaModel.C13.Lemmas
import DarkluaModel.C13.LemmasNum
import DarkluaModel.C13.LemmasGen
/-!
C13 — String and number literals survive generation exactly: the property theorems.

`writeString`, `writeQuoted`, `writeInterpSegment`, … are the model functions the driver
executes (`Model.lean`); `decodeLuau`, `decodeLua51`, `decodeInterpSegment` are the reference
decoders of `Spec.lean` (Luau / Lua 5.1 lexer rules; `some v` iff the text is exactly one
string token denoting `v`).
-/
namespace DarkluaModel.C13
open Spec

/-! ## strings -/

/-- The property at full strength: every byte string survives `write_string` + Luau decoding. -/
def string_roundtrip_full : Prop :=
  ∀ v : List UInt8, decodeLuau (writeString v) = some v

/-- `string_roundtrip`: for EVERY byte string `v`, whatever quoting form `write_string` picks
(single, double, long bracket of any level, with the extra leading line break), the Luau lexer
reads the text as exactly one string token denoting `v`. (Before the fix of F14 in
`write_long_bracket` — the closer is now searched in the value followed by `]` — this held only
outside the "straddling" region.) -/
theorem string_roundtrip (v : List UInt8) : decodeLuau (writeString v) = some v :=
  decodeLiteral_writeString .luau true v (Or.inl rfl) (fun _ h => absurd h (by decide))

theorem string_roundtrip_full_holds : string_roundtrip_full := string_roundtrip

/-- the F14 witness `]]` + 60 × `x` + `]=` (regression) -/
def f14Witness : List UInt8 := [93, 93] ++ List.replicate 60 120 ++ [93, 61]

-- the fixed writer takes the long-bracket form for it, at level 2 (level 1 would straddle) …
example : usesLongBracket f14Witness = true := by
  have h1 : wantsLongBracket f14Witness = true := by decide +kernel
  simp only [usesLongBracket, h1, fromUtf8_of_longContent _ (wantsLongBracket_content _ h1), Bool.and_self]
example : longLevel f14Witness = 2 := by decide +kernel
-- … and the literal reads back
example : decodeLuau (writeString f14Witness) = some f14Witness := string_roundtrip _

-- non-vacuity on the other forms: a long value ending in `]`, and a short one with escapes
def okLongValue : List UInt8 := [93, 93] ++ List.replicate 60 120 ++ [61, 93]
example : usesLongBracket okLongValue = true := by
  have h1 : wantsLongBracket okLongValue = true := by decide +kernel
  simp only [usesLongBracket, h1, fromUtf8_of_longContent _ (wantsLongBracket_content _ h1), Bool.and_self]
example : decodeLuau (writeString [27, 48, 39, 34, 92, 0xc3, 0xa9]) = some [27, 48, 39, 34, 92, 0xc3, 0xa9] :=
  string_roundtrip _

/-- The quoted form is right unconditionally: for every byte string, valid UTF-8 or not,
with every escape (`\a\b\f\n\r\t\v\\`, quote, `\ddd` padded to three digits exactly when a
digit follows, `\u{…}`), both quote choices. -/
theorem quoted_roundtrip (v : List UInt8) : decodeLuau (writeQuoted v) = some v :=
  decodeLiteral_writeQuoted .luau true v (Or.inl rfl)

example : decodeLuau (writeQuoted [1, 48, 39, 34, 10, 0xff]) = some [1, 48, 39, 34, 10, 0xff] :=
  quoted_roundtrip _

/-- The quoted form is also right by Lua 5.1's rules unless a `\u{…}` escape is needed. -/
theorem quoted_roundtrip_lua51 (v : List UInt8) (H : hasUnicodeEscape v = false) :
    decodeLua51 (writeQuoted v) = some v :=
  decodeLiteral_writeQuoted .lua51 true v (Or.inr H)

/-- `lua51_roundtrip`: Lua 5.1 (stock build, `LUA_COMPAT_LSTR = 1` included) reads the literal
back as `v` whenever no `\u{…}` escape is needed — the one exception the property allows.
(Since the fix of F14b a value containing `[[` is never written as a level-0 long string.) -/
theorem lua51_roundtrip (v : List UInt8) (H : lua51Safe v = true) :
    decodeLua51 (writeString v) = some v := by
  have hu : hasUnicodeEscape v = false := by simpa [lua51Safe] using H
  refine decodeLiteral_writeString .lua51 true v (Or.inr hu) ?_
  intro _ _ _ hlvl
  rw [hasNestedOpen_eq]
  cases hc : containsSub [91, 91] v with
  | false => rfl
  | true =>
    have := longLevel_pos_of_nested v hc
    omega

/-- the F14b witness `[[` + 62 × `x` (regression): written at level 1 now -/
def f14bWitness : List UInt8 := [91, 91] ++ List.replicate 62 120
example : longLevel f14bWitness = 1 := by decide +kernel
example : decodeLua51 (writeString f14bWitness) = some f14bWitness :=
  lua51_roundtrip _ (by
    have : hasUnicodeEscape f14bWitness = false := by
      have h := fromUtf8_ascii f14bWitness (by decide +kernel)
      simp only [hasUnicodeEscape, h]
      decide +kernel
    simp [lua51Safe, this])

/-- By the grammar of the Lua 5.1 manual alone (a build without `LUA_COMPAT_LSTR`) the `[[`
restriction disappears: only `\u{…}` remains excluded. So F14b is a defect with respect to the
stock build (and `LUA_COMPAT_LSTR = 2`), not with respect to §2.1. -/
theorem lua51_manual_roundtrip (v : List UInt8) (hu : hasUnicodeEscape v = false) :
    decodeLua51Manual (writeString v) = some v :=
  decodeLiteral_writeString .lua51 false v (Or.inr hu) (fun h => absurd h (by decide))

example : lua51Safe [27, 48, 39, 34, 92, 0xff] = true := by
  have h1 : wantsLongBracket [27, 48, 39, 34, 92, 0xff] = false := by decide
  have h2 : hasUnicodeEscape [27, 48, 39, 34, 92, 0xff] = false := by
    cases h : hasUnicodeEscape [27, 48, 39, 34, 92, 0xff] with
    | false => rfl
    | true =>
      -- `0xff` is not valid UTF-8, so `write_quoted` is on its byte path
      simp only [hasUnicodeEscape] at h
      split at h
      · rename_i cs hf
        have := fromUtf8_eq_some hf
        have hm : (0xff : UInt8) ∈ cs.flatMap String.utf8EncodeChar := by rw [this]; simp
        obtain ⟨ch, _, hch⟩ := List.mem_flatMap.mp hm
        exact absurd hch (by
          intro hmem
          have hv := ch.valid
          have hv' : ch.toNat < 0xd800 ∨ (0xdfff < ch.toNat ∧ ch.toNat < 0x110000) := hv
          have e : ch.val.toNat = ch.toNat := rfl
          unfold String.utf8EncodeChar at hmem
          simp only [e] at hmem
          generalize ch.toNat = n at *
          split at hmem
          · simp at hmem; have := congrArg UInt8.toNat hmem; simp at this; omega
          · split at hmem
            · simp at hmem
              rcases hmem with h | h <;> (have := congrArg UInt8.toNat h; simp at this; omega)
            · split at hmem
              · simp at hmem
                rcases hmem with h | h | h <;> (have := congrArg UInt8.toNat h; simp at this; omega)
              · simp at hmem
                rcases hmem with h | h | h | h <;> (have := congrArg UInt8.toNat h; simp at this; omega))
      · exact absurd h (by decide)
  simp [lua51Safe, h2]

/-- Interpolated-string segments: the text `write_interpolated_string_segment` produces,
followed by a segment terminator (`` ` `` or `{`) and anything else, is read back by Luau as
exactly the segment's bytes, stopping at that terminator. -/
theorem interp_segment_roundtrip (v : List UInt8) (t : UInt8) (rest : List UInt8)
    (ht : t = 96 ∨ t = 123) :
    decodeInterpSegment (writeInterpSegment v ++ t :: rest) = some (v, t :: rest) := by
  rw [writeInterpSegment_eq]
  refine decodeBody_writeBytes .luau _ _ ?_ (fun _ h => h) v t rest ?_
  · intro c hc
    have : c = 96 ∨ c = 123 := by simpa using hc
    rcases this with rfl | rfl <;> decide
  · rcases ht with rfl | rfl <;> decide

example : decodeInterpSegment (writeInterpSegment [96, 123, 10, 1, 48] ++ 96 :: []) =
    some ([96, 123, 10, 1, 48], [96]) :=
  interp_segment_roundtrip _ 96 [] (Or.inl rfl)

/-! ## numbers -/

/-- What the theorems assume about Rust's `f64` formatting and parsing (trusted base; the
executable instance `floatOps` is compared with the real functions on every run):
`{}` / `{:e}` print a finite double so that `parse` reads exactly it back (sign of zero
included), and `==` identifies only equal doubles, apart from the two zeros. -/
structure NumLaws {F : Type} (ops : NumOps F) : Prop where
  parse_fmt : ∀ x, ops.isNaN x = false → ops.isInf x = false → ops.parse (ops.fmt x) = some x
  parse_fmtExp : ∀ u x, ops.isNaN x = false → ops.isInf x = false →
    ops.parse (ops.fmtExp u x) = some x
  eq_sound : ∀ y x, ops.eq y x = true → ops.isZero x = false → y = x

/-- `write_number` on a finite decimal, with or without a recorded exponent (any `i64`, any
case): the text parses back (`str::parse::<f64>`, the same correctly rounded reading Luau's
`strtod` performs) to the same double; for ±0 with a recorded exponent in the accepted
`mantissa e exp` form the guarantee is IEEE equality (the sign of zero in that one form rests
on `float / 10^exp` keeping the sign, which the run-time check covers bit-exactly). -/
theorem number_roundtrip {F : Type} (ops : NumOps F) (laws : NumLaws ops) (x : F)
    (exponent : Option (Int × Bool)) (hn : ops.isNaN x = false) (hi : ops.isInf x = false) :
    ∃ y, ops.parse (writeNumber ops (.decimal x exponent)) = some y ∧
      (y = x ∨ (ops.isZero x = true ∧ ops.eq y x = true)) := by
  have aux : ∀ formatted fallback : List UInt8, ops.parse fallback = some x →
      ∃ y, ops.parse (if (ops.parse formatted).any (ops.eq · x) = true then formatted else fallback)
        = some y ∧ (y = x ∨ (ops.isZero x = true ∧ ops.eq y x = true)) := by
    intro formatted fallback hfb
    split
    · rename_i hcheck
      -- the literal `mantissa e exp` was accepted because it re-parses to an equal double
      rw [Option.any_eq_true] at hcheck
      obtain ⟨y, hy, hyx⟩ := hcheck
      refine ⟨y, hy, ?_⟩
      cases hz : ops.isZero x with
      | false => exact Or.inl (laws.eq_sound y x hyx hz)
      | true => exact Or.inr ⟨rfl, hyx⟩
    · exact ⟨x, hfb, Or.inl rfl⟩
  simp only [writeNumber, hn, hi, Bool.false_eq_true, if_false]
  split
  · exact aux _ _ (laws.parse_fmtExp _ x hn hi)
  · split <;> exact ⟨x, laws.parse_fmt x hn hi, Or.inl rfl⟩

/-- Without a recorded exponent (or one outside `i32`) the round trip is exact, zeros included. -/
theorem number_roundtrip_plain {F : Type} (ops : NumOps F) (laws : NumLaws ops) (x : F)
    (hn : ops.isNaN x = false) (hi : ops.isInf x = false) :
    ops.parse (writeNumber ops (.decimal x none)) = some x := by
  simp only [writeNumber, hn, hi, Bool.false_eq_true, if_false, Option.map_none, Option.bind_none]
  split <;> exact laws.parse_fmt x hn hi

/-- NaN and the infinities are written as the divisions `(0/0)`, `(1/0)`, `(-1/0)` … -/
theorem number_special_text {F : Type} (ops : NumOps F) (x : F) (exponent : Option (Int × Bool)) :
    (ops.isNaN x = true → writeNumber ops (.decimal x exponent) = [40, 48, 47, 48, 41]) ∧
    (ops.isNaN x = false → ops.isInf x = true → ops.signNeg x = false →
      writeNumber ops (.decimal x exponent) = [40, 49, 47, 48, 41]) ∧
    (ops.isNaN x = false → ops.isInf x = true → ops.signNeg x = true →
      writeNumber ops (.decimal x exponent) = [40, 45, 49, 47, 48, 41]) := by
  refine ⟨?_, ?_, ?_⟩
  · intro h; simp only [writeNumber, h, if_true]
  · intro h1 h2 h3; simp only [writeNumber, h1, h2, h3, if_true, Bool.false_eq_true, if_false]; decide
  · intro h1 h2 h3; simp only [writeNumber, h1, h2, h3, if_true, Bool.false_eq_true, if_false]; decide

/-- … which, read as Luau source by the reference evaluator (exact IEEE division), are NaN, +∞, −∞;
and `-0` is negative zero. -/
theorem number_special_value :
    evalWritten [40, 48, 47, 48, 41] = some 0x7ff8000000000000 ∧
    evalWritten [40, 49, 47, 48, 41] = some 0x7ff0000000000000 ∧
    evalWritten [40, 45, 49, 47, 48, 41] = some 0xfff0000000000000 ∧
    evalWritten [45, 48] = some 0x8000000000000000 := by
  decide +kernel

/-- Hexadecimal literals as written (`0x…`/`0X…`, no exponent) are single Luau number tokens
denoting exactly the node's integer. -/
theorem hex_literal_roundtrip {F : Type} (ops : NumOps F) (n : Nat) (hn : n ≤ 18446744073709551615)
    (ux : Bool) : luauNumber? (writeNumber ops (.hex n none ux)) = some (.int n) := by
  simp only [writeNumber, List.append_nil]
  exact luauNumber_hex n hn ux

/-- Binary literals as written (`0b…`/`0B…`) are single Luau number tokens denoting exactly
the node's integer. -/
theorem binary_literal_roundtrip {F : Type} (ops : NumOps F) (n : Nat)
    (hn : n ≤ 18446744073709551615) (ub : Bool) :
    luauNumber? (writeNumber ops (.binary n ub)) = some (.int n) := by
  simp only [writeNumber]
  exact luauNumber_bin n hn ub

example : luauNumber? (writeNumber floatOps (.hex 0xdeadbeef none true)) = some (.int 0xdeadbeef) :=
  hex_literal_roundtrip _ _ (by decide) _

/-- the digit part: on a run of digits valid in the radix the model parser's
`u64::from_str_radix` is the reference lexer's `strtoull` (same acceptance, value, overflow) -/
theorem number_parse_spec_digits (ds : List UInt8) :
    (ds.all (fun c => (hexVal? c).any (· < 16)) = true →
      parseUnsigned 16 18446744073709551615 ds = strtoullAll 16 ds) ∧
    (ds.all (fun c => (hexVal? c).any (· < 2)) = true →
      parseUnsigned 2 18446744073709551615 ds = strtoullAll 2 ds) :=
  number_parse_spec_digits_aux ds

example : ([49, 98, 70, 50, 65] : List UInt8).all (fun c => (hexVal? c).any (· < 16)) = true := by decide

/-- the value a parsed number node carries, against the reference description of the literal -/
def Denotes {F : Type} (ops : NumOps F) : NumLit F → NumDesc → Prop
  | .hex n none _, .int m => n = m
  | .binary n _, .int m => n = m
  | .decimal x _, .dec d e => x = ops.ofDecimal d e
  | _, _ => False

/-- `number_parse_spec`, acceptance and value. For EVERY text the reference Luau lexer
(`Spec.luauNumber?`: one number token; underscores anywhere the lexer allows; `0x`/`0X`,
`0b`/`0B`, decimal with fraction and exponent) reads as a literal:
* hexadecimal / binary: the model of `FromStr` accepts it and yields that integer;
* decimal: unless the exponent text overflows `i64` (decidable `expOverflows`, see
  `number_parse_complete_full_false`) the model accepts it, and the double it stores is the
  correctly rounded `digits × 10^exp` the reference describes (relative to `ParseLaws`: Rust's
  `parse::<f64>` reads the reference decimal grammar with correct rounding). -/
theorem number_parse_spec {F : Type} (ops : NumOps F) (laws : ParseLaws ops) (text : List UInt8)
    (desc : NumDesc) (h : luauNumber? text = some desc)
    (H : expOverflows text = false) :
    ∃ lit, parseNumber ops text = .ok lit ∧ Denotes ops lit desc := by
  cases desc with
  | int n =>
    obtain ⟨up, hp | hp⟩ := parseNumber_int ops h
    · exact ⟨_, hp, rfl⟩
    · exact ⟨_, hp, rfl⟩
  | dec d e =>
    obtain ⟨ex, hp⟩ := parseNumber_dec ops laws h H
    exact ⟨_, hp, rfl⟩

/-- Soundness without any side condition: whenever the model parser accepts a text the
reference lexer reads as a literal, the node carries exactly the reference value. -/
theorem number_parse_sound {F : Type} (ops : NumOps F) (laws : ParseLaws ops) (text : List UInt8)
    (desc : NumDesc) (lit : NumLit F) (h : luauNumber? text = some desc)
    (hp : parseNumber ops text = .ok lit) : Denotes ops lit desc := by
  cases desc with
  | int n =>
    obtain ⟨up, hp' | hp'⟩ := parseNumber_int ops h
    · rw [hp'] at hp; cases hp; rfl
    · rw [hp'] at hp; cases hp; rfl
  | dec d e =>
    obtain ⟨_, hpre, hdec⟩ := luauNumber_dec h
    have hp2 : parseDecBranch ops text = .ok lit := by
      unfold parseNumber at hp; rw [hpre] at hp; exact hp
    obtain ⟨x, ex, rfl, hx⟩ := parseDecBranch_ok ops hp2
    rw [laws.parse_decimal _ _ _ hdec] at hx
    cases hx
    rfl

/-- completeness at full strength: every literal of the grammar is accepted -/
def number_parse_complete_full : Prop :=
  ∀ text : List UInt8, (luauNumber? text).isSome = true →
    ∃ lit, parseNumber floatOps text = .ok lit

/-- `1e99999999999999999999` (Luau: `inf`) -/
def expOverflowWitness : List UInt8 := [49, 101] ++ List.replicate 20 57

/-- The full completeness statement is false of the code: `from_str` parses the exponent text
as an `i64` and gives up when it overflows, although the literal is valid Luau (robustness
observation; no accepted literal gets a wrong value — `number_parse_sound`). -/
theorem number_parse_complete_full_false : ¬ number_parse_complete_full := by
  intro h
  have h1 : (luauNumber? expOverflowWitness).isSome = true := by decide +kernel
  obtain ⟨lit, hl⟩ := h expOverflowWitness h1
  have h2 : (match parseNumber floatOps expOverflowWitness with
      | .error _ => true | .ok _ => false) = true := by decide +kernel
  rw [hl] at h2
  exact absurd h2 (by simp)

example : expOverflows expOverflowWitness = true := by decide +kernel

/-- Rejected spellings are rejected by both: a text shaped like a number token that the
reference lexer does not read as a literal (`1e`, `1e+`, `1.2.3`, `1e5e6`, `0x`, `0b2`,
`0xg`, `12abc`, 2⁶⁴ and above in hex/binary …) is refused by the model parser — except the
hexadecimal floats `0x…p…` (decidable `hexFloatShape`), which `from_str` accepts as Lua 5.2
does and Luau does not. Relative to `RejectLaws` (what Rust's `parse::<f64>` refuses). -/
theorem number_parse_reject {F : Type} (ops : NumOps F) (laws : RejectLaws ops) (text : List UInt8)
    (htok : isNumberToken text = true) (h : luauNumber? text = none)
    (H : hexFloatShape text = false) :
    ∃ err, parseNumber ops text = .error err :=
  parseNumber_reject ops laws htok h H

-- non-vacuity: `10_0.12_e_8` is a literal of the grammar, no overflow
example : luauNumber? [49, 48, 95, 48, 46, 49, 50, 95, 101, 95, 56] = some (.dec 10012 6) ∧
    expOverflows [49, 48, 95, 48, 46, 49, 50, 95, 101, 95, 56] = false := by decide +kernel
-- non-vacuity: `0_x_12` is a hexadecimal literal
example : luauNumber? [48, 95, 120, 95, 49, 50] = some (.int 18) := by decide +kernel
-- non-vacuity: `1e+` is token-shaped and refused by the reference, not a hex float
example : isNumberToken [49, 101, 43] = true ∧ luauNumber? [49, 101, 43] = none ∧
    hexFloatShape [49, 101, 43] = false := by decide +kernel
-- the excluded region is real: `0x12p4` is accepted by the model parser, refused by Luau
example : hexFloatShape [48, 120, 49, 50, 112, 52] = true ∧
    luauNumber? [48, 120, 49, 50, 112, 52] = none ∧
    (match parseNumber floatOps [48, 120, 49, 50, 112, 52] with
      | .ok (.hex 18 (some (4, false)) false) => true | _ => false) = true :=
  ⟨by decide +kernel, by decide +kernel, by decide +kernel⟩

-- non-vacuity of `NumLaws`: a (degenerate) structure satisfying the laws exists, with finite values
example : ∃ (ops : NumOps Nat), NumLaws ops ∧ ops.isNaN 3 = false ∧ ops.isInf 3 = false :=
  ⟨{ isNaN := fun _ => false, isInf := fun _ => false, isZero := fun n => n == 0,
     signNeg := fun _ => false, fractIsZero := fun _ => true, divPow10 := fun x _ => x,
     fmt := fun n => List.replicate n 49, fmtExp := fun _ n => List.replicate n 49,
     parse := fun s => some s.length, ofDecimal := fun d _ => d, eq := fun a b => a == b },
   ⟨by intro x _ _; simp, by intro _ x _ _; simp, by intro y x h _; simpa using h⟩, rfl, rfl⟩

/-! ## `From<f64> for Expression` -/

/-- the value of a tree `Expression::from(f64)` builds: a decimal node denotes the double it
carries (what `write_number` writes for it reads back as that double: `number_roundtrip`, for
every recorded exponent); `neg`/`div` are Lua's unary minus and `/` on doubles -/
def denote {F : Type} (neg : F → F) (div : F → F → F) : NumExpr F → Option F
  | .lit (.decimal x _) => some x
  | .lit _ => none
  | .neg e => (denote neg div e).map neg
  | .div a b => match denote neg div a, denote neg div b with
    | some x, some y => some (div x y)
    | _, _ => none

/-- IEEE facts the tree construction relies on (`neg`, `div` are Lua's operators) -/
structure FromLaws {F : Type} (ops : FromOps F) (neg : F → F) (div : F → F → F) : Prop where
  nan_div : ops.isNaN (div ops.posZero ops.posZero) = true
  inf_pos : ∀ x, ops.isNaN x = false → ops.isInf x = true → ops.signNeg x = false →
    div ops.one ops.posZero = x
  inf_neg : ∀ x, ops.isNaN x = false → ops.isInf x = true → ops.signNeg x = true →
    div (neg ops.one) ops.posZero = x
  zero_pos : ∀ x, ops.isNaN x = false → ops.isInf x = false → ops.isZero x = true →
    ops.signNeg x = false → ops.posZero = x
  zero_neg : ∀ x, ops.isNaN x = false → ops.isInf x = false → ops.isZero x = true →
    ops.signNeg x = true → ops.negZero = x
  neg_abs : ∀ x, ops.ltZero x = true → neg (ops.abs x) = x

theorem fromPositive_value {F : Type} (ops : FromOps F) (x : F) :
    ∃ ex, fromPositive ops x = .decimal x ex := by
  unfold fromPositive
  split
  · exact ⟨_, rfl⟩
  · split
    · exact ⟨_, rfl⟩
    · exact ⟨_, rfl⟩

/-- The tree `Expression::from(x)` builds denotes `x` itself (a NaN for a NaN), whatever the
exponent the `log10`/`powf` computation records: the exponent only selects the spelling, and
every spelling reads back as the carried double (`number_roundtrip`). -/
theorem from_f64_denotes {F : Type} (ops : FromOps F) (neg : F → F) (div : F → F → F)
    (laws : FromLaws ops neg div) (x : F) :
    ∃ y, denote neg div (fromF64 ops x) = some y ∧
      (if ops.isNaN x then ops.isNaN y = true else y = x) := by
  unfold fromF64
  cases hn : ops.isNaN x with
  | true => exact ⟨_, rfl, by simpa using laws.nan_div⟩
  | false =>
    simp only [Bool.false_eq_true, if_false]
    cases hi : ops.isInf x with
    | true =>
      simp only [if_true]
      cases hs : ops.signNeg x with
      | true => exact ⟨_, rfl, laws.inf_neg x hn hi hs⟩
      | false => exact ⟨_, rfl, laws.inf_pos x hn hi hs⟩
    | false =>
      simp only [Bool.false_eq_true, if_false]
      cases hz : ops.isZero x with
      | true =>
        simp only [if_true]
        cases hs : ops.signNeg x with
        | true => exact ⟨_, rfl, laws.zero_neg x hn hi hz hs⟩
        | false => exact ⟨_, rfl, laws.zero_pos x hn hi hz hs⟩
      | false =>
        simp only [Bool.false_eq_true, if_false]
        cases hl : ops.ltZero x with
        | true =>
          simp only [if_true]
          obtain ⟨ex, he⟩ := fromPositive_value ops (ops.abs x)
          rw [he]
          exact ⟨_, rfl, laws.neg_abs x hl⟩
        | false =>
          simp only [Bool.false_eq_true, if_false]
          obtain ⟨ex, he⟩ := fromPositive_value ops x
          rw [he]
          exact ⟨_, rfl, rfl⟩

-- non-vacuity: the laws are satisfiable (integers with a NaN/±inf/±0 encoding)
example : ∃ (ops : FromOps Int) (neg : Int → Int) (div : Int → Int → Int),
    FromLaws ops neg div ∧ ops.isNaN 5 = false ∧ ops.ltZero (-5) = true :=
  ⟨{ isNaN := fun x => x == 7777, isInf := fun _ => false, isZero := fun x => x == 0,
     signNeg := fun _ => false, posZero := 0, negZero := 0, one := 1, ltZero := fun x => x < 0,
     abs := fun x => x.natAbs, ltTenth := fun _ => false, gt999 := fun x => x > 999,
     div100FractZero := fun x => x % 100 == 0, log10Floor := fun _ => 3, powf10 := fun _ => 1000,
     div10 := fun x => x / 10, divFractNonZero := fun v p => v % p != 0 },
   fun x => -x, fun a b => if a = 0 ∧ b = 0 then 7777 else a / b,
   ⟨by simp, by intro x _ h; simp at h, by intro x _ h; simp at h,
    by intro x _ _ h _; simp at h; exact h.symm, by intro x _ _ _ h; simp at h,
    by intro x h; have hx : x < 0 := by simpa using h
       show -((x.natAbs : Nat) : Int) = x; omega⟩, by decide, by decide⟩

/-! ## the generators' own entry points

The theorems above are about the shared helpers of `generator/utils.rs`. What a generator
actually emits is decided by its own `write_number` / `write_string` /
`write_interpolated_string`; these theorems lift the round trips to those entry points
(`Model.denseWriteNumber`, `readableWriteNumber`, `tokenBasedWriteNumber`,
`generatorWriteString`, `writeInterpolatedString`), which the run-time tie compares with the
three real generators. -/

/-- every generator writes, for every number node, exactly the text of `utils::write_number`
(the dense generator through its own NaN / infinity / hexadecimal / binary arms) -/
theorem generator_number_text {F : Type} (ops : NumOps F) (g : Gen) (lit : NumLit F) :
    genWriteNumber ops g lit = writeNumber ops lit :=
  genWriteNumber_eq ops g lit

/-- `number_roundtrip` at each generator's `write_number` -/
theorem generator_number_roundtrip {F : Type} (ops : NumOps F) (laws : NumLaws ops) (g : Gen) (x : F)
    (exponent : Option (Int × Bool)) (hn : ops.isNaN x = false) (hi : ops.isInf x = false) :
    ∃ y, ops.parse (genWriteNumber ops g (.decimal x exponent)) = some y ∧
      (y = x ∨ (ops.isZero x = true ∧ ops.eq y x = true)) := by
  rw [generator_number_text]
  exact number_roundtrip ops laws x exponent hn hi

/-- NaN and the infinities at each generator's `write_number` -/
theorem generator_number_special {F : Type} (ops : NumOps F) (g : Gen) (x : F)
    (exponent : Option (Int × Bool)) :
    (ops.isNaN x = true → genWriteNumber ops g (.decimal x exponent) = [40, 48, 47, 48, 41]) ∧
    (ops.isNaN x = false → ops.isInf x = true → ops.signNeg x = false →
      genWriteNumber ops g (.decimal x exponent) = [40, 49, 47, 48, 41]) ∧
    (ops.isNaN x = false → ops.isInf x = true → ops.signNeg x = true →
      genWriteNumber ops g (.decimal x exponent) = [40, 45, 49, 47, 48, 41]) := by
  rw [generator_number_text]
  exact number_special_text ops x exponent

/-- hexadecimal and binary nodes at each generator's `write_number` -/
theorem generator_integer_literal_roundtrip {F : Type} (ops : NumOps F) (g : Gen) (n : Nat)
    (hn : n ≤ 18446744073709551615) (up : Bool) :
    luauNumber? (genWriteNumber ops g (.hex n none up)) = some (.int n) ∧
    luauNumber? (genWriteNumber ops g (.binary n up)) = some (.int n) := by
  rw [generator_number_text, generator_number_text]
  exact ⟨hex_literal_roundtrip ops n hn up, binary_literal_roundtrip ops n hn up⟩

example : genWriteNumber floatOps .dense (.decimal 0x7ff8000000000000 none) = [40, 48, 47, 48, 41] :=
  (generator_number_special floatOps .dense _ none).1 (by decide +kernel)

/-- `string_roundtrip` at the generators' `write_string`: after the blank that may precede it,
the text is one Luau string token denoting `v`; and a long-bracket literal is never glued to a
preceding `[` (`t[ [[x]] ]`), which would open a different long bracket. -/
theorem generator_string_roundtrip (lastPush v : List UInt8) :
    decodeLuau ((generatorWriteString lastPush v).dropWhile (· == 32)) = some v ∧
    (lastPush.getLast? = some 91 → (generatorWriteString lastPush v).head? ≠ some 91) := by
  obtain ⟨c, t, hw, hc⟩ := writeString_head v
  have hc32 : (c == 32) = false := by rcases hc with rfl | rfl | rfl <;> decide
  have hdrop : (writeString v).dropWhile (· == 32) = writeString v := by
    rw [hw]; simp [List.dropWhile, hc32]
  unfold generatorWriteString
  simp only
  by_cases h91 : (writeString v).head? = some 91
  · simp only [h91, beq_self_eq_true, if_true]
    by_cases hl : lastPush.getLast? = some 91
    · simp only [hl, beq_self_eq_true, if_true]
      refine ⟨?_, fun _ => by simp⟩
      have : ([32] ++ writeString v).dropWhile (· == 32) = (writeString v).dropWhile (· == 32) := by
        simp [List.dropWhile]
      rw [this, hdrop]; exact string_roundtrip v
    · have hl' : (lastPush.getLast? == some 91) = false := by simpa using hl
      simp only [hl', Bool.false_eq_true, if_false, List.nil_append]
      rw [hdrop]
      exact ⟨string_roundtrip v, fun h => absurd h hl⟩
  · have h91' : ((writeString v).head? == some 91) = false := by simpa using h91
    simp only [h91', Bool.false_eq_true, if_false]
    rw [hdrop]
    exact ⟨string_roundtrip v, fun _ => h91⟩

example : (generatorWriteString [116, 91] okLongValue).head? ≠ some 91 :=
  (generator_string_roundtrip [116, 91] okLongValue).2 (by decide)

/-- Whole interpolated strings as every generator writes them (backtick, literal pieces through
`write_interpolated_string_segment`, `{` expression `}`, backtick) are read back by the Luau
rules as the same pieces — for part lists as the parser produces them (no empty literal piece,
no two literal pieces in a row) and expression texts without braces. -/
theorem interpolated_string_roundtrip (parts : List InterpPart) (hwf : wfParts parts) :
    decodeInterpString (writeInterpolatedString parts) = some (parts.map toPiece) := by
  have hlen : parts.length + 1 ≤ (bodyOf parts ++ [96]).length + 1 := by
    have := bodyOf_length parts hwf
    simp; omega
  have e : writeInterpolatedString parts = 96 :: (bodyOf parts ++ [96]) := by
    simp [writeInterpolatedString, bodyOf]
  rw [e]
  exact interpLoop_parts parts.length parts rfl hwf _ hlen

example : decodeInterpString (writeInterpolatedString [.str [97, 96, 123], .val [120], .str [10]]) =
    some [.str [97, 96, 123], .val [120], .str [10]] :=
  interpolated_string_roundtrip _ (by simp [wfParts])

end DarkluaModel.C13
