/-
C13 — IEEE-754 binary64 ground truth in exact integer arithmetic (core only):
* `roundRat num den`  : the bit pattern of the nonnegative rational `num/den` rounded to nearest,
                        ties to even (what a correctly rounding `strtod` / Rust `parse::<f64>` returns)
* `decode bits`       : sign, integer significand and binary exponent of a finite double
* `shortestDigits`    : the shortest decimal digit string that reads back as the same double
                        (free-format algorithm of Steele–White / Burger–Dybvig; Rust's
                        `flt2dec::strategy::dragon::format_shortest` is the same algorithm)
Used by the executable `NumOps` instance of the model and by the reference `numberValue`.
-/
namespace DarkluaModel.C13.Ieee

/-- `(q, rem, divisor)` with `num / (den * 2^e) = q + rem / divisor` -/
def scaled (num den : Nat) (e : Int) : Nat × Nat × Nat :=
  if e ≥ 0 then
    let d := den * 2 ^ e.toNat
    (num / d, num % d, d)
  else
    let n := num * 2 ^ (-e).toNat
    (n / den, n % den, den)

/-- adjust `e` until the quotient has exactly 53 bits -/
def normExp (num den : Nat) : Nat → Int → Int
  | 0, e => e
  | fuel + 1, e =>
    let q := (scaled num den e).1
    if q ≥ 2 ^ 53 then normExp num den fuel (e + 1)
    else if q < 2 ^ 52 then normExp num den fuel (e - 1)
    else e

def posInfBits : UInt64 := 0x7ff0000000000000

/-- bits of `num/den ≥ 0` rounded to nearest-even; `den > 0` -/
def roundRat (num den : Nat) : UInt64 :=
  if num == 0 || den == 0 then 0
  else
    let e0 : Int := (num.log2 : Int) - (den.log2 : Int) - 52
    let e1 := normExp num den 6 e0
    let e := if e1 < -1074 then -1074 else e1
    let (q, rem, d) := scaled num den e
    -- round to nearest, ties to even
    let q := if 2 * rem > d || (2 * rem == d && q % 2 == 1) then q + 1 else q
    let (q, e) := if q ≥ 2 ^ 53 then (q / 2, e + 1) else (q, e)
    if q < 2 ^ 52 then UInt64.ofNat q          -- subnormal (or zero)
    else if e + 1075 ≥ 2047 then posInfBits
    else UInt64.ofNat ((e + 1075).toNat * 2 ^ 52 + (q - 2 ^ 52))

def signBit (bits : UInt64) : Bool := bits.toNat ≥ 2 ^ 63
def expField (bits : UInt64) : Nat := bits.toNat / 2 ^ 52 % 2048
def fracField (bits : UInt64) : Nat := bits.toNat % 2 ^ 52
def isNaNBits (bits : UInt64) : Bool := expField bits == 2047 && fracField bits != 0
def isInfBits (bits : UInt64) : Bool := expField bits == 2047 && fracField bits == 0
def isZeroBits (bits : UInt64) : Bool := bits.toNat % 2 ^ 63 == 0

/-- finite `|x| = m * 2^e` -/
def decode (bits : UInt64) : Nat × Int :=
  if expField bits == 0 then (fracField bits, -1074)
  else (fracField bits + 2 ^ 52, (expField bits : Int) - 1075)

/-- bits of `±(num/den)` -/
def ofRat (neg : Bool) (num den : Nat) : UInt64 :=
  let b := roundRat num den
  if neg then UInt64.ofNat (b.toNat + 2 ^ 63) else b

/-- bits of `± digits * 10^exp10` -/
def ofDecimal (neg : Bool) (digits : Nat) (exp10 : Int) : UInt64 :=
  -- `digits < 2^(log2 digits + 1) ≤ 10^(log2 digits / 3 + 1)`: far outside the range of
  -- binary64 the result is ±inf / ±0 whatever the digits are (keeps the powers small)
  let lenBound : Int := (digits.log2 / 3 + 1 : Nat)
  if digits == 0 then ofRat neg 0 1
  else if exp10 > 310 then ofRat neg (10 ^ 310) 1
  else if exp10 + lenBound < -330 then ofRat neg 0 1
  else if exp10 ≥ 0 then ofRat neg (digits * 10 ^ exp10.toNat) 1
  else ofRat neg digits (10 ^ (-exp10).toNat)

/-- the exact value of finite bits as a rational `(neg, num, den)` -/
def toRat (bits : UInt64) : Bool × Nat × Nat :=
  let (m, e) := decode bits
  if e ≥ 0 then (signBit bits, m * 2 ^ e.toNat, 1) else (signBit bits, m, 2 ^ (-e).toNat)

/-! ### shortest digits (Burger–Dybvig free-format; finite, non-zero input) -/

/-- digit generation; returns digits most significant first -/
def genDigits (even : Bool) : Nat → Nat → Nat → Nat → Nat → List Nat → List Nat
  | 0, _, _, _, _, acc => acc.reverse
  | fuel + 1, r, s, mp, mm, acc =>
    let d := r * 10 / s
    let r := r * 10 % s
    let mp := mp * 10
    let mm := mm * 10
    let tc1 := if even then r ≤ mm else r < mm
    let tc2 := if even then r + mp ≥ s else r + mp > s
    if !tc1 && !tc2 then genDigits even fuel r s mp mm (d :: acc)
    else if tc1 && !tc2 then (d :: acc).reverse
    else if !tc1 && tc2 then ((d + 1) :: acc).reverse
    else if r * 2 < s then (d :: acc).reverse
    else ((d + 1) :: acc).reverse

/-- find `k` with `10^(k-1) ≤ (r + m⁺)/s < 10^k` (high end inclusive/exclusive per parity) -/
def fixup (even : Bool) : Nat → Nat → Nat → Nat → Nat → Int → (Nat × Nat × Nat × Nat × Int)
  | 0, r, s, mp, mm, k => (r, s, mp, mm, k)
  | fuel + 1, r, s, mp, mm, k =>
    let tooBig := if even then r + mp ≥ s else r + mp > s
    if tooBig then fixup even fuel r (s * 10) mp mm (k + 1)
    else
      let tooSmall := if even then (r + mp) * 10 < s else (r + mp) * 10 ≤ s
      if tooSmall then fixup even fuel (r * 10) s (mp * 10) (mm * 10) (k - 1)
      else (r, s, mp, mm, k)

/-- `(digits, k)`: the value is `0.d₁d₂… × 10^k` -/
def shortestDigits (bits : UInt64) : List Nat × Int :=
  let (f, e) := decode bits
  let even := f % 2 == 0
  let boundary := f == 2 ^ 52 && expField bits > 1
  let (r, s, mp, mm) : Nat × Nat × Nat × Nat :=
    if e ≥ 0 then
      let be := 2 ^ e.toNat
      if !boundary then (f * be * 2, 2, be, be) else (f * be * 4, 4, be * 2, be)
    else
      if !boundary then (f * 2, 2 ^ (-e).toNat * 2, 1, 1) else (f * 4, 2 ^ (-e).toNat * 4, 2, 1)
  -- a first estimate of k from the binary exponent keeps `fixup` short
  let est : Int := ((f.log2 : Int) + e) * 30103 / 100000
  let (r, s, mp, mm) :=
    if est ≥ 0 then (r, s * 10 ^ est.toNat, mp, mm)
    else (r * 10 ^ (-est).toNat, s, mp * 10 ^ (-est).toNat, mm * 10 ^ (-est).toNat)
  let (r, s, mp, mm, k) := fixup even 8 r s mp mm est
  (genDigits even 800 r s mp mm [], k)

end DarkluaModel.C13.Ieee
