import DarkluaModel.Rules.GroupLocal
import DarkluaModel.Rules.NoLocalFunction
import DarkluaModel.Rules.FunctionToAssign
import DarkluaModel.Rules.RemoveMethodCall
import DarkluaModel.Rules.ConvertSquareRootCall
import DarkluaModel.C16.Whole
import DarkluaModel.C16.GroupWhole
import DarkluaModel.Shared.Driver
import DarkluaModel.Rules.FunctionToAssignHeapV
/-!
# C16 — the optional refactoring rules preserve program behaviour: property theorems

Reference semantics: `Shared/Sem.lean` (all number systems `N`, external-call oracles `ρ`, call
handlers `call`, fuel `k`, environments, states). Rule models: `Rules/{GroupLocal, NoLocalFunction,
FunctionToAssign, RemoveMethodCall, ConvertSquareRootCall}.lean` — the same definitions the driver
executes (`c16.rule`) and the harness compares with the real `Rule::process` on every run.

Every statement is about the HOOK of the rule at one node, in every context: exact equality of
denotations (control outcome, values, whole state, trace). Where exact equality is false the
reason is stated and is one of: (D) a defect of the rule (`_full_false` + `_partial` under a
hypothesis); (A) only allocation order / captured-environment contents differ, unobservably —
then the theorem states exactly which part of the state differs.

WHOLE-RULE theorems (observable outcome `Sem.runProgram`, all number systems / levels):
`rule_refines_group_local_assignment` — EVERY program (stage 4 unified, `Shared/VisitorSoundHeapU.lean`: the cells
of the first declaration are pinned on the original's side and matched late with the cells the merged
declaration allocates, `C16/GroupLocalU.lean`, `C16/GroupWhole.lean`); `function_to_assign_rule_refines` — EVERY
program (stage 4, closure renumbering); `local_function_rule_refines` — every program in which no local function
is its own parameter (stage 3 + the guarded congruence family of `C16/Guard.lean`). The first two need the oracle
of external functions to return no heap references (`OracleFlat`), which the harness oracle satisfies
(`…_driver` variants have no hypothesis). Not lifted: `remove_method_call` (C16-F2; its literal-receiver part
would need a hypothesis "no method call on an identifier", which excludes essentially every program),
`convert_square_root_call` (C16-F3). For those the whole-rule claim is carried by the oracle.
-/
namespace DarkluaModel.C16
open Sem Rules

/-! ## group_local_assignment -/

/-! F17 (`local a = f(), g()` merged with the next `local`, shifting values) is FIXED in /repo
(`should_merge` now refuses a first statement whose value count differs from its variable count);
the model follows the fixed code, and `H₁₆` is no longer a hypothesis on programs: it is implied by
the rule's own decision (`GroupLocal.shouldMerge_h16`). What remains hypothetical below is only the
allocation-order / captured-environment part (A), see `Rules/GroupLocal.lean`. -/

-- regression: the former F17 witness is now left alone by the hook
example : (GroupLocal.processBlock GroupLocal.f17Witness ()).1 = GroupLocal.f17Witness :=
  GroupLocal.f17_rule_output
example : GroupLocal.shouldMerge [.mk "a" none] [.nil, .true] [.false] = false := by decide

/-- `group_refines_partial` — one merge step of the rule's loop, both statements with values.
Whenever the rule decides to merge (`shouldMerge = true`) the two statements and the merged one are exactly equal (success path), given that evaluating the second initialisers
before the first variables are bound yields the same values as after and commutes with binding
them (`hframe`, `hcomm`: the semantic content of `should_merge`'s `FindVariables` check — see
`Rules/GroupLocal.lean` for why this part is a hypothesis). Order of evaluation and multi-value
truncation are proved unconditionally inside. -/
theorem group_refines_partial {N : NumOps} (call : CallFn N) (ρ : ExtOracle N) (k : Nat) (env : Env N)
    (k1 k2 : LocalKind) (ns1 ns2 : List TName) (vs1 vs2 : List Expr) (rest : List Stmt)
    (σ σ1 σ2 σ2' : State N) (ws1 ws2 : List (Val N))
    (hS : GroupLocal.shouldMerge ns1 vs1 vs2 = true) (hv1 : vs1 ≠ []) (hv2 : vs2 ≠ [])
    (h1 : evalEs call ρ k env vs1 σ = .ok ws1 σ1)
    (h2 : evalEs call ρ k ⟨(bindLocals (GroupLocal.names ns1) ws1 env.locals σ1).1, env.varargs⟩ vs2
            (bindLocals (GroupLocal.names ns1) ws1 env.locals σ1).2 = .ok ws2 σ2')
    (hframe : evalEs call ρ k env vs2 σ1 = .ok ws2 σ2)
    (hcomm : bindLocals (GroupLocal.names ns1) ws1 env.locals σ2
      = ((bindLocals (GroupLocal.names ns1) ws1 env.locals σ1).1, σ2')) :
    execSs call ρ k env (.localAssign k1 ns1 vs1 :: .localAssign k2 ns2 vs2 :: rest) σ
      = execSs call ρ k env
          (.localAssign k1 (GroupLocal.merge ns1 vs1 ns2 vs2).1 (GroupLocal.merge ns1 vs1 ns2 vs2).2 :: rest) σ :=
  GroupLocal.merge_exact call ρ k env k1 k2 ns1 ns2 vs1 vs2 rest σ σ1 σ2 σ2' ws1 ws2
    (GroupLocal.shouldMerge_h16 ns1 vs1 vs2 hS) hv1 hv2 h1 h2 hframe hcomm

-- non-vacuity: `local a = true  local b = g` (g a global): all hypotheses hold, and the rule does merge
example (σ : State unitOps) :
    execSs (fun _ _ _ => .timeout) (fun _ _ _ => []) 1 ⟨[], []⟩
        [.localAssign .loc [.mk "a" none] [.true], .localAssign .loc [.mk "b" none] [.var "g"]] σ
      = execSs (fun _ _ _ => .timeout) (fun _ _ _ => []) 1 ⟨[], []⟩
        [.localAssign .loc [.mk "a" none, .mk "b" none] [.true, .var "g"]] σ :=
  group_refines_partial _ _ 1 ⟨[], []⟩ .loc .loc [.mk "a" none] [.mk "b" none] [.true] [.var "g"] [] σ σ σ
    { σ with cells := σ.cells ++ [.bool true] } [.bool true] [σ.getGlobal "g"]
    (by decide) (by simp) (by simp)
    (by simp [evalEs, evalE])
    (by simp [evalEs, evalE, lookupVar, lookupAssoc, GroupLocal.names, bindLocals, TName.name, State.allocCell,
          State.getGlobal, first])
    (by simp [evalEs, evalE, lookupVar, lookupAssoc])
    (by simp [GroupLocal.names, bindLocals, TName.name, State.allocCell, first])
example : GroupLocal.filterStatements
    [.localAssign .loc [.mk "a" none] [.true], .localAssign .loc [.mk "b" none] [.var "g"]]
      = [.localAssign .loc [.mk "a" none, .mk "b" none] [.true, .var "g"]] := by
  simp [GroupLocal.filterStatements, GroupLocal.go, GroupLocal.shouldMerge, GroupLocal.merge,
    FindVariables.mEs, FindVariables.mE, TName.name]
-- a later initialiser that reads an earlier name blocks the merge
example : GroupLocal.shouldMerge [.mk "a" none] [.true] [.fn (.mk [] false none none [] [] (.mk [] (some (.ret [.var "a"]))))]
    = false := by
  simp [GroupLocal.shouldMerge, FindVariables.mEs, FindVariables.mE, FindVariables.mFn, FindVariables.mB,
    FindVariables.mSs, FindVariables.mLast, FindVariables.mTNames, FindVariables.mTyOpt, TName.name]

/-- `group_refines_partial`, second statement without values (`local a = f()  local b, c`): the merged
statement pads with `nil`s; exact with NO visibility hypothesis (nothing is evaluated after the
first statement). -/
theorem group_refines_partial_second_empty {N : NumOps} (call : CallFn N) (ρ : ExtOracle N) (k : Nat) (env : Env N)
    (k1 k2 : LocalKind) (ns1 ns2 : List TName) (vs1 : List Expr) (rest : List Stmt) (σ σ1 : State N)
    (ws1 : List (Val N)) (hS : GroupLocal.shouldMerge ns1 vs1 [] = true) (hv1 : vs1 ≠ []) (hn2 : ns2 ≠ [])
    (h1 : evalEs call ρ k env vs1 σ = .ok ws1 σ1) :
    execSs call ρ k env (.localAssign k1 ns1 vs1 :: .localAssign k2 ns2 [] :: rest) σ
      = execSs call ρ k env
          (.localAssign k1 (GroupLocal.merge ns1 vs1 ns2 []).1 (GroupLocal.merge ns1 vs1 ns2 []).2 :: rest) σ :=
  GroupLocal.merge_exact_second_empty call ρ k env k1 k2 ns1 ns2 vs1 rest σ σ1 ws1
    (GroupLocal.shouldMerge_h16 ns1 vs1 [] hS) hv1 hn2 h1

example : GroupLocal.merge [.mk "a" none] [.true] [.mk "b" none, .mk "c" none] []
    = ([.mk "a" none, .mk "b" none, .mk "c" none], [.true, .nil, .nil]) := by
  simp [GroupLocal.merge, GroupLocal.nils]

/-- **`rule_refines_group_local_assignment` (whole rule, EVERY program, full statement).** The modelled rule
(`Rules.GroupLocal.apply`: one `DefaultVisitor` pass merging consecutive `local` declarations wherever the real
`should_merge` says so) preserves the observable outcome — returned / raised values and the trace of external
calls — of every program, at every call level and number system; only hypothesis: the oracle of external
functions returns no table / closure references. Each merge is a generic `HeapU` leaf (`GroupU.merge_leaf`): the
second initialisers do not reference the first names (`FindVariables`, through `C16/RefsMentionsL.lean`), so they
evaluate to related values whether the first cells exist already (original: pinned, private) or not yet
(output); the pinned cells are then matched with the cells the merged declaration allocates
(`SRel.matchCellRight`). All value-count cases of `merge` (nil padding on either side, multi-value last
initialiser truncated) are covered. This supersedes the per-hook `group_refines_partial` statements, which are
kept (they are exact equalities, under semantic hypotheses). -/
theorem rule_refines_group_local_assignment (b : Block) {N : NumOps} (ρ : ExtOracle N)
    (hρ : Sem.HeapU.OracleFlat ρ) (n : Nat) (externs : List String) :
    runProgram ρ n externs (GroupLocal.apply b) = runProgram ρ n externs b :=
  GroupU.apply_refines b ρ hρ n externs

/-- at the oracle the harness executes: no hypothesis -/
theorem rule_refines_group_local_assignment_driver (b : Block) (n : Nat) (externs : List String) :
    runProgram Shared.driverOracle n externs (GroupLocal.apply b) = runProgram Shared.driverOracle n externs b :=
  rule_refines_group_local_assignment b Shared.driverOracle Sem.HeapU.driverOracle_flat n externs

/-- non-vacuity: `local a = get1()  local f = function() return 1 end  local c, d  local e = a  return e` —
three merges into `local a, f, c, d = get1(), function…, nil, nil`; `local e = a` mentions `a` and stays -/
def glSample : Block :=
  .mk [.localAssign .loc [.mk "a" none] [.call (.var "get1") none .tuple []],
       .localAssign .loc [.mk "f" none] [.fn (.mk [] false none none [] [] (.mk [] (some (.ret [.true]))))],
       .localAssign .loc [.mk "c" none, .mk "d" none] [],
       .localAssign .loc [.mk "e" none] [.var "a"]] (some (.ret [.var "e"]))
example : GroupLocal.apply glSample =
    .mk [.localAssign .loc [.mk "a" none, .mk "f" none, .mk "c" none, .mk "d" none]
           [.call (.var "get1") none .tuple [], .fn (.mk [] false none none [] [] (.mk [] (some (.ret [.true])))),
            .nil, .nil],
         .localAssign .loc [.mk "e" none] [.var "a"]] (some (.ret [.var "e"])) := by
  rfl

/-! ## convert_local_function_to_assign -/

/-- `local_function_refines` (A). When the hook converts (`converts`: `f` is its own parameter, or
`FindVariables(f)` is silent on the body), `local function f … end` and `local f = function … end`
give the same control outcome and the same state EXCEPT the one new closure: the original captures
`(f, cell) :: locals`, the converted one `locals` (and carries the annotation-erased body). -/
theorem local_function_refines {N : NumOps} (call : CallFn N) (ρ : ExtOracle N) (k : Nat) (env : Env N)
    (kind : LocalKind) (f : String) (body : FnBody) (σ : State N)
    (hc : NoLocalFunction.converts f body = true) :
    let c := σ.cells.length
    let env' : Env N := ⟨(f, c) :: env.locals, env.varargs⟩
    let cells' := σ.cells ++ [Val.fn σ.closures.length]
    execS call ρ k env (.localFn kind f body) σ =
        .ok (.next env') { σ with cells := cells', closures := σ.closures ++ [⟨body, (f, c) :: env.locals, []⟩] } ∧
    execS call ρ k env (NoLocalFunction.processStatement (.localFn kind f body) ()).1 σ =
        .ok (.next env') { σ with cells := cells', closures := σ.closures ++ [⟨erase body, env.locals, []⟩] } :=
  NoLocalFunction.processStatement_step call ρ k env kind f body σ hc

/-- … and a call of either closure resolves every name identically after binding the parameters,
except `f` itself when it is not a parameter — which `converts` says the body never mentions.
The erased annotations are never read by a call (`callClosure_erase`). -/
theorem local_function_lookups_agree {N : NumOps} (names : List String) (args : List (Val N)) (f : String) (c : Nat)
    (locals : List (String × Nat)) (σ : State N) :
    (bindLocals names args ((f, c) :: locals) σ).2 = (bindLocals names args locals σ).2 ∧
    ∀ x, (x ≠ f ∨ x ∈ names) →
      lookupAssoc x (bindLocals names args ((f, c) :: locals) σ).1 = lookupAssoc x (bindLocals names args locals σ).1 :=
  NoLocalFunction.call_locals_agree names args f c locals σ

theorem local_function_annotations_unread {N : NumOps} (ρ : ExtOracle N) (n : Nat) (b : FnBody)
    (env : List (String × Nat)) (va args : List (Val N)) (σ : State N) :
    callClosure ρ n ⟨erase b, env, va⟩ args σ = callClosure ρ n ⟨b, env, va⟩ args σ :=
  callClosure_erase ρ n b env va args σ

-- non-vacuity: a non-recursive function is converted, a recursive one is not, an own-parameter one is
example : NoLocalFunction.converts "f" (.mk [.mk "x" none] false none none [] [] (.mk [] (some (.ret [.var "x"])))) = true := by
  decide
example : NoLocalFunction.converts "f"
    (.mk [] false none none [] [] (.mk [] (some (.ret [.call (.var "f") none .tuple []])))) = false := by decide
example : NoLocalFunction.converts "f" (.mk [.mk "f" none] false none none [] [] (.mk [] (some (.ret [.var "f"])))) = true := by
  decide

/-- **`local_function_rule_refines` (whole rule).** For every program in which no `local function f`
has `f` among its own parameters (`Good nlfFlags`, decidable; type annotations ignored),
`convert_local_function_to_assign` preserves the observable outcome. The excluded shape
`local function f(f)` is converted by the rule too (correctly: see `local_function_lookups_agree`)
but lies outside the lifting theorem (its dead sets are flow-insensitive). -/
theorem local_function_rule_refines (b : Block) (hg : Guard.Good Whole.nlfFlags b = true)
    {N : NumOps} (ρ : ExtOracle N) (n : Nat) (externs : List String) :
    runProgram ρ n externs (NoLocalFunction.apply b) = runProgram ρ n externs b :=
  Whole.local_function_rule_refines b hg ρ n externs

/-- non-vacuity: `local function g(x) return x end  local function f(n) return f(n) end  return g(1)` —
good, `g` is converted, the recursive `f` is not -/
def nlfSample : Block :=
  .mk [.localFn .loc "g" (.mk [.mk "x" none] false none none [] [] (.mk [] (some (.ret [.var "x"])))),
       .localFn .loc "f" (.mk [.mk "n" none] false none none [] []
         (.mk [] (some (.ret [.call (.var "f") none .tuple [.var "n"]]))))]
    (some (.ret [.call (.var "g") none .tuple [.num 0]]))
example : Guard.Good Whole.nlfFlags nlfSample = true := by decide
example : NoLocalFunction.apply nlfSample =
    .mk [.localAssign .loc [.mk "g" none] [.fn (.mk [.mk "x" none] false none none [] [] (.mk [] (some (.ret [.var "x"]))))],
         .localFn .loc "f" (.mk [.mk "n" none] false none none [] []
           (.mk [] (some (.ret [.call (.var "f") none .tuple [.var "n"]]))))]
      (some (.ret [.call (.var "g") none .tuple [.num 0]])) := by
  rfl
example : Guard.Good Whole.nlfFlags
    (.mk [.localFn .loc "f" (.mk [.mk "f" none] false none none [] [] (.mk [] none))] none) = false := by decide

/-! ## convert_function_to_assignment -/

/-- `function_to_assign_refines`, plain name: `function n(…)` is exactly `n = function(…)`. -/
theorem function_to_assign_refines_global {N : NumOps} (call : CallFn N) (ρ : ExtOracle N) (k : Nat) (env : Env N)
    (n : String) (body : FnBody) (hp : plain body = true) (σ : State N) :
    execS call ρ k env (FunctionToAssign.processStatement (.function [n] none body) ()).1 σ
      = execS call ρ k env (.function [n] none body) σ := by
  rw [FunctionToAssign.processStatement_plain n [] none body hp]
  have hw : FunctionToAssign.withSelf none body = body := by cases body; rfl
  rw [hw]
  exact FunctionToAssign.global_exact call ρ k env n body σ

/-- `function_to_assign_refines`, one key after the root (`function a.f(…)`, `function a:m(…)`, the
latter with the implicit `self` as first parameter): exact, unconditionally. -/
theorem function_to_assign_refines_single {N : NumOps} (call : CallFn N) (ρ : ExtOracle N) (k : Nat) (env : Env N)
    (root : String) (fields : List String) (m : Option String) (body : FnBody) (last : String)
    (hk : FunctionToAssign.keysOf fields m = [last]) (hp : plain body = true) (σ : State N) :
    execS call ρ k env (FunctionToAssign.processStatement (.function (root :: fields) m body) ()).1 σ
      = execS call ρ k env (.function (root :: fields) m body) σ := by
  rw [FunctionToAssign.processStatement_plain root fields m body hp]
  exact FunctionToAssign.single_exact call ρ k env root fields m body last hk σ

/-- `function_to_assign_refines`, nested fields (A): exact when walking `root.f1.….f(n-1)` gives the
same table whether the closure was allocated before (function statement) or after (assignment)
and allocates no closure itself — i.e. always, except when an `__index` handler on the path
creates closures, in which case only closure numbering differs. -/
theorem function_to_assign_refines_path {N : NumOps} (call : CallFn N) (ρ : ExtOracle N) (k : Nat) (env : Env N)
    (root : String) (fields : List String) (m : Option String) (body : FnBody)
    (hk : FunctionToAssign.keysOf fields m ≠ []) (hp : plain body = true) (σ σw : State N) (r : Val N × String)
    (h1 : walkFields call ρ k (lookupVar env root σ) (FunctionToAssign.keysOf fields m) σ = .ok r σw)
    (h2 : walkFields call ρ k (lookupVar env root σ) (FunctionToAssign.keysOf fields m)
            (σ.allocClosure ⟨FunctionToAssign.withSelf m body, env.locals, []⟩).2
          = .ok r (σw.allocClosure ⟨FunctionToAssign.withSelf m body, env.locals, []⟩).2)
    (hlen : σw.closures.length = σ.closures.length) :
    execS call ρ k env (FunctionToAssign.processStatement (.function (root :: fields) m body) ()).1 σ
      = execS call ρ k env (.function (root :: fields) m body) σ := by
  rw [FunctionToAssign.processStatement_plain root fields m body hp]
  exact FunctionToAssign.path_exact call ρ k env root fields m body hk σ σw r h1 h2 hlen

-- non-vacuity: `function a.b:m(x) end` becomes `a.b.m = function(self, x) end`
example : (FunctionToAssign.processStatement
      (.function ["a", "b"] (some "m") (.mk [.mk "x" none] false none none [] [] (.mk [] none))) ()).1
    = .assign [.field (.field (.var "a") "b") "m"]
        [.fn (.mk [.mk "self" none, .mk "x" none] false none none [] [] (.mk [] none))] := by
  simp [FunctionToAssign.processStatement, FunctionToAssign.convert, FunctionToAssign.target,
    FunctionToAssign.keysOf, FunctionToAssign.withSelf, erase]
example : FunctionToAssign.keysOf [] (some "m") = ["m"] := rfl

/-- **`function_to_assign_rule_refines` (whole rule, EVERY program, full statement).** Through the stage-4
lifting (renumbering of cells, tables and closures, `Shared/VisitorSoundHeapV.lean`,
`Rules/FunctionToAssignHeapV.lean`): `convert_function_to_assignment` preserves the observable outcome —
returned / raised values and the trace of external calls — of every program, at every call level and number
system. Function statements with arbitrarily long names (`function a.b.c:m`, implicit `self` included) are
covered: the closure the original allocates BEFORE walking `a.b.c` is pinned and matched with the closure
the assignment allocates AFTER the walk, whatever `__index` handlers run in between. Only hypothesis: the
oracle of external functions returns no table / closure references (`OracleFlat ρ`; external results are
numbers, booleans, strings, nil — as in the harness). This replaces the former guarded statement (at most
one key after the root), kept below as `function_to_assign_rule_refines_any_oracle`. -/
theorem function_to_assign_rule_refines (b : Block) {N : NumOps} (ρ : ExtOracle N) (hρ : Sem.HeapV.OracleFlat ρ)
    (n : Nat) (externs : List String) :
    runProgram ρ n externs (FunctionToAssign.apply b) = runProgram ρ n externs b :=
  FunctionToAssign.apply_refines b ρ hρ n externs

/-- name used by the first adoption of the stage-4 theorem (kept for references to it) -/
theorem function_to_assign_rule_refinesV (b : Block) {N : NumOps} (ρ : ExtOracle N) (hρ : Sem.HeapV.OracleFlat ρ)
    (n : Nat) (externs : List String) :
    runProgram ρ n externs (FunctionToAssign.apply b) = runProgram ρ n externs b :=
  function_to_assign_rule_refines b ρ hρ n externs

/-- the oracle the harness executes (`Shared.driverOracle`: `get…` return a number, `flag…` a boolean,
every other external function nothing) returns no heap references -/
theorem driverOracle_flat : Sem.HeapV.OracleFlat Shared.driverOracle := by
  intro name k args v hv
  unfold Shared.driverOracle at hv
  split at hv
  · simp only [List.mem_singleton] at hv; subst hv; trivial
  · split at hv
    · simp only [List.mem_singleton] at hv; subst hv; trivial
    · simp at hv

/-- … so at the oracle of the execution tie the full statement has NO hypothesis -/
theorem function_to_assign_rule_refines_driver (b : Block) (n : Nat) (externs : List String) :
    runProgram Shared.driverOracle n externs (FunctionToAssign.apply b) = runProgram Shared.driverOracle n externs b :=
  function_to_assign_rule_refines b Shared.driverOracle driverOracle_flat n externs

/-- the former witnesses, now all inside the full theorem:
`local t = {}  function t:m(x) return self end  function g() end` -/
def ftaSample : Block :=
  .mk [.localAssign .loc [.mk "t" none] [.table []],
       .function ["t"] (some "m") (.mk [.mk "x" none] false none none [] [] (.mk [] (some (.ret [.var "self"])))),
       .function ["g"] none (.mk [] false none none [] [] (.mk [] none))] none
example : FunctionToAssign.apply ftaSample =
    .mk [.localAssign .loc [.mk "t" none] [.table []],
         .assign [.field (.var "t") "m"]
           [.fn (.mk [.mk "self" none, .mk "x" none] false none none [] [] (.mk [] (some (.ret [.var "self"]))))],
         .assign [.var "g"] [.fn (.mk [] false none none [] [] (.mk [] none))]] none := by
  rfl
-- a long name (outside the former hypothesis `Good ftaFlags`) on which the rule fires
example : Guard.Good Whole.ftaFlags
    (.mk [.function ["a", "b", "c"] none (.mk [] false none none [] [] (.mk [] none))] none) = false := by decide
example : FunctionToAssign.apply
      (.mk [.function ["a", "b", "c"] (some "m") (.mk [.mk "x" none] false none none [] [] (.mk [] none))] none)
    = .mk [.assign [.field (.field (.field (.var "a") "b") "c") "m"]
        [.fn (.mk [.mk "self" none, .mk "x" none] false none none [] [] (.mk [] none))]] none := by
  rfl

/-- The stage-3 statement, incomparable with the full one: EVERY oracle (external functions may return
tables / closures), but only programs whose function statements have at most one key after the root
(`Good ftaFlags`, decidable). -/
theorem function_to_assign_rule_refines_any_oracle (b : Block) (hg : Guard.Good Whole.ftaFlags b = true)
    {N : NumOps} (ρ : ExtOracle N) (n : Nat) (externs : List String) :
    runProgram ρ n externs (FunctionToAssign.apply b) = runProgram ρ n externs b :=
  Whole.function_to_assign_rule_refines b hg ρ n externs
example : Guard.Good Whole.ftaFlags ftaSample = true := by decide

/-! ## remove_method_call -/

/-- full strength: the call hook of `remove_method_call` never changes what an expression does -/
def method_call_refines_full : Prop :=
  ∀ (N : NumOps) (call : CallFn N) (ρ : ExtOracle N) (k : Nat) (env : Env N) (e : Expr) (σ : State N),
    evalE call ρ k env (RemoveMethodCall.processFunctionCall e) σ = evalE call ρ k env e σ

/-- (D) false: `x:m()` → `x.m(x)` reads `x` again after the lookup `x.m`; an `__index` handler that
assigns `x` makes the two differ (witness: known_findings.json C16-F2). -/
theorem method_call_refines_full_false : ¬ method_call_refines_full :=
  RemoveMethodCall.processFunctionCall_not_exact

/-- `method_call_refines_partial`: exact whenever the receiver has the same value after the method
lookup as before it (receiver evaluated "once": the second read sees the same value). -/
theorem method_call_refines_partial {N : NumOps} (call : CallFn N) (ρ : ExtOracle N) (k : Nat) (env : Env N)
    (f : Expr) (m : String) (kind : ArgKind) (args : List Expr) (p : Expr)
    (hp : RemoveMethodCall.newPrefix f = some p) (σ : State N)
    (hstable : ∀ fv σ2, indexVal call ρ k (RemoveMethodCall.recvVal env p σ) (strVal m) σ = .ok fv σ2 →
      RemoveMethodCall.recvVal env p σ2 = RemoveMethodCall.recvVal env p σ) :
    evalE call ρ k env (RemoveMethodCall.processFunctionCall (.call f (some m) kind args)) σ
      = evalE call ρ k env (.call f (some m) kind args) σ :=
  RemoveMethodCall.processFunctionCall_exact call ρ k env f m kind args p hp σ hstable

/-- literal receivers (`("abc"):upper()`): unconditionally exact -/
theorem method_call_refines_literal {N : NumOps} (call : CallFn N) (ρ : ExtOracle N) (k : Nat) (env : Env N)
    (s : List UInt8) (m : String) (kind : ArgKind) (args : List Expr) (σ : State N) :
    evalE call ρ k env (RemoveMethodCall.processFunctionCall (.call (.paren (.str s)) (some m) kind args)) σ
      = evalE call ρ k env (.call (.paren (.str s)) (some m) kind args) σ :=
  method_call_refines_partial call ρ k env _ m kind args (.paren (.str s)) rfl σ (fun _ _ _ => rfl)

-- non-vacuity: the hook fires on `x:m(1)`, `(x):m()`, `("s"):m()`, and not on `f():m()`
example : RemoveMethodCall.processFunctionCall (.call (.var "x") (some "m") .tuple [.true])
    = .call (.field (.var "x") "m") none .tuple [.var "x", .true] := rfl
example : RemoveMethodCall.processFunctionCall (.call (.paren (.var "x")) (some "m") .tuple [])
    = .call (.field (.var "x") "m") none .tuple [.var "x"] := rfl
example : RemoveMethodCall.processFunctionCall (.call (.call (.var "f") none .tuple []) (some "m") .tuple [])
    = .call (.call (.var "f") none .tuple []) (some "m") .tuple [] := rfl

/-! ## convert_square_root_call -/

/-- full strength: the expression hook never changes what an expression does (for an unshadowed `math`) -/
def sqrt_refines_full : Prop :=
  ∀ (N : NumOps) (call : CallFn N) (ρ : ExtOracle N) (k : Nat) (env : Env N) (e : Expr)
    (st : ConvertSquareRootCall.St) (σ : State N),
    st.tracker.used "math" = false →
    evalE call ρ k env (ConvertSquareRootCall.processExpression e st).1 σ = evalE call ρ k env e σ

/-- (D) false: `sqrt x = x ^ 0.5` is not a law of numbers (IEEE doubles: `-0`, `-∞`, rare finite values) -/
theorem sqrt_refines_full_false : ¬ sqrt_refines_full :=
  ConvertSquareRootCall.processExpression_not_exact

/-- `sqrt_refines_partial`: `math.sqrt(arg)` → `arg ^ 0.5` is exact when `math` is not shadowed (the
rule's `IdentifierTracker`), the global `math` is the standard library table, the argument
evaluates to a number `x` (a string coerced by `tonumber` counts), two levels of library fuel
are available, and `sqrt x = pow x 0.5` holds FOR THAT VALUE. -/
theorem sqrt_refines_partial {N : NumOps} (call : CallFn N) (ρ : ExtOracle N) (env : Env N)
    (d t : Nat) (kind : ArgKind) (arg : Expr) (σ σ' : State N) (vs : List (Val N)) (x : N.F)
    (st : ConvertSquareRootCall.St) (hfree : st.tracker.used "math" = false)
    (hmath : lookupVar env "math" σ = .tbl t)
    (hsqrt : σ.rawGet t (strVal "sqrt") = .builtin "math.sqrt")
    (harg : evalE call ρ (d + 2) env arg σ = .ok vs σ')
    (hnum : toNumber? (first vs) = some x)
    (hlaw : N.sqrt x = N.pow x (N.ofBits ConvertSquareRootCall.halfBits)) :
    evalE call ρ (d + 2) env
        (ConvertSquareRootCall.processExpression (.call (.field (.var "math") "sqrt") none kind [arg]) st).1 σ
      = evalE call ρ (d + 2) env (.call (.field (.var "math") "sqrt") none kind [arg]) σ :=
  ConvertSquareRootCall.processExpression_exact call ρ env d t kind arg σ σ' vs x st hfree hmath hsqrt harg hnum hlaw

-- non-vacuity: the hook fires when `math` is free and not when a scope declares it
example : (ConvertSquareRootCall.processExpression
      (.call (.field (.var "math") "sqrt") none .tuple [.var "x"]) {}).1
    = .bin .pow (.var "x") (.num ConvertSquareRootCall.halfBits) := rfl
example : (ConvertSquareRootCall.processExpression
      (.call (.field (.var "math") "sqrt") none .tuple [.var "x"]) { tracker := [["math"]] }).1
    = .call (.field (.var "math") "sqrt") none .tuple [.var "x"] := by
  simp [ConvertSquareRootCall.processExpression, ConvertSquareRootCall.mathSqrtArg,
    ConvertSquareRootCall.Tracker.used]
-- and the hypotheses of `sqrt_refines_partial` are satisfiable (one-point numbers satisfy the law)
example : lookupVar (N := unitOps) ⟨[], []⟩ "math"
    { globals := [("math", .tbl 0)], cells := [], tables := [⟨[(strVal "sqrt", .builtin "math.sqrt")], none⟩],
      closures := [], trace := [] } = .tbl 0 := by
  simp [lookupVar, lookupAssoc, State.getGlobal]

end DarkluaModel.C16
