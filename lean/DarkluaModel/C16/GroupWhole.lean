import DarkluaModel.C16.GroupLocalU
import DarkluaModel.C16.RefsMentionsL
/-!
# `group_local_assignment`: every merge the rule performs is a `HeapU` link; whole-rule theorem
-/
namespace DarkluaModel.C16.GroupU
open Sem Sem.HeapU Rules.GroupLocal Rules.FindVariables
variable {Q : QRel}

theorem noRefSs_nil (D : List DName) : NoRefSs D [] := fun _ _ => rfl

theorem noRefSs_append {D : List DName} (xs ys : List Stmt) : NoRefSs D (xs ++ ys) ↔ NoRefSs D xs ∧ NoRefSs D ys := by
  induction xs with
  | nil => exact ⟨fun h => ⟨noRefSs_nil D, h⟩, fun h => h.2⟩
  | cons x xs ih =>
    rw [List.cons_append, NoRefSs.cons, NoRefSs.cons, ih]
    exact ⟨fun h => ⟨⟨h.1, h.2.1⟩, h.2.2⟩, fun h => ⟨h.1.1, h.1.2, h.2⟩⟩

theorem noRefEs_append {D : List DName} (xs ys : List Expr) : NoRefEs D (xs ++ ys) ↔ NoRefEs D xs ∧ NoRefEs D ys := by
  induction xs with
  | nil => exact ⟨fun h => ⟨fun _ _ => rfl, h⟩, fun h => h.2⟩
  | cons x xs ih =>
    rw [List.cons_append, NoRefEs.cons, NoRefEs.cons, ih]
    exact ⟨fun h => ⟨⟨h.1, h.2.1⟩, h.2.2⟩, fun h => ⟨h.1.1, h.1.2, h.2⟩⟩

theorem noRefEs_nils (D : List DName) (n : Nat) : NoRefEs D (nils n) := by
  induction n with
  | zero => exact fun _ _ => rfl
  | succ n ih => exact NoRefEs.cons.mpr ⟨fun _ _ => rfl, ih⟩

theorem noWat_append {D : List DName} (xs ys : List TName) : NoWat D (xs ++ ys) ↔ NoWat D xs ∧ NoWat D ys := by
  induction xs with
  | nil => exact ⟨fun h => ⟨fun _ _ => rfl, h⟩, fun h => h.2⟩
  | cons x xs ih =>
    cases x
    rw [List.cons_append, NoWat.cons, NoWat.cons, ih]
    exact ⟨fun h => ⟨⟨h.1, h.2.1⟩, h.2.2⟩, fun h => ⟨h.1.1, h.1.2, h.2⟩⟩

/-- one merge decided by the rule, as a sound statement-list step (all value-count cases) -/
theorem merge_leaf (hq : QRefl Q) {D : List DName} (k1 k2 : LocalKind) (ns1 ns2 : List TName) (vs1 vs2 : List Expr)
    (rest : List Stmt) (hS : shouldMerge ns1 vs1 vs2 = true)
    (hn1 : NoRefEs D vs1) (hn2 : NoRefEs D vs2) (hnrest : NoRefSs D rest)
    (hw1 : ∀ n ∈ ns1.map TName.name, DName.wat n ∉ D) (hw2 : ∀ n ∈ ns2.map TName.name, DName.wat n ∉ D) :
    SoundSs Q cx0 D (.localAssign k1 ns1 vs1 :: .localAssign k2 ns2 vs2 :: rest)
      (.localAssign k1 (merge ns1 vs1 ns2 vs2).1 (merge ns1 vs1 ns2 vs2).2 :: rest) D := by
  have hH := shouldMerge_h16 ns1 vs1 vs2 hS
  have hm : mEs (ns1.map TName.name) vs2 = false := by
    unfold shouldMerge at hS
    split at hS
    · exact absurd hS (by simp)
    · simpa using hS
  have hn2' : NoRefEs (Heap.refNames ns1 ++ D) vs2 := by
    intro x hx
    rcases List.mem_append.mp hx with h | h
    · simp only [Heap.refNames, List.mem_map] at h
      obtain ⟨n, ⟨t, ht, rfl⟩, rfl⟩ := h
      exact rEsL _ (ns1.map TName.name) (List.mem_map.mpr ⟨t, ht, rfl⟩) vs2 hm
    · exact hn2 x h
  cases vs2 with
  | nil =>
    cases vs1 with
    | nil =>
      have hmg : merge ns1 [] ns2 [] = (ns1 ++ ns2, []) := by simp [merge]
      rw [hmg]
      exact merge_sound_empty hq k1 k2 k1 ns1 ns2 [] [] rest (fun _ => [])
        (fun N call ρ k env σ => by simp [evalEs, Res.bind])
        (fun N call ρ k env σ s ws h => by
          simp only [evalEs] at h
          injection h with h1 _
          subst h1
          rw [padTake_nil, padTake_nil]; exact (List.replicate_append_replicate).symm) hn1 hnrest hw1 hw2
    | cons a as =>
      have hlen : (a :: as).length = ns1.length := by simpa [h16] using hH
      have hmg : merge ns1 (a :: as) ns2 [] = (ns1 ++ ns2, (a :: as) ++ nils ns2.length) := by simp [merge]
      rw [hmg]
      cases hn2l : ns2.length with
      | zero =>
        have : nils 0 = [] := rfl
        rw [this, List.append_nil]
        exact merge_sound_empty hq k1 k2 k1 ns1 ns2 (a :: as) (a :: as) rest (fun ws => ws)
          (fun N call ρ k env σ => by cases evalEs call ρ k env (a :: as) σ <;> simp [Res.bind])
          (fun N call ρ k env σ s ws _ => by simp [hn2l]) hn1 hnrest hw1 hw2
      | succ m =>
        have hne : nils (m + 1) ≠ [] := by simp [nils, List.replicate]
        refine merge_sound_empty hq k1 k2 k1 ns1 ns2 (a :: as) ((a :: as) ++ nils (m + 1)) rest
          (fun ws => padTake ns1.length ws ++ List.replicate ns2.length .nil) ?_ ?_ hn1 hnrest hw1 hw2
        · intro N call ρ k env σ
          rw [evalEs_append call ρ k env (a :: as) (nils (m + 1)) hne, evalFirsts_eq, hlen]
          cases evalEs call ρ k env (a :: as) σ <;> simp [Res.bind, evalEs_nils, hn2l]
        · intro N call ρ k env σ s ws _
          have hl : (padTake ns1.length ws ++ List.replicate ns2.length Val.nil).length = ns1.length + ns2.length := by
            simp [length_padTake]
          rw [← hl, show ∀ l : List (Val N), padTake l.length l = l from fun l => by
            induction l with
            | nil => rfl
            | cons x xs ih => simp [padTake, first, ih]]
  | cons b bs =>
    cases vs1 with
    | nil =>
      have hmg : merge ns1 [] ns2 (b :: bs) = (ns1 ++ ns2, nils ns1.length ++ (b :: bs)) := by simp [merge]
      rw [hmg]
      refine merge_sound hq k1 k2 k1 ns1 ns2 [] (nils ns1.length) (b :: bs) rest (by simp) ?_ hn1 hn2' hnrest hw1 hw2
      intro N call ρ k env σ
      rw [evalFirsts_eq, evalEs_nils]
      simp [Res.bind, evalEs, nils, padTake_replicate]
    | cons a as =>
      have hlen : (a :: as).length = ns1.length := by simpa [h16] using hH
      have hmg : merge ns1 (a :: as) ns2 (b :: bs) = (ns1 ++ ns2, (a :: as) ++ (b :: bs)) := by simp [merge]
      rw [hmg]
      refine merge_sound hq k1 k2 k1 ns1 ns2 (a :: as) (a :: as) (b :: bs) rest (by simp) ?_ hn1 hn2' hnrest hw1 hw2
      intro N call ρ k env σ
      rw [evalFirsts_eq, hlen]

theorem noRefEs_merge {D : List DName} (ns1 ns2 : List TName) (vs1 vs2 : List Expr) (h1 : NoRefEs D vs1)
    (h2 : NoRefEs D vs2) : NoRefEs D (merge ns1 vs1 ns2 vs2).2 := by
  simp only [merge]
  refine (noRefEs_append _ _).mpr ⟨?_, ?_⟩
  · split
    · exact (noRefEs_append _ _).mpr ⟨h1, noRefEs_nils D _⟩
    · exact h1
  · split <;> split <;>
      first | exact h2 | exact (noRefEs_append _ _).mpr ⟨h2, noRefEs_nils D _⟩

theorem merge_fst (ns1 ns2 : List TName) (vs1 vs2 : List Expr) : (merge ns1 vs1 ns2 vs2).1 = ns1 ++ ns2 := rfl

/-- **the link**: one merge the rule decides, anywhere in a block -/
theorem vk_merge (pre rest : List Stmt) (last : Option Last) (k1 k2 : LocalKind) (ns1 ns2 : List TName)
    (vs1 vs2 : List Expr) (hS : shouldMerge ns1 vs1 vs2 = true) :
    VkBo cx0 (.mk (pre ++ .localAssign k1 ns1 vs1 :: .localAssign k2 ns2 vs2 :: rest) last)
      (.mk (pre ++ .localAssign k1 (merge ns1 vs1 ns2 vs2).1 (merge ns1 vs1 ns2 vs2).2 :: rest) last) := by
  intro D _ hn
  have key : ∀ (hss : NoRefSs D (pre ++ .localAssign k1 ns1 vs1 :: .localAssign k2 ns2 vs2 :: rest)),
      VR cx0 D (.ss (pre ++ .localAssign k1 ns1 vs1 :: .localAssign k2 ns2 vs2 :: rest))
        (.ss (pre ++ .localAssign k1 (merge ns1 vs1 ns2 vs2).1 (merge ns1 vs1 ns2 vs2).2 :: rest)) D ∧
      NoRefSs D (pre ++ .localAssign k1 (merge ns1 vs1 ns2 vs2).1 (merge ns1 vs1 ns2 vs2).2 :: rest) := by
    intro hss
    obtain ⟨hpre, htl⟩ := (noRefSs_append _ _).mp hss
    obtain ⟨hL1, htl2⟩ := NoRefSs.cons.mp htl
    obtain ⟨hL2, hrest⟩ := NoRefSs.cons.mp htl2
    obtain ⟨hnw1, hne1⟩ := NoRefS.localAssign.mp hL1
    obtain ⟨hnw2, hne2⟩ := NoRefS.localAssign.mp hL2
    refine ⟨VR.ssPrefix pre hpre (.genSs fun Q hq =>
      merge_leaf hq k1 k2 ns1 ns2 vs1 vs2 rest hS hne1 hne2 hrest (Heap.NoWat.names hnw1) (Heap.NoWat.names hnw2)), ?_⟩
    refine (noRefSs_append _ _).mpr ⟨hpre, NoRefSs.cons.mpr ⟨?_, hrest⟩⟩
    refine NoRefS.localAssign.mpr ⟨?_, noRefEs_merge ns1 ns2 vs1 vs2 hne1 hne2⟩
    rw [merge_fst]
    exact (noWat_append _ _).mpr ⟨hnw1, hnw2⟩
  cases last with
  | none =>
    obtain ⟨vr, hn'⟩ := key (NoRefB.none.mp hn)
    exact ⟨.blockNone vr, NoRefB.none.mpr hn'⟩
  | some l =>
    obtain ⟨hss, hl⟩ := NoRefB.some.mp hn
    obtain ⟨vr, hn'⟩ := key hss
    exact ⟨.blockSome vr (VR.reflL hl), NoRefB.some.mpr ⟨hn', hl⟩⟩

/-- the loop of `filter_statements` as a chain of merge links -/
theorem chain_go (last : Option Last) (prev : Stmt) (rest : List Stmt) :
    ∀ pre : List Stmt, Chain (VkBo cx0) (.mk (pre ++ prev :: rest) last) (.mk (pre ++ go prev rest) last) := by
  fun_induction go prev rest with
  | case1 prev => intro pre; exact .refl _
  | case2 k1 ns1 vs1 k2 ns2 vs2 rest hS ns vs hmerge ih =>
    intro pre
    have e : ns = (merge ns1 vs1 ns2 vs2).1 ∧ vs = (merge ns1 vs1 ns2 vs2).2 := by rw [hmerge]; exact ⟨rfl, rfl⟩
    rw [e.1, e.2] at ih ⊢
    exact .cons (vk_merge pre rest last k1 k2 ns1 ns2 vs1 vs2 hS) (ih pre)
  | case3 k1 ns1 vs1 k2 ns2 vs2 rest hS ih =>
    intro pre
    have := ih (pre ++ [.localAssign k1 ns1 vs1])
    simpa using this
  | case4 prev cur rest hx ih =>
    intro pre
    have := ih (pre ++ [prev])
    simpa using this

theorem hooksU : HooksU cx0 processor where
  block := fun b s => by
    cases b with
    | mk stmts last =>
      simp only [processor, processBlock]
      cases stmts with
      | nil => exact .refl _
      | cons x xs => exact chain_go last x xs []

/-- **whole rule, EVERY program**: `group_local_assignment` preserves the observable outcome -/
theorem apply_refines (b : Block) {N : NumOps} (ρ : ExtOracle N) (hρ : OracleFlat ρ) (n : Nat) (externs : List String) :
    runProgram ρ n externs (Rules.GroupLocal.apply b) = runProgram ρ n externs b :=
  Visitor.runDefault_u hooksU b () ρ hρ n externs

end DarkluaModel.C16.GroupU
