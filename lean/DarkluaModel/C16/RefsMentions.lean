import DarkluaModel.Rules.FindVariables
import DarkluaModel.Shared.VisitorSound.Heap.Refs
/-!
`FindVariables` (the rule's syntactic check, `Rules/FindVariables.lean`) is at least as strict as the
reference relation `refs (.ref n)` of the lifting theorem: whatever references `n` mentions `n`.
(The converse is false: `mentions` also looks into type annotations.)
-/
namespace DarkluaModel.C16
open Rules.FindVariables

variable (n : String)

theorem watNames_ref (ps : List TName) : watNames (.ref n) ps = false := by
  induction ps with
  | nil => rfl
  | cons p ps ih => cases p; simp [watNames, ih]

theorem contains_single (x : String) : ([n].contains x) = (x == n) := by
  simp [List.contains, List.elem]
  cases x == n <;> rfl

mutual
  theorem rE : ∀ e : Expr, mE [n] e = false → e.refs (.ref n) = false
    | .nil, _ | .true, _ | .false, _ | .vararg, _ | .num _, _ | .str _, _ => by simp [Expr.refs]
    | .var x, h => by
      simp only [mE, contains_single] at h
      simp only [Expr.refs, beq_eq_false_iff_ne, ne_eq, DName.ref.injEq]
      intro hx; subst hx; simp at h
    | .paren e, h => by simp only [mE] at h; simp only [Expr.refs]; exact rE e h
    | .un _ e, h => by simp only [mE] at h; simp only [Expr.refs]; exact rE e h
    | .bin _ l r, h => by
      simp only [mE, Bool.or_eq_false_iff] at h
      simp only [Expr.refs, Bool.or_eq_false_iff]; exact ⟨rE l h.1, rE r h.2⟩
    | .call f _ _ args, h => by
      simp only [mE, Bool.or_eq_false_iff] at h
      simp only [Expr.refs, Bool.or_eq_false_iff]; exact ⟨rE f h.1, rEs args h.2⟩
    | .field e _, h => by simp only [mE] at h; simp only [Expr.refs]; exact rE e h
    | .index e k, h => by
      simp only [mE, Bool.or_eq_false_iff] at h
      simp only [Expr.refs, Bool.or_eq_false_iff]; exact ⟨rE e h.1, rE k h.2⟩
    | .fn body, h => by simp only [mE] at h; simp only [Expr.refs]; exact rF body h
    | .table es, h => by simp only [mE] at h; simp only [Expr.refs]; exact rEntries es h
    | .ifx c t elifs e, h => by
      simp only [mE, Bool.or_eq_false_iff] at h
      simp only [Expr.refs, Bool.or_eq_false_iff]
      exact ⟨⟨⟨rE c h.1.1.1, rE t h.1.1.2⟩, rPairs elifs h.1.2⟩, rE e h.2⟩
    | .interp segs, h => by simp only [mE] at h; simp only [Expr.refs]; exact rSegs segs h
    | .cast e _, h => by
      simp only [mE, Bool.or_eq_false_iff] at h; simp only [Expr.refs]; exact rE e h.1
    | .inst e _, h => by
      simp only [mE, Bool.or_eq_false_iff] at h; simp only [Expr.refs]; exact rE e h.1
  theorem rEs : ∀ es : List Expr, mEs [n] es = false → Expr.refsList (.ref n) es = false
    | [], _ => rfl
    | e :: es, h => by
      simp only [mEs, Bool.or_eq_false_iff] at h
      simp only [Expr.refsList, Bool.or_eq_false_iff]; exact ⟨rE e h.1, rEs es h.2⟩
  /-- targets: assignment to the variable counts as a mention too -/
  theorem rTs : ∀ es : List Expr, mEs [n] es = false → Expr.refsTList (.ref n) es = false
    | [], _ => rfl
    | e :: es, h => by
      simp only [mEs, Bool.or_eq_false_iff] at h
      simp only [Expr.refsTList, Bool.or_eq_false_iff]; exact ⟨rT e h.1, rTs es h.2⟩
  theorem rT : ∀ e : Expr, mE [n] e = false → e.refsT (.ref n) = false
    | .var x, h => by
      simp only [mE, contains_single] at h
      simp only [Expr.refsT, Bool.or_eq_false_iff, beq_eq_false_iff_ne, ne_eq, DName.ref.injEq]
      refine ⟨?_, by simp⟩
      intro hx; subst hx; simp at h
    | .field e _, h => by simp only [mE] at h; simp only [Expr.refsT]; exact rE e h
    | .index e k, h => by
      simp only [mE, Bool.or_eq_false_iff] at h
      simp only [Expr.refsT, Bool.or_eq_false_iff]; exact ⟨rE e h.1, rE k h.2⟩
    | .nil, _ | .true, _ | .false, _ | .vararg, _ | .num _, _ | .str _, _ | .paren _, _ | .un _ _, _
    | .bin _ _ _, _ | .call _ _ _ _, _ | .fn _, _ | .table _, _ | .ifx _ _ _ _, _ | .interp _, _
    | .cast _ _, _ | .inst _ _, _ => by simp [Expr.refsT]
  theorem rPairs : ∀ es : List (Expr × Expr), mPairs [n] es = false → Expr.refsPairs (.ref n) es = false
    | [], _ => rfl
    | (a, b) :: rest, h => by
      simp only [mPairs, Bool.or_eq_false_iff] at h
      simp only [Expr.refsPairs, Bool.or_eq_false_iff]; exact ⟨⟨rE a h.1.1, rE b h.1.2⟩, rPairs rest h.2⟩
  theorem rEntries : ∀ es : List Entry, mEntries [n] es = false → Entry.refsList (.ref n) es = false
    | [], _ => rfl
    | .pos v :: es, h => by
      simp only [mEntries, mEntry, Bool.or_eq_false_iff] at h
      simp only [Entry.refsList, Bool.or_eq_false_iff]; exact ⟨rE v h.1, rEntries es h.2⟩
    | .named _ v :: es, h => by
      simp only [mEntries, mEntry, Bool.or_eq_false_iff] at h
      simp only [Entry.refsList, Bool.or_eq_false_iff]; exact ⟨rE v h.1, rEntries es h.2⟩
    | .keyed k v :: es, h => by
      simp only [mEntries, mEntry, Bool.or_eq_false_iff] at h
      simp only [Entry.refsList, Bool.or_eq_false_iff]; exact ⟨⟨rE k h.1.1, rE v h.1.2⟩, rEntries es h.2⟩
  theorem rSegs : ∀ es : List Seg, mSegs [n] es = false → Seg.refsList (.ref n) es = false
    | [], _ => rfl
    | .s _ :: es, h => by
      simp only [mSegs, mSeg, Bool.false_or] at h
      simp only [Seg.refsList]; exact rSegs es h
    | .v e :: es, h => by
      simp only [mSegs, mSeg, Bool.or_eq_false_iff] at h
      simp only [Seg.refsList, Bool.or_eq_false_iff]; exact ⟨rE e h.1, rSegs es h.2⟩
  theorem rF : ∀ f : FnBody, mFn [n] f = false → f.refs (.ref n) = false
    | .mk ps _ _ _ _ _ body, h => by
      simp only [mFn, Bool.or_eq_false_iff] at h
      simp only [FnBody.refs, Bool.or_eq_false_iff]; exact ⟨watNames_ref n ps, rB body h.2⟩
  theorem rS : ∀ s : Stmt, mS [n] s = false → s.refs (.ref n) = false
    | .assign ts vs, h => by
      simp only [mS, Bool.or_eq_false_iff] at h
      simp only [Stmt.refs, Bool.or_eq_false_iff]; exact ⟨rTs ts h.1, rEs vs h.2⟩
    | .cassign _ t v, h => by
      simp only [mS, Bool.or_eq_false_iff] at h
      simp only [Stmt.refs, Bool.or_eq_false_iff]; exact ⟨rT t h.1, rE v h.2⟩
    | .callStmt c, h => by simp only [mS] at h; simp only [Stmt.refs]; exact rE c h
    | .doBlock b, h => by simp only [mS] at h; simp only [Stmt.refs]; exact rB b h
    | .function name m body, h => by
      simp only [mS, Bool.or_eq_false_iff] at h
      simp only [Stmt.refs, Bool.or_eq_false_iff]
      refine ⟨⟨?_, by simp⟩, rF body h.2⟩
      cases name with
      | nil => rfl
      | cons root rest =>
        have h1 := h.1
        simp only [contains_single] at h1
        simp only [Bool.or_eq_false_iff, beq_eq_false_iff_ne, ne_eq, DName.ref.injEq]
        refine ⟨?_, by simp⟩
        intro hx; subst hx; simp at h1
    | .gfor ns vs body, h => by
      simp only [mS, Bool.or_eq_false_iff] at h
      simp only [Stmt.refs, Bool.or_eq_false_iff]; exact ⟨⟨watNames_ref n ns, rEs vs h.1.2⟩, rB body h.2⟩
    | .nfor (.mk x _) a b none body, h => by
      simp only [mS, mEOpt, Bool.or_eq_false_iff] at h
      simp only [Stmt.refs, Bool.or_eq_false_iff]
      exact ⟨⟨⟨by simp, rE a h.1.1.1.2⟩, rE b h.1.1.2⟩, rB body h.2⟩
    | .nfor (.mk x _) a b (some st) body, h => by
      simp only [mS, mEOpt, Bool.or_eq_false_iff] at h
      simp only [Stmt.refs, Bool.or_eq_false_iff]
      exact ⟨⟨⟨⟨by simp, rE a h.1.1.1.2⟩, rE b h.1.1.2⟩, rE st h.1.2⟩, rB body h.2⟩
    | .ifs branches none, h => by
      simp only [mS, mBOpt, Bool.or_false] at h; simp only [Stmt.refs]; exact rBranches branches h
    | .ifs branches (some b), h => by
      simp only [mS, mBOpt, Bool.or_eq_false_iff] at h
      simp only [Stmt.refs, Bool.or_eq_false_iff]; exact ⟨rBranches branches h.1, rB b h.2⟩
    | .localAssign _ ns vs, h => by
      simp only [mS, Bool.or_eq_false_iff] at h
      simp only [Stmt.refs, Bool.or_eq_false_iff]; exact ⟨watNames_ref n ns, rEs vs h.2⟩
    | .localFn _ _ body, h => by
      simp only [mS] at h
      simp only [Stmt.refs, Bool.or_eq_false_iff]; exact ⟨by simp, rF body h⟩
    | .repeat_ b c, h => by
      simp only [mS, Bool.or_eq_false_iff] at h
      simp only [Stmt.refs, Bool.or_eq_false_iff]; exact ⟨rB b h.1, rE c h.2⟩
    | .while_ c b, h => by
      simp only [mS, Bool.or_eq_false_iff] at h
      simp only [Stmt.refs, Bool.or_eq_false_iff]; exact ⟨rE c h.1, rB b h.2⟩
    | .typeDecl _ _ _, _ => rfl
    | .typeFn _ _ _, _ => rfl
  theorem rBranches : ∀ bs : List (Expr × Block), mBranches [n] bs = false → Stmt.refsBranches (.ref n) bs = false
    | [], _ => rfl
    | (c, b) :: rest, h => by
      simp only [mBranches, Bool.or_eq_false_iff] at h
      simp only [Stmt.refsBranches, Bool.or_eq_false_iff]; exact ⟨⟨rE c h.1.1, rB b h.1.2⟩, rBranches rest h.2⟩
  theorem rSs : ∀ ss : List Stmt, mSs [n] ss = false → Stmt.refsList (.ref n) ss = false
    | [], _ => rfl
    | s :: ss, h => by
      simp only [mSs, Bool.or_eq_false_iff] at h
      simp only [Stmt.refsList, Bool.or_eq_false_iff]; exact ⟨rS s h.1, rSs ss h.2⟩
  theorem rL : ∀ l : Last, mLast [n] l = false → l.refs (.ref n) = false
    | .ret es, h => by simp only [mLast] at h; simp only [Last.refs]; exact rEs es h
    | .brk, _ => rfl
    | .cont, _ => rfl
  theorem rB : ∀ b : Block, mB [n] b = false → b.refs (.ref n) = false
    | .mk stmts none, h => by
      simp only [mB, Bool.or_false] at h; simp only [Block.refs]; exact rSs stmts h
    | .mk stmts (some l), h => by
      simp only [mB, Bool.or_eq_false_iff] at h
      simp only [Block.refs, Bool.or_eq_false_iff]; exact ⟨rSs stmts h.1, rL l h.2⟩
end

end DarkluaModel.C16
