import DarkluaModel.C16.RefsMentions
/-!
`RefsMentions` for a LIST of searched names: if `FindVariables(ns)` is silent on a node, the node references no
name of `ns` (`group_local_assignment` searches all the variables of the first declaration at once).
-/
namespace DarkluaModel.C16
open Rules.FindVariables

section
variable (n : String) (ns : List String) (hn : n ∈ ns)
include hn
set_option linter.unusedSectionVars false

mutual
  theorem rEL : ∀ e : Expr, mE ns e = false → e.refs (.ref n) = false
    | .nil, _ | .true, _ | .false, _ | .vararg, _ | .num _, _ | .str _, _ => by simp [Expr.refs]
    | .var x, h => by
      simp only [mE] at h
      simp only [Expr.refs, beq_eq_false_iff_ne, ne_eq, DName.ref.injEq]
      intro hx; subst hx; rw [List.contains_iff_mem.mpr hn] at h; exact Bool.noConfusion h
    | .paren e, h => by simp only [mE] at h; simp only [Expr.refs]; exact rEL e h
    | .un _ e, h => by simp only [mE] at h; simp only [Expr.refs]; exact rEL e h
    | .bin _ l r, h => by
      simp only [mE, Bool.or_eq_false_iff] at h
      simp only [Expr.refs, Bool.or_eq_false_iff]; exact ⟨rEL l h.1, rEL r h.2⟩
    | .call f _ _ args, h => by
      simp only [mE, Bool.or_eq_false_iff] at h
      simp only [Expr.refs, Bool.or_eq_false_iff]; exact ⟨rEL f h.1, rEsL args h.2⟩
    | .field e _, h => by simp only [mE] at h; simp only [Expr.refs]; exact rEL e h
    | .index e k, h => by
      simp only [mE, Bool.or_eq_false_iff] at h
      simp only [Expr.refs, Bool.or_eq_false_iff]; exact ⟨rEL e h.1, rEL k h.2⟩
    | .fn body, h => by simp only [mE] at h; simp only [Expr.refs]; exact rFL body h
    | .table es, h => by simp only [mE] at h; simp only [Expr.refs]; exact rEntriesL es h
    | .ifx c t elifs e, h => by
      simp only [mE, Bool.or_eq_false_iff] at h
      simp only [Expr.refs, Bool.or_eq_false_iff]
      exact ⟨⟨⟨rEL c h.1.1.1, rEL t h.1.1.2⟩, rPairsL elifs h.1.2⟩, rEL e h.2⟩
    | .interp segs, h => by simp only [mE] at h; simp only [Expr.refs]; exact rSegsL segs h
    | .cast e _, h => by
      simp only [mE, Bool.or_eq_false_iff] at h; simp only [Expr.refs]; exact rEL e h.1
    | .inst e _, h => by
      simp only [mE, Bool.or_eq_false_iff] at h; simp only [Expr.refs]; exact rEL e h.1
  theorem rEsL : ∀ es : List Expr, mEs ns es = false → Expr.refsList (.ref n) es = false
    | [], _ => rfl
    | e :: es, h => by
      simp only [mEs, Bool.or_eq_false_iff] at h
      simp only [Expr.refsList, Bool.or_eq_false_iff]; exact ⟨rEL e h.1, rEsL es h.2⟩
  /-- targets: assignment to the variable counts as a mention too -/
  theorem rTsL : ∀ es : List Expr, mEs ns es = false → Expr.refsTList (.ref n) es = false
    | [], _ => rfl
    | e :: es, h => by
      simp only [mEs, Bool.or_eq_false_iff] at h
      simp only [Expr.refsTList, Bool.or_eq_false_iff]; exact ⟨rTL e h.1, rTsL es h.2⟩
  theorem rTL : ∀ e : Expr, mE ns e = false → e.refsT (.ref n) = false
    | .var x, h => by
      simp only [mE] at h
      simp only [Expr.refsT, Bool.or_eq_false_iff, beq_eq_false_iff_ne, ne_eq, DName.ref.injEq]
      refine ⟨?_, by simp⟩
      intro hx; subst hx; rw [List.contains_iff_mem.mpr hn] at h; exact Bool.noConfusion h
    | .field e _, h => by simp only [mE] at h; simp only [Expr.refsT]; exact rEL e h
    | .index e k, h => by
      simp only [mE, Bool.or_eq_false_iff] at h
      simp only [Expr.refsT, Bool.or_eq_false_iff]; exact ⟨rEL e h.1, rEL k h.2⟩
    | .nil, _ | .true, _ | .false, _ | .vararg, _ | .num _, _ | .str _, _ | .paren _, _ | .un _ _, _
    | .bin _ _ _, _ | .call _ _ _ _, _ | .fn _, _ | .table _, _ | .ifx _ _ _ _, _ | .interp _, _
    | .cast _ _, _ | .inst _ _, _ => by simp [Expr.refsT]
  theorem rPairsL : ∀ es : List (Expr × Expr), mPairs ns es = false → Expr.refsPairs (.ref n) es = false
    | [], _ => rfl
    | (a, b) :: rest, h => by
      simp only [mPairs, Bool.or_eq_false_iff] at h
      simp only [Expr.refsPairs, Bool.or_eq_false_iff]; exact ⟨⟨rEL a h.1.1, rEL b h.1.2⟩, rPairsL rest h.2⟩
  theorem rEntriesL : ∀ es : List Entry, mEntries ns es = false → Entry.refsList (.ref n) es = false
    | [], _ => rfl
    | .pos v :: es, h => by
      simp only [mEntries, mEntry, Bool.or_eq_false_iff] at h
      simp only [Entry.refsList, Bool.or_eq_false_iff]; exact ⟨rEL v h.1, rEntriesL es h.2⟩
    | .named _ v :: es, h => by
      simp only [mEntries, mEntry, Bool.or_eq_false_iff] at h
      simp only [Entry.refsList, Bool.or_eq_false_iff]; exact ⟨rEL v h.1, rEntriesL es h.2⟩
    | .keyed k v :: es, h => by
      simp only [mEntries, mEntry, Bool.or_eq_false_iff] at h
      simp only [Entry.refsList, Bool.or_eq_false_iff]; exact ⟨⟨rEL k h.1.1, rEL v h.1.2⟩, rEntriesL es h.2⟩
  theorem rSegsL : ∀ es : List Seg, mSegs ns es = false → Seg.refsList (.ref n) es = false
    | [], _ => rfl
    | .s _ :: es, h => by
      simp only [mSegs, mSeg, Bool.false_or] at h
      simp only [Seg.refsList]; exact rSegsL es h
    | .v e :: es, h => by
      simp only [mSegs, mSeg, Bool.or_eq_false_iff] at h
      simp only [Seg.refsList, Bool.or_eq_false_iff]; exact ⟨rEL e h.1, rSegsL es h.2⟩
  theorem rFL : ∀ f : FnBody, mFn ns f = false → f.refs (.ref n) = false
    | .mk ps _ _ _ _ _ body, h => by
      simp only [mFn, Bool.or_eq_false_iff] at h
      simp only [FnBody.refs, Bool.or_eq_false_iff]; exact ⟨watNames_ref n ps, rBL body h.2⟩
  theorem rSL : ∀ s : Stmt, mS ns s = false → s.refs (.ref n) = false
    | .assign ts vs, h => by
      simp only [mS, Bool.or_eq_false_iff] at h
      simp only [Stmt.refs, Bool.or_eq_false_iff]; exact ⟨rTsL ts h.1, rEsL vs h.2⟩
    | .cassign _ t v, h => by
      simp only [mS, Bool.or_eq_false_iff] at h
      simp only [Stmt.refs, Bool.or_eq_false_iff]; exact ⟨rTL t h.1, rEL v h.2⟩
    | .callStmt c, h => by simp only [mS] at h; simp only [Stmt.refs]; exact rEL c h
    | .doBlock b, h => by simp only [mS] at h; simp only [Stmt.refs]; exact rBL b h
    | .function name m body, h => by
      simp only [mS, Bool.or_eq_false_iff] at h
      simp only [Stmt.refs, Bool.or_eq_false_iff]
      refine ⟨⟨?_, by simp⟩, rFL body h.2⟩
      cases name with
      | nil => rfl
      | cons root rest =>
        have h1 := h.1
        simp only [Bool.or_eq_false_iff, beq_eq_false_iff_ne, ne_eq, DName.ref.injEq]
        refine ⟨?_, by simp⟩
        intro hx; subst hx; simp only [] at h1; rw [List.contains_iff_mem.mpr hn] at h1; exact Bool.noConfusion h1
    | .gfor ns vs body, h => by
      simp only [mS, Bool.or_eq_false_iff] at h
      simp only [Stmt.refs, Bool.or_eq_false_iff]; exact ⟨⟨watNames_ref n ns, rEsL vs h.1.2⟩, rBL body h.2⟩
    | .nfor (.mk x _) a b none body, h => by
      simp only [mS, mEOpt, Bool.or_eq_false_iff] at h
      simp only [Stmt.refs, Bool.or_eq_false_iff]
      exact ⟨⟨⟨by simp, rEL a h.1.1.1.2⟩, rEL b h.1.1.2⟩, rBL body h.2⟩
    | .nfor (.mk x _) a b (some st) body, h => by
      simp only [mS, mEOpt, Bool.or_eq_false_iff] at h
      simp only [Stmt.refs, Bool.or_eq_false_iff]
      exact ⟨⟨⟨⟨by simp, rEL a h.1.1.1.2⟩, rEL b h.1.1.2⟩, rEL st h.1.2⟩, rBL body h.2⟩
    | .ifs branches none, h => by
      simp only [mS, mBOpt, Bool.or_false] at h; simp only [Stmt.refs]; exact rBranchesL branches h
    | .ifs branches (some b), h => by
      simp only [mS, mBOpt, Bool.or_eq_false_iff] at h
      simp only [Stmt.refs, Bool.or_eq_false_iff]; exact ⟨rBranchesL branches h.1, rBL b h.2⟩
    | .localAssign _ ns vs, h => by
      simp only [mS, Bool.or_eq_false_iff] at h
      simp only [Stmt.refs, Bool.or_eq_false_iff]; exact ⟨watNames_ref n ns, rEsL vs h.2⟩
    | .localFn _ _ body, h => by
      simp only [mS] at h
      simp only [Stmt.refs, Bool.or_eq_false_iff]; exact ⟨by simp, rFL body h⟩
    | .repeat_ b c, h => by
      simp only [mS, Bool.or_eq_false_iff] at h
      simp only [Stmt.refs, Bool.or_eq_false_iff]; exact ⟨rBL b h.1, rEL c h.2⟩
    | .while_ c b, h => by
      simp only [mS, Bool.or_eq_false_iff] at h
      simp only [Stmt.refs, Bool.or_eq_false_iff]; exact ⟨rEL c h.1, rBL b h.2⟩
    | .typeDecl _ _ _, _ => rfl
    | .typeFn _ _ _, _ => rfl
  theorem rBranchesL : ∀ bs : List (Expr × Block), mBranches ns bs = false → Stmt.refsBranches (.ref n) bs = false
    | [], _ => rfl
    | (c, b) :: rest, h => by
      simp only [mBranches, Bool.or_eq_false_iff] at h
      simp only [Stmt.refsBranches, Bool.or_eq_false_iff]; exact ⟨⟨rEL c h.1.1, rBL b h.1.2⟩, rBranchesL rest h.2⟩
  theorem rSsL : ∀ ss : List Stmt, mSs ns ss = false → Stmt.refsList (.ref n) ss = false
    | [], _ => rfl
    | s :: ss, h => by
      simp only [mSs, Bool.or_eq_false_iff] at h
      simp only [Stmt.refsList, Bool.or_eq_false_iff]; exact ⟨rSL s h.1, rSsL ss h.2⟩
  theorem rLL : ∀ l : Last, mLast ns l = false → l.refs (.ref n) = false
    | .ret es, h => by simp only [mLast] at h; simp only [Last.refs]; exact rEsL es h
    | .brk, _ => rfl
    | .cont, _ => rfl
  theorem rBL : ∀ b : Block, mB ns b = false → b.refs (.ref n) = false
    | .mk stmts none, h => by
      simp only [mB, Bool.or_false] at h; simp only [Block.refs]; exact rSsL stmts h
    | .mk stmts (some l), h => by
      simp only [mB, Bool.or_eq_false_iff] at h
      simp only [Block.refs, Bool.or_eq_false_iff]; exact ⟨rSsL stmts h.1, rLL l h.2⟩
end

end

end DarkluaModel.C16
