import DarkluaModel.Shared.VisitorSoundHeap
import DarkluaModel.C16.Guard
import DarkluaModel.C16.RefsMentions
import DarkluaModel.Rules.NoLocalFunction
import DarkluaModel.Rules.FunctionToAssign
/-!
# Whole-rule theorems for C16 through the stage-3 lifting (`Shared/VisitorSoundHeap.lean`)

`guardFam fl (heapFam Cx.none)`: on good inputs the hook rewrites by a chain of heap links and the
output is good. `Visitor.runDefault_rel` lifts this to the whole pass, `chain_runProgram` to the
observable outcome of every good program.
-/
namespace DarkluaModel.C16.Whole
open Sem Sem.Heap Rules DarkluaModel.C16

/-- `.fn f ⇝ .fn (erase f)`: the dropped annotations are not part of the heap relation -/
theorem lk_erase (f : FnBody) : (LkE Cx.none) (.fn f) (.fn (erase f)) := by
  cases f with
  | mk ps v vt r g a b => exact lk_fn (lk_fnBody rfl (LkB.refl b))

theorem gF_erase (fl : Guard.Flags) (f : FnBody) : Guard.gF fl (erase f) = Guard.gF fl f := by
  cases f; rfl

/-- identity hooks of a guarded family -/
theorem guard_id_hooks {σ : Type} (fl : Guard.Flags) (P : Processor σ)
    (hexpr : ∀ e s, (P.expr e s).1 = e) (hpref : ∀ e s, (P.pref e s).1 = e) (htarget : ∀ e s, (P.target e s).1 = e)
    (hnode : ∀ e s, (P.node e s).1 = e) (hafter : ∀ e s, (P.afterNode e s).1 = e)
    (hstmtNode : ∀ x s, (P.stmtNode x s).1 = x) (hafterS : ∀ x s, (P.afterStmtNode x s).1 = x)
    (hlast : ∀ x s, (P.last x s).1 = x) (hblock : ∀ b s, (P.block b s).1 = b)
    (hafterB : ∀ b s, (P.afterBlock b s).1 = b) (hscope : ∀ b c s, (P.scope b c s).1 = (b, c))
    (hins : ∀ n s, (P.insert n s).1 = n) (hinsL : ∀ n v s, (P.insertLocal n v s).1 = (n, v))
    (hinsF : ∀ n s, (P.insertLocalFn n s).1 = n)
    (hstmt : ∀ x s, (Guard.guardFam fl (heapFam Cx.none)).relS x (P.stmt x s).1) :
    HooksRel (Guard.guardFam fl (heapFam Cx.none)) P where
  expr := fun e s => by rw [hexpr]; exact (Guard.guardFam fl _).reflE e
  pref := fun e s => by rw [hpref]; exact (Guard.guardFam fl _).reflE e
  target := fun e s => by rw [htarget]; exact (Guard.guardFam fl _).reflT e
  node := fun e s => by rw [hnode]; exact ⟨(Guard.guardFam fl _).reflE e, (Guard.guardFam fl _).reflT e⟩
  afterNode := fun e s => by rw [hafter]; exact ⟨(Guard.guardFam fl _).reflE e, (Guard.guardFam fl _).reflT e⟩
  stmt := hstmt
  stmtNode := fun x s => by rw [hstmtNode]; exact (Guard.guardFam fl _).reflS x
  afterStmtNode := fun x s => by rw [hafterS]; exact (Guard.guardFam fl _).reflS x
  last := fun x s => by rw [hlast]; exact (Guard.guardFam fl _).reflL x
  block := fun b s => by rw [hblock]; exact (Guard.guardFam fl _).reflBo b
  afterBlock := fun b s => by rw [hafterB]; exact (Guard.guardFam fl _).reflBo b
  scopeB := fun b s => by rw [hscope]; exact (Guard.guardFam fl _).reflB b
  scopeR := fun b c s => by
    rw [hscope]
    exact (Guard.guardFam fl _).repOfOpen ((Guard.guardFam fl _).reflBo b) ((Guard.guardFam fl _).reflE c)
  insert := hins
  insertLocalName := fun n v s => by rw [hinsL]
  insertLocalVal := fun n v s => by rw [hinsL]; exact (Guard.guardFam fl _).reflE v
  insertLocalFn := hinsF

/-! ## convert_local_function_to_assign -/

/-- hypothesis: no `local function f` has `f` among its own parameters (anywhere outside type annotations) -/
def nlfFlags : Guard.Flags := ⟨false, true⟩

theorem hasParameter_pnames (name : String) (f : FnBody) :
    NoLocalFunction.hasParameter name f = (Guard.pnames f).contains name := by
  cases f with
  | mk ps v vt r g a b =>
    simp only [NoLocalFunction.hasParameter, Guard.pnames]
    induction ps with
    | nil => rfl
    | cons p ps ih =>
      simp only [List.any_cons, List.map_cons, List.contains_cons, ih]
      rw [Bool.beq_comm]

theorem nlf_stmt (x : Stmt) (s : Unit) :
    (Guard.guardFam nlfFlags (heapFam Cx.none)).relS x (NoLocalFunction.processStatement x s).1 := by
  intro hg
  cases x with
  | localFn kind name body =>
    simp only [NoLocalFunction.processStatement]
    by_cases hc : NoLocalFunction.converts name body = true
    · simp only [hc, if_true, NoLocalFunction.convert]
      simp only [Guard.gS, Bool.and_eq_true, Guard.okLocalFn, nlfFlags, Bool.false_or,
        Bool.not_eq_true'] at hg
      have hpar : NoLocalFunction.hasParameter name body = false := by
        rw [hasParameter_pnames]; exact hg.1
      have hm : Rules.FindVariables.mB [name] (NoLocalFunction.bodyBlock body) = false := by
        simpa [NoLocalFunction.converts, hpar] using hc
      have href : body.refs (.ref name) = false := by
        cases body with
        | mk ps v vt r g a b =>
          simp only [FnBody.refs, Bool.or_eq_false_iff]
          exact ⟨watNames_ref name ps, rB name b hm⟩
      refine ⟨?_, ?_⟩
      · exact Chain.trans (.single (LkS.localFnToAssign (kind' := kind) (ty := none) href))
          (.single (lk_localAssign rfl (.cons (lk_erase body) .nil)))
      · simp only [Guard.gS, Guard.gEs, Guard.gE, Bool.and_true, gF_erase]
        exact hg.2
    · simp only [hc]
      exact ⟨.refl _, hg⟩
  | _ => exact ⟨.refl _, hg⟩

theorem nlf_hooks : HooksRel (Guard.guardFam nlfFlags (heapFam Cx.none)) NoLocalFunction.processor :=
  guard_id_hooks nlfFlags _ (fun _ _ => rfl) (fun _ _ => rfl) (fun _ _ => rfl) (fun _ _ => rfl) (fun _ _ => rfl)
    (fun _ _ => rfl) (fun _ _ => rfl) (fun _ _ => rfl) (fun _ _ => rfl) (fun _ _ => rfl) (fun _ _ _ => rfl)
    (fun _ _ => rfl) (fun _ _ _ => rfl) (fun _ _ => rfl) nlf_stmt

/-- **whole rule**: on every program in which no local function is its own parameter,
`convert_local_function_to_assign` preserves the observable outcome (returned values / raised
error, external-call trace), for every number system, oracle and call level. -/
theorem local_function_rule_refines (b : Block) (hg : Guard.Good nlfFlags b = true)
    {N : NumOps} (ρ : ExtOracle N) (n : Nat) (externs : List String) :
    runProgram ρ n externs (NoLocalFunction.apply b) = runProgram ρ n externs b :=
  chain_runProgram (cx := Cx.none) (Visitor.runDefault_rel nlf_hooks b () hg).1 (fun _ h => by cases h) ρ n externs
    (fun _ h => by cases h)

/-! ## convert_function_to_assignment -/

/-- hypothesis: every function statement has at most one key after its root identifier
(`function f`, `function a.f`, `function a:m`) -/
def ftaFlags : Guard.Flags := ⟨true, false⟩

theorem fta_stmt (x : Stmt) (s : Unit) :
    (Guard.guardFam ftaFlags (heapFam Cx.none)).relS x (FunctionToAssign.processStatement x s).1 := by
  intro hg
  cases x with
  | function name m body =>
    have hg0 := hg
    simp only [Guard.gS, Bool.and_eq_true, Guard.okFunction, ftaFlags, Bool.false_or, decide_eq_true_eq] at hg
    cases name with
    | nil => exact ⟨.refl _, hg0⟩
    | cons root fields =>
      simp only [FunctionToAssign.processStatement, FunctionToAssign.convert]
      -- the exact step to the assignment with the un-erased function
      have hex : EqS (.function (root :: fields) m body)
          (.assign [FunctionToAssign.target (.var root) (FunctionToAssign.keysOf fields m)]
            [.fn (FunctionToAssign.withSelf m body)]) := by
        intro N call ρ k env σ
        cases fields with
        | nil =>
          cases m with
          | none =>
            have hw : FunctionToAssign.withSelf none body = body := by cases body; rfl
            rw [hw]
            exact FunctionToAssign.global_exact call ρ k env root body σ
          | some mm => exact FunctionToAssign.single_exact call ρ k env root [] (some mm) body mm rfl σ
        | cons f rest =>
          cases m with
          | none =>
            cases rest with
            | nil => exact FunctionToAssign.single_exact call ρ k env root [f] none body f rfl σ
            | cons g rest' => (exfalso; simp at hg <;> omega)
          | some mm => (exfalso; simp at hg <;> omega)
      have hnr : ∀ D, WatOK Cx.none D → NoRefS D (.function (root :: fields) m body) →
          NoRefS D (.assign [FunctionToAssign.target (.var root) (FunctionToAssign.keysOf fields m)]
            [.fn (FunctionToAssign.withSelf m body)]) := by
        intro D _ hn x hx
        have h0 := hn x hx
        cases body with
        | mk ps v vt r g a b =>
          cases fields with
          | nil =>
            cases m with
            | none =>
              simpa [Stmt.refs, Expr.refsTList, Expr.refsT, Expr.refsList, Expr.refs, FunctionToAssign.target,
                FunctionToAssign.keysOf, FunctionToAssign.withSelf, FnBody.refs] using h0
            | some mm =>
              simp only [Stmt.refs, FnBody.refs, Option.isSome_some, Bool.true_and, Bool.or_eq_false_iff] at h0
              simp [Stmt.refs, Expr.refsTList, Expr.refsT, Expr.refsList, Expr.refs, FunctionToAssign.target,
                FunctionToAssign.keysOf, FunctionToAssign.withSelf, FnBody.refs, watNames, h0.1.1.1, h0.1.2,
                h0.2.1, h0.2.2]
          | cons f rest =>
            cases m with
            | none =>
              cases rest with
              | nil =>
                simp only [Stmt.refs, FnBody.refs, Bool.or_eq_false_iff] at h0
                simp [Stmt.refs, Expr.refsTList, Expr.refsT, Expr.refsList, Expr.refs, FunctionToAssign.target,
                  FunctionToAssign.keysOf, FunctionToAssign.withSelf, FnBody.refs, h0.1.1.1, h0.2.1, h0.2.2]
              | cons g rest' => (exfalso; simp at hg <;> omega)
            | some mm => (exfalso; simp at hg <;> omega)
      refine ⟨?_, ?_⟩
      · exact Chain.trans (.single (LkS.ofEq hex hnr))
          (.single (lk_assign (Forall2.refl LkT.refl _) (.cons (lk_erase _) .nil)))
      · have hgt : Guard.gE ftaFlags (FunctionToAssign.target (.var root) (FunctionToAssign.keysOf fields m)) = true := by
          generalize FunctionToAssign.keysOf fields m = ks
          have : ∀ (base : Expr), Guard.gE ftaFlags base = true →
              Guard.gE ftaFlags (FunctionToAssign.target base ks) = true := by
            induction ks with
            | nil => intro base h; exact h
            | cons k ks ih => intro base h; exact ih (.field base k) (by simpa [Guard.gE] using h)
          exact this _ (by simp [Guard.gE])
        have hgf : Guard.gF ftaFlags (FunctionToAssign.withSelf m body) = Guard.gF ftaFlags body := by
          cases body; cases m <;> rfl
        simp only [Guard.gS, Guard.gEs, Guard.gE, Bool.and_true, gF_erase, hgt, hgf, Bool.true_and]
        exact hg.2
  | _ => exact ⟨.refl _, hg⟩

theorem fta_hooks : HooksRel (Guard.guardFam ftaFlags (heapFam Cx.none)) FunctionToAssign.processor :=
  guard_id_hooks ftaFlags _ (fun _ _ => rfl) (fun _ _ => rfl) (fun _ _ => rfl) (fun _ _ => rfl) (fun _ _ => rfl)
    (fun _ _ => rfl) (fun _ _ => rfl) (fun _ _ => rfl) (fun _ _ => rfl) (fun _ _ => rfl) (fun _ _ _ => rfl)
    (fun _ _ => rfl) (fun _ _ _ => rfl) (fun _ _ => rfl) fta_stmt

/-- **whole rule**: on every program whose function statements have at most one key after the root
(`function f`, `function a.f`, `function a:m` — the implicit `self` included),
`convert_function_to_assignment` preserves the observable outcome. -/
theorem function_to_assign_rule_refines (b : Block) (hg : Guard.Good ftaFlags b = true)
    {N : NumOps} (ρ : ExtOracle N) (n : Nat) (externs : List String) :
    runProgram ρ n externs (FunctionToAssign.apply b) = runProgram ρ n externs b :=
  chain_runProgram (cx := Cx.none) (Visitor.runDefault_rel fta_hooks b () hg).1 (fun _ h => by cases h) ρ n externs
    (fun _ h => by cases h)

end DarkluaModel.C16.Whole
