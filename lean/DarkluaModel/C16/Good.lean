import DarkluaModel.Shared.Ast
import DarkluaModel.Shared.Sem
/-!
`Good fl b` — the decidable syntactic hypotheses of the C16 whole-rule theorems (`C16/Whole.lean`):
every `local function` / function statement of the program (outside type annotations, which are
never evaluated) has an allowed shape. Import-light: the driver exposes it as `c16.good`.
-/
namespace DarkluaModel.C16.Guard

structure Flags where
  /-- allow `local function f(…, f, …)` -/
  ownParam : Bool
  /-- allow `function a.b.c…` with two or more keys after the root -/
  longNames : Bool

def pnames : FnBody → List String
  | .mk ps _ _ _ _ _ _ => ps.map TName.name

def okLocalFn (fl : Flags) (name : String) (f : FnBody) : Bool :=
  fl.ownParam || !((pnames f).contains name)

def okFunction (fl : Flags) (name : List String) (m : Option String) : Bool :=
  fl.longNames || decide (name.length + (if m.isSome then 1 else 0) ≤ 2)

variable (fl : Flags)

mutual
  def gE : Expr → Bool
    | .paren e => gE e
    | .un _ e => gE e
    | .bin _ l r => gE l && gE r
    | .call f _ _ args => gE f && gEs args
    | .field e _ => gE e
    | .index e k => gE e && gE k
    | .fn body => gF body
    | .table es => gEntries es
    | .ifx c t elifs e => gE c && gE t && gPairs elifs && gE e
    | .interp segs => gSegs segs
    | .cast e _ => gE e
    | .inst e _ => gE e
    | _ => true
  def gEs : List Expr → Bool
    | [] => true
    | e :: es => gE e && gEs es
  def gPairs : List (Expr × Expr) → Bool
    | [] => true
    | (a, b) :: rest => gE a && gE b && gPairs rest
  def gEntries : List Entry → Bool
    | [] => true
    | .pos v :: es => gE v && gEntries es
    | .named _ v :: es => gE v && gEntries es
    | .keyed k v :: es => gE k && gE v && gEntries es
  def gSegs : List Seg → Bool
    | [] => true
    | .s _ :: es => gSegs es
    | .v e :: es => gE e && gSegs es
  def gF : FnBody → Bool
    | .mk _ _ _ _ _ _ body => gB body
  def gS : Stmt → Bool
    | .assign ts vs => gEs ts && gEs vs
    | .cassign _ t v => gE t && gE v
    | .callStmt c => gE c
    | .doBlock b => gB b
    | .function name m body => okFunction fl name m && gF body
    | .gfor _ vs body => gEs vs && gB body
    | .nfor _ a b none body => gE a && gE b && gB body
    | .nfor _ a b (some st) body => gE a && gE b && gE st && gB body
    | .ifs branches none => gBranches branches
    | .ifs branches (some b) => gBranches branches && gB b
    | .localAssign _ _ vs => gEs vs
    | .localFn _ name body => okLocalFn fl name body && gF body
    | .repeat_ b c => gB b && gE c
    | .while_ c b => gE c && gB b
    | .typeDecl _ _ _ => true
    | .typeFn _ _ _ => true
  def gBranches : List (Expr × Block) → Bool
    | [] => true
    | (c, b) :: rest => gE c && gB b && gBranches rest
  def gSs : List Stmt → Bool
    | [] => true
    | s :: ss => gS s && gSs ss
  def gL : Last → Bool
    | .ret es => gEs es
    | _ => true
  def gB : Block → Bool
    | .mk stmts none => gSs stmts
    | .mk stmts (some l) => gSs stmts && gL l
end

/-- the decidable hypothesis of the whole-rule theorems -/
def Good (b : Block) : Bool := gB fl b

end DarkluaModel.C16.Guard
