import DarkluaModel.Shared.AstSexp
import DarkluaModel.Shared.FloatOps
import DarkluaModel.Rules.GroupLocal
import DarkluaModel.Rules.NoLocalFunction
import DarkluaModel.Rules.FunctionToAssign
import DarkluaModel.Rules.RemoveMethodCall
import DarkluaModel.Rules.ConvertSquareRootCall
import DarkluaModel.C16.Good
/-!
Line-protocol handlers for property C16:
* `c16.rule <rule-name-hex> <block>` → transformed block | `unmodelled` | `unknown-rule` | `bad-request`
* `c16.rules` → the modelled rule names
* `c16.h <rule-name-hex> <block>` → `true`/`false`: is the program inside the decidable hypothesis
  of the rule's `_partial` theorem (`true` for the rules whose theorem has none)
* `c16.good <rule-name-hex> <block>` → `true`/`false`/`none`: is the program inside the decidable hypothesis
  of the rule's WHOLE-RULE theorem (`none`: the rule has no whole-rule theorem)
* `c16.mentions <name-hex> <block>` → `true`/`false`: `FindVariables(name)` over the block
* `c16.sqrtlaw <f64 wire>` → `true`/`false`: does `sqrt x = pow x 0.5` hold bit-exactly for this
  double on the executable `NumOps` instance (the hypothesis of `sqrt_call_exact`, per value)
-/
namespace DarkluaModel.C16

def ruleNames : List String :=
  ["group_local_assignment", "convert_local_function_to_assign", "convert_function_to_assignment",
   "remove_method_call", "convert_square_root_call"]

/-- `none`: unknown rule; `some none`: the model does not cover this input -/
def applyRule (name : String) (b : Block) : Option (Option Block) :=
  match name with
  | "group_local_assignment" => some (some (Rules.GroupLocal.apply b))
  | "convert_local_function_to_assign" => some (some (Rules.NoLocalFunction.apply b))
  | "convert_function_to_assignment" => some (some (Rules.FunctionToAssign.apply b))
  | "remove_method_call" => some (some (Rules.RemoveMethodCall.apply b))
  | "convert_square_root_call" => some (Rules.ConvertSquareRootCall.apply b)
  | _ => none

def hypothesis (name : String) (b : Block) : Option Bool :=
  match name with
  | "remove_method_call" => some (Rules.RemoveMethodCall.receiversStable b)
  | "group_local_assignment" | "convert_local_function_to_assign" | "convert_function_to_assignment"
  | "convert_square_root_call" => some true
  | _ => none

/-- hypothesis of the whole-rule theorem (`C16/Whole.lean`); same flags as `nlfFlags` / `ftaFlags` there -/
def goodFor (name : String) (b : Block) : Option Bool :=
  match name with
  | "convert_local_function_to_assign" => some (Guard.Good ⟨false, true⟩ b)
  | "convert_function_to_assignment" => some (Guard.Good ⟨true, false⟩ b)
  | _ => none

def boolTok (b : Bool) : String := if b then "true" else "false"

def handle (op : String) (args : List String) : String :=
  match op, Sexp.parseArgs args with
  | "rule", some [name, block] =>
    match nameOfSexp? name, Block.ofSexp? block with
    | some n, some b =>
      match applyRule n b with
      | some (some b') => b'.toSexp.toString
      | some none => "unmodelled"
      | none => "unknown-rule"
    | _, _ => "bad-request"
  | "rules", _ => " ".intercalate ruleNames
  | "h", some [name, block] =>
    match nameOfSexp? name, Block.ofSexp? block with
    | some n, some b =>
      match hypothesis n b with
      | some r => boolTok r
      | none => "unknown-rule"
    | _, _ => "bad-request"
  | "good", some [name, block] =>
    match nameOfSexp? name, Block.ofSexp? block with
    | some n, some b =>
      match goodFor n b with
      | some r => boolTok r
      | none => "none"
    | _, _ => "bad-request"
  | "mentions", some [name, block] =>
    match nameOfSexp? name, Block.ofSexp? block with
    | some n, some b => boolTok (Rules.FindVariables.mB [n] b)
    | _, _ => "bad-request"
  | "sqrtlaw", some [.atom w] =>
    match wireToFloat? w with
    | some x =>
      boolTok (floatOps.toBits (floatOps.sqrt x)
        == floatOps.toBits (floatOps.pow x (floatOps.ofBits Rules.ConvertSquareRootCall.halfBits)))
    | none => "bad-request"
  | _, _ => "unknown-op " ++ op

end DarkluaModel.C16
