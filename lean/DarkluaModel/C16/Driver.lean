import DarkluaModel.Util.Sexp
/-! Line-protocol handlers for property C16 (stub: nothing modelled yet). -/
namespace DarkluaModel.C16

def handle (op : String) (_args : List String) : String :=
  "unknown-op " ++ op

end DarkluaModel.C16
