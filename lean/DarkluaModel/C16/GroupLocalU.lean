import DarkluaModel.Shared.VisitorSoundHeapU
import DarkluaModel.Rules.GroupLocal
import DarkluaModel.C16.RefsMentions
/-!
# `group_local_assignment`: the merge of two consecutive `local` declarations as a generic `HeapU` leaf

Helper lemmas: one-sided pinned allocation of the cells of the first declaration (`bindLocalsLeftPinned`) and
their late match with the cells the merged declaration allocates (`bindLocalsMatch`).
-/
namespace DarkluaModel.C16.GroupU
open Sem Sem.HeapU
variable {N : NumOps} {Q : QRel}

abbrev cx0 : Cx := Cx.none

/-- the environment `bindLocals` builds (independent of the values) -/
def pairUp : List String → Nat → List (String × Nat) → List (String × Nat)
  | [], _, l => l
  | n :: ns, c, l => pairUp ns (c + 1) ((n, c) :: l)

theorem bindLocals_env (ns : List String) (vs : List (Val N)) (l : List (String × Nat)) (σ : State N) :
    (bindLocals ns vs l σ).1 = pairUp ns σ.cells.length l := by
  induction ns generalizing vs l σ with
  | nil => rfl
  | cons n ns ih =>
    simp only [bindLocals, pairUp]
    rw [ih]
    simp [State.allocCell]

theorem bindLocals_cells (ns : List String) (vs : List (Val N)) (l : List (String × Nat)) (σ : State N) :
    (bindLocals ns vs l σ).2.cells.length = σ.cells.length + ns.length := by
  induction ns generalizing vs l σ with
  | nil => rfl
  | cons n ns ih =>
    simp only [bindLocals]
    rw [ih]
    simp [State.allocCell]; omega

/-- the cells of dead names, allocated on the LEFT only, each with its content pinned -/
theorem bindLocalsLeftPinned {β : Inj N} {σ σ' : State N} (h : SRel Q cx0 β σ σ') {D : List DName} (ns : List String)
    (hns : ∀ n ∈ ns, DName.ref n ∈ D ∧ DName.wat n ∉ D) (vs : List (Val N)) {l l' : List (String × Nat)}
    (he : EnvRel cx0 β D l l') :
    ∃ β', β.le β' ∧ SRel Q cx0 β' (bindLocals ns vs l σ).2 σ' ∧ EnvRel cx0 β' D (bindLocals ns vs l σ).1 l' ∧
      ∀ i, i < ns.length → (σ.cells.length + i, first (vs.drop i)) ∈ β'.pinCL := by
  induction ns generalizing vs l σ β with
  | nil => exact ⟨β, β.le_refl, h, he, fun i hi => absurd hi (Nat.not_lt_zero _)⟩
  | cons n ns ih =>
    simp only [bindLocals]
    have h1 := h.allocCellLeftPinned (first vs) trivial
    have hle1 := h.le_allocCellLeftPinned (first vs)
    have hp0 : (σ.cells.length, first vs) ∈
        ((β.bump (σ.allocCell (first vs)).2 σ').repinCL σ.cells.length (first vs)).pinCL := by
      simp [Inj.repinCL]
    obtain ⟨β', hle, hs, henv, hpins⟩ := ih h1 (fun m hm => hns m (List.mem_cons_of_mem _ hm)) (vs.drop 1)
      ((he.mono hle1).consLeft n _ (hns n List.mem_cons_self).1 (hns n List.mem_cons_self).2)
    refine ⟨β', Inj.le_trans hle1 hle, hs, henv, fun i hi => ?_⟩
    cases i with
    | zero => simpa using hle.pinsCL _ hp0
    | succ j =>
      have := hpins j (by simpa using hi)
      simp only [State.allocCell, List.length_append, List.length_singleton, List.drop_drop] at this
      rw [Nat.add_comm j 1]
      have e : σ.cells.length + 1 + j = σ.cells.length + (1 + j) := by omega
      rw [e] at this
      exact this

theorem vrel_matchC {β : Inj N} {a b : Nat} {v v' : Val N} (h : VRel β v v') : VRel (β.matchC a b) v v' := by
  cases v <;> cases v' <;> simp only [VRel, Inj.matchC] at h ⊢ <;> exact h

/-- what survives a late match: tables / closures injections unchanged, cell pairs kept -/
structure CExt (β β' : Inj N) : Prop where
  t : β'.t = β.t
  f : β'.f = β.f
  c : ∀ x y, β.c x y → β'.c x y

theorem CExt.refl (β : Inj N) : CExt β β := ⟨rfl, rfl, fun _ _ h => h⟩
theorem CExt.trans {a b c : Inj N} (h1 : CExt a b) (h2 : CExt b c) : CExt a c :=
  ⟨h2.t.trans h1.t, h2.f.trans h1.f, fun x y h => h2.c x y (h1.c x y h)⟩
theorem CExt.vrel {β β' : Inj N} (h : CExt β β') {v v' : Val N} (hv : VRel β v v') : VRel β' v v' := by
  cases v <;> cases v' <;> simp only [VRel, h.t, h.f] at hv ⊢ <;> exact hv
theorem CExt.vsrel {β β' : Inj N} (h : CExt β β') {vs vs' : List (Val N)} (hv : VsRel β vs vs') : VsRel β' vs vs' :=
  Forall2.imp (fun _ _ => h.vrel) hv
theorem CExt.env {β β' : Inj N} (h : CExt β β') {D l l'} (he : EnvRel cx0 β D l l') : EnvRel cx0 β' D l l' :=
  ⟨fun n hn => OptRel.imp h.c (he.rel n hn), he.dw, he.wb⟩
theorem cext_matchC (β : Inj N) (a b : Nat) : CExt β (β.matchC a b) := ⟨rfl, rfl, fun _ _ h => .inl h⟩

/-- the pinned left cells `c0, c0+1, …` are matched, in order, with the cells a `bindLocals` on the RIGHT allocates -/
theorem bindLocalsMatch {β0 β : Inj N} {s s' : State N} (h : SRel Q cx0 β s s') (h0 : β0.le β) {D : List DName}
    (ns : List String) (hw : ∀ n ∈ ns, DName.wat n ∉ D) (c0 : Nat) (vs vs' : List (Val N))
    (hpins : ∀ i, i < ns.length → (c0 + i, first (vs.drop i)) ∈ β.pinCL) (hv : VsRel β vs vs')
    (hcL : β0.cL ≤ c0) (hcR : β0.cR ≤ s'.cells.length) (hnp : ∀ p ∈ β0.pinCL, p.1 < c0)
    {l l' : List (String × Nat)} (he : EnvRel cx0 β D l l') :
    ∃ β', β0.le β' ∧ CExt β β' ∧ SRel Q cx0 β' s (bindLocals ns vs' l' s').2 ∧
      EnvRel cx0 β' D (pairUp ns c0 l) (bindLocals ns vs' l' s').1 := by
  induction ns generalizing c0 vs vs' l l' s' β with
  | nil => exact ⟨β, h0, CExt.refl β, h, he⟩
  | cons n ns ih =>
    have hp0 : (c0, first vs) ∈ β.pinCL := by simpa using hpins 0 (by simp)
    have h1 := h.matchCellRight hp0 (VRel.first hv) trivial
    have h01 : β0.le (β.matchC c0 s'.cells.length) :=
      le_lateC h0 hcL hcR (fun p hp => Nat.ne_of_lt (hnp p hp))
    have hx := cext_matchC β c0 s'.cells.length
    obtain ⟨β', hle, hext, hs, henv⟩ := ih h1 h01 (fun m hm => hw m (List.mem_cons_of_mem _ hm)) (c0 + 1)
      (vs.drop 1) (vs'.drop 1)
      (fun i hi => by
        have := hpins (i + 1) (by simpa using hi)
        simp only [Inj.matchC, List.mem_filter, List.drop_drop]
        refine ⟨?_, by simp; omega⟩
        have e : c0 + 1 + i = c0 + (i + 1) := by omega
        rw [e, Nat.add_comm 1 i]
        exact this)
      (hx.vsrel (hv.drop 1)) (by omega) (by simp [State.allocCell]; omega) (fun p hp => by have := hnp p hp; omega)
      ((hx.env he).cons n (hw n List.mem_cons_self) (.inr ⟨rfl, rfl⟩))
    have e1 : (s'.allocCell (first vs')).1 = s'.cells.length := rfl
    exact ⟨β', hle, hx.trans hext, by simpa [bindLocals, e1] using hs, by simpa [bindLocals, pairUp, e1] using henv⟩

open Rules.GroupLocal in
/-- `evalFirsts` is `evalEs` followed by truncation, on every path -/
theorem evalFirsts_eq (call : CallFn N) (ρ : ExtOracle N) (k : Nat) (env : Env N) (es : List Expr) (σ : State N) :
    evalFirsts call ρ k env es σ = (evalEs call ρ k env es σ).bind fun ws s => .ok (padTake es.length ws) s := by
  induction es generalizing σ with
  | nil => simp [evalFirsts, evalEs, Res.bind, padTake]
  | cons e es ih =>
    cases es with
    | nil =>
      simp only [evalFirsts, evalEs]
      cases evalE call ρ k env e σ <;> simp [Res.bind, padTake]
    | cons e' es' =>
      rw [evalFirsts, evalEs]
      cases evalE call ρ k env e σ with
      | ok vs s1 =>
        simp only [Res.bind]
        rw [ih s1]
        cases evalEs call ρ k env (e' :: es') s1 <;> simp [Res.bind, padTake, first]
      | err v s1 => simp [Res.bind]
      | timeout => simp [Res.bind]
      · simp

open Rules.GroupLocal in
theorem first_drop_padTake (n i : Nat) (ws : List (Val N)) (hi : i < n) :
    first ((padTake n ws).drop i) = first (ws.drop i) := by
  induction n generalizing i ws with
  | zero => omega
  | succ n ih =>
    cases i with
    | zero => simp [padTake, first]
    | succ j =>
      simp only [padTake, List.drop_succ_cons]
      rw [ih j (ws.drop 1) (by omega)]
      simp

open Rules.GroupLocal in
theorem padTake_rel {β : Inj N} (n : Nat) {ws ws' : List (Val N)} (h : VsRel β ws ws') :
    VsRel β (padTake n ws) (padTake n ws') := by
  induction n generalizing ws ws' with
  | zero => exact .nil
  | succ n ih => exact .cons (VRel.first h) (ih (h.drop 1))

open Rules.GroupLocal in
/-- **the merge as a generic leaf** (second declaration WITH values). `r1` is what the merged statement evaluates for
the first variables: `vs1` itself (as many values as variables) or one `nil` per variable (`vs1 = []`); `hr1` says so. -/
theorem merge_sound (hq : QRefl Q) {D : List DName} (k1 k2 km : LocalKind) (ns1 ns2 : List TName)
    (vs1 r1 vs2 : List Expr) (rest : List Stmt) (hv2 : vs2 ≠ [])
    (hr1 : ∀ (N : NumOps) (call : CallFn N) (ρ : ExtOracle N) (k : Nat) (env : Env N) (σ : State N),
      evalFirsts call ρ k env r1 σ = (evalEs call ρ k env vs1 σ).bind fun ws s => .ok (padTake ns1.length ws) s)
    (hn1 : NoRefEs D vs1) (hn2 : NoRefEs (Heap.refNames ns1 ++ D) vs2) (hnrest : NoRefSs D rest)
    (hw1 : ∀ n ∈ ns1.map TName.name, DName.wat n ∉ D) (hw2 : ∀ n ∈ ns2.map TName.name, DName.wat n ∉ D) :
    SoundSs Q cx0 D (.localAssign k1 ns1 vs1 :: .localAssign k2 ns2 vs2 :: rest)
      (.localAssign km (ns1 ++ ns2) (r1 ++ vs2) :: rest) D := by
  refine ⟨DSub.refl D, ?_⟩
  intro N call ρ k env env' σ σ' β hp hs he
  simp only [execSs, execS, evalEs_append call ρ k env' r1 vs2 hv2, hr1]
  have h1 := reflEs hq vs1 D hn1 N call ρ k env env' σ σ' β hp hs he
  revert h1
  generalize evalEs call ρ k env vs1 σ = rl
  generalize evalEs call ρ k env' vs1 σ' = rr
  intro h1
  cases rl <;> cases rr <;> simp only [HeapU.RRel] at h1
  · rename_i ws1 s1 ws1' s1'
    obtain ⟨β1, hle1, hvs1, hs1⟩ := h1
    simp only [Res.bind]
    have hD2 : DSub D (Heap.refNames ns1 ++ D) := DSub.refs (ns1.map TName.name) D
    obtain ⟨β2, hle2, hs2, he2, hpins⟩ := bindLocalsLeftPinned hs1 (D := Heap.refNames ns1 ++ D)
      (ns1.map TName.name) (refNames_ok hw1) ws1 ((he.mono hle1).loc.weaken hD2)
    have h2 := reflEs hq vs2 _ hn2 N call ρ k
      ⟨(bindLocals (ns1.map TName.name) ws1 env.locals s1).1, env.varargs⟩ env' _ s1' β2 hp hs2
      ⟨VsRel.mono (Inj.le_trans hle1 hle2) he.va, he2⟩
    revert h2
    generalize evalEs call ρ k ⟨(bindLocals (ns1.map TName.name) ws1 env.locals s1).1, env.varargs⟩ vs2
      (bindLocals (ns1.map TName.name) ws1 env.locals s1).2 = rl2
    generalize evalEs call ρ k env' vs2 s1' = rr2
    intro h2
    cases rl2 <;> cases rr2 <;> simp only [HeapU.RRel] at h2
    · rename_i ws2 s3 ws2' s3'
      obtain ⟨β3, hle3, hvs2, hs3⟩ := h2
      simp only []
      have hlen1 : (ns1.map TName.name).length = ns1.length := List.length_map _
      have hright : bindLocals (List.map TName.name (ns1 ++ ns2)) (padTake ns1.length ws1' ++ ws2') env'.locals s3'
          = bindLocals (ns2.map TName.name) ws2'
              (bindLocals (ns1.map TName.name) (padTake ns1.length ws1') env'.locals s3').1
              (bindLocals (ns1.map TName.name) (padTake ns1.length ws1') env'.locals s3').2 := by
        rw [List.map_append, bindLocals_append, hlen1, List.drop_left' (length_padTake _ _)]
        rw [← bindLocals_padTake (ns1.map TName.name) (padTake ns1.length ws1' ++ ws2'), hlen1,
          padTake_append _ _ _ (length_padTake _ _)]
      rw [hright, bindLocals_env (ns1.map TName.name) ws1]
      have hle13 := Inj.le_trans hle2 hle3
      obtain ⟨β4, h04, hext, hs4, he4⟩ := bindLocalsMatch hs3 hle13 (D := D) (ns1.map TName.name) hw1 s1.cells.length
        (padTake ns1.length ws1) (padTake ns1.length ws1')
        (fun i hi => by
          rw [first_drop_padTake _ _ _ (by simpa using hi)]
          exact hle3.pinsCL _ (hpins i hi))
        (padTake_rel _ (VsRel.mono hle13 hvs1)) hs1.front.cL
        (Nat.le_trans hle13.front.2.1 hs3.front.cR)
        (fun p hp0 => getElem?_lt (hs1.pinCl p hp0).1)
        (l := env.locals) (l' := env'.locals) ((he.mono (Inj.le_trans hle1 hle13)).loc)
      obtain ⟨β5, hle5, hs5, he5⟩ := hs4.bindLocals (D := D) (ns2.map TName.name) hw2 (hext.vsrel hvs2) he4
      have hle05 : β.le β5 := Inj.le_trans hle1 (Inj.le_trans h04 hle5)
      exact RRel.mono hle05 ((reflSs hq rest D hnrest).2 N call ρ k _ _ _ _ β5 hp hs5
        ⟨VsRel.mono hle05 he.va, he5⟩)
    all_goals first
      | (obtain ⟨β3, hle3, hv, hs3⟩ := h2; exact ⟨β3, Inj.le_trans hle1 (Inj.le_trans hle2 hle3), hv, hs3⟩)
      | trivial
      | (exact absurd h2 (by decide))
  all_goals first
    | (obtain ⟨β1, hle1, hv, hs1⟩ := h1; exact ⟨β1, hle1, hv, hs1⟩)
    | trivial
    | (exact absurd h1 (by decide))

open Rules.GroupLocal in
theorem padTake_nil (n : Nat) : padTake (N := N) n [] = List.replicate n .nil := by
  induction n with
  | zero => rfl
  | succ n ih => simp [padTake, first, List.replicate, ih]

open Rules.GroupLocal in
/-- **the merge as a generic leaf** (second declaration WITHOUT values): nothing is evaluated between the two
allocations, both sides allocate in the same order. `R` is what the merged statement evaluates; `hR`/`hg` say it
gives the values of `vs1` followed by `nil`s. -/
theorem merge_sound_empty (hq : QRefl Q) {D : List DName} (k1 k2 km : LocalKind) (ns1 ns2 : List TName)
    (vs1 R : List Expr) (rest : List Stmt) (g : {N : NumOps} → List (Val N) → List (Val N))
    (hR : ∀ (N : NumOps) (call : CallFn N) (ρ : ExtOracle N) (k : Nat) (env : Env N) (σ : State N),
      evalEs call ρ k env R σ = (evalEs call ρ k env vs1 σ).bind fun ws s => .ok (g ws) s)
    (hg : ∀ (N : NumOps) (call : CallFn N) (ρ : ExtOracle N) (k : Nat) (env : Env N) (σ s : State N)
      (ws : List (Val N)), evalEs call ρ k env vs1 σ = .ok ws s →
      padTake (ns1.length + ns2.length) (g ws) = padTake ns1.length ws ++ List.replicate ns2.length .nil)
    (hn1 : NoRefEs D vs1) (hnrest : NoRefSs D rest)
    (hw1 : ∀ n ∈ ns1.map TName.name, DName.wat n ∉ D) (hw2 : ∀ n ∈ ns2.map TName.name, DName.wat n ∉ D) :
    SoundSs Q cx0 D (.localAssign k1 ns1 vs1 :: .localAssign k2 ns2 [] :: rest)
      (.localAssign km (ns1 ++ ns2) R :: rest) D := by
  refine ⟨DSub.refl D, ?_⟩
  intro N call ρ k env env' σ σ' β hp hs he
  simp only [execSs, execS, hR]
  have h1 := reflEs hq vs1 D hn1 N call ρ k env env' σ σ' β hp hs he
  revert h1
  generalize evalEs call ρ k env vs1 σ = rl
  generalize hrr : evalEs call ρ k env' vs1 σ' = rr
  intro h1
  cases rl <;> cases rr <;> simp only [HeapU.RRel] at h1
  · rename_i ws1 s1 ws1' s1'
    obtain ⟨β1, hle1, hvs1, hs1⟩ := h1
    simp only [Res.bind, evalEs]
    have hlen1 : (ns1.map TName.name).length = ns1.length := List.length_map _
    have hlen2 : (ns2.map TName.name).length = ns2.length := List.length_map _
    have hright : bindLocals (List.map TName.name (ns1 ++ ns2)) (g ws1') env'.locals s1'
        = bindLocals (ns2.map TName.name) []
            (bindLocals (ns1.map TName.name) ws1' env'.locals s1').1
            (bindLocals (ns1.map TName.name) ws1' env'.locals s1').2 := by
      rw [← bindLocals_padTake (List.map TName.name (ns1 ++ ns2)) (g ws1'), List.map_append, List.length_append,
        hlen1, hlen2, hg N call ρ k env' σ' s1' ws1' hrr, bindLocals_append, hlen1, List.drop_left' (length_padTake _ _)]
      rw [← bindLocals_padTake (ns1.map TName.name) (padTake ns1.length ws1' ++ _), hlen1,
        padTake_append _ _ _ (length_padTake _ _), ← hlen1, bindLocals_padTake]
      rw [← bindLocals_padTake (ns2.map TName.name) (List.replicate _ _), hlen2, padTake_replicate, ← hlen2,
        bindLocals_padTake]
    rw [hright]
    obtain ⟨β2, hle2, hs2, he2⟩ := hs1.bindLocals (D := D) (ns1.map TName.name) hw1 hvs1 (he.mono hle1).loc
    obtain ⟨β3, hle3, hs3, he3⟩ := hs2.bindLocals (D := D) (ns2.map TName.name) hw2 (vs := []) (vs' := []) .nil he2
    have hle03 : β.le β3 := Inj.le_trans hle1 (Inj.le_trans hle2 hle3)
    exact RRel.mono hle03 ((reflSs hq rest D hnrest).2 N call ρ k _ _ _ _ β3 hp hs3
      ⟨VsRel.mono hle03 he.va, he3⟩)
  all_goals first
    | (obtain ⟨β1, hle1, hv, hs1⟩ := h1; exact ⟨β1, hle1, hv, hs1⟩)
    | trivial
    | (exact absurd h1 (by decide))

end DarkluaModel.C16.GroupU
