import DarkluaModel.Shared.VisitorSound.Cong
import DarkluaModel.C16.Good
import DarkluaModel.Shared.VisitorSound.Lift
/-!
# Guarded congruence families: whole-rule theorems under a decidable hypothesis on the program

The generic lifting (`Visitor.visit_rel`) needs every hook to be sound on EVERY input. The hooks of
`convert_local_function_to_assign` and `convert_function_to_assignment` are sound only on some
shapes (a local function that is not its own parameter; a function statement with at most one
field/method after the root). `Good fl` is the decidable syntactic hypothesis "the program contains
only such shapes" (types are ignored: they are never evaluated), and `guardFam fl C` is the family
"if the input is good then it is `C`-related to the output and the output is good". It is a
`CongFam` again, so `visit_rel` applies to it and hooks only have to be sound on good inputs.
-/
namespace DarkluaModel.C16.Guard

variable (fl : Flags)

variable (C : CongFam)

/-! ### lists -/

theorem forall2E {xs ys : List Expr}
    (h : Forall2 (fun a b => gE fl a = true → C.relE a b ∧ gE fl b = true) xs ys) (hg : gEs fl xs = true) :
    Forall2 C.relE xs ys ∧ gEs fl ys = true := by
  induction h with
  | nil => exact ⟨.nil, rfl⟩
  | cons h1 _ ih =>
    simp only [gEs, Bool.and_eq_true] at hg ⊢
    obtain ⟨r1, g1⟩ := h1 hg.1
    obtain ⟨r2, g2⟩ := ih hg.2
    exact ⟨.cons r1 r2, g1, g2⟩

theorem forall2T {xs ys : List Expr}
    (h : Forall2 (fun a b => gE fl a = true → C.relT a b ∧ gE fl b = true) xs ys) (hg : gEs fl xs = true) :
    Forall2 C.relT xs ys ∧ gEs fl ys = true := by
  induction h with
  | nil => exact ⟨.nil, rfl⟩
  | cons h1 _ ih =>
    simp only [gEs, Bool.and_eq_true] at hg ⊢
    obtain ⟨r1, g1⟩ := h1 hg.1
    obtain ⟨r2, g2⟩ := ih hg.2
    exact ⟨.cons r1 r2, g1, g2⟩

theorem forall2S {xs ys : List Stmt}
    (h : Forall2 (fun a b => gS fl a = true → C.relS a b ∧ gS fl b = true) xs ys) (hg : gSs fl xs = true) :
    Forall2 C.relS xs ys ∧ gSs fl ys = true := by
  induction h with
  | nil => exact ⟨.nil, rfl⟩
  | cons h1 _ ih =>
    simp only [gSs, Bool.and_eq_true] at hg ⊢
    obtain ⟨r1, g1⟩ := h1 hg.1
    obtain ⟨r2, g2⟩ := ih hg.2
    exact ⟨.cons r1 r2, g1, g2⟩

theorem forall2Entries {xs ys : List Entry}
    (h : Forall2 (EntryRel fun a b => gE fl a = true → C.relE a b ∧ gE fl b = true) xs ys)
    (hg : gEntries fl xs = true) :
    Forall2 (EntryRel C.relE) xs ys ∧ gEntries fl ys = true := by
  induction h with
  | nil => exact ⟨.nil, rfl⟩
  | @cons a b as bs h1 _ ih =>
    cases a <;> cases b <;> simp only [EntryRel] at h1 <;>
      simp only [gEntries, Bool.and_eq_true] at hg ⊢
    · obtain ⟨r1, g1⟩ := h1 hg.1
      obtain ⟨r2, g2⟩ := ih hg.2
      exact ⟨.cons (by simpa [EntryRel] using r1) r2, g1, g2⟩
    · obtain ⟨r1, g1⟩ := h1.2 hg.1
      obtain ⟨r2, g2⟩ := ih hg.2
      exact ⟨.cons (by simpa [EntryRel] using ⟨h1.1, r1⟩) r2, g1, g2⟩
    · obtain ⟨r0, g0⟩ := h1.1 hg.1.1
      obtain ⟨r1, g1⟩ := h1.2 hg.1.2
      obtain ⟨r2, g2⟩ := ih hg.2
      exact ⟨.cons (by simpa [EntryRel] using ⟨r0, r1⟩) r2, ⟨g0, g1⟩, g2⟩

theorem forall2Segs {xs ys : List Seg}
    (h : Forall2 (SegRel fun a b => gE fl a = true → C.relE a b ∧ gE fl b = true) xs ys)
    (hg : gSegs fl xs = true) :
    Forall2 (SegRel C.relE) xs ys ∧ gSegs fl ys = true := by
  induction h with
  | nil => exact ⟨.nil, rfl⟩
  | @cons a b as bs h1 _ ih =>
    cases a <;> cases b <;> simp only [SegRel] at h1 <;>
      simp only [gSegs, Bool.and_eq_true] at hg ⊢
    · obtain ⟨r2, g2⟩ := ih hg
      exact ⟨.cons (by simpa [SegRel] using h1) r2, g2⟩
    · obtain ⟨r1, g1⟩ := h1 hg.1
      obtain ⟨r2, g2⟩ := ih hg.2
      exact ⟨.cons (by simpa [SegRel] using r1) r2, g1, g2⟩

theorem forall2Pairs {xs ys : List (Expr × Expr)}
    (h : Forall2 (PairRel (fun a b => gE fl a = true → C.relE a b ∧ gE fl b = true)
      (fun a b => gE fl a = true → C.relE a b ∧ gE fl b = true)) xs ys)
    (hg : gPairs fl xs = true) :
    Forall2 (PairRel C.relE C.relE) xs ys ∧ gPairs fl ys = true := by
  induction h with
  | nil => exact ⟨.nil, rfl⟩
  | @cons a b as bs h1 _ ih =>
    obtain ⟨a1, a2⟩ := a
    obtain ⟨b1, b2⟩ := b
    simp only [gPairs, Bool.and_eq_true] at hg ⊢
    obtain ⟨r0, g0⟩ := h1.1 hg.1.1
    obtain ⟨r1, g1⟩ := h1.2 hg.1.2
    obtain ⟨r2, g2⟩ := ih hg.2
    exact ⟨.cons ⟨r0, r1⟩ r2, ⟨g0, g1⟩, g2⟩

theorem forall2Branches {xs ys : List (Expr × Block)}
    (h : Forall2 (PairRel (fun a b => gE fl a = true → C.relE a b ∧ gE fl b = true)
      (fun a b => gB fl a = true → C.relB a b ∧ gB fl b = true)) xs ys)
    (hg : gBranches fl xs = true) :
    Forall2 (PairRel C.relE C.relB) xs ys ∧ gBranches fl ys = true := by
  induction h with
  | nil => exact ⟨.nil, rfl⟩
  | @cons a b as bs h1 _ ih =>
    obtain ⟨a1, a2⟩ := a
    obtain ⟨b1, b2⟩ := b
    simp only [gBranches, Bool.and_eq_true] at hg ⊢
    obtain ⟨r0, g0⟩ := h1.1 hg.1.1
    obtain ⟨r1, g1⟩ := h1.2 hg.1.2
    obtain ⟨r2, g2⟩ := ih hg.2
    exact ⟨.cons ⟨r0, r1⟩ r2, ⟨g0, g1⟩, g2⟩


/-! ### the guarded family -/

theorem okLocalFn_congr {name : String} {f f' : FnBody} (h : pnames f = pnames f') :
    okLocalFn fl name f' = okLocalFn fl name f := by
  simp [okLocalFn, h]

def guardFam : CongFam where
  relE := fun a b => gE fl a = true → C.relE a b ∧ gE fl b = true
  relT := fun a b => gE fl a = true → C.relT a b ∧ gE fl b = true
  relS := fun a b => gS fl a = true → C.relS a b ∧ gS fl b = true
  relL := fun a b => gL fl a = true → C.relL a b ∧ gL fl b = true
  relB := fun a b => gB fl a = true → C.relB a b ∧ gB fl b = true
  relBo := fun a b => gB fl a = true → C.relBo a b ∧ gB fl b = true
  relRep := fun b c b' c' => gB fl b = true → gE fl c = true → C.relRep b c b' c' ∧ gB fl b' = true ∧ gE fl c' = true
  relF := fun f f' => gF fl f = true → C.relF f f' ∧ gF fl f' = true ∧ pnames f = pnames f'
  reflE := fun e h => ⟨C.reflE e, h⟩
  reflT := fun e h => ⟨C.reflT e, h⟩
  reflS := fun e h => ⟨C.reflS e, h⟩
  reflL := fun e h => ⟨C.reflL e, h⟩
  reflB := fun e h => ⟨C.reflB e, h⟩
  reflBo := fun e h => ⟨C.reflBo e, h⟩
  reflF := fun e h => ⟨C.reflF e, h, rfl⟩
  transE := fun h1 h2 g => let ⟨r1, g1⟩ := h1 g; let ⟨r2, g2⟩ := h2 g1; ⟨C.transE r1 r2, g2⟩
  transT := fun h1 h2 g => let ⟨r1, g1⟩ := h1 g; let ⟨r2, g2⟩ := h2 g1; ⟨C.transT r1 r2, g2⟩
  transS := fun h1 h2 g => let ⟨r1, g1⟩ := h1 g; let ⟨r2, g2⟩ := h2 g1; ⟨C.transS r1 r2, g2⟩
  transL := fun h1 h2 g => let ⟨r1, g1⟩ := h1 g; let ⟨r2, g2⟩ := h2 g1; ⟨C.transL r1 r2, g2⟩
  transB := fun h1 h2 g => let ⟨r1, g1⟩ := h1 g; let ⟨r2, g2⟩ := h2 g1; ⟨C.transB r1 r2, g2⟩
  transBo := fun h1 h2 g => let ⟨r1, g1⟩ := h1 g; let ⟨r2, g2⟩ := h2 g1; ⟨C.transBo r1 r2, g2⟩
  transRep := fun h1 h2 gb gc =>
    let ⟨r1, b1, c1⟩ := h1 gb gc; let ⟨r2, b2, c2⟩ := h2 b1 c1; ⟨C.transRep r1 r2, b2, c2⟩
  boToB := fun h g => let ⟨r, g'⟩ := h g; ⟨C.boToB r, g'⟩
  repOfOpen := fun hb hc gb gc => let ⟨r1, g1⟩ := hb gb; let ⟨r2, g2⟩ := hc gc; ⟨C.repOfOpen r1 r2, g1, g2⟩
  paren := fun h g => by
    simp only [gE] at g ⊢
    exact ⟨C.paren (h g).1, (h g).2⟩
  un := fun h g => by
    simp only [gE] at g ⊢
    exact ⟨C.un (h g).1, (h g).2⟩
  bin := fun h1 h2 g => by
    simp only [gE, Bool.and_eq_true] at g ⊢
    exact ⟨C.bin (h1 g.1).1 (h2 g.2).1, (h1 g.1).2, (h2 g.2).2⟩
  call := fun hf ha g => by
    simp only [gE, Bool.and_eq_true] at g ⊢
    obtain ⟨ra, ga⟩ := forall2E fl C ha g.2
    exact ⟨C.call (hf g.1).1 ra, (hf g.1).2, ga⟩
  field := fun h g => by
    simp only [gE] at g ⊢
    exact ⟨C.field (h g).1, (h g).2⟩
  index := fun h1 h2 g => by
    simp only [gE, Bool.and_eq_true] at g ⊢
    exact ⟨C.index (h1 g.1).1 (h2 g.2).1, (h1 g.1).2, (h2 g.2).2⟩
  fn := fun h g => by
    simp only [gE] at g ⊢
    exact ⟨C.fn (h g).1, (h g).2.1⟩
  table := fun h g => by
    simp only [gE] at g ⊢
    obtain ⟨r, g'⟩ := forall2Entries fl C h g
    exact ⟨C.table r, g'⟩
  ifx := fun h1 h2 h3 h4 g => by
    simp only [gE, Bool.and_eq_true] at g ⊢
    obtain ⟨r3, g3⟩ := forall2Pairs fl C h3 g.1.2
    exact ⟨C.ifx (h1 g.1.1.1).1 (h2 g.1.1.2).1 r3 (h4 g.2).1, ⟨⟨(h1 g.1.1.1).2, (h2 g.1.1.2).2⟩, g3⟩, (h4 g.2).2⟩
  interp := fun h g => by
    simp only [gE] at g ⊢
    obtain ⟨r, g'⟩ := forall2Segs fl C h g
    exact ⟨C.interp r, g'⟩
  cast := fun h g => by
    simp only [gE] at g ⊢
    exact ⟨C.cast (h g).1, (h g).2⟩
  inst := fun h g => by
    simp only [gE] at g ⊢
    exact ⟨C.inst (h g).1, (h g).2⟩
  tField := fun h g => by
    simp only [gE] at g ⊢
    exact ⟨C.tField (h g).1, (h g).2⟩
  tIndex := fun h1 h2 g => by
    simp only [gE, Bool.and_eq_true] at g ⊢
    exact ⟨C.tIndex (h1 g.1).1 (h2 g.2).1, (h1 g.1).2, (h2 g.2).2⟩
  tNonLv := fun h1 h2 h g => ⟨C.tNonLv h1 h2 (h g).1, (h g).2⟩
  tVar := fun h => C.tVar (h (by simp [gE])).1
  assign := fun h1 h2 g => by
    simp only [gS, Bool.and_eq_true] at g ⊢
    obtain ⟨r1, g1⟩ := forall2T fl C h1 g.1
    obtain ⟨r2, g2⟩ := forall2E fl C h2 g.2
    exact ⟨C.assign r1 r2, g1, g2⟩
  cassign := fun h1 h2 g => by
    simp only [gS, Bool.and_eq_true] at g ⊢
    exact ⟨C.cassign (h1 g.1).1 (h2 g.2).1, (h1 g.1).2, (h2 g.2).2⟩
  callStmt := fun h g => by
    simp only [gS] at g ⊢
    exact ⟨C.callStmt (h g).1, (h g).2⟩
  doBlock := fun h g => by
    simp only [gS] at g ⊢
    exact ⟨C.doBlock (h g).1, (h g).2⟩
  function := fun h g => by
    simp only [gS, Bool.and_eq_true] at g ⊢
    exact ⟨C.function (h g.2).1, g.1, (h g.2).2.1⟩
  gfor := fun hn h1 h2 g => by
    simp only [gS, Bool.and_eq_true] at g ⊢
    obtain ⟨r1, g1⟩ := forall2E fl C h1 g.1
    exact ⟨C.gfor hn r1 (h2 g.2).1, g1, (h2 g.2).2⟩
  nfor := fun {n n' a a' b b' st st' body body'} hn h1 h2 h3 h4 g => by
    cases st <;> cases st' <;> simp only [OptRel] at h3
    · simp only [gS, Bool.and_eq_true] at g ⊢
      exact ⟨C.nfor hn (h1 g.1.1).1 (h2 g.1.2).1 (by simp [OptRel]) (h4 g.2).1,
        ⟨(h1 g.1.1).2, (h2 g.1.2).2⟩, (h4 g.2).2⟩
    · simp only [gS, Bool.and_eq_true] at g ⊢
      exact ⟨C.nfor hn (h1 g.1.1.1).1 (h2 g.1.1.2).1 (by simpa [OptRel] using (h3 g.1.2).1) (h4 g.2).1,
        ⟨⟨(h1 g.1.1.1).2, (h2 g.1.1.2).2⟩, (h3 g.1.2).2⟩, (h4 g.2).2⟩
  ifs := fun {brs brs' els els'} h1 h2 g => by
    cases els <;> cases els' <;> simp only [OptRel] at h2
    · simp only [gS] at g ⊢
      obtain ⟨r1, g1⟩ := forall2Branches fl C h1 g
      exact ⟨C.ifs r1 (by simp [OptRel]), g1⟩
    · simp only [gS, Bool.and_eq_true] at g ⊢
      obtain ⟨r1, g1⟩ := forall2Branches fl C h1 g.1
      exact ⟨C.ifs r1 (by simpa [OptRel] using (h2 g.2).1), g1, (h2 g.2).2⟩
  localAssign := fun hn h g => by
    simp only [gS] at g ⊢
    obtain ⟨r1, g1⟩ := forall2E fl C h g
    exact ⟨C.localAssign hn r1, g1⟩
  localFn := fun {kind name f f'} h g => by
    simp only [gS, Bool.and_eq_true] at g ⊢
    obtain ⟨r, g', hp⟩ := h g.2
    exact ⟨C.localFn r, by rw [okLocalFn_congr fl hp]; exact g.1, g'⟩
  repeat_ := fun h g => by
    simp only [gS, Bool.and_eq_true] at g ⊢
    obtain ⟨r, gb, gc⟩ := h g.1 g.2
    exact ⟨C.repeat_ r, gb, gc⟩
  while_ := fun h1 h2 g => by
    simp only [gS, Bool.and_eq_true] at g ⊢
    exact ⟨C.while_ (h1 g.1).1 (h2 g.2).1, (h1 g.1).2, (h2 g.2).2⟩
  typeDecl := fun _ => ⟨C.typeDecl, by simp [gS]⟩
  typeFn := fun _ => ⟨C.typeFn, by simp [gS]⟩
  ret := fun h g => by
    simp only [gL] at g ⊢
    obtain ⟨r, g'⟩ := forall2E fl C h g
    exact ⟨C.ret r, g'⟩
  block := fun {ss ss' l l'} h1 h2 g => by
    cases l <;> cases l' <;> simp only [OptRel] at h2
    · simp only [gB] at g ⊢
      obtain ⟨r1, g1⟩ := forall2S fl C h1 g
      exact ⟨C.block r1 (by simp [OptRel]), g1⟩
    · simp only [gB, Bool.and_eq_true] at g ⊢
      obtain ⟨r1, g1⟩ := forall2S fl C h1 g.1
      exact ⟨C.block r1 (by simpa [OptRel] using (h2 g.2).1), g1, (h2 g.2).2⟩
  fnBody := fun hn h g => by
    simp only [gF] at g ⊢
    exact ⟨C.fnBody hn (h g).1, (h g).2, by simpa [pnames] using hn⟩

end DarkluaModel.C16.Guard
