/-
Shared interchange format: S-expressions, hex byte strings. Import-free (core only) so the
line-protocol driver links as a `lean_exe`.
-/
namespace DarkluaModel

inductive Sexp where
  | atom (s : String)
  | list (xs : List Sexp)
  deriving Repr, BEq, Inhabited

namespace Sexp

private def isAtomChar (c : Char) : Bool :=
  !(c == '(' || c == ')' || c == ' ' || c == '\n' || c == '\t' || c == '\r')

/-- Parse one S-expression from a character list, with explicit fuel (= input length). -/
def parseAux : Nat → List Char → List (List Sexp) → List Sexp → Option Sexp
  | 0, _, _, _ => none
  | fuel + 1, cs, stack, cur =>
    match cs with
    | [] =>
      match stack, cur with
      | [], [x] => some x
      | _, _ => none
    | c :: rest =>
      if c == '(' then parseAux fuel rest (cur :: stack) []
      else if c == ')' then
        match stack with
        | [] => none
        | top :: stack' => parseAux fuel rest stack' (Sexp.list cur.reverse :: top)
      else if !isAtomChar c then parseAux fuel rest stack cur
      else
        let tok := (c :: rest).takeWhile isAtomChar
        let rest' := (c :: rest).dropWhile isAtomChar
        -- `rest'` is strictly shorter; fuel is bounded by the total length + 1
        parseAux fuel rest' stack (Sexp.atom (String.ofList tok) :: cur)

def parse (s : String) : Option Sexp :=
  let cs := s.toList
  parseAux (cs.length + 2) cs [] []

/-- Parse a whitespace-separated sequence of S-expressions (the arguments of one request). -/
def parseMany (s : String) : Option (List Sexp) :=
  match parse ("(" ++ s ++ ")") with
  | some (.list xs) => some xs
  | _ => none

/-- The arguments of a request line, re-joined and parsed as S-expressions. -/
def parseArgs (args : List String) : Option (List Sexp) := parseMany (" ".intercalate args)

partial def toString : Sexp → String
  | atom s => s
  | list xs => "(" ++ " ".intercalate (xs.map toString) ++ ")"

instance : ToString Sexp := ⟨Sexp.toString⟩

def atom? : Sexp → Option String
  | atom s => some s
  | _ => none

def list? : Sexp → Option (List Sexp)
  | list xs => some xs
  | _ => none

def nat? (s : Sexp) : Option Nat := s.atom?.bind String.toNat?
def int? (s : Sexp) : Option Int := s.atom?.bind String.toInt?
def ofBool (b : Bool) : Sexp := atom (if b then "true" else "false")
def bool? : Sexp → Option Bool
  | atom "true" => some true
  | atom "false" => some false
  | _ => none

end Sexp

/-! ### hex byte strings: `x` followed by lowercase hex digits -/

def hexDigit (n : Nat) : Char :=
  if n < 10 then Char.ofNat (48 + n) else Char.ofNat (87 + n)

def hexVal? (c : Char) : Option Nat :=
  if '0' ≤ c ∧ c ≤ '9' then some (c.toNat - 48)
  else if 'a' ≤ c ∧ c ≤ 'f' then some (c.toNat - 87)
  else if 'A' ≤ c ∧ c ≤ 'F' then some (c.toNat - 55)
  else none

def bytesToHex (bs : List UInt8) : String :=
  String.ofList ('x' :: bs.flatMap fun b => [hexDigit (b.toNat / 16), hexDigit (b.toNat % 16)])

def hexPairs : List Char → Option (List UInt8)
  | [] => some []
  | a :: b :: rest => do
    let x ← hexVal? a
    let y ← hexVal? b
    let tl ← hexPairs rest
    pure (UInt8.ofNat (x * 16 + y) :: tl)
  | _ => none

def hexToBytes? (s : String) : Option (List UInt8) :=
  match s.toList with
  | 'x' :: rest => hexPairs rest
  | _ => none

def strToBytes (s : String) : List UInt8 := s.toUTF8.toList

/-- Lossy display of bytes as a string (ASCII only; other bytes as `?`). For diagnostics. -/
def bytesToAscii (bs : List UInt8) : String :=
  String.ofList (bs.map fun b => if b.toNat < 128 then Char.ofNat b.toNat else '?')

def natToHex16 (n : Nat) : String :=
  String.ofList ((List.range 16).reverse.map fun i => hexDigit ((n / 16 ^ i) % 16))

def hexNat? (s : List Char) : Option Nat :=
  s.foldlM (fun acc c => (hexVal? c).map (acc * 16 + ·)) 0

/-- `f` + 16 hex digits: IEEE-754 bit pattern. -/
def floatToWire (f : Float) : String := "f" ++ natToHex16 f.toBits.toNat
def wireToFloat? (s : String) : Option Float :=
  match s.toList with
  | 'f' :: rest => if rest.length == 16 then (hexNat? rest).map fun n => Float.ofBits (UInt64.ofNat n) else none
  | _ => none

end DarkluaModel
