import DarkluaModel.C14.Model
import DarkluaModel.C14.Spec
/-!
# C14 — `natToF64` / `intToF64` (the model of Rust's `as f64`) round to nearest, ties to even

`Spec.nearestEven` is the specification; the model's bit manipulation satisfies it for every
integer of magnitude below 2^64 (all of `i64` and `u64`).
-/
namespace DarkluaModel.C14
open Spec

theorem fields_of (E M : Nat) (hE : E < 2048) (hM : M < 2 ^ 52) :
    f64Exp (E * 2 ^ 52 + M) = E ∧ f64Man (E * 2 ^ 52 + M) = M := by
  unfold f64Exp f64Man
  omega

theorem log2_bounds (n : Nat) (h : n ≠ 0) : 2 ^ Nat.log2 n ≤ n ∧ n < 2 ^ (Nat.log2 n + 1) :=
  ⟨Nat.log2_self_le h, Nat.lt_log2_self⟩

theorem pow_split (k : Nat) (hk : k ≤ 52) : 2 ^ k * 2 ^ (52 - k) = 2 ^ 52 := by
  rw [← Nat.pow_add]; congr 1; omega

/-- small case: the integer is exactly representable -/
theorem nearest_small (n k : Nat) (hk : k ≤ 52) (h1 : 2 ^ k ≤ n) (h2 : n < 2 ^ (k + 1)) :
    nearestEvenPos n ((1023 + k) * 2 ^ 52 + (n * 2 ^ (52 - k) - 2 ^ 52)) = true := by
  have hp := pow_split k hk
  have hpos : 0 < 2 ^ (52 - k) := Nat.two_pow_pos _
  have hm1 : 2 ^ 52 ≤ n * 2 ^ (52 - k) := by
    rw [← hp]; exact Nat.mul_le_mul_right _ h1
  have hm2 : n * 2 ^ (52 - k) < 2 ^ 53 := by
    have : 2 ^ (k + 1) * 2 ^ (52 - k) = 2 ^ 53 := by
      rw [← Nat.pow_add]; congr 1; omega
    rw [← this]; exact Nat.mul_lt_mul_of_pos_right h2 hpos
  generalize hm : n * 2 ^ (52 - k) = m at *
  obtain ⟨e1, e2⟩ := fields_of (1023 + k) (m - 2 ^ 52) (by omega) (by omega)
  unfold nearestEvenPos
  simp only [e1, e2]
  have hE : 1023 + k ≤ 1075 := by omega
  have h75 : 1075 - (1023 + k) = 52 - k := by omega
  simp only [hE, if_true, h75, hm]
  have : 2 ^ 52 + (m - 2 ^ 52) = m := by omega
  simp only [this, beq_self_eq_true, Bool.and_true, Bool.and_eq_true, decide_eq_true_eq]
  omega


/-- large case, stated over the quotient/remainder decomposition `n = q·P + r` -/
theorem nearest_core (n P half q r E : Nat) (hP : P = 2 * half) (_hhalf : 0 < half)
    (hn : n = q * P + r) (hr : r < P) (hq1 : 2 ^ 52 ≤ q) (hq2 : q < 2 ^ 53)
    (hE : 1076 ≤ E) (hE2 : E ≤ 1086) (hu : 2 ^ (E - 1075) = P) :
    nearestEvenPos n (E * 2 ^ 52 +
      ((if r > half ∨ (r = half ∧ q % 2 = 1) then q + 1 else q) - 2 ^ 52)) = true := by
  by_cases hround : r > half ∨ (r = half ∧ q % 2 = 1)
  · simp only [hround, if_true]
    by_cases hcarry : q + 1 < 2 ^ 53
    · -- round up, no carry
      obtain ⟨e1, e2⟩ := fields_of E (q + 1 - 2 ^ 52) (by omega) (by omega)
      unfold nearestEvenPos
      simp only [e1, e2]
      have hm : 2 ^ 52 + (q + 1 - 2 ^ 52) = q + 1 := by omega
      have hne : ¬ E ≤ 1075 := by omega
      have hx : (q + 1) * P = q * P + P := by rw [Nat.add_mul, Nat.one_mul]
      have hlt : ¬ n ≥ q * P + P := by omega
      have hM : ¬ (q + 1 - 2 ^ 52 = 0) := by omega
      simp only [hm, hne, if_false, hu, hx, hlt, hM]
      simp only [Bool.and_eq_true, Bool.or_eq_true, decide_eq_true_eq, beq_iff_eq]
      refine ⟨⟨⟨by omega, by omega⟩, by omega⟩, ?_⟩
      omega
    · -- round up with carry into the exponent
      have hq : q = 2 ^ 53 - 1 := by omega
      subst hq
      have hb : E * 2 ^ 52 + (2 ^ 53 - 1 + 1 - 2 ^ 52) = (E + 1) * 2 ^ 52 + 0 := by omega
      rw [hb]
      obtain ⟨e1, e2⟩ := fields_of (E + 1) 0 (by omega) (by omega)
      unfold nearestEvenPos
      simp only [e1, e2]
      have hne : ¬ E + 1 ≤ 1075 := by omega
      have hu' : 2 ^ (E + 1 - 1075) = 2 * P := by
        have : E + 1 - 1075 = (E - 1075) + 1 := by omega
        rw [this, Nat.pow_succ, hu, Nat.mul_comm]
      have hlt : ¬ n ≥ (2 ^ 52 + 0) * (2 * P) := by omega
      simp only [hne, if_false, hu', hlt, if_true]
      simp only [Bool.and_eq_true, decide_eq_true_eq]
      refine ⟨⟨⟨by omega, by omega⟩, by omega⟩, ?_⟩
      omega
  · -- round down
    simp only [hround, if_false]
    obtain ⟨e1, e2⟩ := fields_of E (q - 2 ^ 52) (by omega) (by omega)
    unfold nearestEvenPos
    simp only [e1, e2]
    have hm : 2 ^ 52 + (q - 2 ^ 52) = q := by omega
    have hne : ¬ E ≤ 1075 := by omega
    have hge : n ≥ q * P := by omega
    simp only [hm, hne, if_false, hu, hge, if_true]
    simp only [Bool.and_eq_true, Bool.or_eq_true, decide_eq_true_eq, beq_iff_eq]
    refine ⟨⟨⟨by omega, by omega⟩, by omega⟩, ?_⟩
    omega


theorem nearest_natToF64 (n : Nat) (h0 : 0 < n) (h64 : n < 2 ^ 64) :
    nearestEvenPos n (natToF64 n) = true := by
  have hn0 : n ≠ 0 := by omega
  obtain ⟨b1, b2⟩ := log2_bounds n hn0
  have hk63 : Nat.log2 n ≤ 63 := by
    apply Classical.byContradiction
    intro hc
    have : 2 ^ 64 ≤ 2 ^ Nat.log2 n := Nat.pow_le_pow_right (by decide) (by omega)
    omega
  unfold natToF64
  simp only [hn0, if_false]
  generalize Nat.log2 n = k at *
  by_cases hk : k ≤ 52
  · simp only [hk, if_true]
    exact nearest_small n k hk b1 b2
  · simp only [hk, if_false]
    have hs : k - 52 = (k - 52 - 1) + 1 := by omega
    have hPpos : 0 < 2 ^ (k - 52) := Nat.two_pow_pos _
    have hP : 2 ^ (k - 52) = 2 * 2 ^ (k - 52 - 1) := by
      conv => lhs; rw [hs, Nat.pow_succ, Nat.mul_comm]
    have hk2 : 2 ^ 52 * 2 ^ (k - 52) = 2 ^ k := by
      rw [← Nat.pow_add]; congr 1; omega
    have hk3 : 2 ^ 53 * 2 ^ (k - 52) = 2 ^ (k + 1) := by
      rw [← Nat.pow_add]; congr 1; omega
    have hq1 : 2 ^ 52 ≤ n / 2 ^ (k - 52) := by
      rw [Nat.le_div_iff_mul_le hPpos, hk2]; exact b1
    have hq2 : n / 2 ^ (k - 52) < 2 ^ 53 := by
      rw [Nat.div_lt_iff_lt_mul hPpos, hk3]; exact b2
    exact nearest_core n (2 ^ (k - 52)) (2 ^ (k - 52 - 1)) (n / 2 ^ (k - 52)) (n % 2 ^ (k - 52))
      (1023 + k) hP (Nat.two_pow_pos _) (Nat.div_add_mod' n _).symm (Nat.mod_lt _ hPpos)
      hq1 hq2 (by omega) (by omega)
      (by have h : 1023 + k - 1075 = k - 52 := by omega
          rw [h])

/-- **Rust's `as f64` on `i64`/`u64`, as modelled, is the nearest double (ties to even).** -/
theorem intToF64_nearest (v : Int) (h1 : -(2 ^ 64 : Int) < v) (h2 : v < (2 ^ 64 : Int)) :
    nearestEven v (intToF64 v) = true := by
  unfold nearestEven intToF64
  by_cases hz : v = 0
  · subst hz; decide
  · simp only [hz, if_false]
    have habs : 0 < v.natAbs ∧ v.natAbs < 2 ^ 64 := by omega
    have hN := nearest_natToF64 v.natAbs habs.1 habs.2
    by_cases hneg : v < 0
    · have hpos : ¬ v > 0 := by omega
      simp only [hneg, hpos, if_true, if_false]
      have hlt : natToF64 v.natAbs < 2 ^ 63 := by
        unfold nearestEvenPos at hN
        simp only [Bool.and_eq_true, decide_eq_true_eq] at hN
        exact hN.1.1.1
      have hsub : 2 ^ 63 + natToF64 v.natAbs - 2 ^ 63 = natToF64 v.natAbs := by omega
      simp only [hsub, hN, Bool.and_true, Bool.and_eq_true, decide_eq_true_eq]
      omega
    · have hpos : v > 0 := by omega
      simp only [hneg, hpos, if_true, if_false]
      exact hN

end DarkluaModel.C14
