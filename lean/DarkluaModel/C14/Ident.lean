import DarkluaModel.C14.Model
import DarkluaModel.C14.Spec
/-!
# C14 — darklua's `is_valid_identifier` is exactly "Lua 5.1 Name that is not reserved"
-/
namespace DarkluaModel.C14
open Spec

theorem KEYWORDS_eq_reserved : KEYWORDS = reserved := by decide

theorem alpha_eq (c : UInt8) : isAlphabeticAscii c = isLetter c := by
  unfold isAlphabeticAscii isLetter
  simp only [ge_iff_le]

theorem digit_eq (c : UInt8) : isAsciiDigit c = isDigit c := by
  unfold isAsciiDigit isDigit
  simp only [ge_iff_le]

/-- past the first character every identifier character test is `isNameCont`, and such
characters are ASCII -/
theorem identCharsFrom_succ : (s : Bytes) → (i : Nat) →
    identCharsFrom s (i + 1) = s.all isNameCont
  | [], _ => by simp [identCharsFrom]
  | c :: rest, i => by
    have ih := identCharsFrom_succ rest (i + 1)
    simp only [identCharsFrom, ih, List.all_cons, isNameCont, alpha_eq, digit_eq]
    have : decide (i + 1 > 0) = true := by simp
    rw [this, Bool.and_true]
    cases isLetter c <;> cases isDigit c <;> simp

theorem nameCont_ascii (c : UInt8) (h : isNameCont c = true) : c.toNat < 128 := by
  unfold isNameCont isLetter isDigit at h
  simp only [Bool.or_eq_true, Bool.and_eq_true, decide_eq_true_eq, ge_iff_le, beq_iff_eq] at h
  omega

theorem all_nameCont_ascii : (s : Bytes) → s.all isNameCont = true → isAscii s = true
  | [], _ => by simp [isAscii]
  | c :: rest, h => by
    simp only [List.all_cons, Bool.and_eq_true] at h
    have := all_nameCont_ascii rest h.2
    unfold isAscii at this ⊢
    simp only [List.all_cons, Bool.and_eq_true, decide_eq_true_eq]
    exact ⟨nameCont_ascii c h.1, this⟩

theorem nameStart_cont (c : UInt8) (h : isNameStart c = true) : isNameCont c = true := by
  unfold isNameStart at h
  unfold isNameCont
  simp only [Bool.or_eq_true] at h ⊢
  cases h with
  | inl h => exact Or.inl (Or.inl h)
  | inr h => exact Or.inr h

/-- `is_valid_identifier` (as modelled) coincides with the manual's definition. -/
theorem isValidIdentifier_eq (s : Bytes) : isValidIdentifier s = isLuaIdent s := by
  unfold isValidIdentifier isLuaIdent
  rw [KEYWORDS_eq_reserved]
  congr 1
  cases s with
  | nil => simp [isLuaName]
  | cons c rest =>
    simp only [List.isEmpty_cons, Bool.not_false, Bool.true_and, identCharsFrom, isLuaName,
      identCharsFrom_succ, alpha_eq, digit_eq]
    have hd : decide (0 > 0) = false := by simp
    rw [hd, Bool.and_false, Bool.or_false]
    show (isAscii (c :: rest) && (isNameStart c && rest.all isNameCont)) = _
    cases h : (isNameStart c && rest.all isNameCont) with
    | false => simp
    | true =>
      simp only [Bool.and_eq_true] at h
      have : (c :: rest).all isNameCont = true := by
        simp only [List.all_cons, Bool.and_eq_true]
        exact ⟨nameStart_cont c h.1, h.2⟩
      rw [all_nameCont_ascii _ this]
      simp

end DarkluaModel.C14
