import DarkluaModel.Util.Sexp
import DarkluaModel.C14.Model
import DarkluaModel.C14.Spec
import DarkluaModel.C14.Lemmas
/-!
Line-protocol handlers for property C14.

* `c14.ser <data>`   → `<expr>|refused`    the model `toExpr` (what the theorems are about); `refused` = serializer error
* `c14.K <data>`     → `true|false`        `KeysDenote` (no null / NaN key): hypothesis of `conversion_succeeds`
* `c14.H <data>`     → `true|false`        hypothesis `H14` of `serialize_denotes_partial`
* `c14.J <data>`     → `true|false`        hypothesis `JsonLike` of `serialize_denotes_json`
* `c14.eval <expr>`  → `(ok <val>)|(err <class>)`   the reference semantics `Spec.evalExpr`
* `c14.ident <hex>`  → `<model> <spec>`    `isValidIdentifier` / `Spec.isLuaIdent`
* `c14.i2f <int>`    → `f<16 hex>`         `intToF64`
* `c14.near <int> f<16 hex>` → `true|false`  `Spec.nearestEven`

data ::= null | (bool true|false) | (i64 int) | (u64 nat) | (f64 f16hex) | (str xHEX) | (bytes xHEX)
       | (some data) | (seq data*) | (map (data data)*) | (variant xHEX data)
expr ::= nil | true | false | (num f16hex) | (hex nat) | (str xHEX) | (table entry*)
       | (call expr (args expr*)) | (field expr xHEX) | (var xHEX) | (neg expr) | (div expr expr) | (paren expr)
entry ::= (pos expr) | (named xHEX expr) | (keyed expr expr)
val  ::= nil | (bool b) | (num f16hex) | (str xHEX) | (table (key val)*) ; key ::= (int i) | (flt f16hex) | (str xHEX) | (bool b)
-/
namespace DarkluaModel.C14
open DarkluaModel DarkluaModel.C14.Spec

def bitsToWire (b : Nat) : String := "f" ++ natToHex16 b

def wireToBits? (s : String) : Option Nat :=
  match s.toList with
  | 'f' :: rest => if rest.length == 16 then hexNat? rest else none
  | _ => none

partial def dataOfSexp : Sexp → Option Data
  | .atom "null" => some .null
  | .list [.atom "bool", b] => b.bool?.map Data.bool
  | .list [.atom "i64", v] => v.int?.map Data.i64
  | .list [.atom "u64", v] => v.nat?.map Data.u64
  | .list [.atom "f64", .atom w] => (wireToBits? w).map Data.f64
  | .list [.atom "str", .atom h] => (hexToBytes? h).map Data.str
  | .list [.atom "bytes", .atom h] => (hexToBytes? h).map Data.bytes
  | .list [.atom "some", d] => (dataOfSexp d).map Data.some
  | .list [.atom "variant", .atom h, d] => do
    let name ← hexToBytes? h
    let d ← dataOfSexp d
    pure (.variant name d)
  | .list (.atom "seq" :: xs) => (seqOf xs).map Data.seq
  | .list (.atom "map" :: kvs) => (pairsOf kvs).map Data.map
  | _ => none
where
  seqOf : List Sexp → Option DataList
    | [] => some .nil
    | x :: rest => do
      let d ← dataOfSexp x
      let tl ← seqOf rest
      pure (.cons d tl)
  pairsOf : List Sexp → Option PairList
    | [] => some .nil
    | .list [k, v] :: rest => do
      let k ← dataOfSexp k
      let v ← dataOfSexp v
      let tl ← pairsOf rest
      pure (.cons k v tl)
    | _ => none

mutual
partial def exprToSexp : Expr → Sexp
  | .nil => .atom "nil"
  | .true => .atom "true"
  | .false => .atom "false"
  | .num b => .list [.atom "num", .atom (bitsToWire b)]
  | .hex v => .list [.atom "hex", .atom (toString v)]
  | .str s => .list [.atom "str", .atom (bytesToHex s)]
  | .table es => .list (.atom "table" :: entriesToSexp es)
  | .call f args => .list [.atom "call", exprToSexp f, .list (.atom "args" :: argsToSexp args)]
  | .field e n => .list [.atom "field", exprToSexp e, .atom (bytesToHex n)]
  | .var n => .list [.atom "var", .atom (bytesToHex n)]
  | .neg e => .list [.atom "neg", exprToSexp e]
  | .div a b => .list [.atom "div", exprToSexp a, exprToSexp b]
  | .paren e => .list [.atom "paren", exprToSexp e]
partial def entriesToSexp : EntryList → List Sexp
  | .nil => []
  | .pos e tl => .list [.atom "pos", exprToSexp e] :: entriesToSexp tl
  | .named k e tl => .list [.atom "named", .atom (bytesToHex k), exprToSexp e] :: entriesToSexp tl
  | .keyed k e tl => .list [.atom "keyed", exprToSexp k, exprToSexp e] :: entriesToSexp tl
partial def argsToSexp : ExprList → List Sexp
  | .nil => []
  | .cons e tl => exprToSexp e :: argsToSexp tl
end

partial def exprOfSexp : Sexp → Option Expr
  | .atom "nil" => some .nil
  | .atom "true" => some .true
  | .atom "false" => some .false
  | .list [.atom "num", .atom w] => (wireToBits? w).map Expr.num
  | .list [.atom "hex", v] => v.nat?.map Expr.hex
  | .list [.atom "str", .atom h] => (hexToBytes? h).map Expr.str
  | .list (.atom "table" :: es) => (entriesOf es).map Expr.table
  | .list [.atom "call", f, .list (.atom "args" :: args)] => do
    let f ← exprOfSexp f
    let args ← argsOf args
    pure (.call f args)
  | .list [.atom "field", e, .atom h] => do
    let e ← exprOfSexp e
    let n ← hexToBytes? h
    pure (.field e n)
  | .list [.atom "var", .atom h] => (hexToBytes? h).map Expr.var
  | .list [.atom "neg", e] => (exprOfSexp e).map Expr.neg
  | .list [.atom "div", a, b] => do
    let a ← exprOfSexp a
    let b ← exprOfSexp b
    pure (.div a b)
  | .list [.atom "paren", e] => (exprOfSexp e).map Expr.paren
  | _ => none
where
  entriesOf : List Sexp → Option EntryList
    | [] => some .nil
    | .list [.atom "pos", e] :: rest => do
      let e ← exprOfSexp e
      let tl ← entriesOf rest
      pure (.pos e tl)
    | .list [.atom "named", .atom h, e] :: rest => do
      let k ← hexToBytes? h
      let e ← exprOfSexp e
      let tl ← entriesOf rest
      pure (.named k e tl)
    | .list [.atom "keyed", k, e] :: rest => do
      let k ← exprOfSexp k
      let e ← exprOfSexp e
      let tl ← entriesOf rest
      pure (.keyed k e tl)
    | _ => none
  argsOf : List Sexp → Option ExprList
    | [] => some .nil
    | x :: rest => do
      let e ← exprOfSexp x
      let tl ← argsOf rest
      pure (.cons e tl)

def keyToSexp : Key → Sexp
  | .int i => .list [.atom "int", .atom (toString i)]
  | .flt b => .list [.atom "flt", .atom (bitsToWire b)]
  | .str s => .list [.atom "str", .atom (bytesToHex s)]
  | .bool b => .list [.atom "bool", Sexp.ofBool b]

mutual
partial def valToSexp : Val → Sexp
  | .nil => .atom "nil"
  | .bool b => .list [.atom "bool", Sexp.ofBool b]
  | .num b => .list [.atom "num", .atom (bitsToWire b)]
  | .str s => .list [.atom "str", .atom (bytesToHex s)]
  | .table t => .list (.atom "table" :: mapToSexp t)
partial def mapToSexp : ValMap → List Sexp
  | .nil => []
  | .cons k v tl => .list [keyToSexp k, valToSexp v] :: mapToSexp tl
end

def errName : Err → String
  | .nilIndex => "nilIndex"
  | .nanIndex => "nanIndex"
  | .unsupported => "unsupported"

def handle (op : String) (args : List String) : String :=
  -- S-expressions contain spaces: the dispatcher has split them, join them back
  let joined := " ".intercalate args
  match op, args with
  | "ser", _ :: _ =>
    match (Sexp.parse joined).bind dataOfSexp with
    | some d =>
      match toExpr d with
      | some e => toString (exprToSexp e)
      | none => "refused"
    | none => "bad-data"
  | "H", _ :: _ =>
    match (Sexp.parse joined).bind dataOfSexp with
    | some d => toString (H14 d)
    | none => "bad-data"
  | "K", _ :: _ =>
    match (Sexp.parse joined).bind dataOfSexp with
    | some d => toString (KeysDenote d)
    | none => "bad-data"
  | "J", _ :: _ =>
    match (Sexp.parse joined).bind dataOfSexp with
    | some d => toString (JsonLike d)
    | none => "bad-data"
  | "eval", _ :: _ =>
    match (Sexp.parse joined).bind exprOfSexp with
    | some e =>
      match evalExpr e with
      | .ok v => "(ok " ++ toString (valToSexp v) ++ ")"
      | .error err => "(err " ++ errName err ++ ")"
    | none => "bad-expr"
  | "ident", [h] =>
    match hexToBytes? h with
    | some s => toString (isValidIdentifier s) ++ " " ++ toString (isLuaIdent s)
    | none => "bad-bytes"
  | "i2f", [v] =>
    match v.toInt? with
    | some v => bitsToWire (intToF64 v)
    | none => "bad-int"
  | "near", [v, w] =>
    match v.toInt?, wireToBits? w with
    | some v, some b => toString (nearestEven v b)
    | _, _ => "bad-args"
  | _, _ => "unknown-op " ++ op

end DarkluaModel.C14
