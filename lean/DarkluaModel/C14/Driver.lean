import DarkluaModel.Util.Sexp
/-! Line-protocol handlers for property C14 (stub: nothing modelled yet). -/
namespace DarkluaModel.C14

def handle (op : String) (_args : List String) : String :=
  "unknown-op " ++ op

end DarkluaModel.C14
