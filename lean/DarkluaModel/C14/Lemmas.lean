import DarkluaModel.C14.Model
import DarkluaModel.C14.Spec
/-!
# C14 — hypothesis `H14` and helper lemmas
-/
namespace DarkluaModel.C14
open Spec

/-! ## the hypothesis of the partial theorem (decidable; exposed by the driver as `c14.H`) -/

/-- the Lua key a map key denotes, computed; `none` for null, NaN and container keys -/
def keyOf? : Data → Option Key
  | .str s => some (.str s)
  | .bool b => some (.bool b)
  | .i64 v => match toKey (.num (intToF64 v)) with
    | .ok k => some k
    | .error _ => none
  | .u64 v => match toKey (.num (intToF64 (v : Int))) with
    | .ok k => some k
    | .error _ => none
  | .f64 b => match toKey (.num b) with
    | .ok k => some k
    | .error _ => none
  | .some d => keyOf? d
  | _ => none

/-- some entry of `kvs` has the Lua key `key` -/
def keyIn (key : Key) : PairList → Bool
  | .nil => false
  | .cons k _ tl => (keyOf? k == some key) || keyIn key tl

/-- no two entries denote the same Lua key (`1` and `1.0`, `0` and `-0.0` do); keys that
denote no Lua key (null, NaN) are not constrained here: the conversion refuses them -/
def keysDistinct : PairList → Bool
  | .nil => true
  | .cons k _ tl => (match keyOf? k with
      | some key => !keyIn key tl
      | none => true) && keysDistinct tl

/-- a map key the property speaks about: a scalar or null (after unwrapping `Some`/newtype) —
not a sequence, map, byte array or enum variant -/
def keyAllowed : Data → Bool
  | .null => true
  | .bool _ => true
  | .i64 _ => true
  | .u64 _ => true
  | .f64 _ => true
  | .str _ => true
  | .some d => keyAllowed d
  | _ => false

mutual
/-- `H14 d`: integers are in the range of their Rust type, and in every map (at any depth,
keys included) each key is a scalar or null (not a container), and no two keys of one map
denote the same Lua key. Null and NaN keys are allowed: since the fix of F15 the conversion
returns an error for them. -/
def H14 : Data → Bool
  | .null => true
  | .bool _ => true
  | .i64 v => decide (-(2 ^ 63 : Int) ≤ v) && decide (v < (2 ^ 63 : Int))
  | .u64 v => decide (v < 2 ^ 64)
  | .f64 _ => true
  | .str _ => true
  | .bytes _ => true
  | .some d => H14 d
  | .seq xs => H14List xs
  | .map kvs => H14Pairs kvs && keysDistinct kvs
  | .variant _ d => H14 d
def H14List : DataList → Bool
  | .nil => true
  | .cons d tl => H14 d && H14List tl
def H14Pairs : PairList → Bool
  | .nil => true
  | .cons k v tl => H14 k && keyAllowed k && H14 v && H14Pairs tl
end

mutual
/-- every map key (at any depth) denotes a Lua key: none is null or NaN — exactly when the
conversion succeeds (`toExpr_succeeds`) -/
def KeysDenote : Data → Bool
  | .some d => KeysDenote d
  | .seq xs => KeysDenoteList xs
  | .map kvs => KeysDenotePairs kvs
  | .variant _ d => KeysDenote d
  | _ => true
def KeysDenoteList : DataList → Bool
  | .nil => true
  | .cons d tl => KeysDenote d && KeysDenoteList tl
def KeysDenotePairs : PairList → Bool
  | .nil => true
  | .cons k v tl => (keyOf? k).isSome && KeysDenote k && KeysDenote v && KeysDenotePairs tl
end

/-! ## association lists -/

theorem get_remove : (t : ValMap) → (k k' : Key) →
    (t.remove k).get k' = if k = k' then Val.nil else t.get k'
  | .nil, k, k' => by simp [ValMap.remove, ValMap.get]
  | .cons a v tl, k, k' => by
    have ih := get_remove tl k k'
    by_cases h : a = k
    · subst h
      simp only [ValMap.remove, if_true]
      rw [ih]
      by_cases h2 : a = k'
      · simp [h2]
      · simp [h2, ValMap.get]
    · simp only [ValMap.remove, h, if_false, ValMap.get]
      rw [ih]
      by_cases h2 : a = k'
      · subst h2
        have h' : ¬ k = a := fun e => h e.symm
        simp [h']
      · simp [h2]

theorem isNil_iff (v : Val) : v.isNil = true ↔ v = Val.nil := by
  cases v <;> simp [Val.isNil]

theorem get_set (t : ValMap) (k k' : Key) (v : Val) :
    (t.set k v).get k' = if k = k' then v else t.get k' := by
  unfold ValMap.set
  by_cases hv : v.isNil = true
  · have : v = Val.nil := (isNil_iff v).1 hv
    subst this
    simp only [hv, if_true]
    exact get_remove t k k'
  · have hv' : v.isNil = false := by simpa using hv
    simp only [hv', Bool.false_eq_true, if_false, ValMap.get]
    rw [get_remove]
    by_cases h : k = k' <;> simp [h]

theorem get_set_self (t : ValMap) (k : Key) (v : Val) : (t.set k v).get k = v := by
  rw [get_set]; simp

theorem get_set_ne (t : ValMap) (k k' : Key) (v : Val) (h : k ≠ k') :
    (t.set k v).get k' = t.get k' := by
  rw [get_set]; simp [h]

/-! ## `completeTableEntry` evaluates as one keyed assignment -/

theorem isNaN_eq (b : Nat) : isNaN b = isNaNBits b := rfl

theorem eval_completeTableEntry (ke ve : Expr) (tl es : EntryList) (i : Nat) (t : ValMap)
    (kv : Val) (key : Key) (v : Val) (hc : completeTableEntry ke ve tl = some es)
    (hk : evalExpr ke = .ok kv) (hkey : toKey kv = .ok key) (hv : evalExpr ve = .ok v) :
    evalEntries es i t = evalEntries tl i (t.set key v) := by
  unfold completeTableEntry at hc
  split at hc
  · rename_i s
    simp only [Option.some.injEq] at hc
    subst hc
    simp only [evalExpr] at hk
    cases hk
    simp only [toKey] at hkey
    cases hkey
    split
    · simp only [evalEntries, hv]
    · simp only [evalEntries, evalExpr, toKey, hv]
  · cases hc
  · rename_i b
    split at hc
    · cases hc
    · simp only [Option.some.injEq] at hc
      subst hc
      simp only [evalEntries, hk, hkey, hv]
  · simp only [Option.some.injEq] at hc
    subst hc
    simp only [evalEntries, hk, hkey, hv]

/-! ## bytes: `string.char(0x.., …)` evaluates to the byte string -/

set_option maxRecDepth 100000 in
theorem byte_exact : ∀ n, n < 256 →
    (exactNatBits? n).bind f64ToInt? = some (n : Int) := by decide

theorem eval_hexArgs : (bs : Bytes) → evalCharArgs (hexArgs bs) = .ok bs
  | [] => by simp [hexArgs, evalCharArgs]
  | b :: rest => by
    have ih := eval_hexArgs rest
    have hb := byte_exact b.toNat b.toNat_lt
    cases hx : exactNatBits? b.toNat with
    | none => simp [hx] at hb
    | some x =>
      simp only [hx, Option.bind] at hb
      have h0 : (0 : Int) ≤ (b.toNat : Int) := Int.natCast_nonneg _
      have h1 : (b.toNat : Int) ≤ 255 := by
        have := b.toNat_lt
        show (b.toNat : Int) ≤ 255
        omega
      simp only [hexArgs, evalCharArgs, evalExpr, hx, hb, ih, h0, h1, and_self, if_true]
      simp

/-! ## the main induction, relative to the rounding fact `R` (proved in `Rounding.lean`) -/

theorem toKey_num_ok (b : Nat) (h : isNaNBits b = false) : ∃ key, toKey (.num b) = .ok key := by
  simp only [toKey, isNaN_eq, h]
  cases f64ToInt? b <;> simp

section
variable (R : ∀ v : Int, -(2 ^ 64 : Int) < v → v < (2 ^ 64 : Int) → nearestEven v (intToF64 v) = true)
include R

/-- a key that denotes a Lua key converts, evaluates to that key, and is accepted by
`completeTableEntry` -/
theorem key_denotes : (k : Data) → (key : Key) → H14 k = true → keyOf? k = some key →
    ∃ ke kv, toExpr k = some ke ∧ evalExpr ke = .ok kv ∧ toKey kv = .ok key ∧ KeyEq k key ∧
      ∀ ve tl, ∃ es, completeTableEntry ke ve tl = some es
  | .str s, key, _, h => by
    simp only [keyOf?, Option.some.injEq] at h
    subst h
    exact ⟨.str s, .str s, by simp [toExpr], by simp [evalExpr], by simp [toKey], by simp [KeyEq],
      fun _ _ => ⟨_, rfl⟩⟩
  | .bool b, key, _, h => by
    simp only [keyOf?, Option.some.injEq] at h
    subst h
    cases b
    · exact ⟨.false, .bool false, by simp [toExpr], by simp [evalExpr], by simp [toKey],
        by simp [KeyEq], fun _ _ => ⟨_, rfl⟩⟩
    · exact ⟨.true, .bool true, by simp [toExpr], by simp [evalExpr], by simp [toKey],
        by simp [KeyEq], fun _ _ => ⟨_, rfl⟩⟩
  | .i64 v, key, hH, h => by
    simp only [H14, Bool.and_eq_true, decide_eq_true_eq] at hH
    simp only [keyOf?] at h
    cases hk : toKey (.num (intToF64 v)) with
    | error e => simp [hk] at h
    | ok k' =>
      simp only [hk, Option.some.injEq] at h
      subst h
      have hn : isNaNBits (intToF64 v) = false := by
        cases hb : isNaNBits (intToF64 v) with
        | false => rfl
        | true => simp [toKey, isNaN_eq, hb] at hk
      refine ⟨.num (intToF64 v), .num (intToF64 v), by simp [toExpr], by simp [evalExpr], hk,
        ⟨intToF64 v, R v (by omega) (by omega), hk⟩, fun ve tl => ⟨.keyed (.num (intToF64 v)) ve tl, ?_⟩⟩
      simp [completeTableEntry, hn]
  | .u64 v, key, hH, h => by
    simp only [H14, decide_eq_true_eq] at hH
    simp only [keyOf?] at h
    cases hk : toKey (.num (intToF64 (v : Int))) with
    | error e => simp [hk] at h
    | ok k' =>
      simp only [hk, Option.some.injEq] at h
      subst h
      have hn : isNaNBits (intToF64 (v : Int)) = false := by
        cases hb : isNaNBits (intToF64 (v : Int)) with
        | false => rfl
        | true => simp [toKey, isNaN_eq, hb] at hk
      have h0 : (0 : Int) ≤ (v : Int) := Int.natCast_nonneg _
      refine ⟨.num (intToF64 (v : Int)), .num (intToF64 (v : Int)), by simp [toExpr],
        by simp [evalExpr], hk, ⟨intToF64 (v : Int), R _ (by omega) (by omega), hk⟩,
        fun ve tl => ⟨.keyed (.num (intToF64 (v : Int))) ve tl, ?_⟩⟩
      simp [completeTableEntry, hn]
  | .f64 b, key, _, h => by
    simp only [keyOf?] at h
    cases hk : toKey (.num b) with
    | error e => simp [hk] at h
    | ok k' =>
      simp only [hk, Option.some.injEq] at h
      subst h
      have hn : isNaNBits b = false := by
        cases hb : isNaNBits b with
        | false => rfl
        | true => simp [toKey, isNaN_eq, hb] at hk
      refine ⟨.num b, .num b, by simp [toExpr], by simp [evalExpr], hk, hk,
        fun ve tl => ⟨.keyed (.num b) ve tl, ?_⟩⟩
      simp [completeTableEntry, hn]
  | .some d, key, hH, h => by
    simp only [H14] at hH
    simp only [keyOf?] at h
    obtain ⟨ke, kv, h0, h1, h2, h3, h4⟩ := key_denotes d key hH h
    exact ⟨ke, kv, by simpa [toExpr] using h0, h1, h2, by simpa [KeyEq] using h3, h4⟩
  | .null, _, _, h => by simp [keyOf?] at h
  | .bytes _, _, _, h => by simp [keyOf?] at h
  | .seq _, _, _, h => by simp [keyOf?] at h
  | .map _, _, _, h => by simp [keyOf?] at h
  | .variant _ _, _, _, h => by simp [keyOf?] at h

omit R in
/-- an allowed key whose entry the serializer accepted denotes a Lua key -/
theorem keyOf_of_accepted : (k : Data) → keyAllowed k = true → (ke ve : Expr) → (tl es : EntryList) →
    toExpr k = some ke → completeTableEntry ke ve tl = some es → ∃ key, keyOf? k = some key
  | .str s, _, _, _, _, _, _, _ => ⟨.str s, by simp [keyOf?]⟩
  | .bool b, _, _, _, _, _, _, _ => ⟨.bool b, by simp [keyOf?]⟩
  | .i64 v, _, ke, ve, tl, es, hk, hc => by
    simp only [toExpr, Option.some.injEq] at hk
    subst hk
    simp only [completeTableEntry] at hc
    cases hb : isNaNBits (intToF64 v) with
    | true => simp [hb] at hc
    | false =>
      obtain ⟨key, h⟩ := toKey_num_ok _ hb
      exact ⟨key, by simp [keyOf?, h]⟩
  | .u64 v, _, ke, ve, tl, es, hk, hc => by
    simp only [toExpr, Option.some.injEq] at hk
    subst hk
    simp only [completeTableEntry] at hc
    cases hb : isNaNBits (intToF64 (v : Int)) with
    | true => simp [hb] at hc
    | false =>
      obtain ⟨key, h⟩ := toKey_num_ok _ hb
      exact ⟨key, by simp [keyOf?, h]⟩
  | .f64 b, _, ke, ve, tl, es, hk, hc => by
    simp only [toExpr, Option.some.injEq] at hk
    subst hk
    simp only [completeTableEntry] at hc
    cases hb : isNaNBits b with
    | true => simp [hb] at hc
    | false =>
      obtain ⟨key, h⟩ := toKey_num_ok _ hb
      exact ⟨key, by simp [keyOf?, h]⟩
  | .null, _, ke, ve, tl, es, hk, hc => by
    simp only [toExpr, Option.some.injEq] at hk
    subst hk
    simp [completeTableEntry] at hc
  | .some d, hA, ke, ve, tl, es, hk, hc => by
    simp only [keyAllowed] at hA
    simp only [toExpr] at hk
    obtain ⟨key, h⟩ := keyOf_of_accepted d hA ke ve tl es hk hc
    exact ⟨key, by simpa [keyOf?] using h⟩
  | .bytes _, hA, _, _, _, _, _, _ => by simp [keyAllowed] at hA
  | .seq _, hA, _, _, _, _, _, _ => by simp [keyAllowed] at hA
  | .map _, hA, _, _, _, _, _, _ => by simp [keyAllowed] at hA
  | .variant _ _, hA, _, _, _, _, _, _ => by simp [keyAllowed] at hA

theorem hasKey_of_keyIn : (kvs : PairList) → (key : Key) → H14Pairs kvs = true →
    keyIn key kvs = true → HasKey kvs key
  | .nil, _, _, h => by simp [keyIn] at h
  | .cons k v tl, key, hH, h => by
    simp only [H14Pairs, Bool.and_eq_true] at hH
    simp only [keyIn, Bool.or_eq_true, beq_iff_eq] at h
    cases h with
    | inl h =>
      obtain ⟨_, _, _, _, _, h3, _⟩ := key_denotes R k key hH.1.1.1 h
      exact Or.inl h3
    | inr h => exact Or.inr (hasKey_of_keyIn tl key hH.2 h)

set_option linter.unusedSectionVars false in
mutual
theorem denotes : (d : Data) → H14 d = true → (e : Expr) → toExpr d = some e →
    ∃ v, evalExpr e = .ok v ∧ DataEq d v
  | .null, _, e, he => by
    simp only [toExpr, Option.some.injEq] at he; subst he
    exact ⟨.nil, by simp [evalExpr], by simp [DataEq]⟩
  | .bool b, _, e, he => by
    simp only [toExpr, Option.some.injEq] at he; subst he
    refine ⟨.bool b, ?_, by simp [DataEq]⟩
    cases b <;> simp [evalExpr]
  | .i64 v, hH, e, he => by
    simp only [toExpr, Option.some.injEq] at he; subst he
    simp only [H14, Bool.and_eq_true, decide_eq_true_eq] at hH
    exact ⟨.num (intToF64 v), by simp [evalExpr], intToF64 v, rfl, R v (by omega) (by omega)⟩
  | .u64 v, hH, e, he => by
    simp only [toExpr, Option.some.injEq] at he; subst he
    simp only [H14, decide_eq_true_eq] at hH
    have h0 : (0 : Int) ≤ (v : Int) := Int.natCast_nonneg _
    exact ⟨.num (intToF64 (v : Int)), by simp [evalExpr], intToF64 (v : Int), rfl,
      R _ (by omega) (by omega)⟩
  | .f64 b, _, e, he => by
    simp only [toExpr, Option.some.injEq] at he; subst he
    exact ⟨.num b, by simp [evalExpr], by simp [DataEq]⟩
  | .str s, _, e, he => by
    simp only [toExpr, Option.some.injEq] at he; subst he
    exact ⟨.str s, by simp [evalExpr], by simp [DataEq]⟩
  | .bytes bs, _, e, he => by
    simp only [toExpr, Option.some.injEq] at he; subst he
    refine ⟨.str bs, ?_, by simp [DataEq]⟩
    have : isStringChar (.field (.var bSTRING) bCHAR) = true := by decide
    simp only [evalExpr, this, if_true, eval_hexArgs]
  | .some d, hH, e, he => by
    simp only [H14] at hH
    simp only [toExpr] at he
    obtain ⟨v, h1, h2⟩ := denotes d hH e he
    exact ⟨v, h1, by simpa [DataEq] using h2⟩
  | .seq xs, hH, e, he => by
    simp only [H14] at hH
    simp only [toExpr] at he
    cases hs : seqEntries xs with
    | none => simp [hs] at he
    | some es =>
      simp only [hs, Option.some.injEq] at he; subst he
      obtain ⟨t, h1, h2, h3⟩ := denotesSeq xs hH es hs 1 .nil
      refine ⟨.table t, by simp only [evalExpr, h1], t, rfl, h2, ?_⟩
      intro key hne
      apply Classical.byContradiction
      intro hcon
      apply hne
      rw [h3 key]
      · simp [ValMap.get]
      · intro j hj1 hj2 hk
        exact hcon ⟨j, hk, hj1, by omega⟩
  | .map kvs, hH, e, he => by
    simp only [H14, Bool.and_eq_true] at hH
    simp only [toExpr] at he
    cases hs : mapEntries kvs with
    | none => simp [hs] at he
    | some es =>
      simp only [hs, Option.some.injEq] at he; subst he
      obtain ⟨t, h1, h2, h3⟩ := denotesPairs kvs hH.1 hH.2 es hs 1 .nil
      refine ⟨.table t, by simp only [evalExpr, h1], t, rfl, h2, ?_⟩
      intro key hne
      cases hin : keyIn key kvs with
      | true => exact hasKey_of_keyIn R kvs key hH.1 hin
      | false =>
        exfalso
        apply hne
        rw [h3 key hin]
        simp [ValMap.get]
  | .variant name d, hH, e, he => by
    simp only [H14] at hH
    simp only [toExpr] at he
    cases hd : toExpr d with
    | none => simp [hd] at he
    | some ve =>
      cases hc : completeTableEntry (.str name) ve .nil with
      | none => simp [hd, hc] at he
      | some es =>
        simp only [hd, hc, Option.some.injEq] at he; subst he
        obtain ⟨v, h1, h2⟩ := denotes d hH ve hd
        refine ⟨.table ((ValMap.nil).set (.str name) v), ?_, ?_⟩
        · have := eval_completeTableEntry (.str name) ve .nil es 1 .nil (.str name) (.str name) v hc
            (by simp [evalExpr]) (by simp [toKey]) h1
          simp only [evalExpr, this, evalEntries]
        · refine ⟨_, rfl, ?_, ?_⟩
          · rw [get_set_self]; exact h2
          · intro key hne
            apply Classical.byContradiction
            intro hcon
            apply hne
            rw [get_set_ne _ _ _ _ (fun e => hcon e.symm)]
            simp [ValMap.get]
theorem denotesSeq : (xs : DataList) → H14List xs = true → (es : EntryList) →
    seqEntries xs = some es → (i : Nat) → (t0 : ValMap) →
    ∃ t, evalEntries es i t0 = .ok t ∧ SeqEq xs i t ∧
      ∀ key, (∀ j : Nat, i ≤ j → j < i + seqLen xs → key ≠ .int (j : Int)) →
        t.get key = t0.get key
  | .nil, _, es, hs, i, t0 => by
    simp only [seqEntries, Option.some.injEq] at hs; subst hs
    exact ⟨t0, by simp [evalEntries], by simp [SeqEq], fun _ _ => rfl⟩
  | .cons d tl, hH, es, hs, i, t0 => by
    simp only [H14List, Bool.and_eq_true] at hH
    cases hd : toExpr d with
    | none => simp [seqEntries, hd] at hs
    | some e =>
      cases ht : seqEntries tl with
      | none => simp [seqEntries, hd, ht] at hs
      | some es' =>
        simp only [seqEntries, hd, ht, Option.some.injEq] at hs; subst hs
        obtain ⟨v, h1, h2⟩ := denotes d hH.1 e hd
        obtain ⟨t, g1, g2, g3⟩ := denotesSeq tl hH.2 es' ht (i + 1) (t0.set (.int (i : Int)) v)
        refine ⟨t, by simp only [evalEntries, h1, g1], ?_, ?_⟩
        · refine ⟨?_, g2⟩
          rw [g3]
          · rw [get_set_self]; exact h2
          · intro j hj1 _ hk
            simp only [Key.int.injEq] at hk
            omega
        · intro key hkey
          rw [g3 key]
          · apply get_set_ne
            intro e
            exact hkey i (Nat.le_refl _) (by simp only [seqLen]; omega) e.symm
          · intro j hj1 hj2
            exact hkey j (by omega) (by simp only [seqLen]; omega)
theorem denotesPairs : (kvs : PairList) → H14Pairs kvs = true → keysDistinct kvs = true →
    (es : EntryList) → mapEntries kvs = some es → (i : Nat) → (t0 : ValMap) →
    ∃ t, evalEntries es i t0 = .ok t ∧ MapEq kvs t ∧
      ∀ key, keyIn key kvs = false → t.get key = t0.get key
  | .nil, _, _, es, hs, i, t0 => by
    simp only [mapEntries, Option.some.injEq] at hs; subst hs
    exact ⟨t0, by simp [evalEntries], by simp [MapEq], fun _ _ => rfl⟩
  | .cons k v tl, hH, hD, es, hs, i, t0 => by
    simp only [H14Pairs, Bool.and_eq_true] at hH
    simp only [keysDistinct, Bool.and_eq_true] at hD
    cases hke : toExpr k with
    | none => simp [mapEntries, hke] at hs
    | some ke =>
      cases hve : toExpr v with
      | none => simp [mapEntries, hke, hve] at hs
      | some ve =>
        cases ht : mapEntries tl with
        | none => simp [mapEntries, hke, hve, ht] at hs
        | some es' =>
          simp only [mapEntries, hke, hve, ht] at hs
          obtain ⟨key, hk⟩ := keyOf_of_accepted k hH.1.1.2 ke ve es' es hke hs
          simp only [hk, Bool.not_eq_true'] at hD
          obtain ⟨ke', kv, k0, k1, k2, k3, _⟩ := key_denotes R k key hH.1.1.1 hk
          rw [hke] at k0
          simp only [Option.some.injEq] at k0
          subst k0
          obtain ⟨val, h1, h2⟩ := denotes v hH.1.2 ve hve
          obtain ⟨t, g1, g2, g3⟩ := denotesPairs tl hH.2 hD.2 es' ht i (t0.set key val)
          refine ⟨t, ?_, ?_, ?_⟩
          · rw [eval_completeTableEntry ke ve es' es i t0 kv key val hs k1 k2 h1]
            exact g1
          · refine ⟨⟨key, k3, ?_⟩, g2⟩
            rw [g3 key hD.1, get_set_self]
            exact h2
          · intro key' hkey'
            simp only [keyIn, Bool.or_eq_false_iff, hk, beq_eq_false_iff_ne, ne_eq,
              Option.some.injEq] at hkey'
            rw [g3 key' hkey'.2]
            exact get_set_ne _ _ _ _ hkey'.1
end

/-! ## the conversion succeeds exactly when every key denotes a Lua key -/

set_option linter.unusedSectionVars false in
mutual
theorem toExpr_succeeds : (d : Data) → H14 d = true → KeysDenote d = true → ∃ e, toExpr d = some e
  | .null, _, _ => ⟨_, rfl⟩
  | .bool _, _, _ => ⟨_, rfl⟩
  | .i64 _, _, _ => ⟨_, rfl⟩
  | .u64 _, _, _ => ⟨_, rfl⟩
  | .f64 _, _, _ => ⟨_, rfl⟩
  | .str _, _, _ => ⟨_, rfl⟩
  | .bytes _, _, _ => ⟨_, rfl⟩
  | .some d, hH, hK => by
    simp only [H14] at hH
    simp only [KeysDenote] at hK
    obtain ⟨e, h⟩ := toExpr_succeeds d hH hK
    exact ⟨e, by simpa [toExpr] using h⟩
  | .seq xs, hH, hK => by
    simp only [H14] at hH
    simp only [KeysDenote] at hK
    obtain ⟨es, h⟩ := seqEntries_succeeds xs hH hK
    exact ⟨.table es, by simp [toExpr, h]⟩
  | .map kvs, hH, hK => by
    simp only [H14, Bool.and_eq_true] at hH
    simp only [KeysDenote] at hK
    obtain ⟨es, h⟩ := mapEntries_succeeds kvs hH.1 hK
    exact ⟨.table es, by simp [toExpr, h]⟩
  | .variant name d, hH, hK => by
    simp only [H14] at hH
    simp only [KeysDenote] at hK
    obtain ⟨e, h⟩ := toExpr_succeeds d hH hK
    refine ⟨.table (if isValidIdentifier name then .named name e .nil else .keyed (.str name) e .nil), ?_⟩
    simp only [toExpr, h, completeTableEntry]
theorem seqEntries_succeeds : (xs : DataList) → H14List xs = true → KeysDenoteList xs = true →
    ∃ es, seqEntries xs = some es
  | .nil, _, _ => ⟨.nil, rfl⟩
  | .cons d tl, hH, hK => by
    simp only [H14List, Bool.and_eq_true] at hH
    simp only [KeysDenoteList, Bool.and_eq_true] at hK
    obtain ⟨e, h1⟩ := toExpr_succeeds d hH.1 hK.1
    obtain ⟨es, h2⟩ := seqEntries_succeeds tl hH.2 hK.2
    exact ⟨.pos e es, by simp only [seqEntries, h1, h2]⟩
theorem mapEntries_succeeds : (kvs : PairList) → H14Pairs kvs = true → KeysDenotePairs kvs = true →
    ∃ es, mapEntries kvs = some es
  | .nil, _, _ => ⟨.nil, rfl⟩
  | .cons k v tl, hH, hK => by
    simp only [H14Pairs, Bool.and_eq_true] at hH
    simp only [KeysDenotePairs, Bool.and_eq_true, Option.isSome_iff_exists] at hK
    obtain ⟨key, hk⟩ := hK.1.1.1
    obtain ⟨ke, _, k0, _, _, _, k4⟩ := key_denotes R k key hH.1.1.1 hk
    obtain ⟨ve, h1⟩ := toExpr_succeeds v hH.1.2 hK.1.2
    obtain ⟨es', h2⟩ := mapEntries_succeeds tl hH.2 hK.2
    obtain ⟨es, h3⟩ := k4 ve es'
    exact ⟨es, by simp only [mapEntries, k0, h1, h2, h3]⟩
end

end

end DarkluaModel.C14

namespace DarkluaModel.C14
open Spec

/-! ## documents with string keys (JSON, JSON5, TOML; YAML with string keys) are inside `H14` -/

/-- some entry has the string key `s` -/
def strKeyIn (s : Bytes) : PairList → Bool
  | .nil => false
  | .cons (.str s') _ tl => (s' == s) || strKeyIn s tl
  | .cons _ _ tl => strKeyIn s tl

mutual
/-- `JsonLike d`: what a JSON / JSON5 / TOML document (or a YAML document whose mapping keys
are strings) parses to — null, booleans, integers within `i64` / `u64`, doubles, strings,
arrays, and objects whose keys are strings, pairwise different as byte strings. Stated on the
data alone. -/
def JsonLike : Data → Bool
  | .null => true
  | .bool _ => true
  | .i64 v => decide (-(2 ^ 63 : Int) ≤ v) && decide (v < (2 ^ 63 : Int))
  | .u64 v => decide (v < 2 ^ 64)
  | .f64 _ => true
  | .str _ => true
  | .seq xs => JsonLikeList xs
  | .map kvs => JsonLikePairs kvs
  | _ => false
def JsonLikeList : DataList → Bool
  | .nil => true
  | .cons d tl => JsonLike d && JsonLikeList tl
def JsonLikePairs : PairList → Bool
  | .nil => true
  | .cons (.str s) v tl => !strKeyIn s tl && JsonLike v && JsonLikePairs tl
  | .cons _ _ _ => false
end

theorem keyIn_str_of_jsonLike : (kvs : PairList) → (s : Bytes) → JsonLikePairs kvs = true →
    keyIn (.str s) kvs = strKeyIn s kvs
  | .nil, _, _ => by simp [keyIn, strKeyIn]
  | .cons (.str s') v tl, s, h => by
    simp only [JsonLikePairs, Bool.and_eq_true] at h
    have ih := keyIn_str_of_jsonLike tl s h.2
    simp only [keyIn, strKeyIn, keyOf?, ih]
    congr 1
    by_cases e : s' = s
    · subst e; simp
    · have e' : some (Key.str s') ≠ some (Key.str s) := fun hh => e (Key.str.inj (Option.some.inj hh))
      rw [beq_eq_false_iff_ne.2 e', beq_eq_false_iff_ne.2 e]
  | .cons .null _ _, _, h => by simp [JsonLikePairs] at h
  | .cons (.bool _) _ _, _, h => by simp [JsonLikePairs] at h
  | .cons (.i64 _) _ _, _, h => by simp [JsonLikePairs] at h
  | .cons (.u64 _) _ _, _, h => by simp [JsonLikePairs] at h
  | .cons (.f64 _) _ _, _, h => by simp [JsonLikePairs] at h
  | .cons (.bytes _) _ _, _, h => by simp [JsonLikePairs] at h
  | .cons (.some _) _ _, _, h => by simp [JsonLikePairs] at h
  | .cons (.seq _) _ _, _, h => by simp [JsonLikePairs] at h
  | .cons (.map _) _ _, _, h => by simp [JsonLikePairs] at h
  | .cons (.variant _ _) _ _, _, h => by simp [JsonLikePairs] at h

mutual
theorem H14_of_jsonLike : (d : Data) → JsonLike d = true → H14 d = true
  | .null, _ => by simp [H14]
  | .bool _, _ => by simp [H14]
  | .i64 v, h => by simpa [H14, JsonLike] using h
  | .u64 v, h => by simpa [H14, JsonLike] using h
  | .f64 _, _ => by simp [H14]
  | .str _, _ => by simp [H14]
  | .seq xs, h => by
    simp only [JsonLike] at h
    simp only [H14]
    exact H14_of_jsonLikeList xs h
  | .map kvs, h => by
    simp only [JsonLike] at h
    simp only [H14, Bool.and_eq_true]
    exact H14_of_jsonLikePairs kvs h
  | .bytes _, h => by simp [JsonLike] at h
  | .some _, h => by simp [JsonLike] at h
  | .variant _ _, h => by simp [JsonLike] at h
theorem H14_of_jsonLikeList : (xs : DataList) → JsonLikeList xs = true → H14List xs = true
  | .nil, _ => by simp [H14List]
  | .cons d tl, h => by
    simp only [JsonLikeList, Bool.and_eq_true] at h
    simp only [H14List, Bool.and_eq_true]
    exact ⟨H14_of_jsonLike d h.1, H14_of_jsonLikeList tl h.2⟩
theorem H14_of_jsonLikePairs : (kvs : PairList) → JsonLikePairs kvs = true →
    H14Pairs kvs = true ∧ keysDistinct kvs = true
  | .nil, _ => by simp [H14Pairs, keysDistinct]
  | .cons (.str s) v tl, h => by
    have hk := keyIn_str_of_jsonLike tl s (by
      simp only [JsonLikePairs, Bool.and_eq_true] at h; exact h.2)
    simp only [JsonLikePairs, Bool.and_eq_true, Bool.not_eq_true'] at h
    obtain ⟨i1, i2⟩ := H14_of_jsonLikePairs tl h.2
    have hv := H14_of_jsonLike v h.1.2
    simp only [H14Pairs, keysDistinct, keyOf?, keyAllowed, H14, hk, h.1.1, hv, i1, i2, Bool.not_false,
      Bool.and_self]
    simp
  | .cons .null _ _, h => by simp [JsonLikePairs] at h
  | .cons (.bool _) _ _, h => by simp [JsonLikePairs] at h
  | .cons (.i64 _) _ _, h => by simp [JsonLikePairs] at h
  | .cons (.u64 _) _ _, h => by simp [JsonLikePairs] at h
  | .cons (.f64 _) _ _, h => by simp [JsonLikePairs] at h
  | .cons (.bytes _) _ _, h => by simp [JsonLikePairs] at h
  | .cons (.some _) _ _, h => by simp [JsonLikePairs] at h
  | .cons (.seq _) _ _, h => by simp [JsonLikePairs] at h
  | .cons (.map _) _ _, h => by simp [JsonLikePairs] at h
  | .cons (.variant _ _) _ _, h => by simp [JsonLikePairs] at h
end

mutual
theorem keysDenote_of_jsonLike : (d : Data) → JsonLike d = true → KeysDenote d = true
  | .null, _ => by simp [KeysDenote]
  | .bool _, _ => by simp [KeysDenote]
  | .i64 _, _ => by simp [KeysDenote]
  | .u64 _, _ => by simp [KeysDenote]
  | .f64 _, _ => by simp [KeysDenote]
  | .str _, _ => by simp [KeysDenote]
  | .seq xs, h => by
    simp only [JsonLike] at h
    simp only [KeysDenote]
    exact keysDenote_of_jsonLikeList xs h
  | .map kvs, h => by
    simp only [JsonLike] at h
    simp only [KeysDenote]
    exact keysDenote_of_jsonLikePairs kvs h
  | .bytes _, h => by simp [JsonLike] at h
  | .some _, h => by simp [JsonLike] at h
  | .variant _ _, h => by simp [JsonLike] at h
theorem keysDenote_of_jsonLikeList : (xs : DataList) → JsonLikeList xs = true →
    KeysDenoteList xs = true
  | .nil, _ => by simp [KeysDenoteList]
  | .cons d tl, h => by
    simp only [JsonLikeList, Bool.and_eq_true] at h
    simp only [KeysDenoteList, Bool.and_eq_true]
    exact ⟨keysDenote_of_jsonLike d h.1, keysDenote_of_jsonLikeList tl h.2⟩
theorem keysDenote_of_jsonLikePairs : (kvs : PairList) → JsonLikePairs kvs = true →
    KeysDenotePairs kvs = true
  | .nil, _ => by simp [KeysDenotePairs]
  | .cons (.str s) v tl, h => by
    simp only [JsonLikePairs, Bool.and_eq_true] at h
    simp only [KeysDenotePairs, keyOf?, KeysDenote, Option.isSome_some, Bool.true_and,
      Bool.and_eq_true]
    exact ⟨keysDenote_of_jsonLike v h.1.2, keysDenote_of_jsonLikePairs tl h.2⟩
  | .cons .null _ _, h => by simp [JsonLikePairs] at h
  | .cons (.bool _) _ _, h => by simp [JsonLikePairs] at h
  | .cons (.i64 _) _ _, h => by simp [JsonLikePairs] at h
  | .cons (.u64 _) _ _, h => by simp [JsonLikePairs] at h
  | .cons (.f64 _) _ _, h => by simp [JsonLikePairs] at h
  | .cons (.bytes _) _ _, h => by simp [JsonLikePairs] at h
  | .cons (.some _) _ _, h => by simp [JsonLikePairs] at h
  | .cons (.seq _) _ _, h => by simp [JsonLikePairs] at h
  | .cons (.map _) _ _, h => by simp [JsonLikePairs] at h
  | .cons (.variant _ _) _ _, h => by simp [JsonLikePairs] at h
end

end DarkluaModel.C14
