import DarkluaModel.C14.Model
import DarkluaModel.C14.Spec
/-!
# C14 — hypothesis `H14` and helper lemmas
-/
namespace DarkluaModel.C14
open Spec

/-! ## the hypothesis of the partial theorem (decidable; exposed by the driver as `c14.H`) -/

/-- the Lua key a map key denotes, computed; `none` for null, NaN and container keys -/
def keyOf? : Data → Option Key
  | .str s => some (.str s)
  | .bool b => some (.bool b)
  | .i64 v => match toKey (.num (intToF64 v)) with
    | .ok k => some k
    | .error _ => none
  | .u64 v => match toKey (.num (intToF64 (v : Int))) with
    | .ok k => some k
    | .error _ => none
  | .f64 b => match toKey (.num b) with
    | .ok k => some k
    | .error _ => none
  | .some d => keyOf? d
  | _ => none

/-- some entry of `kvs` has the Lua key `key` -/
def keyIn (key : Key) : PairList → Bool
  | .nil => false
  | .cons k _ tl => (keyOf? k == some key) || keyIn key tl

/-- no two entries denote the same Lua key (`1` and `1.0`, `0` and `-0.0` do) -/
def keysDistinct : PairList → Bool
  | .nil => true
  | .cons k _ tl => (match keyOf? k with
      | some key => !keyIn key tl
      | none => false) && keysDistinct tl

mutual
/-- `H14 d`: integers are in the range of their Rust type, and in every map (at any depth,
keys included) each key is a scalar that denotes a Lua key — a string, a boolean or a number
other than NaN (not null, not a sequence or map; F15) — and no two keys of one map denote the
same Lua key. -/
def H14 : Data → Bool
  | .null => true
  | .bool _ => true
  | .i64 v => decide (-(2 ^ 63 : Int) ≤ v) && decide (v < (2 ^ 63 : Int))
  | .u64 v => decide (v < 2 ^ 64)
  | .f64 _ => true
  | .str _ => true
  | .bytes _ => true
  | .some d => H14 d
  | .seq xs => H14List xs
  | .map kvs => H14Pairs kvs && keysDistinct kvs
  | .variant _ d => H14 d
def H14List : DataList → Bool
  | .nil => true
  | .cons d tl => H14 d && H14List tl
def H14Pairs : PairList → Bool
  | .nil => true
  | .cons k v tl => H14 k && H14 v && H14Pairs tl
end

/-! ## association lists -/

theorem get_remove : (t : ValMap) → (k k' : Key) →
    (t.remove k).get k' = if k = k' then Val.nil else t.get k'
  | .nil, k, k' => by simp [ValMap.remove, ValMap.get]
  | .cons a v tl, k, k' => by
    have ih := get_remove tl k k'
    by_cases h : a = k
    · subst h
      simp only [ValMap.remove, if_true]
      rw [ih]
      by_cases h2 : a = k'
      · simp [h2]
      · simp [h2, ValMap.get]
    · simp only [ValMap.remove, h, if_false, ValMap.get]
      rw [ih]
      by_cases h2 : a = k'
      · subst h2
        have h' : ¬ k = a := fun e => h e.symm
        simp [h']
      · simp [h2]

theorem isNil_iff (v : Val) : v.isNil = true ↔ v = Val.nil := by
  cases v <;> simp [Val.isNil]

theorem get_set (t : ValMap) (k k' : Key) (v : Val) :
    (t.set k v).get k' = if k = k' then v else t.get k' := by
  unfold ValMap.set
  by_cases hv : v.isNil = true
  · have : v = Val.nil := (isNil_iff v).1 hv
    subst this
    simp only [hv, if_true]
    exact get_remove t k k'
  · have hv' : v.isNil = false := by simpa using hv
    simp only [hv', Bool.false_eq_true, if_false, ValMap.get]
    rw [get_remove]
    by_cases h : k = k' <;> simp [h]

theorem get_set_self (t : ValMap) (k : Key) (v : Val) : (t.set k v).get k = v := by
  rw [get_set]; simp

theorem get_set_ne (t : ValMap) (k k' : Key) (v : Val) (h : k ≠ k') :
    (t.set k v).get k' = t.get k' := by
  rw [get_set]; simp [h]

/-! ## `completeTableEntry` evaluates as one keyed assignment -/

theorem eval_completeTableEntry (ke ve : Expr) (tl : EntryList) (i : Nat) (t : ValMap)
    (kv : Val) (key : Key) (v : Val)
    (hk : evalExpr ke = .ok kv) (hkey : toKey kv = .ok key) (hv : evalExpr ve = .ok v) :
    evalEntries (completeTableEntry ke ve tl) i t = evalEntries tl i (t.set key v) := by
  unfold completeTableEntry
  split
  · rename_i s
    simp only [evalExpr] at hk
    cases hk
    simp only [toKey] at hkey
    cases hkey
    split
    · simp only [evalEntries, hv]
    · simp only [evalEntries, evalExpr, toKey, hv]
  · simp only [evalEntries, hk, hkey, hv]


/-! ## bytes: `string.char(0x.., …)` evaluates to the byte string -/

set_option maxRecDepth 100000 in
theorem byte_exact : ∀ n, n < 256 →
    (exactNatBits? n).bind f64ToInt? = some (n : Int) := by decide

theorem eval_hexArgs : (bs : Bytes) → evalCharArgs (hexArgs bs) = .ok bs
  | [] => by simp [hexArgs, evalCharArgs]
  | b :: rest => by
    have ih := eval_hexArgs rest
    have hb := byte_exact b.toNat b.toNat_lt
    cases hx : exactNatBits? b.toNat with
    | none => simp [hx] at hb
    | some x =>
      simp only [hx, Option.bind] at hb
      have h0 : (0 : Int) ≤ (b.toNat : Int) := Int.natCast_nonneg _
      have h1 : (b.toNat : Int) ≤ 255 := by
        have := b.toNat_lt
        show (b.toNat : Int) ≤ 255
        omega
      simp only [hexArgs, evalCharArgs, evalExpr, hx, hb, ih, h0, h1, and_self, if_true]
      simp

/-! ## the main induction, relative to the rounding fact `R` (proved in `Rounding.lean`) -/

section
variable (R : ∀ v : Int, -(2 ^ 64 : Int) < v → v < (2 ^ 64 : Int) → nearestEven v (intToF64 v) = true)
include R

theorem key_denotes : (k : Data) → (key : Key) → H14 k = true → keyOf? k = some key →
    ∃ kv, evalExpr (toExpr k) = .ok kv ∧ toKey kv = .ok key ∧ KeyEq k key
  | .str s, key, _, h => by
    simp only [keyOf?, Option.some.injEq] at h
    subst h
    exact ⟨.str s, by simp [toExpr, evalExpr], by simp [toKey], by simp [KeyEq]⟩
  | .bool b, key, _, h => by
    simp only [keyOf?, Option.some.injEq] at h
    subst h
    refine ⟨.bool b, ?_, by simp [toKey], by simp [KeyEq]⟩
    cases b <;> simp [toExpr, evalExpr]
  | .i64 v, key, hH, h => by
    simp only [H14, Bool.and_eq_true, decide_eq_true_eq] at hH
    simp only [keyOf?] at h
    cases hk : toKey (.num (intToF64 v)) with
    | error e => simp [hk] at h
    | ok k' =>
      simp only [hk, Option.some.injEq] at h
      subst h
      refine ⟨.num (intToF64 v), by simp [toExpr, evalExpr], hk, ?_⟩
      exact ⟨intToF64 v, R v (by omega) (by omega), hk⟩
  | .u64 v, key, hH, h => by
    simp only [H14, decide_eq_true_eq] at hH
    simp only [keyOf?] at h
    cases hk : toKey (.num (intToF64 (v : Int))) with
    | error e => simp [hk] at h
    | ok k' =>
      simp only [hk, Option.some.injEq] at h
      subst h
      refine ⟨.num (intToF64 (v : Int)), by simp [toExpr, evalExpr], hk, ?_⟩
      refine ⟨intToF64 (v : Int), R _ ?_ ?_, hk⟩
      · have : (0 : Int) ≤ (v : Int) := Int.natCast_nonneg _
        omega
      · show (v : Int) < 2 ^ 64
        omega
  | .f64 b, key, _, h => by
    simp only [keyOf?] at h
    cases hk : toKey (.num b) with
    | error e => simp [hk] at h
    | ok k' =>
      simp only [hk, Option.some.injEq] at h
      subst h
      exact ⟨.num b, by simp [toExpr, evalExpr], hk, hk⟩
  | .some d, key, hH, h => by
    simp only [H14] at hH
    simp only [keyOf?] at h
    obtain ⟨kv, h1, h2, h3⟩ := key_denotes d key hH h
    exact ⟨kv, by simpa [toExpr] using h1, h2, by simpa [KeyEq] using h3⟩
  | .null, _, _, h => by simp [keyOf?] at h
  | .bytes _, _, _, h => by simp [keyOf?] at h
  | .seq _, _, _, h => by simp [keyOf?] at h
  | .map _, _, _, h => by simp [keyOf?] at h
  | .variant _ _, _, _, h => by simp [keyOf?] at h

theorem hasKey_of_keyIn : (kvs : PairList) → (key : Key) → H14Pairs kvs = true →
    keyIn key kvs = true → HasKey kvs key
  | .nil, _, _, h => by simp [keyIn] at h
  | .cons k v tl, key, hH, h => by
    simp only [H14Pairs, Bool.and_eq_true] at hH
    simp only [keyIn, Bool.or_eq_true, beq_iff_eq] at h
    cases h with
    | inl h =>
      obtain ⟨_, _, _, h3⟩ := key_denotes R k key hH.1.1 h
      exact Or.inl h3
    | inr h => exact Or.inr (hasKey_of_keyIn tl key hH.2 h)

set_option linter.unusedSectionVars false in
mutual
theorem denotes : (d : Data) → H14 d = true → ∃ v, evalExpr (toExpr d) = .ok v ∧ DataEq d v
  | .null, _ => ⟨.nil, by simp [toExpr, evalExpr], by simp [DataEq]⟩
  | .bool b, _ => by
    refine ⟨.bool b, ?_, by simp [DataEq]⟩
    cases b <;> simp [toExpr, evalExpr]
  | .i64 v, hH => by
    simp only [H14, Bool.and_eq_true, decide_eq_true_eq] at hH
    refine ⟨.num (intToF64 v), by simp [toExpr, evalExpr], ?_⟩
    exact ⟨intToF64 v, rfl, R v (by omega) (by omega)⟩
  | .u64 v, hH => by
    simp only [H14, decide_eq_true_eq] at hH
    refine ⟨.num (intToF64 (v : Int)), by simp [toExpr, evalExpr], ?_⟩
    refine ⟨intToF64 (v : Int), rfl, R _ ?_ ?_⟩
    · have : (0 : Int) ≤ (v : Int) := Int.natCast_nonneg _
      omega
    · show (v : Int) < 2 ^ 64
      omega
  | .f64 b, _ => ⟨.num b, by simp [toExpr, evalExpr], by simp [DataEq]⟩
  | .str s, _ => ⟨.str s, by simp [toExpr, evalExpr], by simp [DataEq]⟩
  | .bytes bs, _ => by
    refine ⟨.str bs, ?_, by simp [DataEq]⟩
    have : isStringChar (.field (.var bSTRING) bCHAR) = true := by decide
    simp only [toExpr, evalExpr, this, if_true, eval_hexArgs]
  | .some d, hH => by
    simp only [H14] at hH
    obtain ⟨v, h1, h2⟩ := denotes d hH
    exact ⟨v, by simpa [toExpr] using h1, by simpa [DataEq] using h2⟩
  | .seq xs, hH => by
    simp only [H14] at hH
    obtain ⟨t, h1, h2, h3⟩ := denotesSeq xs hH 1 .nil
    refine ⟨.table t, by simp only [toExpr, evalExpr, h1], ?_⟩
    refine ⟨t, rfl, h2, ?_⟩
    intro key hne
    apply Classical.byContradiction
    intro hcon
    apply hne
    rw [h3 key]
    · simp [ValMap.get]
    · intro j hj1 hj2 hk
      exact hcon ⟨j, hk, hj1, by omega⟩
  | .map kvs, hH => by
    simp only [H14, Bool.and_eq_true] at hH
    obtain ⟨t, h1, h2, h3⟩ := denotesPairs kvs hH.1 hH.2 1 .nil
    refine ⟨.table t, by simp only [toExpr, evalExpr, h1], ?_⟩
    refine ⟨t, rfl, h2, ?_⟩
    intro key hne
    cases hin : keyIn key kvs with
    | true => exact hasKey_of_keyIn R kvs key hH.1 hin
    | false =>
      exfalso
      apply hne
      rw [h3 key hin]
      simp [ValMap.get]
  | .variant name d, hH => by
    simp only [H14] at hH
    obtain ⟨v, h1, h2⟩ := denotes d hH
    refine ⟨.table ((ValMap.nil).set (.str name) v), ?_, ?_⟩
    · have := eval_completeTableEntry (.str name) (toExpr d) .nil 1 .nil (.str name) (.str name) v
        (by simp [evalExpr]) (by simp [toKey]) h1
      simp only [toExpr, evalExpr, this, evalEntries]
    · refine ⟨_, rfl, ?_, ?_⟩
      · rw [get_set_self]; exact h2
      · intro key hne
        apply Classical.byContradiction
        intro hcon
        apply hne
        rw [get_set_ne _ _ _ _ (fun e => hcon e.symm)]
        simp [ValMap.get]
theorem denotesSeq : (xs : DataList) → H14List xs = true → (i : Nat) → (t0 : ValMap) →
    ∃ t, evalEntries (seqEntries xs) i t0 = .ok t ∧ SeqEq xs i t ∧
      ∀ key, (∀ j : Nat, i ≤ j → j < i + seqLen xs → key ≠ .int (j : Int)) →
        t.get key = t0.get key
  | .nil, _, i, t0 => ⟨t0, by simp [seqEntries, evalEntries], by simp [SeqEq], fun _ _ => rfl⟩
  | .cons d tl, hH, i, t0 => by
    simp only [H14List, Bool.and_eq_true] at hH
    obtain ⟨v, h1, h2⟩ := denotes d hH.1
    obtain ⟨t, g1, g2, g3⟩ := denotesSeq tl hH.2 (i + 1) (t0.set (.int (i : Int)) v)
    refine ⟨t, by simp only [seqEntries, evalEntries, h1, g1], ?_, ?_⟩
    · refine ⟨?_, g2⟩
      rw [g3]
      · rw [get_set_self]; exact h2
      · intro j hj1 _ hk
        simp only [Key.int.injEq] at hk
        omega
    · intro key hkey
      rw [g3 key]
      · apply get_set_ne
        intro e
        exact hkey i (Nat.le_refl _) (by simp only [seqLen]; omega) e.symm
      · intro j hj1 hj2
        exact hkey j (by omega) (by simp only [seqLen]; omega)
theorem denotesPairs : (kvs : PairList) → H14Pairs kvs = true → keysDistinct kvs = true →
    (i : Nat) → (t0 : ValMap) →
    ∃ t, evalEntries (mapEntries kvs) i t0 = .ok t ∧ MapEq kvs t ∧
      ∀ key, keyIn key kvs = false → t.get key = t0.get key
  | .nil, _, _, i, t0 => ⟨t0, by simp [mapEntries, evalEntries], by simp [MapEq], fun _ _ => rfl⟩
  | .cons k v tl, hH, hD, i, t0 => by
    simp only [H14Pairs, Bool.and_eq_true] at hH
    simp only [keysDistinct, Bool.and_eq_true] at hD
    cases hk : keyOf? k with
    | none => simp [hk] at hD
    | some key =>
      simp only [hk, Bool.not_eq_true'] at hD
      obtain ⟨kv, k1, k2, k3⟩ := key_denotes R k key hH.1.1 hk
      obtain ⟨val, h1, h2⟩ := denotes v hH.1.2
      obtain ⟨t, g1, g2, g3⟩ := denotesPairs tl hH.2 hD.2 i (t0.set key val)
      refine ⟨t, ?_, ?_, ?_⟩
      · simp only [mapEntries]
        rw [eval_completeTableEntry (toExpr k) (toExpr v) (mapEntries tl) i t0 kv key val k1 k2 h1]
        exact g1
      · refine ⟨⟨key, k3, ?_⟩, g2⟩
        rw [g3 key hD.1, get_set_self]
        exact h2
      · intro key' hkey'
        simp only [keyIn, Bool.or_eq_false_iff, hk, beq_eq_false_iff_ne, ne_eq,
          Option.some.injEq] at hkey'
        rw [g3 key' hkey'.2]
        exact get_set_ne _ _ _ _ hkey'.1
end

end

end DarkluaModel.C14

namespace DarkluaModel.C14
open Spec

/-! ## documents with string keys (JSON, JSON5, TOML; YAML with string keys) are inside `H14` -/

/-- some entry has the string key `s` -/
def strKeyIn (s : Bytes) : PairList → Bool
  | .nil => false
  | .cons (.str s') _ tl => (s' == s) || strKeyIn s tl
  | .cons _ _ tl => strKeyIn s tl

mutual
/-- `JsonLike d`: what a JSON / JSON5 / TOML document (or a YAML document whose mapping keys
are strings) parses to — null, booleans, integers within `i64` / `u64`, doubles, strings,
arrays, and objects whose keys are strings, pairwise different as byte strings. Stated on the
data alone. -/
def JsonLike : Data → Bool
  | .null => true
  | .bool _ => true
  | .i64 v => decide (-(2 ^ 63 : Int) ≤ v) && decide (v < (2 ^ 63 : Int))
  | .u64 v => decide (v < 2 ^ 64)
  | .f64 _ => true
  | .str _ => true
  | .seq xs => JsonLikeList xs
  | .map kvs => JsonLikePairs kvs
  | _ => false
def JsonLikeList : DataList → Bool
  | .nil => true
  | .cons d tl => JsonLike d && JsonLikeList tl
def JsonLikePairs : PairList → Bool
  | .nil => true
  | .cons (.str s) v tl => !strKeyIn s tl && JsonLike v && JsonLikePairs tl
  | .cons _ _ _ => false
end

theorem keyIn_str_of_jsonLike : (kvs : PairList) → (s : Bytes) → JsonLikePairs kvs = true →
    keyIn (.str s) kvs = strKeyIn s kvs
  | .nil, _, _ => by simp [keyIn, strKeyIn]
  | .cons (.str s') v tl, s, h => by
    simp only [JsonLikePairs, Bool.and_eq_true] at h
    have ih := keyIn_str_of_jsonLike tl s h.2
    simp only [keyIn, strKeyIn, keyOf?, ih]
    congr 1
    by_cases e : s' = s
    · subst e; simp
    · have e' : some (Key.str s') ≠ some (Key.str s) := fun hh => e (Key.str.inj (Option.some.inj hh))
      rw [beq_eq_false_iff_ne.2 e', beq_eq_false_iff_ne.2 e]
  | .cons .null _ _, _, h => by simp [JsonLikePairs] at h
  | .cons (.bool _) _ _, _, h => by simp [JsonLikePairs] at h
  | .cons (.i64 _) _ _, _, h => by simp [JsonLikePairs] at h
  | .cons (.u64 _) _ _, _, h => by simp [JsonLikePairs] at h
  | .cons (.f64 _) _ _, _, h => by simp [JsonLikePairs] at h
  | .cons (.bytes _) _ _, _, h => by simp [JsonLikePairs] at h
  | .cons (.some _) _ _, _, h => by simp [JsonLikePairs] at h
  | .cons (.seq _) _ _, _, h => by simp [JsonLikePairs] at h
  | .cons (.map _) _ _, _, h => by simp [JsonLikePairs] at h
  | .cons (.variant _ _) _ _, _, h => by simp [JsonLikePairs] at h

mutual
theorem H14_of_jsonLike : (d : Data) → JsonLike d = true → H14 d = true
  | .null, _ => by simp [H14]
  | .bool _, _ => by simp [H14]
  | .i64 v, h => by simpa [H14, JsonLike] using h
  | .u64 v, h => by simpa [H14, JsonLike] using h
  | .f64 _, _ => by simp [H14]
  | .str _, _ => by simp [H14]
  | .seq xs, h => by
    simp only [JsonLike] at h
    simp only [H14]
    exact H14_of_jsonLikeList xs h
  | .map kvs, h => by
    simp only [JsonLike] at h
    simp only [H14, Bool.and_eq_true]
    exact H14_of_jsonLikePairs kvs h
  | .bytes _, h => by simp [JsonLike] at h
  | .some _, h => by simp [JsonLike] at h
  | .variant _ _, h => by simp [JsonLike] at h
theorem H14_of_jsonLikeList : (xs : DataList) → JsonLikeList xs = true → H14List xs = true
  | .nil, _ => by simp [H14List]
  | .cons d tl, h => by
    simp only [JsonLikeList, Bool.and_eq_true] at h
    simp only [H14List, Bool.and_eq_true]
    exact ⟨H14_of_jsonLike d h.1, H14_of_jsonLikeList tl h.2⟩
theorem H14_of_jsonLikePairs : (kvs : PairList) → JsonLikePairs kvs = true →
    H14Pairs kvs = true ∧ keysDistinct kvs = true
  | .nil, _ => by simp [H14Pairs, keysDistinct]
  | .cons (.str s) v tl, h => by
    have hk := keyIn_str_of_jsonLike tl s (by
      simp only [JsonLikePairs, Bool.and_eq_true] at h; exact h.2)
    simp only [JsonLikePairs, Bool.and_eq_true, Bool.not_eq_true'] at h
    obtain ⟨i1, i2⟩ := H14_of_jsonLikePairs tl h.2
    have hv := H14_of_jsonLike v h.1.2
    simp only [H14Pairs, keysDistinct, keyOf?, H14, hk, h.1.1, hv, i1, i2, Bool.not_false,
      Bool.and_self]
    simp
  | .cons .null _ _, h => by simp [JsonLikePairs] at h
  | .cons (.bool _) _ _, h => by simp [JsonLikePairs] at h
  | .cons (.i64 _) _ _, h => by simp [JsonLikePairs] at h
  | .cons (.u64 _) _ _, h => by simp [JsonLikePairs] at h
  | .cons (.f64 _) _ _, h => by simp [JsonLikePairs] at h
  | .cons (.bytes _) _ _, h => by simp [JsonLikePairs] at h
  | .cons (.some _) _ _, h => by simp [JsonLikePairs] at h
  | .cons (.seq _) _ _, h => by simp [JsonLikePairs] at h
  | .cons (.map _) _ _, h => by simp [JsonLikePairs] at h
  | .cons (.variant _ _) _ _, h => by simp [JsonLikePairs] at h
end

end DarkluaModel.C14
