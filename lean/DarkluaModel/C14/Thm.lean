import DarkluaModel.C14.Lemmas
import DarkluaModel.C14.Rounding
import DarkluaModel.C14.Ident
/-!
# C14 — Data files convert to Lua values equal to the data: the theorems

`toExpr` (Model) mirrors `to_expression`; `evalExpr`, `DataEq`, `isLuaIdent`, `nearestEven`
(Spec) are the reference artefacts; `H14` (Lemmas) is the decidable hypothesis.
-/
namespace DarkluaModel.C14
open Spec

/-! ## the value of the emitted constructor equals the data -/

/-- Full-strength statement: whenever the conversion succeeds (it may refuse with an error),
the emitted expression evaluates (no error) to a Lua value equal to the datum. -/
def serialize_denotes_full : Prop :=
  ∀ (d : Data) (e : Expr), toExpr d = some e → ∃ v, evalExpr e = .ok v ∧ DataEq d v

/-- F15b witness: the YAML document `{0: a, -0.0: b}` — two keys that are one Lua key -/
def f15bWitness : Data :=
  .map (.cons (.u64 0) (.str [97]) (.cons (.f64 0x8000000000000000) (.str [98]) .nil))

/-- **False on the current code (F15b)**: `{[0]='a',[-0]='b'}` evaluates to a table with the
single key `0` holding `'b'`; the entry `0: a` of the document is lost. -/
theorem serialize_denotes_full_false : ¬ serialize_denotes_full := by
  intro h
  obtain ⟨v, hv, hd⟩ := h f15bWitness
    (.table (.keyed (.num 0) (.str [97]) (.keyed (.num 0x8000000000000000) (.str [98]) .nil))) (by rfl)
  have hev : evalExpr (.table (.keyed (.num 0) (.str [97])
      (.keyed (.num 0x8000000000000000) (.str [98]) .nil))) =
      .ok (.table (.cons (.int 0) (.str [98]) .nil)) := by rfl
  rw [hev] at hv
  cases hv
  simp only [f15bWitness, DataEq, MapEq, KeyEq] at hd
  obtain ⟨t, ht, ⟨⟨key, ⟨b, hb, hk⟩, hval⟩, _⟩, _⟩ := hd
  cases ht
  have hb0 : b = 0 := by
    have : nearestEven ((0 : Nat) : Int) b = (b == 0) := by simp [nearestEven]
    rw [this] at hb
    simpa using hb
  subst hb0
  have hk0 : toKey (.num 0) = .ok (.int 0) := by rfl
  rw [hk0] at hk
  cases hk
  have : (ValMap.cons (.int 0) (.str [98]) .nil).get (.int 0) = .str [98] := by rfl
  rw [this] at hval
  cases hval

/-- F15 witness (fixed): the YAML document `{~: 1, .nan: 2}` -/
def f15Witness : Data :=
  .map (.cons .null (.u64 1) (.cons (.f64 0x7ff8000000000000) (.u64 2) .nil))

/-- regression for F15: the conversion now refuses the witness instead of emitting
`{[nil]=1,[(0/0)]=2}` -/
example : toExpr f15Witness = none := by rfl

/-- a null key is refused, whatever the value and the other entries (F15, fixed) -/
theorem null_key_refused (v : Data) (tl : PairList) : toExpr (.map (.cons .null v tl)) = none := by
  simp only [toExpr, mapEntries]
  cases toExpr v <;> cases mapEntries tl <;> simp [completeTableEntry]

/-- a NaN key is refused as well (F15, fixed) -/
theorem nan_key_refused (b : Nat) (hb : isNaNBits b = true) (v : Data) (tl : PairList) :
    toExpr (.map (.cons (.f64 b) v tl)) = none := by
  simp only [toExpr, mapEntries]
  cases toExpr v <;> cases mapEntries tl <;> simp [completeTableEntry, hb]

example : toExpr (.map (.cons (.f64 0x7ff8000000000000) (.u64 2) .nil)) = none :=
  nan_key_refused _ (by decide) _ _

/-- **Partial theorem** (strictly larger region than before the fix of F15: null and NaN keys
are no longer excluded). For every datum satisfying `H14` — integers within `i64`/`u64`; every
map key a scalar or null (not a container); no two keys of a map equal as Lua keys — whenever
the conversion succeeds, the emitted expression evaluates without error to a Lua value equal to
the datum. -/
theorem serialize_denotes_partial (d : Data) (h : H14 d = true) (e : Expr)
    (he : toExpr d = some e) : ∃ v, evalExpr e = .ok v ∧ DataEq d v :=
  denotes intToF64_nearest d h e he

/-- and it does succeed when moreover no key is null or NaN (`KeysDenote`) -/
theorem conversion_succeeds (d : Data) (h : H14 d = true) (hk : KeysDenote d = true) :
    ∃ e, toExpr d = some e :=
  toExpr_succeeds intToF64_nearest d h hk

/-- a non-trivial datum inside `H14`: nested containers, a null inside an array and as a
value, keys that are a keyword / start with a digit / empty / contain a quote and NUL /
non-ASCII, a boolean and a number key, integers beyond 2^53 of both signs, bytes -/
def sampleDatum : Data :=
  .map (.cons (.str [100, 111]) (.seq (.cons (.u64 1) (.cons .null (.cons (.str [0, 255]) .nil))))
    (.cons (.str [49, 97]) .null
    (.cons (.str []) (.i64 (-9007199254740993))
    (.cons (.str [34, 0, 39]) (.u64 18446744073709551615)
    (.cons (.str [195, 169]) (.map .nil)
    (.cons (.bool true) (.f64 0x7ff0000000000000)
    (.cons (.i64 3) (.some (.bytes [0, 65, 255]))
    (.cons (.str [111, 107]) (.variant [86] (.seq .nil)) .nil))))))))

example : H14 sampleDatum = true ∧ KeysDenote sampleDatum = true := by decide
example : ∃ e, toExpr sampleDatum = some e ∧ ∃ v, evalExpr e = .ok v ∧ DataEq sampleDatum v := by
  obtain ⟨e, he⟩ := conversion_succeeds sampleDatum (by decide) (by decide)
  exact ⟨e, he, serialize_denotes_partial sampleDatum (by decide) e he⟩
/-- the F15 witness is now inside `H14` (the hypothesis no longer excludes it) -/
example : H14 f15Witness = true := by decide
/-- the F15b witness is outside `H14` (so the hypothesis excludes the remaining defect) -/
example : H14 f15bWitness = false := by decide
/-- what a null inside an array becomes: a hole -/
example : (toExpr (.seq (.cons (.u64 1) (.cons .null (.cons (.u64 3) .nil))))).map evalExpr =
    some (.ok (.table (.cons (.int 3) (.num 0x4008000000000000) (.cons (.int 1) (.num 0x3ff0000000000000) .nil)))) := by
  rfl

/-- **Corollary for documents with string keys** (everything JSON, JSON5 and TOML can express,
and YAML documents whose mapping keys are strings): the hypothesis is stated on the data alone —
integers within `i64`/`u64`, object keys pairwise different byte strings — and the conversion
succeeds with an expression that evaluates without error to a value equal to the document. In
particular an object becomes a table with exactly the same string keys, whatever bytes they
contain. -/
theorem serialize_denotes_json (d : Data) (h : JsonLike d = true) :
    ∃ e, toExpr d = some e ∧ ∃ v, evalExpr e = .ok v ∧ DataEq d v := by
  have hH := H14_of_jsonLike d h
  obtain ⟨e, he⟩ := conversion_succeeds d hH (keysDenote_of_jsonLike d h)
  exact ⟨e, he, serialize_denotes_partial d hH e he⟩

/-- keys: a keyword, digit-first, empty, quote+NUL+apostrophe, non-ASCII, an identifier;
values: nested arrays with nulls, integers beyond 2^53, an empty object -/
def sampleJson : Data :=
  .map (.cons (.str [100, 111]) (.seq (.cons (.u64 1) (.cons .null (.cons (.seq (.cons .null .nil)) .nil))))
    (.cons (.str [49, 97]) .null
    (.cons (.str []) (.i64 (-9007199254740993))
    (.cons (.str [34, 0, 39]) (.u64 18446744073709551615)
    (.cons (.str [195, 169]) (.map .nil)
    (.cons (.str [111, 107, 95, 49]) (.f64 0x3ff8000000000000) .nil))))))

example : JsonLike sampleJson = true := by decide
example : ∃ e, toExpr sampleJson = some e ∧ ∃ v, evalExpr e = .ok v ∧ DataEq sampleJson v :=
  serialize_denotes_json sampleJson (by decide)

/-! ## integers become the nearest double -/

/-- **`v as f64` as modelled is the nearest double, ties to even**, for every integer of
magnitude below 2^64 (all of `i64` and `u64`). -/
theorem int_conversion_nearest (v : Int) (h1 : -(2 ^ 64 : Int) < v) (h2 : v < (2 ^ 64 : Int)) :
    nearestEven v (intToF64 v) = true :=
  intToF64_nearest v h1 h2

example : intToF64 9007199254740993 = 0x4340000000000000 := by decide   -- 2^53+1 ↦ 2^53 (tie, even)
example : intToF64 9007199254740995 = 0x4340000000000002 := by decide   -- 2^53+3 ↦ 2^53+4
example : intToF64 (-9223372036854775808) = 0xc3e0000000000000 := by decide
example : nearestEven 9007199254740993 0x4340000000000001 = false := by decide

/-! ## `k = v` only for Lua identifiers -/

mutual
/-- every field entry `k = v` anywhere in the expression has a key accepted by `P` -/
def NamedAll (P : Bytes → Bool) : Expr → Prop
  | .table es => NamedAllEntries P es
  | .call f args => NamedAll P f ∧ NamedAllArgs P args
  | .field e _ => NamedAll P e
  | .neg e => NamedAll P e
  | .div a b => NamedAll P a ∧ NamedAll P b
  | .paren e => NamedAll P e
  | _ => True
def NamedAllEntries (P : Bytes → Bool) : EntryList → Prop
  | .nil => True
  | .pos e tl => NamedAll P e ∧ NamedAllEntries P tl
  | .named k e tl => P k = true ∧ NamedAll P e ∧ NamedAllEntries P tl
  | .keyed k e tl => NamedAll P k ∧ NamedAll P e ∧ NamedAllEntries P tl
def NamedAllArgs (P : Bytes → Bool) : ExprList → Prop
  | .nil => True
  | .cons e tl => NamedAll P e ∧ NamedAllArgs P tl
end

theorem namedAll_hexArgs : (bs : Bytes) → NamedAllArgs isLuaIdent (hexArgs bs)
  | [] => by simp [hexArgs, NamedAllArgs]
  | b :: rest => by
    simp only [hexArgs, NamedAllArgs, NamedAll, true_and]
    exact namedAll_hexArgs rest

theorem namedAll_complete (k v : Expr) (tl es : EntryList) (hk : NamedAll isLuaIdent k)
    (hv : NamedAll isLuaIdent v) (ht : NamedAllEntries isLuaIdent tl)
    (hc : completeTableEntry k v tl = some es) : NamedAllEntries isLuaIdent es := by
  unfold completeTableEntry at hc
  split at hc
  · rename_i s
    simp only [Option.some.injEq] at hc
    subst hc
    split
    · rename_i hs
      rw [isValidIdentifier_eq] at hs
      exact ⟨hs, hv, ht⟩
    · exact ⟨by simp [NamedAll], hv, ht⟩
  · cases hc
  · split at hc
    · cases hc
    · simp only [Option.some.injEq] at hc
      subst hc
      exact ⟨by simp [NamedAll], hv, ht⟩
  · simp only [Option.some.injEq] at hc
    subst hc
    exact ⟨hk, hv, ht⟩

mutual
theorem namedAll_toExpr : (d : Data) → (e : Expr) → toExpr d = some e → NamedAll isLuaIdent e
  | .null, e, h => by simp only [toExpr, Option.some.injEq] at h; subst h; simp [NamedAll]
  | .bool b, e, h => by
    simp only [toExpr, Option.some.injEq] at h; subst h
    cases b <;> simp [NamedAll]
  | .i64 _, e, h => by simp only [toExpr, Option.some.injEq] at h; subst h; simp [NamedAll]
  | .u64 _, e, h => by simp only [toExpr, Option.some.injEq] at h; subst h; simp [NamedAll]
  | .f64 _, e, h => by simp only [toExpr, Option.some.injEq] at h; subst h; simp [NamedAll]
  | .str _, e, h => by simp only [toExpr, Option.some.injEq] at h; subst h; simp [NamedAll]
  | .bytes bs, e, h => by
    simp only [toExpr, Option.some.injEq] at h; subst h
    simp only [NamedAll, true_and]
    exact namedAll_hexArgs bs
  | .some d, e, h => by
    simp only [toExpr] at h
    exact namedAll_toExpr d e h
  | .seq xs, e, h => by
    simp only [toExpr] at h
    cases hs : seqEntries xs with
    | none => simp [hs] at h
    | some es =>
      simp only [hs, Option.some.injEq] at h; subst h
      simp only [NamedAll]
      exact namedAll_seq xs es hs
  | .map kvs, e, h => by
    simp only [toExpr] at h
    cases hs : mapEntries kvs with
    | none => simp [hs] at h
    | some es =>
      simp only [hs, Option.some.injEq] at h; subst h
      simp only [NamedAll]
      exact namedAll_map kvs es hs
  | .variant name d, e, h => by
    simp only [toExpr] at h
    cases hd : toExpr d with
    | none => simp [hd] at h
    | some ve =>
      cases hc : completeTableEntry (.str name) ve .nil with
      | none => simp [hd, hc] at h
      | some es =>
        simp only [hd, hc, Option.some.injEq] at h; subst h
        simp only [NamedAll]
        exact namedAll_complete _ _ _ _ (by simp [NamedAll]) (namedAll_toExpr d ve hd)
          (by simp [NamedAllEntries]) hc
theorem namedAll_seq : (xs : DataList) → (es : EntryList) → seqEntries xs = some es →
    NamedAllEntries isLuaIdent es
  | .nil, es, h => by simp only [seqEntries, Option.some.injEq] at h; subst h; simp [NamedAllEntries]
  | .cons d tl, es, h => by
    cases hd : toExpr d with
    | none => simp [seqEntries, hd] at h
    | some e =>
      cases ht : seqEntries tl with
      | none => simp [seqEntries, hd, ht] at h
      | some es' =>
        simp only [seqEntries, hd, ht, Option.some.injEq] at h; subst h
        exact ⟨namedAll_toExpr d e hd, namedAll_seq tl es' ht⟩
theorem namedAll_map : (kvs : PairList) → (es : EntryList) → mapEntries kvs = some es →
    NamedAllEntries isLuaIdent es
  | .nil, es, h => by simp only [mapEntries, Option.some.injEq] at h; subst h; simp [NamedAllEntries]
  | .cons k v tl, es, h => by
    cases hk : toExpr k with
    | none => simp [mapEntries, hk] at h
    | some ke =>
      cases hv : toExpr v with
      | none => simp [mapEntries, hk, hv] at h
      | some ve =>
        cases ht : mapEntries tl with
        | none => simp [mapEntries, hk, hv, ht] at h
        | some es' =>
          simp only [mapEntries, hk, hv, ht] at h
          exact namedAll_complete _ _ _ _ (namedAll_toExpr k ke hk) (namedAll_toExpr v ve hv)
            (namedAll_map tl es' ht) h
end

/-- **Key form soundness**: wherever the emitted expression uses the field form `k = v`, `k`
is a Lua 5.1 Name (letters, digits, underscores, not starting with a digit) and not one of
the 21 reserved words. No hypothesis on the data. -/
theorem key_form_sound (d : Data) (e : Expr) (h : toExpr d = some e) : NamedAll isLuaIdent e :=
  namedAll_toExpr d e h

/-- and exactly then: a string key is written `k = v` iff it is such a name, otherwise
`["k"] = v` (so keywords, empty strings, keys starting with a digit, keys with quotes,
newlines, NUL or non-ASCII bytes are all bracketed). -/
theorem key_form_exact (s : Bytes) (v : Expr) (tl : EntryList) :
    completeTableEntry (.str s) v tl =
      some (if isLuaIdent s then .named s v tl else .keyed (.str s) v tl) := by
  simp only [completeTableEntry, isValidIdentifier_eq]

/-- the field form does occur, and a keyword key does not get it -/
example : toExpr (.map (.cons (.str [97, 95, 49]) .null (.cons (.str [100, 111]) .null .nil))) =
    some (.table (.named [97, 95, 49] .nil (.keyed (.str [100, 111]) .nil .nil))) := by rfl
example : isLuaIdent [97, 95, 49] = true ∧ isLuaIdent [100, 111] = false ∧ isLuaIdent [49, 97] = false
    ∧ isLuaIdent [] = false ∧ isLuaIdent [195, 169] = false := by decide

end DarkluaModel.C14
