import DarkluaModel.C14.Lemmas
import DarkluaModel.C14.Rounding
import DarkluaModel.C14.Ident
/-!
# C14 — Data files convert to Lua values equal to the data: the theorems

`toExpr` (Model) mirrors `to_expression`; `evalExpr`, `DataEq`, `isLuaIdent`, `nearestEven`
(Spec) are the reference artefacts; `H14` (Lemmas) is the decidable hypothesis.
-/
namespace DarkluaModel.C14
open Spec

/-! ## the value of the emitted constructor equals the data -/

/-- Full-strength statement: every datum converts to an expression that evaluates (no error)
to a Lua value equal to it. -/
def serialize_denotes_full : Prop :=
  ∀ d : Data, ∃ v, evalExpr (toExpr d) = .ok v ∧ DataEq d v

/-- F15 witness: the YAML document `{~: 1, .nan: 2}` -/
def f15Witness : Data :=
  .map (.cons .null (.u64 1) (.cons (.f64 0x7ff8000000000000) (.u64 2) .nil))

/-- **False on the current code (F15)**: a null map key is emitted as `[nil] = …`, which
raises "table index is nil" when the constructor runs. -/
theorem serialize_denotes_full_false : ¬ serialize_denotes_full := by
  intro h
  obtain ⟨v, hv, _⟩ := h f15Witness
  have : evalExpr (toExpr f15Witness) = .error .nilIndex := by rfl
  rw [this] at hv
  cases hv

/-- the NaN key alone raises as well ("table index is NaN") -/
theorem nan_key_raises :
    evalExpr (toExpr (.map (.cons (.f64 0x7ff8000000000000) (.u64 2) .nil))) = .error .nanIndex := by
  rfl

/-- **Partial theorem**: for every datum satisfying `H14` (integers within `i64`/`u64`; every
map key a string, boolean or non-NaN number; no two keys of a map equal as Lua keys), the
emitted expression evaluates without error to a Lua value equal to the datum. -/
theorem serialize_denotes_partial (d : Data) (h : H14 d = true) :
    ∃ v, evalExpr (toExpr d) = .ok v ∧ DataEq d v :=
  denotes intToF64_nearest d h

/-- a non-trivial datum inside `H14`: nested containers, a null inside an array and as a
value, keys that are a keyword / start with a digit / empty / contain a quote and NUL /
non-ASCII, a boolean and a number key, integers beyond 2^53 of both signs, bytes -/
def sampleDatum : Data :=
  .map (.cons (.str [100, 111]) (.seq (.cons (.u64 1) (.cons .null (.cons (.str [0, 255]) .nil))))
    (.cons (.str [49, 97]) .null
    (.cons (.str []) (.i64 (-9007199254740993))
    (.cons (.str [34, 0, 39]) (.u64 18446744073709551615)
    (.cons (.str [195, 169]) (.map .nil)
    (.cons (.bool true) (.f64 0x7ff0000000000000)
    (.cons (.i64 3) (.some (.bytes [0, 65, 255]))
    (.cons (.str [111, 107]) (.variant [86] (.seq .nil)) .nil))))))))

example : H14 sampleDatum = true := by decide
example : ∃ v, evalExpr (toExpr sampleDatum) = .ok v ∧ DataEq sampleDatum v :=
  serialize_denotes_partial sampleDatum (by decide)
/-- the F15 witness is outside `H14` (so the hypothesis excludes the defect) -/
example : H14 f15Witness = false := by decide
/-- what a null inside an array becomes: a hole -/
example : evalExpr (toExpr (.seq (.cons (.u64 1) (.cons .null (.cons (.u64 3) .nil))))) =
    .ok (.table (.cons (.int 3) (.num 0x4008000000000000) (.cons (.int 1) (.num 0x3ff0000000000000) .nil))) := by
  rfl


/-- **Corollary for documents with string keys** (everything JSON, JSON5 and TOML can express,
and YAML documents whose mapping keys are strings): the hypothesis is stated on the data alone —
integers within `i64`/`u64`, object keys pairwise different byte strings — and the emitted
expression evaluates without error to a value equal to the document. In particular an object
becomes a table with exactly the same string keys, whatever bytes they contain. -/
theorem serialize_denotes_json (d : Data) (h : JsonLike d = true) :
    ∃ v, evalExpr (toExpr d) = .ok v ∧ DataEq d v :=
  serialize_denotes_partial d (H14_of_jsonLike d h)

/-- keys: a keyword, digit-first, empty, quote+NUL+apostrophe, non-ASCII, an identifier;
values: nested arrays with nulls, integers beyond 2^53, an empty object -/
def sampleJson : Data :=
  .map (.cons (.str [100, 111]) (.seq (.cons (.u64 1) (.cons .null (.cons (.seq (.cons .null .nil)) .nil))))
    (.cons (.str [49, 97]) .null
    (.cons (.str []) (.i64 (-9007199254740993))
    (.cons (.str [34, 0, 39]) (.u64 18446744073709551615)
    (.cons (.str [195, 169]) (.map .nil)
    (.cons (.str [111, 107, 95, 49]) (.f64 0x3ff8000000000000) .nil))))))

example : JsonLike sampleJson = true := by decide
example : ∃ v, evalExpr (toExpr sampleJson) = .ok v ∧ DataEq sampleJson v :=
  serialize_denotes_json sampleJson (by decide)

/-- **The defect region is real for every document, not only the witness**: whatever the value
and the other entries, a map whose first key is null makes the emitted constructor raise
`table index is nil` (F15). -/
theorem null_key_always_raises (v : Data) (tl : PairList) :
    evalExpr (toExpr (.map (.cons .null v tl))) = .error .nilIndex := by
  simp only [toExpr, mapEntries, completeTableEntry, evalExpr, evalEntries, toKey]

example : evalExpr (toExpr (.map (.cons .null (.seq (.cons (.u64 1) .nil)) (.cons (.str [97]) .null .nil)))) =
    .error .nilIndex :=
  null_key_always_raises _ _

/-! ## integers become the nearest double -/

/-- **`v as f64` as modelled is the nearest double, ties to even**, for every integer of
magnitude below 2^64 (all of `i64` and `u64`). -/
theorem int_conversion_nearest (v : Int) (h1 : -(2 ^ 64 : Int) < v) (h2 : v < (2 ^ 64 : Int)) :
    nearestEven v (intToF64 v) = true :=
  intToF64_nearest v h1 h2

example : intToF64 9007199254740993 = 0x4340000000000000 := by decide   -- 2^53+1 ↦ 2^53 (tie, even)
example : intToF64 9007199254740995 = 0x4340000000000002 := by decide   -- 2^53+3 ↦ 2^53+4
example : intToF64 (-9223372036854775808) = 0xc3e0000000000000 := by decide
example : nearestEven 9007199254740993 0x4340000000000001 = false := by decide

/-! ## `k = v` only for Lua identifiers -/

mutual
/-- every field entry `k = v` anywhere in the expression has a key accepted by `P` -/
def NamedAll (P : Bytes → Bool) : Expr → Prop
  | .table es => NamedAllEntries P es
  | .call f args => NamedAll P f ∧ NamedAllArgs P args
  | .field e _ => NamedAll P e
  | .neg e => NamedAll P e
  | .div a b => NamedAll P a ∧ NamedAll P b
  | .paren e => NamedAll P e
  | _ => True
def NamedAllEntries (P : Bytes → Bool) : EntryList → Prop
  | .nil => True
  | .pos e tl => NamedAll P e ∧ NamedAllEntries P tl
  | .named k e tl => P k = true ∧ NamedAll P e ∧ NamedAllEntries P tl
  | .keyed k e tl => NamedAll P k ∧ NamedAll P e ∧ NamedAllEntries P tl
def NamedAllArgs (P : Bytes → Bool) : ExprList → Prop
  | .nil => True
  | .cons e tl => NamedAll P e ∧ NamedAllArgs P tl
end

theorem namedAll_hexArgs : (bs : Bytes) → NamedAllArgs isLuaIdent (hexArgs bs)
  | [] => by simp [hexArgs, NamedAllArgs]
  | b :: rest => by
    simp only [hexArgs, NamedAllArgs, NamedAll, true_and]
    exact namedAll_hexArgs rest

theorem namedAll_complete (k v : Expr) (tl : EntryList) (hk : NamedAll isLuaIdent k)
    (hv : NamedAll isLuaIdent v) (ht : NamedAllEntries isLuaIdent tl) :
    NamedAllEntries isLuaIdent (completeTableEntry k v tl) := by
  unfold completeTableEntry
  split
  · rename_i s
    split
    · rename_i hs
      rw [isValidIdentifier_eq] at hs
      exact ⟨hs, hv, ht⟩
    · exact ⟨by simp [NamedAll], hv, ht⟩
  · exact ⟨hk, hv, ht⟩

mutual
theorem namedAll_toExpr : (d : Data) → NamedAll isLuaIdent (toExpr d)
  | .null => by simp [toExpr, NamedAll]
  | .bool b => by cases b <;> simp [toExpr, NamedAll]
  | .i64 _ => by simp [toExpr, NamedAll]
  | .u64 _ => by simp [toExpr, NamedAll]
  | .f64 _ => by simp [toExpr, NamedAll]
  | .str _ => by simp [toExpr, NamedAll]
  | .bytes bs => by
    simp only [toExpr, NamedAll, true_and]
    exact namedAll_hexArgs bs
  | .some d => by
    simp only [toExpr]
    exact namedAll_toExpr d
  | .seq xs => by
    simp only [toExpr, NamedAll]
    exact namedAll_seq xs
  | .map kvs => by
    simp only [toExpr, NamedAll]
    exact namedAll_map kvs
  | .variant name d => by
    simp only [toExpr, NamedAll]
    exact namedAll_complete _ _ _ (by simp [NamedAll]) (namedAll_toExpr d) (by simp [NamedAllEntries])
theorem namedAll_seq : (xs : DataList) → NamedAllEntries isLuaIdent (seqEntries xs)
  | .nil => by simp [seqEntries, NamedAllEntries]
  | .cons d tl => by
    simp only [seqEntries, NamedAllEntries]
    exact ⟨namedAll_toExpr d, namedAll_seq tl⟩
theorem namedAll_map : (kvs : PairList) → NamedAllEntries isLuaIdent (mapEntries kvs)
  | .nil => by simp [mapEntries, NamedAllEntries]
  | .cons k v tl => by
    simp only [mapEntries]
    exact namedAll_complete _ _ _ (namedAll_toExpr k) (namedAll_toExpr v) (namedAll_map tl)
end

/-- **Key form soundness**: wherever the emitted expression uses the field form `k = v`, `k`
is a Lua 5.1 Name (letters, digits, underscores, not starting with a digit) and not one of
the 21 reserved words. No hypothesis on the data. -/
theorem key_form_sound (d : Data) : NamedAll isLuaIdent (toExpr d) :=
  namedAll_toExpr d

/-- and exactly then: a string key is written `k = v` iff it is such a name, otherwise
`["k"] = v` (so keywords, empty strings, keys starting with a digit, keys with quotes,
newlines, NUL or non-ASCII bytes are all bracketed). -/
theorem key_form_exact (s : Bytes) (v : Expr) (tl : EntryList) :
    completeTableEntry (.str s) v tl =
      if isLuaIdent s then .named s v tl else .keyed (.str s) v tl := by
  simp only [completeTableEntry, isValidIdentifier_eq]

/-- the field form does occur, and a keyword key does not get it -/
example : toExpr (.map (.cons (.str [97, 95, 49]) .null (.cons (.str [100, 111]) .null .nil))) =
    .table (.named [97, 95, 49] .nil (.keyed (.str [100, 111]) .nil .nil)) := by rfl
example : isLuaIdent [97, 95, 49] = true ∧ isLuaIdent [100, 111] = false ∧ isLuaIdent [49, 97] = false
    ∧ isLuaIdent [] = false ∧ isLuaIdent [195, 169] = false := by decide

end DarkluaModel.C14
