/-!
# C14 — model of darklua's data → Lua expression serializer

Mirrors `src/process/expression_serializer.rs` (`to_expression`, a serde `Serializer` that
builds a darklua `Expression`) and `src/process/utils/mod.rs` (`is_valid_identifier`,
`KEYWORDS`). Import-free (core only).

`Data` is the *serde data model as the serializer sees it*: the sequence of `serialize_*`
calls a `Serialize` value makes, as a tree. `serde_json::Value`, `serde_yaml::Value` and
`toml::Value` only ever use a part of it (unit, bool, i64/u64/f64, str, seq, map, struct);
the rest (`bytes`, `some`, variants) is what other `Serialize` types reach.

Double-precision numbers are carried as their IEEE-754 bit pattern in a `Nat` (< 2^64).
-/
namespace DarkluaModel.C14

abbrev Bytes := List UInt8

/-! ## data (serde data model) -/

mutual
inductive Data where
  /-- `serialize_none`, `serialize_unit`, `serialize_unit_struct` -/
  | null
  | bool (b : Bool)
  /-- `serialize_i8/i16/i32/i64` (all forwarded to `serialize_i64`) -/
  | i64 (v : Int)
  /-- `serialize_u8/u16/u32/u64` (all forwarded to `serialize_u64`) -/
  | u64 (v : Nat)
  /-- `serialize_f64` (and `serialize_f32` after the exact widening `f64::from`) -/
  | f64 (bits : Nat)
  /-- `serialize_str`, `serialize_char`, `serialize_unit_variant` (the variant name) -/
  | str (s : Bytes)
  /-- `serialize_bytes` -/
  | bytes (bs : Bytes)
  /-- `serialize_some`, `serialize_newtype_struct`: transparent wrappers -/
  | some (d : Data)
  /-- `serialize_seq`, `serialize_tuple`, `serialize_tuple_struct` -/
  | seq (xs : DataList)
  /-- `serialize_map`, `serialize_struct` (keys in call order; keys are arbitrary data) -/
  | map (kvs : PairList)
  /-- `serialize_newtype_variant`, `serialize_tuple_variant` (payload a `seq`),
  `serialize_struct_variant` (payload a `map`): externally tagged `{ NAME = payload }` -/
  | variant (name : Bytes) (d : Data)
inductive DataList where
  | nil
  | cons (d : Data) (tl : DataList)
inductive PairList where
  | nil
  | cons (k : Data) (v : Data) (tl : PairList)
end

/-! ## expressions (the part of `darklua_core::nodes::Expression` involved) -/

mutual
inductive Expr where
  | nil
  | true
  | false
  /-- `DecimalNumber::new(float)` (no exponent recorded): the double, by bit pattern -/
  | num (bits : Nat)
  /-- `HexNumber::new(v, false)` -/
  | hex (v : Nat)
  /-- `StringExpression::from_value` -/
  | str (s : Bytes)
  | table (es : EntryList)
  /-- `FunctionCall::new(prefix, TupleArguments, None)` -/
  | call (f : Expr) (args : ExprList)
  /-- `FieldExpression::new(prefix, name)` -/
  | field (e : Expr) (name : Bytes)
  /-- `Identifier::new(name)` -/
  | var (name : Bytes)
  /-- unary minus; never built by the serializer, only met when emitted text is re-read -/
  | neg (e : Expr)
  /-- binary `/`; never built by the serializer, only met when emitted text is re-read -/
  | div (a b : Expr)
  /-- parentheses; never built by the serializer, only met when emitted text is re-read -/
  | paren (e : Expr)
inductive EntryList where
  | nil
  /-- `TableEntry::Value` -/
  | pos (e : Expr) (tl : EntryList)
  /-- `TableEntry::Field`: `k = e` -/
  | named (k : Bytes) (e : Expr) (tl : EntryList)
  /-- `TableEntry::Index`: `[k] = e` -/
  | keyed (k : Expr) (e : Expr) (tl : EntryList)
inductive ExprList where
  | nil
  | cons (e : Expr) (tl : ExprList)
end

/-! ## `is_valid_identifier` (src/process/utils/mod.rs) -/

/-- `KEYWORDS` / `matches_any_keyword!` of src/process/utils/mod.rs -/
def KEYWORDS : List Bytes := [
  [97, 110, 100],  -- and
  [98, 114, 101, 97, 107],  -- break
  [100, 111],  -- do
  [101, 108, 115, 101],  -- else
  [101, 108, 115, 101, 105, 102],  -- elseif
  [101, 110, 100],  -- end
  [102, 97, 108, 115, 101],  -- false
  [102, 111, 114],  -- for
  [102, 117, 110, 99, 116, 105, 111, 110],  -- function
  [105, 102],  -- if
  [105, 110],  -- in
  [108, 111, 99, 97, 108],  -- local
  [110, 105, 108],  -- nil
  [110, 111, 116],  -- not
  [111, 114],  -- or
  [114, 101, 112, 101, 97, 116],  -- repeat
  [114, 101, 116, 117, 114, 110],  -- return
  [116, 104, 101, 110],  -- then
  [116, 114, 117, 101],  -- true
  [117, 110, 116, 105, 108],  -- until
  [119, 104, 105, 108, 101]  -- while
]

/-- `char::is_alphabetic` restricted to ASCII characters (the caller has checked
`identifier.is_ascii()`, so only code points < 128 are ever tested): `A-Z`, `a-z`. -/
def isAlphabeticAscii (b : UInt8) : Bool :=
  (65 ≤ b.toNat && b.toNat ≤ 90) || (97 ≤ b.toNat && b.toNat ≤ 122)

/-- `char::is_ascii_digit` -/
def isAsciiDigit (b : UInt8) : Bool := 48 ≤ b.toNat && b.toNat ≤ 57

/-- `identifier.char_indices().all(|(i, c)| c.is_alphabetic() || c == '_' || (c.is_ascii_digit() && i > 0))`
on an ASCII string (char index = byte index); `i` is the index of the head of `s`. -/
def identCharsFrom : Bytes → Nat → Bool
  | [], _ => Bool.true
  | c :: rest, i =>
    (isAlphabeticAscii c || c.toNat == 95 || (isAsciiDigit c && decide (i > 0)))
      && identCharsFrom rest (i + 1)

/-- `str::is_ascii` -/
def isAscii (s : Bytes) : Bool := s.all fun b => decide (b.toNat < 128)

/-- `is_valid_identifier` (src/process/utils/mod.rs) on the UTF-8 bytes of the string. -/
def isValidIdentifier (s : Bytes) : Bool :=
  !s.isEmpty && isAscii s && identCharsFrom s 0 && !KEYWORDS.contains s

/-! ## integer → double (`v as f64` for `i64` / `u64`) -/

/-- Rust `n as f64` for an unsigned integer: IEEE-754 binary64 bit pattern of the nearest
double, ties to even (Rust reference, "numeric cast": int → float rounds to nearest, ties
to even). `k` is the position of the leading one. When the rounded 53-bit significand
overflows to 2^53 the addition carries into the exponent field, which is the right answer. -/
def natToF64 (n : Nat) : Nat :=
  if n = 0 then 0 else
  let k := Nat.log2 n
  if k ≤ 52 then (1023 + k) * 2 ^ 52 + (n * 2 ^ (52 - k) - 2 ^ 52)
  else
    let s := k - 52
    let q := n / 2 ^ s
    let r := n % 2 ^ s
    let half := 2 ^ (s - 1)
    let q' := if r > half ∨ (r = half ∧ q % 2 = 1) then q + 1 else q
    (1023 + k) * 2 ^ 52 + (q' - 2 ^ 52)

/-- Rust `v as f64` for a signed integer (rounding is symmetric; `0` gives `+0.0`). -/
def intToF64 (v : Int) : Nat :=
  if v < 0 then 2 ^ 63 + natToF64 v.natAbs else natToF64 v.natAbs

/-! ## the serializer -/

def bSTRING : Bytes := [115, 116, 114, 105, 110, 103]
def bCHAR : Bytes := [99, 104, 97, 114]

/-- `serialize_bytes`: one `HexNumber::new(byte, false)` argument per byte -/
def hexArgs : Bytes → ExprList
  | [] => .nil
  | b :: rest => .cons (.hex b.toNat) (hexArgs rest)

/-- `f64::is_nan` on the bit pattern: exponent field all ones and a non-zero fraction -/
def isNaNBits (b : Nat) : Bool := (b / 2 ^ 52) % 2048 == 2047 && b % 2 ^ 52 != 0

/-- `Serializer::complete_table_entry`: a key that is a string expression whose value is
valid UTF-8 and `is_valid_identifier` becomes a field entry `k = v`; every other string key
becomes an index entry `["k"] = v`. (Bytes that are not valid UTF-8 are not ASCII, so
`isValidIdentifier` is already false for them.) Of the non-string keys, `nil` and a NaN number
make the serializer return an error (`none`; fix of F15: such a constructor would raise when
run); every other key becomes an index entry `[k] = v`. -/
def completeTableEntry (key value : Expr) (tl : EntryList) : Option EntryList :=
  match key with
  | .str s => some (if isValidIdentifier s then .named s value tl else .keyed (.str s) value tl)
  | .nil => none
  | .num b => if isNaNBits b then none else some (.keyed (.num b) value tl)
  | k => some (.keyed k value tl)

mutual
/-- `to_expression` (src/process/expression_serializer.rs); `none` = `Err(LuaSerializerError)` -/
def toExpr : Data → Option Expr
  | .null => some .nil
  | .bool b => some (if b then .true else .false)
  | .i64 v => some (.num (intToF64 v))
  | .u64 v => some (.num (intToF64 (v : Int)))
  | .f64 bits => some (.num bits)
  | .str s => some (.str s)
  | .bytes bs => some (.call (.field (.var bSTRING) bCHAR) (hexArgs bs))
  | .some d => toExpr d
  | .seq xs => match seqEntries xs with
    | some es => some (.table es)
    | none => none
  | .map kvs => match mapEntries kvs with
    | some es => some (.table es)
    | none => none
  | .variant name d => match toExpr d with
    | some v => match completeTableEntry (.str name) v .nil with
      | some es => some (.table es)
      | none => none
    | none => none
/-- elements of a sequence: `process` with a `Table` operation on top pushes `TableEntry::from_value` -/
def seqEntries : DataList → Option EntryList
  | .nil => some .nil
  | .cons d tl => match toExpr d, seqEntries tl with
    | some e, some es => some (.pos e es)
    | _, _ => none
/-- `serialize_key` / `serialize_value` pairs: key pushed on the expression stack, then
`complete_table_entry`; an error anywhere aborts the whole conversion -/
def mapEntries : PairList → Option EntryList
  | .nil => some .nil
  | .cons k v tl => match toExpr k, toExpr v, mapEntries tl with
    | some ke, some ve, some es => completeTableEntry ke ve es
    | _, _, _ => none
end

end DarkluaModel.C14
