import DarkluaModel.C14.Model
/-!
# C14 — reference artefacts, written from the Lua 5.1 manual and IEEE-754, not from darklua

* what a Lua 5.1 *Name* is (manual §2.1) — `isLuaIdent`;
* the binary64 facts needed: NaN, integral doubles, "nearest double, ties to even";
* a tiny reference semantics of table constructors (manual §2.5.7) — `evalExpr`;
* what "the Lua value equals the data" means — `DataEq`.

Nothing here mentions a function of `Model.lean`; only the *types* `Data`, `Expr` are shared.
-/
namespace DarkluaModel.C14.Spec
open DarkluaModel.C14

/-! ## Lua 5.1 names (§2.1) -/

def isLetter (b : UInt8) : Bool :=
  (b.toNat ≥ 65 && b.toNat ≤ 90) || (b.toNat ≥ 97 && b.toNat ≤ 122)
def isDigit (b : UInt8) : Bool := b.toNat ≥ 48 && b.toNat ≤ 57
def isNameStart (b : UInt8) : Bool := isLetter b || b.toNat == 95
def isNameCont (b : UInt8) : Bool := isLetter b || isDigit b || b.toNat == 95

/-- "Names can be any string of letters, digits, and underscores, not beginning with a digit." -/
def isLuaName : Bytes → Bool
  | [] => false
  | c :: rest => isNameStart c && rest.all isNameCont

/-- "The following keywords are reserved and cannot be used as names" (§2.1, 21 words). -/
def reserved : List Bytes := [
  [97, 110, 100], [98, 114, 101, 97, 107], [100, 111], [101, 108, 115, 101],
  [101, 108, 115, 101, 105, 102], [101, 110, 100], [102, 97, 108, 115, 101], [102, 111, 114],
  [102, 117, 110, 99, 116, 105, 111, 110], [105, 102], [105, 110], [108, 111, 99, 97, 108],
  [110, 105, 108], [110, 111, 116], [111, 114], [114, 101, 112, 101, 97, 116],
  [114, 101, 116, 117, 114, 110], [116, 104, 101, 110], [116, 114, 117, 101],
  [117, 110, 116, 105, 108], [119, 104, 105, 108, 101]]

/-- a string that may be written as a field name `k = v` in a table constructor -/
def isLuaIdent (s : Bytes) : Bool := isLuaName s && !reserved.contains s

/-! ## binary64 by bit pattern (a `Nat` below 2^64: sign, 11 exponent bits, 52 fraction bits) -/

def f64Sign (b : Nat) : Nat := (b / 2 ^ 63) % 2
def f64Exp (b : Nat) : Nat := (b / 2 ^ 52) % 2048
def f64Man (b : Nat) : Nat := b % 2 ^ 52

def isNaN (b : Nat) : Bool := f64Exp b == 2047 && f64Man b != 0

/-- the integer a double denotes, when it denotes one (`±0 ↦ 0`); `none` for fractions,
infinities and NaN. A normal double is `(2^52 + M) · 2^(E − 1075)`. -/
def f64ToInt? (b : Nat) : Option Int :=
  let E := f64Exp b
  let m := 2 ^ 52 + f64Man b
  let mag : Option Nat :=
    if E = 0 then (if f64Man b = 0 then some 0 else none)
    else if E = 2047 then none
    else if E ≥ 1075 then some (m * 2 ^ (E - 1075))
    else if E ≥ 1023 then
      (if m % 2 ^ (1075 - E) = 0 then some (m / 2 ^ (1075 - E)) else none)
    else none
  mag.map fun (x : Nat) => if f64Sign b = 1 then -(x : Int) else (x : Int)

/-- the double with bit pattern `b` (sign bit clear) is the nearest double to the positive
integer `n`, ties to even. With `x = m·u` the value of `b` (`u` its unit in the last place):
exact when `u ≤ 1`; otherwise `|n − x| ≤ u/2`, equality only for an even significand; just
below a power of two (`M = 0`) the spacing on the lower side is `u/2`, so `x − n ≤ u/4`
(the tie then goes to `x`, whose significand is even, its lower neighbour's being odd). -/
def nearestEvenPos (n b : Nat) : Bool :=
  let E := f64Exp b
  let m := 2 ^ 52 + f64Man b
  decide (b < 2 ^ 63) && decide (1 ≤ E) && decide (E ≤ 2046) &&
  (if E ≤ 1075 then n * 2 ^ (1075 - E) == m
   else
    let u := 2 ^ (E - 1075)
    let x := m * u
    if n ≥ x then decide (2 * (n - x) < u) || (2 * (n - x) == u && m % 2 == 0)
    else if f64Man b = 0 then decide (4 * (x - n) ≤ u)
    else decide (2 * (x - n) < u) || (2 * (x - n) == u && m % 2 == 0))

/-- `b` is the double nearest to the integer `v` (ties to even; `0 ↦ +0.0`). -/
def nearestEven (v : Int) (b : Nat) : Bool :=
  if v = 0 then b == 0
  else if v > 0 then nearestEvenPos v.natAbs b
  else decide (2 ^ 63 ≤ b) && decide (b < 2 ^ 64) && nearestEvenPos v.natAbs (b - 2 ^ 63)

/-- the double that is exactly the natural number `n`, for `n < 2^53` -/
def exactNatBits? (n : Nat) : Option Nat :=
  if n = 0 then some 0
  else if n < 2 ^ 53 then
    let k := Nat.log2 n
    some ((1023 + k) * 2 ^ 52 + (n * 2 ^ (52 - k) - 2 ^ 52))
  else none

/-! ## Lua values -/

/-- table keys, normalised the way Lua compares them: a number key that is an integer
(`1`, `1.0`, `-0.0`) is that integer; other numbers by bit pattern (never NaN). Tables as
keys (identity) are outside this reference. -/
inductive Key where
  | int (i : Int)
  | flt (bits : Nat)
  | str (s : Bytes)
  | bool (b : Bool)
  deriving DecidableEq, Repr

mutual
inductive Val where
  | nil
  | bool (b : Bool)
  | num (bits : Nat)
  | str (s : Bytes)
  /-- a table: association list; invariant kept by `set`: keys distinct, no `nil` value stored -/
  | table (t : ValMap)
inductive ValMap where
  | nil
  | cons (k : Key) (v : Val) (tl : ValMap)
end

def Val.isNil : Val → Bool
  | .nil => true
  | _ => false

/-- `t[k]`: `nil` when absent -/
def ValMap.get : ValMap → Key → Val
  | .nil, _ => .nil
  | .cons k v tl, k' => if k = k' then v else tl.get k'

def ValMap.remove : ValMap → Key → ValMap
  | .nil, _ => .nil
  | .cons k v tl, k' => if k = k' then tl.remove k' else .cons k v (tl.remove k')

/-- `t[k] = v`: later assignments overwrite; assigning `nil` removes -/
def ValMap.set (t : ValMap) (k : Key) (v : Val) : ValMap :=
  if v.isNil then t.remove k else .cons k v (t.remove k)

inductive Err where
  /-- "table index is nil" -/
  | nilIndex
  /-- "table index is NaN" -/
  | nanIndex
  /-- outside this reference semantics (free variables, other calls, arithmetic, table keys) -/
  | unsupported
  deriving DecidableEq, Repr

/-- the key a value denotes when used as a table index -/
def toKey : Val → Except Err Key
  | .nil => .error .nilIndex
  | .bool b => .ok (.bool b)
  | .str s => .ok (.str s)
  | .num b =>
    if isNaN b then .error .nanIndex
    else match f64ToInt? b with
      | some i => .ok (.int i)
      | none => .ok (.flt b)
  | .table _ => .error .unsupported

def nameSTRING : Bytes := [115, 116, 114, 105, 110, 103]
def nameCHAR : Bytes := [99, 104, 97, 114]

/-- the expression `string.char` (standard library, global `string` not shadowed) -/
def isStringChar : Expr → Bool
  | .field (.var a) b => a == nameSTRING && b == nameCHAR
  | _ => false

/-- canonical quiet NaN produced by `0/0` here (real Lua: platform-dependent sign/payload) -/
def qNaN : Nat := 0x7ff8000000000000
def posInf : Nat := 0x7ff0000000000000

def negBits (b : Nat) : Nat := if b ≥ 2 ^ 63 then b - 2 ^ 63 else b + 2 ^ 63

/-- division, only for a zero divisor (all that `(1/0)`, `(-1/0)`, `(0/0)` need) -/
def divByZero (x z : Nat) : Except Err Nat :=
  if f64Exp z = 0 ∧ f64Man z = 0 then
    if isNaN x then .ok x
    else if f64Exp x = 0 ∧ f64Man x = 0 then .ok qNaN
    else .ok (if f64Sign x = f64Sign z then posInf else posInf + 2 ^ 63)
  else .error .unsupported

mutual
/-- value of an expression (closed table constructors over literals). Table constructor,
manual §2.5.7: `[k] = v` and `name = v` assign that key; positional fields get consecutive
integer keys 1, 2, 3, …; a `nil` value leaves the key absent; a `nil` or NaN key raises.
Assignments are done in order, so a later duplicate overwrites (the manual leaves the order
undefined; the property's hypotheses exclude duplicates). -/
def evalExpr : Expr → Except Err Val
  | .nil => .ok .nil
  | .true => .ok (.bool Bool.true)
  | .false => .ok (.bool Bool.false)
  | .num b => .ok (.num b)
  | .hex v => match exactNatBits? v with
    | some b => .ok (.num b)
    | none => .error .unsupported
  | .str s => .ok (.str s)
  | .table es => match evalEntries es 1 .nil with
    | .ok t => .ok (.table t)
    | .error e => .error e
  | .call f args =>
    if isStringChar f then
      match evalCharArgs args with
      | .ok bs => .ok (.str bs)
      | .error e => .error e
    else .error .unsupported
  | .field _ _ => .error .unsupported
  | .var _ => .error .unsupported
  | .neg e => match evalExpr e with
    | .ok (.num b) => .ok (.num (negBits b))
    | .ok _ => .error .unsupported
    | .error e => .error e
  | .div a b => match evalExpr a, evalExpr b with
    | .ok (.num x), .ok (.num z) => match divByZero x z with
      | .ok r => .ok (.num r)
      | .error e => .error e
    | .error e, _ => .error e
    | _, .error e => .error e
    | _, _ => .error .unsupported
  | .paren e => evalExpr e
/-- fields of a constructor, in order; `i` is the next positional index, `t` the table so far -/
def evalEntries : EntryList → Nat → ValMap → Except Err ValMap
  | .nil, _, t => .ok t
  | .pos e tl, i, t => match evalExpr e with
    | .ok v => evalEntries tl (i + 1) (t.set (.int (i : Int)) v)
    | .error e => .error e
  | .named k e tl, i, t => match evalExpr e with
    | .ok v => evalEntries tl i (t.set (.str k) v)
    | .error e => .error e
  | .keyed k e tl, i, t => match evalExpr k with
    | .ok kv => match toKey kv with
      | .ok key => match evalExpr e with
        | .ok v => evalEntries tl i (t.set key v)
        | .error e => .error e
      | .error e => .error e
    | .error e => .error e
/-- arguments of `string.char`: integers 0..255 -/
def evalCharArgs : ExprList → Except Err Bytes
  | .nil => .ok []
  | .cons e tl => match evalExpr e with
    | .ok (.num b) => match f64ToInt? b with
      | some i =>
        if 0 ≤ i ∧ i ≤ 255 then
          match evalCharArgs tl with
          | .ok bs => .ok (UInt8.ofNat i.toNat :: bs)
          | .error e => .error e
        else .error .unsupported
      | none => .error .unsupported
    | .ok _ => .error .unsupported
    | .error e => .error e
end

/-! ## "the Lua value equals the data" -/

/-- the Lua key a scalar datum denotes: strings by their bytes, booleans, numbers by value
(integers: the nearest double, then normalised). Nulls, NaN and containers denote no key. -/
def KeyEq : Data → Key → Prop
  | .str s, key => key = .str s
  | .bool b, key => key = .bool b
  | .i64 v, key => ∃ b, nearestEven v b = true ∧ toKey (.num b) = .ok key
  | .u64 v, key => ∃ b, nearestEven (v : Int) b = true ∧ toKey (.num b) = .ok key
  | .f64 b, key => toKey (.num b) = .ok key
  | .some d, key => KeyEq d key
  | _, _ => False

def seqLen : DataList → Nat
  | .nil => 0
  | .cons _ tl => seqLen tl + 1

/-- `key` is the key of some entry -/
def HasKey : PairList → Key → Prop
  | .nil, _ => False
  | .cons k _ tl, key => KeyEq k key ∨ HasKey tl key

mutual
/-- `DataEq d v`: the Lua value `v` equals the datum `d`.
* null ↦ `nil`; booleans kept; strings (and byte arrays) byte-identical;
* floating-point numbers bit-identical; integers ↦ the nearest double (ties to even);
* an array of length `n` ↦ a table `t` with `t[i]` equal to the i-th element for `1 ≤ i ≤ n`
  (so a null element is a *hole*: `t[i] == nil`) and no other key;
* an object ↦ a table with, for each entry, `t[key]` equal to the entry's value (a null value
  reads back as `nil`), and no key that is not the key of an entry — whatever bytes a string
  key contains;
* wrappers (`Some`, newtype structs) are transparent; an enum variant `Name(payload)` is the
  object `{ Name: payload }`. -/
def DataEq : Data → Val → Prop
  | .null, v => v = .nil
  | .bool b, v => v = .bool b
  | .i64 i, v => ∃ b, v = .num b ∧ nearestEven i b = true
  | .u64 n, v => ∃ b, v = .num b ∧ nearestEven (n : Int) b = true
  | .f64 b, v => v = .num b
  | .str s, v => v = .str s
  | .bytes bs, v => v = .str bs
  | .some d, v => DataEq d v
  | .seq xs, v => ∃ t, v = .table t ∧ SeqEq xs 1 t ∧
      ∀ key, t.get key ≠ .nil → ∃ i : Nat, key = .int (i : Int) ∧ 1 ≤ i ∧ i ≤ seqLen xs
  | .map kvs, v => ∃ t, v = .table t ∧ MapEq kvs t ∧
      ∀ key, t.get key ≠ .nil → HasKey kvs key
  | .variant name d, v => ∃ t, v = .table t ∧ DataEq d (t.get (.str name)) ∧
      ∀ key, t.get key ≠ .nil → key = .str name
/-- elements from index `i` on -/
def SeqEq : DataList → Nat → ValMap → Prop
  | .nil, _, _ => True
  | .cons d tl, i, t => DataEq d (t.get (.int (i : Int))) ∧ SeqEq tl (i + 1) t
/-- every entry reads back -/
def MapEq : PairList → ValMap → Prop
  | .nil, _ => True
  | .cons k v tl, t => (∃ key, KeyEq k key ∧ DataEq v (t.get key)) ∧ MapEq tl t
end

end DarkluaModel.C14.Spec
