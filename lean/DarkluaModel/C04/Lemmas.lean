import DarkluaModel.C03.Lemmas
/-! Helper lemmas for C04 (line accounting of the writer). -/
namespace DarkluaModel.C04
open DarkluaModel.C03

theorem run_line (l : List Op) : ∀ st : State,
    (run st l).line = lineAfterAll st.line st.commenting l ∧
    (run st l).commenting = pendingAfterAll st.commenting l := by
  induction l with
  | nil => intro st; exact ⟨rfl, rfl⟩
  | cons op rest ih =>
    intro st
    have h := ih (step st op)
    rw [step_line, step_commenting] at h
    exact h

theorem budgetOk_append (a b : List Op) : ∀ cur p,
    budgetOk cur p (a ++ b) =
      (budgetOk cur p a && budgetOk (lineAfterAll cur p a) (pendingAfterAll p a) b) := by
  induction a with
  | nil => intro cur p; simp [budgetOk, lineAfterAll, pendingAfterAll]
  | cons op rest ih =>
    intro cur p
    simp [budgetOk, lineAfterAll, pendingAfterAll, ih, Bool.and_assoc]

theorem contains_nl_of_cnl_zero {t : List UInt8} (h : countNewLines t = 0) : t.contains 10 = false := by
  unfold countNewLines at h
  rw [List.count_eq_zero] at h
  cases hc : t.contains 10 with
  | false => rfl
  | true => exact absurd (by simpa using hc) h

theorem shift_lineAfter (k cur : Nat) (p : Bool) (op : Op) :
    (op.shift k).lineAfter (cur + k) p = op.lineAfter cur p + k := by
  cases op with
  | trivia c t => simp only [Op.shift, Op.lineAfter]; split <;> omega
  | token t l sc =>
    cases l with
    | none => simp only [Op.shift, Op.lineAfter]; (repeat' split) <;> omega
    | some n => simp only [Op.shift, Op.lineAfter, shiftLine]; (repeat' split) <;> omega
  | symbol t sc => simp only [Op.shift, Op.lineAfter]; split <;> omega
  | rawPush t => simp only [Op.shift, Op.lineAfter]; omega
  | rawSpace => simp only [Op.shift, Op.lineAfter]

theorem shift_pendingAfter (k : Nat) (p : Bool) (op : Op) :
    (op.shift k).pendingAfter p = op.pendingAfter p := by
  cases op with
  | token t l sc => cases l <;> rfl
  | _ => rfl

theorem shift_budget (k cur : Nat) (p : Bool) (op : Op) (h : op.budget cur p = true) :
    (op.shift k).budget (cur + k) p = true := by
  cases op with
  | token t l sc =>
    cases l with
    | none => simpa [Op.shift, Op.budget] using h
    | some n =>
      simp only [Op.shift, Op.budget, shiftLine, Bool.or_eq_true, decide_eq_true_eq] at h ⊢
      rcases h with h | h
      · exact Or.inl h
      · right; split at h <;> simp_all <;> omega
  | _ => rfl

end DarkluaModel.C04
