import DarkluaModel.C03.Lemmas
import DarkluaModel.C04.Model
/-! Helper lemmas for C04 (line accounting of the writer). -/
namespace DarkluaModel.C04
open DarkluaModel.C03

theorem run_line (l : List Op) : ∀ st : State,
    (run st l).line = lineAfterAll st.line st.commenting l ∧
    (run st l).commenting = pendingAfterAll st.commenting l := by
  induction l with
  | nil => intro st; exact ⟨rfl, rfl⟩
  | cons op rest ih =>
    intro st
    have h := ih (step st op)
    rw [step_line, step_commenting] at h
    exact h

theorem budgetOk_append (a b : List Op) : ∀ cur p,
    budgetOk cur p (a ++ b) =
      (budgetOk cur p a && budgetOk (lineAfterAll cur p a) (pendingAfterAll p a) b) := by
  induction a with
  | nil => intro cur p; simp [budgetOk, lineAfterAll, pendingAfterAll]
  | cons op rest ih =>
    intro cur p
    simp [budgetOk, lineAfterAll, pendingAfterAll, ih, Bool.and_assoc]

theorem contains_nl_of_cnl_zero {t : List UInt8} (h : countNewLines t = 0) : t.contains 10 = false := by
  unfold countNewLines at h
  rw [List.count_eq_zero] at h
  cases hc : t.contains 10 with
  | false => rfl
  | true => exact absurd (by simpa using hc) h

theorem shift_lineAfter (k cur : Nat) (p : Bool) (op : Op) :
    (op.shift k).lineAfter (cur + k) p = op.lineAfter cur p + k := by
  cases op with
  | trivia c t => simp only [Op.shift, Op.lineAfter]; split <;> omega
  | token t l sc r =>
    cases l with
    | none => simp only [Op.shift, Op.lineAfter]; (repeat' split) <;> omega
    | some n => simp only [Op.shift, Op.lineAfter, shiftLine]; (repeat' split) <;> omega
  | symbol t sc => simp only [Op.shift, Op.lineAfter]; split <;> omega
  | rawPush t => simp only [Op.shift, Op.lineAfter]; omega
  | rawSpace => simp only [Op.shift, Op.lineAfter]

theorem shift_pendingAfter (k : Nat) (p : Bool) (op : Op) :
    (op.shift k).pendingAfter p = op.pendingAfter p := by
  cases op with
  | token t l sc r => cases l <;> rfl
  | _ => rfl

theorem shift_budget (k cur : Nat) (p : Bool) (op : Op) (h : op.budget cur p = true) :
    (op.shift k).budget (cur + k) p = true := by
  cases op with
  | token t l sc r =>
    cases l with
    | none => simpa [Op.shift, Op.budget] using h
    | some n =>
      simp only [Op.shift, Op.budget, shiftLine, Bool.or_eq_true, decide_eq_true_eq] at h ⊢
      rcases h with h | h
      · exact Or.inl h
      · right; split at h <;> simp_all <;> omega
  | _ => rfl


/-! ### `Block::remove_statement` re-attachment -/

theorem insertAt_ge (l : List RTrivia) : ∀ (i : Nat) (t : RTrivia), l.length ≤ i → insertAt l i t = l ++ [t] := by
  induction l with
  | nil => intro i t _; cases i <;> rfl
  | cons x xs ih =>
    intro i t h
    cases i with
    | zero => simp at h
    | succ j => simp only [insertAt, List.cons_append]; rw [ih j t (by simpa using h)]

theorem nlAll_append (a b : List RTrivia) : nlAll (a ++ b) = nlAll a + nlAll b := by
  induction a with
  | nil => simp [nlAll]
  | cons x xs ih => simp [nlAll, ih]; omega

theorem nlAll_insertAt (l : List RTrivia) : ∀ (i : Nat) (t : RTrivia),
    nlAll (insertAt l i t) = nlAll l + countNewLines t.text := by
  induction l with
  | nil => intro i t; cases i <;> simp [insertAt, nlAll]
  | cons x xs ih =>
    intro i t
    cases i with
    | zero => simp [insertAt, nlAll]; omega
    | succ j => simp [insertAt, nlAll, ih j t]; omega

theorem nl_gapTrivia (g : Nat) : countNewLines (gapTrivia g).text = g := by
  simp [gapTrivia, cnl_replicate]

theorem insertAt_append_len (pre own : List RTrivia) (t : RTrivia) :
    insertAt (pre ++ own) pre.length t = pre ++ t :: own := by
  induction pre with
  | nil => cases own <;> rfl
  | cons x xs ih => simp only [List.cons_append, List.length_cons, insertAt, ih]

theorem reattachLoop_inorder (cs : List RTrivia) : ∀ (pre own : List RTrivia) (index offset : Nat)
    (prev : Option Nat), pre.length = index + offset →
    reattachLoop (pre ++ own) index offset prev cs = pre ++ interleave prev cs ++ own := by
  induction cs with
  | nil => intro pre own _ _ _ _; simp [reattachLoop, interleave]
  | cons t rest ih =>
    intro pre own index offset prev h
    simp only [reattachLoop, interleave]
    generalize gapOf prev t.line = gap
    by_cases hg : gap = 0
    · subst hg
      simp only [bne_self_eq_false, Bool.false_eq_true, if_false]
      rw [← h, insertAt_append_len]
      have := ih (pre ++ [t]) own (index + 1) offset (if t.line.isSome then t.line else prev) (by simp; omega)
      simpa using this
    · have hb : (gap != 0) = true := by simpa using hg
      simp only [hb, if_true]
      rw [← h, insertAt_append_len]
      have e1 : pre ++ gapTrivia gap :: own = (pre ++ [gapTrivia gap]) ++ own := by simp
      have e3 : index + (offset + 1) = (pre ++ [gapTrivia gap]).length := by simp; omega
      rw [e1, e3, insertAt_append_len]
      have := ih (pre ++ [gapTrivia gap] ++ [t]) own (index + 1) (offset + 1) (if t.line.isSome then t.line else prev) (by simp; omega)
      simpa using this

theorem nlAll_reattachLoop (cs : List RTrivia) : ∀ (token : List RTrivia) (index offset : Nat)
    (prev : Option Nat),
    nlAll (reattachLoop token index offset prev cs) = nlAll token + nlAll cs + gapSum prev cs := by
  induction cs with
  | nil => intro token _ _ _; simp [reattachLoop, nlAll, gapSum]
  | cons t rest ih =>
    intro token index offset prev
    simp only [reattachLoop, nlAll, gapSum]
    rw [ih]
    generalize gapOf prev t.line = gap
    by_cases hg : gap = 0
    · subst hg
      simp only [bne_self_eq_false, Bool.false_eq_true, if_false]
      rw [nlAll_insertAt]; omega
    · have hb : (gap != 0) = true := by simpa using hg
      simp only [hb, if_true]
      rw [nlAll_insertAt, nlAll_insertAt, nl_gapTrivia]; omega

theorem budgetOk_trivia (c : Bool) (t : List UInt8) (cur : Nat) (p : Bool) (rest : List Op) :
    budgetOk cur p (Op.trivia c t :: rest) =
      budgetOk ((Op.trivia c t).lineAfter cur p) ((Op.trivia c t).pendingAfter p) rest := by
  simp [budgetOk, Op.budget]

theorem replicate_contains_nl {g : Nat} (h : g ≠ 0) : (List.replicate g (10 : UInt8)).contains 10 = true := by
  cases g with
  | zero => exact absurd rfl h
  | succ k => simp [List.replicate_succ]

end DarkluaModel.C04
