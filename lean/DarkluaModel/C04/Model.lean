import DarkluaModel.C03.Model
/-!
C04 — model of the comment re-attachment of `Block::remove_statement`
(`/repo/src/nodes/block.rs`), mirrored as it is.

When a statement is removed its comments survive: the non-whitespace trivia of the removed
statement (leading trivia of its first token, then the trailing trivia of its semicolon or of its
last token) are inserted, one by one, into the leading trivia of the next statement's first
token, and between two comments that carry line numbers a whitespace trivia of
`"\n".repeat(next_line - previous_line)` is re-created. The Rust loop is

```
let mut previous = None; let mut offset = 0;
for (index, (trivia, line_number)) in … {
    if let (Some(previous), Some(next_line)) = (previous, line_number) {
        let gap = next_line.saturating_sub(previous);
        if gap != 0 { token.insert_leading_trivia(index + offset, "\n".repeat(gap)); offset += 1; }
    }
    token.insert_leading_trivia(index + offset, trivia);
    if line_number.is_some() { previous = line_number; }
}
```
(`offset` counts the re-created gap trivia, so `index + offset` is exactly the number of trivia
inserted so far — since /repo fix 'remove_statement offset' (finding F34); before it grew by
`gap` and the index overshot after a gap of two or more lines.)
-/
namespace DarkluaModel.C04
open DarkluaModel.C03

/-- A trivia with the line its position records (`Trivia::get_line_number`). -/
structure RTrivia where
  comment : Bool
  text : List UInt8
  line : Option Nat
  deriving Repr, DecidableEq

/-- `Token::insert_leading_trivia(index, trivia)`: `Vec::insert`, or `push` when the index is
past the end. -/
def insertAt : List RTrivia → Nat → RTrivia → List RTrivia
  | l, 0, t => t :: l
  | [], _ + 1, t => [t]
  | x :: xs, i + 1, t => x :: insertAt xs i t

/-- the re-created gap: `TriviaKind::Whitespace.with_content("\n".repeat(gap))` -/
def gapTrivia (gap : Nat) : RTrivia := ⟨false, List.replicate gap 10, none⟩

/-- `next_line.saturating_sub(previous)` when both lines are known, else no gap -/
def gapOf (previous line : Option Nat) : Nat :=
  match previous, line with
  | some p, some n => n - p
  | _, _ => 0

/-- The loop of `remove_statement` (`token` = leading trivia of the next statement's first
token so far). -/
def reattachLoop (token : List RTrivia) (index offset : Nat) (previous : Option Nat) :
    List RTrivia → List RTrivia
  | [] => token
  | t :: rest =>
    let gap := gapOf previous t.line
    let token1 := if gap != 0 then insertAt token (index + offset) (gapTrivia gap) else token
    let offset1 := if gap != 0 then offset + 1 else offset
    let token2 := insertAt token1 (index + offset1) t
    let previous' := if t.line.isSome then t.line else previous
    reattachLoop token2 (index + 1) offset1 previous' rest

/-- `remove_statement`: `cs` = the kept (non-whitespace) trivia of the removed statement, `own`
= the leading trivia the next token already has. -/
def reattach (cs own : List RTrivia) : List RTrivia := reattachLoop own 0 0 none cs

/-- In-order interleaving: what the loop produces when nothing overshoots. -/
def interleave (previous : Option Nat) : List RTrivia → List RTrivia
  | [] => []
  | t :: rest =>
    let gap := gapOf previous t.line
    let previous' := if t.line.isSome then t.line else previous
    if gap != 0 then gapTrivia gap :: t :: interleave previous' rest
    else t :: interleave previous' rest

/-- the writer operations for a list of leading trivia -/
def trivOps (l : List RTrivia) : List Op := l.map fun t => Op.trivia t.comment t.text

/-- all newlines contained in a trivia list -/
def nlAll : List RTrivia → Nat
  | [] => 0
  | t :: rest => countNewLines t.text + nlAll rest

/-- the newlines the loop re-creates -/
def gapSum (previous : Option Nat) : List RTrivia → Nat
  | [] => 0
  | t :: rest =>
    gapOf previous t.line + gapSum (if t.line.isSome then t.line else previous) rest

/-- The comments of a removed statement as they sit in the source: all are comments with a
recorded line; a comment starting on line `l` with `k` newlines inside ends on line `l + k` and
the next one starts there or later; after a comment the generator treats as a line comment the
next one starts on a strictly later line. (`lo` = first line the next comment may start on,
`strict` = the previous one was a line comment.) -/
def attached (lo : Nat) : List RTrivia → Bool
  | [] => true
  | t :: rest =>
    t.comment &&
    match t.line with
    | none => false
    | some l =>
      decide (lo ≤ l) &&
        attached (l + countNewLines t.text + (if isSingleLineComment t.text then 1 else 0)) rest

/-- every comment fits on one line -/
def singleLine : List RTrivia → Bool
  | [] => true
  | t :: rest => countNewLines t.text == 0 && singleLine rest

/-- first line after the comment block: where the next code may start at the earliest -/
def endOf (lo : Nat) : List RTrivia → Nat
  | [] => lo
  | t :: rest =>
    match t.line with
    | none => endOf lo rest
    | some l => endOf (l + countNewLines t.text + (if isSingleLineComment t.text then 1 else 0)) rest

end DarkluaModel.C04
