import DarkluaModel.C04.Lemmas
/-!
C04 — retain_lines keeps surviving code on its original line.

All statements are about `run`/`step`/`prepToken` of `C03/Model.lean` (the writer state machine
the driver replays real traces with), for op sequences of any length.
"The content `t` starts on output line `n`" is expressed as: the output just before the content
is pushed, `(prepToken st t (some n) sc r).out`, contains `n - 1` newlines, the content follows it
immediately, and nothing written later changes what is already written.
-/
namespace DarkluaModel.C04
open DarkluaModel.C03

/-- One step from any state satisfying the line-counter invariant. -/
theorem line_invariant_state (st : State) (hinv : C03.Inv st) (t : List UInt8) (n : Nat) (sc : Bool)
    (r : Option (Nat × Nat)) (ht : t ≠ []) (hpre : (Op.token t (some n) sc r).budget st.line st.commenting = true) :
    (step st (.token t (some n) sc r)).out = (prepToken st t (some n) sc r).out ++ t ∧
    countNewLines (prepToken st t (some n) sc r).out + 1 = n ∧
    (step st (.token t (some n) sc r)).line = n + countNewLines t := by
  have hne : t.isEmpty = false := by cases t <;> simp_all
  simp only [Op.budget, hne, Bool.false_or, decide_eq_true_eq] at hpre
  unfold C03.Inv at hinv
  simp only [step, writeTokenContent, hne, Bool.false_eq_true, if_false]
  refine ⟨by simp [State.out, pushStr], ?_, ?_⟩
  · simp only [prepToken, State.out, cnl_reverse]
    (repeat' split) <;> simp_all [uncomment, pad, pushSpace, cnl_append, cnl_cons_nl, cnl_cons_sp, cnl_replicate] <;> omega
  · simp only [prepToken, pushStr]
    (repeat' split) <;> simp_all [uncomment, pad, pushSpace] <;> omega

/-- `line_invariant`: in any reachable state (any op sequence `pre`), if `current_line` — after
the `uncomment` newline an open line comment costs — is at or before the recorded line `n` of a
non-empty token content, then the content starts on output line `n`, and afterwards
`current_line = n + newlines(content)`. -/
theorem line_invariant (pre : List Op) (t : List UInt8) (n : Nat) (sc : Bool) (r : Option (Nat × Nat)) (ht : t ≠ [])
    (hpre : (Op.token t (some n) sc r).budget (run init pre).line (run init pre).commenting = true) :
    (run init (pre ++ [.token t (some n) sc r])).out = (prepToken (run init pre) t (some n) sc r).out ++ t ∧
    countNewLines (prepToken (run init pre) t (some n) sc r).out + 1 = n ∧
    (run init (pre ++ [.token t (some n) sc r])).line = n + countNewLines t := by
  rw [run_append]
  exact line_invariant_state (run init pre) (run_inv pre init init_inv) t n sc r ht hpre

example : (Op.token [120] (some 3) true none).budget (run init [.trivia true [45, 45, 99]]).line
    (run init [.trivia true [45, 45, 99]]).commenting = true := by decide

/-- Nothing written is ever rewritten: the output after `pre` is a prefix of the output after
`pre ++ post`. -/
theorem output_prefix_stable (pre post : List Op) :
    ∃ rest, (run init (pre ++ post)).out = (run init pre).out ++ rest := by
  rw [run_append]
  obtain ⟨ins, h⟩ := run_rout post (run init pre)
  exact ⟨ins.reverse, by simp [State.out, h]⟩

/-- `budget_lands`: if the static line budget of a whole op sequence holds (`budgetOk 1 false`:
pure line arithmetic, no bytes), every non-empty line-bearing content in it starts on its
recorded line in the final output. -/
theorem budget_lands (pre post : List Op) (t : List UInt8) (n : Nat) (sc : Bool) (r : Option (Nat × Nat)) (ht : t ≠ [])
    (hb : budgetOk 1 false (pre ++ .token t (some n) sc r :: post) = true) :
    ∃ after, (run init (pre ++ .token t (some n) sc r :: post)).out =
        (prepToken (run init pre) t (some n) sc r).out ++ t ++ after ∧
      countNewLines (prepToken (run init pre) t (some n) sc r).out + 1 = n := by
  rw [budgetOk_append] at hb
  simp only [budgetOk, Bool.and_eq_true] at hb
  have hl := run_line pre init
  have hpre : (Op.token t (some n) sc r).budget (run init pre).line (run init pre).commenting = true := by
    rw [hl.1, hl.2]; exact hb.2.1
  have h := line_invariant pre t n sc r ht hpre
  obtain ⟨rest, hr⟩ := output_prefix_stable (pre ++ [.token t (some n) sc r]) post
  refine ⟨rest, ?_, h.2.1⟩
  have : pre ++ Op.token t (some n) sc r :: post = (pre ++ [.token t (some n) sc r]) ++ post := by simp
  rw [this, hr, h.1]

example : budgetOk 1 false [.token [120] (some 1) true none, .trivia true [45, 45, 99],
    .token [121] (some 2) true none, .symbol [122] true, .token [119] (some 4) true none] = true := by decide

/-- `monotone_ok`: the syntactic condition — line-bearing contents in non-decreasing line order
(counting their own newlines and one line per `uncomment` of a kept line comment), every other
written piece free of newlines — implies the line budget, from any `current_line ≤ lo`. -/
theorem monotone_ok (l : List Op) : ∀ (cur lo : Nat) (p : Bool), cur ≤ lo →
    monotone lo p l = true → budgetOk cur p l = true := by
  induction l with
  | nil => intro _ _ _ _ _; rfl
  | cons op rest ih =>
    intro cur lo p hle hm
    cases op with
    | trivia c t =>
      cases c with
      | true =>
        simp only [monotone, Bool.and_eq_true, beq_iff_eq] at hm
        simp only [budgetOk, Op.budget, Bool.true_and, Op.lineAfter, Op.fires, Op.pendingAfter, hm.1]
        rcases Bool.eq_false_or_eq_true (isSingleLineComment t) with hs | hs <;> cases p <;>
          simp only [hs] at hm ⊢ <;>
          first
            | exact ih _ _ _ (by simpa using hle) (by simpa using hm.2)
            | exact ih _ (lo + 1) _ (by simp; omega) (by simpa using hm.2)
      | false =>
        simp only [monotone, Bool.and_eq_true, beq_iff_eq] at hm
        simp only [budgetOk, Op.budget, Bool.true_and, Op.lineAfter, Op.fires, Op.pendingAfter, hm.1,
          contains_nl_of_cnl_zero hm.1]
        refine ih _ _ _ ?_ (by simpa using hm.2)
        simp; omega
    | token t line sc r =>
      by_cases hte : t.isEmpty = true
      · simp only [monotone, hte, if_true] at hm
        cases line <;> simp only [budgetOk, Op.budget, Op.lineAfter, Op.pendingAfter, hte, if_true,
          Bool.true_or, Bool.true_and] <;> exact ih _ _ _ hle hm
      · cases line with
        | none =>
          simp only [monotone, hte, Bool.false_eq_true, if_false, Bool.and_eq_true, beq_iff_eq] at hm
          simp only [budgetOk, Op.budget, Op.lineAfter, Op.pendingAfter, hte, Bool.false_eq_true,
            if_false, Bool.true_and, hm.1]
          refine ih _ _ _ ?_ hm.2
          cases p <;> simp <;> omega
        | some n =>
          simp only [monotone, hte, Bool.false_eq_true, if_false, Bool.and_eq_true, decide_eq_true_eq] at hm
          simp only [budgetOk, Op.budget, Op.lineAfter, Op.pendingAfter, hte, Bool.false_eq_true,
            if_false, Bool.false_or, Bool.and_eq_true, decide_eq_true_eq]
          refine ⟨?_, ih _ _ _ ?_ hm.2⟩
          · cases p <;> simp_all <;> omega
          · cases p <;> simp_all <;> omega
    | symbol t sc =>
      simp only [monotone, Bool.and_eq_true, beq_iff_eq] at hm
      simp only [budgetOk, Op.budget, Bool.true_and, Op.lineAfter, Op.pendingAfter, hm.1]
      cases p with
      | true =>
        have h2 : monotone (lo + 1) false rest = true := by simpa using hm.2
        exact ih _ _ _ (by simp; omega) h2
      | false =>
        have : (if t.isEmpty = true then false else false) = false := by split <;> rfl
        simp only [Bool.false_eq_true, if_false, this]
        exact ih _ _ _ (by simpa using hle) (by simpa using hm.2)
    | rawPush t =>
      simp only [monotone, Bool.and_eq_true, beq_iff_eq] at hm
      simp only [budgetOk, Op.budget, Bool.true_and, Op.lineAfter, Op.pendingAfter, hm.1]
      exact ih _ _ _ (by simpa using hle) hm.2
    | rawSpace =>
      simp only [monotone] at hm
      simp only [budgetOk, Op.budget, Bool.true_and, Op.lineAfter, Op.pendingAfter]
      exact ih _ _ _ hle hm

example : monotone 1 false [.token [120] (some 1) true none, .trivia true [45, 45, 99],
    .token [121] (some 2) true none, .symbol [122] true, .token [91, 91, 10, 93, 93] (some 4) true none,
    .token [119] (some 5) true none] = true := by decide

/-- After `remove_spaces` and `remove_comments` (`Token::clear_whitespaces`, `clear_comments` on
every token) no trivia is left: the only written pieces are token contents. -/
theorem cleared_no_trivia (ts : List Tok) :
    ∀ op ∈ ops (ts.map fun t => t.clearWhitespaces.clearComments), ∃ t l sc r, op = .token t l sc r := by
  induction ts with
  | nil => intro op h; simp [ops] at h
  | cons t rest ih =>
    intro op h
    simp only [List.map, ops, List.mem_append] at h
    rcases h with h | h
    · simp only [Tok.ops, Tok.clearComments, Tok.clearWhitespaces, List.mem_append, List.mem_cons,
        List.mem_map, List.mem_filter] at h
      rcases h with ⟨v, ⟨⟨_, h1⟩, h2⟩, _⟩ | h | ⟨v, ⟨⟨_, h1⟩, h2⟩, _⟩
      · simp_all
      · exact ⟨_, _, _, _, h⟩
      · simp_all
    · exact ih op h

example : ops (([⟨[⟨false, [32]⟩, ⟨true, [45, 45]⟩], [120], some 2, true, [⟨false, [10]⟩], none⟩] : List Tok).map
    fun t => t.clearWhitespaces.clearComments) = [.token [120] (some 2) true none] := by decide

/-- Shifting every recorded line by `k` keeps the budget when the writer starts `k` lines later. -/
theorem budget_shift (k : Nat) (l : List Op) : ∀ (cur : Nat) (p : Bool),
    budgetOk cur p l = true → budgetOk (cur + k) p (shiftOps k l) = true := by
  induction l with
  | nil => intro _ _ _; rfl
  | cons op rest ih =>
    intro cur p h
    simp only [budgetOk, Bool.and_eq_true] at h
    simp only [shiftOps, List.map, budgetOk, Bool.and_eq_true]
    refine ⟨shift_budget k cur p op h.1, ?_⟩
    rw [shift_lineAfter, shift_pendingAfter]
    exact ih _ _ h.2

/-- `shift_uniform`: what `append_text_comment` (location `start`) does — shift every recorded
line by `commentShift c` = newlines of the comment + 1 and write the comment and a newline
first — keeps the budget; so by `budget_lands` every content recorded at `n` now starts on
output line `n + commentShift c`: all surviving code moves down by exactly the inserted lines. -/
theorem shift_uniform (c : List UInt8) (l : List Op) (h : budgetOk 1 false l = true) :
    budgetOk 1 false (startComment c ++ shiftOps (commentShift c) l) = true := by
  have hs := budget_shift (commentShift c) l 1 false h
  simp only [startComment, List.cons_append, List.nil_append, budgetOk, Op.budget, Bool.true_and,
    Op.lineAfter, Op.fires, Op.pendingAfter, Bool.false_and, Bool.false_eq_true, if_false]
  have h10 : ([10] : List UInt8).contains 10 = true := by decide
  have hc : countNewLines [10] = 1 := by decide
  simp only [h10, hc, Bool.not_true, Bool.and_false]
  have : 1 + countNewLines c + 1 = 1 + commentShift c := by unfold commentShift; omega
  rw [this]; exact hs

/-- The token-level shift (`Token::shift_token_line` on every token) is the op-level shift. -/
theorem ops_shift (k : Nat) (ts : List Tok) : ops (ts.map (Tok.shift k)) = shiftOps k (ops ts) := by
  induction ts with
  | nil => rfl
  | cons t rest ih =>
    simp only [List.map, ops, ih, shiftOps, List.map_append]
    congr 1
    cases hl : t.line <;>
      simp [Tok.ops, Tok.shift, hl, Trivia.op, Op.shift, Function.comp_def] <;> rfl

example : budgetOk 1 false (startComment [45, 45, 104, 105] ++
    shiftOps (commentShift [45, 45, 104, 105]) [.token [120] (some 1) true none, .token [121] (some 3) true none]) = true := by
  decide


/-! ### `Block::remove_statement`: the comments of a removed statement -/

/-- The comments of the removed statement come, in order and with the re-created gaps between
them, before the leading trivia the next token already had — for any number of comments, any
gaps, any own trivia. (This was the full statement `reattach_inorder_full`, false before /repo
fix 'remove_statement offset' (finding F34): `offset += gap` made the index overshoot.) -/
theorem reattach_inorder_full (cs own : List RTrivia) : reattach cs own = interleave none cs ++ own := by
  have := reattachLoop_inorder cs [] own 0 0 none (by simp)
  simpa [reattach] using this

theorem reattach_inorder (cs : List RTrivia) : reattach cs [] = interleave none cs := by
  simpa using reattach_inorder_full cs []

/-- regression: the F34 witness (comments on lines 2, 4, 7; next statement with its own comment) -/
example : reattach [⟨true, [45, 45, 97], some 2⟩, ⟨true, [45, 45, 98], some 4⟩, ⟨true, [45, 45, 116], some 7⟩]
    [⟨true, [45, 45, 111], some 8⟩, ⟨false, [10], some 8⟩] =
    [⟨true, [45, 45, 97], some 2⟩, gapTrivia 2, ⟨true, [45, 45, 98], some 4⟩, gapTrivia 3,
     ⟨true, [45, 45, 116], some 7⟩, ⟨true, [45, 45, 111], some 8⟩, ⟨false, [10], some 8⟩] := by decide

/-- Whatever the insertion positions (the index overshoots after a gap of two or more), the
newlines of the resulting leading trivia are those of the old trivia, those inside the kept
comments, and one per line between the STARTING lines of consecutive comments. -/
theorem reattach_newlines (cs own : List RTrivia) :
    nlAll (reattach cs own) = nlAll own + nlAll cs + gapSum none cs := by
  simpa [reattach] using nlAll_reattachLoop cs own 0 0 none

/-- The invariant of the walk over the re-attached comments. -/
def walkInv (cur : Nat) (p : Bool) (prev : Option Nat) (lo : Nat) : Prop :=
  match prev with
  | none => (if p then cur + 1 else cur) ≤ lo
  | some lp => cur ≤ lp ∧ lo = lp + (if p then 1 else 0)

theorem interleave_budget (cs : List RTrivia) : ∀ (cur : Nat) (p : Bool) (prev : Option Nat)
    (lo : Nat) (tail : List Op), walkInv cur p prev lo → attached lo cs = true → singleLine cs = true →
    ∃ cur' p', budgetOk cur p (trivOps (interleave prev cs) ++ tail) = budgetOk cur' p' tail ∧
      (if p' then cur' + 1 else cur') ≤ endOf lo cs := by
  induction cs with
  | nil =>
    intro cur p prev lo tail hinv _ _
    refine ⟨cur, p, by simp [interleave, trivOps], ?_⟩
    cases prev with
    | none => simpa [walkInv, endOf] using hinv
    | some lp =>
      simp only [walkInv] at hinv
      simp only [endOf]
      cases p <;> simp_all <;> omega
  | cons t rest ih =>
    intro cur p prev lo tail hinv hatt hsl
    simp only [attached, Bool.and_eq_true] at hatt
    obtain ⟨hc, hatt⟩ := hatt
    cases hl : t.line with
    | none => simp [hl] at hatt
    | some l =>
      simp only [hl, Bool.and_eq_true, decide_eq_true_eq] at hatt
      obtain ⟨hlo, hrest⟩ := hatt
      simp only [singleLine, Bool.and_eq_true, beq_iff_eq] at hsl
      obtain ⟨hnl, hslr⟩ := hsl
      have hnext : endOf lo (t :: rest) =
          endOf (l + countNewLines t.text + (if isSingleLineComment t.text then 1 else 0)) rest := by
        simp [endOf, hl]
      rw [hnext]
      have hpa : ∀ q, (Op.trivia true t.text).pendingAfter q = isSingleLineComment t.text := fun _ => rfl
      cases prev with
      | none =>
        -- first comment: no gap
        simp only [walkInv] at hinv
        have hi : interleave none (t :: rest) = t :: interleave (some l) rest := by
          simp [interleave, gapOf, hl]
        rw [hi]
        simp only [trivOps, List.map, List.cons_append]
        rw [hc, budgetOk_trivia]
        refine ih ((Op.trivia true t.text).lineAfter cur p) ((Op.trivia true t.text).pendingAfter p)
          (some l) _ tail ⟨?_, ?_⟩ hrest hslr
        · simp only [Op.lineAfter, Op.fires, hnl]
          rcases Bool.eq_false_or_eq_true (isSingleLineComment t.text) with hs | hs <;> cases p <;>
            simp [hs] at hinv ⊢ <;> omega
        · rw [hpa, hnl]; simp
      | some lp =>
        simp only [walkInv] at hinv
        obtain ⟨hcur, hlo'⟩ := hinv
        by_cases hg : l - lp = 0
        · -- same line: the previous comment is not a line comment
          have hp : p = false := by
            cases p with
            | false => rfl
            | true => simp at hlo'; omega
          subst hp
          have hi : interleave (some lp) (t :: rest) = t :: interleave (some l) rest := by
            simp [interleave, gapOf, hl, hg]
          rw [hi]
          simp only [trivOps, List.map, List.cons_append]
          rw [hc, budgetOk_trivia]
          refine ih ((Op.trivia true t.text).lineAfter cur false)
            ((Op.trivia true t.text).pendingAfter false) (some l) _ tail ⟨?_, ?_⟩ hrest hslr
          · simp only [Op.lineAfter, Op.fires, hnl]
            simp at hlo'; simp; omega
          · rw [hpa, hnl]; simp
        · have hi : interleave (some lp) (t :: rest) =
              gapTrivia (l - lp) :: t :: interleave (some l) rest := by
            simp [interleave, gapOf, hl, hg]
          rw [hi]
          simp only [trivOps, List.map, List.cons_append, gapTrivia]
          rw [budgetOk_trivia, hc, budgetOk_trivia]
          have hp1 : (Op.trivia false (List.replicate (l - lp) 10)).pendingAfter p = false := by
            have hcn : (List.replicate (l - lp) (10 : UInt8)).contains 10 = true := replicate_contains_nl hg
            simp only [Op.pendingAfter, hcn]; simp
          have hc1 : (Op.trivia false (List.replicate (l - lp) 10)).lineAfter cur p = cur + (l - lp) := by
            simp [Op.lineAfter, Op.fires, cnl_replicate]
          rw [hp1, hc1]
          refine ih ((Op.trivia true t.text).lineAfter (cur + (l - lp)) false)
            ((Op.trivia true t.text).pendingAfter false) (some l) _ tail ⟨?_, ?_⟩ hrest hslr
          · simp only [Op.lineAfter, Op.fires, hnl]
            simp; omega
          · rw [hpa, hnl]; simp

/-- Full-strength statement: the code after a removed statement keeps its line. `cs` are the
comments the removed statement carried, as they sit in the source (`attached`), re-attached by
`remove_statement` to a next token that has no leading trivia of its own; the writer reaches
them at `current_line = cur` (+1 if a line comment is open) not past the first comment's line
`lo`; the next content is recorded on line `n`, not before the end of the comment block. -/
def removed_statement_keeps_line_full : Prop :=
  ∀ (cs : List RTrivia) (cur lo : Nat) (p : Bool) (t : List UInt8) (n : Nat) (sc : Bool) (r : Option (Nat × Nat)) (tail : List Op),
    (if p then cur + 1 else cur) ≤ lo → attached lo cs = true → endOf lo cs ≤ n → t ≠ [] →
    budgetOk cur p (trivOps (reattach cs []) ++ Op.token t (some n) sc r :: tail) =
      budgetOk (n + countNewLines t) false tail

/-- False of the code as it is (finding F32): the gaps are computed from the STARTING lines of
the comments, so the newlines inside a comment that spans several lines are counted twice.
Witness: `--[[a⏎b]]` on line 1 followed by `-- c` on line 2, next statement on line 3. -/
theorem removed_statement_keeps_line_full_false : ¬ removed_statement_keeps_line_full := by
  intro h
  have := h [⟨true, [45, 45, 91, 91, 97, 10, 98, 93, 93], some 1⟩, ⟨true, [45, 45, 32, 99], some 2⟩]
    1 1 false [109] 3 true none [] (by decide) (by decide) (by decide) (by decide)
  exact absurd this (by decide)

/-- Partial theorem: when every comment the removed statement carried fits on one line, the
next statement's first content finds `current_line` at or before its recorded line, whatever
the number of comments and the gaps between them; by `budget_lands` it (and, the budget of
`tail` being evaluated from exactly `n + newlines`, everything after it) stays on its line. -/
theorem removed_statement_keeps_line (cs : List RTrivia) (cur lo : Nat) (p : Bool) (t : List UInt8)
    (n : Nat) (sc : Bool) (r : Option (Nat × Nat)) (tail : List Op)
    (hcur : (if p then cur + 1 else cur) ≤ lo) (hatt : attached lo cs = true)
    (hsl : singleLine cs = true) (hend : endOf lo cs ≤ n) (ht : t ≠ []) :
    budgetOk cur p (trivOps (reattach cs []) ++ Op.token t (some n) sc r :: tail) =
      budgetOk (n + countNewLines t) false tail := by
  rw [reattach_inorder]
  obtain ⟨cur', p', h1, h2⟩ := interleave_budget cs cur p none lo (Op.token t (some n) sc r :: tail)
    (by simpa [walkInv] using hcur) hatt hsl
  rw [h1]
  have hne : t.isEmpty = false := by cases t <;> simp_all
  simp only [budgetOk, Op.budget, Op.lineAfter, Op.pendingAfter, hne, Bool.false_or, Bool.false_eq_true,
    if_false]
  have hle : (if p' = true then cur' + 1 else cur') ≤ n := Nat.le_trans h2 hend
  have hd : decide ((if p' = true then cur' + 1 else cur') ≤ n) = true := by simpa using hle
  rw [hd, Bool.true_and]
  congr 1
  omega

example : attached 2 [⟨true, [45, 45, 100, 49], some 2⟩, ⟨true, [45, 45, 100, 50], some 3⟩,
    ⟨true, [45, 45, 116], some 4⟩] = true ∧
    singleLine [⟨true, [45, 45, 100, 49], some 2⟩, ⟨true, [45, 45, 100, 50], some 3⟩,
    ⟨true, [45, 45, 116], some 4⟩] = true ∧
    endOf 2 [⟨true, [45, 45, 100, 49], some 2⟩, ⟨true, [45, 45, 100, 50], some 3⟩,
    ⟨true, [45, 45, 116], some 4⟩] ≤ 5 := by decide

end DarkluaModel.C04
