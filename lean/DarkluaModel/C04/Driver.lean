import DarkluaModel.Util.Sexp
/-! Line-protocol handlers for property C04 (stub: nothing modelled yet). -/
namespace DarkluaModel.C04

def handle (op : String) (_args : List String) : String :=
  "unknown-op " ++ op

end DarkluaModel.C04
