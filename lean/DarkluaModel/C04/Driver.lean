import DarkluaModel.Util.Sexp
import DarkluaModel.C03.Model
import DarkluaModel.C03.Driver
import DarkluaModel.C04.Model
/-!
Line-protocol handlers for property C04 (trace items as in `C03/Driver.lean`).

  `c04.lines <item>*` → `ok <budgetOk> <monotone> <checked> <displaced> <recorded>:<actual>`
      budgetOk / monotone: the hypotheses of `budget_lands` / `monotone_ok` on the op sequence;
      checked: number of non-empty line-bearing contents; displaced: how many of them do not
      start on their recorded line in the model's output; the first such pair (`-` if none)
  `c04.shift <k> <comment-hex> <item>*` → `ok <budgetOk of startComment ++ shiftOps k ops>`
  `c04.reattach <rt>* | <rt>*` → `ok <rt>*`   (`Block::remove_statement`: kept trivia of the removed
      statement `|` leading trivia of the next token; `<rt>` = `c|w` `<line|->` `:` `<hex>`)
-/
namespace DarkluaModel.C04
open DarkluaModel.C03

/-- (checked, displaced, first displaced (recorded, actual)) over a run of the writer. -/
def landings (st : State) (acc : Nat × Nat × Option (Nat × Nat)) : List Op → Nat × Nat × Option (Nat × Nat)
  | [] => acc
  | op :: rest =>
    let acc' :=
      match op with
      | .token t (some n) sc r =>
        if t.isEmpty then acc
        else
          let actual := countNewLines (prepToken st t (some n) sc r).rout + 1
          if actual == n then (acc.1 + 1, acc.2.1, acc.2.2)
          else (acc.1 + 1, acc.2.1 + 1, acc.2.2 <|> some (n, actual))
      | _ => acc
    landings (step st op) acc' rest

def parseRT (s : String) : Option RTrivia :=
  match s.splitOn ":" with
  | [a, h] =>
    match a.toList, hexToBytes? h with
    | k :: l, some bs =>
      let line := String.ofList l
      let kind := if k == 'c' then some true else if k == 'w' then some false else none
      match kind, (if line == "-" then some none else line.toNat?.map some) with
      | some c, some ln => some ⟨c, bs, ln⟩
      | _, _ => none
    | _, _ => none
  | _ => none

def showRT (t : RTrivia) : String :=
  (if t.comment then "c" else "w") ++ (match t.line with | some n => toString n | none => "-") ++ ":" ++
    bytesToHex t.text

def handle (op : String) (args : List String) : String :=
  match op, args with
  | "lines", items =>
    match decode items with
    | none => "bad-args"
    | some is =>
      let l := flatten is
      let (checked, displaced, first) := landings init (0, 0, none) l
      let f := match first with
        | some (n, a) => s!"{n}:{a}"
        | none => "-"
      s!"ok {b01 (budgetOk 1 false l)} {b01 (monotone 1 false l)} {checked} {displaced} {f}"
  | "shift", k :: c :: items =>
    match k.toNat?, hexToBytes? c, decode items with
    | some k, some c, some is =>
      let l := flatten is
      s!"ok {b01 (budgetOk 1 false l)} {b01 (budgetOk 1 false (startComment c ++ shiftOps k l))} {commentShift c}"
    | _, _, _ => "bad-args"
  | "reattach", items =>
    let cs := items.takeWhile (· != "|")
    let own := (items.dropWhile (· != "|")).drop 1
    match cs.mapM parseRT, own.mapM parseRT with
    | some cs, some own => " ".intercalate ("ok" :: (reattach cs own).map showRT)
    | _, _ => "bad-args"
  | _, _ => "unknown-op " ++ op

end DarkluaModel.C04
