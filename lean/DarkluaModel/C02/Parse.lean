/-
C02 — ORACLE: an independent lexer + recursive-descent parser for the Lua 5.1 ∩ Luau core
(all Lua 5.1 statements and expressions, plus Luau's `continue`, compound assignments, `//`,
if-expressions, binary literals and `e :: Name`), from bytes to a tree S-expression. Written
from the Lua 5.1 reference manual (§2.1 lexical conventions, §2.5.6 precedence, §8 complete
syntax) and the Luau grammar page; it shares no code with the model of darklua's generator.

The harness uses it to re-read the REAL generator output. No theorem depends on it
(`partial def` allowed here).
-/
import DarkluaModel.Util.Sexp
import DarkluaModel.Shared.FloatOps
namespace DarkluaModel.C02.Parse

inductive Token where
  | name (s : String)
  | kw (s : String)
  | num (m : Nat) (e : Int)
  | str (bytes : List UInt8)
  | sym (s : String)
  -- interpolated string `…{e}…`: istart, then literal segments / iopen tokens… iclose, iend
  | istart | iseg (bytes : List UInt8) | iopen | iclose | iend
  deriving Repr, BEq, Inhabited

def keywords : List String :=
  ["and", "break", "do", "else", "elseif", "end", "false", "for", "function", "if", "in", "local",
   "nil", "not", "or", "repeat", "return", "then", "true", "until", "while"]

/-- multi-character symbols, longest first -/
def symbols : List String :=
  ["...", "..=", "//=", "..", "==", "~=", "<=", ">=", "//", "::", "+=", "-=", "*=", "/=", "%=", "^=", "->",
   "+", "-", "*", "/", "%", "^", "#", "<", ">", "=", "(", ")", "{", "}", "[", "]", ";", ":", ",", ".",
   "?", "|", "&", "@"]

def isDigit (b : UInt8) : Bool := 48 ≤ b && b ≤ 57
def isAlpha (b : UInt8) : Bool := (65 ≤ b && b ≤ 90) || (97 ≤ b && b ≤ 122) || b == 95
def isAlnum (b : UInt8) : Bool := isAlpha b || isDigit b
def isSpace (b : UInt8) : Bool := b == 32 || b == 10 || b == 13 || b == 9 || b == 11 || b == 12
def isHex (b : UInt8) : Bool := isDigit b || (65 ≤ b && b ≤ 70) || (97 ≤ b && b ≤ 102)
def hexValue (b : UInt8) : Nat :=
  if isDigit b then b.toNat - 48 else if b ≥ 97 then b.toNat - 87 else b.toNat - 55

def bytesToString (bs : List UInt8) : String := String.ofList (bs.map fun b => Char.ofNat b.toNat)

def startsWith (bs : List UInt8) (s : String) : Bool :=
  let p := s.toUTF8.toList
  bs.take p.length == p

/-- `[` `=`* `[` at the start: the level -/
def longBracketLevel (bs : List UInt8) : Option Nat :=
  match bs with
  | 91 :: rest =>
    let eqs := rest.takeWhile (· == 61)
    match rest.drop eqs.length with
    | 91 :: _ => some eqs.length
    | _ => none
  | _ => none

/-- read a long bracket body after the opening bracket of `level`; returns (content, rest) -/
partial def readLong (level : Nat) (bs : List UInt8) (acc : List UInt8) : Option (List UInt8 × List UInt8) :=
  match bs with
  | [] => none
  | 93 :: rest =>
    let eqs := rest.takeWhile (· == 61)
    if eqs.length == level then
      match rest.drop level with
      | 93 :: rest' => some (acc.reverse, rest')
      | _ => readLong level rest (93 :: acc)
    else readLong level rest (93 :: acc)
  -- llex.c read_long_string: a line break (`\n`, `\r`, `\r\n` or `\n\r`) is saved as ONE `\n`
  | 13 :: 10 :: rest => readLong level rest (10 :: acc)
  | 10 :: 13 :: rest => readLong level rest (10 :: acc)
  | 13 :: rest => readLong level rest (10 :: acc)
  | b :: rest => readLong level rest (b :: acc)

def utf8Encode (c : Nat) : List UInt8 :=
  let b (n : Nat) : UInt8 := UInt8.ofNat n
  if c < 0x80 then [b c]
  else if c < 0x800 then [b (0xC0 + c / 64), b (0x80 + c % 64)]
  else if c < 0x10000 then [b (0xE0 + c / 4096), b (0x80 + (c / 64) % 64), b (0x80 + c % 64)]
  else [b (0xF0 + c / 262144), b (0x80 + (c / 4096) % 64), b (0x80 + (c / 64) % 64), b (0x80 + c % 64)]

/-- body of a quoted string after the opening quote, up to `q` or `q2` (the second stop
character serves interpolated strings: backtick and `{`); returns the stop character too -/
partial def readQuoted2 (q q2 : UInt8) (bs : List UInt8) (acc : List UInt8) : Except String (List UInt8 × UInt8 × List UInt8) :=
  match bs with
  | [] => .error "unfinished string"
  | 10 :: _ => .error "unfinished string (newline)"
  | 92 :: rest =>
    match rest with
    | [] => .error "unfinished escape"
    | e :: rest' =>
      let simple (v : UInt8) := readQuoted2 q q2 rest' (v :: acc)
      if e == 97 then simple 7 else if e == 98 then simple 8 else if e == 102 then simple 12
      else if e == 110 then simple 10 else if e == 114 then simple 13 else if e == 116 then simple 9
      else if e == 118 then simple 11 else if e == 92 then simple 92 else if e == 34 then simple 34
      else if e == 39 then simple 39 else if e == 10 then simple 10
      else if e == 123 then simple 123 else if e == 96 then simple 96
      else if e == 122 then readQuoted2 q q2 (rest'.dropWhile isSpace) acc
      else if e == 120 then
        match rest' with
        | h1 :: h2 :: rest'' =>
          if isHex h1 && isHex h2 then readQuoted2 q q2 rest'' (UInt8.ofNat (hexValue h1 * 16 + hexValue h2) :: acc)
          else .error "bad \\x escape"
        | _ => .error "bad \\x escape"
      else if e == 117 then
        match rest' with
        | 123 :: rest'' =>
          let digits := rest''.takeWhile isHex
          match rest''.drop digits.length with
          | 125 :: rest3 =>
            if digits.isEmpty then .error "bad \\u escape"
            else
              let v := digits.foldl (fun a d => a * 16 + hexValue d) 0
              readQuoted2 q q2 rest3 ((utf8Encode v).reverse ++ acc)
          | _ => .error "bad \\u escape"
        | _ => .error "bad \\u escape"
      else if isDigit e then
        let ds := (e :: rest').take 3 |>.takeWhile isDigit
        let v := ds.foldl (fun a d => a * 10 + (d.toNat - 48)) 0
        if v > 255 then .error "escape too large"
        else readQuoted2 q q2 ((e :: rest').drop ds.length) (UInt8.ofNat v :: acc)
      else .error s!"invalid escape \\{Char.ofNat e.toNat}"
  | b :: rest => if b == q || b == q2 then .ok (acc.reverse, b, rest) else readQuoted2 q q2 rest (b :: acc)

def readQuoted (q : UInt8) (bs : List UInt8) (acc : List UInt8) : Except String (List UInt8 × List UInt8) :=
  match readQuoted2 q q bs acc with
  | .ok (s, _, r) => .ok (s, r)
  | .error e => .error e

def normNum (m : Nat) (e : Int) : Token :=
  if m == 0 then .num 0 0
  else
    let rec go (fuel : Nat) (m : Nat) (e : Int) : Token :=
      match fuel with
      | 0 => .num m e
      | f + 1 => if m % 10 == 0 then go f (m / 10) (e + 1) else .num m e
    go 400 m e

/-- numeral text (already delimited as the Lua 5.1 lexer does) to its exact value -/
def numeralValue (raw : List UInt8) : Except String Token :=
  let txt := raw.filter (· != 95)   -- Luau digit separators
  match txt with
  | 48 :: x :: rest =>
    if x == 120 || x == 88 then
      if !rest.isEmpty && rest.all isHex then .ok (normNum (rest.foldl (fun a d => a * 16 + hexValue d) 0) 0)
      else .error "malformed number"
    else if x == 98 || x == 66 then
      if !rest.isEmpty && rest.all (fun d => d == 48 || d == 49) then
        .ok (normNum (rest.foldl (fun a d => a * 2 + (d.toNat - 48)) 0) 0)
      else .error "malformed number"
    else decimal txt
  | _ => decimal txt
where
  decimal (txt : List UInt8) : Except String Token :=
    let ip := txt.takeWhile isDigit
    let r1 := txt.drop ip.length
    let (fp, r2) :=
      match r1 with
      | 46 :: r => let f := r.takeWhile isDigit; (f, r.drop f.length)
      | _ => ([], r1)
    if ip.isEmpty && fp.isEmpty then .error "malformed number"
    else
      let mant := (ip ++ fp).foldl (fun a d => a * 10 + (d.toNat - 48)) 0
      let e0 : Int := - (fp.length : Int)
      match r2 with
      | [] => .ok (normNum mant e0)
      | x :: r =>
        if x == 101 || x == 69 then
          let (neg, r) :=
            match r with
            | 43 :: r' => (false, r')
            | 45 :: r' => (true, r')
            | _ => (false, r)
          if !r.isEmpty && r.all isDigit then
            let ex : Int := (r.foldl (fun a d => a * 10 + (d.toNat - 48)) 0 : Nat)
            .ok (normNum mant (e0 + (if neg then -ex else ex)))
          else .error "malformed number"
        else .error "malformed number"

/-- number of newlines among the bytes consumed between `before` and its suffix `after` -/
def newlinesConsumed (before after : List UInt8) : Nat :=
  ((before.take (before.length - after.length)).filter (· == 10)).length

/-! Tokens are paired with the line on which they END (`llex.c` `linenumber` once the token is
read): the parser needs it for `lparser.c` `funcargs`' rule that the `(` of call arguments
must be on the line where the prefix expression ended. `modes` is the stack of brace depths of
the interpolation values being read. -/
mutual
partial def lex (bs : List UInt8) (line : Nat) (modes : List Nat) (acc : Array (Token × Nat)) : Except String (Array (Token × Nat)) :=
  match bs with
  | [] => .ok acc
  | b :: rest =>
    if isSpace b then lex rest (if b == 10 then line + 1 else line) modes acc
    else if b == 45 && rest.head? == some 45 then
      -- comment
      let after := rest.drop 1
      match longBracketLevel after with
      | some level =>
        match readLong level (after.drop (level + 2)) [] with
        | some (_, r) => lex r (line + newlinesConsumed bs r) modes acc
        | none => .error "unfinished long comment"
      | none => lex (after.dropWhile (· != 10)) line modes acc
    else if isAlpha b then
      let word := bs.takeWhile isAlnum
      let s := bytesToString word
      lex (bs.drop word.length) line modes (acc.push (if keywords.contains s then .kw s else .name s, line))
    else if isDigit b || (b == 46 && (rest.head?.map isDigit).getD false) then
      -- Lua 5.1 read_numeral: digits and dots, optional exponent sign, then alphanumerics
      let p1 := bs.takeWhile (fun c => isDigit c || c == 46)
      let r1 := bs.drop p1.length
      let (p2, r2) :=
        match r1 with
        | x :: y :: r =>
          if (x == 101 || x == 69) && (y == 43 || y == 45) && !(p1.take 2 == [48, 120] || p1.take 2 == [48, 88]) then ([x, y], r)
          else ([], r1)
        | _ => ([], r1)
      let p3 := r2.takeWhile isAlnum
      let raw := p1 ++ p2 ++ p3
      match numeralValue raw with
      | .ok t => lex (r2.drop p3.length) line modes (acc.push (t, line))
      | .error e => .error (e ++ " near " ++ bytesToString raw)
    else if b == 34 || b == 39 then
      match readQuoted b rest [] with
      | .ok (s, r) =>
        let line' := line + newlinesConsumed bs r
        lex r line' modes (acc.push (.str s, line'))
      | .error e => .error e
    else if b == 96 then lexInterp rest line modes (acc.push (.istart, line))
    else if b == 123 && !modes.isEmpty then
      -- a brace inside an interpolation value: count it
      lex rest line (match modes with | d :: ms => (d + 1) :: ms | [] => []) (acc.push (.sym "{", line))
    else if b == 125 && !modes.isEmpty then
      match modes with
      | 0 :: ms => lexInterp rest line ms (acc.push (.iclose, line))
      | d :: ms => lex rest line ((d - 1) :: ms) (acc.push (.sym "}", line))
      | [] => .error "unreachable"
    else
      match longBracketLevel bs with
      | some level =>
        let body := bs.drop (level + 2)
        -- a newline directly after the opening bracket is skipped
        let body := match body with
          | 13 :: 10 :: r => r
          | 10 :: 13 :: r => r
          | 10 :: r => r
          | 13 :: r => r
          | _ => body
        match readLong level body [] with
        | some (s, r) =>
          let line' := line + newlinesConsumed bs r
          lex r line' modes (acc.push (.str s, line'))
        | none => .error "unfinished long string"
      | none =>
        match symbols.find? (startsWith bs) with
        | some s => lex (bs.drop s.length) line modes (acc.push (.sym s, line))
        | none => .error s!"unexpected byte {b}"

/-- inside an interpolated string, after the opening backtick or after a `}`: a literal segment
up to the closing backtick or the next `{` -/
partial def lexInterp (bs : List UInt8) (line : Nat) (modes : List Nat) (acc : Array (Token × Nat)) : Except String (Array (Token × Nat)) :=
  match readQuoted2 96 123 bs [] with
  | .error e => .error e
  | .ok (seg, stop, r) =>
    let line' := line + newlinesConsumed bs r
    let acc := acc.push (.iseg seg, line')
    if stop == 96 then lex r line' modes (acc.push (.iend, line'))
    else
      if r.head? == some 123 then .error "`{{` in an interpolated string"
      else lex r line' (0 :: modes) (acc.push (.iopen, line'))
end

/-! ### parser -/

/-- remaining tokens (with their lines) and the line where the last consumed token ended
(`lparser.c` `ls->lastline`) -/
structure PS where
  toks : List (Token × Nat)
  lastLine : Nat

abbrev P := StateT PS (Except String)

def peek : P (Option Token) := do return (← get).toks.head?.map (·.1)
def peek2 : P (Option Token) := do return ((← get).toks.drop 1).head?.map (·.1)
/-- line of the next token -/
def peekLine : P Nat := do return ((← get).toks.head?.map (·.2)).getD 0
def lastLine : P Nat := do return (← get).lastLine
def advance : P Unit := modify fun s =>
  match s.toks with
  | (_, l) :: r => { toks := r, lastLine := l }
  | [] => s
def tokStr : Token → String
  | .name s => s
  | .kw s => s
  | .num m e => s!"<num {m}e{e}>"
  | .str _ => "<string>"
  | .sym s => s
  | .istart => "`" | .iseg _ => "<segment>" | .iopen => "{" | .iclose => "}" | .iend => "`"
def fail {α} (msg : String) : P α := do
  let ts := (← get).toks.map (·.1)
  throw s!"{msg} near `{" ".intercalate ((ts.take 3).map tokStr)}`"
def isSym (s : String) : P Bool := do return (← peek) == some (.sym s)
def isKw (s : String) : P Bool := do return (← peek) == some (.kw s)
def expectSym (s : String) : P Unit := do
  if ← isSym s then advance else fail s!"expected {s}"
def expectKw (s : String) : P Unit := do
  if ← isKw s then advance else fail s!"expected {s}"
def acceptSym (s : String) : P Bool := do
  if ← isSym s then advance; return true else return false
def acceptKw (s : String) : P Bool := do
  if ← isKw s then advance; return true else return false
def expectName : P String := do
  match ← peek with
  | some (.name s) => advance; return s
  | _ => fail "expected a name"

def binaryOp : Token → Option (String × Nat × Nat)
  | .kw "or" => some ("or", 1, 1)
  | .kw "and" => some ("and", 2, 2)
  | .sym "<" => some ("lt", 3, 3)
  | .sym ">" => some ("gt", 3, 3)
  | .sym "<=" => some ("le", 3, 3)
  | .sym ">=" => some ("ge", 3, 3)
  | .sym "~=" => some ("ne", 3, 3)
  | .sym "==" => some ("eq", 3, 3)
  | .sym ".." => some ("concat", 5, 4)
  | .sym "+" => some ("add", 6, 6)
  | .sym "-" => some ("sub", 6, 6)
  | .sym "*" => some ("mul", 7, 7)
  | .sym "/" => some ("div", 7, 7)
  | .sym "//" => some ("idiv", 7, 7)
  | .sym "%" => some ("mod", 7, 7)
  | .sym "^" => some ("pow", 10, 9)
  | _ => none

def unaryOp : Token → Option String
  | .kw "not" => some "not"
  | .sym "-" => some "neg"
  | .sym "#" => some "len"
  | _ => none

def compoundOp : Token → Option String
  | .sym "+=" => some "add" | .sym "-=" => some "sub" | .sym "*=" => some "mul" | .sym "/=" => some "div"
  | .sym "//=" => some "idiv" | .sym "%=" => some "mod" | .sym "^=" => some "pow" | .sym "..=" => some "concat"
  | _ => none

def blockEnd : Option Token → Bool
  | none => true
  | some (.kw "end") | some (.kw "else") | some (.kw "elseif") | some (.kw "until") => true
  | _ => false

def par (items : List String) : String := "(" ++ " ".intercalate items ++ ")"

def argType (a : String) : String :=
  -- `(arg - T)` → `T`
  if a.startsWith "(arg - " then ((a.drop 7).dropRight 1).toString else a

mutual
partial def expr (limit : Nat) : P String := do
  let mut left ←
    match (← peek).bind unaryOp with
    | some u => do
      advance
      let operand ← expr 8
      pure (par ["un", u, operand])
    | none => simpleExpr
  repeat
    match (← peek).bind binaryOp with
    | some (name, l, r) =>
      if l > limit then
        advance
        let right ← expr r
        left := par ["bin", name, left, right]
      else break
    | none => break
  return left

partial def simpleExpr : P String := do
  let e ←
    match ← peek with
    | some (.num m e) => do
      advance
      -- the literal's value as the correctly rounded double (exact integer arithmetic)
      let f := if e ≥ 0 then ratToFloat (m * 10 ^ e.toNat) 1 else ratToFloat m (10 ^ (-e).toNat)
      pure (par ["numf", toString f.toBits.toNat, toString m, toString e])
    | some (.str s) => do advance; pure (par ["str", bytesToHex s])
    | some (.kw "nil") => do advance; pure "nil"
    | some (.kw "true") => do advance; pure "true"
    | some (.kw "false") => do advance; pure "false"
    | some (.sym "...") => do advance; pure "varargs"
    | some .istart => do
      advance
      let mut parts : Array String := #[]
      repeat
        match ← peek with
        | some (.iseg bytes) => advance; parts := parts.push (par ["seg", bytesToHex bytes])
        | some .iopen =>
          advance
          let v ← expr 0
          match ← peek with
          | some .iclose => advance
          | _ => fail "expected } of the interpolated value"
          parts := parts.push (par ["val", v])
        | some .iend => advance; break
        | _ => fail "unfinished interpolated string"
      pure (par ("interp" :: parts.toList))
    | some (.sym "{") => do
      let entries ← tableCons
      pure (par ("table" :: entries))
    | some (.kw "function") => do advance; funcBody
    | some (.sym "@") => do
      let attrs ← attributes
      expectKw "function"
      let f ← funcBody
      pure (par ["attrs", par attrs, f])
    | some (.kw "if") => do
      advance
      let c ← expr 0
      expectKw "then"
      let r ← expr 0
      let mut branches : Array String := #[]
      repeat
        if ← acceptKw "elseif" then
          let bc ← expr 0
          expectKw "then"
          let br ← expr 0
          branches := branches.push (par ["elif", bc, br])
        else break
      expectKw "else"
      let e ← expr 0
      -- the else branch is a full expression: nothing can follow as a suffix
      return par (["ifexp", c, r, e] ++ branches.toList)
    | _ => primaryExpr
  if ← acceptSym "::" then
    let t ← parseType
    return par ["cast", e, t]
  return e

partial def primaryExpr : P String := do
  let mut e ←
    match ← peek with
    | some (.name s) => do advance; pure (par ["id", s])
    | some (.sym "(") => do
      advance
      let inner ← expr 0
      expectSym ")"
      pure (par ["paren", inner])
    | _ => fail "unexpected symbol"
  repeat
    match ← peek with
    | some (.sym ".") =>
      advance
      let n ← expectName
      e := par ["field", e, n]
    | some (.sym "[") =>
      advance
      let k ← expr 0
      expectSym "]"
      e := par ["index", e, k]
    | some (.sym ":") =>
      advance
      let m ← expectName
      if (← isSym "<") && (← peek2) == some (.sym "<") then
        let types ← instTypes
        let a ← callArgs
        e := par ["mcallinst", e, m, par types, a]
      else
        let a ← callArgs
        e := par ["mcall", e, m, a]
    | some (.sym "<") =>
      -- explicit type instantiation `prefix<<T, ...>>` (Luau): the result is a prefix expression
      if (← peek2) == some (.sym "<") then
        let types ← instTypes
        e := par ("inst" :: e :: types)
      else break
    | some (.sym "(") | some (.sym "{") | some (.str _) =>
      let a ← callArgs
      e := par ["call", e, a]
    | _ => break
  return e

/-- `@name` attributes (Luau) in front of a function -/
partial def attributes : P (List String) := do
  let mut names : Array String := #[]
  repeat
    if ← acceptSym "@" then names := names.push (← expectName) else break
  return names.toList

/-- `<<T, ...>>` -/
partial def instTypes : P (List String) := do
  expectSym "<"; expectSym "<"
  let mut types := #[← parseType]
  repeat
    if ← acceptSym "," then types := types.push (← parseType) else break
  expectSym ">"; expectSym ">"
  return types.toList

partial def callArgs : P String := do
  match ← peek with
  | some (.str s) => advance; return par ["sarg", bytesToHex s]
  | some (.sym "{") =>
    let entries ← tableCons
    return par ("targ" :: entries)
  | some (.sym "(") =>
    -- lparser.c funcargs: `if (line != ls->lastline) luaX_syntaxerror(ls, "ambiguous syntax
    -- (function call x new statement)")`; Luau reports the same ambiguity in statement position
    if (← peekLine) != (← lastLine) then
      fail "ambiguous syntax (function call x new statement): `(` of call arguments on a new line"
    advance
    if ← acceptSym ")" then return "(tuple)"
    let values ← exprList
    expectSym ")"
    return par ("tuple" :: values)
  | _ => fail "function arguments expected"

partial def exprList : P (List String) := do
  let mut values := #[← expr 0]
  repeat
    if ← acceptSym "," then values := values.push (← expr 0) else break
  return values.toList

partial def tableCons : P (List String) := do
  expectSym "{"
  let mut entries : Array String := #[]
  repeat
    if ← isSym "}" then break
    match ← peek, ← peek2 with
    | some (.name n), some (.sym "=") =>
      advance; advance
      let v ← expr 0
      entries := entries.push (par ["fld", n, v])
    | some (.sym "["), _ =>
      advance
      let k ← expr 0
      expectSym "]"
      expectSym "="
      let v ← expr 0
      entries := entries.push (par ["idx", k, v])
    | _, _ =>
      let v ← expr 0
      entries := entries.push (par ["val", v])
    if ← acceptSym "," then continue
    if ← acceptSym ";" then continue
    break
  expectSym "}"
  return entries.toList

/-- after the `function` keyword (and name): `[<generics>] ( params ) [: ret] block end` -/
partial def funcBody : P String := do
  let generics ← if ← isSym "<" then parseGenerics else pure []
  expectSym "("
  let mut params : Array (String × String) := #[]
  let mut variadic := "n"
  if !(← isSym ")") then
    repeat
      if ← acceptSym "..." then
        variadic := "v"
        if ← acceptSym ":" then
          -- `...: T` or `...: T...`
          match ← peek, ← peek2 with
          | some (.name g), some (.sym "...") =>
            advance; advance
            variadic := par ["tgeneric", g]
          | _, _ =>
            let t ← parseType
            variadic := par ["tvariadic", t]
        break
      let n ← expectName
      let t ← if ← acceptSym ":" then parseType else pure "-"
      params := params.push (n, t)
      if ← acceptSym "," then continue else break
  expectSym ")"
  let ret ← if ← acceptSym ":" then returnOrArg else pure "-"
  let body ← block
  expectKw "end"
  let typed := !generics.isEmpty || params.any (fun p => p.2 != "-") || ret != "-" || (variadic != "n" && variadic != "v")
  if typed then
    return par ["funct", par generics, par (params.toList.map fun p => par [p.1, p.2]), variadic, ret, body]
  else
    return par ["func", par (params.toList.map (·.1)), variadic, body]

/-- `< T, U = default, P... >` -/
partial def parseGenerics : P (List String) := do
  expectSym "<"
  let mut items : Array String := #[]
  repeat
    let n ← expectName
    if ← acceptSym "..." then
      if ← acceptSym "=" then
        items := items.push (par ["packdef", n, ← returnOrArg])
      else
        items := items.push (par ["pack", n])
    else if ← acceptSym "=" then
      let t ← parseType
      items := items.push (par ["def", n, t])
    else
      items := items.push n
    if ← acceptSym "," then continue else break
  expectSym ">"
  return items.toList

/-- a type: `[|] T | U`, `[&] T & U`, with postfix `?` -/
partial def parseType : P String := do
  let lead ← if ← acceptSym "|" then pure "|" else if ← acceptSym "&" then pure "&" else pure ""
  let first ← postfixType none
  typeTail lead first

/-- union / intersection continuation after a first member -/
partial def typeTail (lead : String) (first : String) : P String := do
  let mut members := #[first]
  if (← isSym "|") && lead != "&" then
    repeat
      if ← acceptSym "|" then members := members.push (← postfixType none) else break
    if ← isSym "&" then fail "mixing | and & needs parentheses"
    return par ("tunion" :: members.toList)
  else if (← isSym "&") && lead != "|" then
    repeat
      if ← acceptSym "&" then members := members.push (← postfixType none) else break
    if ← isSym "|" then fail "mixing | and & needs parentheses"
    return par ("tinter" :: members.toList)
  else
    if (← isSym "|") || (← isSym "&") then fail "mixing | and & needs parentheses"
    return first

partial def postfixType (start : Option String) : P String := do
  let mut t ← match start with
    | some t => pure t
    | none => simpleType
  repeat
    if ← acceptSym "?" then t := par ["topt", t] else break
  return t

partial def typeArgs : P (List String) := do
  if !(← isSym "<") then return []
  advance
  let mut items : Array String := #[]
  if ← acceptSym ">" then return []
  repeat
    items := items.push (← returnOrArg)
    if ← acceptSym "," then continue else break
  expectSym ">"
  return items.toList

/-- inside `( ... )` of a function type / type pack: (arguments, variadic part) -/
partial def typeList : P (List String × String) := do
  let mut items : Array String := #[]
  let mut variadic := "-"
  if ← isSym ")" then return ([], "-")
  repeat
    if ← acceptSym "..." then
      variadic := par ["tvariadic", ← parseType]
      break
    match ← peek, ← peek2 with
    | some (.name g), some (.sym "...") =>
      advance; advance
      variadic := par ["tgeneric", g]
      break
    | some (.name n), some (.sym ":") =>
      advance; advance
      items := items.push (par ["arg", n, ← parseType])
    | _, _ => items := items.push (par ["arg", "-", ← parseType])
    if ← acceptSym "," then continue else break
  return (items.toList, variadic)

/-- a function return type or a type argument: a type, a type pack, `...T` or `T...` -/
partial def returnOrArg : P String := do
  if ← acceptSym "..." then return par ["tvariadic", ← parseType]
  match ← peek, ← peek2 with
  | some (.name g), some (.sym "...") => advance; advance; return par ["tgeneric", g]
  | _, _ => pure ()
  if ← isSym "(" then
    advance
    let (items, variadic) ← typeList
    expectSym ")"
    if ← acceptSym "->" then
      let ret ← returnOrArg
      let f := par ["tfunc", "()", par items, variadic, ret]
      return ← typeTail "" (← postfixType (some f))
    let unnamed := items.all (·.startsWith "(arg - ")
    if !unnamed then fail "named types outside a function type"
    if items.length == 1 && variadic == "-" && ((← isSym "?") || (← isSym "|") || (← isSym "&")) then
      let inner := par ["tparen", argType items.head!]
      return ← typeTail "" (← postfixType (some inner))
    return par ["tpack", par (items.map argType), variadic]
  parseType

partial def simpleType : P String := do
  match ← peek with
  | some (.kw "nil") => advance; return "tnil"
  | some (.kw "true") => advance; return "ttrue"
  | some (.kw "false") => advance; return "tfalse"
  | some (.str s) => advance; return par ["tstr", bytesToHex s]
  | some (.name n) =>
    advance
    if n == "typeof" && (← isSym "(") then
      advance
      let e ← expr 0
      expectSym ")"
      return par ["ttypeof", e]
    if ← acceptSym "." then
      let n2 ← expectName
      let args ← typeArgs
      return par (["tfield", n, n2] ++ args)
    let args ← typeArgs
    return par (["tname", n] ++ args)
  | some (.sym "{") =>
    advance
    if ← acceptSym "}" then return "(ttable)"
    -- array `{ T }` or table `{ a: T, [K]: V, ["s"]: T }`
    let isEntry ← do
      match ← peek, ← peek2 with
      | some (.name _), some (.sym ":") => pure true
      | some (.sym "["), _ => pure true
      | some (.name m), some (.name _) => pure (m == "read" || m == "write")
      | some (.name m), some (.sym "[") => pure (m == "read" || m == "write")
      | _, _ => pure false
    if !isEntry then
      let t ← parseType
      expectSym "}"
      return par ["tarray", t]
    let mut entries : Array String := #[]
    repeat
      if ← isSym "}" then break
      match ← peek, ← peek2 with
      | some (.sym "["), some (.str s) =>
        -- `["s"]: T` literal property, unless the string is a (singleton string) key type `[ "s" | T ]`
        advance; advance
        if ← acceptSym "]" then
          expectSym ":"
          entries := entries.push (par ["lit", bytesToHex s, ← parseType])
        else
          let k ← typeTail "" (← postfixType (some (par ["tstr", bytesToHex s])))
          expectSym "]"
          expectSym ":"
          entries := entries.push (par ["indexer", k, ← parseType])
      | some (.sym "["), _ =>
        advance
        let k ← parseType
        expectSym "]"
        expectSym ":"
        entries := entries.push (par ["indexer", k, ← parseType])
      | some (.name n), some (.sym ":") =>
        advance; advance
        entries := entries.push (par ["prop", n, ← parseType])
      | some (.name m), _ =>
        -- `read` / `write` modifier in front of an entry
        if m == "read" || m == "write" then
          advance
          match ← peek, ← peek2 with
          | some (.name n), some (.sym ":") =>
            advance; advance
            entries := entries.push (par ["mod", m, par ["prop", n, ← parseType]])
          | some (.sym "["), some (.str s) =>
            advance; advance
            if ← acceptSym "]" then
              expectSym ":"
              entries := entries.push (par ["mod", m, par ["lit", bytesToHex s, ← parseType]])
            else
              let k ← typeTail "" (← postfixType (some (par ["tstr", bytesToHex s])))
              expectSym "]"
              expectSym ":"
              entries := entries.push (par ["mod", m, par ["indexer", k, ← parseType]])
          | some (.sym "["), _ =>
            advance
            let k ← parseType
            expectSym "]"
            expectSym ":"
            entries := entries.push (par ["mod", m, par ["indexer", k, ← parseType]])
          | _, _ => fail "table type entry expected after the modifier"
        else fail "table type entry expected"
      | _, _ => fail "table type entry expected"
      if ← acceptSym "," then continue
      if ← acceptSym ";" then continue
      break
    expectSym "}"
    return par ("ttable" :: entries.toList)
  | some (.sym "<") =>
    let generics ← parseGenerics
    expectSym "("
    let (items, variadic) ← typeList
    expectSym ")"
    expectSym "->"
    let ret ← returnOrArg
    return par ["tfunc", par generics, par items, variadic, ret]
  | some (.sym "(") =>
    advance
    let (items, variadic) ← typeList
    expectSym ")"
    if ← acceptSym "->" then
      let ret ← returnOrArg
      return par ["tfunc", "()", par items, variadic, ret]
    if items.length == 1 && variadic == "-" && items.all (·.startsWith "(arg - ") then
      return par ["tparen", argType items.head!]
    fail "a type pack is not a type"
  | _ => fail "type expected"

partial def block : P String := do
  let mut items : Array String := #[]
  repeat
    let t ← peek
    if blockEnd t then break
    match t with
    | some (.kw "return") =>
      advance
      let mut values : List String := []
      if !(blockEnd (← peek)) && !(← isSym ";") then values ← exprList
      let _ ← acceptSym ";"
      items := items.push (par ("return" :: values))
      break
    | some (.kw "break") =>
      advance
      let _ ← acceptSym ";"
      items := items.push "break"
      if !(blockEnd (← peek)) then fail "break must end its block"
      break
    | some (.name "continue") =>
      -- Luau: `continue` is a statement only when it ends the block
      let nxt ← peek2
      if blockEnd nxt || nxt == some (.sym ";") then
        advance
        let _ ← acceptSym ";"
        items := items.push "continue"
        if !(blockEnd (← peek)) then fail "continue must end its block"
        break
      else
        items := items.push (← statement)
        let _ ← acceptSym ";"
    | _ =>
      items := items.push (← statement)
      let _ ← acceptSym ";"
  return par ("block" :: items.toList)

partial def statement : P String := do
  if ← isSym "@" then
    let attrs ← attributes
    let wrap (f : String) := par ["attrs", par attrs, f]
    if ← acceptKw "local" then
      expectKw "function"
      let n ← expectName
      let f ← funcBody
      return par ["localfn", n, wrap f]
    expectKw "function"
    let mut names := #[← expectName]
    let mut method := "-"
    repeat
      if ← acceptSym "." then names := names.push (← expectName) else break
    if ← acceptSym ":" then method ← expectName
    let f ← funcBody
    return par ["function", par names.toList, method, wrap f]
  match ← peek with
  | some (.kw "do") =>
    advance
    let b ← block
    expectKw "end"
    return par ["do", b]
  | some (.kw "while") =>
    advance
    let c ← expr 0
    expectKw "do"
    let b ← block
    expectKw "end"
    return par ["while", c, b]
  | some (.kw "repeat") =>
    advance
    let b ← block
    expectKw "until"
    let c ← expr 0
    return par ["repeat", b, c]
  | some (.kw "if") =>
    advance
    let mut branches : Array String := #[]
    let c ← expr 0
    expectKw "then"
    let b ← block
    branches := branches.push (par [c, b])
    let mut elseBlock := "-"
    repeat
      if ← acceptKw "elseif" then
        let c ← expr 0
        expectKw "then"
        let b ← block
        branches := branches.push (par [c, b])
      else if ← acceptKw "else" then
        elseBlock ← block
        break
      else break
    expectKw "end"
    return par ["if", par branches.toList, elseBlock]
  | some (.kw "for") =>
    advance
    let typedName : P (String × String) := do
      let n ← expectName
      let t ← if ← acceptSym ":" then parseType else pure "-"
      return (n, t)
    let first ← typedName
    if ← acceptSym "=" then
      let a ← expr 0
      expectSym ","
      let b ← expr 0
      let step ← if ← acceptSym "," then expr 0 else pure "-"
      expectKw "do"
      let body ← block
      expectKw "end"
      if first.2 != "-" then return par ["nfort", first.1, first.2, a, b, step, body]
      return par ["nfor", first.1, a, b, step, body]
    else
      let mut names := #[first]
      repeat
        if ← acceptSym "," then names := names.push (← typedName) else break
      expectKw "in"
      let es ← exprList
      expectKw "do"
      let body ← block
      expectKw "end"
      if names.any (fun p => p.2 != "-") then
        return par ["gfort", par (names.toList.map fun p => par [p.1, p.2]), par es, body]
      return par ["gfor", par (names.toList.map (·.1)), par es, body]
  | some (.kw "function") =>
    advance
    let mut names := #[← expectName]
    let mut method := "-"
    repeat
      if ← acceptSym "." then names := names.push (← expectName) else break
    if ← acceptSym ":" then method ← expectName
    let f ← funcBody
    return par ["function", par names.toList, method, f]
  | some (.kw "local") =>
    advance
    if ← acceptKw "function" then
      let n ← expectName
      let f ← funcBody
      return par ["localfn", n, f]
    let typedName : P (String × String) := do
      let n ← expectName
      let t ← if ← acceptSym ":" then parseType else pure "-"
      return (n, t)
    let mut names := #[← typedName]
    repeat
      if ← acceptSym "," then names := names.push (← typedName) else break
    let values ← if ← acceptSym "=" then exprList else pure []
    if names.any (fun p => p.2 != "-") then
      return par ["localt", par (names.toList.map fun p => par [p.1, p.2]), par values]
    return par ["local", par (names.toList.map (·.1)), par values]
  | _ =>
    -- Luau: `type X<..> = T` / `export type X = T` (`type` and `export` are contextual)
    -- Luau: `const a[: T], b = values` (`const` is contextual)
    if (← peek) == some (.name "const") then
      match ← peek2 with
      | some (.name _) =>
        advance
        let typedName : P (String × String) := do
          let n ← expectName
          let t ← if ← acceptSym ":" then parseType else pure "-"
          return (n, t)
        let mut names := #[← typedName]
        repeat
          if ← acceptSym "," then names := names.push (← typedName) else break
        let values ← if ← acceptSym "=" then exprList else pure []
        return par ["const", par (names.toList.map fun p => par [p.1, p.2]), par values]
      | _ => pure ()
    let declaration ← do
      match ← peek, ← peek2 with
      | some (.name "type"), some (.name _) => pure (some "loc")
      | some (.name "type"), some (.kw "function") => pure (some "loc")
      | some (.name "export"), some (.name "type") => advance; pure (some "exp")
      | _, _ => pure none
    if let some exported := declaration then
      advance
      if ← acceptKw "function" then
        let name ← expectName
        let f ← funcBody
        return par ["typefunction", exported, name, f]
      let name ← expectName
      let generics ← if ← isSym "<" then parseGenerics else pure []
      expectSym "="
      let t ← parseType
      return par ["typedecl", exported, name, par generics, t]
    let e ← primaryExpr
    let t ← peek
    match t.bind compoundOp with
    | some op =>
      if !(e.startsWith "(id " || e.startsWith "(field " || e.startsWith "(index ") then fail "cannot assign"
      advance
      let v ← expr 0
      return par ["compound", op, e, v]
    | none =>
      if t == some (.sym "=") || t == some (.sym ",") then
        let mut vars := #[e]
        repeat
          if ← acceptSym "," then vars := vars.push (← primaryExpr) else break
        expectSym "="
        let values ← exprList
        for v in vars do
          if !(v.startsWith "(id " || v.startsWith "(field " || v.startsWith "(index ") then fail "cannot assign"
        return par ["assign", par vars.toList, par values]
      else
        if e.startsWith "(call " || e.startsWith "(mcall " || e.startsWith "(mcallinst " then return par ["callst", e]
        else fail "syntax error: expression is not a statement"
end

/-- bytes → block S-expression, or `err <message>` -/
def parseChunk (bs : List UInt8) : String :=
  match lex bs 1 [] #[] with
  | .error e => "err lex: " ++ e
  | .ok toks =>
    match (block.run { toks := toks.toList, lastLine := 1 }) with
    | .error e => "err parse: " ++ e
    | .ok (tree, rest) =>
      if rest.toks.isEmpty then tree
      else "err parse: trailing tokens `" ++ " ".intercalate ((rest.toks.take 3).map (tokStr ·.1)) ++ "`"

end DarkluaModel.C02.Parse
