/-
C02 — helper lemmas for Thm.lean (core Lean only).
-/
import DarkluaModel.C02.Model
import DarkluaModel.C02.Spec
import DarkluaModel.C02.Writer
namespace DarkluaModel.C02

theorem BinOp.mem_all (o : BinOp) : o ∈ BinOp.all := by cases o <;> decide
theorem UnOp.mem_all (o : UnOp) : o ∈ UnOp.all := by cases o <;> decide

end DarkluaModel.C02
