/-
C02 — helper lemmas for Thm.lean (core Lean only).
-/
import DarkluaModel.C02.Model
import DarkluaModel.C02.Spec
import DarkluaModel.C02.Writer
namespace DarkluaModel.C02

theorem BinOp.mem_all (o : BinOp) : o ∈ BinOp.all := by cases o <;> decide
theorem UnOp.mem_all (o : UnOp) : o ∈ UnOp.all := by cases o <;> decide

/-! ### the fueled reference parser, "for all sufficiently large fuel"

`SubEv limit ts out`: `sub f limit ts = some out` for every `f` above some bound (same for
`loop`, `simple`). The lemmas below are the parser's clauses read as inference rules; they hide
the fuel bookkeeping from the induction over expressions. -/

def SubEv (limit : Nat) (ts : List Tok) (out : E × List Tok) : Prop :=
  ∃ F, ∀ f, F ≤ f → sub f limit ts = some out
def LoopEv (limit : Nat) (e : E) (ts : List Tok) (out : E × List Tok) : Prop :=
  ∃ F, ∀ f, F ≤ f → loop f limit e ts = some out
def SimpleEv (ts : List Tok) (out : E × List Tok) : Prop :=
  ∃ F, ∀ f, F ≤ f → simple f ts = some out

theorem loopEv_nil (limit : Nat) (e : E) : LoopEv limit e [] (e, []) := by
  refine ⟨1, fun f hf => ?_⟩
  obtain ⟨f', rfl⟩ : ∃ f', f = f' + 1 := ⟨f - 1, by omega⟩
  simp [loop]

theorem loopEv_stop {limit : Nat} {e : E} {t : Tok} {ts : List Tok}
    (h : ∀ o, binOfTok t = some o → leftPrio o ≤ limit) : LoopEv limit e (t :: ts) (e, t :: ts) := by
  refine ⟨1, fun f hf => ?_⟩
  obtain ⟨f', rfl⟩ : ∃ f', f = f' + 1 := ⟨f - 1, by omega⟩
  rw [loop]
  cases hb : binOfTok t with
  | none => simp
  | some o =>
    have := h o hb
    have : ¬ limit < leftPrio o := by omega
    simp [this]

theorem loopEv_step {limit : Nat} {e r : E} {t : Tok} {ts rest : List Tok} {o : BinOp} {out}
    (hb : binOfTok t = some o) (hl : limit < leftPrio o)
    (hs : SubEv (rightPrio o) ts (r, rest)) (hk : LoopEv limit (.bin o e r) rest out) :
    LoopEv limit e (t :: ts) out := by
  obtain ⟨F1, h1⟩ := hs
  obtain ⟨F2, h2⟩ := hk
  refine ⟨max F1 F2 + 1, fun f hf => ?_⟩
  obtain ⟨f', rfl⟩ : ∃ f', f = f' + 1 := ⟨f - 1, by omega⟩
  rw [loop]
  simp only [hb, hl, if_true]
  rw [h1 f' (by omega)]
  exact h2 f' (by omega)

theorem subEv_unary {limit : Nat} {e : E} {t : Tok} {ts r : List Tok} {u : UnOp} {out}
    (hu : unOfTok t = some u) (hs : SubEv unaryPrio ts (e, r)) (hk : LoopEv limit (.un u e) r out) :
    SubEv limit (t :: ts) out := by
  obtain ⟨F1, h1⟩ := hs
  obtain ⟨F2, h2⟩ := hk
  refine ⟨max F1 F2 + 1, fun f hf => ?_⟩
  obtain ⟨f', rfl⟩ : ∃ f', f = f' + 1 := ⟨f - 1, by omega⟩
  rw [sub]
  simp only [hu]
  rw [h1 f' (by omega)]
  exact h2 f' (by omega)

theorem subEv_simple {limit : Nat} {e : E} {t : Tok} {ts r : List Tok} {out}
    (hu : unOfTok t = none) (hs : SimpleEv (t :: ts) (e, r)) (hk : LoopEv limit e r out) :
    SubEv limit (t :: ts) out := by
  obtain ⟨F1, h1⟩ := hs
  obtain ⟨F2, h2⟩ := hk
  refine ⟨max F1 F2 + 1, fun f hf => ?_⟩
  obtain ⟨f', rfl⟩ : ∃ f', f = f' + 1 := ⟨f - 1, by omega⟩
  rw [sub]
  simp only [hu]
  rw [h1 f' (by omega)]
  exact h2 f' (by omega)

theorem simpleEv_atom {k : Nat} {r : List Tok} {out} (h : castSuffix (.atom k) r = some out) :
    SimpleEv (.atom k :: r) out := by
  refine ⟨1, fun f hf => ?_⟩
  obtain ⟨f', rfl⟩ : ∃ f', f = f' + 1 := ⟨f - 1, by omega⟩
  rw [simple]; exact h

theorem simpleEv_paren {e : E} {r r' : List Tok} {out}
    (hs : SubEv 0 r (e, .rp :: r')) (h : castSuffix (.paren e) r' = some out) :
    SimpleEv (.lp :: r) out := by
  obtain ⟨F1, h1⟩ := hs
  refine ⟨F1 + 1, fun f hf => ?_⟩
  obtain ⟨f', rfl⟩ : ∃ f', f = f' + 1 := ⟨f - 1, by omega⟩
  rw [simple]
  rw [h1 f' (by omega)]
  exact h

theorem simpleEv_if {c a b : E} {r r1 r2 r3 : List Tok}
    (hc : SubEv 0 r (c, .kthen :: r1)) (ha : SubEv 0 r1 (a, .kelse :: r2)) (hb : SubEv 0 r2 (b, r3)) :
    SimpleEv (.kif :: r) (.ifexp c a b, r3) := by
  obtain ⟨F1, h1⟩ := hc
  obtain ⟨F2, h2⟩ := ha
  obtain ⟨F3, h3⟩ := hb
  refine ⟨max F1 (max F2 F3) + 1, fun f hf => ?_⟩
  obtain ⟨f', rfl⟩ : ∃ f', f = f' + 1 := ⟨f - 1, by omega⟩
  rw [simple]
  simp only [h1 f' (by omega), h2 f' (by omega), h3 f' (by omega)]

/-! ### well-parenthesised trees read back as themselves -/

/-- how strongly the written form resists an operator arriving from the right: the smallest
right priority on its (unparenthesised) right edge. -/
def rprio : E → Nat
  | .atom _ | .paren _ | .cast _ _ => 100
  | .negnum _ => unaryPrio
  | .ifexp _ _ _ => 0
  | .un _ x => min unaryPrio (rprio x)
  | .bin o _ r => min (rightPrio o) (rprio r)

/-- the smallest left priority on the (unparenthesised) left edge: `sub limit` reads the whole
expression only if `limit < lprio`. -/
def lprio : E → Nat
  | .bin o l _ => min (leftPrio o) (lprio l)
  | _ => 100

def isSimple : E → Bool
  | .atom _ | .paren _ => true
  | _ => false

/-- "well parenthesised for the reference grammar": every operand can stand where it is. Defined
with the reference priorities only. -/
def WP : E → Bool
  | .atom _ | .negnum _ => true
  | .paren e => WP e
  | .ifexp c a b => WP c && WP a && WP b
  | .cast e _ => WP e && isSimple e
  | .un _ x => WP x && decide (unaryPrio < lprio x)
  | .bin o l r => WP l && WP r && decide (leftPrio o ≤ rprio l) && decide (rightPrio o < lprio r)

def headLeft : List Tok → Nat
  | t :: _ => match binOfTok t with
    | some o => leftPrio o
    | none => 0
  | [] => 0

def noCast : List Tok → Bool
  | .dcolon :: _ => false
  | _ => true

theorem castSuffix_noCast (e : E) {r : List Tok} (h : noCast r = true) : castSuffix e r = some (e, r) := by
  cases r with
  | nil => rfl
  | cons t ts => cases t <;> simp_all [noCast, castSuffix]

theorem loopEv_of_headLeft {limit : Nat} (e : E) {rest : List Tok} (h : headLeft rest ≤ limit) :
    LoopEv limit e rest (e, rest) := by
  cases rest with
  | nil => exact loopEv_nil limit e
  | cons t ts =>
    apply loopEv_stop
    intro o ho
    simpa [headLeft, ho] using h

theorem binOfTok_tokOfBin (o : BinOp) : binOfTok (tokOfBin o) = some o := by cases o <;> rfl
theorem unOfTok_tokOfUn (u : UnOp) : unOfTok (tokOfUn u) = some u := by cases u <;> rfl
theorem noCast_tokOfBin (o : BinOp) (ts : List Tok) : noCast (tokOfBin o :: ts) = true := by cases o <;> rfl
theorem leftPrio_pos (o : BinOp) : 0 < leftPrio o := by cases o <;> decide
theorem lprio_pos (t : E) : 0 < lprio t := by
  induction t with
  | bin o l r ihl _ => simp only [lprio]; have := leftPrio_pos o; omega
  | _ => simp [lprio]

/-- Main lemma: reading the tokens of a well-parenthesised tree `t` followed by `rest` at
`limit` is the same as having read `t` and continuing the operator loop on `rest`. -/
theorem sub_flat : (t : E) → WP t = true → ∀ (limit : Nat) (rest : List Tok) (out : E × List Tok),
    limit < lprio t → headLeft rest ≤ rprio t → noCast rest = true →
    LoopEv limit (reify t) rest out → SubEv limit (flat t ++ rest) out
  | .atom k, _, limit, rest, out, _, _, hc, hk => by
    simp only [flat, List.cons_append, List.nil_append]
    exact subEv_simple rfl (simpleEv_atom (castSuffix_noCast _ hc)) hk
  | .negnum k, _, limit, rest, out, _, hr, hc, hk => by
    simp only [flat, List.cons_append, List.nil_append]
    refine subEv_unary (u := .neg) rfl ?_ hk
    exact subEv_simple rfl (simpleEv_atom (castSuffix_noCast _ hc))
      (loopEv_of_headLeft _ (by simpa [rprio] using hr))
  | .paren e, hw, limit, rest, out, _, _, hc, hk => by
    have hw' : WP e = true := by simpa [WP] using hw
    have ih := sub_flat e hw' 0 (.rp :: rest) (reify e, .rp :: rest) (lprio_pos e)
      (by simp [headLeft, binOfTok]) rfl (loopEv_stop (by simp [binOfTok]))
    have : flat (.paren e) ++ rest = .lp :: (flat e ++ .rp :: rest) := by simp [flat]
    rw [this]
    exact subEv_simple rfl (simpleEv_paren ih (castSuffix_noCast _ hc)) hk
  | .ifexp c a b, hw, limit, rest, out, _, hr, hc, hk => by
    have hw' : WP c = true ∧ WP a = true ∧ WP b = true := by simpa [WP, and_assoc] using hw
    have h0 : headLeft rest = 0 := by simpa [rprio] using hr
    have : flat (.ifexp c a b) ++ rest = .kif :: (flat c ++ .kthen :: (flat a ++ .kelse :: (flat b ++ rest))) := by
      simp [flat]
    rw [this]
    have ihc := sub_flat c hw'.1 0 (.kthen :: (flat a ++ .kelse :: (flat b ++ rest))) (reify c, _) (lprio_pos c)
      (by simp [headLeft, binOfTok]) rfl (loopEv_stop (by simp [binOfTok]))
    have iha := sub_flat a hw'.2.1 0 (.kelse :: (flat b ++ rest)) (reify a, _) (lprio_pos a)
      (by simp [headLeft, binOfTok]) rfl (loopEv_stop (by simp [binOfTok]))
    have ihb := sub_flat b hw'.2.2 0 rest (reify b, rest) (lprio_pos b)
      (by omega) hc (loopEv_of_headLeft _ (by omega))
    exact subEv_simple rfl (simpleEv_if ihc iha ihb) hk
  | .cast (.atom k) t, _, limit, rest, out, _, _, _, hk => by
    simp only [flat, List.cons_append, List.nil_append]
    exact subEv_simple rfl (simpleEv_atom rfl) hk
  | .cast (.paren e) t, hw, limit, rest, out, _, _, _, hk => by
    have hw' : WP e = true := by simpa [WP, isSimple] using hw
    have ih := sub_flat e hw' 0 (.rp :: .dcolon :: .tname t :: rest) (reify e, _) (lprio_pos e)
      (by simp [headLeft, binOfTok]) rfl (loopEv_stop (by simp [binOfTok]))
    have : flat (.cast (.paren e) t) ++ rest = .lp :: (flat e ++ .rp :: .dcolon :: .tname t :: rest) := by
      simp [flat]
    rw [this]
    exact subEv_simple rfl (simpleEv_paren ih rfl) hk
  | .cast (.negnum _) _, hw, _, _, _, _, _, _, _ => by simp [WP, isSimple] at hw
  | .cast (.ifexp _ _ _) _, hw, _, _, _, _, _, _, _ => by simp [WP, isSimple] at hw
  | .cast (.cast _ _) _, hw, _, _, _, _, _, _, _ => by simp [WP, isSimple] at hw
  | .cast (.un _ _) _, hw, _, _, _, _, _, _, _ => by simp [WP, isSimple] at hw
  | .cast (.bin _ _ _) _, hw, _, _, _, _, _, _, _ => by simp [WP, isSimple] at hw
  | .un u x, hw, limit, rest, out, _, hr, hc, hk => by
    have hw' : WP x = true ∧ unaryPrio < lprio x := by simpa [WP] using hw
    have hr' : headLeft rest ≤ unaryPrio ∧ headLeft rest ≤ rprio x := by
      simp only [rprio] at hr; omega
    have ih := sub_flat x hw'.1 unaryPrio rest (reify x, rest) hw'.2 hr'.2 hc
      (loopEv_of_headLeft _ hr'.1)
    simp only [flat, List.cons_append]
    exact subEv_unary (unOfTok_tokOfUn u) ih hk
  | .bin o l r, hw, limit, rest, out, hl, hr, hc, hk => by
    have hw' : (WP l = true ∧ WP r = true) ∧ leftPrio o ≤ rprio l ∧ rightPrio o < lprio r := by
      simpa [WP, and_assoc] using hw
    have hl' : limit < leftPrio o ∧ limit < lprio l := by simp only [lprio] at hl; omega
    have hr' : headLeft rest ≤ rightPrio o ∧ headLeft rest ≤ rprio r := by
      simp only [rprio] at hr; omega
    have ihr := sub_flat r hw'.1.2 (rightPrio o) rest (reify r, rest) hw'.2.2 hr'.2 hc
      (loopEv_of_headLeft _ hr'.1)
    have : flat (.bin o l r) ++ rest = flat l ++ (tokOfBin o :: (flat r ++ rest)) := by simp [flat]
    rw [this]
    refine sub_flat l hw'.1.1 limit _ out hl'.2 ?_ (noCast_tokOfBin o _) ?_
    · simp [headLeft, binOfTok_tokOfBin, hw'.2.1]
    · exact loopEv_step (binOfTok_tokOfBin o) hl'.1 ihr hk

/-! ### darklua's decisions produce well-parenthesised trees -/

def wrapIf (b : Bool) (e : E) : E := if b then .paren e else e

/-- the printer's parenthesis decisions as a tree transform: `printE e = flat (addParens e)` -/
def addParens : E → E
  | .atom k => .atom k
  | .negnum k => .negnum k
  | .paren e => .paren (addParens e)
  | .ifexp c a b => .ifexp (addParens c) (addParens a) (addParens b)
  | .cast e t => .cast (wrapIf (castNeedsParentheses e) (addParens e)) t
  | .un u x => .un u (wrapIf (unaryNeedsParentheses x) (addParens x))
  | .bin o l r =>
    .bin o (wrapIf (leftNeedsParentheses o l) (addParens l)) (wrapIf (rightNeedsParentheses o r) (addParens r))

theorem flat_wrapIf (b : Bool) (e : E) :
    flat (wrapIf b e) = if b then [.lp] ++ flat e ++ [.rp] else flat e := by
  cases b <;> simp [wrapIf, flat]

theorem printE_eq_flat (e : E) : printE e = flat (addParens e) := by
  induction e with
  | atom k => rfl
  | negnum k => rfl
  | paren e ih => simp [printE, addParens, flat, ih]
  | ifexp c a b ihc iha ihb => simp [printE, addParens, flat, ihc, iha, ihb]
  | cast e t ih => simp [printE, addParens, flat, flat_wrapIf, ih]
  | un u x ih => simp [printE, addParens, flat, flat_wrapIf, ih]
  | bin o l r ihl ihr => simp [printE, addParens, flat, flat_wrapIf, ihl, ihr]

theorem strip_norm_reify_wrapIf (b : Bool) (e : E) :
    strip (norm (reify (wrapIf b e))) = strip (norm (reify e)) := by
  cases b <;> simp [wrapIf, reify, norm, strip]

theorem norm_reify_addParens (e : E) : norm (reify (addParens e)) = norm (reify e) := by
  induction e with
  | atom k => rfl
  | negnum k => rfl
  | paren e ih => simp [addParens, reify, norm, ih]
  | ifexp c a b ihc iha ihb => simp [addParens, reify, norm, ihc, iha, ihb]
  | cast e t ih => simp [addParens, reify, norm, strip_norm_reify_wrapIf, ih]
  | un u x ih => simp [addParens, reify, norm, strip_norm_reify_wrapIf, ih]
  | bin o l r ihl ihr => simp [addParens, reify, norm, strip_norm_reify_wrapIf, ihl, ihr]

/-! table facts linking darklua's decisions to the reference priorities (each by `decide`) -/

theorem T1 : ∀ o ∈ BinOp.all, ∀ q ∈ BinOp.all,
    (if o.isLeftAssociative then o.precedes q else !(q.precedes o)) = false →
      leftPrio o ≤ leftPrio q ∧ leftPrio o ≤ min (rightPrio q) unaryPrio := by decide
theorem T2 : ∀ o ∈ BinOp.all, ∀ q ∈ BinOp.all,
    (if o.isRightAssociative then o.precedes q else !(q.precedes o)) = false →
      rightPrio o ≤ rightPrio q ∧ rightPrio o < leftPrio q := by decide
theorem T3 (o : BinOp) : o.precedesUnaryExpression = false → leftPrio o ≤ unaryPrio := by
  cases o <;> decide
theorem T5 (q : BinOp) : q.precedesUnaryExpression = true → unaryPrio < leftPrio q ∧ unaryPrio ≤ rightPrio q := by
  cases q <;> decide
theorem leftPrio_le (o : BinOp) : leftPrio o ≤ 100 := by cases o <;> decide
theorem rightPrio_lt (o : BinOp) : rightPrio o < 100 := by cases o <;> decide

def lpTop : E → Nat
  | .bin o _ _ => leftPrio o
  | _ => 100

theorem leftNeeds_bin_false {o q : BinOp} {l r : E} (h : leftNeedsParentheses o (.bin q l r) = false) :
    leftPrio o ≤ leftPrio q ∧ leftPrio o ≤ min (rightPrio q) unaryPrio := by
  apply T1 o (BinOp.mem_all o) q (BinOp.mem_all q)
  simp only [leftNeedsParentheses, Bool.or_eq_false_iff] at h
  exact h.1.1

theorem rightNeeds_bin_false {o q : BinOp} {l r : E} (h : rightNeedsParentheses o (.bin q l r) = false) :
    rightPrio o ≤ rightPrio q ∧ rightPrio o < leftPrio q :=
  T2 o (BinOp.mem_all o) q (BinOp.mem_all q) (by simpa [rightNeedsParentheses] using h)

theorem lprio_wrapIf (b : Bool) (e : E) : lprio (wrapIf b e) = if b then 100 else lprio e := by
  cases b <;> simp [wrapIf, lprio]
theorem rprio_wrapIf (b : Bool) (e : E) : rprio (wrapIf b e) = if b then 100 else rprio e := by
  cases b <;> simp [wrapIf, rprio]
theorem WP_wrapIf (b : Bool) (e : E) : WP (wrapIf b e) = WP e := by
  cases b <;> simp [wrapIf, WP]

theorem lprio_addParens (e : E) : lprio (addParens e) = lpTop e := by
  induction e with
  | bin o l r ihl _ =>
    simp only [addParens, lprio, lpTop, lprio_wrapIf]
    have := leftPrio_le o
    cases hn : leftNeedsParentheses o l with
    | true => simp; omega
    | false =>
      simp only [Bool.false_eq_true, if_false, ihl]
      cases l with
      | bin q l' r' => have := (leftNeeds_bin_false hn).1; simp only [lpTop]; omega
      | _ => simp only [lpTop]; omega
  | _ => simp [addParens, lprio, lpTop]

def rfloor : E → Nat
  | .bin q _ _ => min (rightPrio q) unaryPrio
  | .un _ _ | .negnum _ => unaryPrio
  | .ifexp _ _ _ => 0
  | _ => 100

theorem rprio_addParens (e : E) : endsWithIfExpression e = false → rfloor e ≤ rprio (addParens e) := by
  induction e with
  | atom k => intro _; simp [addParens, rprio, rfloor]
  | negnum k => intro _; simp [addParens, rprio, rfloor]
  | paren e _ => intro _; simp [addParens, rprio, rfloor]
  | cast e t _ => intro _; simp [addParens, rprio, rfloor]
  | ifexp c a b _ _ _ => intro h; simp [endsWithIfExpression] at h
  | un u x ih =>
    intro h
    simp only [endsWithIfExpression] at h
    simp only [addParens, rprio, rfloor, rprio_wrapIf]
    have hu8 : unaryPrio = 8 := rfl
    cases hn : unaryNeedsParentheses x with
    | true => simp [unaryPrio]
    | false =>
      simp only [Bool.false_eq_true, if_false]
      have := ih h
      cases x with
      | bin q l r =>
        have hq : q.precedesUnaryExpression = true := by simpa [unaryNeedsParentheses] using hn
        have := T5 q hq
        simp only [rfloor] at *; omega
      | ifexp c a b => simp [endsWithIfExpression] at h
      | _ => simp only [rfloor] at *; omega
  | bin q l r _ ihr =>
    intro h
    simp only [endsWithIfExpression] at h
    simp only [addParens, rprio, rfloor, rprio_wrapIf]
    have := rightPrio_lt q
    cases hn : rightNeedsParentheses q r with
    | true => simp; omega
    | false =>
      simp only [Bool.false_eq_true, if_false]
      have := ihr h
      cases r with
      | bin q' l' r' => have := (rightNeeds_bin_false hn).1; simp only [rfloor] at *; omega
      | ifexp c a b => simp [endsWithIfExpression] at h
      | _ => simp only [rfloor] at *; omega

theorem WP_addParens (e : E) : WP (addParens e) = true := by
  induction e with
  | atom k => rfl
  | negnum k => rfl
  | paren e ih => simpa [addParens, WP] using ih
  | ifexp c a b ihc iha ihb => simp [addParens, WP, ihc, iha, ihb]
  | cast e t ih =>
    simp only [addParens, WP, WP_wrapIf, ih, Bool.true_and]
    cases e <;> simp_all [castNeedsParentheses, wrapIf, isSimple, addParens]
  | un u x ih =>
    simp only [addParens, WP, WP_wrapIf, ih, Bool.true_and, lprio_wrapIf, decide_eq_true_eq]
    cases hn : unaryNeedsParentheses x with
    | true => simp [unaryPrio]
    | false =>
      simp only [Bool.false_eq_true, if_false, lprio_addParens]
      cases x with
      | bin q l r =>
        have hq : q.precedesUnaryExpression = true := by simpa [unaryNeedsParentheses] using hn
        simpa [lpTop] using (T5 q hq).1
      | _ => simp [lpTop, unaryPrio]
  | bin o l r ihl ihr =>
    simp only [addParens, WP, WP_wrapIf, ihl, ihr, Bool.true_and, lprio_wrapIf, rprio_wrapIf,
      Bool.and_eq_true, decide_eq_true_eq]
    have := leftPrio_le o
    have := rightPrio_lt o
    constructor
    · cases hn : leftNeedsParentheses o l with
      | true => simp; omega
      | false =>
        simp only [Bool.false_eq_true, if_false]
        have hif : endsWithIfExpression l = false := by
          simp only [leftNeedsParentheses, Bool.or_eq_false_iff] at hn
          exact hn.1.2
        have := rprio_addParens l hif
        cases l with
        | bin q l' r' => have := (leftNeeds_bin_false hn).2; simp only [rfloor] at *; omega
        | un u x =>
          have : o.precedesUnaryExpression = false := by
            simp only [leftNeedsParentheses, Bool.or_eq_false_iff] at hn
            exact hn.1.1
          have := T3 o this
          simp only [rfloor] at *; omega
        | negnum k =>
          have : o.precedesUnaryExpression = false := by
            simp only [leftNeedsParentheses, Bool.or_eq_false_iff] at hn
            exact hn.1.1
          have := T3 o this
          simp only [rfloor] at *; omega
        | ifexp c a b => simp [endsWithIfExpression] at hif
        | _ => simp only [rfloor] at *; omega
    · cases hn : rightNeedsParentheses o r with
      | true => simp; omega
      | false =>
        simp only [Bool.false_eq_true, if_false, lprio_addParens]
        cases r with
        | bin q l' r' => have := (rightNeeds_bin_false hn).2; simpa [lpTop] using this
        | _ => simp only [lpTop]; omega

/-- the reference parser reads the tokens of a well-parenthesised tree back as that tree -/
theorem parse_of_WP (t : E) (h : WP t = true) :
    ∃ F, ∀ f, F ≤ f → parseE f (flat t) = some (reify t) := by
  have := sub_flat t h 0 [] (reify t, []) (lprio_pos t) (by simp [headLeft]) rfl (loopEv_nil 0 _)
  obtain ⟨F, hF⟩ := this
  refine ⟨F, fun f hf => ?_⟩
  have := hF f hf
  simp only [List.append_nil] at this
  simp [parseE, this]

/-! ### the writer state machine only ever adds whitespace, and adds it where asked -/

def isWs (c : Nat) : Bool := c == SP || c == NL
def eraseWs (l : List Nat) : List Nat := l.filter fun c => !isWs c

/-- what an operation writes besides separators -/
def content : Op → List Nat
  | .pushStr s | .rawPushStr s | .pushStrAndBreakIf s => s
  | .pushChar c | .mergeChar c | .rawPushChar c | .pushCharAndBreakIf c => [c]
  | _ => []

/-- the condition under which darklua intends a separator before the content -/
def mustBreak (w : W) : Op → Bool
  | .pushStr (c :: _) => needsSpace w c
  | .pushChar c => needsSpace w c
  | .pushSpaceIfNeeded c _ => needsSpace w c
  | .pushStrAndBreakIf s => breakPredicate s (lastPushStr w)
  | .pushCharAndBreakIf c => breakPredicate [c] (lastPushStr w)
  | _ => false

def Op.isMerge : Op → Bool
  | .mergeChar _ => true
  | _ => false

theorem eraseWs_append (a b : List Nat) : eraseWs (a ++ b) = eraseWs a ++ eraseWs b := by
  simp [eraseWs]
theorem eraseWs_reverse (a : List Nat) : eraseWs a.reverse = (eraseWs a).reverse := by
  simp [eraseWs, List.filter_reverse]
theorem eraseWs_replicate_sp (n : Nat) : eraseWs (List.replicate n SP) = [] := by
  simp [eraseWs, isWs]
theorem eraseWs_dropWhile_sp (l : List Nat) : eraseWs (l.dropWhile (· == SP)) = eraseWs l := by
  induction l with
  | nil => rfl
  | cons a t ih =>
    rw [List.dropWhile_cons]
    by_cases h : (a == SP) = true
    · have ha : a = SP := by simpa using h
      subst ha
      simpa [eraseWs, isWs] using ih
    · simp [h]

/-- a break step only adds whitespace on top of the output and leaves `rout` otherwise alone -/
structure AddsWs (w w' : W) : Prop where
  sep : ∃ s, w'.rout = s ++ w.rout ∧ ∀ c ∈ s, isWs c = true

theorem addsWs_refl (w : W) : AddsWs w w := ⟨⟨[], rfl, by simp⟩⟩
theorem addsWs_trans {a b c : W} (h1 : AddsWs a b) (h2 : AddsWs b c) : AddsWs a c := by
  obtain ⟨s1, e1, w1⟩ := h1.sep
  obtain ⟨s2, e2, w2⟩ := h2.sep
  refine ⟨⟨s2 ++ s1, by rw [e2, e1, List.append_assoc], ?_⟩⟩
  intro c hc
  rcases List.mem_append.mp hc with h | h
  · exact w2 c h
  · exact w1 c h

theorem addsWs_newLine (w : W) : AddsWs w (pushNewLine w) := ⟨⟨[NL], rfl, by simp [isWs]⟩⟩
theorem addsWs_space (w : W) : AddsWs w (pushSpace w) := ⟨⟨[SP], rfl, by simp [isWs]⟩⟩
theorem addsWs_indentation (w : W) : AddsWs w (writeIndentation w) :=
  ⟨⟨(List.replicate (4 * w.indent) SP).reverse, rfl, by simp [isWs]⟩⟩
theorem addsWs_indentIf (w : W) : AddsWs w (indentIfLineStart w) := by
  unfold indentIfLineStart; split
  · exact addsWs_indentation w
  · exact addsWs_refl w

theorem addsWs_newLineIfNeeded (w : W) (n : Nat) : AddsWs w (pushNewLineIfNeeded w n) := by
  unfold pushNewLineIfNeeded
  refine addsWs_trans (addsWs_indentIf w) ?_
  simp only []
  split
  · split
    · exact addsWs_newLine _
    · split
      · exact addsWs_newLine _
      · exact addsWs_refl _
  · exact addsWs_refl _

theorem addsWs_spaceIfNeeded (w : W) (c n : Nat) : AddsWs w (pushSpaceIfNeeded w c n) := by
  unfold pushSpaceIfNeeded
  refine addsWs_trans (addsWs_indentIf w) ?_
  simp only []
  split
  · split
    · exact addsWs_newLine _
    · split
      · split
        · exact addsWs_newLine _
        · exact addsWs_space _
      · split
        · exact addsWs_newLine _
        · exact addsWs_refl _
  · split
    · exact addsWs_space _
    · exact addsWs_refl _


/-- whitespace was added, and at least one character of it -/
def AddsWsNE (w w' : W) : Prop := ∃ s, w'.rout = s ++ w.rout ∧ (∀ c ∈ s, isWs c = true) ∧ s ≠ []

theorem addsWsNE_then {a b c : W} (h1 : AddsWsNE a b) (h2 : AddsWs b c) : AddsWsNE a c := by
  obtain ⟨s1, e1, w1, n1⟩ := h1
  obtain ⟨s2, e2, w2⟩ := h2.sep
  refine ⟨s2 ++ s1, by rw [e2, e1, List.append_assoc], ?_, by simp [n1]⟩
  intro c hc
  rcases List.mem_append.mp hc with h | h
  · exact w2 c h
  · exact w1 c h

theorem addsWsNE_newLine (w : W) : AddsWsNE w (pushNewLine w) := ⟨[NL], rfl, by simp [isWs], by simp⟩
theorem addsWsNE_space (w : W) : AddsWsNE w (pushSpace w) := ⟨[SP], rfl, by simp [isWs], by simp⟩

/-- `push_space_if_needed` after the indentation prologue -/
def psinCore (w : W) (next n : Nat) : W :=
  if canAddNewLine w then
    if w.lineLen ≥ w.span then pushNewLine w
    else
      let total := w.lineLen + n
      if needsSpace w next then
        if total + 1 > w.span then pushNewLine w else pushSpace w
      else if total > w.span then pushNewLine w
      else w
  else if needsSpace w next then pushSpace w
  else w

theorem pushSpaceIfNeeded_eq (w : W) (c n : Nat) :
    pushSpaceIfNeeded w c n = psinCore (indentIfLineStart w) c n := rfl

theorem addsWs_psinCore (w : W) (c n : Nat) : AddsWs w (psinCore w c n) := by
  unfold psinCore
  split
  · split
    · exact addsWs_newLine _
    · simp only []
      split
      · split
        · exact addsWs_newLine _
        · exact addsWs_space _
      · split
        · exact addsWs_newLine _
        · exact addsWs_refl _
  · split
    · exact addsWs_space _
    · exact addsWs_refl _

theorem addsWsNE_psinCore (w : W) (c n : Nat) (h : needsSpace w c = true) : AddsWsNE w (psinCore w c n) := by
  unfold psinCore
  simp only [h, if_true]
  repeat' split
  all_goals first | exact addsWsNE_newLine _ | exact addsWsNE_space _

/-- `push_space_if_needed` writes at least one whitespace character whenever
`should_break_with_space (last written char) next` holds — for every column span (0 and 1
included), indentation level and `can_add_new_line` stack. -/
theorem spaceIfNeeded_separates (w : W) (c n : Nat) (h : needsSpace w c = true) :
    AddsWsNE w (pushSpaceIfNeeded w c n) := by
  rw [pushSpaceIfNeeded_eq]
  unfold indentIfLineStart
  split
  · -- indentation written: 4 * indent > 0 spaces
    rename_i hc
    have hi : w.indent ≠ 0 := by
      simp only [Bool.and_eq_true, bne_iff_ne] at hc; exact hc.2
    have : AddsWsNE w (writeIndentation w) := by
      refine ⟨(List.replicate (4 * w.indent) SP).reverse, rfl, by simp [isWs], ?_⟩
      intro he
      have := congrArg List.length he
      simp at this
      omega
    exact addsWsNE_then this (addsWs_psinCore _ c n)
  · exact addsWsNE_psinCore w c n h


theorem AddsWs.toSep {w w' : W} (h : AddsWs w w') (hb : Bool) (hne : hb = true → AddsWsNE w w') :
    ∃ sep, w'.rout = sep ++ w.rout ∧ (∀ c ∈ sep, isWs c = true) ∧ (hb = true → sep ≠ []) := by
  cases hb with
  | false => obtain ⟨s, e, ws⟩ := h.sep; exact ⟨s, e, ws, by simp⟩
  | true => obtain ⟨s, e, ws, ne⟩ := hne rfl; exact ⟨s, e, ws, fun _ => ne⟩

theorem breakIf_sep (w : W) (p : Bool) (n : Nat) :
    let w' := if p then (if fits w (1 + n) then pushSpace w else pushNewLine w)
              else if !fits w n then pushNewLine w else w
    ∃ sep, w'.rout = sep ++ w.rout ∧ (∀ c ∈ sep, isWs c = true) ∧ (p = true → sep ≠ []) := by
  intro w'
  cases p with
  | true =>
    simp only [w', if_true]
    split
    · exact ⟨[SP], rfl, by simp [isWs], by simp⟩
    · exact ⟨[NL], rfl, by simp [isWs], by simp⟩
  | false =>
    simp only [w', Bool.false_eq_true, if_false]
    split
    · exact ⟨[NL], rfl, by simp [isWs], by simp⟩
    · exact ⟨[], rfl, by simp, by simp⟩

/-- Every operation except `merge_char` appends `separator ++ content` to the output, where the
separator consists of spaces/newlines only and is non-empty whenever darklua's criterion for
that operation asks for a break. -/
theorem step_appends (w : W) (op : Op) (hm : op.isMerge = false) :
    ∃ sep, (step w op).rout = (content op).reverse ++ (sep ++ w.rout) ∧ (∀ c ∈ sep, isWs c = true) ∧
      (mustBreak w op = true → sep ≠ []) := by
  cases op with
  | mergeChar c => simp [Op.isMerge] at hm
  | pushStr s =>
    cases s with
    | nil => exact ⟨[], by simp [step, pushStr, content], by simp, by simp [mustBreak]⟩
    | cons c t =>
      obtain ⟨sep, e, ws, ne⟩ := (addsWs_spaceIfNeeded w c (c :: t).length).toSep (needsSpace w c)
        (spaceIfNeeded_separates w c _)
      simp only [List.length_cons] at e
      exact ⟨sep, by simp [step, pushStr, rawPushStr, content, e], ws, by simpa [mustBreak] using ne⟩
  | pushChar c =>
    obtain ⟨sep, e, ws, ne⟩ := (addsWs_spaceIfNeeded w c 1).toSep (needsSpace w c)
      (spaceIfNeeded_separates w c _)
    exact ⟨sep, by simp [step, pushChar, content, e], ws, by simpa [mustBreak] using ne⟩
  | pushNewLineIfNeeded n =>
    obtain ⟨sep, e, ws⟩ := (addsWs_newLineIfNeeded w n).sep
    exact ⟨sep, by simp [step, content, e], ws, by simp [mustBreak]⟩
  | pushSpaceIfNeeded c n =>
    obtain ⟨sep, e, ws, ne⟩ := (addsWs_spaceIfNeeded w c n).toSep (needsSpace w c)
      (spaceIfNeeded_separates w c _)
    exact ⟨sep, by simp [step, content, e], ws, by simpa [mustBreak] using ne⟩
  | pushNewLine => exact ⟨[NL], by simp [step, content, pushNewLine], by simp [isWs], by simp⟩
  | pushSpace => exact ⟨[SP], by simp [step, content, pushSpace], by simp [isWs], by simp⟩
  | rawPushStr s => exact ⟨[], by simp [step, content, rawPushStr], by simp, by simp [mustBreak]⟩
  | rawPushChar c => exact ⟨[], by simp [step, content, rawPushChar], by simp, by simp [mustBreak]⟩
  | pushStrAndBreakIf s =>
    obtain ⟨sep, e, ws, ne⟩ := breakIf_sep w (breakPredicate s (lastPushStr w)) s.length
    refine ⟨sep, ?_, ws, by simpa [mustBreak] using ne⟩
    simp only [step, pushStrAndBreakIf, rawPushStr, content]
    rw [e]
  | pushCharAndBreakIf c =>
    obtain ⟨sep, e, ws, ne⟩ := breakIf_sep w (breakPredicate [c] (lastPushStr w)) 1
    refine ⟨sep, ?_, ws, by simpa [mustBreak] using ne⟩
    simp only [step, pushCharAndBreakIf, rawPushChar, content]
    simp only [show (1 : Nat) + 1 = 2 from rfl] at e
    rw [e]; simp
  | pushCanAddNewLine b => exact ⟨[], by simp [step, content], by simp, by simp [mustBreak]⟩
  | popCanAddNewLine => exact ⟨[], by simp [step, content], by simp, by simp [mustBreak]⟩
  | pushIndentation => exact ⟨[], by simp [step, content], by simp, by simp [mustBreak]⟩
  | popIndentation => exact ⟨[], by simp [step, content], by simp, by simp [mustBreak]⟩
  | writeIndentation =>
    obtain ⟨sep, e, ws⟩ := (addsWs_indentation w).sep
    exact ⟨sep, by simp [step, content, e], ws, by simp [mustBreak]⟩


theorem eraseWs_allWs {s : List Nat} (h : ∀ c ∈ s, isWs c = true) : eraseWs s = [] := by
  simp only [eraseWs, List.filter_eq_nil_iff]
  intro c hc; simp [h c hc]

theorem step_erase (w : W) (op : Op) :
    eraseWs (step w op).rout = eraseWs (content op).reverse ++ eraseWs w.rout := by
  cases hm : op.isMerge with
  | false =>
    obtain ⟨sep, e, ws, _⟩ := step_appends w op hm
    rw [e, eraseWs_append, eraseWs_append, eraseWs_allWs ws, List.nil_append]
  | true =>
    cases op with
    | mergeChar c =>
      simp only [step, mergeChar, content]
      split
      · simp only [rawPushChar, List.reverse_cons, List.reverse_nil, List.nil_append]
        exact eraseWs_append [c] w.rout
      · have h1 : eraseWs (c :: (List.take w.lastPush w.rout ++
            NL :: List.dropWhile (fun x => x == SP) (List.drop w.lastPush w.rout)))
            = eraseWs [c] ++ (eraseWs (List.take w.lastPush w.rout) ++
                eraseWs (List.dropWhile (fun x => x == SP) (List.drop w.lastPush w.rout))) := by
          have hnl : eraseWs [NL] = [] := by decide
          show eraseWs ([c] ++ (List.take w.lastPush w.rout ++
            ([NL] ++ List.dropWhile (fun x => x == SP) (List.drop w.lastPush w.rout)))) = _
          rw [eraseWs_append, eraseWs_append, eraseWs_append, hnl, List.nil_append]
        simp only [List.reverse_cons, List.reverse_nil, List.nil_append]
        rw [h1, eraseWs_dropWhile_sp, ← eraseWs_append, List.take_append_drop]
    | _ => simp [Op.isMerge] at hm

/-- Nothing but spaces and newlines is ever added besides the contents, nothing is lost,
duplicated or reordered — `merge_char` included, for every column span. -/
theorem run_erase (w : W) (ops : List Op) :
    eraseWs (run w ops).output = eraseWs w.output ++ eraseWs (ops.flatMap content) := by
  induction ops generalizing w with
  | nil => simp [run, eraseWs]
  | cons op rest ih =>
    have h := step_erase w op
    simp only [run, List.foldl_cons] at ih ⊢
    rw [ih (step w op)]
    simp only [W.output, eraseWs_reverse, h, List.reverse_append, List.reverse_reverse,
      List.flatMap_cons, eraseWs_append, List.append_assoc]

/-- each operation of the sequence appends `separator ++ content`, with a whitespace-only
separator that is non-empty whenever the break criterion of that operation holds -/
def Separated (w : W) : List Op → Prop
  | [] => True
  | op :: rest =>
    (∃ sep, (step w op).output = w.output ++ sep ++ content op ∧ (∀ c ∈ sep, isWs c = true) ∧
      (mustBreak w op = true → sep ≠ [])) ∧ Separated (step w op) rest

theorem run_separated (w : W) (ops : List Op) (h : ∀ op ∈ ops, op.isMerge = false) : Separated w ops := by
  induction ops generalizing w with
  | nil => trivial
  | cons op rest ih =>
    refine ⟨?_, ih _ (fun o ho => h o (List.mem_cons_of_mem _ ho))⟩
    obtain ⟨sep, e, ws, ne⟩ := step_appends w op (h op List.mem_cons_self)
    refine ⟨sep.reverse, ?_, by simpa using ws, by simpa using ne⟩
    simp [W.output, e]

/-! ### `;` insertion: darklua's tree recursion against the written tokens -/

def lastT : List Tok → Option Tok
  | [] => none
  | [t] => some t
  | _ :: t :: ts => lastT (t :: ts)

/-- reference, on the written tokens: a following `(` continues the expression as a call iff
the text ends with `)` or with a prefix-expression atom. -/
def endsCallable (isPfx : Nat → Bool) (ts : List Tok) : Bool :=
  match lastT ts with
  | some .rp => true
  | some (.atom k) => isPfx k
  | _ => false

theorem lastT_append_cons (a : List Tok) (t : Tok) (ts : List Tok) : lastT (a ++ t :: ts) = lastT (t :: ts) := by
  induction a with
  | nil => rfl
  | cons x xs ih =>
    cases xs with
    | nil => simp [lastT]
    | cons y ys => simpa [lastT] using ih

theorem printE_ne_nil (e : E) : printE e ≠ [] := by
  cases e <;> simp [printE]

theorem lastT_append_printE (a : List Tok) (e : E) : lastT (a ++ printE e) = lastT (printE e) := by
  cases h : printE e with
  | nil => exact absurd h (printE_ne_nil e)
  | cons t ts => exact lastT_append_cons a t ts

theorem lastT_wrapped (pre : List Tok) (e : E) : lastT (pre ++ ([Tok.lp] ++ printE e ++ [Tok.rp])) = some .rp := by
  have : pre ++ ([Tok.lp] ++ printE e ++ [Tok.rp]) = (pre ++ [Tok.lp] ++ printE e) ++ Tok.rp :: [] := by simp
  rw [this]; exact lastT_append_cons _ _ _

theorem semicolon_aux (isPfx : Nat → Bool) (e : E) (h : numeralsAreNotPrefix isPfx e = true) :
    endsCallable isPfx (printE e) = expressionEndsWithPrefix isPfx e := by
  induction e with
  | atom k => rfl
  | negnum k =>
    have : isPfx k = false := by simpa [numeralsAreNotPrefix] using h
    simp [printE, endsCallable, lastT, expressionEndsWithPrefix, this]
  | paren e _ =>
    have : lastT (printE (.paren e)) = some .rp := by
      simp only [printE]; exact lastT_append_cons _ _ _
    simp only [endsCallable, this, expressionEndsWithPrefix]
  | ifexp c a b _ _ ihb =>
    have hb : numeralsAreNotPrefix isPfx b = true := by
      simp only [numeralsAreNotPrefix, Bool.and_eq_true] at h; exact h.2
    have : lastT (printE (.ifexp c a b)) = lastT (printE b) := by
      simp only [printE]; exact lastT_append_printE _ b
    simp only [endsCallable, this, expressionEndsWithPrefix]
    exact ihb hb
  | cast e t _ =>
    have : lastT (printE (.cast e t)) = some (.tname t) := by
      simp only [printE]
      have := lastT_append_cons ((if castNeedsParentheses e then [Tok.lp] ++ printE e ++ [Tok.rp] else printE e) ++ [Tok.dcolon]) (.tname t) []
      simpa [lastT] using this
    simp only [endsCallable, this, expressionEndsWithPrefix]
  | un u x ih =>
    have hx : numeralsAreNotPrefix isPfx x = true := by simpa [numeralsAreNotPrefix] using h
    cases hn : unaryNeedsParentheses x with
    | true =>
      have : lastT (printE (.un u x)) = some .rp := by
        simp only [printE, hn, if_true]; exact lastT_wrapped _ x
      simp only [endsCallable, this, expressionEndsWithPrefix, hn, Bool.true_or]
    | false =>
      have : lastT (printE (.un u x)) = lastT (printE x) := by
        simp only [printE, hn, Bool.false_eq_true, if_false]; exact lastT_append_printE _ x
      simp only [endsCallable, this, expressionEndsWithPrefix, hn, Bool.false_or]
      exact ih hx
  | bin o l r _ ihr =>
    have hr : numeralsAreNotPrefix isPfx r = true := by
      simp only [numeralsAreNotPrefix, Bool.and_eq_true] at h; exact h.2
    cases hn : rightNeedsParentheses o r with
    | true =>
      have : lastT (printE (.bin o l r)) = some .rp := by
        simp only [printE, hn, if_true]; exact lastT_wrapped _ r
      simp only [endsCallable, this, expressionEndsWithPrefix, hn, Bool.true_or]
    | false =>
      have : lastT (printE (.bin o l r)) = lastT (printE r) := by
        simp only [printE, hn, Bool.false_eq_true, if_false]; exact lastT_append_printE _ r
      simp only [endsCallable, this, expressionEndsWithPrefix, hn, Bool.false_or]
      exact ihr hr

/-! ### `merge_char` never separates the character from what was written before it -/

theorem mergeChar_adjacent (w : W) (c p : Nat) (t : List Nat) (h : w.rout = p :: t) (hl : 1 ≤ w.lastPush) :
    ∃ t', (mergeChar w c).rout = c :: p :: t' := by
  unfold mergeChar
  split
  · exact ⟨t, by simp [rawPushChar, h]⟩
  · obtain ⟨n, hn⟩ : ∃ n, w.lastPush = n + 1 := ⟨w.lastPush - 1, by omega⟩
    refine ⟨List.take n t ++ NL :: (List.drop w.lastPush w.rout).dropWhile (· == SP), ?_⟩
    simp [h, hn, List.take_succ_cons]

/-- what `push_str "()"` does instead when the line is full: a newline in front of the `(` -/
theorem pushStr_can_separate :
    (pushStr (rawPushStr (W.init 1) [102]) [40, 41]).output = [102, 10, 40, 41] := by decide

end DarkluaModel.C02
