/-
C02 — the writer primitives of `DenseLuaGenerator` (src/generator/dense.rs) and
`ReadableLuaGenerator` (src/generator/readable.rs) as one state machine `step : W → Op → W`
over the traced operation alphabet.

The two generators share the code of every primitive they both have, except that readable's
`push_space_if_needed` / `push_new_line_if_needed` first write the indentation at the start
of a line and consult the `can_add_new_line` stack. With `indent = 0` and an empty stack
(which is all the dense generator ever has: it never performs the four indentation/stack
operations) readable's code *is* dense's code, so one `step` serves both.

Bytes are `Nat` code units; the output is kept reversed (`rout`, head = last byte written).
darklua's output is ASCII whenever identifiers are (strings are escaped), and the primitives
that count characters rather than bytes (`merge_char` pops `last_push_length` *chars*,
`needs_space` reads the last *char*) are modelled on bytes: exact for ASCII output.
-/
import DarkluaModel.C02.Model
namespace DarkluaModel.C02

inductive Op where
  | pushStr (s : List Nat)
  | pushChar (c : Nat)
  | mergeChar (c : Nat)
  | pushNewLineIfNeeded (n : Nat)
  | pushSpaceIfNeeded (c : Nat) (n : Nat)
  | pushNewLine
  | pushSpace
  | rawPushStr (s : List Nat)
  | rawPushChar (c : Nat)
  | pushStrAndBreakIf (s : List Nat)
  | pushCharAndBreakIf (c : Nat)
  | pushCanAddNewLine (b : Bool)
  | popCanAddNewLine
  | pushIndentation
  | popIndentation
  | writeIndentation
  deriving Repr, DecidableEq, Inhabited

structure W where
  span : Nat               -- column_span
  rout : List Nat          -- output, reversed
  lineLen : Nat            -- current_line_length
  lastPush : Nat           -- last_push_length
  indent : Nat             -- current_indentation (readable)
  canAdd : List Bool       -- can_add_new_line_stack, head = top (readable)
  deriving Repr, DecidableEq, Inhabited

def W.init (span : Nat) : W :=
  { span, rout := [], lineLen := 0, lastPush := 0, indent := 0, canAdd := [] }

def W.output (w : W) : List Nat := w.rout.reverse

def NL : Nat := 10
def SP : Nat := 32

/-- `push_new_line` -/
def pushNewLine (w : W) : W := { w with rout := NL :: w.rout, lineLen := 0 }
/-- `push_space` -/
def pushSpace (w : W) : W := { w with rout := SP :: w.rout, lineLen := w.lineLen + 1 }
/-- `raw_push_str` -/
def rawPushStr (w : W) (s : List Nat) : W :=
  { w with rout := s.reverse ++ w.rout, lastPush := s.length, lineLen := w.lineLen + s.length }
/-- `raw_push_char` -/
def rawPushChar (w : W) (c : Nat) : W :=
  { w with rout := c :: w.rout, lastPush := 1, lineLen := w.lineLen + 1 }
/-- `fits_on_current_line` -/
def fits (w : W) (n : Nat) : Bool := w.lineLen + n ≤ w.span
/-- `needs_space` -/
def needsSpace (w : W) (next : Nat) : Bool :=
  match w.rout with
  | prev :: _ => shouldBreakWithSpace prev next
  | [] => false
/-- `can_add_new_line` -/
def canAddNewLine (w : W) : Bool := w.canAdd.head?.getD true
/-- `write_indentation` (readable: `indentation = 4`) -/
def writeIndentation (w : W) : W := rawPushStr w (List.replicate (4 * w.indent) SP)
/-- `get_last_push_str` -/
def lastPushStr (w : W) : List Nat := (w.rout.take w.lastPush).reverse

/-- readable's prologue of `push_space_if_needed` / `push_new_line_if_needed`; the identity for
the dense generator (`indent = 0`). -/
def indentIfLineStart (w : W) : W :=
  if w.lineLen == 0 && w.indent != 0 then writeIndentation w else w

/-- `push_new_line_if_needed` -/
def pushNewLineIfNeeded (w0 : W) (n : Nat) : W :=
  let w := indentIfLineStart w0
  if canAddNewLine w then
    if w.lineLen ≥ w.span then pushNewLine w
    else if w.lineLen + n > w.span then pushNewLine w
    else w
  else w

/-- `push_space_if_needed` -/
def pushSpaceIfNeeded (w0 : W) (next : Nat) (n : Nat) : W :=
  let w := indentIfLineStart w0
  if canAddNewLine w then
    if w.lineLen ≥ w.span then pushNewLine w
    else
      let total := w.lineLen + n
      if needsSpace w next then
        if total + 1 > w.span then pushNewLine w else pushSpace w
      else if total > w.span then pushNewLine w
      else w
  else if needsSpace w next then pushSpace w
  else w

/-- `push_str` -/
def pushStr (w : W) (s : List Nat) : W :=
  match s with
  | [] => w
  | c :: _ => rawPushStr (pushSpaceIfNeeded w c s.length) s

/-- `push_char` -/
def pushChar (w : W) (c : Nat) : W :=
  let w := pushSpaceIfNeeded w c 1
  { w with rout := c :: w.rout, lineLen := w.lineLen + 1, lastPush := 1 }

/-- `merge_char` (dense) -/
def mergeChar (w : W) (c : Nat) : W :=
  if fits w 1 then rawPushChar w c
  else
    let last := w.rout.take w.lastPush          -- reversed last push
    let rest := (w.rout.drop w.lastPush).dropWhile (· == SP)
    { w with rout := c :: (last ++ NL :: rest), lastPush := w.lastPush + 1,
             lineLen := w.lastPush + 1 }

/-- Which predicate a `push_*_and_break_if` call site passes, determined by what it writes:
`...` → `break_variable_arguments`, `..` → `break_concat`, `-` → `break_minus`,
`=` → `break_equal`, a long string (starts with `[`) → `break_long_string`. -/
def breakPredicate (content : List Nat) (last : List Nat) : Bool :=
  if content == [46, 46, 46] then breakVariableArguments last
  else if content == [46, 46] then breakConcat last
  else if content == [45] then breakMinus last
  else if content == [61] then breakEqual last
  else if content.head? == some 91 then breakLongString last
  else false

/-- `push_str_and_break_if` -/
def pushStrAndBreakIf (w : W) (s : List Nat) : W :=
  let w :=
    if breakPredicate s (lastPushStr w) then
      if fits w (1 + s.length) then pushSpace w else pushNewLine w
    else if !fits w s.length then pushNewLine w
    else w
  rawPushStr w s

/-- `push_char_and_break_if` (dense) -/
def pushCharAndBreakIf (w : W) (c : Nat) : W :=
  let w :=
    if breakPredicate [c] (lastPushStr w) then
      if fits w 2 then pushSpace w else pushNewLine w
    else if !fits w 1 then pushNewLine w
    else w
  rawPushChar w c

def step (w : W) : Op → W
  | .pushStr s => pushStr w s
  | .pushChar c => pushChar w c
  | .mergeChar c => mergeChar w c
  | .pushNewLineIfNeeded n => pushNewLineIfNeeded w n
  | .pushSpaceIfNeeded c n => pushSpaceIfNeeded w c n
  | .pushNewLine => pushNewLine w
  | .pushSpace => pushSpace w
  | .rawPushStr s => rawPushStr w s
  | .rawPushChar c => rawPushChar w c
  | .pushStrAndBreakIf s => pushStrAndBreakIf w s
  | .pushCharAndBreakIf c => pushCharAndBreakIf w c
  | .pushCanAddNewLine b => { w with canAdd := b :: w.canAdd }
  | .popCanAddNewLine => { w with canAdd := w.canAdd.tail }
  | .pushIndentation => { w with indent := w.indent + 1 }
  | .popIndentation => { w with indent := w.indent - 1 }
  | .writeIndentation => writeIndentation w

def run (w : W) (ops : List Op) : W := ops.foldl step w

end DarkluaModel.C02
