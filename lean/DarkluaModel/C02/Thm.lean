/-
C02 — theorems. See meta/C02.json for the plain-English statements.
-/
import DarkluaModel.C02.Lemmas
namespace DarkluaModel.C02

/-! ## 1. the parenthesis table is exactly the reference grammar's -/

/-- "parentheses are needed according to the reference grammar": the tree's own tokens, written
without any parenthesis decision, do not read back as the tree. -/
def refNeeds (t : E) : Bool := !decide (parseE (parseFuel (flat t)) (flat t) = some t)

def tA : E := .atom 0
def tB : E := .atom 1
def tC : E := .atom 2

set_option maxRecDepth 100000 in
theorem paren_table_exact_aux :
    ∀ o ∈ BinOp.all, ∀ q ∈ BinOp.all,
      leftNeedsParentheses o (.bin q tA tB) = refNeeds (.bin o (.bin q tA tB) tC) ∧
      rightNeedsParentheses o (.bin q tB tC) = refNeeds (.bin o tA (.bin q tB tC)) := by
  decide +kernel

/-- For all 16 × 16 operator pairs and both sides: darklua parenthesises a binary operand
exactly when the reference grammar would otherwise read a different tree (no missing and no
superfluous parentheses). -/
theorem paren_table_exact (o q : BinOp) :
    leftNeedsParentheses o (.bin q tA tB) = refNeeds (.bin o (.bin q tA tB) tC) ∧
    rightNeedsParentheses o (.bin q tB tC) = refNeeds (.bin o tA (.bin q tB tC)) :=
  paren_table_exact_aux o (BinOp.mem_all o) q (BinOp.mem_all q)

example : leftNeedsParentheses .pow (.bin .pow tA tB) = true ∧ rightNeedsParentheses .pow (.bin .pow tB tC) = false :=
  by decide
example : refNeeds (.bin .concat (.bin .concat tA tB) tC) = true ∧ refNeeds (.bin .concat tA (.bin .concat tB tC)) = false :=
  by decide

set_option maxRecDepth 100000 in
theorem unary_table_exact_aux :
    ∀ u ∈ UnOp.all, ∀ q ∈ BinOp.all,
      unaryNeedsParentheses (.bin q tA tB) = refNeeds (.un u (.bin q tA tB)) ∧
      leftNeedsParentheses q (.un u tA) = refNeeds (.bin q (.un u tA) tB) ∧
      rightNeedsParentheses q (.un u tB) = refNeeds (.bin q tA (.un u tB)) ∧
      unaryNeedsParentheses (.un u tA) = refNeeds (.un u (.un u tA)) := by
  decide +kernel

/-- Unary operators against all 16 binary operators: the operand rule of
`write_unary_expression` (`-(a+b)`, `-a^b`), a unary expression as left operand (`(-a)^b`,
`-a+b`) and as right operand (`a^-b`) are parenthesised exactly when the reference grammar
needs it. -/
theorem unary_table_exact (u : UnOp) (q : BinOp) :
    unaryNeedsParentheses (.bin q tA tB) = refNeeds (.un u (.bin q tA tB)) ∧
    leftNeedsParentheses q (.un u tA) = refNeeds (.bin q (.un u tA) tB) ∧
    rightNeedsParentheses q (.un u tB) = refNeeds (.bin q tA (.un u tB)) ∧
    unaryNeedsParentheses (.un u tA) = refNeeds (.un u (.un u tA)) :=
  unary_table_exact_aux u (UnOp.mem_all u) q (BinOp.mem_all q)

example : refNeeds (.bin .pow (.un .neg tA) tB) = true ∧ refNeeds (.un .neg (.bin .pow tA tB)) = false := by decide

/-! ## 2. the character break table covers every fusing pair -/

/-- the statement of `break_table_sound` for one pair of code points -/
def breakSoundAt (a b : Nat) : Prop :=
  lexFuse a b = true → shouldBreakWithSpace a b = true ∨ inPairs neverJuxtaposed a b = true

instance (a b : Nat) : Decidable (breakSoundAt a b) := by unfold breakSoundAt; exact inferInstance

set_option maxRecDepth 100000 in
theorem break_table_sound_lo : ∀ a : Fin 64, ∀ b : Fin 128, breakSoundAt a.val b.val := by
  decide +kernel

set_option maxRecDepth 100000 in
theorem break_table_sound_hi : ∀ a : Fin 64, ∀ b : Fin 128, breakSoundAt (a.val + 64) b.val := by
  decide +kernel

/-- Whenever two adjacent ASCII characters would fuse for a lexer (reference token classes),
`should_break_with_space` asks for a separator, or the pair is one of the listed symbol pairs
the writers never put at a push boundary (`neverJuxtaposed`, each justified in Spec.lean). -/
theorem break_table_sound (a b : Nat) (ha : a < 128) (hb : b < 128) :
    lexFuse a b = true →
      shouldBreakWithSpace a b = true ∨ inPairs neverJuxtaposed a b = true := by
  by_cases h : a < 64
  · exact break_table_sound_lo ⟨a, h⟩ ⟨b, hb⟩
  · have := break_table_sound_hi ⟨a - 64, by omega⟩ ⟨b, hb⟩
    have e : a - 64 + 64 = a := by omega
    rw [e] at this
    exact this

-- non-vacuity: fusing pairs exist and are caught by the table itself (`1` `.`, `a` `b`, `-` `-`)
example : lexFuse 49 46 = true ∧ shouldBreakWithSpace 49 46 = true := by decide
example : lexFuse 97 98 = true ∧ lexFuse 45 45 = true ∧ inPairs neverJuxtaposed 45 45 = false := by decide

/-! ## 3. the printed tokens read back as the same tree, for ALL expressions -/

/-- Full-strength statement: for every expression tree, the reference parser (given enough
fuel) reads the tokens darklua writes back as a tree equal to the source tree modulo
operand-position parentheses (a negative literal being a unary minus on a number, as for any
lexer). -/
def print_parses_back_full : Prop :=
  ∀ e : E, ∃ F, ∀ f, F ≤ f → ∃ t, parseE f (printE e) = some t ∧ norm t = norm (reify e)

/-- The parser's answer is exactly the tree with the parentheses darklua adds (nothing else
is lost or invented) — for EVERY expression, by structural induction (`sub_flat`,
`WP_addParens`). -/
theorem print_parses_exact (e : E) :
    ∃ F, ∀ f, F ≤ f → parseE f (printE e) = some (reify (addParens e)) := by
  obtain ⟨F, hF⟩ := parse_of_WP (addParens e) (WP_addParens e)
  exact ⟨F, fun f hf => by rw [printE_eq_flat]; exact hF f hf⟩

/-- The full statement holds (since the fix of finding F23: a negative number literal is
parenthesised as the left operand of `^` and under `::`). -/
theorem print_parses_back : print_parses_back_full := by
  intro e
  obtain ⟨F, hF⟩ := print_parses_exact e
  exact ⟨F, fun f hf => ⟨reify (addParens e), hF f hf, norm_reify_addParens e⟩⟩

/-- Former witness of finding F23, `Binary(^, Number(-k), x)`: now written `(-k) ^ x`. -/
def f23Witness : E := .bin .pow (.negnum 0) (.atom 1)

-- regression: the fixed model parenthesises the witness, and it reads back as itself
example : printE f23Witness = [.lp, .minus, .atom 0, .rp, .bop .pow, .atom 1] ∧
    (parseE 20 (printE f23Witness)).map norm = some (norm (reify f23Witness)) := by decide
example : printE (.cast (.negnum 0) 1) = [.lp, .minus, .atom 0, .rp, .dcolon, .tname 1] ∧
    (parseE 20 (printE (.cast (.negnum 0) 1))).map norm = some (norm (reify (.cast (.negnum 0) 1))) := by decide

-- non-vacuity: the design's examples, with the driver's fuel
example : parseE 20 (printE (.un .neg (.bin .pow tA tB))) = some (.un .neg (.bin .pow tA tB)) := by decide  -- -x^2
example : parseE 20 (printE (.bin .pow (.un .neg tA) tB)) = some (.bin .pow (.paren (.un .neg tA)) tB) := by decide  -- (-x)^2
example : parseE 20 (printE (.bin .pow tA (.un .neg tB))) = some (.bin .pow tA (.un .neg tB)) := by decide  -- 2^-x
example : parseE 20 (printE (.bin .concat tA (.bin .concat tB tC))) = some (.bin .concat tA (.bin .concat tB tC)) ∧
    parseE 20 (printE (.bin .concat (.bin .concat tA tB) tC)) = some (.bin .concat (.paren (.bin .concat tA tB)) tC) := by
  decide
example : parseE 20 (printE (.un .not (.bin .eq tA tB))) = some (.un .not (.paren (.bin .eq tA tB))) := by decide
example : parseE 30 (printE (.bin .add (.ifexp tC tA tB) tA)) = some (.bin .add (.paren (.ifexp tC tA tB)) tA) := by decide
example : parseE 20 (printE (.bin .pow tA (.negnum 0))) = some (.bin .pow tA (.un .neg (.atom 0))) := by decide  -- 2^-1

/-! ## 4. the writer state machine (dense and readable), for every column span -/

/-- For every starting state (any `column_span`, 0 and 1 included, any indentation and
`can_add_new_line` stack) and every sequence of operations other than `merge_char`: each
operation appends `separator ++ content` to the output, the separator consists of spaces and
newlines only (so separators sit only BETWEEN contents), and it is non-empty whenever the
operation's break criterion holds — `should_break_with_space (last written char) (first char)`
for `push_str` / `push_char` / `push_space_if_needed`, the `break_*` predicate of the call site
for `push_*_and_break_if`. -/
theorem writer_separates (w : W) (ops : List Op) (h : ∀ op ∈ ops, op.isMerge = false) :
    Separated w ops :=
  run_separated w ops h

/-- `merge_char` included: the output with spaces and newlines erased is exactly the
concatenation of the contents with spaces and newlines erased — the writers (line breaking,
`merge_char`'s re-breaking of the last push) never lose, duplicate, reorder or invent a
non-blank character, whatever the column span. -/
theorem writer_content (w : W) (ops : List Op) :
    eraseWs (run w ops).output = eraseWs w.output ++ eraseWs (ops.flatMap content) :=
  run_erase w ops

-- non-vacuity: `- -x`, `1 ..`, spans 0 and 1, merge_char re-breaking
example : (run (W.init 80) [.pushChar 45, .pushCharAndBreakIf 45, .pushStr [120]]).output = [45, 32, 45, 120] := by decide
example : mustBreak (run (W.init 80) [.pushChar 45]) (.pushChar 45) = true := by decide
example : (run (W.init 0) [.pushStr [97], .pushStr [98]]).output = [10, 97, 10, 98] := by decide
example : (run (W.init 1) [.pushStr [97], .pushStr [98], .mergeChar 40]).output = [97, 10, 10, 98, 40] := by decide
example : (run (W.init 4) [.pushStr [97], .pushStr [98, 98], .mergeChar 40]).output = [97, 10, 98, 98, 40] := by decide  -- `a bb` re-broken as `a⏎bb(`
example : (run (W.init 80) [.pushStr [49], .pushStrAndBreakIf [46, 46], .pushStr [120]]).output = [49, 32, 46, 46, 120] := by decide

/-- `merge_char` (which opens every tuple argument list in the dense generator) writes its
character DIRECTLY after the previously written character, for every column span: when the
line is full it moves the last push to a new line together with the character instead of
breaking in front of it. So the `(` of call arguments is never the first token of a line
(Lua 5.1 `funcargs` rejects that as "ambiguous syntax", Luau in statement position). The
harness checks on every real dense trace that each tuple argument list is opened by
`merge_char '('`, and the Lean re-reader applies the `funcargs` rule to the real text. -/
theorem merge_char_adjacent (w : W) (c p : Nat) (t : List Nat) (h : w.rout = p :: t)
    (hl : 1 ≤ w.lastPush) : ∃ t', (mergeChar w c).rout = c :: p :: t' :=
  mergeChar_adjacent w c p t h hl

-- non-vacuity: a callee `f` on a full line (span 1): `f(` stays together, `push_str "()"` would not
example : (mergeChar (rawPushStr (W.init 1) [102]) 40).output = [10, 102, 40] := by decide
example : (pushStr (rawPushStr (W.init 1) [102]) [40, 41]).output = [102, 10, 40, 41] := by decide

/-! ## 5. `;` insertion -/

/-- For every expression (with the model's numeral atoms kinded as numerals): darklua's
`expression_ends_with_prefix` is true EXACTLY when the written tokens end in something a
following `(` would call — a `)` (its own or one the printer adds) or a prefix-expression atom.
`write_block` therefore inserts `;` before a `(`-starting statement exactly when needed. Full
strength since the fix of finding F26. -/
theorem semicolon_sound (isPfx : Nat → Bool) (e : E) (h : numeralsAreNotPrefix isPfx e = true) :
    endsCallable isPfx (printE e) = expressionEndsWithPrefix isPfx e :=
  semicolon_aux isPfx e h

/-- Former witness of finding F26: `a - (b and 1)` — the tree's right edge ends in a number, the
text ends in the `)` the printer adds around the right operand. -/
def f26Witness : E := .bin .sub (.atom 0) (.bin .and (.atom 0) (.atom 1))

-- regression: the fixed model sees the printer's own parenthesis
example : endsCallable (fun k => k == 0) (printE f26Witness) = true ∧
    expressionEndsWithPrefix (fun k => k == 0) f26Witness = true := by decide
example : expressionEndsWithPrefix (fun k => k == 0) (.un .neg (.bin .add (.atom 0) (.atom 1))) = true ∧
    expressionEndsWithPrefix (fun k => k == 0) (.un .neg (.bin .pow (.atom 0) (.atom 1))) = false := by decide
-- non-vacuity of the kinding hypothesis
example : numeralsAreNotPrefix (fun k => k == 0) (.bin .sub (.atom 1) (.bin .mul (.negnum 1) (.paren (.atom 1)))) = true := by
  decide

end DarkluaModel.C02
