/-
C02 — theorems. See meta/C02.json for the plain-English statements.
-/
import DarkluaModel.C02.Lemmas
namespace DarkluaModel.C02

/-! ## 1. the parenthesis table is exactly the reference grammar's -/

/-- "parentheses are needed according to the reference grammar": the tree's own tokens, written
without any parenthesis decision, do not read back as the tree. -/
def refNeeds (t : E) : Bool := !decide (parseE (parseFuel (flat t)) (flat t) = some t)

def tA : E := .atom 0
def tB : E := .atom 1
def tC : E := .atom 2

set_option maxRecDepth 100000 in
theorem paren_table_exact_aux :
    ∀ o ∈ BinOp.all, ∀ q ∈ BinOp.all,
      leftNeedsParentheses o (.bin q tA tB) = refNeeds (.bin o (.bin q tA tB) tC) ∧
      rightNeedsParentheses o (.bin q tB tC) = refNeeds (.bin o tA (.bin q tB tC)) := by
  decide +kernel

/-- For all 16 × 16 operator pairs and both sides: darklua parenthesises a binary operand
exactly when the reference grammar would otherwise read a different tree (no missing and no
superfluous parentheses). -/
theorem paren_table_exact (o q : BinOp) :
    leftNeedsParentheses o (.bin q tA tB) = refNeeds (.bin o (.bin q tA tB) tC) ∧
    rightNeedsParentheses o (.bin q tB tC) = refNeeds (.bin o tA (.bin q tB tC)) :=
  paren_table_exact_aux o (BinOp.mem_all o) q (BinOp.mem_all q)

example : leftNeedsParentheses .pow (.bin .pow tA tB) = true ∧ rightNeedsParentheses .pow (.bin .pow tB tC) = false :=
  by decide
example : refNeeds (.bin .concat (.bin .concat tA tB) tC) = true ∧ refNeeds (.bin .concat tA (.bin .concat tB tC)) = false :=
  by decide

set_option maxRecDepth 100000 in
theorem unary_table_exact_aux :
    ∀ u ∈ UnOp.all, ∀ q ∈ BinOp.all,
      unaryNeedsParentheses (.bin q tA tB) = refNeeds (.un u (.bin q tA tB)) ∧
      leftNeedsParentheses q (.un u tA) = refNeeds (.bin q (.un u tA) tB) ∧
      rightNeedsParentheses q (.un u tB) = refNeeds (.bin q tA (.un u tB)) ∧
      unaryNeedsParentheses (.un u tA) = refNeeds (.un u (.un u tA)) := by
  decide +kernel

/-- Unary operators against all 16 binary operators: the operand rule of
`write_unary_expression` (`-(a+b)`, `-a^b`), a unary expression as left operand (`(-a)^b`,
`-a+b`) and as right operand (`a^-b`) are parenthesised exactly when the reference grammar
needs it. -/
theorem unary_table_exact (u : UnOp) (q : BinOp) :
    unaryNeedsParentheses (.bin q tA tB) = refNeeds (.un u (.bin q tA tB)) ∧
    leftNeedsParentheses q (.un u tA) = refNeeds (.bin q (.un u tA) tB) ∧
    rightNeedsParentheses q (.un u tB) = refNeeds (.bin q tA (.un u tB)) ∧
    unaryNeedsParentheses (.un u tA) = refNeeds (.un u (.un u tA)) :=
  unary_table_exact_aux u (UnOp.mem_all u) q (BinOp.mem_all q)

example : refNeeds (.bin .pow (.un .neg tA) tB) = true ∧ refNeeds (.un .neg (.bin .pow tA tB)) = false := by decide

/-! ## 2. the character break table covers every fusing pair -/

set_option maxRecDepth 100000 in
/-- Whenever two adjacent ASCII characters would fuse for a lexer (reference token classes),
`should_break_with_space` asks for a separator, or the pair is one of the listed symbol pairs
the writers never put at a push boundary. -/
theorem break_table_sound :
    ∀ a : Fin 128, ∀ b : Fin 128,
      lexFuse a.val b.val = true →
        shouldBreakWithSpace a.val b.val = true ∨ (a.val, b.val) ∈ neverJuxtaposed := by
  decide +kernel

-- non-vacuity: fusing pairs exist and are caught by the table itself (`1` `.`, `a` `b`, `-` `-`)
example : lexFuse 49 46 = true ∧ shouldBreakWithSpace 49 46 = true := by decide
example : lexFuse 97 98 = true ∧ lexFuse 45 45 = true ∧ (45, 45) ∉ neverJuxtaposed := by decide

end DarkluaModel.C02
