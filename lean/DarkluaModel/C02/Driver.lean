import DarkluaModel.Util.Sexp
import DarkluaModel.C02.Model
import DarkluaModel.C02.Spec
import DarkluaModel.C02.Writer
import DarkluaModel.C02.Parse
/-! Line-protocol handlers for property C02. -/
namespace DarkluaModel.C02

def binOpName : BinOp → String
  | .and => "and" | .or => "or" | .eq => "eq" | .ne => "ne" | .lt => "lt" | .le => "le"
  | .gt => "gt" | .ge => "ge" | .add => "add" | .sub => "sub" | .mul => "mul" | .div => "div"
  | .idiv => "idiv" | .mod => "mod" | .pow => "pow" | .concat => "concat"

def unOpName : UnOp → String
  | .len => "len" | .neg => "neg" | .not => "not"

def binOpOfName? (s : String) : Option BinOp := BinOp.all.find? fun o => binOpName o == s
def unOpOfName? (s : String) : Option UnOp := UnOp.all.find? fun o => unOpName o == s

/-- `E` from its S-expression. Fuel = size of the S-expression. -/
def eOfSexp : Nat → Sexp → Option E
  | 0, _ => none
  | f + 1, s =>
    match s with
    | .list [.atom "atom", k] => k.nat?.map E.atom
    | .list [.atom "negnum", k] => k.nat?.map E.negnum
    | .list [.atom "paren", e] => (eOfSexp f e).map E.paren
    | .list [.atom "ifexp", c, a, b] =>
      match eOfSexp f c, eOfSexp f a, eOfSexp f b with
      | some c, some a, some b => some (.ifexp c a b)
      | _, _, _ => none
    | .list [.atom "cast", e, t] =>
      match eOfSexp f e, t.nat? with
      | some e, some t => some (.cast e t)
      | _, _ => none
    | .list [.atom "un", .atom op, e] =>
      match unOpOfName? op, eOfSexp f e with
      | some op, some e => some (.un op e)
      | _, _ => none
    | .list [.atom "bin", .atom op, l, r] =>
      match binOpOfName? op, eOfSexp f l, eOfSexp f r with
      | some op, some l, some r => some (.bin op l r)
      | _, _, _ => none
    | _ => none

def sexpOfE : E → String
  | .atom k => s!"(atom {k})"
  | .negnum k => s!"(negnum {k})"
  | .paren e => s!"(paren {sexpOfE e})"
  | .ifexp c a b => s!"(ifexp {sexpOfE c} {sexpOfE a} {sexpOfE b})"
  | .cast e t => s!"(cast {sexpOfE e} {t})"
  | .un op e => s!"(un {unOpName op} {sexpOfE e})"
  | .bin op l r => s!"(bin {binOpName op} {sexpOfE l} {sexpOfE r})"

def tokName : Tok → String
  | .atom k => s!"a{k}"
  | .lp => "(" | .rp => ")"
  | .minus => "-" | .knot => "not" | .hash => "#"
  | .bop op => binOpName op
  | .kif => "if" | .kthen => "then" | .kelse => "else"
  | .dcolon => "::" | .tname t => s!"t{t}"

def tokOfName? (s : String) : Option Tok :=
  match s with
  | "(" => some .lp | ")" => some .rp | "-" => some .minus | "not" => some .knot
  | "#" => some .hash | "if" => some .kif | "then" => some .kthen | "else" => some .kelse
  | "::" => some .dcolon
  | _ =>
    match binOpOfName? s with
    | some op => some (.bop op)
    | none =>
      match s.toList with
      | 'a' :: ds => (String.ofList ds).toNat?.map Tok.atom
      | 't' :: ds => (String.ofList ds).toNat?.map Tok.tname
      | _ => none

def parseArgE (args : List String) : Option E :=
  let s := " ".intercalate args
  (Sexp.parse s).bind fun sx => eOfSexp (s.length + 2) sx

def showBool (b : Bool) : String := if b then "true" else "false"

/-- one traced operation `name:xHEX:detail` -/
def opOfWire (s : String) : Option Op :=
  match s.splitOn ":" with
  | [name, hexs, detail] =>
    match hexToBytes? hexs, detail.toInt? with
    | some bs, some d =>
      let cs := bs.map (·.toNat)
      let n := d.toNat
      match name with
      | "push_str" => some (.pushStr cs)
      | "push_char" => cs.head?.map Op.pushChar
      | "merge_char" => cs.head?.map Op.mergeChar
      | "push_new_line_if_needed" => some (.pushNewLineIfNeeded n)
      | "push_space_if_needed" => cs.head?.map fun c => Op.pushSpaceIfNeeded c n
      | "push_new_line" => some .pushNewLine
      | "push_space" => some .pushSpace
      | "raw_push_str" => some (.rawPushStr cs)
      | "raw_push_char" => cs.head?.map Op.rawPushChar
      | "push_str_and_break_if" => some (.pushStrAndBreakIf cs)
      | "push_char_and_break_if" => cs.head?.map Op.pushCharAndBreakIf
      | "push_can_add_new_line" => some (.pushCanAddNewLine (n != 0))
      | "pop_can_add_new_line" => some .popCanAddNewLine
      | "push_indentation" => some .pushIndentation
      | "pop_indentation" => some .popIndentation
      | "write_indentation" => some .writeIndentation
      | _ => none
    | _, _ => none
  | _ => none

/-- the traced result of the real predicate of a `*_and_break_if` call, for cross-checking -/
def predDetail (s : String) : Option Bool :=
  match s.splitOn ":" with
  | [name, _, detail] =>
    if name == "push_str_and_break_if" || name == "push_char_and_break_if" then some (detail != "0") else none
  | _ => none

/-- The primitives call each other (`push_str` → `push_space_if_needed` → `push_new_line`, …) and
every call is traced, in call order. `nested w op` is what the model says `op`, started in
state `w`, calls (transitively, in order): the replay checks the trace against it, so every
traced decision of the real run is compared, and only top-level calls are `step`ped. -/
def nestedBreak (w0 : W) (decide : W → List Op) : List Op :=
  let w := indentIfLineStart w0
  let ind : List Op :=
    if w0.lineLen == 0 && w0.indent != 0 then
      [.writeIndentation, .rawPushStr (List.replicate (4 * w0.indent) SP)] else []
  ind ++ decide w

def nestedSpaceIfNeeded (dense : Bool) (w0 : W) (next n : Nat) : List Op :=
  -- dense.rs `push_space_if_needed` pushes the space inline (no `push_space` call to trace)
  (fun l => if dense then l.filter (· != Op.pushSpace) else l) <| nestedBreak w0 fun w =>
    if canAddNewLine w then
      if w.lineLen ≥ w.span then [.pushNewLine]
      else if needsSpace w next then
        if w.lineLen + n + 1 > w.span then [.pushNewLine] else [.pushSpace]
      else if w.lineLen + n > w.span then [.pushNewLine] else []
    else if needsSpace w next then [.pushSpace] else []

def nestedNewLineIfNeeded (w0 : W) (n : Nat) : List Op :=
  nestedBreak w0 fun w =>
    if canAddNewLine w then
      if w.lineLen ≥ w.span then [.pushNewLine]
      else if w.lineLen + n > w.span then [.pushNewLine] else []
    else []

def nested (dense : Bool) (w : W) : Op → List Op
  | .pushStr [] => []
  | .pushStr (c :: s) =>
    let n := (c :: s).length
    .pushSpaceIfNeeded c n :: (nestedSpaceIfNeeded dense w c n ++ [.rawPushStr (c :: s)])
  | .pushChar c => .pushSpaceIfNeeded c 1 :: nestedSpaceIfNeeded dense w c 1
  | .mergeChar c => if fits w 1 then [.rawPushChar c] else []
  | .pushNewLineIfNeeded n => nestedNewLineIfNeeded w n
  | .pushSpaceIfNeeded c n => nestedSpaceIfNeeded dense w c n
  | .pushStrAndBreakIf s =>
    (if breakPredicate s (lastPushStr w) then
      (if fits w (1 + s.length) then [Op.pushSpace] else [Op.pushNewLine])
     else if !fits w s.length then [Op.pushNewLine] else []) ++ [.rawPushStr s]
  | .pushCharAndBreakIf c =>
    (if breakPredicate [c] (lastPushStr w) then
      (if fits w 2 then [Op.pushSpace] else [Op.pushNewLine])
     else if !fits w 1 then [Op.pushNewLine] else []) ++ [.rawPushChar c]
  | .writeIndentation => [.rawPushStr (List.replicate (4 * w.indent) SP)]
  | _ => []

def contentOf : Op → List Nat
  | .pushStr s | .rawPushStr s | .pushStrAndBreakIf s => s
  | .pushChar c | .mergeChar c | .rawPushChar c | .pushCharAndBreakIf c => [c]
  | _ => []

/-- replay of a full trace; `.error` names the first place where the trace is not what the
model says (a nested call differs, or a break predicate's traced result differs). -/
partial def replay (dense : Bool) (w : W) (i : Nat) : List (Op × Option Bool) → Except String W
  | [] => .ok w
  | (op, real) :: rest =>
    let predOk :=
      match op, real with
      | .pushStrAndBreakIf s, some r => breakPredicate s (lastPushStr w) == r
      | .pushCharAndBreakIf c, some r => breakPredicate [c] (lastPushStr w) == r
      | _, _ => true
    if !predOk then .error s!"predicate-mismatch@{i}"
    else
      let inner := nested dense w op
      let w' := step w op
      -- end-to-end search for the symbol pairs `break_table_sound` lists as never juxtaposed:
      -- a content written directly after the previous character, forming such a pair
      let glued :=
        match contentOf op, w.rout with
        | c :: cs, p :: _ =>
          w'.rout == (c :: cs).reverse ++ w.rout && inPairs neverJuxtaposed p c
            -- `.` `=` only fuses after the token `..` (into `..=`); after `...` it does not
            && !(p == 46 && c == 61 && w.rout.take 3 == [46, 46, 46])
        | _, _ => false
      if glued then .error s!"never-juxtaposed-pair@{i}"
      else if (rest.take inner.length).map (·.1) == inner then
        replay dense w' (i + 1 + inner.length) (rest.drop inner.length)
      else .error s!"nested-mismatch@{i}"

def handleCore (op : String) (args : List String) : Option String :=
  match op, args with
  -- paren <side> <binop|-> <operand E>
  | "paren", side :: o :: rest =>
    match parseArgE rest with
    | none => none
    | some e =>
      match side with
      | "left" => (binOpOfName? o).map fun o => showBool (leftNeedsParentheses o e)
      | "right" => (binOpOfName? o).map fun o => showBool (rightNeedsParentheses o e)
      | "unary" => some (showBool (unaryNeedsParentheses e))
      | "cast" => some (showBool (castNeedsParentheses e))
      | _ => none
  -- endsprefix <E> : utils.rs expression_ends_with_prefix (atom kinds as in the harness:
  -- k % 16 in {0,1,2 identifiers, 6 call, 7 field, 8 index, 13 type instantiation, 15 method call
  -- with type instantiation} are prefix expressions)
  | "endsprefix", rest =>
    (parseArgE rest).map fun e =>
      showBool (expressionEndsWithPrefix (fun k => [0, 1, 2, 6, 7, 8, 13, 15].contains (k % 16)) e)
  | "brk", [a, b] =>
    match a.toNat?, b.toNat? with
    | some a, some b => some (showBool (shouldBreakWithSpace a b))
    | _, _ => none
  -- brkpred <concat|varargs|minus|equal|longstring> <hex of last push>
  | "brkpred", [name, hex] =>
    match hexToBytes? hex with
    | none => none
    | some bs =>
      let cs := bs.map (·.toNat)
      match name with
      | "concat" => some (showBool (breakConcat cs))
      | "varargs" => some (showBool (breakVariableArguments cs))
      | "minus" => some (showBool (breakMinus cs))
      | "equal" => some (showBool (breakEqual cs))
      | "longstring" => some (showBool (breakLongString cs))
      | _ => none
  | "print", rest =>
    (parseArgE rest).map fun e => " ".intercalate ((printE e).map tokName)
  -- refparse <tok>* : the reference parser on a token list
  | "refparse", toks =>
    match toks.mapM tokOfName? with
    | none => none
    | some ts =>
      match parseE (parseFuel ts) ts with
      | some e => some (sexpOfE e)
      | none => some "noparse"
  -- roundtrip <E> : norm (parse (print e)) and norm (reify e)
  | "roundtrip", rest =>
    (parseArgE rest).map fun e =>
      let ts := printE e
      match parseE (parseFuel ts) ts with
      | some p => sexpOfE (norm p) ++ " " ++ sexpOfE (norm (reify e))
      | none => "noparse " ++ sexpOfE (norm (reify e))
  -- parse <hex of the text> : the oracle parser
  | "parse", [hexs] =>
    (hexToBytes? hexs).map Parse.parseChunk
  -- writer <dense|readable> <span> <op>* : replay traced operations on the writer model
  | "writer", kind :: span :: ops =>
    match span.toNat?, ops.mapM opOfWire with
    | some span, some parsed =>
      match replay (kind == "dense") (W.init span) 0 (parsed.zip (ops.map predDetail)) with
      | .ok w => some (bytesToHex (w.output.map UInt8.ofNat))
      | .error e => some e
    | _, _ => none
  | _, _ => none

def handle (op : String) (args : List String) : String :=
  match handleCore op args with
  | some s => s
  | none => "error"

end DarkluaModel.C02
