import DarkluaModel.Util.Sexp
/-! Line-protocol handlers for property C02 (stub: nothing modelled yet). -/
namespace DarkluaModel.C02

def handle (op : String) (_args : List String) : String :=
  "unknown-op " ++ op

end DarkluaModel.C02
