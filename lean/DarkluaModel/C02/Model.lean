/-
C02 — model of darklua's parenthesis decisions and of the character-level break table.

Mirrors (as they are):
* `src/nodes/expressions/binary.rs`: `BinaryOperator::{get_precedence, precedes,
  precedes_unary_expression, is_left_associative, is_right_associative,
  left_needs_parentheses, right_needs_parentheses}`, `ends_with_if_expression`,
  `ends_with_type_cast_to_type_name_without_type_parameters` (restricted to casts to a plain
  type name, the only kind of type in this model);
* `src/nodes/expressions/type_cast.rs`: `TypeCastExpression::needs_parentheses`;
* `src/generator/{dense,readable}.rs`: `write_binary_expression`, `write_unary_expression`,
  `write_parenthese`, `write_if_expression`, `write_type_cast` — *which* tokens are written and
  where parentheses are added (`printE`);
* `src/generator/utils.rs`: `should_break_with_space`, `break_concat`,
  `break_variable_arguments`, `break_minus`, `break_equal`, `break_long_string`.

Core Lean only (no Mathlib): linked into the `dlv-model` driver.
-/
namespace DarkluaModel.C02

/-- `BinaryOperator` (binary.rs), same order as the Rust enum. -/
inductive BinOp where
  | and | or | eq | ne | lt | le | gt | ge | add | sub | mul | div | idiv | mod | pow | concat
  deriving DecidableEq, Repr, Inhabited

/-- `UnaryOperator` (unary.rs). -/
inductive UnOp where
  | len | neg | not
  deriving DecidableEq, Repr, Inhabited

def BinOp.all : List BinOp :=
  [.and, .or, .eq, .ne, .lt, .le, .gt, .ge, .add, .sub, .mul, .div, .idiv, .mod, .pow, .concat]

def UnOp.all : List UnOp := [.len, .neg, .not]

/-- binary.rs `get_precedence` (higher value = binds tighter). -/
def BinOp.getPrecedence : BinOp → Nat
  | .or => 0
  | .and => 1
  | .eq | .ne | .lt | .le | .gt | .ge => 2
  | .concat => 3
  | .add | .sub => 4
  | .mul | .div | .idiv | .mod => 5
  | .pow => 7

/-- binary.rs `precedes`. -/
def BinOp.precedes (self other : BinOp) : Bool := self.getPrecedence > other.getPrecedence

/-- binary.rs `precedes_unary_expression`. -/
def BinOp.precedesUnaryExpression : BinOp → Bool
  | .pow => true
  | _ => false

/-- binary.rs `is_left_associative`. -/
def BinOp.isLeftAssociative : BinOp → Bool
  | .pow | .concat => false
  | _ => true

/-- binary.rs `is_right_associative`. -/
def BinOp.isRightAssociative : BinOp → Bool
  | .pow | .concat => true
  | _ => false

/-- The expression shapes that matter for parenthesis decisions. `atom k` stands for every
expression that is written as one self-delimiting unit and is never inspected by the
decision functions (identifier, non-negative number, string, table, function, call, field,
index, `true`, `false`, `nil`, `...`); `k` only keeps different atoms apart. `negnum k` is a
number node holding a *negative* value: it is written `-<digits>` (two tokens for any
lexer). `cast e t` is `e :: T` with `T` a plain type name. -/
inductive E where
  | atom (k : Nat)
  | negnum (k : Nat)
  | paren (e : E)
  | ifexp (c a b : E)
  | cast (e : E) (t : Nat)
  | un (op : UnOp) (e : E)
  | bin (op : BinOp) (l r : E)
  deriving DecidableEq, Repr, Inhabited

/-- binary.rs `ends_with_if_expression`. -/
def endsWithIfExpression : E → Bool
  | .ifexp _ _ _ => true
  | .bin _ _ r => endsWithIfExpression r
  | .un _ e => endsWithIfExpression e
  | _ => false

/-- binary.rs `ends_with_type_cast_to_type_name_without_type_parameters`, for casts to a plain
type name (`Type::Name` without parameters → `true`). -/
def endsWithTypeCastToTypeName : E → Bool
  | .ifexp _ _ b => endsWithTypeCastToTypeName b
  | .bin _ _ r => endsWithTypeCastToTypeName r
  | .un _ e => endsWithTypeCastToTypeName e
  | .cast _ _ => true
  | _ => false

/-- binary.rs `left_needs_parentheses`. -/
def leftNeedsParentheses (self : BinOp) (left : E) : Bool :=
  let needs :=
    match left with
    | .bin lop _ _ =>
      if self.isLeftAssociative then self.precedes lop else !(lop.precedes self)
    | .un _ _ => self.precedesUnaryExpression
    -- a negative number is written with a leading `-` (`is_written_with_minus_sign`)
    | .negnum _ => self.precedesUnaryExpression
    | .ifexp _ _ _ => true
    | _ => false
  needs || endsWithIfExpression left || (self == .lt && endsWithTypeCastToTypeName left)

/-- binary.rs `right_needs_parentheses`. -/
def rightNeedsParentheses (self : BinOp) (right : E) : Bool :=
  match right with
  | .bin rop _ _ =>
    if self.isRightAssociative then self.precedes rop else !(rop.precedes self)
  | _ => false

/-- dense.rs / readable.rs `write_unary_expression`: the operand is parenthesised iff it is a
binary expression whose operator does not precede unary expressions. -/
def unaryNeedsParentheses (operand : E) : Bool :=
  match operand with
  | .bin op _ _ => !op.precedesUnaryExpression
  | _ => false

/-- type_cast.rs `TypeCastExpression::needs_parentheses`. -/
def castNeedsParentheses : E → Bool
  | .bin _ _ _ | .un _ _ | .cast _ _ | .ifexp _ _ _ => true
  | .negnum _ => true   -- written with a leading `-`
  | _ => false

/-- Token skeleton. Unary and binary minus are the *same* token, as for any lexer. -/
inductive Tok where
  | atom (k : Nat)
  | lp | rp
  | minus
  | knot | hash
  | bop (op : BinOp)        -- never used with `.sub`
  | kif | kthen | kelse
  | dcolon | tname (t : Nat)
  deriving DecidableEq, Repr, Inhabited

def tokOfBin : BinOp → Tok
  | .sub => .minus
  | op => .bop op

def tokOfUn : UnOp → Tok
  | .neg => .minus
  | .not => .knot
  | .len => .hash

/-- The tokens darklua writes for an expression, with the parentheses it adds
(`write_expression` and the five writers cited above; both generators agree on this). -/
def printE : E → List Tok
  | .atom k => [.atom k]
  | .negnum k => [.minus, .atom k]
  | .paren e => [.lp] ++ printE e ++ [.rp]
  | .ifexp c a b => [.kif] ++ printE c ++ [.kthen] ++ printE a ++ [.kelse] ++ printE b
  | .cast e t =>
    (if castNeedsParentheses e then [.lp] ++ printE e ++ [.rp] else printE e) ++ [.dcolon, .tname t]
  | .un op e =>
    [tokOfUn op] ++ (if unaryNeedsParentheses e then [.lp] ++ printE e ++ [.rp] else printE e)
  | .bin op l r =>
    (if leftNeedsParentheses op l then [.lp] ++ printE l ++ [.rp] else printE l)
      ++ [tokOfBin op]
      ++ (if rightNeedsParentheses op r then [.lp] ++ printE r ++ [.rp] else printE r)

/-- utils.rs `expression_ends_with_prefix`, with `isPfx k` telling whether atom `k` is a prefix
expression (identifier, call, field, index) or not (number, string, table, function, ...). -/
def expressionEndsWithPrefix (isPfx : Nat → Bool) : E → Bool
  | .atom k => isPfx k
  | .negnum _ => false
  | .paren _ => true
  | .ifexp _ _ b => expressionEndsWithPrefix isPfx b
  | .cast _ _ => false
  -- the generators write these operands between parentheses
  | .un _ x => unaryNeedsParentheses x || expressionEndsWithPrefix isPfx x
  | .bin o _ r => rightNeedsParentheses o r || expressionEndsWithPrefix isPfx r

/-- Kinding of the model's atoms: the atom inside a negative number literal is a numeral, so
`isPfx` (which atoms are prefix expressions) must be false of it. Not a restriction on
darklua's trees. -/
def numeralsAreNotPrefix (isPfx : Nat → Bool) : E → Bool
  | .atom _ => true
  | .negnum k => !isPfx k
  | .paren e => numeralsAreNotPrefix isPfx e
  | .ifexp c a b => numeralsAreNotPrefix isPfx c && numeralsAreNotPrefix isPfx a && numeralsAreNotPrefix isPfx b
  | .cast e _ => numeralsAreNotPrefix isPfx e
  | .un _ x => numeralsAreNotPrefix isPfx x
  | .bin _ l r => numeralsAreNotPrefix isPfx l && numeralsAreNotPrefix isPfx r

/-! ### character level: utils.rs -/

def isDigit (c : Nat) : Bool := 48 ≤ c && c ≤ 57
def isUpper (c : Nat) : Bool := 65 ≤ c && c ≤ 90
def isLower (c : Nat) : Bool := 97 ≤ c && c ≤ 122
def isAlpha (c : Nat) : Bool := isUpper c || isLower c
def isAlnum (c : Nat) : Bool := isAlpha c || isDigit c

/-- utils.rs `should_break_with_space` on code points. -/
def shouldBreakWithSpace (ending next : Nat) : Bool :=
  if isDigit ending then isDigit next || isAlpha next || next == 95 || next == 46
  else if isAlpha ending || ending == 95 then isAlnum next || next == 95
  else if ending == 62 then next == 61                -- '>' '='
  else if ending == 45 then next == 45                -- '-' '-'
  else if ending == 91 then next == 91                -- '[' '['
  else if ending == 93 then next == 93                -- ']' ']'
  else if ending == 46 then next == 46 || isDigit next  -- '.' then '.' or digit
  else false

/-- utils.rs `break_variable_arguments`, on the code points of the last pushed string. -/
def breakVariableArguments (last : List Nat) : Bool :=
  match last.getLast? with
  | some 46 => true
  | _ =>
    match last.head? with
    | some c => c == 46 || isDigit c
    | none => false

/-- utils.rs `break_concat`: like `break_variable_arguments`, after stripping one leading `-`
(a negative number is written with a leading `-`). -/
def breakConcat (last : List Nat) : Bool :=
  match last.getLast? with
  | some 46 => true
  | _ =>
    let numeral := match last with
      | 45 :: rest => rest
      | l => l
    match numeral.head? with
    | some c => c == 46 || isDigit c
    | none => false

/-- utils.rs `break_minus`. -/
def breakMinus (last : List Nat) : Bool := last.getLast? == some 45
/-- utils.rs `break_equal`. -/
def breakEqual (last : List Nat) : Bool := last.getLast? == some 62
/-- utils.rs `break_long_string`. -/
def breakLongString (last : List Nat) : Bool := last.getLast? == some 91

end DarkluaModel.C02
