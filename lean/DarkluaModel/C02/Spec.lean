/-
C02 — REFERENCE expression grammar, written independently of darklua's precedence table.

It is the operator-precedence parser of the reference Lua implementation (`lparser.c`:
`subexpr`, `simpleexp`, the `priority[]` table and `UNARY_PRIORITY`), i.e. the Lua manual's
precedence list

    or < and < comparison < .. (right) < + - < * / // % < unary (not # -) < ^ (right)

extended with the two Luau forms that interact with operators: the if-expression (a simple
expression whose `else` branch is a full expression, so it extends as far right as possible)
and the type assertion `e :: T` (a suffix of a simple expression, binding tighter than every
operator). Nothing here looks at `BinOp.getPrecedence` or at the `*NeedsParentheses` functions.
-/
import DarkluaModel.C02.Model
namespace DarkluaModel.C02

/-- `lparser.c` `priority[].left` (Lua 5.1 numbers; `//` sits with `/` as in Lua 5.3/Luau). -/
def leftPrio : BinOp → Nat
  | .or => 1
  | .and => 2
  | .eq | .ne | .lt | .le | .gt | .ge => 3
  | .concat => 5
  | .add | .sub => 6
  | .mul | .div | .idiv | .mod => 7
  | .pow => 10

/-- `lparser.c` `priority[].right`: right-associative operators have `right < left`. -/
def rightPrio : BinOp → Nat
  | .or => 1
  | .and => 2
  | .eq | .ne | .lt | .le | .gt | .ge => 3
  | .concat => 4
  | .add | .sub => 6
  | .mul | .div | .idiv | .mod => 7
  | .pow => 9

/-- `lparser.c` `UNARY_PRIORITY`. -/
def unaryPrio : Nat := 8

def binOfTok : Tok → Option BinOp
  | .minus => some .sub
  | .bop op => some op
  | _ => none

def unOfTok : Tok → Option UnOp
  | .minus => some .neg
  | .knot => some .not
  | .hash => some .len
  | _ => none

/-- optional `:: T` suffix of a simple expression (Luau `parseAssertionExpr`). -/
def castSuffix (e : E) : List Tok → Option (E × List Tok)
  | .dcolon :: .tname t :: r => some (.cast e t, r)
  | .dcolon :: _ => none
  | r => some (e, r)

mutual
/-- `subexpr(limit)`: `(simpleexp | unop subexpr(UNARY)) { binop subexpr(right) }`, consuming
binary operators while their left priority exceeds `limit`. Fuel bounds the call depth. -/
def sub : Nat → Nat → List Tok → Option (E × List Tok)
  | 0, _, _ => none
  | f + 1, limit, ts =>
    match ts with
    | [] => none
    | t :: ts' =>
      match unOfTok t with
      | some u =>
        match sub f unaryPrio ts' with
        | some (e, r) => loop f limit (.un u e) r
        | none => none
      | none =>
        match simple f (t :: ts') with
        | some (e, r) => loop f limit e r
        | none => none
/-- the `while (op != OPR_NOBINOPR && priority[op].left > limit)` loop of `subexpr`. -/
def loop : Nat → Nat → E → List Tok → Option (E × List Tok)
  | 0, _, _, _ => none
  | f + 1, limit, e, ts =>
    match ts with
    | [] => some (e, [])
    | t :: ts' =>
      match binOfTok t with
      | some o =>
        if limit < leftPrio o then
          match sub f (rightPrio o) ts' with
          | some (r, rest) => loop f limit (.bin o e r) rest
          | none => none
        else some (e, t :: ts')
      | none => some (e, t :: ts')
/-- `simpleexp` (atoms, parenthesised expression, if-expression), then an optional `:: T`. -/
def simple : Nat → List Tok → Option (E × List Tok)
  | 0, _ => none
  | f + 1, ts =>
    match ts with
    | .atom k :: r => castSuffix (.atom k) r
    | .lp :: r =>
      match sub f 0 r with
      | some (e, .rp :: r') => castSuffix (.paren e) r'
      | _ => none
    | .kif :: r =>
      match sub f 0 r with
      | some (c, .kthen :: r1) =>
        match sub f 0 r1 with
        | some (a, .kelse :: r2) =>
          match sub f 0 r2 with
          | some (b, r3) => some (.ifexp c a b, r3)
          | none => none
        | _ => none
      | _ => none
    | _ => none
end

/-- Parse a whole token list as one expression. -/
def parseE (fuel : Nat) (ts : List Tok) : Option E :=
  match sub fuel 0 ts with
  | some (e, []) => some e
  | _ => none

/-- fuel that is always enough for a token list (each call level consumes a token within two
steps); used by the driver. -/
def parseFuel (ts : List Tok) : Nat := 3 * ts.length + 4

/-- Printer that takes no decision at all: writes exactly the tree's own tokens. -/
def flat : E → List Tok
  | .atom k => [.atom k]
  | .negnum k => [.minus, .atom k]
  | .paren e => .lp :: (flat e ++ [.rp])
  | .ifexp c a b => .kif :: (flat c ++ .kthen :: (flat a ++ .kelse :: flat b))
  | .cast e t => flat e ++ [.dcolon, .tname t]
  | .un u e => tokOfUn u :: flat e
  | .bin o l r => flat l ++ tokOfBin o :: flat r

/-- A negative number literal *is*, for any lexer, a unary minus applied to a number. -/
def reify : E → E
  | .atom k => .atom k
  | .negnum k => .un .neg (.atom k)
  | .paren e => .paren (reify e)
  | .ifexp c a b => .ifexp (reify c) (reify a) (reify b)
  | .cast e t => .cast (reify e) t
  | .un u e => .un u (reify e)
  | .bin o l r => .bin o (reify l) (reify r)

/-- remove the outer parentheses of an operand -/
def strip : E → E
  | .paren e => strip e
  | e => e

/-- Trees modulo parentheses that are the direct operand of a unary or binary operator or of
a type assertion (single-value positions, where `( X )` is the identity). Parentheses anywhere
else are kept. -/
def norm : E → E
  | .atom k => .atom k
  | .negnum k => .negnum k
  | .paren e => .paren (norm e)
  | .ifexp c a b => .ifexp (norm c) (norm a) (norm b)
  | .cast e t => .cast (strip (norm e)) t
  | .un u e => .un u (strip (norm e))
  | .bin o l r => .bin o (strip (norm l)) (strip (norm r))

end DarkluaModel.C02

/-! ### reference: which adjacent characters fuse (Lua 5.1 §2.1 + Luau lexer token classes)

`lexFuse c₁ c₂`: if a token ending in `c₁` is directly followed by a token starting with `c₂`,
a lexer does NOT cut between them (the two characters continue one token or start a different
one). Written from the token classes, independently of `should_break_with_space`. -/
namespace DarkluaModel.C02

/-- letters, digits, underscore: identifiers, keywords and the alphanumeric tail of numerals -/
def isWordChar (c : Nat) : Bool :=
  (48 ≤ c && c ≤ 57) || (65 ≤ c && c ≤ 90) || (97 ≤ c && c ≤ 122) || c == 95

/-- two-character symbols and openers of Lua 5.1 and Luau:
`== ~= <= >= .. :: // -- -> [[ [= += -= *= /= %= ^=` and `.=` (the end of `..=`). -/
def twoCharTokens : List (Nat × Nat) :=
  [(61, 61), (126, 61), (60, 61), (62, 61), (46, 46), (58, 58), (47, 47), (45, 45), (45, 62),
   (91, 91), (91, 61), (43, 61), (45, 61), (42, 61), (47, 61), (37, 61), (94, 61), (46, 61)]

def inPairs (l : List (Nat × Nat)) (a b : Nat) : Bool := l.any fun p => p.1 == a && p.2 == b

def lexFuse (c₁ c₂ : Nat) : Bool :=
  (isWordChar c₁ && isWordChar c₂)                 -- a name / keyword / numeral keeps going
    || ((48 ≤ c₁ && c₁ ≤ 57) && c₂ == 46)          -- `1` `.`  : the numeral absorbs the dot
    || (c₁ == 46 && (48 ≤ c₂ && c₂ ≤ 57))          -- `.` `5`  : a dot followed by a digit is a numeral
    || inPairs twoCharTokens c₁ c₂

/-- Pairs of `twoCharTokens` that `should_break_with_space` does not separate and that the
writers never juxtapose as the end of one push and the start of the next, with the reason:
* `=`·`=`, `~`·`=`, `<`·`=`, `+ - * / % ^ .`·`=`: after `=`/`<`/an operator comes an expression
  or a type, neither starts with `=`; `~` is only ever pushed inside `~=`; compound operators
  are pushed as one string;
* `:`·`:`: after `:` comes a name or a type; `::` is pushed as one string;
* `/`·`/`: after `/` comes an expression; `//` is pushed as one string;
* `-`·`>`: after `-` comes an expression; `->` is pushed inside `)->`;
* `[`·`=`: after `[` comes an expression or a long string, which starts with `[`
  (handled by `break_long_string`);
* `.`·`=` is listed for the token `..` followed by `=` (would read `..=`): after `..` comes an
  expression. After the token `...` the pair does occur (`...==x`) and is harmless: every lexer
  takes `...` first.
The harness also searches every real trace for these pairs at push boundaries. -/
def neverJuxtaposed : List (Nat × Nat) :=
  [(61, 61), (126, 61), (60, 61), (58, 58), (47, 47), (45, 62), (91, 61),
   (43, 61), (45, 61), (42, 61), (47, 61), (37, 61), (94, 61), (46, 61)]

end DarkluaModel.C02
