import DarkluaModel.Rules.UnusedIfBranch
import DarkluaModel.Shared.Run
/-!
# `remove_unused_if_branch` — local soundness of the if-EXPRESSION rewrite (`simplify_if`)

For an evaluator sound on `good`: every error-free evaluation of
`if c then t (elseif c' then t')* else e` is an evaluation of `simplify_if`'s result with the
same values and the same state — provided the conditions the evaluator decides are in `good`,
those that are dropped allocate nothing, and the results are in `good` (for the
"cannot return multiple values" analysis).
-/
namespace DarkluaModel.Rules.UnusedIfBranch.ExprSound
open DarkluaModel.Sem DarkluaModel.Rules DarkluaModel.Rules.UnusedIfBranch

/-- `[first vs]` of an evaluation -/
def one {N : NumOps} (r : Res N (List (Val N))) : Res N (List (Val N)) :=
  r.bind fun vs σ => .ok [first vs] σ

/-- what happens after the first condition was false -/
def tailSem {N : NumOps} (call : CallFn N) (ρ : ExtOracle N) (k : Nat) (env : Env N)
    (elifs : List (Expr × Expr)) (e : Expr) (σ : State N) : Res N (List (Val N)) :=
  (evalElifs call ρ k env elifs σ).bind fun r σ2 =>
    match r with
    | some vs => .ok vs σ2
    | none => one (evalE call ρ k env e σ2)

theorem evalE_ifx {N : NumOps} (call : CallFn N) (ρ : ExtOracle N) (k : Nat) (env : Env N)
    (c t : Expr) (elifs : List (Expr × Expr)) (e : Expr) (σ : State N) :
    evalE call ρ k env (.ifx c t elifs e) σ =
      (evalE call ρ k env c σ).bind fun cv σ1 =>
        if (first cv).truthy then one (evalE call ρ k env t σ1) else tailSem call ρ k env elifs e σ1 := by
  rw [evalE]
  rfl

theorem tailSem_nil {N : NumOps} (call : CallFn N) (ρ : ExtOracle N) (k : Nat) (env : Env N) (e : Expr) (σ : State N) :
    tailSem call ρ k env [] e σ = one (evalE call ρ k env e σ) := by
  simp [tailSem, evalElifs, Res.bind]

theorem tailSem_cons {N : NumOps} (call : CallFn N) (ρ : ExtOracle N) (k : Nat) (env : Env N)
    (c t : Expr) (rest : List (Expr × Expr)) (e : Expr) (σ : State N) :
    tailSem call ρ k env ((c, t) :: rest) e σ = evalE call ρ k env (.ifx c t rest e) σ := by
  rw [evalE_ifx, tailSem, evalElifs]
  cases hc : evalE call ρ k env c σ with
  | timeout => rfl
  | err v σ1 => rfl
  | ok cv σ1 =>
    simp only [Res.bind]
    by_cases ht : (first cv).truthy = true
    · simp only [ht, if_true, one]
      cases evalE call ρ k env t σ1 <;> rfl
    · simp only [ht, Bool.false_eq_true, if_false]
      rfl

/-- hypotheses on one decided condition -/
def condOk (api : EvalApi) (good : Expr → Prop) (c : Expr) : Prop :=
  api.isTruthy c ≠ none → good c ∧ (api.hasSideEffects c = false → noAlloc c = true)

def elifsOk (api : EvalApi) (good : Expr → Prop) : List (Expr × Expr) → Prop
  | [] => True
  | (c, t) :: rest => condOk api good c ∧ good t ∧ elifsOk api good rest

theorem one_paren {N : NumOps} (call : CallFn N) (ρ : ExtOracle N) (k : Nat) (env : Env N) (t : Expr) (σ : State N) :
    evalE call ρ k env (.paren t) σ = one (evalE call ρ k env t σ) := by
  rw [evalE]; rfl

/-- `wrap`: the result, in parentheses when it might be multi-valued, has the one-value semantics -/
theorem wrap_sound {N : NumOps} {api : EvalApi} {good : Expr → Prop} (hs : EvalSound N api good)
    (call : CallFn N) (ρ : ExtOracle N) (k : Nat) (env : Env N) (t : Expr) (hg : good t)
    (σ σ' : State N) (vs : List (Val N)) (h : one (evalE call ρ k env t σ) = .ok vs σ') :
    evalE call ρ k env (wrap api t) σ = .ok vs σ' := by
  unfold wrap
  by_cases hm : api.canReturnMultiple t = true
  · simp only [hm, if_true, one_paren]; exact h
  · have hm' : api.canReturnMultiple t = false := by simpa using hm
    simp only [hm', Bool.false_eq_true, if_false]
    simp only [one] at h
    cases ht : evalE call ρ k env t σ with
    | timeout => simp [ht, Res.bind] at h
    | err v σ1 => simp [ht, Res.bind] at h
    | ok ws σ1 =>
      simp [ht, Res.bind] at h
      rw [hs.single t hg hm' call ρ k env σ σ1 ws ht, h.1, h.2]

theorem retainElifs_stopped (api : EvalApi) (elifs : List (Expr × Expr)) (st : Retain Expr) (h : st.keepNext = false) :
    retainElifs api elifs st = ([], st) := by
  induction elifs with
  | nil => rfl
  | cons p rest ih => obtain ⟨c, b⟩ := p; simp [retainElifs, h, ih]

/-- the else result after `retain_elseif_branches_mut` -/
def elseAfter (st : Retain Expr) (e : Expr) : Expr :=
  if st.keepNext then e else st.replaceElse.getD .nil

theorem retainElifs_refines {N : NumOps} {api : EvalApi} {good : Expr → Prop} (hs : EvalSound N api good)
    (call : CallFn N) (ρ : ExtOracle N) (k : Nat) (env : Env N) (e : Expr)
    (elifs : List (Expr × Expr)) (hg : elifsOk api good elifs) (σ σ' : State N) (vs : List (Val N))
    (h : tailSem call ρ k env elifs e σ = .ok vs σ') :
    tailSem call ρ k env (retainElifs api elifs {}).1 (elseAfter (retainElifs api elifs {}).2 e) σ = .ok vs σ' := by
  induction elifs generalizing σ with
  | nil => simpa [retainElifs, elseAfter] using h
  | cons p rest ih =>
    obtain ⟨c, t⟩ := p
    obtain ⟨hgc, hgt, hgrest⟩ := hg
    rw [tailSem_cons, evalE_ifx] at h
    cases hc : evalE call ρ k env c σ with
    | timeout => simp [hc, Res.bind] at h
    | err v σ1 => simp [hc, Res.bind] at h
    | ok cv σ1 =>
      simp only [hc, Res.bind] at h
      cases ht : api.isTruthy c with
      | none =>
        simp only [retainElifs, ht, Bool.not_true, Bool.false_eq_true, if_false]
        rw [tailSem_cons, evalE_ifx]
        simp only [hc, Res.bind]
        by_cases htr : (first cv).truthy = true
        · simpa [htr] using h
        · simp only [htr] at h ⊢
          exact ih hgrest σ1 h
      | some tv =>
        have ⟨hgood, hna⟩ := hgc (by simp [ht])
        have htruth := hs.truthy c tv hgood ht call ρ k env σ σ1 cv hc
        cases tv with
        | true =>
          simp only [htruth, if_true] at h
          by_cases hse : api.hasSideEffects c = true
          · simp only [retainElifs, ht, hse, Bool.not_true, Bool.false_eq_true, if_false, if_true,
              retainElifs_stopped api rest { keepNext := false, replaceElse := none } rfl]
            rw [tailSem_cons, evalE_ifx]
            simp [hc, Res.bind, htruth, h]
          · have hse' : api.hasSideEffects c = false := by simpa using hse
            have hpure := hs.pure c hgood hse' (hna hse') call ρ k env σ σ1 cv hc
            subst hpure
            simp only [retainElifs, ht, hse', Bool.not_true, Bool.false_eq_true, if_false,
              retainElifs_stopped api rest { keepNext := false, replaceElse := some t } rfl]
            simpa [tailSem_nil, elseAfter] using h
        | false =>
          simp only [htruth, Bool.false_eq_true, if_false] at h
          by_cases hse : api.hasSideEffects c = true
          · simp only [retainElifs, ht, hse, Bool.not_true, Bool.false_eq_true, if_false, if_true]
            rw [tailSem_cons, evalE_ifx]
            simp only [hc, Res.bind, htruth, Bool.false_eq_true, if_false]
            exact ih hgrest σ1 h
          · have hse' : api.hasSideEffects c = false := by simpa using hse
            have hpure := hs.pure c hgood hse' (hna hse') call ρ k env σ σ1 cv hc
            subst hpure
            simp only [retainElifs, ht, hse', Bool.not_true, Bool.false_eq_true, if_false]
            exact ih hgrest σ1 h

/-- `simplify_if` refines, in every context -/
theorem simplifyIf_refines {N : NumOps} {api : EvalApi} {good : Expr → Prop} (hs : EvalSound N api good)
    (call : CallFn N) (ρ : ExtOracle N) (k : Nat) (env : Env N)
    (elifs : List (Expr × Expr)) (e : Expr) (hge : good e) :
    ∀ (c t : Expr), condOk api good c → good t → elifsOk api good elifs →
    ∀ (σ σ' : State N) (vs : List (Val N)),
      evalE call ρ k env (.ifx c t elifs e) σ = .ok vs σ' →
      evalE call ρ k env (simplifyIf api c t elifs e) σ = .ok vs σ' := by
  induction elifs with
  | nil =>
    intro c t hgc hgt _ σ σ' vs h
    rw [evalE_ifx] at h
    cases hc : evalE call ρ k env c σ with
    | timeout => simp [hc, Res.bind] at h
    | err v σ1 => simp [hc, Res.bind] at h
    | ok cv σ1 =>
      simp only [hc, Res.bind] at h
      cases ht : api.isTruthy c with
      | none =>
        have hsimp : simplifyIf api c t [] e = .ifx c t [] e := by
          simp [simplifyIf, ht, retainElifs]
        rw [hsimp, evalE_ifx]; simpa [hc, Res.bind] using h
      | some tv =>
        have ⟨hgood, hna⟩ := hgc (by simp [ht])
        have htruth := hs.truthy c tv hgood ht call ρ k env σ σ1 cv hc
        cases tv with
        | true =>
          simp only [htruth, if_true] at h
          by_cases hse : api.hasSideEffects c = true
          · simp only [simplifyIf, ht, hse, if_true]
            rw [evalE_ifx]; simp [hc, Res.bind, htruth, h]
          · have hse' : api.hasSideEffects c = false := by simpa using hse
            have hpure := hs.pure c hgood hse' (hna hse') call ρ k env σ σ1 cv hc
            subst hpure
            simp only [simplifyIf, ht, hse', Bool.false_eq_true, if_false]
            exact wrap_sound hs call ρ k env t hgt σ1 σ' vs h
        | false =>
          simp only [htruth, Bool.false_eq_true, if_false, tailSem_nil] at h
          by_cases hse : api.hasSideEffects c = true
          · simp only [simplifyIf, ht, hse, if_true]
            rw [evalE_ifx]; simp [hc, Res.bind, htruth, tailSem_nil, h]
          · have hse' : api.hasSideEffects c = false := by simpa using hse
            have hpure := hs.pure c hgood hse' (hna hse') call ρ k env σ σ1 cv hc
            subst hpure
            simp only [simplifyIf, ht, hse', Bool.false_eq_true, if_false]
            exact wrap_sound hs call ρ k env e hge σ1 σ' vs h
  | cons p rest ih =>
    obtain ⟨c', t'⟩ := p
    intro c t hgc hgt hgel σ σ' vs h
    rw [evalE_ifx] at h
    cases hc : evalE call ρ k env c σ with
    | timeout => simp [hc, Res.bind] at h
    | err v σ1 => simp [hc, Res.bind] at h
    | ok cv σ1 =>
      simp only [hc, Res.bind] at h
      cases ht : api.isTruthy c with
      | none =>
        simp only [simplifyIf, ht]
        generalize hret : retainElifs api ((c', t') :: rest) {} = ret
        obtain ⟨kept, st⟩ := ret
        have key : ∀ vs σ', tailSem call ρ k env ((c', t') :: rest) e σ1 = .ok vs σ' →
            tailSem call ρ k env kept (elseAfter st e) σ1 = .ok vs σ' := by
          intro vs σ' h'
          have := retainElifs_refines hs call ρ k env e ((c', t') :: rest) hgel σ1 σ' vs h'
          rw [hret] at this; exact this
        have goal : evalE call ρ k env (.ifx c t kept (elseAfter st e)) σ = .ok vs σ' := by
          rw [evalE_ifx]
          simp only [hc, Res.bind]
          by_cases htr : (first cv).truthy = true
          · simpa [htr] using h
          · simp only [htr] at h ⊢
            exact key vs σ' h
        by_cases hkn : st.keepNext = true
        · simpa [elseAfter, hkn] using goal
        · have hkn' : st.keepNext = false := by simpa using hkn
          simpa [elseAfter, hkn'] using goal
      | some tv =>
        have ⟨hgood, hna⟩ := hgc (by simp [ht])
        have htruth := hs.truthy c tv hgood ht call ρ k env σ σ1 cv hc
        cases tv with
        | true =>
          simp only [htruth, if_true] at h
          by_cases hse : api.hasSideEffects c = true
          · simp only [simplifyIf, ht, hse, if_true]
            rw [evalE_ifx]; simp [hc, Res.bind, htruth, h]
          · have hse' : api.hasSideEffects c = false := by simpa using hse
            have hpure := hs.pure c hgood hse' (hna hse') call ρ k env σ σ1 cv hc
            subst hpure
            simp only [simplifyIf, ht, hse', Bool.false_eq_true, if_false]
            exact wrap_sound hs call ρ k env t hgt σ1 σ' vs h
        | false =>
          simp only [htruth, Bool.false_eq_true, if_false] at h
          by_cases hse : api.hasSideEffects c = true
          · simp only [simplifyIf, ht, hse, if_true]
            rw [evalE_ifx]; simp [hc, Res.bind, htruth, h]
          · have hse' : api.hasSideEffects c = false := by simpa using hse
            have hpure := hs.pure c hgood hse' (hna hse') call ρ k env σ σ1 cv hc
            subst hpure
            simp only [simplifyIf, ht, hse', Bool.false_eq_true, if_false]
            rw [tailSem_cons] at h
            exact ih c' t' hgel.1 hgel.2.1 hgel.2.2 σ1 σ' vs h

end DarkluaModel.Rules.UnusedIfBranch.ExprSound
