import DarkluaModel.Rules.EvalApi
/-!
# A small evaluator instance that is PROVED sound (`EvalSound`), for non-vacuity

`litApi` answers only on literals (`nil`, `false`, `true`, strings; numbers, variables are
side-effect free) and is conservative everywhere else. It shows that the hypothesis
`EvalSound api good` of the local lemmas is satisfiable by an instance on which the rules
fire. The full evaluator's soundness is property C08.

Also: `canReturnMultiple_sound` — the syntactic `can_return_multiple_values` analysis is
sound for the reference semantics (for every expression that is not a type instantiation).
-/
namespace DarkluaModel.Rules
open Sem

def litApi : EvalApi where
  kind e := match e with
    | .nil => .nil | .false => .false_ | .true => .true_ | .str s => .string s | _ => .unknown
  toExpr e := match e with
    | .nil => some .nil | .false => some .false | .true => some .true | .str s => some (.str s) | _ => none
  hasSideEffects e := match e with
    | .nil | .false | .true | .str _ | .num _ | .var _ => false
    | _ => true
  -- conservative on type instantiations (`f<<T>>` of a call is multi-valued in the reference semantics)
  canReturnMultiple e := match e with
    | .inst _ _ => true
    | _ => canReturnMultiple e

def notInst : Expr → Prop
  | .inst _ _ => False
  | _ => True

theorem evalElifs_single {N : NumOps} (call : CallFn N) (ρ : ExtOracle N) (k : Nat) (env : Env N)
    (elifs : List (Expr × Expr)) (σ σ' : State N) (vs : List (Val N))
    (h : evalElifs call ρ k env elifs σ = .ok (some vs) σ') : vs = [first vs] := by
  induction elifs generalizing σ with
  | nil => simp [evalElifs] at h
  | cons p rest ih =>
    obtain ⟨c, t⟩ := p
    simp only [evalElifs] at h
    cases hc : evalE call ρ k env c σ with
    | timeout => simp [hc, Res.bind] at h
    | err v σ1 => simp [hc, Res.bind] at h
    | ok cv σ1 =>
      simp only [hc, Res.bind] at h
      by_cases ht : (first cv).truthy = true
      · simp only [ht, if_true] at h
        cases hx : evalE call ρ k env t σ1 with
        | timeout => simp [hx] at h
        | err v σ2 => simp [hx] at h
        | ok ws σ2 =>
          simp [hx] at h
          rw [← h.1]; simp [first]
      · simp only [ht] at h
        exact ih σ1 h

/-- `can_return_multiple_values(e) = false` ⇒ every successful evaluation yields exactly one value -/
theorem canReturnMultiple_sound {N : NumOps} (call : CallFn N) (ρ : ExtOracle N) (k : Nat) (env : Env N)
    (e : Expr) (hm : canReturnMultiple e = false) (hi : notInst e) (σ σ' : State N) (vs : List (Val N))
    (h : evalE call ρ k env e σ = .ok vs σ') : vs = [first vs] := by
  cases e with
  | nil | «true» | «false» | num _ | str _ | var _ =>
    simp [evalE] at h; rw [← h.1]; simp [first]
  | vararg => simp [canReturnMultiple] at hm
  | un op x => simp [canReturnMultiple] at hm
  | call f m kd args => simp [canReturnMultiple] at hm
  | inst x t => exact absurd hi (by simp [notInst])
  | paren x =>
    simp only [evalE] at h
    cases hx : evalE call ρ k env x σ <;> simp [hx, Res.bind] at h
    rw [← h.1]; simp [first]
  | cast x t =>
    simp only [evalE] at h
    cases hx : evalE call ρ k env x σ <;> simp [hx, Res.bind] at h
    rw [← h.1]; simp [first]
  | fn body =>
    simp [evalE] at h; rw [← h.1]; simp [first]
  | field x n =>
    simp only [evalE] at h
    cases hx : evalE call ρ k env x σ with
    | timeout => simp [hx, Res.bind] at h
    | err v σ1 => simp [hx, Res.bind] at h
    | ok xs σ1 =>
      simp only [hx, Res.bind] at h
      cases hy : indexVal call ρ k (first xs) (strVal n) σ1 <;> simp [hy] at h
      rw [← h.1]; simp [first]
  | index x i =>
    simp only [evalE] at h
    cases hx : evalE call ρ k env x σ with
    | timeout => simp [hx, Res.bind] at h
    | err v σ1 => simp [hx, Res.bind] at h
    | ok xs σ1 =>
      simp only [hx, Res.bind] at h
      cases hz : evalE call ρ k env i σ1 with
      | timeout => simp [hz] at h
      | err v σ2 => simp [hz] at h
      | ok is σ2 =>
        simp only [hz] at h
        cases hy : indexVal call ρ k (first xs) (first is) σ2 <;> simp [hy] at h
        rw [← h.1]; simp [first]
  | table es =>
    simp only [evalE] at h
    cases hy : evalEntries call ρ k env (σ.allocTable { entries := [], mt := none }).1 1 es
        (σ.allocTable { entries := [], mt := none }).2 <;> simp [hy, Res.bind] at h
    rw [← h.1]; simp [first]
  | interp segs =>
    simp only [evalE] at h
    cases hy : evalSegs call ρ k env segs [] σ <;> simp [hy, Res.bind] at h
    rw [← h.1]; simp [first]
  | bin op l r =>
    cases op with
    | and =>
      simp only [evalE] at h
      cases hx : evalE call ρ k env l σ with
      | timeout => simp [hx, Res.bind] at h
      | err v σ1 => simp [hx, Res.bind] at h
      | ok xs σ1 =>
        simp only [hx, Res.bind] at h
        by_cases ht : (first xs).truthy = true
        · simp only [ht, if_true] at h
          cases hy : evalE call ρ k env r σ1 <;> simp [hy] at h
          rw [← h.1]; simp [first]
        · simp [ht] at h; rw [← h.1]; simp [first]
    | or =>
      simp only [evalE] at h
      cases hx : evalE call ρ k env l σ with
      | timeout => simp [hx, Res.bind] at h
      | err v σ1 => simp [hx, Res.bind] at h
      | ok xs σ1 =>
        simp only [hx, Res.bind] at h
        by_cases ht : (first xs).truthy = true
        · simp [ht] at h; rw [← h.1]; simp [first]
        · simp only [ht] at h
          cases hy : evalE call ρ k env r σ1 <;> simp [hy] at h
          rw [← h.1]; simp [first]
    | _ => simp [canReturnMultiple] at hm
  | ifx c t elifs el =>
    simp only [evalE] at h
    cases hx : evalE call ρ k env c σ with
    | timeout => simp [hx, Res.bind] at h
    | err v σ1 => simp [hx, Res.bind] at h
    | ok cv σ1 =>
      simp only [hx, Res.bind] at h
      by_cases ht : (first cv).truthy = true
      · simp only [ht, if_true] at h
        cases hy : evalE call ρ k env t σ1 <;> simp [hy] at h
        rw [← h.1]; simp [first]
      · simp only [ht] at h
        cases hy : evalElifs call ρ k env elifs σ1 with
        | timeout => simp [hy] at h
        | err v σ2 => simp [hy] at h
        | ok r σ2 =>
          simp only [hy] at h
          cases r with
          | some ws =>
            simp at h
            rw [← h.1]
            exact evalElifs_single call ρ k env elifs σ1 σ2 ws hy
          | none =>
            simp only at h
            cases hz : evalE call ρ k env el σ2 <;> simp [hz] at h
            rw [← h.1]; simp [first]

theorem litApi_sound (N : NumOps) : EvalSound N litApi notInst where
  truthy e b _ ht call ρ k env σ σ' vs h := by
    cases e <;> simp [EvalApi.isTruthy, litApi, LuaKind.isTruthy] at ht <;>
      (simp [evalE] at h; rw [← h.1]; subst ht; simp [first, Val.truthy])
  pure e _ hs _ call ρ k env σ σ' vs h := by
    cases e <;> simp [litApi] at hs <;> (simp [evalE] at h; exact h.2.symm)
  str e s _ hk call ρ k env σ σ' vs h := by
    cases e <;> simp [litApi] at hk
    simp [evalE] at h; rw [← h.1, hk]; simp [first]
  single e hg hm call ρ k env σ σ' vs h := by
    cases e with
    | inst x t => exact absurd hg (by simp [notInst])
    | _ => exact canReturnMultiple_sound call ρ k env _ (by simpa [litApi] using hm) hg σ σ' vs h

theorem litApi_total (N : NumOps) : EvalTotal N litApi where
  decided e b ht call ρ k env σ σ' vs h := (litApi_sound N).truthy e b (by cases e <;> simp [EvalApi.isTruthy, litApi, LuaKind.isTruthy] at ht <;> trivial) ht call ρ k env σ σ' vs h
  pureTotal e b ht _ call ρ k env σ := by
    cases e <;> simp [EvalApi.isTruthy, litApi, LuaKind.isTruthy] at ht <;> (right; simp [evalE])
  single e hm call ρ k env σ σ' vs h := by
    cases e with
    | inst x t => simp [litApi] at hm
    | _ => exact canReturnMultiple_sound call ρ k env _ (by simpa [litApi] using hm) (by simp [notInst]) σ σ' vs h

end DarkluaModel.Rules
