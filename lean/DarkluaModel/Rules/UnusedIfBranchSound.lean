import DarkluaModel.Rules.UnusedIfBranch
import DarkluaModel.Shared.Run
/-!
# `remove_unused_if_branch` — local soundness of the statement rewrite

For an evaluator that is sound on `good`: every error-free run of `if … elseif … else … end`
is a run of what `simplify_if_statement` leaves in its place (nothing, a `do` block, or a
smaller `if`), with the same control outcome and the same state — provided the conditions the
evaluator decides are in `good`, and those that are dropped allocate nothing.
-/
namespace DarkluaModel.Rules.UnusedIfBranch.Sound
open DarkluaModel.Sem DarkluaModel.Rules DarkluaModel.Rules.UnusedIfBranch


/-- what an `else` part does (`none`: nothing) — `execS` of the `do` block -/
def elseSem {N : NumOps} (call : CallFn N) (ρ : ExtOracle N) (k : Nat) (env : Env N) : Option Block → State N → Res N (Ctl N)
  | none, σ => .ok (.next env) σ
  | some b, σ => execS call ρ k env (.doBlock b) σ

/-- branches followed by an else part -/
def sem {N : NumOps} (call : CallFn N) (ρ : ExtOracle N) (k : Nat) (env : Env N) (brs : List (Expr × Block)) (els : Option Block)
    (σ : State N) : Res N (Ctl N) :=
  (execBranches call ρ k env brs σ).bind fun r σ1 =>
    match r with
    | some c => .ok c σ1
    | none => elseSem call ρ k env els σ1

theorem execS_ifs {N : NumOps} (call : CallFn N) (ρ : ExtOracle N) (k : Nat) (env : Env N) (brs : List (Expr × Block))
    (els : Option Block) (σ : State N) :
    execS call ρ k env (.ifs brs els) σ = sem call ρ k env brs els σ := by
  rw [execS, sem]
  generalize execBranches call ρ k env brs σ = x
  cases x with
  | timeout => rfl
  | err v σ1 => rfl
  | ok r σ1 =>
    cases r with
    | some c => rfl
    | none =>
      cases els with
      | none => rfl
      | some b =>
        show _ = execS call ρ k env (.doBlock b) σ1
        rw [execS]
        rfl

theorem sem_nil {N : NumOps} (call : CallFn N) (ρ : ExtOracle N) (k : Nat) (env : Env N) (els : Option Block) (σ : State N) :
    sem call ρ k env [] els σ = elseSem call ρ k env els σ := by
  simp [sem, execBranches, Res.bind]

/-- one branch in front -/
theorem sem_cons {N : NumOps} (call : CallFn N) (ρ : ExtOracle N) (k : Nat) (env : Env N) (c : Expr) (b : Block)
    (rest : List (Expr × Block)) (els : Option Block) (σ : State N) :
    sem call ρ k env ((c, b) :: rest) els σ =
      (evalE call ρ k env c σ).bind fun cv σ1 =>
        if (first cv).truthy then execS call ρ k env (.doBlock b) σ1 else sem call ρ k env rest els σ1 := by
  simp only [sem, execBranches]
  cases hc : evalE call ρ k env c σ with
  | timeout => simp [Res.bind]
  | err v σ1 => simp [Res.bind]
  | ok cv σ1 =>
    simp only [Res.bind]
    by_cases ht : (first cv).truthy = true
    · simp only [ht, if_true, execS]
      cases hb : execB call ρ k env b σ1 with
      | timeout => rfl
      | err v σ2 => rfl
      | ok cb σ2 => cases cb <;> rfl
    · simp [ht]

theorem elseSem_empty {N : NumOps} (call : CallFn N) (ρ : ExtOracle N) (k : Nat) (env : Env N) (b : Block)
    (hb : blockIsEmpty b = true) (σ : State N) :
    elseSem call ρ k env (some b) σ = .ok (.next env) σ := by
  match b, hb with
  | .mk [] none, _ => simp [elseSem, execS, execB, execSs, Res.bind]

/-- the conditions the evaluator decides are in the sound region; the dropped ones allocate nothing -/
def condsGood (api : EvalApi) (good : Expr → Prop) : List (Expr × Block) → Prop
  | [] => True
  | (c, _) :: rest =>
    (api.isTruthy c ≠ none → good c ∧ (api.hasSideEffects c = false → noAlloc c = true)) ∧
      condsGood api good rest

theorem retain_stopped (api : EvalApi) (brs : List (Expr × Block)) (st : Retain Block) (h : st.keepNext = false) :
    retainBranches api brs st = ([], st) := by
  induction brs with
  | nil => rfl
  | cons p rest ih => obtain ⟨c, b⟩ := p; simp [retainBranches, h, ih]

/-- the else part after `retain_branches_mut` -/
def elseAfter (st : Retain Block) (els1 : Option Block) : Option Block :=
  if st.keepNext then els1 else st.replaceElse

theorem retain_refines {N : NumOps} {api : EvalApi} {good : Expr → Prop} (hs : EvalSound N api good)
    (call : CallFn N) (ρ : ExtOracle N) (k : Nat) (env : Env N) (els1 : Option Block)
    (brs : List (Expr × Block)) (hg : condsGood api good brs) (σ σ' : State N) (ctl : Ctl N)
    (h : sem call ρ k env brs els1 σ = .ok ctl σ') :
    sem call ρ k env (retainBranches api brs {}).1 (elseAfter (retainBranches api brs {}).2 els1) σ = .ok ctl σ' := by
  induction brs generalizing σ with
  | nil => simpa [retainBranches, elseAfter] using h
  | cons p rest ih =>
    obtain ⟨c, b⟩ := p
    obtain ⟨hgc, hgrest⟩ := hg
    rw [sem_cons] at h
    cases hc : evalE call ρ k env c σ with
    | timeout => simp [hc, Res.bind] at h
    | err v σ1 => simp [hc, Res.bind] at h
    | ok cv σ1 =>
      simp only [hc, Res.bind] at h
      cases ht : api.isTruthy c with
      | none =>
        -- branch kept as it is
        simp only [retainBranches, ht, Bool.not_true, Bool.false_eq_true, if_false]
        rw [sem_cons]
        simp only [hc, Res.bind]
        by_cases htr : (first cv).truthy = true
        · simpa [htr] using h
        · simp only [htr] at h ⊢
          exact ih hgrest σ1 h
      | some tv =>
        have ⟨hgood, hna⟩ := hgc (by simp [ht])
        have htruth := hs.truthy c tv hgood ht call ρ k env σ σ1 cv hc
        cases tv with
        | true =>
          simp only [htruth, if_true] at h
          by_cases hse : api.hasSideEffects c = true
          · simp only [retainBranches, ht, hse, Bool.not_true, Bool.false_eq_true, if_false, if_true,
              retain_stopped api rest { keepNext := false, replaceElse := none } rfl]
            rw [sem_cons]
            simp [hc, Res.bind, htruth, h]
          · have hse' : api.hasSideEffects c = false := by simpa using hse
            have hpure := hs.pure c hgood hse' (hna hse') call ρ k env σ σ1 cv hc
            subst hpure
            simp only [retainBranches, ht, hse', Bool.not_true, Bool.false_eq_true, if_false,
              retain_stopped api rest { keepNext := false, replaceElse := some b } rfl]
            simpa [sem_nil, elseAfter, elseSem] using h
        | false =>
          simp only [htruth, Bool.false_eq_true, if_false] at h
          by_cases hse : api.hasSideEffects c = true
          · simp only [retainBranches, ht, hse, Bool.not_true, Bool.false_eq_true, if_false, if_true]
            rw [sem_cons]
            simp only [hc, Res.bind, htruth, Bool.false_eq_true, if_false]
            exact ih hgrest σ1 h
          · have hse' : api.hasSideEffects c = false := by simpa using hse
            have hpure := hs.pure c hgood hse' (hna hse') call ρ k env σ σ1 cv hc
            subst hpure
            simp only [retainBranches, ht, hse', Bool.not_true, Bool.false_eq_true, if_false]
            exact ih hgrest σ1 h

/-- `replace_else_with` is only ever set together with `keep_next_branches := false` -/
theorem retain_replace_none (api : EvalApi) (brs : List (Expr × Block)) :
    ∀ (st0 : Retain Block), st0.replaceElse = none →
      (retainBranches api brs st0).2.keepNext = true → (retainBranches api brs st0).2.replaceElse = none := by
  induction brs with
  | nil => intro st0 h0 _; simpa [retainBranches] using h0
  | cons p rest ih =>
    obtain ⟨c, b⟩ := p
    intro st0 h0 hk1
    by_cases hk0 : st0.keepNext = true
    · cases ht : api.isTruthy c with
      | none =>
        simp only [retainBranches, hk0, ht, Bool.not_true, Bool.false_eq_true, if_false] at hk1 ⊢
        exact ih st0 h0 hk1
      | some tv =>
        cases tv with
        | true =>
          simp only [retainBranches, hk0, ht, Bool.not_true, Bool.false_eq_true, if_false] at hk1
          by_cases hse : api.hasSideEffects c = true
          · simp only [hse, if_true] at hk1
            rw [retain_stopped api rest { keepNext := false, replaceElse := st0.replaceElse } rfl] at hk1
            simp at hk1
          · simp only [hse, Bool.false_eq_true, if_false] at hk1
            rw [retain_stopped api rest { keepNext := false, replaceElse := some b } rfl] at hk1
            simp at hk1
        | false =>
          by_cases hse : api.hasSideEffects c = true
          · simp only [retainBranches, hk0, ht, hse, Bool.not_true, Bool.false_eq_true, if_false, if_true] at hk1 ⊢
            exact ih st0 h0 hk1
          · simp only [retainBranches, hk0, ht, hse, Bool.not_true, Bool.false_eq_true, if_false] at hk1 ⊢
            exact ih st0 h0 hk1
    · have hk0' : st0.keepNext = false := by simpa using hk0
      rw [retain_stopped api _ st0 hk0'] at hk1
      simp [hk0'] at hk1

/-- a constant-true branch always leaves a kept branch or a replacement for the else part -/
theorem retain_stopped_has (api : EvalApi) (brs : List (Expr × Block)) :
    ∀ (st0 : Retain Block), st0.keepNext = true → (retainBranches api brs st0).2.keepNext = false →
      (retainBranches api brs st0).1 ≠ [] ∨ (retainBranches api brs st0).2.replaceElse ≠ none := by
  induction brs with
  | nil => intro st0 h0 h1; simp [retainBranches, h0] at h1
  | cons p rest ih =>
    obtain ⟨c, b⟩ := p
    intro st0 h0 h1
    cases ht : api.isTruthy c with
    | none => left; simp [retainBranches, h0, ht]
    | some tv =>
      cases tv with
      | true =>
        by_cases hse : api.hasSideEffects c = true
        · left; simp [retainBranches, h0, ht, hse]
        · right
          simp only [retainBranches, h0, ht, hse, Bool.not_true, Bool.false_eq_true, if_false]
          rw [retain_stopped api rest { keepNext := false, replaceElse := some b } rfl]
          simp
      | false =>
        by_cases hse : api.hasSideEffects c = true
        · left; simp [retainBranches, h0, ht, hse]
        · simp only [retainBranches, h0, ht, hse, Bool.not_true, Bool.false_eq_true, if_false] at h1 ⊢
          exact ih st0 h0 h1

theorem elseSem_dropEmpty {N : NumOps} (call : CallFn N) (ρ : ExtOracle N) (k : Nat) (env : Env N) (els : Option Block) (σ : State N) :
    elseSem call ρ k env (dropEmptyElse els) σ = elseSem call ρ k env els σ := by
  cases els with
  | none => rfl
  | some b =>
    by_cases hb : blockIsEmpty b = true
    · simp only [dropEmptyElse, hb, if_true, elseSem_empty call ρ k env b hb]; rfl
    · simp [dropEmptyElse, hb]

theorem dropEmpty_nonempty {els : Option Block} {e : Block} (h : dropEmptyElse els = some e) : blockIsEmpty e = false := by
  cases els with
  | none => simp [dropEmptyElse] at h
  | some b =>
    by_cases hb : blockIsEmpty b = true
    · simp [dropEmptyElse, hb] at h
    · simp [dropEmptyElse, hb] at h; subst h; simpa using hb

/-- what a replacement list does in place of one statement -/
def replSem {N : NumOps} (call : CallFn N) (ρ : ExtOracle N) (k : Nat) (env : Env N) : List Stmt → State N → Res N (Ctl N)
  | [], σ => .ok (.next env) σ
  | s :: _, σ => execS call ρ k env s σ

/-- `simplify_if_statement`: every error-free run of the `if` statement is a run of its replacement -/
theorem simplifyIfStatement_refines {N : NumOps} {api : EvalApi} {good : Expr → Prop} (hs : EvalSound N api good)
    (call : CallFn N) (ρ : ExtOracle N) (k : Nat) (env : Env N)
    (brs : List (Expr × Block)) (els : Option Block) (hg : condsGood api good brs) (σ σ' : State N) (ctl : Ctl N)
    (h : execS call ρ k env (.ifs brs els) σ = .ok ctl σ') :
    replSem call ρ k env (simplifyIfStatement api brs els) σ = .ok ctl σ' := by
  rw [execS_ifs] at h
  have h1 : sem call ρ k env brs (dropEmptyElse els) σ = .ok ctl σ' := by
    rw [← h]; simp only [sem]
    cases execBranches call ρ k env brs σ with
    | timeout => rfl
    | err v σ1 => rfl
    | ok r σ1 => cases r <;> simp [Res.bind, elseSem_dropEmpty]
  have h2 := retain_refines hs call ρ k env (dropEmptyElse els) brs hg σ σ' ctl h1
  have hI1 := retain_replace_none api brs {} rfl
  have hI2 := retain_stopped_has api brs {} rfl
  simp only [simplifyIfStatement]
  generalize retainBranches api brs {} = ret at h2 hI1 hI2
  obtain ⟨kept, st⟩ := ret
  simp only at h2 hI1 hI2 ⊢
  cases kept with
  | nil =>
    simp only [List.isEmpty_nil, if_true]
    rw [sem_nil] at h2
    cases hre : st.replaceElse with
    | some blk =>
      have hkn' : st.keepNext = false := by
        cases hkn : st.keepNext with
        | false => rfl
        | true => have := hI1 hkn; simp [hre] at this
      simp only [elseAfter, hkn', hre, Bool.false_eq_true, if_false] at h2
      by_cases hb : blockIsEmpty blk = true
      · simp only [hb, if_true, replSem]
        rw [elseSem_empty call ρ k env blk hb] at h2; exact h2
      · simp only [hb, replSem]
        simpa [elseSem] using h2
    | none =>
      have hkn : st.keepNext = true := by
        cases hkn : st.keepNext with
        | true => rfl
        | false => have := hI2 hkn; simp [hre] at this
      simp only [elseAfter, hkn, if_true] at h2
      cases he : dropEmptyElse els with
      | none => simp only [replSem]; simpa [he, elseSem] using h2
      | some e =>
        simp only [dropEmpty_nonempty he, Bool.false_eq_true, if_false, replSem]
        simpa [he, elseSem] using h2
  | cons kb krest =>
    simp only [List.isEmpty_cons, Bool.false_eq_true, if_false]
    by_cases hkn : st.keepNext = true
    · simp only [hkn, Bool.not_true, Bool.false_eq_true, if_false, replSem]
      rw [execS_ifs]
      simpa [elseAfter, hkn] using h2
    · have hkn' : st.keepNext = false := by simpa using hkn
      simp only [hkn', Bool.not_false, if_true, replSem]
      rw [execS_ifs]
      simpa [elseAfter, hkn'] using h2

theorem simplify_short (api : EvalApi) (brs : List (Expr × Block)) (els : Option Block) :
    simplifyIfStatement api brs els = [] ∨ ∃ s, simplifyIfStatement api brs els = [s] := by
  simp only [simplifyIfStatement]
  generalize retainBranches api brs {} = ret
  obtain ⟨kept, st⟩ := ret
  simp only
  split
  · split
    · split <;> simp
    · split
      · split <;> simp
      · simp
  · split <;> simp

/-- every `if` statement of the list has conditions in the sound region -/
def stmtsGood (api : EvalApi) (good : Expr → Prop) : List Stmt → Prop
  | [] => True
  | .ifs brs _ :: rest => condsGood api good brs ∧ stmtsGood api good rest
  | _ :: rest => stmtsGood api good rest

theorem processStmts_refines {N : NumOps} {api : EvalApi} {good : Expr → Prop} (hs : EvalSound N api good)
    (call : CallFn N) (ρ : ExtOracle N) (k : Nat)
    (stmts : List Stmt) (hg : stmtsGood api good stmts) (env : Env N) (σ σ' : State N) (ctl : Ctl N)
    (h : execSs call ρ k env stmts σ = .ok ctl σ') :
    execSs call ρ k env (processStmts api stmts) σ = .ok ctl σ' := by
  induction stmts generalizing env σ with
  | nil => simpa [processStmts] using h
  | cons s rest ih =>
    have step : ∀ (hgr : stmtsGood api good rest) (s' : Stmt),
        (∀ c1 σ1, execS call ρ k env s σ = .ok c1 σ1 → execS call ρ k env s' σ = .ok c1 σ1) →
        execSs call ρ k env (s' :: processStmts api rest) σ = .ok ctl σ' := by
      intro hgr s' hss
      simp only [execSs] at h ⊢
      cases hx : execS call ρ k env s σ with
      | timeout => simp [hx, Res.bind] at h
      | err v σ1 => simp [hx, Res.bind] at h
      | ok c1 σ1 =>
        rw [hss c1 σ1 hx]
        simp only [hx, Res.bind] at h ⊢
        cases c1 with
        | next env' => exact ih hgr env' σ1 h
        | _ => exact h
    cases s with
    | ifs brs els =>
      obtain ⟨hgb, hgr⟩ := hg
      simp only [processStmts]
      rcases simplify_short api brs els with hnil | ⟨s', hone⟩
      · rw [hnil, List.nil_append]
        simp only [execSs] at h
        cases hx : execS call ρ k env (.ifs brs els) σ with
        | timeout => simp [hx, Res.bind] at h
        | err v σ1 => simp [hx, Res.bind] at h
        | ok c1 σ1 =>
          have := simplifyIfStatement_refines hs call ρ k env brs els hgb σ σ1 c1 hx
          rw [hnil] at this
          simp only [replSem, Res.ok.injEq] at this
          obtain ⟨rfl, rfl⟩ := this
          simp only [hx, Res.bind] at h
          exact ih hgr env σ h
      · rw [hone]
        exact step hgr s' (fun c1 σ1 hx => by
          have := simplifyIfStatement_refines hs call ρ k env brs els hgb σ σ1 c1 hx
          rw [hone] at this
          exact this)
    | assign _ _ | cassign _ _ _ | callStmt _ | doBlock _ | function _ _ _ | gfor _ _ _ | nfor _ _ _ _ _
    | localAssign _ _ _ | localFn _ _ _ | repeat_ _ _ | while_ _ _ | typeDecl _ _ _ | typeFn _ _ _ =>
      simp only [processStmts]
      exact step (by simpa [stmtsGood] using hg) _ (fun _ _ hx => hx)

/-- the block hook of `remove_unused_if_branch` refines -/
theorem processBlock_refines {N : NumOps} {api : EvalApi} {good : Expr → Prop} (hs : EvalSound N api good)
    (call : CallFn N) (ρ : ExtOracle N) (k : Nat) (env : Env N)
    (stmts : List Stmt) (last : Option Last) (hg : stmtsGood api good stmts) (σ σ' : State N) (ctl : Ctl N)
    (h : execB call ρ k env (.mk stmts last) σ = .ok ctl σ') :
    execB call ρ k env (processBlock api (.mk stmts last) ()).1 σ = .ok ctl σ' := by
  simp only [processBlock, execB] at h ⊢
  cases hx : execSs call ρ k env stmts σ with
  | timeout => simp [hx, Res.bind] at h
  | err v σ1 => simp [hx, Res.bind] at h
  | ok c σ1 =>
    rw [processStmts_refines hs call ρ k stmts hg env σ σ1 c hx]
    simpa [hx, Res.bind] using h

end DarkluaModel.Rules.UnusedIfBranch.Sound
