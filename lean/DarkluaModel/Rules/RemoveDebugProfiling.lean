import DarkluaModel.Rules.RemoveCallMatch
/-!
# `remove_debug_profiling` (`src/rules/remove_debug_profiling.rs`)

`should_remove_call`: `debug` is not in the identifier tracker and the callee is the field
expression `debug.profilebegin` / `debug.profileend` whose prefix is the identifier `debug`.
No `compute_result`, no reserved globals.
-/
namespace DarkluaModel.Rules.RemoveDebugProfiling
open RemoveCallMatch

/-- `should_remove_call` -/
def matchesPrefix (used : String → Bool) (prefix_ : Expr) : Bool :=
  if used "debug" then false
  else
    match prefix_ with
    | .field (.var d) f => (f == "profilebegin" || f == "profileend") && d == "debug"
    | _ => false

def matcher : Matcher where
  matchesPrefix := matchesPrefix
  watched := ["debug"]

def apply (preserve : Bool) (b : Block) : Block × Bool := RemoveCallMatch.apply matcher preserve b

end DarkluaModel.Rules.RemoveDebugProfiling
