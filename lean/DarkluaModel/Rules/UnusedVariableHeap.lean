import DarkluaModel.Rules.UnusedVariable
import DarkluaModel.Shared.VisitorSoundHeap
/-!
# `remove_unused_variable` — whole-rule theorem on a fragment, through the stage-3 lifting

The rule drops cell allocations, so it is sound only up to a renumbering of cells
(`Shared/VisitorSoundHeap.lean`). The ready-made link `LkB.dropLocal` / `LkRep.dropLocal` drops a
`local ns = vs` whose values ALWAYS succeed without touching the state (`TotalPureEs`) and whose names
are not REFERENCED (syntactically, `tailRefs`) in the rest of the scope / the `until` condition.

The rule itself does more: it decides "unused" with `FindUsage` (scope aware: a shadowed occurrence is
not a use), drops initialisers that may RAISE (`local x = -nil` is "side-effect free" for the
evaluator: the original raises, the output does not — outside property C01, which only speaks about
error-free originals), keeps effectful values as statements, regroups partially used declarations
and removes unused local functions (a closure allocation: not covered by stage 3).

`scopeOK` is the decidable fragment of scopes on which the rule does nothing but drop declarations
that the link covers: every `local` declaration is either fully used (kept as it is) or fully unused
with atomic values (literals, identifiers, `...`) and names that are not even syntactically referenced
afterwards; every local function is used. `scopeG` is the rule's scope hook guarded by `scopeOK`
(identity elsewhere); `applyG` the rule with that hook. Theorems:

* `rewrite_eq_drop`  — on a `scopeOK` scope the rule's rewrite IS the plain drop `dropG`;
* `hooksHeap`        — the guarded hook rewrites by chains of `dropLocal` links;
* `applyG_refines`   — `applyG` preserves the observable outcome of EVERY program;
* `apply_refines_of_agree` — hence so does the rule itself on every program on which it agrees with
  its guarded version (`applyG api b = apply api b`: decidable, evaluated by the driver).
-/
namespace DarkluaModel.Rules.UnusedVariable.Guarded
open DarkluaModel.Sem DarkluaModel.Sem.Heap DarkluaModel.Rules DarkluaModel.Rules.UnusedVariable

theorem tnames_eq (ns : List TName) : tnames ns = ns.map TName.name := by
  induction ns with
  | nil => rfl
  | cons t ts ih => cases t; simp [tnames, TName.name] at ih ⊢; exact ih

/-- the usage flags the rule computes for a declaration -/
def usagesOf (last : Option Last) (inExtra : List String) (ns : List TName) (rest : List Stmt) : List Bool :=
  (tnames ns).map fun id => isUsedAfter id rest last inExtra

/-- is this statement one that the guarded rule drops? -/
def isDropped (last : Option Last) (inExtra : List String) (s : Stmt) (rest : List Stmt) : Bool :=
  match s with
  | .localAssign _ ns _ => !(usagesOf last inExtra ns rest).all id
  | _ => false

/-- the fragment test for one statement, `rest` = the statements after it -/
def stmtOK (api : EvalApi) (last : Option Last) (inExtra : List String) (cr : String → Bool) (s : Stmt)
    (rest : List Stmt) : Bool :=
  match s with
  | .localAssign _ ns vs =>
    !ns.isEmpty &&
    ((usagesOf last inExtra ns rest).all id ||
      ((usagesOf last inExtra ns rest).all (!·) && (vs.filter api.hasSideEffects).isEmpty && vs.all Expr.isAtom &&
        (ns.map TName.name).all (fun n => !tailRefs n rest last && !cr n)))
  | .localFn _ name _ => isUsedAfter name rest last inExtra
  | _ => true

def scopeOK (api : EvalApi) (last : Option Last) (inExtra : List String) (cr : String → Bool) : List Stmt → Bool
  | [] => true
  | s :: rest => stmtOK api last inExtra cr s rest && scopeOK api last inExtra cr rest

/-- drop the dropped statements -/
def dropG (last : Option Last) (inExtra : List String) : List Stmt → List Stmt
  | [] => []
  | s :: rest => if isDropped last inExtra s rest then dropG last inExtra rest else s :: dropG last inExtra rest

theorem all_id_not_any_not (l : List Bool) (h : l.all id = true) : l.any (!·) = false := by
  induction l with
  | nil => rfl
  | cons b t ih =>
    simp only [List.all_cons, Bool.and_eq_true, id] at h
    simp [List.any_cons, h.1, ih h.2]

theorem all_id_not_all_not (l : List Bool) (hne : l ≠ []) (h : l.all id = true) : l.all (!·) = false := by
  cases l with
  | nil => exact absurd rfl hne
  | cons b t =>
    simp only [List.all_cons, Bool.and_eq_true, id] at h
    simp [h.1]

/-- on the fragment, the rule's rewrite of a scope is the plain drop (and the flag only grows) -/
theorem rewrite_eq_drop (api : EvalApi) (last : Option Last) (inExtra : List String) (cr : String → Bool)
    (ss : List Stmt) (hok : scopeOK api last inExtra cr ss = true) (m : Bool) :
    (rewriteStmts api last inExtra ss m).1 = dropG last inExtra ss := by
  induction ss generalizing m with
  | nil => rfl
  | cons s rest ih =>
    simp only [scopeOK, Bool.and_eq_true] at hok
    obtain ⟨hs, hrest⟩ := hok
    cases s with
    | localAssign kind ns vs =>
      simp only [stmtOK, Bool.and_eq_true, Bool.or_eq_true, Bool.not_eq_true'] at hs
      obtain ⟨hne, hcase⟩ := hs
      have hne' : usagesOf last inExtra ns rest ≠ [] := by
        cases ns with
        | nil => simp at hne
        | cons t ts => simp [usagesOf, tnames]
      rcases hcase with hused | ⟨⟨⟨hunused, hpure⟩, _⟩, _⟩
      · -- fully used: kept as it is
        have h1 := all_id_not_all_not _ hne' hused
        have h2 := all_id_not_any_not _ hused
        simp only [usagesOf] at h1 h2 hused
        simp only [rewriteStmts, rewriteLocal, h1, h2, Bool.false_eq_true, if_false, Bool.false_and, dropG, isDropped,
          usagesOf, hused, Bool.not_true]
        rw [← ih hrest m]
      · -- fully unused, no effectful value: removed
        simp only [usagesOf] at hunused
        have hnot : ((tnames ns).map fun id => isUsedAfter id rest last inExtra).all id = false := by
          cases hu : ((tnames ns).map fun id => isUsedAfter id rest last inExtra).all id with
          | false => rfl
          | true => rw [all_id_not_all_not _ (by simpa [usagesOf] using hne') hu] at hunused; cases hunused
        simp only [rewriteStmts, rewriteLocal, hunused, if_true, hpure, dropG, isDropped, usagesOf, hnot, Bool.not_false]
        exact ih hrest true
    | localFn kind name body =>
      have hs' : isUsedAfter name rest last inExtra = true := hs
      simp only [rewriteStmts, hs', if_true, dropG, isDropped, Bool.false_eq_true, if_false]
      rw [← ih hrest m]
    | assign _ _ | cassign _ _ _ | callStmt _ | doBlock _ | function _ _ _ | gfor _ _ _ | nfor _ _ _ _ _
    | ifs _ _ | repeat_ _ _ | while_ _ _ | typeDecl _ _ _ | typeFn _ _ _ =>
      simp only [rewriteStmts, dropG, isDropped, Bool.false_eq_true, if_false]
      rw [← ih hrest m]

/-- the dropped declarations are covered by the `dropLocal` links: a chain in a closed block -/
theorem drop_chain (api : EvalApi) (last : Option Last) (inExtra : List String)
    (ss : List Stmt) (hok : scopeOK api last inExtra (fun _ => false) ss = true) (pre : List Stmt) :
    Chain (LkB Cx.none) (.mk (pre ++ ss) last) (.mk (pre ++ dropG last inExtra ss) last) := by
  induction ss generalizing pre with
  | nil => exact .refl _
  | cons s rest ih =>
    simp only [scopeOK, Bool.and_eq_true] at hok
    obtain ⟨hs, hrest⟩ := hok
    by_cases hd : isDropped last inExtra s rest = true
    · simp only [dropG, hd, if_true]
      cases s with
      | localAssign kind ns vs =>
        simp only [isDropped, Bool.not_eq_true'] at hd
        simp only [stmtOK, hd, Bool.false_or, Bool.and_eq_true, List.all_eq_true, Bool.not_eq_true'] at hs
        obtain ⟨_, ⟨⟨_, hatoms⟩, hrefs⟩⟩ := hs
        refine .cons (LkB.dropLocal (TotalPureEs.atoms hatoms) fun n hn => ?_) (ih hrest pre)
        have := hrefs n hn
        first | exact this.1 | exact this | (simp at this; exact this)
      | _ => simp [isDropped] at hd
    · simp only [dropG, hd, Bool.false_eq_true, if_false]
      have := ih hrest (pre ++ [s])
      simpa [List.append_assoc] using this

/-- the same for a `repeat` body with its `until` condition -/
theorem drop_chain_rep (api : EvalApi) (last : Option Last) (inExtra : List String) (c : Expr)
    (ss : List Stmt) (hok : scopeOK api last inExtra (fun n => c.refs (.ref n)) ss = true) (pre : List Stmt) :
    Chain (LkRep Cx.none) (.mk (pre ++ ss) last, c) (.mk (pre ++ dropG last inExtra ss) last, c) := by
  induction ss generalizing pre with
  | nil => exact .refl _
  | cons s rest ih =>
    simp only [scopeOK, Bool.and_eq_true] at hok
    obtain ⟨hs, hrest⟩ := hok
    by_cases hd : isDropped last inExtra s rest = true
    · simp only [dropG, hd, if_true]
      cases s with
      | localAssign kind ns vs =>
        simp only [isDropped, Bool.not_eq_true'] at hd
        simp only [stmtOK, hd, Bool.false_or, Bool.and_eq_true, List.all_eq_true, Bool.not_eq_true'] at hs
        obtain ⟨_, ⟨⟨_, hatoms⟩, hrefs⟩⟩ := hs
        have h2 : ∀ n ∈ ns.map TName.name, tailRefs n rest last = false ∧ c.refs (.ref n) = false := fun n hn => by
          have := hrefs n hn
          simpa only [Bool.and_eq_true, Bool.not_eq_true'] using this
        exact .cons (LkRep.dropLocal (TotalPureEs.atoms hatoms) (fun n hn => (h2 n hn).1) (fun n hn => (h2 n hn).2))
          (ih hrest pre)
      | _ => simp [isDropped] at hd
    · simp only [dropG, hd, Bool.false_eq_true, if_false]
      have := ih hrest (pre ++ [s])
      simpa [List.append_assoc] using this

/-- which names the `until` condition references -/
def condRefs : Option Expr → String → Bool
  | some c => fun n => c.refs (.ref n)
  | none => fun _ => false

/-- the rule's `process_scope`, applied only to scopes of the fragment -/
def scopeG (api : EvalApi) : Block → Option Expr → Bool → (Block × Option Expr) × Bool
  | .mk stmts last, extra, m =>
    if scopeOK api last (usagesInExtra stmts extra) (condRefs extra) stmts then processScope api (.mk stmts last) extra m
    else ((.mk stmts last, extra), m)

def processorG (api : EvalApi) : Processor Bool := { scope := scopeG api }

theorem scopeG_none_chain (api : EvalApi) (b : Block) (m : Bool) :
    Chain (LkB Cx.none) b (scopeG api b none m).1.1 := by
  cases b with
  | mk ss last =>
    simp only [scopeG]
    split
    · rename_i hok
      simp only [processScope]
      rw [rewrite_eq_drop api last _ _ ss hok m]
      simpa using drop_chain api last (usagesInExtra ss none) ss (by simpa [condRefs] using hok) []
    · exact .refl _

theorem hooksHeap (api : EvalApi) : HooksHeap Cx.none (processorG api) where
  scopeB := fun b s => scopeG_none_chain api b s
  scopeR := fun b c s => by
    cases b with
    | mk ss last =>
      simp only [processorG, scopeG]
      split
      · rename_i hok
        simp only [processScope, Option.getD]
        rw [rewrite_eq_drop api last _ _ ss hok s]
        simpa using drop_chain_rep api last (usagesInExtra ss (some c)) c ss (by simpa [condRefs] using hok) []
      · exact .refl _

/-- one iteration of the rule's loop, with the guarded hook -/
def passG (api : EvalApi) (b : Block) : Block × Bool :=
  let ((b1, _), m1) := scopeG api b none false
  Visitor.runDefault (processorG api) b1 m1

def loopG (api : EvalApi) : Nat → Block → Block
  | 0, b => b
  | n + 1, b =>
    let (b', mutated) := passG api b
    if mutated then loopG api n b' else b'

/-- the rule restricted to the fragment -/
def applyG (api : EvalApi) (b : Block) : Block := loopG api (b.size + 1) b

theorem passG_refines (api : EvalApi) (b : Block) {N : NumOps} (ρ : ExtOracle N) (n : Nat) (externs : List String) :
    runProgram ρ n externs (passG api b).1 = runProgram ρ n externs b := by
  simp only [passG]
  have h1 := chain_runProgram (cx := Cx.none) (scopeG_none_chain api b false) (fun _ h => by cases h) ρ n externs
    (fun _ h => by cases h)
  have h2 := Visitor.runDefault_heap (hooksHeap api) (scopeG api b none false).1.1 (scopeG api b none false).2
    (fun _ h => by cases h) ρ n externs (fun _ h => by cases h)
  exact h2.trans h1

theorem loopG_refines (api : EvalApi) : ∀ (k : Nat) (b : Block) {N : NumOps} (ρ : ExtOracle N) (n : Nat)
    (externs : List String), runProgram ρ n externs (loopG api k b) = runProgram ρ n externs b
  | 0, _, _, _, _, _ => rfl
  | k + 1, b, N, ρ, n, externs => by
    simp only [loopG]
    split
    · exact (loopG_refines api k _ ρ n externs).trans (passG_refines api b ρ n externs)
    · exact passG_refines api b ρ n externs

/-- **whole rule, every program**: the guarded rule preserves the observable outcome -/
theorem applyG_refines (api : EvalApi) (b : Block) {N : NumOps} (ρ : ExtOracle N) (n : Nat) (externs : List String) :
    runProgram ρ n externs (applyG api b) = runProgram ρ n externs b :=
  loopG_refines api _ b ρ n externs

/-- hence the rule itself, on every program on which it agrees with its guarded version -/
theorem apply_refines_of_agree (api : EvalApi) (b : Block) (h : applyG api b = apply api b)
    {N : NumOps} (ρ : ExtOracle N) (n : Nat) (externs : List String) :
    runProgram ρ n externs (apply api b) = runProgram ρ n externs b := by
  rw [← h]; exact applyG_refines api b ρ n externs

end DarkluaModel.Rules.UnusedVariable.Guarded
