import DarkluaModel.Rules.UnusedVariable
import DarkluaModel.Shared.VisitorSoundHeap
/-!
# `remove_unused_variable` — whole-rule theorem on a fragment, through the stage-3 lifting

The rule drops cell allocations, so it is sound only up to a renumbering of cells
(`Shared/VisitorSoundHeap.lean`). The ready-made link `LkB.dropLocal` / `LkRep.dropLocal` drops a
`local ns = vs` whose values ALWAYS succeed without touching the state (`TotalPureEs`) and whose names
are not REFERENCED (syntactically, `tailRefs`) in the rest of the scope / the `until` condition.

The rule itself does more: it decides "unused" with `FindUsage` (scope aware: a shadowed occurrence is
not a use), drops initialisers that may RAISE (`local x = -nil` is "side-effect free" for the
evaluator: the original raises, the output does not — outside property C01, which only speaks about
error-free originals), keeps effectful values as statements, regroups partially used declarations
and removes unused local functions (a closure allocation: not covered by stage 3).

`dropOK` is the decidable test "this statement is a declaration the rule removes AND the link covers":
all names unused (the rule's own `FindUsage` answer), no effectful value, all values atomic (literals,
identifiers, `...`), and the names not even syntactically referenced in the rest of the scope / the
`until` condition. `scopeG` is the scope hook that performs exactly these removals and leaves every
other statement alone; `applyG` the rule with that hook (same passes, same loop). Theorems:

* `hooksHeap`        — the guarded hook rewrites by chains of `dropLocal` links;
* `applyG_refines`   — `applyG` preserves the observable outcome of EVERY program;
* `apply_refines_of_agree` — hence so does the rule itself on every program on which it agrees with
  its guarded version (`applyG api b = apply api b`: decidable, evaluated by the driver).
-/
namespace DarkluaModel.Rules.UnusedVariable.Guarded
open DarkluaModel.Sem DarkluaModel.Sem.Heap DarkluaModel.Rules DarkluaModel.Rules.UnusedVariable

/-- a declaration that the rule removes (all names unused for `FindUsage`, no effectful value) and that the
`dropLocal` link covers (atomic values, names not referenced afterwards); `rest` = the statements after it -/
def dropOK (api : EvalApi) (last : Option Last) (inExtra : List String) (cr : String → Bool) (s : Stmt)
    (rest : List Stmt) : Bool :=
  match s with
  | .localAssign _ ns vs =>
    !ns.isEmpty &&
    ((tnames ns).map fun id => isUsedAfter id rest last inExtra).all (!·) &&
    (vs.filter api.hasSideEffects).isEmpty && vs.all Expr.isAtom &&
    (ns.map TName.name).all (fun n => !tailRefs n rest last && !cr n)
  | _ => false

/-- remove exactly the `dropOK` declarations (the flag records a removal, as the rule does) -/
def rewriteG (api : EvalApi) (last : Option Last) (inExtra : List String) (cr : String → Bool) :
    List Stmt → Bool → List Stmt × Bool
  | [], m => ([], m)
  | s :: rest, m =>
    if dropOK api last inExtra cr s rest then rewriteG api last inExtra cr rest true
    else
      let (r, m') := rewriteG api last inExtra cr rest m
      (s :: r, m')

/-- the removed declarations are covered by the `dropLocal` links: a chain in a closed block -/
theorem drop_chain (api : EvalApi) (last : Option Last) (inExtra : List String)
    (ss : List Stmt) (m : Bool) (pre : List Stmt) :
    Chain (LkB Cx.none) (.mk (pre ++ ss) last) (.mk (pre ++ (rewriteG api last inExtra (fun _ => false) ss m).1) last) := by
  induction ss generalizing pre m with
  | nil => exact .refl _
  | cons s rest ih =>
    by_cases hd : dropOK api last inExtra (fun _ => false) s rest = true
    · simp only [rewriteG, hd, if_true]
      cases s with
      | localAssign kind ns vs =>
        simp only [dropOK, Bool.and_eq_true, List.all_eq_true, Bool.not_eq_true'] at hd
        obtain ⟨⟨_, hatoms⟩, hrefs⟩ := hd
        refine .cons (LkB.dropLocal (TotalPureEs.atoms hatoms) fun n hn => ?_) (ih true pre)
        have := hrefs n hn
        first | exact this.1 | exact this | (simp at this; exact this)
      | _ => simp [dropOK] at hd
    · simp only [rewriteG, hd, Bool.false_eq_true, if_false]
      have := ih m (pre ++ [s])
      simpa [List.append_assoc] using this

/-- the same for a `repeat` body with its `until` condition -/
theorem drop_chain_rep (api : EvalApi) (last : Option Last) (inExtra : List String) (c : Expr)
    (ss : List Stmt) (m : Bool) (pre : List Stmt) :
    Chain (LkRep Cx.none) (.mk (pre ++ ss) last, c)
      (.mk (pre ++ (rewriteG api last inExtra (fun n => c.refs (.ref n)) ss m).1) last, c) := by
  induction ss generalizing pre m with
  | nil => exact .refl _
  | cons s rest ih =>
    by_cases hd : dropOK api last inExtra (fun n => c.refs (.ref n)) s rest = true
    · simp only [rewriteG, hd, if_true]
      cases s with
      | localAssign kind ns vs =>
        simp only [dropOK, Bool.and_eq_true, List.all_eq_true, Bool.not_eq_true'] at hd
        obtain ⟨⟨_, hatoms⟩, hrefs⟩ := hd
        have h2 : ∀ n ∈ ns.map TName.name, tailRefs n rest last = false ∧ c.refs (.ref n) = false := fun n hn => by
          have := hrefs n hn
          simpa only [Bool.and_eq_true, Bool.not_eq_true'] using this
        exact .cons (LkRep.dropLocal (TotalPureEs.atoms hatoms) (fun n hn => (h2 n hn).1) (fun n hn => (h2 n hn).2))
          (ih true pre)
      | _ => simp [dropOK] at hd
    · simp only [rewriteG, hd, Bool.false_eq_true, if_false]
      have := ih m (pre ++ [s])
      simpa [List.append_assoc] using this

/-- which names the `until` condition references -/
def condRefs : Option Expr → String → Bool
  | some c => fun n => c.refs (.ref n)
  | none => fun _ => false

/-- the guarded `process_scope` -/
def scopeG (api : EvalApi) : Block → Option Expr → Bool → (Block × Option Expr) × Bool
  | .mk stmts last, extra, m =>
    let (stmts', m') := rewriteG api last (usagesInExtra stmts extra) (condRefs extra) stmts m
    ((.mk stmts' last, extra), m')

def processorG (api : EvalApi) : Processor Bool := { scope := scopeG api }

theorem scopeG_none_chain (api : EvalApi) (b : Block) (m : Bool) :
    Chain (LkB Cx.none) b (scopeG api b none m).1.1 := by
  cases b with
  | mk ss last =>
    simp only [scopeG, condRefs]
    simpa using drop_chain api last (usagesInExtra ss none) ss m []

theorem hooksHeap (api : EvalApi) : HooksHeap Cx.none (processorG api) where
  scopeB := fun b s => scopeG_none_chain api b s
  scopeR := fun b c s => by
    cases b with
    | mk ss last =>
      simp only [processorG, scopeG, condRefs, Option.getD]
      simpa using drop_chain_rep api last (usagesInExtra ss (some c)) c ss s []

/-- one iteration of the rule's loop, with the guarded hook -/
def passG (api : EvalApi) (b : Block) : Block × Bool :=
  let ((b1, _), m1) := scopeG api b none false
  Visitor.runDefault (processorG api) b1 m1

def loopG (api : EvalApi) : Nat → Block → Block
  | 0, b => b
  | n + 1, b =>
    let (b', mutated) := passG api b
    if mutated then loopG api n b' else b'

/-- the rule restricted to the fragment -/
def applyG (api : EvalApi) (b : Block) : Block := loopG api (b.size + 1) b

theorem passG_refines (api : EvalApi) (b : Block) {N : NumOps} (ρ : ExtOracle N) (n : Nat) (externs : List String) :
    runProgram ρ n externs (passG api b).1 = runProgram ρ n externs b := by
  simp only [passG]
  have h1 := chain_runProgram (cx := Cx.none) (scopeG_none_chain api b false) (fun _ h => by cases h) ρ n externs
    (fun _ h => by cases h)
  have h2 := Visitor.runDefault_heap (hooksHeap api) (scopeG api b none false).1.1 (scopeG api b none false).2
    (fun _ h => by cases h) ρ n externs (fun _ h => by cases h)
  exact h2.trans h1

theorem loopG_refines (api : EvalApi) : ∀ (k : Nat) (b : Block) {N : NumOps} (ρ : ExtOracle N) (n : Nat)
    (externs : List String), runProgram ρ n externs (loopG api k b) = runProgram ρ n externs b
  | 0, _, _, _, _, _ => rfl
  | k + 1, b, N, ρ, n, externs => by
    simp only [loopG]
    split
    · exact (loopG_refines api k _ ρ n externs).trans (passG_refines api b ρ n externs)
    · exact passG_refines api b ρ n externs

/-- **whole rule, every program**: the guarded rule preserves the observable outcome -/
theorem applyG_refines (api : EvalApi) (b : Block) {N : NumOps} (ρ : ExtOracle N) (n : Nat) (externs : List String) :
    runProgram ρ n externs (applyG api b) = runProgram ρ n externs b :=
  loopG_refines api _ b ρ n externs

/-- hence the rule itself, on every program on which it agrees with its guarded version -/
theorem apply_refines_of_agree (api : EvalApi) (b : Block) (h : applyG api b = apply api b)
    {N : NumOps} (ρ : ExtOracle N) (n : Nat) (externs : List String) :
    runProgram ρ n externs (apply api b) = runProgram ρ n externs b := by
  rw [← h]; exact applyG_refines api b ρ n externs

end DarkluaModel.Rules.UnusedVariable.Guarded
