import DarkluaModel.Shared.Visitor
import DarkluaModel.Rules.EvalApi
/-!
# `compute_expression` (`src/rules/compute_expression.rs`)

`Computer::process_expression` replaces an expression by `replace_with(expression)` when that
is `Some`. `replace_with`:
* unary / if expression without side effects → `evaluate(e).to_expression()`;
* binary without side effects → the same, or else for `and`/`or` with a left operand of known
  truthiness: the operand that is the result — itself passed through `process_expression`;
* binary WITH side effects, `and`/`or`, left operand without side effects and of known
  truthiness → the operand that is the result (not processed further).
One `DefaultVisitor` pass. Known defect F5: the operand may be multi-valued (`true and ...`).
-/
namespace DarkluaModel.Rules.ComputeExpression
open DarkluaModel.Rules

/-- `process_expression` (with `replace_with` inlined: `none` ↦ the expression itself) -/
def processExpr (api : EvalApi) : Expr → Expr
  | .un op x =>
    let e := Expr.un op x
    if !api.hasSideEffects e then (api.toExpr e).getD e else e
  | .bin op l r =>
    let e := Expr.bin op l r
    if !api.hasSideEffects e then
      match api.toExpr e with
      | some v => v
      | none =>
        match op with
        | .and =>
          match api.isTruthy l with
          | some true => processExpr api r
          | some false => processExpr api l
          | none => e
        | .or =>
          match api.isTruthy l with
          | some true => processExpr api l
          | some false => processExpr api r
          | none => e
        | _ => e
    else
      match op with
      | .and =>
        if !api.hasSideEffects l then
          match api.isTruthy l with
          | some true => r
          | some false => l
          | none => e
        else e
      | .or =>
        if !api.hasSideEffects l then
          match api.isTruthy l with
          | some true => l
          | some false => r
          | none => e
        else e
      | _ => e
  | .ifx c t elifs el =>
    let e := Expr.ifx c t elifs el
    if !api.hasSideEffects e then (api.toExpr e).getD e else e
  | e => e

def processor (api : EvalApi) : Processor Unit := { expr := fun e u => (processExpr api e, u) }

/-- `flawless_process` -/
def apply (api : EvalApi) (b : Block) : Block := (Visitor.runDefault (processor api) b ()).1

/-! ### the defect region (F5)

`a and b` / `a or b` always has exactly one value; the operand that replaces it may have
several or none when it is a call or `...`. `multi e`: the expression forms with a variable
number of values. `H` (`inRegion`): no `and`/`or` node of the program is rewritten into a
multi-valued expression. -/
def multi : Expr → Bool
  | .call _ _ _ _ | .vararg => true
  | .inst e _ => multi e
  | _ => false

/-- this node is an `and`/`or` that the rule replaces by a multi-valued expression -/
def foldsToMulti (api : EvalApi) : Expr → Bool
  | .bin .and l r => multi (processExpr api (.bin .and l r))
  | .bin .or l r => multi (processExpr api (.bin .or l r))
  | _ => false

def regionProcessor (api : EvalApi) : Processor Bool :=
  let h : Expr → Bool → Expr × Bool := fun e s => (e, s || foldsToMulti api e)
  { expr := h, pref := h, target := h, node := h }

/-- `true`: some `and`/`or` of the block folds to a multi-valued expression (outside `H`) -/
def outsideH (api : EvalApi) (b : Block) : Bool := (Visitor.runDefault (regionProcessor api) b false).2

end DarkluaModel.Rules.ComputeExpression
