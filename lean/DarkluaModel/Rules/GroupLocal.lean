import DarkluaModel.Shared.Visitor
import DarkluaModel.Shared.Run
import DarkluaModel.Rules.FindVariables
/-!
# `group_local_assignment` (`src/rules/group_local.rs`)

`GroupLocalProcessor::process_block` rewrites the statement list of every block (pre-order,
`DefaultVisitor`): a `local` statement directly followed by another one is merged into it when
`should_merge` holds. The merged statement becomes the new "previous" one, so chains merge.

`should_merge(first, next)`:
* `false` when `first` has more variables than values and at least one value
  (`local a, b = f()` — the last value may expand);
* NOTHING is checked when `first` has MORE VALUES THAN VARIABLES (`local a = f(), g()`): the merge
  then shifts the values of `next` to the right (defect F17, kept in the model);
* otherwise `FindVariables` (names of `first`) must not fire on any value of `next`
  (purely syntactic: shadowing inside the value still counts as a usage; types of `next` are
  not looked at).

`merge`: a side without values gets one `nil` per variable when the other side has values;
variables and values are appended. The assignment kind (`local`/`const`) of `first` is kept.
-/
namespace DarkluaModel.Rules.GroupLocal
open FindVariables

/-- `should_merge`: `first` = (variables, values), values of `next` -/
def shouldMerge (ns1 : List TName) (vs1 : List Expr) (vs2 : List Expr) : Bool :=
  if ns1.length > vs1.length && vs1.length != 0 then false
  else !(mEs (ns1.map TName.name) vs2)

def nils (n : Nat) : List Expr := List.replicate n .nil

/-- `merge` -/
def merge (ns1 : List TName) (vs1 : List Expr) (ns2 : List TName) (vs2 : List Expr) : List TName × List Expr :=
  let vs1' := if vs1.length == 0 && vs2.length != 0 then vs1 ++ nils ns1.length else vs1
  let vs2' := if vs2.length == 0 && vs1'.length != 0 then vs2 ++ nils ns2.length else vs2
  (ns1 ++ ns2, vs1' ++ vs2')

/-- the loop of `filter_statements`: `prev` is `previous_statement`, the list what `iter` still holds -/
def go : Stmt → List Stmt → List Stmt
  | prev, [] => [prev]
  | .localAssign k1 ns1 vs1, .localAssign k2 ns2 vs2 :: rest =>
    if shouldMerge ns1 vs1 vs2 then
      let (ns, vs) := merge ns1 vs1 ns2 vs2
      go (.localAssign k1 ns vs) rest
    else .localAssign k1 ns1 vs1 :: go (.localAssign k2 ns2 vs2) rest
  | prev, cur :: rest => prev :: go cur rest

def filterStatements : List Stmt → List Stmt
  | [] => []
  | s :: rest => go s rest

def processBlock : Block → Unit → Block × Unit
  | .mk stmts last, u => (.mk (filterStatements stmts) last, u)

def processor : Processor Unit := { block := processBlock }

/-- `flawless_process`: one `DefaultVisitor` pass -/
def apply (b : Block) : Block := (Visitor.runDefault processor b ()).1

/-- Hypothesis `H₁₆` of the partial theorem, per merge: `first` has no value or exactly as many
values as variables (with more values the rule is wrong, with fewer it does not merge). -/
def h16 (ns1 : List TName) (vs1 : List Expr) : Bool :=
  vs1.length == 0 || vs1.length == ns1.length

/-- `H₁₆` along the loop of `filter_statements`: every merge that `go` performs has a `first`
(the running, possibly already merged statement) satisfying `h16`. -/
def goOk : Stmt → List Stmt → Bool
  | _, [] => true
  | .localAssign k1 ns1 vs1, .localAssign k2 ns2 vs2 :: rest =>
    if shouldMerge ns1 vs1 vs2 then
      let (ns, vs) := merge ns1 vs1 ns2 vs2
      h16 ns1 vs1 && goOk (.localAssign k1 ns vs) rest
    else goOk (.localAssign k2 ns2 vs2) rest
  | _, cur :: rest => goOk cur rest

def stmtsOk : List Stmt → Bool
  | [] => true
  | s :: rest => goOk s rest

/-- `H₁₆` for a whole program: `stmtsOk` for the statement list of every block the visitor reaches -/
def programOk (b : Block) : Bool :=
  (Visitor.runDefault
    ({ block := fun blk ok => match blk with | .mk stmts _ => (blk, ok && stmtsOk stmts) } : Processor Bool) b true).2

end DarkluaModel.Rules.GroupLocal
