import DarkluaModel.Shared.Visitor
import DarkluaModel.Shared.Run
import DarkluaModel.Rules.FindVariables
import DarkluaModel.Rules.FnErase
/-!
# `group_local_assignment` (`src/rules/group_local.rs`)

`GroupLocalProcessor::process_block` rewrites the statement list of every block (pre-order,
`DefaultVisitor`): a `local` statement directly followed by another one is merged into it when
`should_merge` holds. The merged statement becomes the new "previous" one, so chains merge.

`should_merge(first, next)`:
* `false` when `first` has at least one value and a number of values different from its number
  of variables (`local a, b = f()` — the last value may expand; `local a = f(), g()` — the surplus
  value would land on a variable of `next`: F17, fixed in /repo by `fix: group_local…`);
* otherwise `FindVariables` (names of `first`) must not fire on any value of `next`
  (purely syntactic: shadowing inside the value still counts as a usage; types of `next` are
  not looked at).

`merge`: a side without values gets one `nil` per variable when the other side has values;
variables and values are appended. The assignment kind (`local`/`const`) of `first` is kept.
-/
namespace DarkluaModel.Rules.GroupLocal
open FindVariables

/-- `should_merge`: `first` = (variables, values), values of `next` -/
def shouldMerge (ns1 : List TName) (vs1 : List Expr) (vs2 : List Expr) : Bool :=
  if ns1.length != vs1.length && vs1.length != 0 then false
  else !(mEs (ns1.map TName.name) vs2)

def nils (n : Nat) : List Expr := List.replicate n .nil

/-- `merge` -/
def merge (ns1 : List TName) (vs1 : List Expr) (ns2 : List TName) (vs2 : List Expr) : List TName × List Expr :=
  let vs1' := if vs1.length == 0 && vs2.length != 0 then vs1 ++ nils ns1.length else vs1
  let vs2' := if vs2.length == 0 && vs1'.length != 0 then vs2 ++ nils ns2.length else vs2
  (ns1 ++ ns2, vs1' ++ vs2')

/-- the loop of `filter_statements`: `prev` is `previous_statement`, the list what `iter` still holds -/
def go : Stmt → List Stmt → List Stmt
  | prev, [] => [prev]
  | .localAssign k1 ns1 vs1, .localAssign k2 ns2 vs2 :: rest =>
    if shouldMerge ns1 vs1 vs2 then
      let (ns, vs) := merge ns1 vs1 ns2 vs2
      go (.localAssign k1 ns vs) rest
    else .localAssign k1 ns1 vs1 :: go (.localAssign k2 ns2 vs2) rest
  | prev, cur :: rest => prev :: go cur rest

def filterStatements : List Stmt → List Stmt
  | [] => []
  | s :: rest => go s rest

def processBlock : Block → Unit → Block × Unit
  | .mk stmts last, u => (.mk (filterStatements stmts) last, u)

def processor : Processor Unit := { block := processBlock }

/-- `flawless_process`: one `DefaultVisitor` pass -/
def apply (b : Block) : Block := (Visitor.runDefault processor b ()).1

/-- `H₁₆`: `first` has no value or exactly as many values as variables. Since the fix of F17 this is
implied by `should_merge` (`shouldMerge_h16`): it is no longer a hypothesis on programs. -/
def h16 (ns1 : List TName) (vs1 : List Expr) : Bool :=
  vs1.length == 0 || vs1.length == ns1.length

theorem shouldMerge_h16 (ns1 : List TName) (vs1 vs2 : List Expr) (h : shouldMerge ns1 vs1 vs2 = true) :
    h16 ns1 vs1 = true := by
  unfold shouldMerge at h
  unfold h16
  by_cases h0 : vs1.length = 0
  · simp [h0]
  · by_cases h1 : ns1.length = vs1.length
    · simp [h1]
    · simp [h0, h1] at h

/-! ### local soundness against `Shared/Sem.lean`

Two `local` statements evaluate `vs1`, bind `ns1` (fresh cells), evaluate `vs2` IN THE EXTENDED
environment and state, bind `ns2`. The merged statement evaluates `vs1 ++ vs2` in the OUTER
environment and then binds everything. `merge_core` isolates what is needed for exact equality
of the two (success path): (a) `vs1` truncated to one value each gives what `ns1` receives —
true iff `first` has no value or as many values as variables (`h16`, guaranteed by `should_merge`
since the fix of F17: `shouldMerge_h16`); (b) evaluating `vs2` before or after `ns1` is bound gives the same
values and commutes with the binding (`hframe`/`hcomm`). (b) is where visibility lives: it
fails when `vs2` reads or captures a variable of `ns1` — `should_merge` refuses those by
`FindVariables` — and, for exact equality of STATES, also when `vs2` allocates cells or creates
closures (numbering / captured environment differ, unobservably). That `FindVariables`-silence
implies (b) up to such renaming is a whole-evaluator simulation and is NOT proved here; the
execution oracle covers it. Error paths are not covered by these lemmas (an error state keeps
or lacks the unreachable cells of `ns1`). -/

open Sem
section
variable {N : NumOps} (call : CallFn N) (ρ : ExtOracle N) (k : Nat)

/-- evaluate every expression and keep its first value (what all but the last initialiser get) -/
def evalFirsts (env : Env N) : List Expr → State N → Res N (List (Val N))
  | [], σ => .ok [] σ
  | e :: es, σ =>
    (evalE call ρ k env e σ).bind fun vs σ1 => (evalFirsts env es σ1).bind fun ws σ2 => .ok (first vs :: ws) σ2

/-- the first `n` values, padded with `nil` (what `n` variables receive) -/
def padTake : Nat → List (Val N) → List (Val N)
  | 0, _ => []
  | n + 1, ws => first ws :: padTake n (ws.drop 1)

theorem evalEs_append (env : Env N) (vs1 vs2 : List Expr) (h : vs2 ≠ []) (σ : State N) :
    evalEs call ρ k env (vs1 ++ vs2) σ =
      (evalFirsts call ρ k env vs1 σ).bind fun fs σ1 =>
        (evalEs call ρ k env vs2 σ1).bind fun ws σ2 => .ok (fs ++ ws) σ2 := by
  induction vs1 generalizing σ with
  | nil =>
    simp only [List.nil_append, evalFirsts, Res.bind]
    cases evalEs call ρ k env vs2 σ <;> simp
  | cons e es ih =>
    obtain ⟨y, ys, hy⟩ : ∃ y ys, es ++ vs2 = y :: ys := by
      cases es with
      | nil => cases vs2 with
        | nil => exact absurd rfl h
        | cons y ys => exact ⟨y, ys, rfl⟩
      | cons a as => exact ⟨a, as ++ vs2, rfl⟩
    rw [List.cons_append, hy]
    simp only [evalEs, evalFirsts]
    rw [← hy]
    cases evalE call ρ k env e σ with
    | ok vs σa =>
      simp only [Res.bind]
      rw [ih σa]
      cases evalFirsts call ρ k env es σa with
      | ok fs σb =>
        simp only [Res.bind]
        cases evalEs call ρ k env vs2 σb <;> simp
      | err v s => simp [Res.bind]
      | timeout => simp [Res.bind]
    | err v s => simp [Res.bind]
    | timeout => simp [Res.bind]

theorem evalFirsts_of_evalEs (env : Env N) (es : List Expr) (σ σ1 : State N) (ws : List (Val N))
    (h : evalEs call ρ k env es σ = .ok ws σ1) :
    evalFirsts call ρ k env es σ = .ok (padTake es.length ws) σ1 := by
  induction es generalizing σ ws with
  | nil => simp [evalEs] at h; simp [evalFirsts, padTake, h]
  | cons e es ih =>
    cases es with
    | nil =>
      simp only [evalEs] at h
      simp [evalFirsts, h, Res.bind, padTake]
    | cons e' es' =>
      simp only [evalEs] at h
      cases he : evalE call ρ k env e σ with
      | ok vs σa =>
        simp only [he, Res.bind] at h
        cases hes : evalEs call ρ k env (e' :: es') σa with
        | ok ws' σb =>
          simp only [hes] at h
          injection h with h1 h2
          subst h1 h2
          have hi := ih σa ws' hes
          rw [evalFirsts, he]
          simp only [Res.bind]
          rw [hi]
          simp [padTake, first]
        | err v s => simp [hes] at h
        | timeout => simp [hes] at h
      | err v s => simp [he, Res.bind] at h
      | timeout => simp [he, Res.bind] at h

theorem bindLocals_append (ns1 ns2 : List String) (vals : List (Val N)) (e : List (String × Nat)) (σ : State N) :
    bindLocals (ns1 ++ ns2) vals e σ =
      bindLocals ns2 (vals.drop ns1.length) (bindLocals ns1 vals e σ).1 (bindLocals ns1 vals e σ).2 := by
  induction ns1 generalizing vals e σ with
  | nil => simp [bindLocals]
  | cons n ns ih =>
    simp only [List.cons_append, bindLocals, List.length_cons]
    rw [ih]
    simp

theorem bindLocals_padTake (ns : List String) (vals : List (Val N)) (e : List (String × Nat)) (σ : State N) :
    bindLocals ns (padTake ns.length vals) e σ = bindLocals ns vals e σ := by
  induction ns generalizing vals e σ with
  | nil => simp [bindLocals]
  | cons n ns ih =>
    simp only [bindLocals, List.length_cons, padTake]
    rw [show first (first vals :: padTake ns.length (vals.drop 1)) = first vals from rfl]
    simp only [List.drop_one, List.tail_cons]
    rw [ih]

theorem length_padTake (n : Nat) (ws : List (Val N)) : (padTake n ws).length = n := by
  induction n generalizing ws with
  | zero => rfl
  | succ n ih => simp [padTake, ih]

theorem padTake_append (n : Nat) (fs ws : List (Val N)) (h : fs.length = n) : padTake n (fs ++ ws) = fs := by
  induction n generalizing fs with
  | zero => cases fs <;> simp_all [padTake]
  | succ n ih =>
    cases fs with
    | nil => simp at h
    | cons f fs => simp [padTake, first, ih fs (by simpa using h)]

def names (ns : List TName) : List String := ns.map TName.name

/-- Core of the merge: two `local` statements against ONE with the variables appended and the
values `vs1' ++ vs2'`, where `vs1'` evaluates (each truncated to one value) to what the
variables of the first statement receive, and evaluating `vs2'` BEFORE the variables of the
first statement are bound (`hframe`) gives what evaluating `vs2` after it gives (`h2`). -/
theorem merge_core (env : Env N) (k1 k2 : LocalKind) (ns1 ns2 : List TName) (vs1 vs1' vs2 vs2' : List Expr)
    (rest : List Stmt) (σ σ1 σ2 σ2' : State N) (ws1 ws2 ws2' : List (Val N)) (hv2' : vs2' ≠ [])
    (h1 : evalEs call ρ k env vs1 σ = .ok ws1 σ1)
    (h1' : evalFirsts call ρ k env vs1' σ = .ok (padTake ns1.length ws1) σ1)
    (h2 : evalEs call ρ k ⟨(bindLocals (names ns1) ws1 env.locals σ1).1, env.varargs⟩ vs2
            (bindLocals (names ns1) ws1 env.locals σ1).2 = .ok ws2 σ2')
    (hframe : evalEs call ρ k env vs2' σ1 = .ok ws2' σ2)
    (hcomm : bindLocals (names ns1) ws1 env.locals σ2 = ((bindLocals (names ns1) ws1 env.locals σ1).1, σ2'))
    (hvals : padTake ns2.length ws2' = padTake ns2.length ws2) :
    execSs call ρ k env (.localAssign k1 ns1 vs1 :: .localAssign k2 ns2 vs2 :: rest) σ
      = execSs call ρ k env (.localAssign k1 (ns1 ++ ns2) (vs1' ++ vs2') :: rest) σ := by
  have hl1 : (names ns1).length = ns1.length := by simp [names]
  have hl2 : (names ns2).length = ns2.length := by simp [names]
  -- left: two statements
  have L : execSs call ρ k env (.localAssign k1 ns1 vs1 :: .localAssign k2 ns2 vs2 :: rest) σ =
      execSs call ρ k ⟨(bindLocals (names ns2) ws2 (bindLocals (names ns1) ws1 env.locals σ1).1 σ2').1, env.varargs⟩ rest
        (bindLocals (names ns2) ws2 (bindLocals (names ns1) ws1 env.locals σ1).1 σ2').2 := by
    simp only [execSs, execS, h1, Res.bind]
    simp only [names] at h2 ⊢
    simp only [h2]
  -- right: the merged statement
  have R : execSs call ρ k env (.localAssign k1 (ns1 ++ ns2) (vs1' ++ vs2') :: rest) σ =
      execSs call ρ k ⟨(bindLocals (names ns2) ws2 (bindLocals (names ns1) ws1 env.locals σ1).1 σ2').1, env.varargs⟩ rest
        (bindLocals (names ns2) ws2 (bindLocals (names ns1) ws1 env.locals σ1).1 σ2').2 := by
    simp only [execSs, execS, evalEs_append call ρ k env vs1' vs2' hv2', h1', hframe, Res.bind]
    have hmap : (ns1 ++ ns2).map TName.name = names ns1 ++ names ns2 := by simp [names]
    rw [hmap, bindLocals_append]
    have e1 : bindLocals (names ns1) (padTake ns1.length ws1 ++ ws2') env.locals σ2
        = ((bindLocals (names ns1) ws1 env.locals σ1).1, σ2') := by
      rw [← bindLocals_padTake (names ns1) (padTake ns1.length ws1 ++ ws2'), hl1,
        padTake_append _ _ _ (length_padTake _ _), ← hl1, bindLocals_padTake, hcomm]
    rw [e1, hl1]
    have e2 : List.drop ns1.length (padTake ns1.length ws1 ++ ws2') = ws2' := by
      rw [List.drop_left' (length_padTake _ _)]
    rw [e2]
    simp only
    rw [← bindLocals_padTake (names ns2) ws2', hl2, hvals, ← hl2, bindLocals_padTake]
  rw [L, R]

theorem evalEs_nils (env : Env N) (n : Nat) (σ : State N) :
    evalEs call ρ k env (nils n) σ = .ok (List.replicate n .nil) σ := by
  induction n with
  | zero => simp [nils, evalEs]
  | succ n ih =>
    cases n with
    | zero => simp [nils, evalEs, evalE, List.replicate]
    | succ m =>
      simp only [nils, List.replicate] at ih ⊢
      simp only [evalEs, evalE, Res.bind, ih, first]
      simp

theorem padTake_replicate (n : Nat) : padTake (N := N) n (List.replicate n .nil) = padTake n [] := by
  induction n with
  | zero => rfl
  | succ n ih =>
    simp only [padTake, List.replicate]
    simp only [List.drop_one, List.tail_cons, List.tail_nil, first, List.headD]
    rw [ih]

/-- **merge, both statements have values.** `local ns1 = vs1` (as many values as variables: `h16`)
followed by `local ns2 = vs2` is exactly the merged statement, provided evaluating `vs2` before the
variables `ns1` are bound (`hframe`) yields the values it yields after (`h2`) and commutes with
binding them (`hcomm`) — which is what `should_merge`'s `FindVariables` check is for. Evaluation
order (`vs1` then `vs2`) and truncation (every initialiser but the very last keeps one value) are
unconditional parts of the statement. -/
theorem merge_exact (env : Env N) (k1 k2 : LocalKind) (ns1 ns2 : List TName) (vs1 vs2 : List Expr)
    (rest : List Stmt) (σ σ1 σ2 σ2' : State N) (ws1 ws2 : List (Val N))
    (hH : h16 ns1 vs1 = true) (hv1 : vs1 ≠ []) (hv2 : vs2 ≠ [])
    (h1 : evalEs call ρ k env vs1 σ = .ok ws1 σ1)
    (h2 : evalEs call ρ k ⟨(bindLocals (names ns1) ws1 env.locals σ1).1, env.varargs⟩ vs2
            (bindLocals (names ns1) ws1 env.locals σ1).2 = .ok ws2 σ2')
    (hframe : evalEs call ρ k env vs2 σ1 = .ok ws2 σ2)
    (hcomm : bindLocals (names ns1) ws1 env.locals σ2 = ((bindLocals (names ns1) ws1 env.locals σ1).1, σ2')) :
    execSs call ρ k env (.localAssign k1 ns1 vs1 :: .localAssign k2 ns2 vs2 :: rest) σ
      = execSs call ρ k env (.localAssign k1 (merge ns1 vs1 ns2 vs2).1 (merge ns1 vs1 ns2 vs2).2 :: rest) σ := by
  have hlen : vs1.length = ns1.length := by
    cases vs1 with
    | nil => exact absurd rfl hv1
    | cons a as => simpa [h16] using hH
  have hm : merge ns1 vs1 ns2 vs2 = (ns1 ++ ns2, vs1 ++ vs2) := by
    cases vs1 with
    | nil => exact absurd rfl hv1
    | cons a as =>
      cases vs2 with
      | nil => exact absurd rfl hv2
      | cons b bs => simp [merge]
  rw [hm]
  exact merge_core call ρ k env k1 k2 ns1 ns2 vs1 vs1 vs2 vs2 rest σ σ1 σ2 σ2' ws1 ws2 ws2 hv2 h1
    (by rw [← hlen]; exact evalFirsts_of_evalEs call ρ k env vs1 σ σ1 ws1 h1) h2 hframe hcomm rfl

/-- **merge, the second statement has no value** (`local a = f()` then `local b, c`): the merged
statement gets one `nil` per variable of the second; exact with no further hypothesis. -/
theorem merge_exact_second_empty (env : Env N) (k1 k2 : LocalKind) (ns1 ns2 : List TName) (vs1 : List Expr)
    (rest : List Stmt) (σ σ1 : State N) (ws1 : List (Val N))
    (hH : h16 ns1 vs1 = true) (hv1 : vs1 ≠ []) (hn2 : ns2 ≠ [])
    (h1 : evalEs call ρ k env vs1 σ = .ok ws1 σ1) :
    execSs call ρ k env (.localAssign k1 ns1 vs1 :: .localAssign k2 ns2 [] :: rest) σ
      = execSs call ρ k env (.localAssign k1 (merge ns1 vs1 ns2 []).1 (merge ns1 vs1 ns2 []).2 :: rest) σ := by
  have hlen : vs1.length = ns1.length := by
    cases vs1 with
    | nil => exact absurd rfl hv1
    | cons a as => simpa [h16] using hH
  have hm : merge ns1 vs1 ns2 [] = (ns1 ++ ns2, vs1 ++ nils ns2.length) := by
    cases vs1 with
    | nil => exact absurd rfl hv1
    | cons a as => simp [merge]
  have hne : nils ns2.length ≠ [] := by
    cases ns2 with
    | nil => exact absurd rfl hn2
    | cons a as => simp [nils, List.replicate]
  rw [hm]
  exact merge_core call ρ k env k1 k2 ns1 ns2 vs1 vs1 [] (nils ns2.length) rest σ σ1 σ1
    (bindLocals (names ns1) ws1 env.locals σ1).2 ws1 [] (List.replicate ns2.length .nil) hne h1
    (by rw [← hlen]; exact evalFirsts_of_evalEs call ρ k env vs1 σ σ1 ws1 h1)
    (by simp [evalEs]) (evalEs_nils call ρ k env _ σ1) rfl (padTake_replicate _)

/-- F17 (fixed): `local a = nil, true` / `local b = false` / `return b`. Before the fix the rule merged
it into `local a, b = nil, true, false` (returning `true` instead of `false`); now it is left alone. -/
def f17Witness : Block :=
  .mk [.localAssign .loc [.mk "a" none] [.nil, .true], .localAssign .loc [.mk "b" none] [.false]]
    (some (.ret [.var "b"]))

theorem f17_rule_output : (processBlock f17Witness ()).1 = f17Witness := by
  simp [processBlock, f17Witness, filterStatements, go, shouldMerge]

end

end DarkluaModel.Rules.GroupLocal
