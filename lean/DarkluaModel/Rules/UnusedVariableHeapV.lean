import DarkluaModel.Rules.UnusedVariable
import DarkluaModel.Shared.VisitorSoundHeapV
/-!
# `remove_unused_variable` — whole-rule theorem on a LARGER fragment, through the stage-4 lifting

As `UnusedVariableHeap.lean` (see there for what the rule does beyond the fragment), but the removals covered
are those of declarations whose initialisers only ALLOCATE (`Expr.allocPureAll`: literals, identifiers, `...`,
function expressions, table constructors of such without computed keys) and of unused `local function`s — the
dropped table / closure / cell allocations renumber everything allocated later, which the stage-4 relation
(`Shared/VisitorSoundHeapV.lean`) absorbs. Price: the oracle of external functions must return no heap
references (`OracleFlat ρ`).

* `hooksV`           — the guarded hook rewrites by chains of `dropLocal` / `dropLocalFn` links;
* `applyG_refines`   — `applyG` preserves the observable outcome of EVERY program;
* `apply_refines_of_agree` — hence so does the rule itself on every program on which it agrees with
  its guarded version (`applyG api b = apply api b`: decidable).
-/
namespace DarkluaModel.Rules.UnusedVariable.GuardedV
open DarkluaModel.Sem DarkluaModel.Sem.HeapV DarkluaModel.Rules DarkluaModel.Rules.UnusedVariable
open DarkluaModel.Sem.Heap (tailRefs)

/-- a declaration that the rule removes (all names unused for `FindUsage`, no effectful value) and that the
`dropLocal` / `dropLocalFn` links cover (allocation-only values, names not referenced afterwards); `rest` = the
statements after it -/
def dropOK (api : EvalApi) (last : Option Last) (inExtra : List String) (cr : String → Bool) (s : Stmt)
    (rest : List Stmt) : Bool :=
  match s with
  | .localAssign _ ns vs =>
    !ns.isEmpty &&
    ((tnames ns).map fun id => isUsedAfter id rest last inExtra).all (!·) &&
    (vs.filter api.hasSideEffects).isEmpty && Expr.allocPureAll vs &&
    (ns.map TName.name).all (fun n => !tailRefs n rest last && !cr n)
  | .localFn _ name _ => !isUsedAfter name rest last inExtra && !tailRefs name rest last && !cr name
  | _ => false

/-- remove exactly the `dropOK` declarations (the flag records a removal, as the rule does) -/
def rewriteG (api : EvalApi) (last : Option Last) (inExtra : List String) (cr : String → Bool) :
    List Stmt → Bool → List Stmt × Bool
  | [], m => ([], m)
  | s :: rest, m =>
    if dropOK api last inExtra cr s rest then rewriteG api last inExtra cr rest true
    else
      let (r, m') := rewriteG api last inExtra cr rest m
      (s :: r, m')

/-- the removed declarations are covered by the `dropLocal` links: a chain in a closed block -/
theorem drop_chain (api : EvalApi) (last : Option Last) (inExtra : List String)
    (ss : List Stmt) (m : Bool) (pre : List Stmt) :
    Chain VkB (.mk (pre ++ ss) last) (.mk (pre ++ (rewriteG api last inExtra (fun _ => false) ss m).1) last) := by
  induction ss generalizing pre m with
  | nil => exact .refl _
  | cons s rest ih =>
    by_cases hd : dropOK api last inExtra (fun _ => false) s rest = true
    · simp only [rewriteG, hd, if_true]
      cases s with
      | localAssign kind ns vs =>
        simp only [dropOK, Bool.and_eq_true, List.all_eq_true, Bool.not_eq_true'] at hd
        obtain ⟨⟨_, hatoms⟩, hrefs⟩ := hd
        refine .cons (VkB.dropLocal (allocPureAll_sound vs hatoms) fun n hn => ?_) (ih true pre)
        have := hrefs n hn
        first | exact this.1 | exact this | (simp at this; exact this)
      | localFn kind name f =>
        simp only [dropOK, Bool.and_eq_true, Bool.not_eq_true'] at hd
        exact .cons (VkB.dropLocalFn hd.1.2) (ih true pre)
      | _ => simp [dropOK] at hd
    · simp only [rewriteG, hd, Bool.false_eq_true, if_false]
      have := ih m (pre ++ [s])
      simpa [List.append_assoc] using this

/-- the same for a `repeat` body with its `until` condition -/
theorem drop_chain_rep (api : EvalApi) (last : Option Last) (inExtra : List String) (c : Expr)
    (ss : List Stmt) (m : Bool) (pre : List Stmt) :
    Chain VkRep (.mk (pre ++ ss) last, c)
      (.mk (pre ++ (rewriteG api last inExtra (fun n => c.refs (.ref n)) ss m).1) last, c) := by
  induction ss generalizing pre m with
  | nil => exact .refl _
  | cons s rest ih =>
    by_cases hd : dropOK api last inExtra (fun n => c.refs (.ref n)) s rest = true
    · simp only [rewriteG, hd, if_true]
      cases s with
      | localAssign kind ns vs =>
        simp only [dropOK, Bool.and_eq_true, List.all_eq_true, Bool.not_eq_true'] at hd
        obtain ⟨⟨_, hatoms⟩, hrefs⟩ := hd
        have h2 : ∀ n ∈ ns.map TName.name, tailRefs n rest last = false ∧ c.refs (.ref n) = false := fun n hn => by
          have := hrefs n hn
          simpa only [Bool.and_eq_true, Bool.not_eq_true'] using this
        exact .cons (VkRep.dropLocal (allocPureAll_sound vs hatoms) (fun n hn => (h2 n hn).1) (fun n hn => (h2 n hn).2))
          (ih true pre)
      | localFn kind name f =>
        simp only [dropOK, Bool.and_eq_true, Bool.not_eq_true'] at hd
        exact .cons (VkRep.dropLocalFn hd.1.2 hd.2) (ih true pre)
      | _ => simp [dropOK] at hd
    · simp only [rewriteG, hd, Bool.false_eq_true, if_false]
      have := ih m (pre ++ [s])
      simpa [List.append_assoc] using this

/-- which names the `until` condition references -/
def condRefs : Option Expr → String → Bool
  | some c => fun n => c.refs (.ref n)
  | none => fun _ => false

/-- the guarded `process_scope` -/
def scopeG (api : EvalApi) : Block → Option Expr → Bool → (Block × Option Expr) × Bool
  | .mk stmts last, extra, m =>
    let (stmts', m') := rewriteG api last (usagesInExtra stmts extra) (condRefs extra) stmts m
    ((.mk stmts' last, extra), m')

def processorG (api : EvalApi) : Processor Bool := { scope := scopeG api }

theorem scopeG_none_chain (api : EvalApi) (b : Block) (m : Bool) :
    Chain VkB b (scopeG api b none m).1.1 := by
  cases b with
  | mk ss last =>
    simp only [scopeG, condRefs]
    simpa using drop_chain api last (usagesInExtra ss none) ss m []

theorem hooksV (api : EvalApi) : HooksV (processorG api) where
  scopeB := fun b s => scopeG_none_chain api b s
  scopeR := fun b c s => by
    cases b with
    | mk ss last =>
      simp only [processorG, scopeG, condRefs, Option.getD]
      simpa using drop_chain_rep api last (usagesInExtra ss (some c)) c ss s []

/-- one iteration of the rule's loop, with the guarded hook -/
def passG (api : EvalApi) (b : Block) : Block × Bool :=
  let ((b1, _), m1) := scopeG api b none false
  Visitor.runDefault (processorG api) b1 m1

def loopG (api : EvalApi) : Nat → Block → Block
  | 0, b => b
  | n + 1, b =>
    let (b', mutated) := passG api b
    if mutated then loopG api n b' else b'

/-- the rule restricted to the fragment -/
def applyG (api : EvalApi) (b : Block) : Block := loopG api (b.size + 1) b

theorem passG_refines (api : EvalApi) (b : Block) {N : NumOps} (ρ : ExtOracle N) (hρ : OracleFlat ρ) (n : Nat)
    (externs : List String) : runProgram ρ n externs (passG api b).1 = runProgram ρ n externs b := by
  simp only [passG]
  have h1 := chain_runProgram (scopeG_none_chain api b false) ρ hρ n externs
  have h2 := Visitor.runDefault_v (hooksV api) (scopeG api b none false).1.1 (scopeG api b none false).2 ρ hρ n externs
  exact h2.trans h1

theorem loopG_refines (api : EvalApi) : ∀ (k : Nat) (b : Block) {N : NumOps} (ρ : ExtOracle N) (_ : OracleFlat ρ)
    (n : Nat) (externs : List String), runProgram ρ n externs (loopG api k b) = runProgram ρ n externs b
  | 0, _, _, _, _, _, _ => rfl
  | k + 1, b, N, ρ, hρ, n, externs => by
    simp only [loopG]
    split
    · exact (loopG_refines api k _ ρ hρ n externs).trans (passG_refines api b ρ hρ n externs)
    · exact passG_refines api b ρ hρ n externs

/-- **whole rule, every program**: the guarded rule preserves the observable outcome -/
theorem applyG_refines (api : EvalApi) (b : Block) {N : NumOps} (ρ : ExtOracle N) (hρ : OracleFlat ρ) (n : Nat)
    (externs : List String) : runProgram ρ n externs (applyG api b) = runProgram ρ n externs b :=
  loopG_refines api _ b ρ hρ n externs

/-- hence the rule itself, on every program on which it agrees with its guarded version -/
theorem apply_refines_of_agree (api : EvalApi) (b : Block) (h : applyG api b = apply api b)
    {N : NumOps} (ρ : ExtOracle N) (hρ : OracleFlat ρ) (n : Nat) (externs : List String) :
    runProgram ρ n externs (apply api b) = runProgram ρ n externs b := by
  rw [← h]; exact applyG_refines api b ρ hρ n externs

end DarkluaModel.Rules.UnusedVariable.GuardedV
