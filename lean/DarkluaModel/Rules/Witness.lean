import DarkluaModel.Rules.EvalLitSound
/-!
Concrete artefacts for the refutations (`…_full_false`) of C01: a trivial number system whose
operations reduce in the kernel, a start state with one external function `f`, and an
evaluator instance that is PROVED sound and knows one effectful expression
`K = {f()} and "a"` to be the string `"a"` (as darklua's evaluator does — F6).
-/
namespace DarkluaModel.Rules.Witness
open DarkluaModel.Sem DarkluaModel.Rules

def unitOps : NumOps where
  F := Unit
  ofBits _ := ()
  toBits _ := 0
  add _ _ := ()
  sub _ _ := ()
  mul _ _ := ()
  div _ _ := ()
  mod _ _ := ()
  pow _ _ := ()
  idiv _ _ := ()
  neg _ := ()
  lt _ _ := false
  le _ _ := true
  eq _ _ := true
  isNaN _ := false
  ofNat _ := ()
  toNat? _ := none
  toStr _ := []
  ofStr _ := none
  floor _ := ()
  sqrt _ := ()

/-- `{f()} and "a"` -/
def K : Expr := .bin .and (.table [.pos (.call (.var "f") none .tuple [])]) (.str [97])

def isK : Expr → Bool
  | .bin .and (.table [.pos (.call (.var "f") none .tuple [])]) (.str [97]) => true
  | _ => false

theorem isK_eq {e : Expr} (h : isK e = true) : e = K := by
  unfold isK at h
  split at h
  · rfl
  · simp at h

/-- `litApi` + "`K` evaluates to the string `a`" (and, truthfully, has side effects) -/
def kApi : EvalApi where
  kind e := if isK e then .string [97] else litApi.kind e
  toExpr := litApi.toExpr
  hasSideEffects := litApi.hasSideEffects
  canReturnMultiple := canReturnMultiple

theorem evalK {N : NumOps} (call : CallFn N) (ρ : ExtOracle N) (k : Nat) (env : Env N)
    (σ σ' : State N) (vs : List (Val N)) (h : evalE call ρ k env K σ = .ok vs σ') : vs = [.str [97]] := by
  simp only [K, evalE] at h
  cases hx : evalEntries call ρ k env (σ.allocTable { entries := [], mt := none }).1 1
      [.pos (.call (.var "f") none .tuple [])] (σ.allocTable { entries := [], mt := none }).2 with
  | timeout => simp [hx, Res.bind] at h
  | err v σ1 => simp [hx, Res.bind] at h
  | ok u σ1 =>
    simp [hx, Res.bind, first, Val.truthy] at h
    exact h.1.symm

theorem kApi_sound (N : NumOps) : EvalSound N kApi notInst where
  truthy e b hg ht call ρ k env σ σ' vs h := by
    by_cases hk : isK e = true
    · have := isK_eq hk; subst this
      have hv := evalK call ρ k env σ σ' vs h
      simp [EvalApi.isTruthy, kApi, hk, LuaKind.isTruthy] at ht
      subst hv; subst ht; simp [first, Val.truthy]
    · have ht' : litApi.isTruthy e = some b := by
        simpa [EvalApi.isTruthy, kApi, hk] using ht
      exact (litApi_sound N).truthy e b hg ht' call ρ k env σ σ' vs h
  pure e hg hs hn call ρ k env σ σ' vs h := (litApi_sound N).pure e hg hs hn call ρ k env σ σ' vs h
  str e s hg hkind call ρ k env σ σ' vs h := by
    by_cases hk : isK e = true
    · have := isK_eq hk; subst this
      have hv := evalK call ρ k env σ σ' vs h
      simp [kApi, hk] at hkind
      subst hv; subst hkind; simp [first]
    · have hk' : litApi.kind e = .string s := by simpa [kApi, hk] using hkind
      exact (litApi_sound N).str e s hg hk' call ρ k env σ σ' vs h
  single e hg hm call ρ k env σ σ' vs h := canReturnMultiple_sound call ρ k env e hm hg σ σ' vs h

/-- a start state whose only global is the external function `f` -/
def σ0 : State unitOps :=
  { globals := [("f", .builtin "f")], cells := [], tables := [], closures := [], trace := [] }
def ρ0 : ExtOracle unitOps := fun _ _ _ => []
def call0 : CallFn unitOps := fun _ _ _ => .timeout
def env0 : Env unitOps := ⟨[], []⟩

/-- number of external calls recorded by a successful result (99 = not successful) -/
def traceLen {α : Type} : Res unitOps α → Nat
  | .ok _ σ => σ.trace.length
  | _ => 99

end DarkluaModel.Rules.Witness
