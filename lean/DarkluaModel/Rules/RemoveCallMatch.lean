import DarkluaModel.Shared.Visitor
import DarkluaModel.Shared.Run
import DarkluaModel.Shared.VisitorSound.Heap.Refs
/-!
# `RemoveFunctionCallProcessor` (`src/rules/remove_call_match.rs`) and its helpers

* `IdentifierTracker` (`src/process/scope_visitor.rs`): a stack of identifier sets;
  `is_identifier_used` = the name is in ANY set of the stack.
* `Evaluator::has_side_effects` / `Evaluator::evaluate` (`src/process/evaluator/mod.rs`, default
  evaluator: `pure_metamethods = false`). Modelled on the fragment that needs no string↔number
  coercion (`LuaValue::number_coercion` of a string, `string_coercion` of a number): reaching one
  of those answers `none` ("unmodelled"), which the processor records in its state and the
  driver reports instead of a tree. The theorems treat `hasSideEffects` as given: they assume the
  dropped arguments evaluate purely, they do not prove it (that is property C08's subject).
* `preserve_arguments_side_effects` (`src/utils/preserve_arguments_side_effects.rs`)
* `expressions_as_statement` / `expressions_as_expression` (`src/utils/expressions_as_statement.rs`)
* `RemoveFunctionCallProcessor::{process_statement, process_expression, extract_reserved_globals}`
-/
namespace DarkluaModel.Rules.RemoveCallMatch

/-! ### IdentifierTracker -/

/-- innermost scope first (`Vec<HashSet<String>>`, last = innermost) -/
abbrev Scopes := List (List String)

def isUsed (sc : Scopes) (name : String) : Bool := sc.any fun s => s.contains name

/-- `insert_identifier`: into the innermost set; creates one when the stack is empty -/
def insertId (name : String) : Scopes → Scopes
  | [] => [[name]]
  | s :: rest => (name :: s) :: rest

def pushScope (sc : Scopes) : Scopes := [] :: sc
def popScope (sc : Scopes) : Scopes := sc.tail

/-! ### `LuaValue` and `Evaluator::evaluate` -/

inductive LuaValue where
  | false_ | function | nil_
  | number (x : Float)
  | string (s : List UInt8)
  | table | true_ | unknown

def LuaValue.isTruthy : LuaValue → Option Bool
  | .unknown => none
  | .nil_ | .false_ => some false
  | _ => some true

def LuaValue.ofBool (b : Bool) : LuaValue := if b then .true_ else .false_

def LuaValue.isUnknown : LuaValue → Bool
  | .unknown => true
  | _ => false

/-- lexicographic `<` on byte strings (`<` on `&[u8]`) -/
def bytesLt : List UInt8 → List UInt8 → Bool
  | [], [] => false
  | [], _ :: _ => true
  | _ :: _, [] => false
  | a :: as, b :: bs => if a < b then true else if b < a then false else bytesLt as bs

/-- `f64::EPSILON` -/
def f64Epsilon : Float := Float.ofBits 0x3CB0000000000000

/-- `evaluate_equal` -/
def evaluateEqual : LuaValue → LuaValue → LuaValue
  | .unknown, _ => .unknown
  | _, .unknown => .unknown
  | .true_, .true_ => .true_
  | .false_, .false_ => .true_
  | .nil_, .nil_ => .true_
  | .number a, .number b => .ofBool (decide ((a - b).abs < f64Epsilon))
  | .string a, .string b => .ofBool (a == b)
  | _, _ => .false_

def mathOp : BinOp → Float → Float → Float
  | .add, a, b => a + b
  | .sub, a, b => a - b
  | .mul, a, b => a * b
  | .div, a, b => a / b
  | .idiv, a, b => (a / b).floor
  | .pow, a, b => Float.pow a b
  | .mod, a, b => a - b * (a / b).floor
  | _, a, _ => a

def relNum : BinOp → Float → Float → Bool
  | .lt, a, b => decide (a < b)
  | .le, a, b => decide (a ≤ b)
  | .gt, a, b => decide (b < a)
  | .ge, a, b => decide (b ≤ a)
  | _, _, _ => false

def relStr : BinOp → List UInt8 → List UInt8 → Bool
  | .lt, a, b => bytesLt a b
  | .le, a, b => !bytesLt b a
  | .gt, a, b => bytesLt b a
  | .ge, a, b => !bytesLt a b
  | _, _, _ => false

/-- `none` = the real code would call `number_coercion` on a string / `string_coercion` on a
number here (not modelled) -/
def numberCoercion : LuaValue → Option LuaValue
  | .string _ => none
  | v => some v

def stringCoercion : LuaValue → Option LuaValue
  | .number _ => none
  | v => some v

/-- `evaluate_unary` on the evaluated operand -/
def evalUnary : UnOp → LuaValue → Option LuaValue
  | .not, v => some (match v.isTruthy with | some t => .ofBool (!t) | none => .unknown)
  | .neg, v =>
    match numberCoercion v with
    | none => none
    | some (.number x) => some (.number (-x))
    | some _ => some .unknown
  | .len, .string s => some (.number s.length.toFloat)
  | .len, _ => some .unknown

/-- `evaluate_binary` on the evaluated left operand and the (lazily used) evaluation of the right one -/
def evalBinary (op : BinOp) (lv : LuaValue) (rv : Option LuaValue) : Option LuaValue :=
  match op with
  | .and =>
    match lv.isTruthy with
    | some true => rv
    | some false => some lv
    | none => some .unknown
  | .or =>
    match lv.isTruthy with
    | some true => some lv
    | some false => rv
    | none => some .unknown
  | .eq => rv.map (evaluateEqual lv)
  | .ne =>
    rv.map fun b =>
      match evaluateEqual lv b with
      | .true_ => .false_
      | .false_ => .true_
      | _ => .unknown
  | .concat =>
    match rv with
    | none => none
    | some b =>
      match stringCoercion lv, stringCoercion b with
      | some (.string x), some (.string y) => some (.string (x ++ y))
      | some _, some _ => some .unknown
      | _, _ => none
  | .lt | .le | .gt | .ge =>
    match lv with
    | .number x =>
      match rv with
      | none => none
      | some (.number y) => some (.ofBool (relNum op x y))
      | some _ => some .unknown
    | .string x =>
      match rv with
      | none => none
      | some (.string y) => some (.ofBool (relStr op x y))
      | some _ => some .unknown
    | _ => some .unknown
  | _ =>
    -- `evaluate_math`
    match numberCoercion lv with
    | none => none
    | some (.number x) =>
      match rv with
      | none => none
      | some r =>
        match numberCoercion r with
        | none => none
        | some (.number y) => some (.number (mathOp op x y))
        | some _ => some .unknown
    | some _ => some .unknown

/-- one `if`/`elseif` step of `evaluate_if`: condition value, branch result, the rest -/
def evalIfStep (cv : Option LuaValue) (tv rest : Option LuaValue) : Option LuaValue :=
  match cv with
  | none => none
  | some c =>
    match c.isTruthy with
    | some true => tv
    | some false => rest
    | none => some .unknown

def segBytes : LuaValue → Option (List UInt8)
  | .false_ => some "false".toUTF8.toList
  | .true_ => some "true".toUTF8.toList
  | .nil_ => some "nil".toUTF8.toList
  | .string s => some s
  | _ => none

mutual
  /-- `Evaluator::evaluate`; `none` = unmodelled coercion reached -/
  def evaluate : Expr → Option LuaValue
    | .false => some .false_
    | .fn _ => some .function
    | .nil => some .nil_
    | .num b => some (.number (Float.ofBits b))
    | .str s => some (.string s)
    | .table _ => some .table
    | .true => some .true_
    | .paren e => evaluate e
    | .cast e _ => evaluate e
    | .inst e _ => evaluatePrefix e
    | .un op e =>
      match evaluate e with
      | none => none
      | some v => evalUnary op v
    | .bin op l r =>
      match evaluate l with
      | none => none
      | some lv => evalBinary op lv (evaluate r)
    | .ifx c t elifs e => evalIfStep (evaluate c) (evaluate t) (evaluateElifs elifs (evaluate e))
    | .interp segs => evaluateSegs segs
    | .call _ _ _ _ | .field _ _ | .var _ | .index _ _ | .vararg => some .unknown

  /-- `evaluate_prefix` -/
  def evaluatePrefix : Expr → Option LuaValue
    | .paren e => evaluate e
    | .inst e _ => evaluatePrefix e
    | _ => some .unknown

  /-- the `elseif` branches of `evaluate_if`, then the `else` result -/
  def evaluateElifs : List (Expr × Expr) → Option LuaValue → Option LuaValue
    | [], ev => ev
    | (c, t) :: rest, ev => evalIfStep (evaluate c) (evaluate t) (evaluateElifs rest ev)

  /-- interpolated string: `some (.string …)` as long as every value segment is a known
  boolean / nil / string, `.unknown` from the first other one on -/
  def evaluateSegs : List Seg → Option LuaValue
    | [] => some (.string [])
    | .s b :: rest =>
      match evaluateSegs rest with
      | some (.string s) => some (.string (b ++ s))
      | other => other
    | .v e :: rest =>
      match evaluate e with
      | none => none
      | some v =>
        match segBytes v with
        | none => some .unknown
        | some b =>
          match evaluateSegs rest with
          | some (.string s) => some (.string (b ++ s))
          | other => other
end

/-! ### `Evaluator::has_side_effects` (default evaluator: metamethods are not assumed pure) -/

def orO (a : Option Bool) (b : Option Bool) : Option Bool :=
  match a with
  | none => none
  | some true => some true
  | some false => b

/-- binary expressions: from the evaluation / side effects of both operands -/
def hseBinary (op : BinOp) (lv : Option LuaValue) (ls : Option Bool) (rv : Option LuaValue) (rs : Option Bool) :
    Option Bool :=
  match lv, ls with
  | some lv, some ls =>
    match op with
    | .and => if lv.isTruthy.getD true then orO (some ls) rs else some ls
    | .or => if lv.isTruthy.getD false then some ls else orO (some ls) rs
    | _ =>
      if lv.isUnknown then some true
      else
        match rv with
        | none => none
        | some rv => if rv.isUnknown then some true else orO (some ls) rs
  | _, _ => none

/-- one step of `if_expression_has_side_effects` when all earlier conditions are known false:
`cs` = side effects of the condition, `cv` its value, `ts` side effects of the result, `rest` the
answer for the remaining branches -/
def hseIfKnownStep (cs : Option Bool) (cv : Option LuaValue) (ts rest : Option Bool) (first : Bool)
    (unknownRest : Option Bool) : Option Bool :=
  match cs with
  | none => none
  | some true => some true
  | some false =>
    match cv with
    | none => none
    | some c =>
      match c.isTruthy with
      | some true => ts
      | some false => rest
      | none => if first then orO ts unknownRest else orO ts rest

mutual
  def hasSideEffects : Expr → Option Bool
    | .false | .fn _ | .var _ | .nil | .num _ | .str _ | .true | .vararg => some false
    | .ifx c t elifs e =>
      hseIfKnownStep (hasSideEffects c) (evaluate c) (hasSideEffects t) (hseElifsKnown elifs (hasSideEffects e)) true
        (orO (hseElifsAny elifs) (hasSideEffects e))
    | .bin op l r => hseBinary op (evaluate l) (hasSideEffects l) (evaluate r) (hasSideEffects r)
    | .un op e =>
      match op with
      | .not => hasSideEffects e
      | _ =>
        match evaluate e with
        | none => none
        | some v => if v.isUnknown then some true else hasSideEffects e
    | .field _ _ => some true
    | .index _ _ => some true
    | .paren e => hasSideEffects e
    | .table entries => hseEntries entries
    | .call _ _ _ _ => some true
    | .interp segs => hseSegs segs
    | .cast e _ => hasSideEffects e
    | .inst e _ => prefixHasSideEffects e

  /-- `prefix_has_side_effects` -/
  def prefixHasSideEffects : Expr → Option Bool
    | .call _ _ _ _ => some true
    | .field _ _ => some true
    | .index _ _ => some true
    | .var _ => some false
    | .paren e => hasSideEffects e
    | .inst e _ => prefixHasSideEffects e
    | _ => some true   -- not a prefix (ill-formed tree)

  /-- condition known false: walk the branches as `if_expression_has_side_effects` does -/
  def hseElifsKnown : List (Expr × Expr) → Option Bool → Option Bool
    | [], es => es
    | (c, t) :: rest, es =>
      hseIfKnownStep (hasSideEffects c) (evaluate c) (hasSideEffects t) (hseElifsKnown rest es) false none

  def hseElifsAny : List (Expr × Expr) → Option Bool
    | [] => some false
    | (c, t) :: rest => orO (hasSideEffects c) (orO (hasSideEffects t) (hseElifsAny rest))

  def hseEntries : List Entry → Option Bool
    | [] => some false
    | .pos v :: rest => orO (hasSideEffects v) (hseEntries rest)
    | .named _ v :: rest => orO (hasSideEffects v) (hseEntries rest)
    | .keyed k v :: rest => orO (hasSideEffects k) (orO (hasSideEffects v) (hseEntries rest))

  def hseSegs : List Seg → Option Bool
    | [] => some false
    | .s _ :: rest => hseSegs rest
    | .v e :: rest => orO (hasSideEffects e) (hseSegs rest)
end

/-- keep? and whether the answer was unmodelled (then the expression is kept) -/
def keeps (e : Expr) : Bool := (hasSideEffects e).getD true
def unmodelledAt (e : Expr) : Bool := (hasSideEffects e).isNone

/-! ### `preserve_arguments_side_effects` -/

def entryCandidates : List Entry → List Expr
  | [] => []
  | .pos v :: rest => v :: entryCandidates rest
  | .named _ v :: rest => v :: entryCandidates rest
  | .keyed k v :: rest => k :: v :: entryCandidates rest

/-- the expressions the function looks at, in order (tuple values; table-entry keys and values;
nothing for a string argument) -/
def argCandidates : ArgKind → List Expr → List Expr
  | .tuple, args => args
  | .tbl, [.table entries] => entryCandidates entries
  | .tbl, _ => []
  | .str, _ => []

def preserveArgumentsSideEffects (kind : ArgKind) (args : List Expr) : List Expr :=
  (argCandidates kind args).filter keeps

def argsUnmodelled (kind : ArgKind) (args : List Expr) : Bool :=
  (argCandidates kind args).any unmodelledAt

/-! ### `expressions_as_statement` / `expressions_as_expression` -/

/-- `get_inner_expression`: strip parentheses and type casts -/
def getInner : Expr → Expr
  | .paren e => getInner e
  | .cast e _ => getInner e
  | e => e

def isCall : Expr → Bool
  | .call _ _ _ _ => true
  | _ => false

/-- `uses_discard_variable` (F36 fix): the expression mentions an identifier named `_`
(`FindVariables` through `DefaultVisitor`; expressions hidden in types are not looked at by this model) -/
def usesDiscard (e : Expr) : Bool := e.refs (.ref "_")

/-- `used_later[i]`: some LATER expression mentions `_` -/
def usedLaterFlags : List Expr → List Bool
  | [] => []
  | _ :: rest => rest.any usesDiscard :: usedLaterFlags rest

/-- push `value` onto the statement list (in order): calls become call statements; a value that a later
expression could see through `_` gets its own `do local _ = value end` (F36 fix); other values
extend a trailing `local _ = …` or start a new one -/
def pushValue (stmts : List Stmt) (value : Expr) (usedLater : Bool) : List Stmt :=
  if isCall value then stmts ++ [.callStmt value]
  else if usedLater then stmts ++ [.doBlock (.mk [.localAssign .loc [.mk "_" none] [value]] none)]
  else
    match stmts.getLast? with
    | some (.localAssign kind names values) =>
      stmts.dropLast ++ [.localAssign kind names (values ++ [value])]
    | _ => stmts ++ [.localAssign .loc [.mk "_" none] [value]]

def asStatements (es : List Expr) : List Stmt :=
  (es.zip (usedLaterFlags es)).foldl (fun acc p => pushValue acc (getInner p.1) p.2) []

def expressionsAsStatement (es : List Expr) : Stmt :=
  match asStatements es with
  | [s] => s
  | stmts => .doBlock (.mk stmts none)

def orTrueChain : List Expr → Expr
  | [] => .nil
  | v :: rest => .bin .and (.bin .or v .true) (orTrueChain rest)

/-- `expressions_as_expression` (after the F32 fix: no special `e and nil` form for one expression) -/
def expressionsAsExpression : List Expr → Expr
  | [] => .nil
  | es => orTrueChain es

/-! ### the processor -/

/-- `CallMatch`: `matchesPrefix used prefix` (Rust `matches`); `computeResult kind args mappings`;
`reserve_globals`. `hasResult` (does the matcher override `compute_result`) and `watched` (the
globals the rule is about) only feed the defect-region instrumentation below. -/
structure Matcher where
  matchesPrefix : (String → Bool) → Expr → Bool
  computeResult : ArgKind → List Expr → List (String × String) → Option Expr := fun _ _ _ => none
  reserve : List String := []
  hasResult : Bool := false
  watched : List String := []

structure St where
  scopes : Scopes := []
  /-- `global_mappings` (insertion order; at most one key, `select`, in the rules built on this) -/
  mappings : List (String × String) := []
  counter : Nat := 0
  /-- `has_side_effects` left the modelled fragment somewhere -/
  unmodelled : Bool := false
  /-- instrumentation only (never read by the rewriting): defect regions met, see `C17/Model.lean` -/
  flags : List String := []

def St.flag (st : St) (f : String) : St :=
  if st.flags.contains f then st else { st with flags := st.flags ++ [f] }

def St.flagIf (st : St) (c : Bool) (f : String) : St := if c then st.flag f else st

def reservedName (n : Nat) : String := "__DARKLUA_REMOVE_CALL_RESERVED_" ++ toString n

/-- the loop over `insert_globals` in `process_expression` -/
def reserveGlobals (M : Matcher) (st : St) : St :=
  let missing := M.reserve.filter fun g => isUsed st.scopes g && !(st.mappings.any fun p => p.1 == g)
  missing.foldl (fun st g =>
    { st with counter := st.counter + 1, mappings := st.mappings ++ [(g, reservedName (st.counter + 1))] }) st

/-- is this statement a call (without method) that the matcher removes? -/
def stmtMatched (M : Matcher) (st : St) : Stmt → Bool
  | .callStmt (.call f none _ _) => M.matchesPrefix (isUsed st.scopes) f
  | _ => false

/-- is this expression a call (without method) that the matcher removes? -/
def exprMatched (M : Matcher) (st : St) : Expr → Bool
  | .call f none _ _ => M.matchesPrefix (isUsed st.scopes) f
  | _ => false

/-- F31 fix: a lone `local _ = …` is wrapped in `do … end` -/
def wrapLocal : Stmt → Stmt
  | .localAssign k ns vs => .doBlock (.mk [.localAssign k ns vs] none)
  | other => other

/-- one round of the loop of `process_statement`: the matched call statement becomes the statement
built from its kept arguments; a lone `local _ = …` is wrapped in `do … end` (F31 fix) -/
def processStatementOnce (M : Matcher) (preserve : Bool) : Stmt → St → Stmt × St
  | .callStmt (.call f none kind args), st =>
    if M.matchesPrefix (isUsed st.scopes) f then
      if preserve then
        (wrapLocal (expressionsAsStatement (preserveArgumentsSideEffects kind args)),
          { st with unmodelled := st.unmodelled || argsUnmodelled kind args })
      else (.doBlock (.mk [] none), st)
    else (.callStmt (.call f none kind args), st)
  | s, st => (s, st)

/-- one round of the loop of `process_expression`. The flag `zero-arg-expr` (instrumentation, F18) is
recorded here because a later round can meet it on a node produced by an earlier one. -/
def processExpressionOnce (M : Matcher) (preserve : Bool) : Expr → St → Expr × St
  | .call f none kind args, st =>
    if M.matchesPrefix (isUsed st.scopes) f then
      let st1 := (reserveGlobals M st).flagIf (M.hasResult && args.isEmpty) "zero-arg-expr"
      match M.computeResult kind args st1.mappings with
      | some result => (result, st1)
      | none =>
        if preserve then
          (expressionsAsExpression (preserveArgumentsSideEffects kind args),
            { st1 with unmodelled := st1.unmodelled || argsUnmodelled kind args })
        else (.nil, st1)
    else (.call f none kind args, st)
  | e, st => (e, st)

/-- `while let Statement::Call(call) = statement { if matches { replace } else { break } }` (F30 fix);
every round strictly shrinks the statement, `fuel` = its size is enough -/
def processStatementLoop (M : Matcher) (preserve : Bool) : Nat → Stmt → St → Stmt × St
  | 0, s, st => (s, st)
  | n + 1, s, st =>
    if stmtMatched M st s then
      let r := processStatementOnce M preserve s st
      processStatementLoop M preserve n r.1 r.2
    else (s, st)

def processExpressionLoop (M : Matcher) (preserve : Bool) : Nat → Expr → St → Expr × St
  | 0, e, st => (e, st)
  | n + 1, e, st =>
    if exprMatched M st e then
      let r := processExpressionOnce M preserve e st
      processExpressionLoop M preserve n r.1 r.2
    else (e, st)

/-- `process_statement` -/
def processStatement (M : Matcher) (preserve : Bool) (s : Stmt) (st : St) : Stmt × St :=
  processStatementLoop M preserve (s.size + 1) s st

/-- `process_expression` -/
def processExpression (M : Matcher) (preserve : Bool) (e : Expr) (st : St) : Expr × St :=
  processExpressionLoop M preserve (e.size + 1) e st

/-! ### instrumentation: which known defect regions does the traversal meet?

The flags are the local hypotheses of the `_partial` theorems (`C17/Thm.lean`) evaluated at every
node the REAL traversal reaches (including nodes produced by earlier rewrites). They never
influence the tree. Left after the fixes of F19 F30 F31 F32: `zero-arg-expr` (F18, set in
`processExpressionOnce`), `multi-position` (F33),
`global-write` (outside the quantifier). -/

/-- a matched call (no method) -/
def isMatchedCall (M : Matcher) (sc : Scopes) : Expr → Bool
  | .call f none _ _ => M.matchesPrefix (isUsed sc) f
  | _ => false

def lastPositional : List Entry → Option Expr
  | [] => none
  | [.pos v] => some v
  | _ :: rest => lastPositional rest

/-- a matched call without `compute_result` as the last element of a list: it yields one value
where the removed call yielded none (`multi-position`) -/
def listFlags (M : Matcher) (last : Option Expr) (st : St) : St :=
  match last with
  | some a => st.flagIf (!M.hasResult && isMatchedCall M st.scopes a) "multi-position"
  | none => st

def nodeFlags (M : Matcher) (e : Expr) (st : St) : St :=
  match e with
  | .call _ _ .tuple args => listFlags M args.getLast? st
  | .table entries => listFlags M (lastPositional entries) st
  | _ => st

def lastFlags (M : Matcher) (l : Last) (st : St) : St :=
  match l with
  | .ret es => listFlags M es.getLast? st
  | _ => st

/-- the program assigns one of the globals the rule is about (`global-write`) -/
def targetFlags (M : Matcher) (e : Expr) (st : St) : St :=
  match e with
  | .var n => st.flagIf (M.watched.contains n && !isUsed st.scopes n) "global-write"
  | .field (.var n) _ => st.flagIf (n == "debug" && M.watched.contains n && !isUsed st.scopes n) "global-write"
  | _ => st

def stmtNodeFlags (M : Matcher) (s : Stmt) (st : St) : St :=
  match s with
  | .function (root :: _) _ _ => st.flagIf (M.watched.contains root && !isUsed st.scopes root) "global-write"
  | _ => st

def processor (M : Matcher) (preserve : Bool) : Processor St where
  stmt := processStatement M preserve
  expr := processExpression M preserve
  node := fun e st => (e, nodeFlags M e st)
  last := fun l st => (l, lastFlags M l st)
  target := fun e st => (e, targetFlags M e st)
  stmtNode := fun s st => (s, stmtNodeFlags M s st)
  push := fun st => { st with scopes := pushScope st.scopes }
  pop := fun st => { st with scopes := popScope st.scopes }
  insert := fun n st => (n, { st with scopes := insertId n st.scopes })
  insertSelf := fun st => { st with scopes := insertId "self" st.scopes }
  insertLocal := fun n e st => ((n, e), { st with scopes := insertId n st.scopes })
  insertLocalFn := fun n st => (n, { st with scopes := insertId n st.scopes })

/-- `extract_reserved_globals` -/
def extractReservedGlobals (st : St) : Option Stmt :=
  match st.mappings with
  | [] => none
  | ms => some (.localAssign .loc (ms.map fun p => .mk p.2 none) (ms.map fun p => .var p.1))

/-- the `ScopeVisitor` pass of `flawless_process` -/
def run (M : Matcher) (preserve : Bool) (b : Block) : Block × St :=
  Visitor.runScoped (processor M preserve) b {}

/-- `flawless_process` of both rules: one `ScopeVisitor` pass, then the reserved globals are
declared in front of the chunk. Second component: `has_side_effects` was unmodelled somewhere. -/
def apply (M : Matcher) (preserve : Bool) (b : Block) : Block × Bool :=
  let (b1, st) := run M preserve b
  match extractReservedGlobals st, b1 with
  | some s, .mk stmts last => (.mk (s :: stmts) last, st.unmodelled)
  | none, _ => (b1, st.unmodelled)

end DarkluaModel.Rules.RemoveCallMatch
