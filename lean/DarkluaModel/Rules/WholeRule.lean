import DarkluaModel.Shared.VisitorSound
import DarkluaModel.Rules.FilterEarlyReturn
import DarkluaModel.Rules.MethodDef
import DarkluaModel.Rules.CallParens
import DarkluaModel.Rules.Trivia
import DarkluaModel.Rules.UnusedWhile
/-!
Whole-rule theorems by the generic lifting theorem (`Shared/VisitorSound.lean`): for the rules
whose hooks are EXACTLY sound, the rule applied to ANY program (closures included) preserves
the observable outcome (returned / raised values and the trace of external calls).
-/
namespace DarkluaModel.Rules
open Sem

namespace FilterEarlyReturn
theorem hooksExact : HooksExact processor where
  block := fun b _ _ call ρ k env σ => processBlock_sound call ρ k env b σ

theorem apply_refines (b : Block) {N : NumOps} (ρ : ExtOracle N) (n : Nat) (externs : List String) :
    runProgram ρ n externs (apply b) = runProgram ρ n externs b :=
  Visitor.runDefault_refines hooksExact b () ρ n externs
end FilterEarlyReturn

namespace MethodDef
theorem hooksExact : HooksExact processor where
  stmtNode := fun s _ _ call ρ k env σ => removeMethod_sound call ρ k env s σ

theorem apply_refines (b : Block) {N : NumOps} (ρ : ExtOracle N) (n : Nat) (externs : List String) :
    runProgram ρ n externs (apply b) = runProgram ρ n externs b :=
  Visitor.runDefault_refines hooksExact b () ρ n externs
end MethodDef

namespace CallParens
theorem processCall_isLv (e : Expr) : (processCall e).isLv = e.isLv := by
  unfold processCall
  split <;> rfl

theorem processCall_eqT (e : Expr) : EqT e (processCall e) := by
  unfold processCall
  split
  · exact EqT.nonLv rfl rfl
  · exact EqT.nonLv rfl rfl
  · exact EqT.refl _

theorem hooksExact : HooksExact processor where
  node := fun e _ => ⟨fun _ call ρ k env σ => processCall_sound call ρ k env e σ, processCall_eqT e⟩

theorem apply_refines (b : Block) {N : NumOps} (ρ : ExtOracle N) (n : Nat) (externs : List String) :
    runProgram ρ n externs (apply b) = runProgram ρ n externs b :=
  Visitor.runDefault_refines hooksExact b () ρ n externs
end CallParens

namespace UnusedWhile

/-- a removed loop either exhausts the budget or does nothing at all -/
theorem while_removed_le {N : NumOps} {api : EvalApi} (ht : EvalTotal N api) (call : CallFn N) (ρ : ExtOracle N)
    (k : Nat) (env : Env N) (c : Expr) (body : Block) (hk : keep api (.while_ c body) = false) (σ : State N) :
    execS call ρ k env (.while_ c body) σ = .timeout ∨ execS call ρ k env (.while_ c body) σ = .ok (.next env) σ := by
  have hse : api.hasSideEffects c = false := by
    simp only [keep, Bool.or_eq_false_iff] at hk; exact hk.1
  have htr : api.isTruthy c = some false := by
    simp only [keep, Bool.or_eq_false_iff] at hk
    cases h : api.isTruthy c with
    | none => simp [h] at hk
    | some b => cases b <;> simp_all
  cases k with
  | zero => left; simp [execS, whileLoop, Res.bind]
  | succ n =>
    rcases ht.pureTotal c false htr hse call ρ (n + 1) env σ with hto | ⟨vs, hok⟩
    · left; simp [execS, whileLoop, hto, Res.bind]
    · right
      have := ht.decided c false htr call ρ (n + 1) env σ σ vs hok
      simp [execS, whileLoop, hok, Res.bind, this]

theorem execSs_filter_le {N : NumOps} {api : EvalApi} (ht : EvalTotal N api) (call : CallFn N) (ρ : ExtOracle N) (k : Nat)
    (stmts : List Stmt) (env : Env N) (σ : State N) :
    execSs call ρ k env stmts σ = .timeout ∨
      execSs call ρ k env (stmts.filter (keep api)) σ = execSs call ρ k env stmts σ := by
  induction stmts generalizing env σ with
  | nil => right; rfl
  | cons s rest ih =>
    by_cases hk : keep api s = true
    · simp only [List.filter, hk, execSs]
      cases hx : execS call ρ k env s σ with
      | timeout => left; rfl
      | err v σ1 => right; rfl
      | ok c σ1 =>
        simp only [Res.bind]
        cases c with
        | next env' => exact ih env' σ1
        | _ => right; rfl
    · have hk' : keep api s = false := by simpa using hk
      simp only [List.filter, hk']
      cases s with
      | while_ c body =>
        simp only [execSs]
        rcases while_removed_le ht call ρ k env c body hk' σ with hto | hok
        · left; simp [hto, Res.bind]
        · simp only [hok, Res.bind]; exact ih env σ
      | _ => simp [keep] at hk'

theorem hooksLe {api : EvalApi} (ht : ∀ N, EvalTotal N api) : HooksLe true (processor api) where
  block := fun b _ N call ρ k env σ => by
    cases b with
    | mk stmts last =>
      simp only [processor, processBlock, execB]
      rcases execSs_filter_le (ht N) call ρ k stmts env σ with hto | heq
      · left; exact ⟨trivial, by simp [hto, Res.bind]⟩
      · right; rw [heq]

/-- whole rule, every program: same observable outcome unless the original exhausts its budget -/
theorem apply_upto {api : EvalApi} (ht : ∀ N, EvalTotal N api) (b : Block) {N : NumOps} (ρ : ExtOracle N) (n : Nat)
    (externs : List String) :
    runProgram ρ n externs b = .timeout ∨ runProgram ρ n externs (apply api b) = runProgram ρ n externs b :=
  Visitor.runDefault_upto (hooksLe ht) b () ρ n externs
end UnusedWhile

end DarkluaModel.Rules
