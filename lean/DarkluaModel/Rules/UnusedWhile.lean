import DarkluaModel.Shared.Visitor
import DarkluaModel.Rules.EvalApi
/-!
# `remove_unused_while` (`src/rules/unused_while.rs`)

`WhileFilter::process_block` filters the statements of every block (`Block::filter_statements`):
a `while` statement is KEPT iff `has_side_effects(cond) || evaluate(cond).is_truthy().unwrap_or(true)`.
One `DefaultVisitor` pass.
-/
namespace DarkluaModel.Rules.UnusedWhile
open DarkluaModel.Rules

/-- the closure given to `filter_statements` -/
def keep (api : EvalApi) : Stmt → Bool
  | .while_ cond _ => api.hasSideEffects cond || (api.isTruthy cond).getD true
  | _ => true

def processBlock (api : EvalApi) : Block → Unit → Block × Unit
  | .mk stmts last, u => (.mk (stmts.filter (keep api)) last, u)

def processor (api : EvalApi) : Processor Unit := { block := processBlock api }

/-- `flawless_process` -/
def apply (api : EvalApi) (b : Block) : Block := (Visitor.runDefault (processor api) b ()).1

/-! ### local soundness

A removed `while c do … end` has `has_side_effects(c) = false` and `evaluate(c)` definitely
falsy. If `c` allocates nothing, then — for a sound evaluator — every successful run of the
statement is the empty run: same environment, *same state*. (Successful: at iteration bound
`k = 0` the reference semantics times out on every loop, and a condition such as
`nil and (nil + 1)` could in principle raise; the rule only has to preserve error-free runs.) -/
open Sem

/-- the removed statements are inside the region where the evaluator is sound and allocate nothing -/
def removedGood (api : EvalApi) (good : Expr → Prop) : List Stmt → Prop
  | [] => True
  | s :: rest =>
    (match s with
      | .while_ c _ => keep api s = false → good c ∧ noAlloc c = true
      | _ => True) ∧ removedGood api good rest

theorem while_removed_ok {N : NumOps} {api : EvalApi} {good : Expr → Prop} (hs : EvalSound N api good)
    (call : CallFn N) (ρ : ExtOracle N) (k : Nat) (env : Env N)
    (c : Expr) (body : Block) (hk : keep api (.while_ c body) = false) (hg : good c) (hna : noAlloc c = true)
    (σ σ' : State N) (ctl : Ctl N)
    (h : execS call ρ k env (.while_ c body) σ = .ok ctl σ') : ctl = .next env ∧ σ' = σ := by
  have hse : api.hasSideEffects c = false := by
    simp only [keep, Bool.or_eq_false_iff] at hk; exact hk.1
  have htr : api.isTruthy c = some false := by
    simp only [keep, Bool.or_eq_false_iff] at hk
    cases ht : api.isTruthy c with
    | none => simp [ht] at hk
    | some b => cases b <;> simp_all
  cases k with
  | zero => simp [execS, whileLoop, Res.bind] at h
  | succ n =>
    simp only [execS, whileLoop] at h
    cases he : evalE call ρ (n + 1) env c σ with
    | timeout => simp [he, Res.bind] at h
    | err v σ1 => simp [he, Res.bind] at h
    | ok vs σ1 =>
      have h1 := hs.truthy c false hg htr call ρ (n + 1) env σ σ1 vs he
      have h2 := hs.pure c hg hse hna call ρ (n + 1) env σ σ1 vs he
      simp [he, Res.bind, h1] at h
      obtain ⟨rfl, rfl⟩ := h
      exact ⟨rfl, h2⟩

/-- statement lists: every error-free run of the original list is a run of the filtered list,
with the same control outcome and the same final state -/
theorem execSs_filter_refines {N : NumOps} {api : EvalApi} {good : Expr → Prop} (hs : EvalSound N api good)
    (call : CallFn N) (ρ : ExtOracle N) (k : Nat)
    (stmts : List Stmt) (hg : removedGood api good stmts) (env : Env N) (σ σ' : State N) (ctl : Ctl N)
    (h : execSs call ρ k env stmts σ = .ok ctl σ') :
    execSs call ρ k env (stmts.filter (keep api)) σ = .ok ctl σ' := by
  induction stmts generalizing env σ with
  | nil => simpa [execSs] using h
  | cons s rest ih =>
    obtain ⟨hg1, hg2⟩ := hg
    by_cases hk : keep api s = true
    · simp only [List.filter, hk, execSs] at h ⊢
      cases hx : execS call ρ k env s σ with
      | timeout => simp [hx, Res.bind] at h
      | err v σ1 => simp [hx, Res.bind] at h
      | ok c σ1 =>
        simp only [hx, Res.bind] at h ⊢
        cases c with
        | next env' => exact ih hg2 env' σ1 h
        | _ => exact h
    · have hk' : keep api s = false := by simpa using hk
      simp only [List.filter, hk']
      cases s with
      | while_ c body =>
        have ⟨hgc, hna⟩ := hg1 hk'
        simp only [execSs] at h
        cases hx : execS call ρ k env (.while_ c body) σ with
        | timeout => simp [hx, Res.bind] at h
        | err v σ1 => simp [hx, Res.bind] at h
        | ok c1 σ1 =>
          obtain ⟨rfl, rfl⟩ := while_removed_ok hs call ρ k env c body hk' hgc hna σ σ1 c1 hx
          simp only [hx, Res.bind] at h
          exact ih hg2 env σ1 h
      | _ => simp [keep] at hk'

/-- the block hook refines: every error-free run of the original block is a run of the
rewritten block (same outcome, same state, same trace) -/
theorem processBlock_refines {N : NumOps} {api : EvalApi} {good : Expr → Prop} (hs : EvalSound N api good)
    (call : CallFn N) (ρ : ExtOracle N) (k : Nat) (env : Env N)
    (stmts : List Stmt) (last : Option Last) (hg : removedGood api good stmts) (σ σ' : State N) (ctl : Ctl N)
    (h : execB call ρ k env (.mk stmts last) σ = .ok ctl σ') :
    execB call ρ k env (processBlock api (.mk stmts last) ()).1 σ = .ok ctl σ' := by
  simp only [processBlock, execB] at h ⊢
  cases hx : execSs call ρ k env stmts σ with
  | timeout => simp [hx, Res.bind] at h
  | err v σ1 => simp [hx, Res.bind] at h
  | ok c σ1 =>
    rw [execSs_filter_refines hs call ρ k stmts hg env σ σ1 c hx]
    simpa [hx, Res.bind] using h

end DarkluaModel.Rules.UnusedWhile
