import DarkluaModel.Rules.RemoveCallMatch
/-!
# `inject_global_value` (`src/rules/inject_value.rs`)

`ValueInjection` = identifier, value expression, identifier tracker. `process_expression`
replaces the identifier `NAME` (unless `NAME` is tracked), `_G.NAME` and `_G["NAME"]` (unless
`_G` is tracked) by the value. `process_prefix_expression` replaces the identifier `NAME` in
prefix position by `(value)` unless `NAME` is tracked (the tracker test is the F19 fix).
The value expression is a parameter here (the JSON → expression conversion happens when the
rule is configured; the harness reads the expression off the real rule).
-/
namespace DarkluaModel.Rules.InjectValue
open RemoveCallMatch (Scopes isUsed insertId pushScope popScope)

structure St where
  scopes : Scopes := []
  /-- instrumentation only: regions met (`global-write`) -/
  flags : List String := []

def St.flagIf (st : St) (c : Bool) (f : String) : St :=
  if c && !st.flags.contains f then { st with flags := st.flags ++ [f] } else st

def isVarNamed (name : String) : Expr → Bool
  | .var n => n == name
  | _ => false

/-- the `replace` condition of `ValueInjection::process_expression` -/
def shouldReplace (ident : String) (st : St) : Expr → Bool
  | .var n => ident == n && !isUsed st.scopes ident
  | .field p f => ident == f && !isUsed st.scopes "_G" && isVarNamed "_G" p
  | .index p (.str s) => !isUsed st.scopes "_G" && s == ident.toUTF8.toList && isVarNamed "_G" p
  | _ => false

/-- `ValueInjection::process_expression` -/
def processExpression (ident : String) (value : Expr) (e : Expr) (st : St) : Expr × St :=
  if shouldReplace ident st e then (value, st) else (e, st)

/-- `ValueInjection::process_prefix_expression` -/
def processPrefix (ident : String) (value : Expr) (p : Expr) (st : St) : Expr × St :=
  match p with
  | .var n => if ident == n && !isUsed st.scopes ident then (.paren value, st) else (p, st)
  | _ => (p, st)

/-- the program assigns the injected global (directly or through `_G`) -/
def targetFlags (ident : String) (e : Expr) (st : St) : St :=
  match e with
  | .var n => st.flagIf ((n == ident || n == "_G") && !isUsed st.scopes n) "global-write"
  | .field (.var "_G") f => st.flagIf (f == ident && !isUsed st.scopes "_G") "global-write"
  | .index (.var "_G") (.str k) => st.flagIf (k == ident.toUTF8.toList && !isUsed st.scopes "_G") "global-write"
  | _ => st

def stmtNodeFlags (ident : String) (s : Stmt) (st : St) : St :=
  match s with
  | .function (root :: _) _ _ => st.flagIf ((root == ident || root == "_G") && !isUsed st.scopes root) "global-write"
  | _ => st

def processor (ident : String) (value : Expr) : Processor St where
  expr := processExpression ident value
  pref := processPrefix ident value
  target := fun e st => (e, targetFlags ident e st)
  stmtNode := fun s st => (s, stmtNodeFlags ident s st)
  push := fun st => { st with scopes := pushScope st.scopes }
  pop := fun st => { st with scopes := popScope st.scopes }
  insert := fun n st => (n, { st with scopes := insertId n st.scopes })
  insertSelf := fun st => { st with scopes := insertId "self" st.scopes }
  insertLocal := fun n e st => ((n, e), { st with scopes := insertId n st.scopes })
  insertLocalFn := fun n st => (n, { st with scopes := insertId n st.scopes })

/-- `InjectGlobalValue::flawless_process` -/
def run (ident : String) (value : Expr) (b : Block) : Block × St :=
  Visitor.runScoped (processor ident value) b {}

def apply (ident : String) (value : Expr) (b : Block) : Block := (run ident value b).1

end DarkluaModel.Rules.InjectValue
