import DarkluaModel.Rules.RemoveCallMatch
/-!
# `inject_global_value` (`src/rules/inject_value.rs`)

`ValueInjection` = identifier, value expression, identifier tracker. `process_expression`
replaces the identifier `NAME` (unless `NAME` is tracked), `_G.NAME` and `_G["NAME"]` (unless
`_G` is tracked) by the value. `process_prefix_expression` replaces the identifier `NAME` in
prefix position by `(value)` WITHOUT consulting the tracker (finding F19) — modelled as is.
The value expression is a parameter here (the JSON → expression conversion happens when the
rule is configured; the harness reads the expression off the real rule).
-/
namespace DarkluaModel.Rules.InjectValue
open RemoveCallMatch (Scopes isUsed insertId pushScope popScope)

structure St where
  scopes : Scopes := []

def isVarNamed (name : String) : Expr → Bool
  | .var n => n == name
  | _ => false

/-- `ValueInjection::process_expression` -/
def processExpression (ident : String) (value : Expr) (e : Expr) (st : St) : Expr × St :=
  let replace : Bool :=
    match e with
    | .var n => ident == n && !isUsed st.scopes ident
    | .field p f => ident == f && !isUsed st.scopes "_G" && isVarNamed "_G" p
    | .index p (.str s) => !isUsed st.scopes "_G" && s == ident.toUTF8.toList && isVarNamed "_G" p
    | _ => false
  if replace then (value, st) else (e, st)

/-- `ValueInjection::process_prefix_expression` -/
def processPrefix (ident : String) (value : Expr) (p : Expr) (st : St) : Expr × St :=
  match p with
  | .var n => if ident == n then (.paren value, st) else (p, st)
  | _ => (p, st)

def processor (ident : String) (value : Expr) : Processor St where
  expr := processExpression ident value
  pref := processPrefix ident value
  push := fun st => { st with scopes := pushScope st.scopes }
  pop := fun st => { st with scopes := popScope st.scopes }
  insert := fun n st => (n, { st with scopes := insertId n st.scopes })
  insertSelf := fun st => { st with scopes := insertId "self" st.scopes }
  insertLocal := fun n e st => ((n, e), { st with scopes := insertId n st.scopes })
  insertLocalFn := fun n st => (n, { st with scopes := insertId n st.scopes })

/-- `InjectGlobalValue::flawless_process` -/
def apply (ident : String) (value : Expr) (b : Block) : Block :=
  (Visitor.runScoped (processor ident value) b {}).1

end DarkluaModel.Rules.InjectValue
