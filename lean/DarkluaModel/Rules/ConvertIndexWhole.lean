import DarkluaModel.Rules.ConvertIndexToField
import DarkluaModel.Rules.EvalLitSound
import DarkluaModel.Shared.VisitorSound
/-!
# `convert_index_to_field` — whole rule, up to budget exhaustion

Since the fix of F6 a converted key has no side effects. Under the evaluator contract `EvalTotal`
(decided and pure ⇒ evaluates without touching the state, unless the budget runs out) plus `StrSound`
(a decided string value is the value), every hook of the rule is exact up to budget exhaustion of the
original (`HooksLe true`): dropping the evaluation of the key can only remove a timeout. The generic
lifting theorem then gives the whole-rule statement for every program.
-/
namespace DarkluaModel.Rules.ConvertIndexToField.Whole
open DarkluaModel.Sem DarkluaModel.Rules DarkluaModel.Rules.ConvertIndexToField

/-- a decided string value is the (first) value of every successful evaluation -/
def StrSound (N : NumOps) (api : EvalApi) : Prop :=
  ∀ (e : Expr) (s : List UInt8), api.kind e = .string s →
    ∀ (call : CallFn N) (ρ : ExtOracle N) (k : Nat) (env : Env N) (σ σ' : State N) (vs : List (Val N)),
      evalE call ρ k env e σ = .ok vs σ' → first vs = .str s

theorem litApi_strSound (N : NumOps) : StrSound N litApi :=
  fun e s hk call ρ k env σ σ' vs h => (litApi_sound N).str e s (by cases e <;> simp [litApi] at hk <;> trivial) hk call ρ k env σ σ' vs h

variable {N : NumOps} {api : EvalApi}

/-- evaluating a converted key: the budget runs out, or it yields the field name and leaves the state alone -/
theorem key_total (ht : EvalTotal N api) (hstr : StrSound N api) {k : Expr} {name : String}
    (hc : convertToField api k = some name) (call : CallFn N) (ρ : ExtOracle N) (n : Nat) (env : Env N) (σ : State N) :
    evalE call ρ n env k σ = .timeout ∨ ∃ vs, evalE call ρ n env k σ = .ok vs σ ∧ first vs = strVal name := by
  unfold convertToField at hc
  by_cases hse : api.hasSideEffects k = true
  · simp [hse] at hc
  · have hse' : api.hasSideEffects k = false := by simpa using hse
    simp only [hse', Bool.false_eq_true, if_false] at hc
    cases hkind : api.kind k with
    | string s =>
      rw [hkind] at hc
      have htr : api.isTruthy k = some true := by simp [EvalApi.isTruthy, hkind, LuaKind.isTruthy]
      rcases ht.pureTotal k true htr hse' call ρ n env σ with hto | ⟨vs, hok⟩
      · exact .inl hto
      · refine .inr ⟨vs, hok, ?_⟩
        rw [hstr k s hkind call ρ n env σ σ vs hok, strVal, Sound.validIdentifier_bytes hc]
    | _ => simp [hkind] at hc

theorem convertIndex_leE (ht : ∀ N, EvalTotal N api) (hstr : ∀ N, StrSound N api) (e : Expr) :
    LeE true e (convertIndex api e) := by
  intro N call ρ n env σ
  cases e with
  | index p k =>
    cases hc : convertToField api k with
    | none => right; simp [convertIndex, hc]
    | some name =>
      simp only [convertIndex, hc, evalE]
      cases hp : evalE call ρ n env p σ with
      | timeout => left; exact ⟨trivial, rfl⟩
      | err v σ1 => right; rfl
      | ok ps σ1 =>
        rcases key_total (ht N) (hstr N) hc call ρ n env σ1 with hto | ⟨ks, hok, hv⟩
        · left; exact ⟨trivial, by simp [Res.bind, hto]⟩
        · right; simp [Res.bind, hok, hv]
  | _ => right; rfl

theorem convertIndex_leT (ht : ∀ N, EvalTotal N api) (hstr : ∀ N, StrSound N api) (e : Expr) :
    LeT true e (convertIndex api e) := by
  intro N call ρ n env σ
  cases e with
  | index p k =>
    cases hc : convertToField api k with
    | none => right; simp [convertIndex, hc]
    | some name =>
      simp only [convertIndex, hc, evalTarget]
      cases hp : evalE call ρ n env p σ with
      | timeout => left; exact ⟨trivial, rfl⟩
      | err v σ1 => right; rfl
      | ok ps σ1 =>
        rcases key_total (ht N) (hstr N) hc call ρ n env σ1 with hto | ⟨ks, hok, hv⟩
        · left; exact ⟨trivial, by simp [Res.bind, hto]⟩
        · right; simp [Res.bind, hok, hv]
  | _ => right; rfl

/-- the entries of a table constructor -/
theorem entries_le (ht : EvalTotal N api) (hstr : StrSound N api) (call : CallFn N) (ρ : ExtOracle N) (n : Nat)
    (env : Env N) (t : Nat) :
    ∀ (es : List Entry) (i : Nat) (σ : State N),
      evalEntries call ρ n env t i es σ = .timeout ∨
        evalEntries call ρ n env t i (es.map (convertEntry api)) σ = evalEntries call ρ n env t i es σ
  | [], _, _ => .inr rfl
  | [.pos v], _, _ => .inr rfl
  | .pos v :: e2 :: rest, i, σ => by
    have ih := fun i σ => entries_le ht hstr call ρ n env t (e2 :: rest) i σ
    simp only [List.map_cons, convertEntry, evalEntries] at ih ⊢
    cases hv : evalE call ρ n env v σ with
    | timeout => left; rfl
    | err x σ1 => right; rfl
    | ok vs σ1 => simp only [Res.bind]; exact ih _ _
  | .named key v :: rest, i, σ => by
    have ih := fun i σ => entries_le ht hstr call ρ n env t rest i σ
    simp only [List.map_cons, convertEntry, evalEntries]
    cases hv : evalE call ρ n env v σ with
    | timeout => left; rfl
    | err x σ1 => right; rfl
    | ok vs σ1 => simp only [Res.bind]; exact ih _ _
  | .keyed k v :: rest, i, σ => by
    have ih := fun i σ => entries_le ht hstr call ρ n env t rest i σ
    cases hc : convertToField api k with
    | none =>
      simp only [List.map_cons, convertEntry, hc, evalEntries]
      cases hk : evalE call ρ n env k σ with
      | timeout => left; rfl
      | err x σ1 => right; rfl
      | ok ks σ1 =>
        simp only [Res.bind]
        cases hv : evalE call ρ n env v σ1 with
        | timeout => left; rfl
        | err x σ2 => right; rfl
        | ok vs σ2 =>
          simp only []
          cases first ks with
          | nil => right; rfl
          | num x => by_cases hn : N.isNaN x = true <;> simp [hn] <;> first | exact ih _ _ | (right; rfl)
          | _ => exact ih _ _
    | some name =>
      simp only [List.map_cons, convertEntry, hc, evalEntries]
      rcases key_total ht hstr hc call ρ n env σ with hto | ⟨ks, hok, hv⟩
      · left; simp [hto, Res.bind]
      · simp only [hok, Res.bind, hv, strVal]
        cases hvv : evalE call ρ n env v σ with
        | timeout => left; rfl
        | err x σ2 => right; rfl
        | ok vs σ2 => simp only []; exact ih _ _

theorem processTable_leE (ht : ∀ N, EvalTotal N api) (hstr : ∀ N, StrSound N api) (e : Expr) :
    LeE true e (processTable api e) := by
  intro N call ρ n env σ
  cases e with
  | table es =>
    simp only [processTable, evalE]
    rcases entries_le (ht N) (hstr N) call ρ n env (σ.allocTable { entries := [], mt := none }).1 es 1
        (σ.allocTable { entries := [], mt := none }).2 with hto | heq
    · left; exact ⟨trivial, by simp [hto, Res.bind]⟩
    · right; rw [heq]
  | _ => right; rfl

theorem processTable_leT (e : Expr) : LeT true e (processTable api e) := by
  cases e with
  | table es => exact (EqT.nonLv rfl rfl).le
  | _ => exact LeT.refl _

theorem hooksLe (ht : ∀ N, EvalTotal N api) (hstr : ∀ N, StrSound N api) : HooksLe true (processor api) where
  expr := fun e _ => convertIndex_leE ht hstr e
  pref := fun e _ => convertIndex_leE ht hstr e
  target := fun e _ => convertIndex_leT ht hstr e
  node := fun e _ => ⟨processTable_leE ht hstr e, processTable_leT e⟩

/-- **whole rule, every program**: same observable outcome unless the original exhausts its budget -/
theorem apply_upto (ht : ∀ N, EvalTotal N api) (hstr : ∀ N, StrSound N api) (b : Block) {N : NumOps}
    (ρ : ExtOracle N) (n : Nat) (externs : List String) :
    runProgram ρ n externs b = .timeout ∨ runProgram ρ n externs (apply api b) = runProgram ρ n externs b :=
  Visitor.runDefault_upto (hooksLe ht hstr) b () ρ n externs

end DarkluaModel.Rules.ConvertIndexToField.Whole
