/-! UTF-8 encoding of ASCII strings: `(asciiString s).toUTF8.toList = s` (core has no lemma about `ByteArray.toList`). -/
namespace DarkluaModel.Rules.Utf8
private theorem loop_eq (bs : ByteArray) (n : Nat) : ∀ (i : Nat) (r : List UInt8), bs.size - i = n →
    ByteArray.toList.loop bs i r = r.reverse ++ bs.data.toList.drop i := by
  have hsz : bs.size = bs.data.toList.length := by rw [Array.length_toList]; rfl
  induction n with
  | zero =>
    intro i r h
    rw [ByteArray.toList.loop]
    have : ¬ i < bs.size := by omega
    simp only [this, if_false]
    have : bs.data.toList.length ≤ i := by omega
    rw [List.drop_eq_nil_of_le this, List.append_nil]
  | succ m ih =>
    intro i r h
    rw [ByteArray.toList.loop]
    have hi : i < bs.size := by omega
    simp only [hi, if_true]
    rw [ih (i + 1) _ (by omega)]
    have hlen : i < bs.data.toList.length := by omega
    rw [List.drop_eq_getElem_cons hlen, List.reverse_cons, List.append_assoc]
    congr 2
    have : bs.get! i = bs.data[i]! := by cases bs; rfl
    rw [this]
    have hi2 : i < bs.data.size := by rw [Array.length_toList] at hlen; exact hlen
    rw [getElem!_pos bs.data i hi2, Array.getElem_toList]
    rfl

theorem toList_toByteArray (l : List UInt8) : l.toByteArray.toList = l := by
  rw [ByteArray.toList, loop_eq _ _ 0 [] rfl]
  simp

theorem encode_ascii (b : UInt8) (h : b < 128) : String.utf8EncodeChar (Char.ofNat b.toNat) = [b] := by
  rw [String.utf8EncodeChar_eq_utf8EncodeCharFast, String.utf8EncodeCharFast]
  have hv : (Char.ofNat b.toNat).val = b.toUInt32 := by
    have : b.toNat.isValidChar := by
      left; have := UInt8.lt_iff_toNat_lt.mp h; simp at this; omega
    simp [Char.ofNat, this, Char.ofNatAux]
  have hle : b.toUInt32 ≤ 0x7f := by
    have := UInt8.lt_iff_toNat_lt.mp h
    rw [UInt32.le_iff_toNat_le]; simp at this ⊢; omega
  simp [hv, hle]

theorem flatMap_ascii (s : List UInt8) (h : s.all (· < 128) = true) :
    (s.map fun b => Char.ofNat b.toNat).flatMap String.utf8EncodeChar = s := by
  induction s with
  | nil => rfl
  | cons b rest ih =>
    simp only [List.all_cons, Bool.and_eq_true, decide_eq_true_eq] at h
    simp only [List.map_cons, List.flatMap_cons, encode_ascii b h.1, ih h.2]
    rfl

theorem ascii_utf8 (s : List UInt8) (h : s.all (· < 128) = true) :
    (String.ofList (s.map fun b => Char.ofNat b.toNat)).toUTF8.toList = s := by
  show (String.ofList _).toByteArray.toList = s
  rw [String.toByteArray_ofList, List.utf8Encode, toList_toByteArray, flatMap_ascii s h]
end DarkluaModel.Rules.Utf8
