import DarkluaModel.Rules.EvalApi
import DarkluaModel.Shared.Visitor
/-!
# `EvalLite` — an executable instance of `EvalApi` (stand-in until the C08 model is merged)

Mirrors `Evaluator::{evaluate, has_side_effects}` of `src/process/evaluator/mod.rs` and
`LuaValue::{is_truthy, map_if_truthy, map_if_truthy_else, to_expression, length}` of
`lua_value.rs` function by function, parametric in `NumOps`, EXCEPT the two coercions that
need text ↔ number conversion in darklua's own formats:

* `number_coercion` of a string (darklua's literal grammar, `str::parse::<NumberExpression>`),
* `string_coercion` of a number (Rust's `f64::to_string`).

Where the real evaluator would have to perform one of those, every function here answers
`none` ("not covered"); the driver then refuses the program (`evallite-uncovered`) and the
harness counts it instead of comparing. Everything else is meant to be exact.
-/
namespace DarkluaModel.Rules.EvalLite
open DarkluaModel.Rules

/-- `LuaValue` -/
inductive LV (N : NumOps) where
  | false_ | function | nil | number (x : N.F) | string (s : List UInt8) | table | true_ | unknown

variable {N : NumOps}

def LV.kind : LV N → LuaKind
  | .false_ => .false_ | .function => .function | .nil => .nil | .number _ => .number
  | .string s => .string s | .table => .table | .true_ => .true_ | .unknown => .unknown

def LV.isTruthy (v : LV N) : Option Bool := v.kind.isTruthy

def LV.ofBool (b : Bool) : LV N := if b then .true_ else .false_

/-- `number_coercion`: `none` when a string would have to be parsed -/
def LV.numberCoercion : LV N → Option (LV N)
  | .string _ => none
  | v => some v

/-- `string_coercion`: `none` when a number would have to be printed -/
def LV.stringCoercion : LV N → Option (LV N)
  | .number _ => none
  | v => some v

/-- `LuaValue::length` -/
def LV.length : LV N → LV N
  | .string s => .number (N.ofNat s.length)
  | _ => .unknown

/-- `f64::EPSILON` -/
def epsilonBits : UInt64 := 0x3CB0000000000000

def absF (x : N.F) : N.F := if N.lt x (N.ofNat 0) then N.neg x else x

/-- `evaluate_equal` -/
def evaluateEqual : LV N → LV N → LV N
  | .unknown, _ | _, .unknown => .unknown
  | .true_, .true_ | .false_, .false_ | .nil, .nil => .true_
  | .number a, .number b => LV.ofBool (N.lt (absF (N.sub a b)) (N.ofBits epsilonBits))
  | .string a, .string b => LV.ofBool (a == b)
  | _, _ => .false_

/-- the closure passed to `evaluate_math` -/
def mathOp : BinOp → N.F → N.F → N.F
  | .add, a, b => N.add a b
  | .sub, a, b => N.sub a b
  | .mul, a, b => N.mul a b
  | .div, a, b => N.div a b
  | .idiv, a, b => N.floor (N.div a b)
  | .pow, a, b => N.pow a b
  | .mod, a, b => N.sub a (N.mul b (N.floor (N.div a b)))
  | _, a, _ => a

/-- `evaluate_math` on the two evaluated operands (the right one is only coerced when the
left one is a number) -/
def evaluateMath (op : BinOp) (l : Option (LV N)) (r : Option (LV N)) : Option (LV N) :=
  match l.bind LV.numberCoercion with
  | none => none
  | some (.number a) =>
    match r.bind LV.numberCoercion with
    | none => none
    | some (.number b) => some (.number (mathOp op a b))
    | some _ => some .unknown
  | some _ => some .unknown

def relNum : BinOp → N.F → N.F → Bool
  | .lt, a, b => N.lt a b
  | .le, a, b => N.le a b
  | .gt, a, b => N.lt b a
  | .ge, a, b => N.le b a
  | _, _, _ => false

/-- Rust's `<` on byte slices -/
def bytesLt : List UInt8 → List UInt8 → Bool
  | [], [] => false
  | [], _ :: _ => true
  | _ :: _, [] => false
  | a :: as, b :: bs => if a < b then true else if b < a then false else bytesLt as bs

/-- `compare_strings` (relational operators only reach it) -/
def relStr : BinOp → List UInt8 → List UInt8 → Bool
  | .lt, a, b => bytesLt a b
  | .le, a, b => !bytesLt b a
  | .gt, a, b => bytesLt b a
  | .ge, a, b => !bytesLt a b
  | _, _, _ => false

/-- `evaluate_relational` -/
def evaluateRelational (op : BinOp) (l : Option (LV N)) (r : Option (LV N)) : Option (LV N) :=
  match l with
  | none => none
  | some (.number a) =>
    match r with
    | none => none
    | some (.number b) => some (LV.ofBool (relNum op a b))
    | some _ => some .unknown
  | some (.string a) =>
    match r with
    | none => none
    | some (.string b) => some (LV.ofBool (relStr op a b))
    | some _ => some .unknown
  | some _ => some .unknown

/-- `evaluate_binary` given the (lazily needed) evaluations of both operands -/
def evaluateBinary (op : BinOp) (l r : Option (LV N)) : Option (LV N) :=
  match op with
  | .and =>
    -- `evaluate(left).map_if_truthy(|_| evaluate(right))`
    match l with
    | none => none
    | some lv =>
      match lv.isTruthy with
      | some true => r
      | some false => some lv
      | none => some .unknown
  | .or =>
    match l with
    | none => none
    | some lv =>
      match lv.isTruthy with
      | some true => some lv
      | some false => r
      | none => some .unknown
  | .eq =>
    match l, r with
    | some a, some b => some (evaluateEqual a b)
    | _, _ => none
  | .ne =>
    match l, r with
    | some a, some b =>
      match evaluateEqual a b with
      | .true_ => some .false_
      | .false_ => some .true_
      | _ => some .unknown
    | _, _ => none
  | .add | .sub | .mul | .div | .idiv | .pow | .mod => evaluateMath op l r
  | .concat =>
    match l.bind LV.stringCoercion, r.bind LV.stringCoercion with
    | some (.string a), some (.string b) => some (.string (a ++ b))
    | some _, some _ => some .unknown
    | _, _ => none
  | .lt | .le | .gt | .ge => evaluateRelational op l r

/-- `evaluate_unary` -/
def evaluateUnary (op : UnOp) (v : Option (LV N)) : Option (LV N) :=
  match v with
  | none => none
  | some x =>
    match op with
    | .not =>
      match x.isTruthy with
      | some b => some (LV.ofBool (!b))
      | none => some .unknown
    | .neg =>
      match x.numberCoercion with
      | none => none
      | some (.number a) => some (.number (N.neg a))
      | some _ => some .unknown
    | .len => some x.length

mutual
  /-- `Evaluator::evaluate` -/
  def evaluate : Expr → Option (LV N)
    | .false => some .false_
    | .fn _ => some .function
    | .nil => some .nil
    | .num b => some (.number (N.ofBits b))
    | .str s => some (.string s)
    | .table _ => some .table
    | .true => some .true_
    | .bin op l r => evaluateBinary op (evaluate l) (evaluate r)
    | .un op e => evaluateUnary op (evaluate e)
    | .paren e => evaluate e
    | .ifx c t elifs e =>
      -- `evaluate_if`
      match evaluate c with
      | none => none
      | some cv =>
        match cv.isTruthy with
        | some true => evaluate t
        | some false => evaluateElifs elifs (evaluate e)
        | none => some .unknown
    | .interp segs => evaluateSegs segs []
    | .cast e _ => evaluate e
    | .inst e _ =>
      -- `evaluate_prefix`
      match e with
      | .paren _ | .inst _ _ => evaluate e
      | _ => some .unknown
    | .call _ _ _ _ | .field _ _ | .var _ | .index _ _ | .vararg => some .unknown

  /-- the `for branch in expression.iter_branches()` loop of `evaluate_if` -/
  def evaluateElifs : List (Expr × Expr) → Option (LV N) → Option (LV N)
    | [], els => els
    | (c, t) :: rest, els =>
      match evaluate c with
      | none => none
      | some cv =>
        match cv.isTruthy with
        | some true => evaluate t
        | some false => evaluateElifs rest els
        | none => some .unknown

  /-- the interpolated-string arm of `evaluate` -/
  def evaluateSegs : List Seg → List UInt8 → Option (LV N)
    | [], acc => some (.string acc)
    | .s b :: rest, acc => evaluateSegs rest (acc ++ b)
    | .v e :: rest, acc =>
      match evaluate e with
      | none => none
      | some .false_ => evaluateSegs rest (acc ++ "false".toUTF8.toList)
      | some .true_ => evaluateSegs rest (acc ++ "true".toUTF8.toList)
      | some .nil => evaluateSegs rest (acc ++ "nil".toUTF8.toList)
      | some (.string s) => evaluateSegs rest (acc ++ s)
      | some _ => some .unknown
end

/-- `maybe_metatable` -/
def maybeMetatable : LV N → Bool
  | .unknown => true
  | _ => false

def orO (a : Option Bool) (b : Unit → Option Bool) : Option Bool :=
  match a with
  | none => none
  | some true => some true
  | some false => b ()

mutual
  /-- `Evaluator::has_side_effects`; `pure` = `pure_metamethods` -/
  def hasSideEffects (pure : Bool) : Expr → Option Bool
    | .false | .fn _ | .var _ | .nil | .num _ | .str _ | .true | .vararg => some false
    | .ifx c t elifs e =>
      -- `if_expression_has_side_effects`
      match hasSideEffects pure c with
      | none => none
      | some true => some true
      | some false =>
        match evaluate (N := N) c with
        | none => none
        | some cv =>
          match cv.isTruthy with
          | some true => hasSideEffects pure t
          | some false => elifsKnown pure elifs (hasSideEffects pure e)
          | none =>
            orO (hasSideEffects pure t) fun _ => orO (elifsUnknown pure elifs) fun _ => hasSideEffects pure e
    | .bin op l r =>
      match evaluate (N := N) l, hasSideEffects pure l with
      | some lv, some lse =>
        match op with
        | .and =>
          if lv.isTruthy.getD true then orO (some lse) fun _ => hasSideEffects pure r else some lse
        | .or =>
          if lv.isTruthy.getD false then some lse else orO (some lse) fun _ => hasSideEffects pure r
        | _ =>
          if pure then orO (some lse) fun _ => hasSideEffects pure r
          else
            if maybeMetatable lv then some true
            else
              match evaluate (N := N) r with
              | none => none
              | some rv =>
                if maybeMetatable rv then some true
                else orO (some lse) fun _ => hasSideEffects pure r
      | _, _ => none
    | .un op e =>
      if pure || op == .not then hasSideEffects pure e
      else
        match evaluate (N := N) e with
        | none => none
        | some v => if maybeMetatable v then some true else hasSideEffects pure e
    | .field p _ => if !pure then some true else hasSideEffects pure p
    | .index p i => if !pure then some true else orO (hasSideEffects pure i) fun _ => hasSideEffects pure p
    | .paren e => hasSideEffects pure e
    | .table entries => entriesSE pure entries
    | .call _ _ _ _ => some true
    | .interp segs => segsSE pure segs
    | .cast e _ => hasSideEffects pure e
    | .inst e _ => hasSideEffects pure e

  /-- branches after a condition known to be false -/
  def elifsKnown (pure : Bool) : List (Expr × Expr) → Option Bool → Option Bool
    | [], els => els
    | (c, t) :: rest, els =>
      match hasSideEffects pure c with
      | none => none
      | some true => some true
      | some false =>
        match evaluate (N := N) c with
        | none => none
        | some cv =>
          match cv.isTruthy with
          | some true => hasSideEffects pure t
          | some false => elifsKnown pure rest els
          | none => orO (hasSideEffects pure t) fun _ => elifsKnown pure rest els

  /-- branches when the first condition is unknown -/
  def elifsUnknown (pure : Bool) : List (Expr × Expr) → Option Bool
    | [] => some false
    | (c, t) :: rest =>
      orO (hasSideEffects pure c) fun _ => orO (hasSideEffects pure t) fun _ => elifsUnknown pure rest

  def entriesSE (pure : Bool) : List Entry → Option Bool
    | [] => some false
    | .named _ v :: rest => orO (hasSideEffects pure v) fun _ => entriesSE pure rest
    | .keyed k v :: rest =>
      orO (hasSideEffects pure k) fun _ => orO (hasSideEffects pure v) fun _ => entriesSE pure rest
    | .pos v :: rest => orO (hasSideEffects pure v) fun _ => entriesSE pure rest

  def segsSE (pure : Bool) : List Seg → Option Bool
    | [] => some false
    | .s _ :: rest => segsSE pure rest
    | .v e :: rest => orO (hasSideEffects pure e) fun _ => segsSE pure rest
end

/-- `Expression::from(f64)` on the semantic AST (exponent notation is spelling, not value) -/
def numToExpr (x : N.F) : Expr :=
  let zero : N.F := N.ofNat 0
  let one : UInt64 := 0x3FF0000000000000
  if N.isNaN x then .bin .div (.num 0) (.num 0)
  else if N.eq x (N.div (N.ofNat 1) zero) then .bin .div (.num one) (.num 0)
  else if N.eq x (N.neg (N.div (N.ofNat 1) zero)) then .bin .div (.un .neg (.num one)) (.num 0)
  else if N.eq x zero then .num (if N.toBits x ≥ 0x8000000000000000 then 0x8000000000000000 else 0)
  else if N.lt x zero then .un .neg (.num (N.toBits (N.neg x)))
  else .num (N.toBits x)

/-- `LuaValue::to_expression` -/
def LV.toExpr : LV N → Option Expr
  | .false_ => some .false
  | .true_ => some .true
  | .nil => some .nil
  | .string s => some (.str s)
  | .number x => some (numToExpr x)
  | _ => none

/-- the `EvalApi` instance; uncovered queries default to the conservative answers (the driver
never uses them: it checks coverage first) -/
def api (N : NumOps) : EvalApi where
  kind e := match evaluate (N := N) e with | some v => v.kind | none => .unknown
  toExpr e := match evaluate (N := N) e with | some v => v.toExpr | none => none
  hasSideEffects e := (hasSideEffects (N := N) false e).getD true
  canReturnMultiple := canReturnMultiple

/-- Are the evaluator queries a rule could make on `e` itself answered? -/
def coveredExpr (e : Expr) : Bool :=
  (evaluate (N := N) e).isSome && (hasSideEffects (N := N) false e).isSome

/-! ### the region where the real evaluator is sound (hypothesis `H₈` of C08, as far as C01 meets it)

* F1/F2: `evaluate_equal` compares numbers by `|a - b| < f64::EPSILON` — wrong for close
  numbers and for infinities. `numEqOk`: on this `==`/`~=` node the answer is the true one.
* F4: `has_side_effects` of an interpolated string ignores `__tostring` of opaque segments.
  `interpOk`: every interpolated value segment evaluates to a known value. -/
def numEqOk : Expr → Bool
  | .bin op l r =>
    if op == .eq || op == .ne then
      match evaluate (N := N) l, evaluate (N := N) r with
      | some (.number a), some (.number b) =>
        N.lt (absF (N.sub a b)) (N.ofBits epsilonBits) == N.eq a b
      | _, _ => true
    else true
  | _ => true

def interpOk : Expr → Bool
  | .interp segs => segs.all fun
    | .s _ => true
    | .v e => match evaluate (N := N) e with
      | some .unknown | none => false
      | _ => true
  | _ => true

/-- state of the region scan: first reason found for being outside -/
def regionProcessor (N : NumOps) : Processor (Option String) :=
  let h : Expr → Option String → Expr × Option String := fun e s =>
    (e, match s with
      | some w => some w
      | none =>
        if !coveredExpr (N := N) e then some "F3/portable numerals: string<->number coercion in the evaluator (not covered by EvalLite)"
        else if !numEqOk (N := N) e then some "F1/F2 numeric equality by epsilon"
        else if !interpOk (N := N) e then some "F4 interpolated opaque segment"
        else none)
  { expr := h, pref := h, target := h, node := h }

/-- `none`: every expression node of the block is inside the region -/
def evalRegion (N : NumOps) (b : Block) : Option String :=
  (Visitor.runDefault (regionProcessor N) b none).2

/-- every expression node of the block is covered (checked with the visitor model itself) -/
def coverProcessor (N : NumOps) : Processor Bool :=
  let h : Expr → Bool → Expr × Bool := fun e s => (e, s && coveredExpr (N := N) e)
  { expr := h, pref := h, target := h, node := h }

def covers (N : NumOps) (b : Block) : Bool := (Visitor.runDefault (coverProcessor N) b true).2

end DarkluaModel.Rules.EvalLite
