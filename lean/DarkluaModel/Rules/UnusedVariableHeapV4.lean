import DarkluaModel.Rules.UnusedVariableHeapV3
/-!
# `remove_unused_variable` — unused declarations with SEVERAL values (list version of `localToCall`)

`local a, b = f(), g()` (all names unused) becomes `do f() g() end`; `local a, b, c = {}, f(), 1` becomes `f()`:
the values the evaluator calls side-effect free are dropped, the calls are kept as statements, in order.
Leaf `localToCalls_sound`: every value is (parentheses / casts around) a call, or allocation-only
(`Expr.allocPure`); the left evaluates all values and binds the (dead) names, the right runs the calls.

* `runU` — a list of expressions evaluated for effect; `evalEs_runU`, `execSs_calls`, `execS_doCalls`: the
  declaration, the call statements and the `do` block around them in this form (exact);
* `calls_rel` — the relational core (calls by `effE_inner`, dropped values by `SRel.extLeft`);
* `VkB.localToCalls` / `VkRep.localToCalls` — the links; `GuardedV4.applyG` — the guarded rule.
Not covered: kept NON-call values among several (`do local _ = t.k  f() end`): see meta/C01.json proof_gaps.
-/
namespace DarkluaModel.Sem.HeapV
open Heap (refNames tailRefs)
open DarkluaModel.Rules.UnusedVariable (getInner)
open DarkluaModel.Rules.UnusedVariable.GuardedV2 (isCall)

variable {Q : QRel} {D : List DName}

/-- evaluate for effect, in order -/
def runU {N : NumOps} (call : CallFn N) (ρ : ExtOracle N) (k : Nat) (env : Env N) : List Expr → State N → Res N Unit
  | [], σ => .ok () σ
  | e :: es, σ => (evalE call ρ k env e σ).bind fun _ σ1 => runU call ρ k env es σ1

theorem evalEs_runU {N : NumOps} (call : CallFn N) (ρ : ExtOracle N) (k : Nat) (env : Env N) :
    ∀ (es : List Expr) (σ : State N),
      (evalEs call ρ k env es σ).bind (fun _ s => Res.ok () s) = runU call ρ k env es σ
  | [], σ => by simp [evalEs, runU, Res.bind]
  | [e], σ => by
    simp only [evalEs, runU]
  | e :: e2 :: es, σ => by
    have ih := evalEs_runU call ρ k env (e2 :: es)
    simp only [evalEs, runU] at ih ⊢
    cases evalE call ρ k env e σ with
    | timeout => rfl
    | err v s => rfl
    | ok vs σ1 =>
      simp only [Res.bind]
      have := ih σ1
      revert this
      cases evalEs call ρ k env (e2 :: es) σ1 <;> simp [Res.bind, evalEs] <;> intro h <;> exact h

/-- the calls among the values (inner expressions), in order -/
def innerCalls : List Expr → List Expr
  | [] => []
  | v :: vs => if isCall (getInner v) then getInner v :: innerCalls vs else innerCalls vs

/-- call statements, then `rest` -/
theorem execSs_calls {N : NumOps} (call : CallFn N) (ρ : ExtOracle N) (k : Nat) (env : Env N) (rest : List Stmt) :
    ∀ (cs : List Expr) (σ : State N),
      execSs call ρ k env (cs.map Stmt.callStmt ++ rest) σ =
        (runU call ρ k env cs σ).bind fun _ s => execSs call ρ k env rest s
  | [], σ => by simp [runU, Res.bind]
  | c :: cs, σ => by
    simp only [List.map_cons, List.cons_append, execSs, execS, runU]
    cases evalE call ρ k env c σ with
    | timeout => rfl
    | err v s => rfl
    | ok vs σ1 => simp only [Res.bind]; exact execSs_calls call ρ k env rest cs σ1

/-- `do c1 … cn end`, then `rest` -/
theorem execSs_doCalls {N : NumOps} (call : CallFn N) (ρ : ExtOracle N) (k : Nat) (env : Env N) (rest : List Stmt)
    (cs : List Expr) (σ : State N) :
    execSs call ρ k env (.doBlock (.mk (cs.map Stmt.callStmt) none) :: rest) σ =
      (runU call ρ k env cs σ).bind fun _ s => execSs call ρ k env rest s := by
  have h := execSs_calls call ρ k env [] cs σ
  simp only [List.append_nil] at h
  simp only [execSs, execS, execB, h]
  cases runU call ρ k env cs σ <;> simp [Res.bind, execSs]

/-- the statement that replaces the declaration: the single call, or a block of the calls -/
def callsStmt (cs : List Expr) : Stmt :=
  match cs with
  | [c] => .callStmt c
  | cs => .doBlock (.mk (cs.map Stmt.callStmt) none)

theorem execSs_callsStmt {N : NumOps} (call : CallFn N) (ρ : ExtOracle N) (k : Nat) (env : Env N) (rest : List Stmt)
    (cs : List Expr) (σ : State N) :
    execSs call ρ k env (callsStmt cs :: rest) σ =
      (runU call ρ k env cs σ).bind fun _ s => execSs call ρ k env rest s := by
  match cs with
  | [c] =>
    have := execSs_calls call ρ k env rest [c] σ
    simpa [callsStmt] using this
  | [] => exact execSs_doCalls call ρ k env rest [] σ
  | c :: c2 :: cs => exact execSs_doCalls call ρ k env rest (c :: c2 :: cs) σ

/-- every value is a call (under parentheses / casts) or allocation-only -/
def valuesOK : List Expr → Bool
  | [] => true
  | v :: vs => (isCall (getInner v) || v.allocPure) && valuesOK vs

/-- **relational core**: evaluating the values on the left, the calls among them on the right -/
theorem calls_rel (hq : QRefl Q) : ∀ (vs : List Expr), valuesOK vs = true → NoRefEs D vs →
    ∀ (N : NumOps) (call : CallFn N) (ρ : ExtOracle N) (k : Nat) (env env' : Env N) (σ σ' : State N) (β : Inj),
      POK Q call ρ → SRel Q β σ σ' → EnvOK β D env env' →
        RRel Q β (ATrue (α := Unit)) (runU call ρ k env vs σ) (runU call ρ k env' (innerCalls vs) σ')
  | [], _, _ => fun N call ρ k env env' σ σ' β _ hs _ => by
    simp only [runU, innerCalls]; exact RRel.ok (A := ATrue) trivial hs
  | v :: vs, hok, hn => fun N call ρ k env env' σ σ' β hp hs he => by
    simp only [valuesOK, Bool.and_eq_true, Bool.or_eq_true] at hok
    have hn2 := NoRefEs.cons.mp hn
    have ih := calls_rel hq vs hok.2 hn2.2
    by_cases hc : isCall (getInner v) = true
    · simp only [innerCalls, hc, if_true, runU]
      have heff := effE_inner hq v hn2.1 N call ρ k env env' σ σ' β hp hs he
      exact RRel.bind heff fun β' hle _ _ _ s s' hs' => ih N call ρ k env env' s s' β' hp hs' (he.mono hle)
    · have hc' : isCall (getInner v) = false := by simpa using hc
      have hap : v.allocPure = true := by
        rcases hok.1 with h | h
        · rw [hc'] at h; cases h
        · exact h
      obtain ⟨ws, σ1, hw, hx⟩ := allocPure_sound v hap N call ρ k env σ
      simp only [innerCalls, hc', Bool.false_eq_true, if_false, runU, hw, Res.bind]
      exact ih N call ρ k env env' σ1 σ' β hp (hs.extLeft hx) he

/-- **leaf**: `local ns = vs; rest` against `<the calls among vs>; rest'` when the names are dead in the rest -/
theorem localToCalls_sound (hq : QRefl Q) {D' : List DName} {kind : LocalKind} {ns : List TName} {vs : List Expr}
    {rest rest' : List Stmt} (hok : valuesOK vs = true) (hn : NoRefEs D vs)
    (hrest : SoundSs Q (refNames ns ++ D) rest rest' D') :
    SoundSs Q D (.localAssign kind ns vs :: rest) (callsStmt (innerCalls vs) :: rest') D' :=
  ⟨(DSub.refs _ D).trans hrest.1, fun N call ρ k env env' σ σ' β hp hs he => by
    have hrel := calls_rel hq vs hok hn N call ρ k env env' σ σ' β hp hs he
    rw [execSs_callsStmt]
    rw [← evalEs_runU] at hrel
    simp only [execSs, execS]
    revert hrel
    generalize evalEs call ρ k env vs σ = r
    generalize runU call ρ k env' (innerCalls vs) σ' = r'
    intro hrel
    cases r <;> cases r' <;> simp only [RRel, Res.bind] at hrel ⊢
    all_goals try (first | exact hrel | trivial)
    · rename_i ws σ1 u σ1'
      obtain ⟨β1, h1, _, h3⟩ := hrel
      have he1 := he.mono h1
      have hb := h3.bindLocalsLeft (D := refNames ns ++ D) (ns.map TName.name) refNames_mem ws
        (he1.loc.weaken (DSub.refs _ D))
      exact RRel.mono h1 (hrest.2 N call ρ k _ _ _ _ _ hp hb.1 ⟨he1.va, hb.2⟩)⟩

theorem noRefSs_calls : ∀ (vs : List Expr), NoRefEs D vs → NoRefSs D ((innerCalls vs).map Stmt.callStmt)
  | [], _ => fun _ _ => rfl
  | v :: vs, h => by
    have h2 := NoRefEs.cons.mp h
    simp only [innerCalls]
    split
    · exact NoRefSs.cons.mpr ⟨NoRefS.callStmt.mpr (noRefE_inner v h2.1), noRefSs_calls vs h2.2⟩
    · exact noRefSs_calls vs h2.2

theorem noRefS_callsStmt {vs : List Expr} (h : NoRefEs D vs) : NoRefS D (callsStmt (innerCalls vs)) := by
  have hs := noRefSs_calls vs h
  unfold callsStmt
  split
  · rename_i c hc
    rw [hc] at hs
    exact (NoRefSs.cons.mp hs).1
  · exact NoRefS.doBlock.mpr (NoRefB.none.mpr hs)

theorem VkB.localToCalls {pre rest : List Stmt} {last : Option Last} {kind : LocalKind} {ns : List TName}
    {vs : List Expr} (hok : valuesOK vs = true) (hx : ∀ n ∈ ns.map TName.name, tailRefs n rest last = false) :
    VkB (.mk (pre ++ .localAssign kind ns vs :: rest) last) (.mk (pre ++ callsStmt (innerCalls vs) :: rest) last) := by
  intro D _ hn
  have hx1 : ∀ n ∈ ns.map TName.name, Stmt.refsList (.ref n) rest = false := fun n h => by
    have := hx n h; simp only [tailRefs, Bool.or_eq_false_iff] at this; exact this.1
  cases last with
  | none =>
    have h1 := Heap.NoRefSs.append.mp (NoRefB.none.mp hn)
    have h2 := NoRefSs.cons.mp h1.2
    have he : NoRefEs D vs := (NoRefS.localAssign.mp h2.1).2
    exact ⟨⟨_, .blockNone (.ssPrefix pre h1.1 (.genSs fun Q hq =>
        localToCalls_sound hq hok he (reflSs hq rest _ (Heap.NoRefSs.consName h2.2 hx1))))⟩,
      NoRefB.none.mpr (Heap.NoRefSs.append.mpr ⟨h1.1, NoRefSs.cons.mpr ⟨noRefS_callsStmt he, h2.2⟩⟩)⟩
  | some l =>
    have h0 := NoRefB.some.mp hn
    have h1 := Heap.NoRefSs.append.mp h0.1
    have h2 := NoRefSs.cons.mp h1.2
    have he : NoRefEs D vs := (NoRefS.localAssign.mp h2.1).2
    have hx2 : ∀ n ∈ ns.map TName.name, l.refs (.ref n) = false := fun n h => by
      have := hx n h; simp only [tailRefs, Bool.or_eq_false_iff] at this; exact this.2
    exact ⟨⟨_, .blockSome (.ssPrefix pre h1.1 (.genSs fun Q hq =>
        localToCalls_sound hq hok he (reflSs hq rest _ (Heap.NoRefSs.consName h2.2 hx1))))
        (.reflL (Heap.NoRefL.consName h0.2 hx2))⟩,
      NoRefB.some.mpr ⟨Heap.NoRefSs.append.mpr ⟨h1.1, NoRefSs.cons.mpr ⟨noRefS_callsStmt he, h2.2⟩⟩, h0.2⟩⟩

theorem VkRep.localToCalls {pre rest : List Stmt} {last : Option Last} {kind : LocalKind} {ns : List TName}
    {vs : List Expr} {c : Expr} (hok : valuesOK vs = true)
    (hx : ∀ n ∈ ns.map TName.name, tailRefs n rest last = false)
    (hc : ∀ n ∈ ns.map TName.name, c.refs (.ref n) = false) :
    VkRep (.mk (pre ++ .localAssign kind ns vs :: rest) last, c)
      (.mk (pre ++ callsStmt (innerCalls vs) :: rest) last, c) := by
  intro D _ hnb hnc
  have hx1 : ∀ n ∈ ns.map TName.name, Stmt.refsList (.ref n) rest = false := fun n h => by
    have := hx n h; simp only [tailRefs, Bool.or_eq_false_iff] at this; exact this.1
  cases last with
  | none =>
    have h1 := Heap.NoRefSs.append.mp (NoRefB.none.mp hnb)
    have h2 := NoRefSs.cons.mp h1.2
    have he : NoRefEs D vs := (NoRefS.localAssign.mp h2.1).2
    exact ⟨.rep (.blockNone (.ssPrefix pre h1.1 (.genSs fun Q hq =>
        localToCalls_sound hq hok he (reflSs hq rest _ (Heap.NoRefSs.consName h2.2 hx1)))))
        (.reflE (Heap.NoRefE.consName hnc hc)),
      NoRefB.none.mpr (Heap.NoRefSs.append.mpr ⟨h1.1, NoRefSs.cons.mpr ⟨noRefS_callsStmt he, h2.2⟩⟩), hnc⟩
  | some l =>
    have h0 := NoRefB.some.mp hnb
    have h1 := Heap.NoRefSs.append.mp h0.1
    have h2 := NoRefSs.cons.mp h1.2
    have he : NoRefEs D vs := (NoRefS.localAssign.mp h2.1).2
    have hx2 : ∀ n ∈ ns.map TName.name, l.refs (.ref n) = false := fun n h => by
      have := hx n h; simp only [tailRefs, Bool.or_eq_false_iff] at this; exact this.2
    exact ⟨.rep (.blockSome (.ssPrefix pre h1.1 (.genSs fun Q hq =>
        localToCalls_sound hq hok he (reflSs hq rest _ (Heap.NoRefSs.consName h2.2 hx1))))
          (.reflL (Heap.NoRefL.consName h0.2 hx2))) (.reflE (Heap.NoRefE.consName hnc hc)),
      NoRefB.some.mpr ⟨Heap.NoRefSs.append.mpr ⟨h1.1, NoRefSs.cons.mpr ⟨noRefS_callsStmt he, h2.2⟩⟩, h0.2⟩, hnc⟩

end DarkluaModel.Sem.HeapV

namespace DarkluaModel.Rules.UnusedVariable.GuardedV4
open DarkluaModel.Sem DarkluaModel.Sem.HeapV DarkluaModel.Rules DarkluaModel.Rules.UnusedVariable
open DarkluaModel.Sem.Heap (tailRefs)

/-- an unused declaration with SEVERAL values (or one), each a call or allocation-only and side-effect free for
the evaluator, at least one call among them, names not referenced afterwards -/
def callsOK (api : EvalApi) (last : Option Last) (inExtra : List String) (cr : String → Bool) (s : Stmt)
    (rest : List Stmt) : Bool :=
  match s with
  | .localAssign _ ns vs =>
    !ns.isEmpty &&
    ((tnames ns).map fun id => isUsedAfter id rest last inExtra).all (!·) &&
    valuesOK vs && !(innerCalls vs).isEmpty &&
    vs.all (fun v => GuardedV2.isCall (getInner v) || !api.hasSideEffects v) &&
    (ns.map TName.name).all (fun n => !tailRefs n rest last && !cr n)
  | _ => false

def callsOf : Stmt → Stmt
  | .localAssign _ _ vs => callsStmt (innerCalls vs)
  | s => s

/-- the rewrites of `GuardedV3` plus the several-values replacement -/
def rewriteG (api : EvalApi) (last : Option Last) (inExtra : List String) (cr : String → Bool) :
    List Stmt → Bool → List Stmt × Bool
  | [], m => ([], m)
  | s :: rest, m =>
    if GuardedV.dropOK api last inExtra cr s rest then rewriteG api last inExtra cr rest true
    else
      let (r, m') := rewriteG api last inExtra cr rest m
      if callsOK api last inExtra cr s rest then (callsOf s :: r, m')
      else if GuardedV3.doOK api last inExtra cr s rest then (GuardedV3.doOf s :: r, m')
      else (s :: r, m')

theorem drop_chain (api : EvalApi) (last : Option Last) (inExtra : List String)
    (ss : List Stmt) (m : Bool) (pre : List Stmt) :
    Chain VkB (.mk (pre ++ ss) last) (.mk (pre ++ (rewriteG api last inExtra (fun _ => false) ss m).1) last) := by
  induction ss generalizing pre m with
  | nil => exact .refl _
  | cons s rest ih =>
    by_cases hd : GuardedV.dropOK api last inExtra (fun _ => false) s rest = true
    · simp only [rewriteG, hd, if_true]
      cases s with
      | localAssign kind ns vs =>
        simp only [GuardedV.dropOK, Bool.and_eq_true, List.all_eq_true, Bool.not_eq_true'] at hd
        obtain ⟨⟨_, hatoms⟩, hrefs⟩ := hd
        refine .cons (VkB.dropLocal (allocPureAll_sound vs hatoms) fun n hn => ?_) (ih true pre)
        have := hrefs n hn
        first | exact this.1 | exact this | (simp at this; exact this)
      | localFn kind name f =>
        simp only [GuardedV.dropOK, Bool.and_eq_true, Bool.not_eq_true'] at hd
        exact .cons (VkB.dropLocalFn hd.1.2) (ih true pre)
      | _ => simp [GuardedV.dropOK] at hd
    · simp only [rewriteG, hd, Bool.false_eq_true, if_false]
      by_cases hc : callsOK api last inExtra (fun _ => false) s rest = true
      · simp only [hc, if_true]
        match s, hc with
        | .localAssign kind ns vs, hc =>
          simp only [callsOK, Bool.and_eq_true, List.all_eq_true, Bool.not_eq_true'] at hc
          obtain ⟨⟨⟨⟨_, hvok⟩, _⟩, _⟩, hrefs⟩ := hc
          have hx : ∀ n ∈ ns.map TName.name, tailRefs n rest last = false := fun n hn => by
            have := hrefs n hn
            first | exact this.1 | exact this | (simp at this; exact this)
          have := ih m (pre ++ [callsStmt (innerCalls vs)])
          simp only [List.append_assoc, List.singleton_append] at this
          exact .cons (VkB.localToCalls hvok hx) this
      · simp only [hc, Bool.false_eq_true, if_false]
        by_cases hdo : GuardedV3.doOK api last inExtra (fun _ => false) s rest = true
        · simp only [hdo, if_true]
          match s, hdo with
          | .localAssign kind ns [e], hdo =>
            simp only [GuardedV3.doOK, Bool.and_eq_true, List.all_eq_true, Bool.not_eq_true'] at hdo
            obtain ⟨_, hrefs⟩ := hdo
            have hx : ∀ n ∈ ns.map TName.name, tailRefs n rest last = false := fun n hn => by
              have := hrefs n hn
              first | exact this.1 | exact this | (simp at this; exact this)
            have := ih m (pre ++ [doDiscard (getInner e)])
            simp only [List.append_assoc, List.singleton_append] at this
            exact .cons (VkB.localToDo hx) this
        · simp only [hdo, Bool.false_eq_true, if_false]
          have := ih m (pre ++ [s])
          simpa [List.append_assoc] using this

theorem drop_chain_rep (api : EvalApi) (last : Option Last) (inExtra : List String) (c : Expr)
    (ss : List Stmt) (m : Bool) (pre : List Stmt) :
    Chain VkRep (.mk (pre ++ ss) last, c)
      (.mk (pre ++ (rewriteG api last inExtra (fun n => c.refs (.ref n)) ss m).1) last, c) := by
  induction ss generalizing pre m with
  | nil => exact .refl _
  | cons s rest ih =>
    by_cases hd : GuardedV.dropOK api last inExtra (fun n => c.refs (.ref n)) s rest = true
    · simp only [rewriteG, hd, if_true]
      cases s with
      | localAssign kind ns vs =>
        simp only [GuardedV.dropOK, Bool.and_eq_true, List.all_eq_true, Bool.not_eq_true'] at hd
        obtain ⟨⟨_, hatoms⟩, hrefs⟩ := hd
        have h2 : ∀ n ∈ ns.map TName.name, tailRefs n rest last = false ∧ c.refs (.ref n) = false := fun n hn => by
          have := hrefs n hn
          simpa only [Bool.and_eq_true, Bool.not_eq_true'] using this
        exact .cons (VkRep.dropLocal (allocPureAll_sound vs hatoms) (fun n hn => (h2 n hn).1) (fun n hn => (h2 n hn).2))
          (ih true pre)
      | localFn kind name f =>
        simp only [GuardedV.dropOK, Bool.and_eq_true, Bool.not_eq_true'] at hd
        exact .cons (VkRep.dropLocalFn hd.1.2 hd.2) (ih true pre)
      | _ => simp [GuardedV.dropOK] at hd
    · simp only [rewriteG, hd, Bool.false_eq_true, if_false]
      by_cases hc : callsOK api last inExtra (fun n => c.refs (.ref n)) s rest = true
      · simp only [hc, if_true]
        match s, hc with
        | .localAssign kind ns vs, hc =>
          simp only [callsOK, Bool.and_eq_true, List.all_eq_true, Bool.not_eq_true'] at hc
          obtain ⟨⟨⟨⟨_, hvok⟩, _⟩, _⟩, hrefs⟩ := hc
          have h2 : ∀ n ∈ ns.map TName.name, tailRefs n rest last = false ∧ c.refs (.ref n) = false := fun n hn => by
            have := hrefs n hn
            simpa only [Bool.and_eq_true, Bool.not_eq_true'] using this
          have := ih m (pre ++ [callsStmt (innerCalls vs)])
          simp only [List.append_assoc, List.singleton_append] at this
          exact .cons (VkRep.localToCalls hvok (fun n hn => (h2 n hn).1) (fun n hn => (h2 n hn).2)) this
      · simp only [hc, Bool.false_eq_true, if_false]
        by_cases hdo : GuardedV3.doOK api last inExtra (fun n => c.refs (.ref n)) s rest = true
        · simp only [hdo, if_true]
          match s, hdo with
          | .localAssign kind ns [e], hdo =>
            simp only [GuardedV3.doOK, Bool.and_eq_true, List.all_eq_true, Bool.not_eq_true'] at hdo
            obtain ⟨_, hrefs⟩ := hdo
            have h2 : ∀ n ∈ ns.map TName.name, tailRefs n rest last = false ∧ c.refs (.ref n) = false := fun n hn => by
              have := hrefs n hn
              simpa only [Bool.and_eq_true, Bool.not_eq_true'] using this
            have := ih m (pre ++ [doDiscard (getInner e)])
            simp only [List.append_assoc, List.singleton_append] at this
            exact .cons (VkRep.localToDo (fun n hn => (h2 n hn).1) (fun n hn => (h2 n hn).2)) this
        · simp only [hdo, Bool.false_eq_true, if_false]
          have := ih m (pre ++ [s])
          simpa [List.append_assoc] using this

/-- the guarded `process_scope` -/
def scopeG (api : EvalApi) : Block → Option Expr → Bool → (Block × Option Expr) × Bool
  | .mk stmts last, extra, m =>
    let (stmts', m') := rewriteG api last (usagesInExtra stmts extra) (GuardedV.condRefs extra) stmts m
    ((.mk stmts' last, extra), m')

def processorG (api : EvalApi) : Processor Bool := { scope := scopeG api }

theorem scopeG_none_chain (api : EvalApi) (b : Block) (m : Bool) :
    Chain VkB b (scopeG api b none m).1.1 := by
  cases b with
  | mk ss last =>
    simp only [scopeG, GuardedV.condRefs]
    simpa using drop_chain api last (usagesInExtra ss none) ss m []

theorem hooksV (api : EvalApi) : HooksV (processorG api) where
  scopeB := fun b s => scopeG_none_chain api b s
  scopeR := fun b c s => by
    cases b with
    | mk ss last =>
      simp only [processorG, scopeG, GuardedV.condRefs, Option.getD]
      simpa using drop_chain_rep api last (usagesInExtra ss (some c)) c ss s []

def passG (api : EvalApi) (b : Block) : Block × Bool :=
  let ((b1, _), m1) := scopeG api b none false
  Visitor.runDefault (processorG api) b1 m1

def loopG (api : EvalApi) : Nat → Block → Block
  | 0, b => b
  | n + 1, b =>
    let (b', mutated) := passG api b
    if mutated then loopG api n b' else b'

/-- the rule restricted to the (still larger) fragment -/
def applyG (api : EvalApi) (b : Block) : Block := loopG api (b.size + 1) b

theorem passG_refines (api : EvalApi) (b : Block) {N : NumOps} (ρ : ExtOracle N) (hρ : OracleFlat ρ) (n : Nat)
    (externs : List String) : runProgram ρ n externs (passG api b).1 = runProgram ρ n externs b := by
  simp only [passG]
  have h1 := chain_runProgram (scopeG_none_chain api b false) ρ hρ n externs
  have h2 := Visitor.runDefault_v (hooksV api) (scopeG api b none false).1.1 (scopeG api b none false).2 ρ hρ n externs
  exact h2.trans h1

theorem loopG_refines (api : EvalApi) : ∀ (k : Nat) (b : Block) {N : NumOps} (ρ : ExtOracle N) (_ : OracleFlat ρ)
    (n : Nat) (externs : List String), runProgram ρ n externs (loopG api k b) = runProgram ρ n externs b
  | 0, _, _, _, _, _, _ => rfl
  | k + 1, b, N, ρ, hρ, n, externs => by
    simp only [loopG]
    split
    · exact (loopG_refines api k _ ρ hρ n externs).trans (passG_refines api b ρ hρ n externs)
    · exact passG_refines api b ρ hρ n externs

/-- **whole rule, every program**: the guarded rule preserves the observable outcome -/
theorem applyG_refines (api : EvalApi) (b : Block) {N : NumOps} (ρ : ExtOracle N) (hρ : OracleFlat ρ) (n : Nat)
    (externs : List String) : runProgram ρ n externs (applyG api b) = runProgram ρ n externs b :=
  loopG_refines api _ b ρ hρ n externs

theorem apply_refines_of_agree (api : EvalApi) (b : Block) (h : applyG api b = apply api b)
    {N : NumOps} (ρ : ExtOracle N) (hρ : OracleFlat ρ) (n : Nat) (externs : List String) :
    runProgram ρ n externs (apply api b) = runProgram ρ n externs b := by
  rw [← h]; exact applyG_refines api b ρ hρ n externs

end DarkluaModel.Rules.UnusedVariable.GuardedV4
