import DarkluaModel.Rules.NilDeclarationHeap
/-!
# `remove_nil_declaration` — a much larger fragment: arbitrary value expressions

The closed form of the rule (`removeAt_spec`: the index juggling of `process_local_assign_statement` is
"take the nil-valued positions out, append their names") and the semantic argument that it is a
`LocalEquiv` for ARBITRARY values, as long as the declaration has no surplus values.
-/
namespace DarkluaModel.Rules.NilDeclaration.General
open DarkluaModel.Sem DarkluaModel.Sem.Heap DarkluaModel.Rules DarkluaModel.Rules.NilDeclaration

theorem removeAt_append (l1 l2 : List Nat) (st : List TName × List Expr × List TName) :
    removeAt (l1 ++ l2) st = removeAt l2 (removeAt l1 st) := by
  induction l1 generalizing st with
  | nil => rfl
  | cons i rest ih =>
    obtain ⟨ns, vs, moved⟩ := st
    simp only [List.cons_append, removeAt]
    split
    · split <;> exact ih _
    · exact ih _

/-- the clean description: nil-valued positions are taken out, their names collected -/
def split {α : Type} : List α → List Expr → List α × List Expr × List α
  | n :: ns, v :: vs =>
    let (k, kv, m) := split ns vs
    if isNil v then (k, kv, n :: m) else (n :: k, v :: kv, m)
  | ns, [] => (ns, [], [])
  | [], vs => ([], vs, [])

theorem nilIndices_cons (v : Expr) (vs : List Expr) (off : Nat) :
    nilIndices (v :: vs) off = (if isNil v then [off] else []) ++ nilIndices vs (off + 1) := by
  simp only [nilIndices]; split <;> simp

/-- below a non-empty prefix no removal is refused -/
theorem removeAt_tail (P : List TName) (Pv : List Expr) (hP : P.length = Pv.length) (hpos : 0 < P.length) :
    ∀ (ns : List TName) (vs : List Expr), vs.length ≤ ns.length → ∀ (moved : List TName),
      removeAt (nilIndices vs P.length).reverse (P ++ ns, Pv ++ vs, moved) =
        (P ++ (split ns vs).1, Pv ++ (split ns vs).2.1, (split ns vs).2.2 ++ moved) := by
  intro ns vs
  induction vs generalizing ns P Pv with
  | nil => intro _ moved; cases ns <;> simp [nilIndices, removeAt, split]
  | cons v vs ih =>
    intro hlen moved
    cases ns with
    | nil => simp at hlen
    | cons n ns =>
      simp only [List.length_cons, Nat.add_le_add_iff_right] at hlen
      rw [nilIndices_cons, List.reverse_append, removeAt_append]
      have ih' := ih (P ++ [n]) (Pv ++ [v]) (by simp [hP]) (by simp) ns hlen moved
      simp only [List.length_append, List.length_singleton, List.append_assoc, List.singleton_append] at ih'
      rw [ih']
      by_cases hv : isNil v = true
      · simp only [hv, if_true, List.reverse_cons, List.reverse_nil, List.nil_append, removeAt, split]
        have h1 : (P ++ n :: (split ns vs).1).length > 1 := by simp; omega
        have h2 : P.length < (P ++ n :: (split ns vs).1).length := by simp
        simp [h1, h2, List.eraseIdx_append_of_length_le, hP]
        omega
      · simp [hv, removeAt, split]

/-- the rule's index juggling, in closed form: final variable list and values -/
theorem removeAt_spec (ns : List TName) (vs : List Expr) (hlen : vs.length ≤ ns.length) :
    (removeAt (nilIndices vs 0).reverse (ns, vs, [])).1 ++ (removeAt (nilIndices vs 0).reverse (ns, vs, [])).2.2
        = (split ns vs).1 ++ (split ns vs).2.2 ∧
      (removeAt (nilIndices vs 0).reverse (ns, vs, [])).2.1 = (split ns vs).2.1 := by
  cases vs with
  | nil => cases ns <;> simp [nilIndices, removeAt, split]
  | cons v vs =>
    cases ns with
    | nil => simp at hlen
    | cons n ns =>
      simp only [List.length_cons, Nat.add_le_add_iff_right] at hlen
      rw [nilIndices_cons, List.reverse_append, removeAt_append]
      have h := removeAt_tail [n] [v] rfl (by simp) ns vs hlen []
      simp only [List.length_singleton, List.singleton_append, List.append_nil, Nat.zero_add] at h
      rw [h]
      by_cases hv : isNil v = true
      · simp only [hv, if_true, List.reverse_cons, List.reverse_nil, List.nil_append, removeAt, split]
        cases hk : (split ns vs).1 with
        | nil => simp [hk]
        | cons k ks => simp [hk]
      · simp [hv, removeAt, split]

/-! ### evaluation with every element truncated to one value -/

variable {N : NumOps}

/-- evaluate a value list, keeping exactly one value per element -/
def evalT (call : CallFn N) (ρ : ExtOracle N) (k : Nat) (env : Env N) : List Expr → State N → Res N (List (Val N))
  | [], σ => .ok [] σ
  | v :: rest, σ =>
    (evalE call ρ k env v σ).bind fun x σ1 =>
      (evalT call ρ k env rest σ1).bind fun ws σ2 => .ok (first x :: ws) σ2

/-- the first `n` values, padded with `nil` -/
def padT : Nat → List (Val N) → List (Val N)
  | 0, _ => []
  | n + 1, ws => first ws :: padT n (ws.drop 1)

theorem valsOf_padT : ∀ (A : List String) (ws : List (Val N)), valsOf A ws = padT A.length ws
  | [], _ => rfl
  | _ :: as, ws => by simp [valsOf, padT, valsOf_padT as]

theorem padT_padT : ∀ (m n : Nat) (ws : List (Val N)), m ≤ n → padT m (padT n ws) = padT m ws
  | 0, _, _, _ => rfl
  | m + 1, 0, _, h => by omega
  | m + 1, n + 1, ws, h => by
    simp only [padT, first, List.headD_cons, List.drop_one, List.tail_cons]
    rw [← List.drop_one, padT_padT m n _ (by omega)]

theorem padT_length : ∀ (n : Nat) (ws : List (Val N)), (padT n ws).length = n
  | 0, _ => rfl
  | n + 1, ws => by simp [padT, padT_length n]

theorem padT_self : ∀ (ws : List (Val N)), padT ws.length ws = ws
  | [] => rfl
  | w :: ws => by simp [padT, first, padT_self ws]

/-- relation between the two evaluations of the same list -/
def SameUpTo (n : Nat) (r rt : Res N (List (Val N))) : Prop :=
  match r, rt with
  | .ok ws σ1, .ok wt σ1' => σ1' = σ1 ∧ wt = padT n ws ∧ n ≤ ws.length + 1
  | .err v σ1, .err v' σ1' => v' = v ∧ σ1' = σ1
  | .timeout, .timeout => True
  | _, _ => False

theorem evalT_length (call : CallFn N) (ρ : ExtOracle N) (k : Nat) (env : Env N) :
    ∀ (vs : List Expr) (σ σ1 : State N) (wt : List (Val N)), evalT call ρ k env vs σ = .ok wt σ1 → wt.length = vs.length
  | [], σ, σ1, wt, h => by simp [evalT] at h; simp [h.1]
  | v :: rest, σ, σ1, wt, h => by
    simp only [evalT] at h
    cases hv : evalE call ρ k env v σ with
    | timeout => simp [hv, Res.bind] at h
    | err e s => simp [hv, Res.bind] at h
    | ok x s =>
      simp only [hv, Res.bind] at h
      cases hr : evalT call ρ k env rest s with
      | timeout => simp [hr] at h
      | err e s2 => simp [hr] at h
      | ok ws s2 =>
        simp [hr] at h
        rw [← h.1]; simp [evalT_length call ρ k env rest s s2 ws hr]

/-- `evalEs` and `evalT` perform the same evaluation; the values agree on the first `|vs|` positions -/
theorem evalEs_evalT (call : CallFn N) (ρ : ExtOracle N) (k : Nat) (env : Env N) :
    ∀ (vs : List Expr) (σ : State N), SameUpTo vs.length (evalEs call ρ k env vs σ) (evalT call ρ k env vs σ)
  | [], σ => by simp [evalEs, evalT, SameUpTo, padT]
  | [v], σ => by
    simp only [evalEs, evalT]
    cases hv : evalE call ρ k env v σ with
    | timeout => simp [SameUpTo, Res.bind]
    | err e s => simp [SameUpTo, Res.bind]
    | ok x s => simp [SameUpTo, Res.bind, padT]
  | v :: v2 :: rest, σ => by
    have ih := fun s => evalEs_evalT call ρ k env (v2 :: rest) s
    rw [evalEs, evalT]
    rotate_left
    · intro h; cases h
    cases hv : evalE call ρ k env v σ with
    | timeout => simp [SameUpTo, Res.bind]
    | err e s => simp [SameUpTo, Res.bind]
    | ok x s =>
      simp only [Res.bind]
      have ih' := ih s
      revert ih'
      generalize evalEs call ρ k env (v2 :: rest) s = r
      generalize evalT call ρ k env (v2 :: rest) s = rt
      intro ih'
      cases r <;> cases rt <;> simp only [SameUpTo] at ih' ⊢ <;> try exact ih'
      obtain ⟨h1, h2, h3⟩ := ih'
      refine ⟨h1, ?_, by simp only [List.length_cons] at h3 ⊢; omega⟩
      simp [padT, first, h2]

/-! ### removing the `nil` literals -/

def filterNil : List Expr → List (Val N) → List (Val N)
  | v :: vs, w :: ws => if isNil v then filterNil vs ws else w :: filterNil vs ws
  | _, _ => []

/-- the value at the position of a `nil` literal is `nil` -/
def nilOK : List Expr → List (Val N) → Prop
  | v :: vs, w :: ws => (isNil v = true → w = .nil) ∧ nilOK vs ws
  | _, _ => True

def keep (vs : List Expr) : List Expr := vs.filter fun v => !isNil v

def SameFiltered (vs : List Expr) (r r' : Res N (List (Val N))) : Prop :=
  match r, r' with
  | .ok wt s, .ok wt' s' => s' = s ∧ wt' = filterNil vs wt ∧ nilOK vs wt
  | .err e s, .err e' s' => e' = e ∧ s' = s
  | .timeout, .timeout => True
  | _, _ => False

theorem isNil_eq {v : Expr} (h : isNil v = true) : v = .nil := by
  cases v <;> simp [isNil] at h; rfl

theorem evalT_keep (call : CallFn N) (ρ : ExtOracle N) (k : Nat) (env : Env N) :
    ∀ (vs : List Expr) (σ : State N), SameFiltered vs (evalT call ρ k env vs σ) (evalT call ρ k env (keep vs) σ)
  | [], σ => by simp [evalT, keep, SameFiltered, filterNil, nilOK]
  | v :: rest, σ => by
    have ih := fun s => evalT_keep call ρ k env rest s
    by_cases hv : isNil v = true
    · have hv' := isNil_eq hv
      subst hv'
      have hk : keep (.nil :: rest) = keep rest := by simp [keep, isNil]
      rw [hk, evalT]
      simp only [evalE, Res.bind]
      have ih' := ih σ
      revert ih'
      generalize evalT call ρ k env rest σ = r
      generalize evalT call ρ k env (keep rest) σ = r'
      intro ih'
      cases r <;> cases r' <;> simp only [SameFiltered] at ih' ⊢ <;> try exact ih'
      obtain ⟨h1, h2, h3⟩ := ih'
      exact ⟨h1, by simp [filterNil, isNil, h2], by simp [nilOK, first, h3]⟩
    · have hk : keep (v :: rest) = v :: keep rest := by simp [keep, hv]
      rw [hk, evalT, evalT]
      cases he : evalE call ρ k env v σ with
      | timeout => simp [SameFiltered, Res.bind]
      | err e s => simp [SameFiltered, Res.bind]
      | ok x s =>
        simp only [Res.bind]
        have ih' := ih s
        revert ih'
        generalize evalT call ρ k env rest s = r
        generalize evalT call ρ k env (keep rest) s = r'
        intro ih'
        cases r <;> cases r' <;> simp only [SameFiltered] at ih' ⊢ <;> try exact ih'
        obtain ⟨h1, h2, h3⟩ := ih'
        exact ⟨h1, by simp [filterNil, hv, h2], by simp [nilOK, hv, h3]⟩

theorem split_keep {α : Type} : ∀ (ns : List α) (vs : List Expr), vs.length ≤ ns.length → (split ns vs).2.1 = keep vs
  | _, [], _ => by cases ‹List α› <;> simp [split, keep]
  | [], _ :: _, h => by simp at h
  | n :: ns, v :: vs, h => by
    simp only [List.length_cons, Nat.add_le_add_iff_right] at h
    have ih := split_keep ns vs h
    by_cases hv : isNil v = true <;> simp [split, keep, hv] at ih ⊢ <;> exact ih

theorem split_map {α β : Type} (f : α → β) : ∀ (ns : List α) (vs : List Expr),
    split (ns.map f) vs = (((split ns vs).1.map f), (split ns vs).2.1, (split ns vs).2.2.map f)
  | [], [] => rfl
  | [], _ :: _ => rfl
  | _ :: _, [] => rfl
  | n :: ns, v :: vs => by
    have ih := split_map f ns vs
    by_cases hv : isNil v = true <;> simp [split, hv, ih]

theorem split_perm {α : Type} : ∀ (ns : List α) (vs : List Expr),
    ((split ns vs).1 ++ (split ns vs).2.2).Perm ns
  | [], [] => by simp [split]
  | [], _ :: _ => by simp [split]
  | _ :: _, [] => by simp [split]
  | n :: ns, v :: vs => by
    have ih := split_perm ns vs
    by_cases hv : isNil v = true
    · simp only [split, hv, if_true]
      exact (List.perm_middle).trans (List.Perm.cons n ih)
    · simp only [split, hv, Bool.false_eq_true, if_false, List.cons_append]
      exact List.Perm.cons n ih

/-! ### what a name is bound to -/

def look (x : String) : List String → List (Val N) → Val N
  | [], _ => .nil
  | a :: as, ws => if a == x then first ws else look x as (ws.drop 1)

theorem look_nil (x : String) : ∀ (as : List String), look (N := N) x as [] = .nil
  | [] => rfl
  | a :: as => by simp [look, first, look_nil x as]

theorem look_append_left (x : String) : ∀ (P Q : List String) (ws : List (Val N)), x ∈ P →
    look x (P ++ Q) ws = look x P ws
  | [], _, _, h => by simp at h
  | a :: P, Q, ws, h => by
    simp only [List.cons_append, look]
    by_cases ha : (a == x) = true
    · simp [ha]
    · simp only [ha, Bool.false_eq_true, if_false]
      have : x ∈ P := by
        rcases List.mem_cons.mp h with rfl | h'
        · simp at ha
        · exact h'
      exact look_append_left x P Q _ this

theorem look_append_right (x : String) : ∀ (P Q : List String) (ws : List (Val N)), x ∉ P →
    look x (P ++ Q) ws = look x Q (ws.drop P.length)
  | [], _, _, _ => by simp
  | a :: P, Q, ws, h => by
    simp only [List.mem_cons, not_or] at h
    have ha : (a == x) = false := by simpa using fun hh => h.1 hh.symm
    simp only [List.cons_append, look, ha, Bool.false_eq_true, if_false, List.length_cons]
    rw [look_append_right x P Q _ h.2]
    simp [List.drop_drop, Nat.add_comm]

theorem valOf_look (n : String) : ∀ (A : List String) (ws : List (Val N)), n ∈ A → valOf n A ws = some (look n A ws)
  | [], _, h => by simp at h
  | a :: as, ws, h => by
    simp only [valOf, idx, valsOf, look]
    by_cases ha : (a == n) = true
    · simp [ha]
    · have hmem : n ∈ as := by
        rcases List.mem_cons.mp h with rfl | h'
        · simp at ha
        · exact h'
      have ih := valOf_look n as (ws.drop 1) hmem
      simp only [valOf] at ih
      simp only [ha, Bool.false_eq_true, if_false]
      cases hi : idx n as with
      | none => simp [hi] at ih
      | some i => simp [hi] at ih ⊢; exact ih

theorem filterNil_length_le {α : Type} : ∀ (A : List α) (vs : List Expr) (wt : List (Val N)), vs.length ≤ A.length →
    (filterNil vs wt).length ≤ (split A vs).1.length
  | _, [], _, _ => by simp [filterNil]
  | [], _ :: _, _, h => by simp at h
  | a :: as, v :: vs, [], _ => by simp [filterNil]
  | a :: as, v :: vs, w :: wt, h => by
    simp only [List.length_cons, Nat.add_le_add_iff_right] at h
    have ih := filterNil_length_le as vs wt h
    by_cases hv : isNil v = true <;> simp [filterNil, split, hv] <;> omega

/-- the combinatorial core: every name is bound to the same value before and after -/
theorem look_split : ∀ (A : List String) (vs : List Expr) (wt : List (Val N)), A.Nodup → vs.length ≤ A.length →
    wt.length = vs.length → nilOK vs wt → ∀ x ∈ A,
      look x ((split A vs).1 ++ (split A vs).2.2) (filterNil vs wt) = look x A wt
  | A, [], wt, _, _, hl, _, x, _ => by
    have : wt = [] := by cases wt <;> simp_all
    subst this
    cases A <;> simp [split, filterNil, look_nil]
  | [], _ :: _, _, _, h, _, _, _, _ => by simp at h
  | a :: as, v :: vs, [], _, _, hl, _, _, _ => by simp at hl
  | a :: as, v :: vs, w :: wt, hd, hlen, hl, hok, x, hx => by
    simp only [List.length_cons, Nat.add_le_add_iff_right, Nat.add_right_cancel_iff] at hlen hl
    rw [List.nodup_cons] at hd
    obtain ⟨hv0, hok'⟩ := hok
    have ih := look_split as vs wt hd.2 hlen hl hok'
    have hmem : ∀ y, y ∈ (split as vs).1 ++ (split as vs).2.2 ↔ y ∈ as := fun y => (split_perm as vs).mem_iff
    have hFl := filterNil_length_le (N := N) as vs wt hlen
    by_cases hv : isNil v = true
    · simp only [split, hv, if_true, filterNil]
      by_cases hxa : x = a
      · subst hxa
        have hnk : x ∉ (split as vs).1 := fun h => hd.1 ((hmem x).mp (List.mem_append_left _ h))
        rw [look_append_right x _ _ _ hnk]
        simp only [look, beq_self_eq_true, if_true, hv0 hv]
        rw [List.drop_eq_nil_of_le hFl]; rfl
      · have hxas : x ∈ as := by
          rcases List.mem_cons.mp hx with h | h
          · exact absurd h hxa
          · exact h
        have hax : (a == x) = false := by simpa using fun hh => hxa hh.symm
        simp only [look, hax, Bool.false_eq_true, if_false, List.drop_one, List.tail_cons]
        rw [← ih x hxas]
        by_cases hk : x ∈ (split as vs).1
        · rw [look_append_left x _ _ _ hk, look_append_left x _ _ _ hk]
        · rw [look_append_right x _ _ _ hk, look_append_right x _ _ _ hk, List.drop_eq_nil_of_le hFl]
          simp [look, hax, look_nil]
    · simp only [split, hv, Bool.false_eq_true, if_false, filterNil, List.cons_append, look]
      by_cases hax : (a == x) = true
      · simp [hax, first]
      · have hxas : x ∈ as := by
          rcases List.mem_cons.mp hx with h | h
          · subst h; simp at hax
          · exact h
        simp only [hax, Bool.false_eq_true, if_false, List.drop_one, List.tail_cons]
        exact ih x hxas

/-! ### when the last element is single-valued the two evaluations coincide -/

/-- every successful evaluation of `e` yields exactly one value -/
def SingleE (e : Expr) : Prop :=
  ∀ (N : NumOps) (call : CallFn N) (ρ : ExtOracle N) (k : Nat) (env : Env N) (σ σ' : State N) (ws : List (Val N)),
    evalE call ρ k env e σ = .ok ws σ' → ws = [first ws]

theorem SingleE.paren (e : Expr) : SingleE (.paren e) := by
  intro N call ρ k env σ σ' ws h
  simp only [evalE] at h
  cases he : evalE call ρ k env e σ <;> simp [he, Res.bind] at h
  rw [← h.1]; simp [first]

def SameExact (r rt : Res N (List (Val N))) : Prop :=
  match r, rt with
  | .ok ws σ1, .ok wt σ1' => σ1' = σ1 ∧ wt = ws
  | .err v σ1, .err v' σ1' => v' = v ∧ σ1' = σ1
  | .timeout, .timeout => True
  | _, _ => False

theorem evalEs_lastSingle (call : CallFn N) (ρ : ExtOracle N) (k : Nat) (env : Env N) :
    ∀ (vs : List Expr), (∀ l, vs.getLast? = some l → SingleE l) → ∀ (σ : State N),
      SameExact (evalEs call ρ k env vs σ) (evalT call ρ k env vs σ)
  | [], _, σ => by simp [evalEs, evalT, SameExact]
  | [v], hl, σ => by
    simp only [evalEs, evalT]
    cases hv : evalE call ρ k env v σ with
    | timeout => simp [SameExact, Res.bind]
    | err e s => simp [SameExact, Res.bind]
    | ok x s =>
      have := hl v (by simp) N call ρ k env σ s x hv
      simp only [SameExact, Res.bind, true_and]
      exact this.symm
  | v :: v2 :: rest, hl, σ => by
    have ih := fun s => evalEs_lastSingle call ρ k env (v2 :: rest) (fun l h => hl l (by simpa using h)) s
    rw [evalEs, evalT]
    rotate_left
    · intro h; cases h
    cases hv : evalE call ρ k env v σ with
    | timeout => simp [SameExact, Res.bind]
    | err e s => simp [SameExact, Res.bind]
    | ok x s =>
      simp only [Res.bind]
      have ih' := ih s
      revert ih'
      generalize evalEs call ρ k env (v2 :: rest) s = r
      generalize evalT call ρ k env (v2 :: rest) s = rt
      intro ih'
      cases r <;> cases rt <;> simp only [SameExact] at ih' ⊢ <;> try exact ih'
      exact ⟨ih'.1, by rw [ih'.2]⟩

theorem wrapLast_last (api : EvalApi) (hs : ∀ e, api.canReturnMultiple e = false → SingleE e) :
    ∀ (vs : List Expr) (l : Expr), (wrapLast api vs).getLast? = some l → SingleE l
  | [], _, h => by simp [wrapLast] at h
  | [v], l, h => by
    simp only [wrapLast] at h
    by_cases hm : api.canReturnMultiple v = true
    · simp [hm] at h; subst h; exact SingleE.paren v
    · have hm' : api.canReturnMultiple v = false := by simpa using hm
      simp [hm'] at h; subst h; exact hs v hm'
  | v :: v2 :: rest, l, h => by
    simp only [wrapLast] at h
    have : (wrapLast api (v2 :: rest)).getLast? = some l := by
      cases hw : wrapLast api (v2 :: rest) with
      | nil => cases rest <;> simp [wrapLast] at hw <;> split at hw <;> simp at hw
      | cons a b => simpa [hw] using h
    exact wrapLast_last api hs (v2 :: rest) l this

/-- `wrapLast` only changes how many values the LAST element yields: same truncated evaluation -/
theorem evalT_wrapLast (api : EvalApi) (call : CallFn N) (ρ : ExtOracle N) (k : Nat) (env : Env N) :
    ∀ (vs : List Expr) (σ : State N), evalT call ρ k env (wrapLast api vs) σ = evalT call ρ k env vs σ
  | [], _ => rfl
  | [v], σ => by
    simp only [wrapLast]
    split
    · simp only [evalT, evalE]
      cases evalE call ρ k env v σ <;> simp [Res.bind, first]
    · rfl
  | v :: v2 :: rest, σ => by
    have ih := fun s => evalT_wrapLast api call ρ k env (v2 :: rest) s
    simp only [wrapLast, evalT]
    cases evalE call ρ k env v σ <;> simp [Res.bind]
    simp only [wrapLast, evalT, Res.bind] at ih
    rw [ih]

theorem look_padT (x : String) : ∀ (A : List String) (ws : List (Val N)), look x A (padT A.length ws) = look x A ws
  | [], _ => rfl
  | a :: as, ws => by
    simp only [look, List.length_cons, padT, first, List.headD_cons, List.drop_one, List.tail_cons]
    rw [← List.drop_one, look_padT x as]

theorem distinct_nodup : ∀ {A : List String}, distinct A = true → A.Nodup
  | [], _ => List.nodup_nil
  | a :: as, h => by
    simp only [distinct, Bool.and_eq_true, Bool.not_eq_true'] at h
    refine List.nodup_cons.mpr ⟨?_, distinct_nodup h.2⟩
    intro hm
    have : as.contains a = true := List.contains_iff_mem.mpr hm
    rw [this] at h; exact absurd h.1 (by simp)

/-- **the semantic core**: taking the `nil` literals out and moving their names to the end is a `LocalEquiv`,
for ARBITRARY value expressions, when the names are distinct, there is no surplus value, and the variables
without a value are not fed by a multi-valued last expression -/
theorem split_equiv (api : EvalApi) (hs : ∀ e, api.canReturnMultiple e = false → SingleE e)
    (A : List String) (vs : List Expr) (hd : A.Nodup) (hlen : vs.length ≤ A.length)
    (hC : ¬ (A.length > vs.length ∧ lastMulti api vs = true)) :
    LocalEquiv A vs ((split A vs).1 ++ (split A vs).2.2) (wrapLast api (keep vs)) := by
  have hperm := split_perm A vs
  refine ⟨hd, hperm.nodup_iff.mpr hd, fun n => (hperm.mem_iff).symm, ?_⟩
  intro N call ρ k env σ
  have h1 := evalEs_evalT call ρ k env vs σ
  have h2 := evalT_keep call ρ k env vs σ
  have h3 := evalEs_lastSingle call ρ k env (wrapLast api (keep vs)) (wrapLast_last api hs (keep vs)) σ
  rw [evalT_wrapLast] at h3
  -- when the variables outnumber the values the last value is single: `evalEs` is exact
  have h4 : A.length > vs.length → SameExact (evalEs call ρ k env vs σ) (evalT call ρ k env vs σ) := fun hgt => by
    apply evalEs_lastSingle
    intro l hl
    have : lastMulti api vs = false := by
      cases hm : lastMulti api vs with
      | false => rfl
      | true => exact absurd ⟨hgt, hm⟩ hC
    simp only [lastMulti, hl] at this
    exact hs l this
  revert h1 h2 h3 h4
  generalize evalEs call ρ k env vs σ = r
  generalize evalT call ρ k env vs σ = rt
  generalize evalT call ρ k env (keep vs) σ = rt'
  generalize evalEs call ρ k env (wrapLast api (keep vs)) σ = r'
  intro h1 h2 h3 h4
  cases r <;> cases rt <;> simp only [SameUpTo] at h1 <;> try exact h1.elim
  · -- ok
    rename_i ws σ1 wt σ1t
    obtain ⟨rfl, hwt, hle⟩ := h1
    cases rt' <;> simp only [SameFiltered] at h2 <;> try exact h2.elim
    rename_i wt' σ1'
    obtain ⟨rfl, hwt', hnil⟩ := h2
    cases r' <;> simp only [SameExact] at h3 <;> try exact h3.elim
    rename_i ws' σ2
    obtain ⟨h3a, h3b⟩ := h3
    subst h3a
    refine ⟨ws', rfl, ?_⟩
    intro n
    by_cases hn : n ∈ A
    · have hnB : n ∈ (split A vs).1 ++ (split A vs).2.2 := hperm.mem_iff.mpr hn
      rw [valOf_look n A ws hn, valOf_look n _ ws' hnB]
      congr 1
      have hwtlen : wt.length = vs.length := by rw [hwt]; exact padT_length _ _
      have hl : look n A ws = look n A wt := by
        by_cases hgt : A.length > vs.length
        · have := h4 hgt
          simp only [SameExact] at this
          rw [this.2]
        · have heq : A.length = vs.length := by omega
          rw [hwt, ← heq, look_padT]
      rw [hl, ← h3b, hwt']
      exact (look_split A vs wt hd hlen hwtlen hnil n hn).symm
    · have hnB : n ∉ (split A vs).1 ++ (split A vs).2.2 := fun h => hn (hperm.mem_iff.mp h)
      simp only [valOf, idx_none_iff.mpr hn, idx_none_iff.mpr hnB]
  · -- err
    obtain ⟨rfl, rfl⟩ := h1
    cases rt' <;> simp only [SameFiltered] at h2 <;> try exact h2.elim
    obtain ⟨rfl, rfl⟩ := h2
    cases r' <;> simp only [SameExact] at h3 <;> try exact h3.elim
    obtain ⟨rfl, rfl⟩ := h3
    rfl
  · -- timeout
    cases rt' <;> simp only [SameFiltered] at h2 <;> try exact h2.elim
    cases r' <;> simp only [SameExact] at h3 <;> try exact h3.elim
    rfl

/-! ### the model's rewrite in closed form, the guarded rule, the whole-rule theorem -/

theorem processLocal_cases (api : EvalApi) (ns : List TName) (vs : List Expr) (h1 : vs.length ≤ ns.length) :
    processLocal api (.localAssign .loc ns vs) = .localAssign .loc ns vs ∨
    (processLocal api (.localAssign .loc ns vs) =
        .localAssign .loc ((split ns vs).1 ++ (split ns vs).2.2) (wrapLast api (keep vs)) ∧
      ¬ (ns.length > vs.length ∧ lastMulti api vs = true)) := by
  have hvs1 : vs.take ns.length ++ (vs.drop ns.length).filter api.hasSideEffects = vs := by
    rw [List.take_of_length_le h1, List.drop_eq_nil_of_le h1]; simp
  simp only [processLocal, hvs1]
  by_cases c1 : vs.length > ns.length
  · left; simp [c1]
  by_cases c2 : (!vs.any isNil) = true
  · left; simp [c1, c2]
  by_cases c3 : (!distinct (tnamesOf ns)) = true
  · left; simp [c1, c2, c3]
  by_cases c4 : (decide (ns.length > vs.length) && lastMulti api vs) = true
  · left; simp [c1, c2, c3, c4]
  · right
    have hsp := removeAt_spec ns vs h1
    refine ⟨?_, ?_⟩
    · simp only [c1, c2, c3, c4, if_false]
      generalize removeAt (nilIndices vs 0).reverse (ns, vs, []) = st at hsp ⊢
      obtain ⟨a, b, c⟩ := st
      simp only at hsp ⊢
      rw [hsp.1, hsp.2, split_keep ns vs h1]
      simp
    · simpa using c4

theorem names_split (ns : List TName) (vs : List Expr) :
    ((split ns vs).1 ++ (split ns vs).2.2).map TName.name =
      (split (ns.map TName.name) vs).1 ++ (split (ns.map TName.name) vs).2.2 := by
  rw [split_map]; simp

theorem mem_wrapLast (api : EvalApi) : ∀ (vs : List Expr) (e : Expr), e ∈ wrapLast api vs →
    e ∈ vs ∨ ∃ x ∈ vs, e = .paren x
  | [], _, h => by simp [wrapLast] at h
  | [v], e, h => by
    simp only [wrapLast] at h
    split at h <;> simp at h <;> subst h <;> simp
  | v :: v2 :: rest, e, h => by
    simp only [wrapLast, List.mem_cons] at h
    rcases h with rfl | h
    · simp
    · rcases mem_wrapLast api (v2 :: rest) e (by simpa using h) with h' | ⟨x, hx, rfl⟩
      · left; exact List.mem_cons_of_mem _ h'
      · right; exact ⟨x, List.mem_cons_of_mem _ hx, rfl⟩

theorem noRef_wrapKeep (api : EvalApi) (vs : List Expr) : ∀ D, NoRefEs D vs → NoRefEs D (wrapLast api (keep vs)) := by
  intro D hn
  rw [Guarded.noRefEs_iff] at hn ⊢
  intro e he
  rcases mem_wrapLast api (keep vs) e he with h | ⟨x, hx, rfl⟩
  · exact hn e (List.mem_filter.mp h).1
  · exact NoRefE.paren.mpr (hn x (List.mem_filter.mp hx).1)

/-- the rule's rewrite, performed on declarations with distinct names and no surplus value -/
def guardedLocal (api : EvalApi) : Stmt → Stmt
  | .localAssign .loc ns vs =>
    if vs.length ≤ ns.length && distinct (tnamesOf ns) then processLocal api (.localAssign .loc ns vs)
    else .localAssign .loc ns vs
  | s => s

theorem tnamesOf_eq (ns : List TName) : tnamesOf ns = ns.map TName.name := by
  induction ns with
  | nil => rfl
  | cons t ts ih => cases t; simp [tnamesOf, TName.name] at ih ⊢; exact ih

theorem guardedLocal_link (api : EvalApi) (hs : ∀ e, api.canReturnMultiple e = false → SingleE e) (s : Stmt) :
    (LkS Cx.none) s (guardedLocal api s) := by
  unfold guardedLocal
  split
  · rename_i ns vs
    split
    · rename_i hg
      simp only [Bool.and_eq_true, decide_eq_true_eq] at hg
      rcases processLocal_cases api ns vs hg.1 with h | ⟨h, hC⟩
      · rw [h]; exact LkS.refl _
      · rw [h]
        have hd : (ns.map TName.name).Nodup := by rw [← tnamesOf_eq]; exact distinct_nodup hg.2
        have heq := split_equiv api hs (ns.map TName.name) vs hd (by simpa using hg.1) (by simpa using hC)
        rw [← names_split] at heq
        exact LkS.permLocal heq (noRef_wrapKeep api vs)
    · exact LkS.refl _
  · exact LkS.refl _

def processorG (api : EvalApi) : Processor Unit := { stmtNode := fun s u => (guardedLocal api s, u) }

theorem hooksHeap (api : EvalApi) (hs : ∀ e, api.canReturnMultiple e = false → SingleE e) :
    HooksHeap Cx.none (processorG api) where
  stmtNode := fun s _ => .single (guardedLocal_link api hs s)

/-- the rule restricted to declarations without surplus values -/
def applyG (api : EvalApi) (b : Block) : Block := (Visitor.runDefault (processorG api) b ()).1

/-- **whole rule, every program**: the guarded rule preserves the observable outcome -/
theorem applyG_refines (api : EvalApi) (hs : ∀ e, api.canReturnMultiple e = false → SingleE e) (b : Block)
    {N : NumOps} (ρ : ExtOracle N) (n : Nat) (externs : List String) :
    runProgram ρ n externs (applyG api b) = runProgram ρ n externs b :=
  Visitor.runDefault_heap (hooksHeap api hs) b () (fun _ h => by cases h) ρ n externs (fun _ h => by cases h)

theorem apply_refines_of_agree (api : EvalApi) (hs : ∀ e, api.canReturnMultiple e = false → SingleE e) (b : Block)
    (h : applyG api b = apply api b) {N : NumOps} (ρ : ExtOracle N) (n : Nat) (externs : List String) :
    runProgram ρ n externs (apply api b) = runProgram ρ n externs b := by
  rw [← h]; exact applyG_refines api hs b ρ n externs

end DarkluaModel.Rules.NilDeclaration.General
