import DarkluaModel.Shared.Visitor
import DarkluaModel.Rules.EvalApi
/-!
# `remove_nil_declaration` (`src/rules/remove_nil_declarations.rs`)

`Processor::process_local_assign_statement`, step by step (the early `return`s leave the
mutations made so far in place). One `DefaultVisitor` pass.

F24 (fixed): the variables whose `nil` value was removed are moved to the end of the variable
list — with a repeated name that changed which declaration is visible; such declarations are
now left alone.
-/
namespace DarkluaModel.Rules.NilDeclaration
open DarkluaModel.Rules

def isNil : Expr → Bool
  | .nil => true
  | _ => false

/-- ascending indices of the `nil` values -/
def nilIndices : List Expr → Nat → List Nat
  | [], _ => []
  | v :: rest, i => if isNil v then i :: nilIndices rest (i + 1) else nilIndices rest (i + 1)

/-- the `filter_map` over the reversed indices: `remove_value(index)`, then
`remove_variable(index)` (refused when a single variable is left); removed variables are
collected — prepending while walking down gives ascending order, which is the order
`insert_variables.into_iter().rev()` pushes them back. -/
def removeAt : List Nat → List TName × List Expr × List TName → List TName × List Expr × List TName
  | [], st => st
  | i :: rest, (ns, vs, moved) =>
    let vs' := vs.eraseIdx i
    if ns.length > 1 && i < ns.length then
      match ns[i]? with
      | some n => removeAt rest (ns.eraseIdx i, vs', n :: moved)
      | none => removeAt rest (ns, vs', moved)
    else removeAt rest (ns, vs', moved)

def wrapLast (api : EvalApi) : List Expr → List Expr
  | [] => []
  | [v] => if api.canReturnMultiple v then [.paren v] else [v]
  | v :: rest => v :: wrapLast api rest

def tnamesOf (ns : List TName) : List String := ns.map fun | .mk n _ => n

def distinct : List String → Bool
  | [] => true
  | n :: rest => !rest.contains n && distinct rest

/-- `assignment.last_value().filter(|v| can_return_multiple_values(v)).is_some()` -/
def lastMulti (api : EvalApi) (vs : List Expr) : Bool :=
  match vs.getLast? with
  | some l => api.canReturnMultiple l
  | none => false

def processLocal (api : EvalApi) : Stmt → Stmt
  | .localAssign .loc ns vs =>
    let nv := ns.length
    -- extra values without side effects are popped
    let vs1 := vs.take nv ++ (vs.drop nv).filter api.hasSideEffects
    if vs1.length > nv then .localAssign .loc ns vs1
    else if !vs1.any isNil then .localAssign .loc ns vs1
    else if !distinct (tnamesOf ns) then .localAssign .loc ns vs1   -- (fix of F24: a name is declared twice)
    else if nv > vs1.length && lastMulti api vs1 then
      .localAssign .loc ns vs1
    else
      let (ns2, vs2, moved) := removeAt (nilIndices vs1 0).reverse (ns, vs1, [])
      .localAssign .loc (ns2 ++ moved) (wrapLast api vs2)
  | s => s

def processor (api : EvalApi) : Processor Unit := { stmtNode := fun s u => (processLocal api s, u) }

/-- `flawless_process` -/
def apply (api : EvalApi) (b : Block) : Block := (Visitor.runDefault (processor api) b ()).1

end DarkluaModel.Rules.NilDeclaration
