import DarkluaModel.Rules.UnusedIfBranchSound
import DarkluaModel.Rules.UnusedIfExprSound
import DarkluaModel.Shared.VisitorSound
/-!
# `remove_unused_if_branch` — statement hook up to budget exhaustion (for the lifting theorem)

Under the stronger evaluator contract `EvalTotal` (decided ⇒ that truthiness; decided and pure ⇒
evaluates successfully without touching the state, unless the budget runs out) the block hook
satisfies `LeB true`: the original block exhausts its budget, or the rewritten block has EXACTLY
the same denotation. The if-EXPRESSION hook is left to the identity here (`processorStmts`):
the whole-rule theorem below is about the statement part of the rule.
-/
namespace DarkluaModel.Rules.UnusedIfBranch.Whole
open DarkluaModel.Sem DarkluaModel.Rules DarkluaModel.Rules.UnusedIfBranch DarkluaModel.Rules.UnusedIfBranch.Sound

theorem retain_le {N : NumOps} {api : EvalApi} (ht : EvalTotal N api)
    (call : CallFn N) (ρ : ExtOracle N) (k : Nat) (env : Env N) (els1 : Option Block)
    (brs : List (Expr × Block)) (σ : State N) :
    sem call ρ k env brs els1 σ = .timeout ∨
    sem call ρ k env (retainBranches api brs {}).1 (elseAfter (retainBranches api brs {}).2 els1) σ
      = sem call ρ k env brs els1 σ := by
  induction brs generalizing σ with
  | nil => right; simp [retainBranches, elseAfter]
  | cons p rest ih =>
    obtain ⟨c, b⟩ := p
    rw [sem_cons]
    cases ht' : api.isTruthy c with
    | none =>
      simp only [retainBranches, ht', Bool.not_true, Bool.false_eq_true, if_false]
      rw [sem_cons]
      cases hc : evalE call ρ k env c σ with
      | timeout => left; rfl
      | err v σ1 => right; rfl
      | ok cv σ1 =>
        simp only [Res.bind]
        by_cases htr : (first cv).truthy = true
        · right; simp [htr]
        · simp only [htr]; exact ih σ1
    | some tv =>
      by_cases hse : api.hasSideEffects c = true
      · -- the condition is kept
        cases hc : evalE call ρ k env c σ with
        | timeout => left; rfl
        | err v σ1 =>
          right
          cases tv <;>
            simp [retainBranches, ht', hse, retain_stopped api rest { keepNext := false, replaceElse := none } rfl,
              sem_cons, hc, Res.bind]
        | ok cv σ1 =>
          have htruth := ht.decided c tv ht' call ρ k env σ σ1 cv hc
          cases tv with
          | true =>
            right
            simp [retainBranches, ht', hse, retain_stopped api rest { keepNext := false, replaceElse := none } rfl,
              sem_cons, hc, Res.bind, htruth]
          | false =>
            simp only [retainBranches, ht', hse, Bool.not_true, Bool.false_eq_true, if_false, if_true]
            rw [sem_cons]
            simp only [hc, Res.bind, htruth, Bool.false_eq_true, if_false]
            exact ih σ1
      · have hse' : api.hasSideEffects c = false := by simpa using hse
        rcases ht.pureTotal c tv ht' hse' call ρ k env σ with hto | ⟨cv, hc⟩
        · left; simp [hto, Res.bind]
        · have htruth := ht.decided c tv ht' call ρ k env σ σ cv hc
          cases tv with
          | true =>
            right
            simp [retainBranches, ht', hse', retain_stopped api rest { keepNext := false, replaceElse := some b } rfl,
              sem_nil, elseAfter, elseSem, hc, Res.bind, htruth]
          | false =>
            simp only [retainBranches, ht', hse', Bool.not_true, Bool.false_eq_true, if_false]
            simp only [hc, Res.bind, htruth, Bool.false_eq_true, if_false]
            exact ih σ

/-- `simplify_if_statement` up to budget exhaustion -/
theorem simplifyIfStatement_le {N : NumOps} {api : EvalApi} (ht : EvalTotal N api)
    (call : CallFn N) (ρ : ExtOracle N) (k : Nat) (env : Env N)
    (brs : List (Expr × Block)) (els : Option Block) (σ : State N) :
    execS call ρ k env (.ifs brs els) σ = .timeout ∨
    replSem call ρ k env (simplifyIfStatement api brs els) σ = execS call ρ k env (.ifs brs els) σ := by
  rw [execS_ifs]
  have hdrop : sem call ρ k env brs (dropEmptyElse els) σ = sem call ρ k env brs els σ := by
    simp only [sem]
    cases execBranches call ρ k env brs σ with
    | timeout => rfl
    | err v σ1 => rfl
    | ok r σ1 => cases r <;> simp [Res.bind, elseSem_dropEmpty]
  rw [← hdrop]
  rcases retain_le ht call ρ k env (dropEmptyElse els) brs σ with hto | h2
  · left; exact hto
  · right
    rw [← h2]
    have hI1 := retain_replace_none api brs {} rfl
    have hI2 := retain_stopped_has api brs {} rfl
    simp only [simplifyIfStatement]
    generalize retainBranches api brs {} = ret at hI1 hI2
    obtain ⟨kept, st⟩ := ret
    simp only at hI1 hI2 ⊢
    cases kept with
    | nil =>
      simp only [List.isEmpty_nil, if_true]
      rw [sem_nil]
      cases hre : st.replaceElse with
      | some blk =>
        have hkn' : st.keepNext = false := by
          cases hkn : st.keepNext with
          | false => rfl
          | true => have := hI1 hkn; simp [hre] at this
        simp only [elseAfter, hkn', hre, Bool.false_eq_true, if_false]
        by_cases hb : blockIsEmpty blk = true
        · simp only [hb, if_true, replSem, elseSem_empty call ρ k env blk hb]
        · simp [hb, replSem, elseSem]
      | none =>
        have hkn : st.keepNext = true := by
          cases hkn : st.keepNext with
          | true => rfl
          | false => have := hI2 hkn; simp [hre] at this
        simp only [elseAfter, hkn, if_true]
        cases he : dropEmptyElse els with
        | none => simp [replSem, elseSem]
        | some e => simp [dropEmpty_nonempty he, replSem, elseSem]
    | cons kb krest =>
      simp only [List.isEmpty_cons, Bool.false_eq_true, if_false]
      by_cases hkn : st.keepNext = true
      · simp [hkn, replSem, execS_ifs, elseAfter]
      · have hkn' : st.keepNext = false := by simpa using hkn
        simp [hkn', replSem, execS_ifs, elseAfter]

theorem processStmts_le {N : NumOps} {api : EvalApi} (ht : EvalTotal N api)
    (call : CallFn N) (ρ : ExtOracle N) (k : Nat) (stmts : List Stmt) (env : Env N) (σ : State N) :
    execSs call ρ k env stmts σ = .timeout ∨
      execSs call ρ k env (processStmts api stmts) σ = execSs call ρ k env stmts σ := by
  induction stmts generalizing env σ with
  | nil => right; rfl
  | cons s rest ih =>
    have step : ∀ (s' : Stmt), execS call ρ k env s' σ = execS call ρ k env s σ →
        (execSs call ρ k env (s :: rest) σ = .timeout ∨
          execSs call ρ k env (s' :: processStmts api rest) σ = execSs call ρ k env (s :: rest) σ) := by
      intro s' hss
      simp only [execSs, hss]
      cases hx : execS call ρ k env s σ with
      | timeout => left; rfl
      | err v σ1 => right; rfl
      | ok c1 σ1 =>
        simp only [Res.bind]
        cases c1 with
        | next env' => exact ih env' σ1
        | _ => right; rfl
    cases s with
    | ifs brs els =>
      simp only [processStmts]
      rcases simplifyIfStatement_le ht call ρ k env brs els σ with hto | heq
      · left; simp [execSs, hto, Res.bind]
      · rcases simplify_short api brs els with hnil | ⟨s', hone⟩
        · rw [hnil] at heq ⊢
          simp only [replSem] at heq
          simp only [List.nil_append, execSs, ← heq, Res.bind]
          exact ih env σ
        · rw [hone] at heq ⊢
          simp only [replSem] at heq
          exact step s' heq
    | assign _ _ | cassign _ _ _ | callStmt _ | doBlock _ | function _ _ _ | gfor _ _ _ | nfor _ _ _ _ _
    | localAssign _ _ _ | localFn _ _ _ | repeat_ _ _ | while_ _ _ | typeDecl _ _ _ | typeFn _ _ _ =>
      simp only [processStmts]
      exact step _ rfl

/-- the statement part of the rule as a processor of its own -/
def processorStmts (api : EvalApi) : Processor Unit := { block := processBlock api }

theorem hooksLe {api : EvalApi} (ht : ∀ N, EvalTotal N api) : HooksLe true (processorStmts api) where
  block := fun b _ N call ρ k env σ => by
    cases b with
    | mk stmts last =>
      simp only [processorStmts, processBlock, execB]
      rcases processStmts_le (ht N) call ρ k stmts env σ with hto | heq
      · left; exact ⟨trivial, by simp [hto, Res.bind]⟩
      · right; rw [heq]

/-- whole pass over every program (statement rewrites only): same outcome unless the original
exhausts its budget -/
theorem applyStmts_upto {api : EvalApi} (ht : ∀ N, EvalTotal N api) (b : Block) {N : NumOps} (ρ : ExtOracle N) (n : Nat)
    (externs : List String) :
    runProgram ρ n externs b = .timeout ∨
      runProgram ρ n externs (Visitor.runDefault (processorStmts api) b ()).1 = runProgram ρ n externs b :=
  Visitor.runDefault_upto (hooksLe ht) b () ρ n externs

/-! ### the if-expression hook up to budget exhaustion -/
open DarkluaModel.Rules.UnusedIfBranch.ExprSound in
theorem wrap_exact {N : NumOps} {api : EvalApi} (ht : EvalTotal N api)
    (call : CallFn N) (ρ : ExtOracle N) (k : Nat) (env : Env N) (t : Expr) (σ : State N) :
    evalE call ρ k env (wrap api t) σ = one (evalE call ρ k env t σ) := by
  unfold wrap
  by_cases hm : api.canReturnMultiple t = true
  · simp only [hm, if_true, one_paren]
  · have hm' : api.canReturnMultiple t = false := by simpa using hm
    simp only [hm', Bool.false_eq_true, if_false, one]
    cases hx : evalE call ρ k env t σ with
    | timeout => rfl
    | err v σ1 => rfl
    | ok ws σ1 =>
      simp only [Res.bind]
      rw [← ht.single t hm' call ρ k env σ σ1 ws hx]

open DarkluaModel.Rules.UnusedIfBranch.ExprSound in
theorem retainElifs_le {N : NumOps} {api : EvalApi} (ht : EvalTotal N api)
    (call : CallFn N) (ρ : ExtOracle N) (k : Nat) (env : Env N) (e : Expr)
    (elifs : List (Expr × Expr)) (σ : State N) :
    tailSem call ρ k env elifs e σ = .timeout ∨
    tailSem call ρ k env (retainElifs api elifs {}).1 (ExprSound.elseAfter (retainElifs api elifs {}).2 e) σ
      = tailSem call ρ k env elifs e σ := by
  induction elifs generalizing σ with
  | nil => right; simp [retainElifs, ExprSound.elseAfter]
  | cons p rest ih =>
    obtain ⟨c, t⟩ := p
    rw [tailSem_cons, evalE_ifx]
    cases ht' : api.isTruthy c with
    | none =>
      simp only [retainElifs, ht', Bool.not_true, Bool.false_eq_true, if_false]
      rw [tailSem_cons, evalE_ifx]
      cases hc : evalE call ρ k env c σ with
      | timeout => left; rfl
      | err v σ1 => right; rfl
      | ok cv σ1 =>
        simp only [Res.bind]
        by_cases htr : (first cv).truthy = true
        · right; simp [htr]
        · simp only [htr]; exact ih σ1
    | some tv =>
      by_cases hse : api.hasSideEffects c = true
      · cases hc : evalE call ρ k env c σ with
        | timeout => left; rfl
        | err v σ1 =>
          right
          cases tv <;>
            simp [retainElifs, ht', hse, retainElifs_stopped api rest { keepNext := false, replaceElse := none } rfl,
              tailSem_cons, evalE_ifx, hc, Res.bind]
        | ok cv σ1 =>
          have htruth := ht.decided c tv ht' call ρ k env σ σ1 cv hc
          cases tv with
          | true =>
            right
            simp [retainElifs, ht', hse, retainElifs_stopped api rest { keepNext := false, replaceElse := none } rfl,
              tailSem_cons, evalE_ifx, hc, Res.bind, htruth]
          | false =>
            simp only [retainElifs, ht', hse, Bool.not_true, Bool.false_eq_true, if_false, if_true]
            rw [tailSem_cons, evalE_ifx]
            simp only [hc, Res.bind, htruth, Bool.false_eq_true, if_false]
            exact ih σ1
      · have hse' : api.hasSideEffects c = false := by simpa using hse
        rcases ht.pureTotal c tv ht' hse' call ρ k env σ with hto | ⟨cv, hc⟩
        · left; simp [hto, Res.bind]
        · have htruth := ht.decided c tv ht' call ρ k env σ σ cv hc
          cases tv with
          | true =>
            right
            simp [retainElifs, ht', hse', retainElifs_stopped api rest { keepNext := false, replaceElse := some t } rfl,
              tailSem_nil, ExprSound.elseAfter, hc, Res.bind, htruth]
          | false =>
            simp only [retainElifs, ht', hse', Bool.not_true, Bool.false_eq_true, if_false]
            simp only [hc, Res.bind, htruth, Bool.false_eq_true, if_false]
            exact ih σ

open DarkluaModel.Rules.UnusedIfBranch.ExprSound in
theorem simplifyIf_le {N : NumOps} {api : EvalApi} (ht : EvalTotal N api)
    (call : CallFn N) (ρ : ExtOracle N) (k : Nat) (env : Env N)
    (elifs : List (Expr × Expr)) (e : Expr) :
    ∀ (c t : Expr) (σ : State N),
      evalE call ρ k env (.ifx c t elifs e) σ = .timeout ∨
      evalE call ρ k env (simplifyIf api c t elifs e) σ = evalE call ρ k env (.ifx c t elifs e) σ := by
  induction elifs with
  | nil =>
    intro c t σ
    cases ht' : api.isTruthy c with
    | none =>
      right
      have hsimp : simplifyIf api c t [] e = .ifx c t [] e := by simp [simplifyIf, ht', retainElifs]
      rw [hsimp]
    | some tv =>
      rw [evalE_ifx]
      by_cases hse : api.hasSideEffects c = true
      · cases hc : evalE call ρ k env c σ with
        | timeout => left; rfl
        | err v σ1 => right; cases tv <;> simp [simplifyIf, ht', hse, evalE_ifx, hc, Res.bind]
        | ok cv σ1 =>
          have htruth := ht.decided c tv ht' call ρ k env σ σ1 cv hc
          right
          cases tv <;> simp [simplifyIf, ht', hse, evalE_ifx, hc, Res.bind, htruth, tailSem_nil]
      · have hse' : api.hasSideEffects c = false := by simpa using hse
        rcases ht.pureTotal c tv ht' hse' call ρ k env σ with hto | ⟨cv, hc⟩
        · left; simp [hto, Res.bind]
        · have htruth := ht.decided c tv ht' call ρ k env σ σ cv hc
          right
          cases tv <;>
            simp [simplifyIf, ht', hse', hc, Res.bind, htruth, tailSem_nil, wrap_exact ht]
  | cons p rest ih =>
    obtain ⟨c', t'⟩ := p
    intro c t σ
    cases ht' : api.isTruthy c with
    | none =>
      simp only [simplifyIf, ht']
      generalize hret : retainElifs api ((c', t') :: rest) {} = ret
      obtain ⟨kept, st⟩ := ret
      have key := fun σ1 => retainElifs_le ht call ρ k env e ((c', t') :: rest) σ1
      rw [hret] at key
      have goal : evalE call ρ k env (.ifx c t ((c', t') :: rest) e) σ = .timeout ∨
          evalE call ρ k env (.ifx c t kept (ExprSound.elseAfter st e)) σ
            = evalE call ρ k env (.ifx c t ((c', t') :: rest) e) σ := by
        rw [evalE_ifx, evalE_ifx]
        cases hc : evalE call ρ k env c σ with
        | timeout => left; rfl
        | err v σ1 => right; rfl
        | ok cv σ1 =>
          simp only [Res.bind]
          by_cases htr : (first cv).truthy = true
          · right; simp [htr]
          · simp only [htr]; exact key σ1
      by_cases hkn : st.keepNext = true
      · simpa [ExprSound.elseAfter, hkn] using goal
      · have hkn' : st.keepNext = false := by simpa using hkn
        simpa [ExprSound.elseAfter, hkn'] using goal
    | some tv =>
      rw [evalE_ifx]
      by_cases hse : api.hasSideEffects c = true
      · cases hc : evalE call ρ k env c σ with
        | timeout => left; rfl
        | err v σ1 => right; cases tv <;> simp [simplifyIf, ht', hse, evalE_ifx, hc, Res.bind]
        | ok cv σ1 =>
          have htruth := ht.decided c tv ht' call ρ k env σ σ1 cv hc
          right
          cases tv <;> simp [simplifyIf, ht', hse, evalE_ifx, hc, Res.bind, htruth]
      · have hse' : api.hasSideEffects c = false := by simpa using hse
        rcases ht.pureTotal c tv ht' hse' call ρ k env σ with hto | ⟨cv, hc⟩
        · left; simp [hto, Res.bind]
        · have htruth := ht.decided c tv ht' call ρ k env σ σ cv hc
          cases tv with
          | true => right; simp [simplifyIf, ht', hse', hc, Res.bind, htruth, wrap_exact ht]
          | false =>
            simp only [simplifyIf, ht', hse', Bool.false_eq_true, if_false, hc, Res.bind, htruth]
            rw [tailSem_cons]
            exact ih c' t' σ

theorem processExpr_le {api : EvalApi} (ht : ∀ N, EvalTotal N api) (e : Expr) : LeE true e (processExpr api e) := by
  intro N call ρ k env σ
  cases e with
  | ifx c t elifs el =>
    rcases simplifyIf_le (ht N) call ρ k env elifs el c t σ with hto | heq
    · left; exact ⟨rfl, hto⟩
    · right; exact heq
  | _ => right; rfl

/-- the whole processor of the rule -/
theorem hooksLeFull {api : EvalApi} (ht : ∀ N, EvalTotal N api) : HooksLe true (processor api) where
  block := fun b s => (hooksLe ht).block b s
  expr := fun e _ => processExpr_le ht e

/-- **whole rule, every program**: same observable outcome unless the original exhausts its budget -/
theorem apply_upto {api : EvalApi} (ht : ∀ N, EvalTotal N api) (b : Block) {N : NumOps} (ρ : ExtOracle N) (n : Nat)
    (externs : List String) :
    runProgram ρ n externs b = .timeout ∨
      runProgram ρ n externs (apply api b) = runProgram ρ n externs b :=
  Visitor.runDefault_upto (hooksLeFull ht) b () ρ n externs

end DarkluaModel.Rules.UnusedIfBranch.Whole
