import DarkluaModel.Rules.ComputeExpression
import DarkluaModel.Rules.EvalLitSound
/-!
# `compute_expression` — local soundness of `process_expression` under `H` (F5 excluded)

`FoldSound`: what the rule needs from `evaluate(e).to_expression()` (C08: the folded literal
evaluates to the value of the original). `okSpine`: the decidable-in-`api` hypothesis `H`
along the path the rule follows — the expressions it folds or drops are in the sound region and
allocate nothing, the left operand of a selected `and`/`or` has no side effects, and the
operand that replaces an `and`/`or` is not multi-valued (neither a call nor `...`: F5).
-/
namespace DarkluaModel.Rules.ComputeExpression.Sound
open DarkluaModel.Sem DarkluaModel.Rules DarkluaModel.Rules.ComputeExpression

structure FoldSound (N : NumOps) (api : EvalApi) (good : Expr → Prop) : Prop where
  folded : ∀ (e e' : Expr), good e → api.toExpr e = some e' → api.hasSideEffects e = false → noAlloc e = true →
    ∀ (call : CallFn N) (ρ : ExtOracle N) (k : Nat) (env : Env N) (σ σ' : State N) (vs : List (Val N)),
      evalE call ρ k env e σ = .ok vs σ' → evalE call ρ k env e' σ = .ok vs σ'

theorem litApi_foldSound (N : NumOps) : FoldSound N litApi notInst where
  folded e e' _ ht _ _ call ρ k env σ σ' vs h := by
    cases e <;> simp [litApi] at ht <;> (subst ht; exact h)

/-- every expression that is not a call, `...` or a type instantiation has exactly one value -/
theorem notMulti_single {N : NumOps} (call : CallFn N) (ρ : ExtOracle N) (k : Nat) (env : Env N)
    (e : Expr) (hm : multi e = false) (hi : notInst e) (σ σ' : State N) (vs : List (Val N))
    (h : evalE call ρ k env e σ = .ok vs σ') : vs = [first vs] := by
  cases e with
  | vararg => simp [multi] at hm
  | call f m kd args => simp [multi] at hm
  | inst x t => exact absurd hi (by simp [notInst])
  | un op x =>
    simp only [evalE] at h
    cases hx : evalE call ρ k env x σ with
    | timeout => simp [hx, Res.bind] at h
    | err v σ1 => simp [hx, Res.bind] at h
    | ok xs σ1 =>
      simp only [hx, Res.bind] at h
      cases hy : unopVal call ρ k op (first xs) σ1 <;> simp [hy] at h
      rw [← h.1]; simp [first]
  | bin op l r =>
    by_cases hop : op = .and ∨ op = .or
    · have : canReturnMultiple (.bin op l r) = false := by rcases hop with rfl | rfl <;> rfl
      exact canReturnMultiple_sound call ρ k env _ this hi σ σ' vs h
    · have hne1 : op ≠ .and := fun h => hop (Or.inl h)
      have hne2 : op ≠ .or := fun h => hop (Or.inr h)
      have key : evalE call ρ k env (.bin op l r) σ =
          (evalE call ρ k env l σ).bind fun vs σ1 =>
            (evalE call ρ k env r σ1).bind fun ws σ2 =>
              (binopVal call ρ k op (first vs) (first ws) σ2).bind fun v σ3 => .ok [v] σ3 := by
        cases op <;> first | (exact absurd rfl hne1) | (exact absurd rfl hne2) | (rw [evalE] <;> (intro hh; cases hh))
      rw [key] at h
      cases hx : evalE call ρ k env l σ with
      | timeout => simp [hx, Res.bind] at h
      | err v σ1 => simp [hx, Res.bind] at h
      | ok xs σ1 =>
        simp only [hx, Res.bind] at h
        cases hy : evalE call ρ k env r σ1 with
        | timeout => simp [hy] at h
        | err v σ2 => simp [hy] at h
        | ok ys σ2 =>
          simp only [hy] at h
          cases hz : binopVal call ρ k op (first xs) (first ys) σ2 <;> simp [hz] at h
          rw [← h.1]; simp [first]
  | nil | «true» | «false» | num _ | str _ | var _ | paren _ | field _ _ | index _ _ | fn _ | table _
  | ifx _ _ _ _ | interp _ | cast _ _ =>
    exact canReturnMultiple_sound call ρ k env _ rfl hi σ σ' vs h

/-- a multi-valued expression is left alone by the rule -/
theorem processExpr_multi (api : EvalApi) (e : Expr) (h : multi e = true) : processExpr api e = e := by
  cases e <;> simp [multi] at h <;> rfl

/-- the hypothesis `H` along the rule's path -/
def okSpine (api : EvalApi) (good : Expr → Prop) : Expr → Prop
  | .un op x =>
    api.hasSideEffects (.un op x) = false → good (.un op x) ∧ noAlloc (.un op x) = true
  | .ifx c t elifs el =>
    api.hasSideEffects (.ifx c t elifs el) = false → good (.ifx c t elifs el) ∧ noAlloc (.ifx c t elifs el) = true
  | .bin op l r =>
    (api.hasSideEffects (.bin op l r) = false →
      (api.toExpr (.bin op l r) ≠ none → good (.bin op l r) ∧ noAlloc (.bin op l r) = true) ∧
      (api.toExpr (.bin op l r) = none → (op = .and ∨ op = .or) → api.isTruthy l ≠ none →
        good l ∧ api.hasSideEffects l = false ∧ noAlloc l = true ∧ notInst l ∧ notInst r ∧
        multi (processExpr api (.bin op l r)) = false ∧ okSpine api good l ∧ okSpine api good r)) ∧
    (api.hasSideEffects (.bin op l r) = true → (op = .and ∨ op = .or) → api.hasSideEffects l = false →
      api.isTruthy l ≠ none →
        good l ∧ noAlloc l = true ∧ notInst l ∧ notInst r ∧ multi (processExpr api (.bin op l r)) = false)
  | _ => True

theorem multi_false_of_processed {api : EvalApi} {x : Expr} (h : multi (processExpr api x) = false) : multi x = false := by
  cases hm : multi x with
  | false => rfl
  | true => rw [processExpr_multi api x hm, hm] at h; exact absurd h (by simp)

/-- selecting an operand of `and`/`or` whose left side is decided, pure and non-allocating -/
theorem select_refines {N : NumOps} {api : EvalApi} {good : Expr → Prop} (hs : EvalSound N api good)
    (call : CallFn N) (ρ : ExtOracle N) (k : Nat) (env : Env N)
    (op : BinOp) (l r : Expr) (b : Bool) (hop : op = .and ∨ op = .or)
    (hg : good l) (ht : api.isTruthy l = some b) (hse : api.hasSideEffects l = false) (hna : noAlloc l = true)
    (hil : notInst l) (hir : notInst r)
    (σ σ' : State N) (vs : List (Val N)) (h : evalE call ρ k env (.bin op l r) σ = .ok vs σ') :
    -- the operand that is the result
    let x := if (op = .and) = b then r else l
    multi x = false → evalE call ρ k env x σ = .ok vs σ' := by
  intro x hmx
  rcases hop with rfl | rfl
  all_goals
    simp only [evalE] at h
    cases hl : evalE call ρ k env l σ with
    | timeout => simp [hl, Res.bind] at h
    | err v σ1 => simp [hl, Res.bind] at h
    | ok ls σ1 =>
      have h1 := hs.truthy l b hg ht call ρ k env σ σ1 ls hl
      have h2 := hs.pure l hg hse hna call ρ k env σ σ1 ls hl
      subst h2
      simp only [hl, Res.bind, h1] at h
      cases b with
      | true =>
        simp only [if_true] at h
        first
        | -- and, truthy: the right operand
          (have hx : x = r := by simp [x]
           rw [hx] at hmx ⊢
           cases hr : evalE call ρ k env r σ1 with
           | timeout => simp [hr] at h
           | err v σ2 => simp [hr] at h
           | ok ws σ2 =>
             simp [hr] at h
             rw [notMulti_single call ρ k env r hmx hir σ1 σ2 ws hr, h.1, h.2])
        | -- or, truthy: the left operand
          (have hx : x = l := by simp [x]
           rw [hx] at hmx ⊢
           simp at h
           rw [hl, notMulti_single call ρ k env l hmx hil σ1 σ1 ls hl, h.1, h.2])
      | false =>
        simp only [Bool.false_eq_true, if_false] at h
        first
        | (have hx : x = l := by simp [x]
           rw [hx] at hmx ⊢
           simp at h
           rw [hl, notMulti_single call ρ k env l hmx hil σ1 σ1 ls hl, h.1, h.2])
        | (have hx : x = r := by simp [x]
           rw [hx] at hmx ⊢
           cases hr : evalE call ρ k env r σ1 with
           | timeout => simp [hr] at h
           | err v σ2 => simp [hr] at h
           | ok ws σ2 =>
             simp [hr] at h
             rw [notMulti_single call ρ k env r hmx hir σ1 σ2 ws hr, h.1, h.2])

/-- `process_expression` refines, in every context, under `H` (`okSpine`) -/
theorem processExpr_refines {N : NumOps} {api : EvalApi} {good : Expr → Prop} (hs : EvalSound N api good) (hf : FoldSound N api good)
    (call : CallFn N) (ρ : ExtOracle N) (k : Nat) (env : Env N) :
    ∀ (e : Expr), okSpine api good e → ∀ (σ σ' : State N) (vs : List (Val N)),
      evalE call ρ k env e σ = .ok vs σ' → evalE call ρ k env (processExpr api e) σ = .ok vs σ'
  | .un op x, hok, σ, σ', vs, h => by
    by_cases hse : api.hasSideEffects (.un op x) = true
    · simpa [processExpr, hse] using h
    · have hse' : api.hasSideEffects (.un op x) = false := by simpa using hse
      have ⟨hg, hna⟩ := hok hse'
      cases hte : api.toExpr (.un op x) with
      | none => simpa [processExpr, hse', hte] using h
      | some v =>
        have := hf.folded _ v hg hte hse' hna call ρ k env σ σ' vs h
        simpa [processExpr, hse', hte] using this
  | .ifx c t elifs el, hok, σ, σ', vs, h => by
    by_cases hse : api.hasSideEffects (.ifx c t elifs el) = true
    · simpa [processExpr, hse] using h
    · have hse' : api.hasSideEffects (.ifx c t elifs el) = false := by simpa using hse
      have ⟨hg, hna⟩ := hok hse'
      cases hte : api.toExpr (.ifx c t elifs el) with
      | none => simpa [processExpr, hse', hte] using h
      | some v =>
        have := hf.folded _ v hg hte hse' hna call ρ k env σ σ' vs h
        simpa [processExpr, hse', hte] using this
  | .bin op l r, hok, σ, σ', vs, h => by
    obtain ⟨hpure, himpure⟩ := hok
    by_cases hse : api.hasSideEffects (.bin op l r) = true
    · -- the expression has side effects: only a pure, decided left operand of and/or is dropped
      by_cases hop : op = .and ∨ op = .or
      · by_cases hsel : api.hasSideEffects l = true
        · rcases hop with rfl | rfl <;> simpa [processExpr, hse, hsel] using h
        · have hsel' : api.hasSideEffects l = false := by simpa using hsel
          cases htl : api.isTruthy l with
          | none => rcases hop with rfl | rfl <;> simpa [processExpr, hse, hsel', htl] using h
          | some b =>
            have ⟨hg, hna, hil, hir, hmulti⟩ := himpure hse hop hsel' (by simp [htl])
            have sel := select_refines hs call ρ k env op l r b hop hg htl hsel' hna hil hir σ σ' vs h
            rcases hop with rfl | rfl <;> cases b <;>
              simp only [processExpr, hse, hsel', htl, Bool.not_true, Bool.not_false, Bool.false_eq_true,
                if_false, if_true] at hmulti ⊢ <;>
              exact sel (by simpa using hmulti)
      · have h1 : op ≠ .and := fun hh => hop (Or.inl hh)
        have h2 : op ≠ .or := fun hh => hop (Or.inr hh)
        cases op <;> first | exact absurd rfl h1 | exact absurd rfl h2 | simpa [processExpr, hse] using h
    · have hse' : api.hasSideEffects (.bin op l r) = false := by simpa using hse
      obtain ⟨hfold, hselect⟩ := hpure hse'
      cases hte : api.toExpr (.bin op l r) with
      | some v =>
        have ⟨hg, hna⟩ := hfold (by simp [hte])
        have := hf.folded _ v hg hte hse' hna call ρ k env σ σ' vs h
        simpa [processExpr, hse', hte] using this
      | none =>
        by_cases hop : op = .and ∨ op = .or
        · cases htl : api.isTruthy l with
          | none => rcases hop with rfl | rfl <;> simpa [processExpr, hse', hte, htl] using h
          | some b =>
            have ⟨hg, hsel', hna, hil, hir, hmulti, hokl, hokr⟩ := hselect hte hop (by simp [htl])
            have sel := select_refines hs call ρ k env op l r b hop hg htl hsel' hna hil hir σ σ' vs h
            rcases hop with rfl | rfl <;> cases b <;>
              simp only [processExpr, hse', hte, htl, Bool.not_true, Bool.not_false, Bool.false_eq_true,
                if_false, if_true] at hmulti ⊢
            · -- and, false: left operand, processed
              exact processExpr_refines hs hf call ρ k env l hokl σ σ' vs
                (sel (by simpa using multi_false_of_processed hmulti))
            · exact processExpr_refines hs hf call ρ k env r hokr σ σ' vs
                (sel (by simpa using multi_false_of_processed hmulti))
            · exact processExpr_refines hs hf call ρ k env r hokr σ σ' vs
                (sel (by simpa using multi_false_of_processed hmulti))
            · exact processExpr_refines hs hf call ρ k env l hokl σ σ' vs
                (sel (by simpa using multi_false_of_processed hmulti))
        · have h1 : op ≠ .and := fun hh => hop (Or.inl hh)
          have h2 : op ≠ .or := fun hh => hop (Or.inr hh)
          cases op <;> first | exact absurd rfl h1 | exact absurd rfl h2 | simpa [processExpr, hse', hte] using h
  | .nil, _, _, _, _, h | .true, _, _, _, _, h | .false, _, _, _, _, h | .vararg, _, _, _, _, h
  | .num _, _, _, _, _, h | .str _, _, _, _, _, h | .var _, _, _, _, _, h | .paren _, _, _, _, _, h
  | .call _ _ _ _, _, _, _, _, h | .field _ _, _, _, _, _, h | .index _ _, _, _, _, _, h | .fn _, _, _, _, _, h
  | .table _, _, _, _, _, h | .interp _, _, _, _, _, h | .cast _ _, _, _, _, _, h | .inst _ _, _, _, _, _, h => by
    simpa [processExpr] using h

end DarkluaModel.Rules.ComputeExpression.Sound
