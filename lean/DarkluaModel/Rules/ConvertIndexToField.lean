import DarkluaModel.Shared.Visitor
import DarkluaModel.Rules.EvalApi
/-!
# `convert_index_to_field` (`src/rules/convert_index_to_field.rs`)

`Converter::convert_to_field(key)`: when `evaluate(key)` is a string that is valid UTF-8 and
a valid identifier (`process/utils/mod.rs: is_valid_identifier`), the key becomes a field name.
Applied to index expressions in expression / prefix / assignment-target position
(`process_expression`, `process_prefix_expression`, `process_variable`) and to `[key] = value`
table entries (`process_table_expression`). One `DefaultVisitor` pass.

Known defect F6: the key expression is dropped without asking whether it has side effects.
-/
namespace DarkluaModel.Rules.ConvertIndexToField
open DarkluaModel.Rules

def keywords : List String :=
  ["and", "break", "do", "else", "elseif", "end", "false", "for", "function", "if", "in", "local",
   "nil", "not", "or", "repeat", "return", "then", "true", "until", "while"]

def isAlphaB (b : UInt8) : Bool := (65 ≤ b && b ≤ 90) || (97 ≤ b && b ≤ 122)
def isDigitB (b : UInt8) : Bool := 48 ≤ b && b ≤ 57

/-- the `char_indices().all(…)` test; `first` = index 0 -/
def identChars : List UInt8 → Bool → Bool
  | [], _ => true
  | b :: rest, first => (isAlphaB b || b == 95 || (isDigitB b && !first)) && identChars rest false

/-- bytes known to be ASCII, as a `String` -/
def asciiString (s : List UInt8) : String := String.ofList (s.map fun b => Char.ofNat b.toNat)

/-- `String::from_utf8(..).ok().filter(is_valid_identifier)` -/
def validIdentifier (s : List UInt8) : Option String :=
  if !s.isEmpty && s.all (· < 128) && identChars s true && !keywords.contains (asciiString s) then
    some (asciiString s)
  else none

/-- `convert_to_field` -/
def convertToField (api : EvalApi) (key : Expr) : Option String :=
  match api.kind key with
  | .string s => validIdentifier s
  | _ => none

/-- `process_expression` / `process_prefix_expression` / `process_variable` -/
def convertIndex (api : EvalApi) : Expr → Expr
  | .index p k =>
    match convertToField api k with
    | some name => .field p name
    | none => .index p k
  | e => e

def convertEntry (api : EvalApi) : Entry → Entry
  | .keyed k v =>
    match convertToField api k with
    | some name => .named name v
    | none => .keyed k v
  | e => e

/-- `process_table_expression` -/
def processTable (api : EvalApi) : Expr → Expr
  | .table entries => .table (entries.map (convertEntry api))
  | e => e

def processor (api : EvalApi) : Processor Unit :=
  { expr := fun e u => (convertIndex api e, u)
    pref := fun e u => (convertIndex api e, u)
    target := fun e u => (convertIndex api e, u)
    node := fun e u => (processTable api e, u) }

/-- `flawless_process` -/
def apply (api : EvalApi) (b : Block) : Block := (Visitor.runDefault (processor api) b ()).1

/-! ### the defect region (F6): a converted key that the evaluator says has side effects -/

def dropsEffect (api : EvalApi) : Expr → Bool
  | .index _ k => (convertToField api k).isSome && api.hasSideEffects k
  | .table entries => entries.any fun
    | .keyed k _ => (convertToField api k).isSome && api.hasSideEffects k
    | _ => false
  | _ => false

def regionProcessor (api : EvalApi) : Processor Bool :=
  let h : Expr → Bool → Expr × Bool := fun e s => (e, s || dropsEffect api e)
  { expr := h, pref := h, target := h, node := h }

/-- `true`: some converted key has side effects (outside `H`) -/
def outsideH (api : EvalApi) (b : Block) : Bool := (Visitor.runDefault (regionProcessor api) b false).2

end DarkluaModel.Rules.ConvertIndexToField
