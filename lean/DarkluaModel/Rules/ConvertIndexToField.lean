import DarkluaModel.Shared.Visitor
import DarkluaModel.Rules.EvalApi
import DarkluaModel.Rules.Utf8
/-!
# `convert_index_to_field` (`src/rules/convert_index_to_field.rs`)

`Converter::convert_to_field(key)`: when `evaluate(key)` is a string that is valid UTF-8 and
a valid identifier (`process/utils/mod.rs: is_valid_identifier`), the key becomes a field name.
Applied to index expressions in expression / prefix / assignment-target position
(`process_expression`, `process_prefix_expression`, `process_variable`) and to `[key] = value`
table entries (`process_table_expression`). One `DefaultVisitor` pass.

F6 (fixed): the key expression used to be dropped without asking whether it has side effects;
`convert_to_field` now answers `None` when `has_side_effects(key)`.
-/
namespace DarkluaModel.Rules.ConvertIndexToField
open DarkluaModel.Rules

def keywords : List String :=
  ["and", "break", "do", "else", "elseif", "end", "false", "for", "function", "if", "in", "local",
   "nil", "not", "or", "repeat", "return", "then", "true", "until", "while"]

def isAlphaB (b : UInt8) : Bool := (65 ≤ b && b ≤ 90) || (97 ≤ b && b ≤ 122)
def isDigitB (b : UInt8) : Bool := 48 ≤ b && b ≤ 57

/-- the `char_indices().all(…)` test; `first` = index 0 -/
def identChars : List UInt8 → Bool → Bool
  | [], _ => true
  | b :: rest, first => (isAlphaB b || b == 95 || (isDigitB b && !first)) && identChars rest false

/-- bytes known to be ASCII, as a `String` -/
def asciiString (s : List UInt8) : String := String.ofList (s.map fun b => Char.ofNat b.toNat)

/-- `String::from_utf8(..).ok().filter(is_valid_identifier)` -/
def validIdentifier (s : List UInt8) : Option String :=
  if !s.isEmpty && s.all (· < 128) && identChars s true && !keywords.contains (asciiString s) then
    some (asciiString s)
  else none

/-- `convert_to_field` -/
def convertToField (api : EvalApi) (key : Expr) : Option String :=
  if api.hasSideEffects key then none   -- (fix of F6: the key expression is dropped by the conversion)
  else
    match api.kind key with
    | .string s => validIdentifier s
    | _ => none

/-- `process_expression` / `process_prefix_expression` / `process_variable` -/
def convertIndex (api : EvalApi) : Expr → Expr
  | .index p k =>
    match convertToField api k with
    | some name => .field p name
    | none => .index p k
  | e => e

def convertEntry (api : EvalApi) : Entry → Entry
  | .keyed k v =>
    match convertToField api k with
    | some name => .named name v
    | none => .keyed k v
  | e => e

/-- `process_table_expression` -/
def processTable (api : EvalApi) : Expr → Expr
  | .table entries => .table (entries.map (convertEntry api))
  | e => e

def processor (api : EvalApi) : Processor Unit :=
  { expr := fun e u => (convertIndex api e, u)
    pref := fun e u => (convertIndex api e, u)
    target := fun e u => (convertIndex api e, u)
    node := fun e u => (processTable api e, u) }

/-- `flawless_process` -/
def apply (api : EvalApi) (b : Block) : Block := (Visitor.runDefault (processor api) b ()).1

/-! ### local soundness

`t[key]` ↦ `t.name` where `evaluate(key)` is the string `name`. For a sound evaluator, on keys
that allocate nothing (a converted key has no side effects since the fix of F6), every
error-free evaluation of the original is an evaluation of the rewritten node with the same
values and the same state — in expression, assignment-target and table-entry position.
(`validIdentifier_bytes`: the UTF-8 encoding of the produced identifier is the key's byte string.) -/
namespace Sound
open DarkluaModel.Sem

/-- the hypothesis on a converted key -/
structure KeyOk (api : EvalApi) (good : Expr → Prop) (k : Expr) (name : String) : Prop where
  conv : convertToField api k = some name
  good : good k
  noAlloc : noAlloc k = true

/-- a converted key has no side effects (this is the fix of F6) -/
theorem KeyOk.pure {api : EvalApi} {good : Expr → Prop} {k : Expr} {name : String} (h : KeyOk api good k name) :
    api.hasSideEffects k = false := by
  have hc := h.conv
  unfold convertToField at hc
  by_cases hse : api.hasSideEffects k = true
  · simp [hse] at hc
  · simpa using hse

/-- the identifier the rule produces spells exactly the key's bytes -/
theorem validIdentifier_bytes {s : List UInt8} {name : String} (h : validIdentifier s = some name) :
    name.toUTF8.toList = s := by
  unfold validIdentifier at h
  split at h
  · rename_i hc
    simp only [Bool.and_eq_true] at hc
    simp only [Option.some.injEq] at h
    subst h
    exact Utf8.ascii_utf8 s hc.1.1.2
  · simp at h

theorem key_eval {N : NumOps} {api : EvalApi} {good : Expr → Prop} (hs : EvalSound N api good) {k : Expr} {name : String}
    (hk : KeyOk api good k name) (call : CallFn N) (ρ : ExtOracle N) (n : Nat) (env : Env N)
    (σ σ' : State N) (vs : List (Val N)) (h : evalE call ρ n env k σ = .ok vs σ') :
    σ' = σ ∧ first vs = strVal name := by
  have hc := hk.conv
  simp only [convertToField, hk.pure, Bool.false_eq_true, if_false] at hc
  cases hkind : api.kind k with
  | string s =>
    refine ⟨hs.pure k hk.good hk.pure hk.noAlloc call ρ n env σ σ' vs h, ?_⟩
    rw [hkind] at hc
    rw [hs.str k s hk.good hkind call ρ n env σ σ' vs h, strVal, validIdentifier_bytes hc]
  | _ => simp [hkind] at hc

theorem index_refines {N : NumOps} {api : EvalApi} {good : Expr → Prop} (hs : EvalSound N api good) {p k : Expr} {name : String}
    (hk : KeyOk api good k name) (call : CallFn N) (ρ : ExtOracle N) (n : Nat) (env : Env N)
    (σ σ' : State N) (vs : List (Val N)) (h : evalE call ρ n env (.index p k) σ = .ok vs σ') :
    evalE call ρ n env (convertIndex api (.index p k)) σ = .ok vs σ' := by
  simp only [convertIndex, hk.conv, evalE] at h ⊢
  cases hp : evalE call ρ n env p σ with
  | timeout => simp [hp, Res.bind] at h
  | err v σ1 => simp [hp, Res.bind] at h
  | ok ps σ1 =>
    simp only [hp, Res.bind] at h ⊢
    cases hkv : evalE call ρ n env k σ1 with
    | timeout => simp [hkv] at h
    | err v σ2 => simp [hkv] at h
    | ok ks σ2 =>
      obtain ⟨rfl, hv⟩ := key_eval hs hk call ρ n env σ1 σ2 ks hkv
      simpa [hkv, hv] using h

theorem target_refines {N : NumOps} {api : EvalApi} {good : Expr → Prop} (hs : EvalSound N api good) {p k : Expr} {name : String}
    (hk : KeyOk api good k name) (call : CallFn N) (ρ : ExtOracle N) (n : Nat) (env : Env N)
    (σ σ' : State N) (tg : Target N) (h : evalTarget call ρ n env (.index p k) σ = .ok tg σ') :
    evalTarget call ρ n env (convertIndex api (.index p k)) σ = .ok tg σ' := by
  simp only [convertIndex, hk.conv, evalTarget] at h ⊢
  cases hp : evalE call ρ n env p σ with
  | timeout => simp [hp, Res.bind] at h
  | err v σ1 => simp [hp, Res.bind] at h
  | ok ps σ1 =>
    simp only [hp, Res.bind] at h ⊢
    cases hkv : evalE call ρ n env k σ1 with
    | timeout => simp [hkv] at h
    | err v σ2 => simp [hkv] at h
    | ok ks σ2 =>
      obtain ⟨rfl, hv⟩ := key_eval hs hk call ρ n env σ1 σ2 ks hkv
      simpa [hkv, hv] using h

/-- one `[key] = value` entry at the head of a constructor -/
theorem entry_refines {N : NumOps} {api : EvalApi} {good : Expr → Prop} (hs : EvalSound N api good) {k v : Expr} {name : String}
    (hk : KeyOk api good k name) (call : CallFn N) (ρ : ExtOracle N) (n : Nat) (env : Env N)
    (t i : Nat) (rest : List Entry) (σ σ' : State N)
    (h : evalEntries call ρ n env t i (.keyed k v :: rest) σ = .ok () σ') :
    evalEntries call ρ n env t i (convertEntry api (.keyed k v) :: rest) σ = .ok () σ' := by
  simp only [convertEntry, hk.conv, evalEntries] at h ⊢
  cases hkv : evalE call ρ n env k σ with
  | timeout => simp [hkv, Res.bind] at h
  | err x σ1 => simp [hkv, Res.bind] at h
  | ok ks σ1 =>
    obtain ⟨rfl, hv⟩ := key_eval hs hk call ρ n env σ σ1 ks hkv
    simp only [hkv, Res.bind] at h
    cases hvv : evalE call ρ n env v σ1 with
    | timeout => simp [hvv] at h
    | err x σ2 => simp [hvv] at h
    | ok ws σ2 =>
      simp only [hvv, Res.bind, hv, strVal] at h ⊢
      exact h

end Sound

end DarkluaModel.Rules.ConvertIndexToField
