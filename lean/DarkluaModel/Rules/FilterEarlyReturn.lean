import DarkluaModel.Shared.Visitor
import DarkluaModel.Shared.Run
/-!
# `filter_after_early_return` (`src/rules/filter_early_return.rs`)

`Processor::search_remove_after(block)`: index of the first statement that is a `do` block
which certainly returns — its own last statement is a `return` (a `break`/`continue` there
means "not this one, keep looking"), or, when it has no last statement, one of its statements
is again such a `do` (recursively). `process_block`: when found at index `i`, the block's last
statement is dropped and the statements are truncated to `i + 1`. One `DefaultVisitor` pass.
-/
namespace DarkluaModel.Rules.FilterEarlyReturn

mutual
  /-- `search_remove_after(inner_block).is_some()` / the `return` test, for the block of a `do` -/
  def stops : Block → Bool
    | .mk stmts last =>
      match last with
      | some (.ret _) => true
      | some _ => false
      | none => stopsAny stmts
  /-- does `search_remove_after` find something in this statement list? -/
  def stopsAny : List Stmt → Bool
    | [] => false
    | s :: rest =>
      (match s with
        | .doBlock b => stops b
        | _ => false) || stopsAny rest
end

/-- does `find_map`'s closure answer `Some(i)` on this statement? -/
def stopsStmt : Stmt → Bool
  | .doBlock b => stops b
  | _ => false

/-- `search_remove_after`, as the number of statements to keep (`i + 1`) -/
def keepCount : List Stmt → Option Nat
  | [] => none
  | s :: rest =>
    if stopsStmt s then some 1
    else match keepCount rest with
      | some n => some (n + 1)
      | none => none

def processBlock : Block → Unit → Block × Unit
  | .mk stmts last, u =>
    match keepCount stmts with
    | some n => (.mk (stmts.take n) none, u)
    | none => (.mk stmts last, u)

def processor : Processor Unit := { block := processBlock }

/-- `flawless_process` -/
def apply (b : Block) : Block := (Visitor.runDefault processor b ()).1

/-! ### local soundness (exact) -/
open Sem

def Ctl.isNext {N : NumOps} : Ctl N → Bool
  | .next _ => true
  | _ => false

theorem stopsAny_cons (s : Stmt) (rest : List Stmt) :
    stopsAny (s :: rest) = (stopsStmt s || stopsAny rest) := by
  cases s <;> simp [stopsAny, stopsStmt]

mutual
  /-- a block that `stops` never falls through -/
  theorem stops_not_next {N : NumOps} (call : CallFn N) (ρ : ExtOracle N) (k : Nat) (env : Env N)
      (b : Block) (hb : stops b = true) (σ σ' : State N) (c : Ctl N)
      (h : execB call ρ k env b σ = .ok c σ') : Ctl.isNext c = false := by
    match b with
    | .mk stmts last =>
      simp only [execB] at h
      cases hx : execSs call ρ k env stmts σ with
      | timeout => simp [hx, Res.bind] at h
      | err v σ1 => simp [hx, Res.bind] at h
      | ok c1 σ1 =>
        simp only [hx, Res.bind] at h
        match last, hb with
        | some (.ret es), _ =>
          cases c1 with
          | next env' =>
            simp only [execLast] at h
            cases hy : evalEs call ρ k env' es σ1 with
            | timeout => simp [hy, Res.bind] at h
            | err v σ2 => simp [hy, Res.bind] at h
            | ok vs σ2 =>
              simp [hy, Res.bind] at h
              rw [← h.1]; rfl
          | brk => simp at h; rw [← h.1]; rfl
          | cont e => simp at h; rw [← h.1]; rfl
          | ret vs => simp at h; rw [← h.1]; rfl
        | some .brk, hb => simp [stops] at hb
        | some .cont, hb => simp [stops] at hb
        | none, hb =>
          have hs : stopsAny stmts = true := by simpa [stops] using hb
          have := stopsAny_not_next call ρ k stmts hs env σ σ1 c1 hx
          cases c1 with
          | next env' => simp [Ctl.isNext] at this
          | brk => simp at h; rw [← h.1]; rfl
          | cont e => simp at h; rw [← h.1]; rfl
          | ret vs => simp at h; rw [← h.1]; rfl

  theorem stopsAny_not_next {N : NumOps} (call : CallFn N) (ρ : ExtOracle N) (k : Nat)
      (stmts : List Stmt) (hs : stopsAny stmts = true) (env : Env N) (σ σ' : State N) (c : Ctl N)
      (h : execSs call ρ k env stmts σ = .ok c σ') : Ctl.isNext c = false := by
    match stmts with
    | [] => simp [stopsAny] at hs
    | s :: rest =>
      simp only [execSs] at h
      cases hx : execS call ρ k env s σ with
      | timeout => simp [hx, Res.bind] at h
      | err v σ1 => simp [hx, Res.bind] at h
      | ok c1 σ1 =>
        simp only [hx, Res.bind] at h
        cases c1 with
        | brk => simp at h; rw [← h.1]; rfl
        | cont e => simp at h; rw [← h.1]; rfl
        | ret vs => simp at h; rw [← h.1]; rfl
        | next env' =>
          simp only at h
          -- `s` fell through, so it is not the stopping statement
          have hrest : stopsAny rest = true := by
            match s, hs, hx with
            | .doBlock b, hs, hx =>
              simp only [stopsAny, Bool.or_eq_true] at hs
              cases hs with
              | inr hr => exact hr
              | inl hb =>
                exfalso
                simp only [execS] at hx
                cases hy : execB call ρ k env b σ with
                | timeout => simp [hy, Res.bind] at hx
                | err v σ2 => simp [hy, Res.bind] at hx
                | ok c2 σ2 =>
                  have := stops_not_next call ρ k env b hb σ σ2 c2 hy
                  cases c2 <;> simp [hy, Res.bind, Ctl.isNext] at hx this
            | .assign _ _, hs, _ | .cassign _ _ _, hs, _ | .callStmt _, hs, _ | .function _ _ _, hs, _
            | .gfor _ _ _, hs, _ | .nfor _ _ _ _ _, hs, _ | .ifs _ _, hs, _ | .localAssign _ _ _, hs, _
            | .localFn _ _ _, hs, _ | .repeat_ _ _, hs, _ | .while_ _ _, hs, _ | .typeDecl _ _ _, hs, _
            | .typeFn _ _ _, hs, _ => simpa [stopsAny] using hs
          exact stopsAny_not_next call ρ k rest hrest env' σ1 σ' c h
end

theorem stopsStmt_not_next {N : NumOps} (call : CallFn N) (ρ : ExtOracle N) (k : Nat) (env : Env N)
    (s : Stmt) (hs : stopsStmt s = true) (σ σ' : State N) (c : Ctl N)
    (h : execS call ρ k env s σ = .ok c σ') : Ctl.isNext c = false := by
  cases s with
  | doBlock b =>
    simp only [execS] at h
    cases hy : execB call ρ k env b σ with
    | timeout => simp [hy, Res.bind] at h
    | err v σ2 => simp [hy, Res.bind] at h
    | ok c2 σ2 =>
      have := stops_not_next call ρ k env b (by simpa [stopsStmt] using hs) σ σ2 c2 hy
      cases c2 <;> simp [hy, Res.bind, Ctl.isNext] at h this <;> (rw [← h.1]; rfl)
  | _ => simp [stopsStmt] at hs

/-- the statements after the stopping `do` and the block's last statement are dead:
exact equality of the denotations -/
theorem execB_truncate {N : NumOps} (call : CallFn N) (ρ : ExtOracle N) (k : Nat)
    (stmts : List Stmt) (last : Option Last) (n : Nat) (hk : keepCount stmts = some n)
    (env : Env N) (σ : State N) :
    execB call ρ k env (.mk (stmts.take n) none) σ = execB call ρ k env (.mk stmts last) σ := by
  induction stmts generalizing n env σ with
  | nil => simp [keepCount] at hk
  | cons s rest ih =>
    simp only [keepCount] at hk
    by_cases hs : stopsStmt s = true
    · simp only [hs, if_true, Option.some.injEq] at hk
      subst hk
      simp only [List.take, execB, execSs]
      cases hx : execS call ρ k env s σ with
      | timeout => simp [Res.bind]
      | err v σ1 => simp [Res.bind]
      | ok c σ1 =>
        have := stopsStmt_not_next call ρ k env s hs σ σ1 c hx
        cases c <;> simp [Res.bind, Ctl.isNext] at this ⊢
    · simp only [hs] at hk
      cases hr : keepCount rest with
      | none => simp [hr] at hk
      | some m =>
        simp [hr] at hk
        subst hk
        have ih' := ih m hr
        simp only [List.take, execB, execSs] at ih' ⊢
        cases hx : execS call ρ k env s σ with
        | timeout => simp [Res.bind]
        | err v σ1 => simp [Res.bind]
        | ok c σ1 =>
          cases c with
          | next env' => simpa [Res.bind] using ih' env' σ1
          | _ => simp [Res.bind]

/-- the block hook is exactly semantics preserving, in every context -/
theorem processBlock_sound {N : NumOps} (call : CallFn N) (ρ : ExtOracle N) (k : Nat) (env : Env N)
    (b : Block) (σ : State N) :
    execB call ρ k env (processBlock b ()).1 σ = execB call ρ k env b σ := by
  cases b with
  | mk stmts last =>
    simp only [processBlock]
    cases hk : keepCount stmts with
    | none => rfl
    | some n => exact execB_truncate call ρ k stmts last n hk env σ

end DarkluaModel.Rules.FilterEarlyReturn
