import DarkluaModel.Rules.LuauCommon
/-!
# `remove_attribute` with no `match` filter (`src/rules/remove_attribute.rs`)

`RemoveAttributeProcessor` (with `DefaultVisitor`): `process_function_statement`,
`process_local_function_statement`, `process_function_expression` clear the attributes.
(The `match` variant — `FilterAttributeProcessor` — keeps the attributes whose names match no
pattern; property C07 is about the unfiltered rule.)
-/
namespace DarkluaModel.Rules.RemoveAttribute

def clearAttrs : FnBody → FnBody
  | .mk params variadic varTy ret generics _ body => .mk params variadic varTy ret generics [] body

def stmtNode : Stmt → Stmt
  | .function name m body => .function name m (clearAttrs body)
  | .localFn k name body => .localFn k name (clearAttrs body)
  | st => st

def node : Expr → Expr
  | .fn body => .fn (clearAttrs body)
  | e => e

def processor : Processor Unit where
  stmtNode := fun st s => (stmtNode st, s)
  node := fun e s => (node e, s)

def apply (b : Block) : Block := (Visitor.runDefault processor b ()).1

end DarkluaModel.Rules.RemoveAttribute
