import DarkluaModel.Shared.Visitor
import DarkluaModel.Shared.Run
/-!
# `remove_empty_do` (`src/rules/empty_do.rs`)

`EmptyDoFilter::process_block` filters the statements of every block, dropping `do end`
statements whose block `is_empty()` (no statement, no last statement). The `mutated` flag
is OVERWRITTEN at every `do` statement met (it is the emptiness of the last `do` seen, not
"something was removed") — modelled as is. The rule repeats passes of `DefaultVisitor`
while the flag is set.
-/
namespace DarkluaModel.Rules.EmptyDo

def blockIsEmpty : Block → Bool
  | .mk [] none => true
  | _ => false

/-- `Block::filter_statements` with the closure of `EmptyDoFilter::process_block` -/
def filterStmts : List Stmt → Bool → List Stmt × Bool
  | [], m => ([], m)
  | .doBlock b :: rest, _ =>
    if blockIsEmpty b then filterStmts rest true
    else
      let (r, m') := filterStmts rest false
      (.doBlock b :: r, m')
  | s :: rest, m =>
    let (r, m') := filterStmts rest m
    (s :: r, m')

def processBlock : Block → Bool → Block × Bool
  | .mk stmts last, m => let (stmts', m') := filterStmts stmts m; (.mk stmts' last, m')

def processor : Processor Bool := { block := processBlock }

/-- one `DefaultVisitor::visit_block` pass with a fresh `EmptyDoFilter` -/
def pass (b : Block) : Block × Bool := Visitor.runDefault processor b false

/-- `flawless_process`: repeat while the last pass reported a mutation -/
def loop : Nat → Block → Block
  | 0, b => b
  | n + 1, b =>
    let (b', mutated) := pass b
    if mutated then loop n b' else b'

def apply (b : Block) : Block := loop (b.size + 1) b

/-! ### local soundness (exact): the block hook does not change what the block does -/

open Sem

theorem exec_empty_do {N : NumOps} (call : CallFn N) (ρ : ExtOracle N) (k : Nat) (env : Env N)
    (b : Block) (h : blockIsEmpty b = true) (σ : State N) :
    execS call ρ k env (.doBlock b) σ = .ok (.next env) σ := by
  match b, h with
  | .mk [] none, _ => simp [execS, execB, execSs, Res.bind]

theorem execSs_filter {N : NumOps} (call : CallFn N) (ρ : ExtOracle N) (k : Nat)
    (stmts : List Stmt) (m : Bool) (env : Env N) (σ : State N) :
    execSs call ρ k env (filterStmts stmts m).1 σ = execSs call ρ k env stmts σ := by
  induction stmts generalizing m env σ with
  | nil => simp [filterStmts]
  | cons s rest ih =>
    cases s with
    | doBlock b =>
      by_cases hb : blockIsEmpty b = true
      · simp only [filterStmts, hb, if_true]
        rw [ih]
        simp [execSs, exec_empty_do call ρ k env b hb, Res.bind]
      · simp only [filterStmts, hb]
        simp only [Bool.false_eq_true, if_false, execSs]
        congr 1
        funext c σ'
        cases c <;> simp [ih]
    | _ =>
      simp only [filterStmts, execSs]
      congr 1
      funext c σ'
      cases c <;> simp [ih]

/-- the block hook is exactly semantics preserving, in every context and processor state -/
theorem processBlock_sound {N : NumOps} (call : CallFn N) (ρ : ExtOracle N) (k : Nat) (env : Env N)
    (b : Block) (m : Bool) (σ : State N) :
    execB call ρ k env (processBlock b m).1 σ = execB call ρ k env b σ := by
  cases b with
  | mk stmts last => simp [processBlock, execB, execSs_filter]

end DarkluaModel.Rules.EmptyDo
