import DarkluaModel.Shared.Visitor
import DarkluaModel.Shared.Run
import DarkluaModel.Rules.FindVariables
/-!
# `convert_local_function_to_assign` (`src/rules/no_local_function.rs`)

`Processor::process_statement` (pre-order, `DefaultVisitor`): `local function f(params) body end`
becomes `local f = function(params) body end` when
* `f` is one of its own parameters (every `f` in the body is then the parameter), or
* `FindVariables(f)` does not fire on the body block (syntactic: any identifier `f` in the
  body, shadowed or not, blocks the conversion; parameter types are not looked at).

`convert` builds the function expression from the block, the parameters (with their types) and
the `is_variadic` flag only: the variadic type, the return type, the generic parameters and the
attributes of the local function are DROPPED (no run-time meaning). The assignment kind is kept.
-/
namespace DarkluaModel.Rules.NoLocalFunction
open FindVariables

def hasParameter (name : String) : FnBody → Bool
  | .mk params _ _ _ _ _ _ => params.any fun p => p.name == name

def bodyBlock : FnBody → Block
  | .mk _ _ _ _ _ _ b => b

/-- `convert` -/
def convert (kind : LocalKind) (name : String) : FnBody → Stmt
  | .mk params variadic _ _ _ _ body =>
    .localAssign kind [.mk name none] [.fn (.mk params variadic none none [] [] body)]

/-- the side condition of `process_statement` -/
def converts (name : String) (body : FnBody) : Bool :=
  hasParameter name body || !(mB [name] (bodyBlock body))

def processStatement : Stmt → Unit → Stmt × Unit
  | .localFn kind name body, u => if converts name body then (convert kind name body, u) else (.localFn kind name body, u)
  | s, u => (s, u)

def processor : Processor Unit := { stmt := processStatement }

/-- `flawless_process`: one `DefaultVisitor` pass -/
def apply (b : Block) : Block := (Visitor.runDefault processor b ()).1

end DarkluaModel.Rules.NoLocalFunction
