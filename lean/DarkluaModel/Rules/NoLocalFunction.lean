import DarkluaModel.Shared.Visitor
import DarkluaModel.Shared.Run
import DarkluaModel.Rules.FindVariables
import DarkluaModel.Rules.FnErase
/-!
# `convert_local_function_to_assign` (`src/rules/no_local_function.rs`)

`Processor::process_statement` (pre-order, `DefaultVisitor`): `local function f(params) body end`
becomes `local f = function(params) body end` when
* `f` is one of its own parameters (every `f` in the body is then the parameter), or
* `FindVariables(f)` does not fire on the body block (syntactic: any identifier `f` in the
  body, shadowed or not, blocks the conversion; parameter types are not looked at).

`convert` builds the function expression from the block, the parameters (with their types) and
the `is_variadic` flag only: the variadic type, the return type, the generic parameters and the
attributes of the local function are DROPPED (no run-time meaning). The assignment kind is kept.
-/
namespace DarkluaModel.Rules.NoLocalFunction
open FindVariables

def hasParameter (name : String) : FnBody → Bool
  | .mk params _ _ _ _ _ _ => params.any fun p => p.name == name

def bodyBlock : FnBody → Block
  | .mk _ _ _ _ _ _ b => b

/-- `convert` -/
def convert (kind : LocalKind) (name : String) (body : FnBody) : Stmt :=
  .localAssign kind [.mk name none] [.fn (erase body)]

/-- the side condition of `process_statement` -/
def converts (name : String) (body : FnBody) : Bool :=
  hasParameter name body || !(mB [name] (bodyBlock body))

def processStatement : Stmt → Unit → Stmt × Unit
  | .localFn kind name body, u => if converts name body then (convert kind name body, u) else (.localFn kind name body, u)
  | s, u => (s, u)

def processor : Processor Unit := { stmt := processStatement }

/-- `flawless_process`: one `DefaultVisitor` pass -/
def apply (b : Block) : Block := (Visitor.runDefault processor b ()).1

/-! ### local soundness against `Shared/Sem.lean`

`Sem.execS (.localFn …)` allocates the cell, THEN the closure (which captures the cell: recursion),
then stores the closure in the cell. `local f = function … end` allocates the closure first
(capturing the environment WITHOUT `f`), then the cell. Same cell number, same closure number, same
control outcome, same cells/tables/globals/trace; the only difference is the captured environment
of that one closure: it lacks the binding `(f, cell)` (`processStatement_step`). A call of the
closure binds the parameters on top of the captured environment, and then every name other than
`f` — and `f` too when it is a parameter — resolves identically (`call_locals_agree`); the rule's
side condition `converts` (own parameter, or `FindVariables(f)` silent on the body) says exactly
that no other lookup happens. Lifting "never looked up" through nested closures (which capture
the larger environment again) is a whole-evaluator simulation and is NOT proved here; the
execution oracle covers it. -/

open Sem
section
variable {N : NumOps} (call : CallFn N) (ρ : ExtOracle N) (k : Nat) (env : Env N)

theorem listSet_append_last {α : Type} (xs : List α) (a b : α) : listSet (xs ++ [a]) xs.length b = xs ++ [b] := by
  induction xs with
  | nil => rfl
  | cons x xs ih => simp [listSet, ih]

/-- `local function f … end`: the cell exists before the closure is created, so the closure captures it -/
theorem execS_localFn (kind : LocalKind) (f : String) (body : FnBody) (σ : State N) :
    execS call ρ k env (.localFn kind f body) σ =
      .ok (.next ⟨(f, σ.cells.length) :: env.locals, env.varargs⟩)
        { σ with cells := σ.cells ++ [.fn σ.closures.length]
                 closures := σ.closures ++ [⟨body, (f, σ.cells.length) :: env.locals, []⟩] } := by
  simp [execS, State.allocCell, State.allocClosure, State.setCell, listSet_append_last]

/-- `local f = function … end`: the closure is created first and does not capture the new cell -/
theorem execS_localAssign_fn (kind : LocalKind) (f : String) (fb : FnBody) (σ : State N) :
    execS call ρ k env (.localAssign kind [.mk f none] [.fn fb]) σ =
      .ok (.next ⟨(f, σ.cells.length) :: env.locals, env.varargs⟩)
        { σ with cells := σ.cells ++ [.fn σ.closures.length]
                 closures := σ.closures ++ [⟨fb, env.locals, []⟩] } := by
  simp [execS, evalEs, evalE, Res.bind, bindLocals, State.allocCell, State.allocClosure, TName.name, first]

/-- `bindLocals` only prepends to the environment it is given -/
theorem bindLocals_prefix (ns : List String) (vals : List (Val N)) (e : List (String × Nat)) (σ : State N) :
    bindLocals ns vals e σ = ((bindLocals ns vals [] σ).1 ++ e, (bindLocals ns vals [] σ).2) := by
  induction ns generalizing vals e σ with
  | nil => simp [bindLocals]
  | cons n ns ih =>
    simp only [bindLocals]
    rw [ih (vals.drop 1) ((n, _) :: e), ih (vals.drop 1) [(n, _)]]
    simp

theorem lookupAssoc_append {α : Type} (x : String) (a b : List (String × α)) :
    lookupAssoc x (a ++ b) = match lookupAssoc x a with | some v => some v | none => lookupAssoc x b := by
  induction a with
  | nil => simp [lookupAssoc]
  | cons p a ih =>
    obtain ⟨k', v⟩ := p
    by_cases h : (k' == x) = true <;> simp [lookupAssoc, h, ih]

theorem keys_bindLocals (ns : List String) (vals : List (Val N)) (σ : State N) (x : String) (hx : x ∈ ns) :
    (lookupAssoc x (bindLocals ns vals [] σ).1).isSome = true := by
  induction ns generalizing vals σ with
  | nil => cases hx
  | cons n ns ih =>
    simp only [bindLocals]
    rw [bindLocals_prefix]
    simp only [lookupAssoc_append]
    by_cases hm : x ∈ ns
    · have := ih (vals.drop 1) (σ.allocCell (first vals)).2 hm
      revert this
      generalize lookupAssoc x (bindLocals ns (vals.drop 1) [] (σ.allocCell (first vals)).2).1 = o
      intro this
      cases o with
      | some v => simp
      | none => simp at this
    · have hxn : x = n := by
        cases hx with
        | head => rfl
        | tail _ h => exact absurd h hm
      subst hxn
      cases lookupAssoc x (bindLocals ns (vals.drop 1) [] (σ.allocCell (first vals)).2).1 <;> simp [lookupAssoc]

/-- What a call of the converted closure sees. The closure of `local function f` captures
`(f, c) :: locals`, the closure of `local f = function` captures `locals`. After binding the
parameters the two environments answer every lookup identically, except for the name `f` itself
when it is not a parameter — and then `converts` guarantees the body never mentions `f`
(`FindVariables`). The state after binding is the same. -/
theorem call_locals_agree (names : List String) (args : List (Val N)) (f : String) (c : Nat)
    (locals : List (String × Nat)) (σ : State N) :
    (bindLocals names args ((f, c) :: locals) σ).2 = (bindLocals names args locals σ).2 ∧
    ∀ x, (x ≠ f ∨ x ∈ names) →
      lookupAssoc x (bindLocals names args ((f, c) :: locals) σ).1 = lookupAssoc x (bindLocals names args locals σ).1 := by
  rw [bindLocals_prefix names args ((f, c) :: locals), bindLocals_prefix names args locals]
  refine ⟨rfl, fun x hx => ?_⟩
  simp only [lookupAssoc_append]
  cases hl : lookupAssoc x (bindLocals names args [] σ).1 with
  | some v => rfl
  | none =>
    cases hx with
    | inl hne =>
      have : (f == x) = false := by simpa using fun h => hne h.symm
      simp [lookupAssoc, this]
    | inr hmem =>
      have := keys_bindLocals names args σ x hmem
      simp [hl] at this

/-- the hook: exact description of both sides. The control outcome and every part of the state are
equal except the captured environment of the ONE new closure (and its erased annotations). -/
theorem processStatement_step (kind : LocalKind) (f : String) (body : FnBody) (σ : State N)
    (hc : converts f body = true) :
    let c := σ.cells.length
    let env' : Env N := ⟨(f, c) :: env.locals, env.varargs⟩
    let cells' := σ.cells ++ [Val.fn σ.closures.length]
    execS call ρ k env (.localFn kind f body) σ =
        .ok (.next env') { σ with cells := cells', closures := σ.closures ++ [⟨body, (f, c) :: env.locals, []⟩] } ∧
    execS call ρ k env (processStatement (.localFn kind f body) ()).1 σ =
        .ok (.next env') { σ with cells := cells', closures := σ.closures ++ [⟨erase body, env.locals, []⟩] } := by
  refine ⟨execS_localFn call ρ k env kind f body σ, ?_⟩
  simp only [processStatement, hc, if_true, convert]
  exact execS_localAssign_fn call ρ k env kind f (erase body) σ

end

end DarkluaModel.Rules.NoLocalFunction
