import DarkluaModel.Rules.RemoveCompoundAssign
/-!
# `remove_floor_division` (`src/rules/remove_floor_division.rs`)

With `ScopeVisitor`: `process_statement` hands a `target //= value` statement to
`RemoveCompoundAssignment::replace_compound_assignment` (a NESTED scope-visitor run that uses the
identifier tracker of this processor, which lowers every compound assignment inside that statement,
whatever its operator);
`process_expression` turns `a // b` into `math.floor(a / b)`, or `__DARKLUA_MATH_FLOOR(a / b)`
when `math` is a declared local at that point (then `local __DARKLUA_MATH_FLOOR = math.floor`
is added at the top of the file).
-/
namespace DarkluaModel.Rules.RemoveFloorDivision
open DarkluaModel.Rules

structure State where
  tracker : Tracker := {}
  defineFloor : Bool := false
  deriving Repr

def floorName : String := "__DARKLUA_MATH_FLOOR"

/-- `build_math_floor_call` -/
def buildFloorCall (value : Expr) (s : State) : Expr × State :=
  if s.tracker.isUsed "math" then (.call (.var floorName) none .tuple [value], { s with defineFloor := true })
  else (.call (.field (.var "math") "floor") none .tuple [value], s)

/-- `process_statement`: the nested lowering runs with THIS processor's identifier tracker (moved
into the nested processor and back — fix of finding F28) -/
def processStatement : Stmt → State → Stmt × State
  | .cassign .idiv t v, s =>
    ((RemoveCompoundAssign.replaceCompoundAssignment (.cassign .idiv t v) s.tracker).1,
     { s with tracker := (RemoveCompoundAssign.replaceCompoundAssignment (.cassign .idiv t v) s.tracker).2 })
  | st, s => (st, s)

theorem processStatement_idiv (t v : Expr) (s : State) :
    (processStatement (.cassign .idiv t v) s).1
      = (Visitor.visitStmt RemoveCompoundAssign.processor true (8 * (Stmt.cassign .idiv t v).size + 64)
          (.cassign .idiv t v) s.tracker).1 := rfl

/-- `process_expression` -/
def processExpression : Expr → State → Expr × State
  | .bin .idiv l r, s => buildFloorCall (.bin .div l r) s
  | e, s => (e, s)

def onTracker (f : Tracker → Tracker) (s : State) : State := { s with tracker := f s.tracker }

def processor : Processor State where
  stmt := processStatement
  expr := processExpression
  push := onTracker Tracker.push
  pop := onTracker Tracker.pop
  insert := fun n s => (n, onTracker (·.insertIdentifier n) s)
  insertSelf := onTracker (·.insertIdentifier "self")
  insertLocal := fun n e s => ((n, e), onTracker (·.insertIdentifier n) s)
  insertLocalFn := fun n s => (n, onTracker (·.insertIdentifier n) s)

def definition : Stmt :=
  .localAssign .loc [.mk floorName none] [.field (.var "math") "floor"]

/-- `flawless_process` -/
def apply (b : Block) : Block :=
  let (b1, s) := Visitor.runScoped processor b {}
  if s.defineFloor then insertFirst definition b1 else b1

end DarkluaModel.Rules.RemoveFloorDivision
