import DarkluaModel.Rules.EvalC08Total
import DarkluaModel.Shared.VisitorSound.HeapU.UDrop
/-!
# The real evaluator on expressions whose evaluation cannot fail but may ALLOCATE

`totA E e` is `tot E e` plus function expressions and table constructors of allocation-only content
(`Expr.allocPure`): `{}`, `not {}`, `{1, 2} and 1`, `function() end`. The evaluation of such an expression
succeeds with one value in a state that is the initial one plus allocations (`StExt`): `totA_total`.
`gApiA N E` is `c08Api N E` restricted to `h8 ∧ totA`; it meets `EvalTotalA` (the allocation-tolerant form of
`EvalTotal`) at every `N` with `C08.Agree N E`.
-/
namespace DarkluaModel.Rules
open DarkluaModel.Evaluator DarkluaModel.Sem
open DarkluaModel.Sem.HeapU (StExt)

variable {N : NumOps}

/-- the allocation-tolerant form of `EvalTotal`: a decided, side-effect-free expression evaluates — unless the
budget runs out — successfully, and the state only grows by allocations -/
structure EvalTotalA (N : NumOps) (api : EvalApi) : Prop where
  decided : ∀ (e : Expr) (b : Bool), api.isTruthy e = some b →
    ∀ (call : CallFn N) (ρ : ExtOracle N) (k : Nat) (env : Env N) (σ σ' : State N) (vs : List (Val N)),
      evalE call ρ k env e σ = .ok vs σ' → (first vs).truthy = b
  pureAlloc : ∀ (e : Expr) (b : Bool), api.isTruthy e = some b → api.hasSideEffects e = false →
    ∀ (call : CallFn N) (ρ : ExtOracle N) (k : Nat) (env : Env N) (σ : State N),
      evalE call ρ k env e σ = .timeout ∨ ∃ vs σ1, evalE call ρ k env e σ = .ok vs σ1 ∧ StExt σ σ1

theorem EvalTotal.toA {api : EvalApi} (h : EvalTotal N api) : EvalTotalA N api where
  decided := h.decided
  pureAlloc e b hb hse call ρ k env σ :=
    (h.pureTotal e b hb hse call ρ k env σ).elim .inl fun ⟨vs, hv⟩ => .inr ⟨vs, σ, hv, StExt.refl σ⟩

/-- the evaluation of `e` cannot fail and calls nothing (it may allocate tables and closures) -/
def totA (E : EvalOps N) : Expr → Bool
  | .nil | .true | .false | .num _ | .str _ => true
  | .fn _ => true
  | .table es => Entry.allocPureList es
  | .paren e => totA E e
  | .cast e _ => totA E e
  | .un .not e => totA E e
  | .un .neg e => totA E e && isNum (evaluate E e)
  | .un .len e => totA E e && isStr (evaluate E e)
  | .bin .and l r =>
    totA E l && (match (evaluate E l).isTruthy with | some true => totA E r | some false => true | none => false)
  | .bin .or l r =>
    totA E l && (match (evaluate E l).isTruthy with | some true => true | some false => totA E r | none => false)
  | .bin .eq l r | .bin .ne l r => totA E l && totA E r && isPrim (evaluate E l) && isPrim (evaluate E r)
  | .bin .add l r | .bin .sub l r | .bin .mul l r | .bin .div l r | .bin .mod l r | .bin .pow l r | .bin .idiv l r =>
    totA E l && totA E r && isNum (evaluate E l) && isNum (evaluate E r)
  | .bin .concat l r => totA E l && totA E r && isStr (evaluate E l) && isStr (evaluate E r)
  | .bin .lt l r | .bin .le l r | .bin .gt l r | .bin .ge l r =>
    totA E l && totA E r &&
      ((isNum (evaluate E l) && isNum (evaluate E r)) || (isStr (evaluate E l) && isStr (evaluate E r)))
  | _ => false

section
variable (call : CallFn N) (ρ : ExtOracle N) (k : Nat) (env : Env N)

theorem un_step {op : UnOp} {e : Expr} {a w : Val N} {σ σ1 : State N} (he : evalE call ρ k env e σ = .ok [a] σ1)
    (hw : unopVal call ρ k op a σ1 = .ok w σ1) : evalE call ρ k env (.un op e) σ = .ok [w] σ1 := by
  simp [evalE, he, Res.bind, first, hw]

theorem bin_step {op : BinOp} {l r : Expr} {a b w : Val N} {σ σ1 σ2 : State N} (h1 : op ≠ .and) (h2 : op ≠ .or)
    (hl : evalE call ρ k env l σ = .ok [a] σ1) (hr : evalE call ρ k env r σ1 = .ok [b] σ2)
    (hw : binopVal call ρ k op a b σ2 = .ok w σ2) : evalE call ρ k env (.bin op l r) σ = .ok [w] σ2 := by
  cases op <;> first | exact absurd rfl h1 | exact absurd rfl h2 | simp [evalE, hl, hr, Res.bind, first, hw]

theorem binop_num (op : BinOp) (hop : op = .add ∨ op = .sub ∨ op = .mul ∨ op = .div ∨ op = .mod ∨ op = .pow ∨ op = .idiv)
    (x y : N.F) (σ : State N) : ∃ w, binopVal call ρ k op (.num x) (.num y) σ = .ok w σ := by
  rcases hop with rfl | rfl | rfl | rfl | rfl | rfl | rfl <;> exact ⟨_, by simp [binopVal, toNumber?] <;> rfl⟩

theorem binop_rel_num (op : BinOp) (hop : op = .lt ∨ op = .le ∨ op = .gt ∨ op = .ge)
    (x y : N.F) (σ : State N) : ∃ w, binopVal call ρ k op (.num x) (.num y) σ = .ok w σ := by
  rcases hop with rfl | rfl | rfl | rfl <;> exact ⟨_, by simp [binopVal] <;> rfl⟩

theorem binop_rel_str (op : BinOp) (hop : op = .lt ∨ op = .le ∨ op = .gt ∨ op = .ge)
    (x y : List UInt8) (σ : State N) : ∃ w, binopVal call ρ k op (.str x) (.str y) σ = .ok w σ := by
  rcases hop with rfl | rfl | rfl | rfl <;> exact ⟨_, by simp [binopVal] <;> rfl⟩
end

section
variable {E : EvalOps N} (A : C08.Agree N E) (call : CallFn N) (ρ : ExtOracle N) (k : Nat) (env : Env N)
include A

/-- **totality up to allocation**: inside `H8`, a `totA` expression evaluates — in every context — to one value, in a
state that is the initial one plus allocations -/
theorem totA_total : ∀ (e : Expr), C08.h8 E e = true → totA E e = true →
    ∀ (σ : State N), ∃ v σ1, evalE call ρ k env e σ = .ok [v] σ1 ∧ StExt σ σ1
  | .nil, _, _, σ => ⟨_, σ, by simp [evalE] <;> rfl, StExt.refl σ⟩
  | .true, _, _, σ => ⟨_, σ, by simp [evalE] <;> rfl, StExt.refl σ⟩
  | .false, _, _, σ => ⟨_, σ, by simp [evalE] <;> rfl, StExt.refl σ⟩
  | .num _, _, _, σ => ⟨_, σ, by simp [evalE] <;> rfl, StExt.refl σ⟩
  | .str _, _, _, σ => ⟨_, σ, by simp [evalE] <;> rfl, StExt.refl σ⟩
  | .fn f, _, _, σ => by
    obtain ⟨ws, σ1, hw, hx⟩ := HeapU.allocPure_sound (.fn f) rfl N call ρ k env σ
    have hl := C08.single_sound call ρ k env (.fn f) σ σ1 ws rfl hw
    match ws, hl, hw with
    | [v], _, hw => exact ⟨v, σ1, hw, hx⟩
  | .table es, _, ht, σ => by
    obtain ⟨ws, σ1, hw, hx⟩ := HeapU.allocPure_sound (.table es) (by simpa [totA, Expr.allocPure] using ht) N call ρ k env σ
    have hl := C08.single_sound call ρ k env (.table es) σ σ1 ws rfl hw
    match ws, hl, hw with
    | [v], _, hw => exact ⟨v, σ1, hw, hx⟩
  | .paren e, h8, ht, σ => by
    obtain ⟨v, σ1, hv, hx⟩ := totA_total e (by simpa [C08.h8] using h8) (by simpa [totA] using ht) σ
    exact ⟨v, σ1, by simp [evalE, hv, Res.bind, first], hx⟩
  | .cast e _, h8, ht, σ => by
    obtain ⟨v, σ1, hv, hx⟩ := totA_total e (by simpa [C08.h8] using h8) (by simpa [totA] using ht) σ
    exact ⟨v, σ1, by simp [evalE, hv, Res.bind, first], hx⟩
  | .un op e, h8, ht, σ => by
    have h8e : C08.h8 E e = true := by simpa [C08.h8] using h8
    cases op with
    | not =>
      obtain ⟨v, σ1, hv, hx⟩ := totA_total e h8e (by simpa [totA] using ht) σ
      exact ⟨_, σ1, un_step call ρ k env hv (by simp [unopVal] <;> rfl), hx⟩
    | neg =>
      simp only [totA, Bool.and_eq_true] at ht
      obtain ⟨v, σ1, hv, hx⟩ := totA_total e h8e ht.1 σ
      obtain ⟨x, hxv⟩ := isNum_toVal ht.2
      have := val_of_ok A call ρ k env h8e hxv hv
      subst this
      exact ⟨_, σ1, un_step call ρ k env hv (by simp [unopVal, toNumber?] <;> rfl), hx⟩
    | len =>
      simp only [totA, Bool.and_eq_true] at ht
      obtain ⟨v, σ1, hv, hx⟩ := totA_total e h8e ht.1 σ
      obtain ⟨x, hxv⟩ := isStr_toVal ht.2
      have := val_of_ok A call ρ k env h8e hxv hv
      subst this
      exact ⟨_, σ1, un_step call ρ k env hv (by simp [unopVal] <;> rfl), hx⟩
  | .bin op l r, h8, ht, σ => by
    have h8l : C08.h8 E l = true := by
      simp only [C08.h8, Bool.and_eq_true] at h8; exact h8.1.1
    have h8r : C08.h8 E r = true := by
      simp only [C08.h8, Bool.and_eq_true] at h8; exact h8.1.2
    -- both operands, evaluated one after the other
    have both : totA E l = true → totA E r = true →
        ∃ a b σ1 σ2, evalE call ρ k env l σ = .ok [a] σ1 ∧ evalE call ρ k env r σ1 = .ok [b] σ2 ∧ StExt σ σ2 := by
      intro tl tr
      obtain ⟨a, σ1, ha, hx1⟩ := totA_total l h8l tl σ
      obtain ⟨b, σ2, hb, hx2⟩ := totA_total r h8r tr σ1
      exact ⟨a, b, σ1, σ2, ha, hb, hx1.trans hx2⟩
    have arith : ∀ (op : BinOp), (op = .add ∨ op = .sub ∨ op = .mul ∨ op = .div ∨ op = .mod ∨ op = .pow ∨ op = .idiv) →
        totA E l = true → totA E r = true → isNum (evaluate E l) = true → isNum (evaluate E r) = true →
        ∃ v σ1, evalE call ρ k env (.bin op l r) σ = .ok [v] σ1 ∧ StExt σ σ1 := by
      intro op hop tl tr nl nr
      obtain ⟨a, b, σ1, σ2, ha, hb, hx⟩ := both tl tr
      obtain ⟨x, hxv⟩ := isNum_toVal nl
      obtain ⟨y, hyv⟩ := isNum_toVal nr
      have := val_of_ok A call ρ k env h8l hxv ha
      subst this
      have := val_of_ok A call ρ k env h8r hyv hb
      subst this
      obtain ⟨w, hw⟩ := binop_num call ρ k op hop x y σ2
      exact ⟨w, σ2, bin_step call ρ k env (by rcases hop with rfl | rfl | rfl | rfl | rfl | rfl | rfl <;> simp)
        (by rcases hop with rfl | rfl | rfl | rfl | rfl | rfl | rfl <;> simp) ha hb hw, hx⟩
    have rel : ∀ (op : BinOp), (op = .lt ∨ op = .le ∨ op = .gt ∨ op = .ge) →
        totA E l = true → totA E r = true →
        ((isNum (evaluate E l) = true ∧ isNum (evaluate E r) = true) ∨
          (isStr (evaluate E l) = true ∧ isStr (evaluate E r) = true)) →
        ∃ v σ1, evalE call ρ k env (.bin op l r) σ = .ok [v] σ1 ∧ StExt σ σ1 := by
      intro op hop tl tr hk
      obtain ⟨a, b, σ1, σ2, ha, hb, hx⟩ := both tl tr
      have hne1 : op ≠ .and := by rcases hop with rfl | rfl | rfl | rfl <;> simp
      have hne2 : op ≠ .or := by rcases hop with rfl | rfl | rfl | rfl <;> simp
      rcases hk with ⟨nl, nr⟩ | ⟨sl, sr⟩
      · obtain ⟨x, hxv⟩ := isNum_toVal nl
        obtain ⟨y, hyv⟩ := isNum_toVal nr
        have := val_of_ok A call ρ k env h8l hxv ha
        subst this
        have := val_of_ok A call ρ k env h8r hyv hb
        subst this
        obtain ⟨w, hw⟩ := binop_rel_num call ρ k op hop x y σ2
        exact ⟨w, σ2, bin_step call ρ k env hne1 hne2 ha hb hw, hx⟩
      · obtain ⟨x, hxv⟩ := isStr_toVal sl
        obtain ⟨y, hyv⟩ := isStr_toVal sr
        have := val_of_ok A call ρ k env h8l hxv ha
        subst this
        have := val_of_ok A call ρ k env h8r hyv hb
        subst this
        obtain ⟨w, hw⟩ := binop_rel_str call ρ k op hop x y σ2
        exact ⟨w, σ2, bin_step call ρ k env hne1 hne2 ha hb hw, hx⟩
    have eqne : ∀ (op : BinOp), (op = .eq ∨ op = .ne) →
        totA E l = true → totA E r = true → isPrim (evaluate E l) = true → isPrim (evaluate E r) = true →
        ∃ v σ1, evalE call ρ k env (.bin op l r) σ = .ok [v] σ1 ∧ StExt σ σ1 := by
      intro op hop tl tr pl pr
      obtain ⟨a, b, σ1, σ2, ha, hb, hx⟩ := both tl tr
      obtain ⟨x, hxv, hxt⟩ := isPrim_toVal pl
      have := val_of_ok A call ρ k env h8l hxv ha
      subst this
      obtain ⟨w, hw⟩ := binopVal_eq_nontbl call ρ k a b σ2 hxt op hop
      exact ⟨w, σ2, bin_step call ρ k env (by rcases hop with rfl | rfl <;> simp)
        (by rcases hop with rfl | rfl <;> simp) ha hb hw, hx⟩
    cases op with
    | and =>
      simp only [totA, Bool.and_eq_true] at ht
      obtain ⟨a, σ1, ha, hx1⟩ := totA_total l h8l ht.1 σ
      cases htr : (evaluate E l).isTruthy with
      | none => rw [htr] at ht; simp at ht
      | some b =>
        have hb := C08.truthy_sound A call ρ k env l σ σ1 [a] b h8l htr ha
        simp only [first, List.headD] at hb
        cases b with
        | true =>
          rw [htr] at ht
          obtain ⟨c, σ2, hc, hx2⟩ := totA_total r h8r ht.2 σ1
          exact ⟨c, σ2, by simp [evalE, ha, hc, Res.bind, hb, first], hx1.trans hx2⟩
        | false => exact ⟨a, σ1, by simp [evalE, ha, Res.bind, hb, first], hx1⟩
    | or =>
      simp only [totA, Bool.and_eq_true] at ht
      obtain ⟨a, σ1, ha, hx1⟩ := totA_total l h8l ht.1 σ
      cases htr : (evaluate E l).isTruthy with
      | none => rw [htr] at ht; simp at ht
      | some b =>
        have hb := C08.truthy_sound A call ρ k env l σ σ1 [a] b h8l htr ha
        simp only [first, List.headD] at hb
        cases b with
        | true => exact ⟨a, σ1, by simp [evalE, ha, Res.bind, hb, first], hx1⟩
        | false =>
          rw [htr] at ht
          obtain ⟨c, σ2, hc, hx2⟩ := totA_total r h8r ht.2 σ1
          exact ⟨c, σ2, by simp [evalE, ha, hc, Res.bind, hb, first], hx1.trans hx2⟩
    | eq => simp only [totA, Bool.and_eq_true] at ht; exact eqne _ (.inl rfl) ht.1.1.1 ht.1.1.2 ht.1.2 ht.2
    | ne => simp only [totA, Bool.and_eq_true] at ht; exact eqne _ (.inr rfl) ht.1.1.1 ht.1.1.2 ht.1.2 ht.2
    | add => simp only [totA, Bool.and_eq_true] at ht; exact arith _ (by simp) ht.1.1.1 ht.1.1.2 ht.1.2 ht.2
    | sub => simp only [totA, Bool.and_eq_true] at ht; exact arith _ (by simp) ht.1.1.1 ht.1.1.2 ht.1.2 ht.2
    | mul => simp only [totA, Bool.and_eq_true] at ht; exact arith _ (by simp) ht.1.1.1 ht.1.1.2 ht.1.2 ht.2
    | div => simp only [totA, Bool.and_eq_true] at ht; exact arith _ (by simp) ht.1.1.1 ht.1.1.2 ht.1.2 ht.2
    | mod => simp only [totA, Bool.and_eq_true] at ht; exact arith _ (by simp) ht.1.1.1 ht.1.1.2 ht.1.2 ht.2
    | pow => simp only [totA, Bool.and_eq_true] at ht; exact arith _ (by simp) ht.1.1.1 ht.1.1.2 ht.1.2 ht.2
    | idiv => simp only [totA, Bool.and_eq_true] at ht; exact arith _ (by simp) ht.1.1.1 ht.1.1.2 ht.1.2 ht.2
    | concat =>
      simp only [totA, Bool.and_eq_true] at ht
      obtain ⟨a, b, σ1, σ2, ha, hb, hx⟩ := both ht.1.1.1 ht.1.1.2
      obtain ⟨x, hxv⟩ := isStr_toVal ht.1.2
      obtain ⟨y, hyv⟩ := isStr_toVal ht.2
      have := val_of_ok A call ρ k env h8l hxv ha
      subst this
      have := val_of_ok A call ρ k env h8r hyv hb
      subst this
      exact ⟨_, σ2, bin_step call ρ k env (by simp) (by simp) ha hb (by simp [binopVal, toStringPrim?] <;> rfl), hx⟩
    | lt =>
      simp only [totA, Bool.and_eq_true, Bool.or_eq_true] at ht; exact rel _ (by simp) ht.1.1 ht.1.2 ht.2
    | le =>
      simp only [totA, Bool.and_eq_true, Bool.or_eq_true] at ht; exact rel _ (by simp) ht.1.1 ht.1.2 ht.2
    | gt =>
      simp only [totA, Bool.and_eq_true, Bool.or_eq_true] at ht; exact rel _ (by simp) ht.1.1 ht.1.2 ht.2
    | ge =>
      simp only [totA, Bool.and_eq_true, Bool.or_eq_true] at ht; exact rel _ (by simp) ht.1.1 ht.1.2 ht.2
  | .vararg, _, ht, _ | .var _, _, ht, _ | .call _ _ _ _, _, ht, _ | .field _ _, _, ht, _ | .index _ _, _, ht, _
  | .ifx _ _ _ _, _, ht, _ | .interp _, _, ht, _ | .inst _ _, _, ht, _ => by
    simp [totA] at ht

end

/-! ## the guarded evaluator, allocation-tolerant -/

def guardA (E : EvalOps N) (e : Expr) : Bool := C08.h8 E e && totA E e

/-- `c08Api N E` restricted to `guardA` -/
def gApiA (N : NumOps) (E : EvalOps N) : EvalApi where
  kind e := if guardA E e then (c08Api N E).kind e else .unknown
  toExpr e := if guardA E e then (c08Api N E).toExpr e else none
  hasSideEffects e := !guardA E e || (c08Api N E).hasSideEffects e
  canReturnMultiple := (c08Api N E).canReturnMultiple

theorem gApiA_isTruthy {E : EvalOps N} {e : Expr} {b : Bool} (h : (gApiA N E).isTruthy e = some b) :
    guardA E e = true ∧ (evaluate E e).isTruthy = some b := by
  simp only [EvalApi.isTruthy, gApiA] at h
  by_cases hg : guardA E e = true
  · simp only [hg, if_true, c08Api, kindOf_isTruthy] at h; exact ⟨hg, h⟩
  · simp [hg, LuaKind.isTruthy] at h

theorem gApiA_total {E : EvalOps N} (A : C08.Agree N E) : EvalTotalA N (gApiA N E) where
  decided e b hb call ρ k env σ σ' vs h := by
    obtain ⟨hg, ht⟩ := gApiA_isTruthy hb
    simp only [guardA, Bool.and_eq_true] at hg
    exact C08.truthy_sound A call ρ k env e σ σ' vs b hg.1 ht h
  pureAlloc e b hb _ call ρ k env σ := by
    obtain ⟨hg, _⟩ := gApiA_isTruthy hb
    simp only [guardA, Bool.and_eq_true] at hg
    obtain ⟨v, σ1, hv, hx⟩ := totA_total A call ρ k env e hg.1 hg.2 σ
    exact .inr ⟨[v], σ1, hv, hx⟩

end DarkluaModel.Rules
