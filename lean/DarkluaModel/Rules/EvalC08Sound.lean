import DarkluaModel.Rules.EvalC08
import DarkluaModel.C08.Thm
/-!
# `EvalSound` for the C08 evaluator model, from C08's theorems

For every number system `N` and evaluator primitives `E` that agree (`C08.Agree N E`), on the
region `H8` (`C08.h8 E e = true`: findings F1–F4 excluded):
`truthy` ← `C08.truthy_sound`, `str` ← `C08.evaluate_sound_partial`, `single` ← `C08.single_sound`.
`pure` (exact state preservation of a side-effect-free, non-allocating evaluation) ← `C08.pure_sound_noalloc`.
-/
namespace DarkluaModel.Rules
open DarkluaModel.Evaluator DarkluaModel.Sem

theorem c08_sound {N : NumOps} {E : EvalOps N} (A : C08.Agree N E) :
    EvalSound N (c08Api N E) (fun e => C08.h8 E e = true) where
  truthy e b hg ht call ρ k env σ σ' vs h :=
    C08.truthy_sound A call ρ k env e σ σ' vs b hg (by simpa [EvalApi.isTruthy, c08Api, kindOf_isTruthy] using ht) h
  pure e hg hs hna call ρ k env σ σ' vs h := C08.pure_sound_noalloc A call ρ k env e σ σ' vs hg hs hna h
  str e s hg hk call ρ k env σ σ' vs h := by
    have hv : evaluate E e = .string s := by
      simp only [c08Api] at hk
      cases hev : evaluate E e <;> simp [hev, kindOf] at hk
      subst hk; rfl
    have := C08.evaluate_sound_partial A call ρ k env e σ σ' vs (.str s) hg (by rw [hv]; rfl) h
    rw [this]; rfl
  single e _ hm call ρ k env σ σ' vs h := by
    have hl := C08.single_sound call ρ k env e σ σ' vs hm h
    match vs, hl with
    | [v], _ => rfl

end DarkluaModel.Rules
