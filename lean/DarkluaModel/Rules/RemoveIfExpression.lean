import DarkluaModel.Rules.LuauCommon
/-!
# `remove_if_expression` (`src/rules/remove_if_expression.rs`)

`process_expression` (with `DefaultVisitor`) turns `if c then r else e` into `c and r or e` when
`Evaluator::evaluate(r).is_truthy()` is `Some(true)`, and into `(c and {r} or {e})[1]` otherwise
(a branch that may return several values is parenthesised inside its table).

The static evaluator is property C08's subject; here it is a PARAMETER `truthy : Expr → Bool`
(`truthy r = true` iff `evaluate(r).is_truthy().unwrap_or_default()`); the driver instantiates it
with the verdicts of the real `Evaluator` on the sub-expressions of the program.

The `elseif` branches are folded from the LAST one over the else-result (`.rev().fold(…)`), so the
first `elseif` is the outermost test: `if a then 1 elseif b then 2 elseif c then 3 else 4` ⇒
`a and 1 or (b and 2 or (c and 3 or 4))`. (Before the fix of finding F25 the fold ran left to right
and tested the `elseif` conditions in reverse order.)
-/
namespace DarkluaModel.Rules.RemoveIfExpression
open DarkluaModel.Rules

/-- `wrap_in_table` -/
def wrapInTable (e : Expr) : Expr := .table [.pos (parenIfMultiple e)]

variable (truthy : Expr → Bool)

/-- `convert_if_branch` -/
def convertIfBranch (c r e : Expr) : Expr :=
  if truthy r then .bin .or (.bin .and c r) e
  else .index (.paren (.bin .or (.bin .and c (wrapInTable r)) (wrapInTable e))) numOne

/-- the `fold` over the reversed `iter_branches()`: a right fold -/
def foldBranches : List (Expr × Expr) → Expr → Expr
  | [], acc => acc
  | (c, r) :: rest, acc => convertIfBranch truthy c r (foldBranches rest acc)

/-- `process_expression` -/
def processExpression : Expr → Expr
  | .ifx c t elifs e => convertIfBranch truthy c t (foldBranches truthy elifs e)
  | e => e

def processor : Processor Unit where
  expr := fun e s => (processExpression truthy e, s)

def apply (b : Block) : Block := (Visitor.runDefault (processor truthy) b ()).1

end DarkluaModel.Rules.RemoveIfExpression
