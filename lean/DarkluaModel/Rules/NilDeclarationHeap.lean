import DarkluaModel.Rules.NilDeclaration
import DarkluaModel.Shared.VisitorSoundHeap
/-!
# `remove_nil_declaration` — whole-rule theorem on a fragment, through the stage-3 lifting

The rule removes `nil` values of a `local` declaration and moves the corresponding variables to the end:
the cells are allocated in another order, so it is sound only up to a renumbering of cells — the
link `LkS.permLocal` (two declarations that bind the same distinct names to the same values).

`checkPerm` is a decidable validation of ONE rewrite `local ns = vs ↦ local ns' = vs'`: all values are
simple atoms (`nil`, booleans, numbers, strings, identifiers — they always evaluate, to one value, without
touching the state), the names are pairwise distinct on both sides and the same set, every value of the
output occurs in the input, and every name is paired with the same expression on both sides (a missing
value and a literal `nil` are the same). `guardedLocal` performs the rule's rewrite when `checkPerm`
accepts it and leaves the statement alone otherwise; `applyG` is the rule with that hook.

* `checkPerm_equiv`   — an accepted rewrite is a `LocalEquiv`;
* `applyG_refines`    — `applyG` preserves the observable outcome of EVERY program;
* `apply_refines_of_agree` — so does the rule on every program on which it agrees with `applyG`
  (decidable; outside: non-atomic values — where popping a "pure" surplus value may also remove an error —
  and multi-valued tails).
-/
namespace DarkluaModel.Rules.NilDeclaration.Guarded
open DarkluaModel.Sem DarkluaModel.Sem.Heap DarkluaModel.Rules DarkluaModel.Rules.NilDeclaration

/-- atoms with exactly one value -/
def simple : Expr → Bool
  | .nil | .true | .false | .num _ | .str _ | .var _ => true
  | _ => false

/-- syntactic equality on simple atoms -/
def sEq : Expr → Expr → Bool
  | .nil, .nil | .true, .true | .false, .false => true
  | .num a, .num b => a == b
  | .str a, .str b => a == b
  | .var a, .var b => a == b
  | _, _ => false

theorem sEq_eq {a b : Expr} (h : sEq a b = true) : a = b := by
  cases a <;> cases b <;> simp [sEq] at h <;> first | rfl | (subst h; rfl)

variable {N : NumOps}

/-- the value of a simple atom -/
def atomVal (env : Env N) (σ : State N) : Expr → Val N
  | .true => .bool true
  | .false => .bool false
  | .num b => .num (N.ofBits b)
  | .str s => .str s
  | .var n => lookupVar env n σ
  | _ => .nil

theorem evalE_simple (call : CallFn N) (ρ : ExtOracle N) (k : Nat) (env : Env N) {e : Expr} (h : simple e = true)
    (σ : State N) : evalE call ρ k env e σ = .ok [atomVal env σ e] σ := by
  cases e <;> first | (simp [simple] at h; done) | simp [evalE, atomVal]

theorem evalEs_simple (call : CallFn N) (ρ : ExtOracle N) (k : Nat) (env : Env N) :
    ∀ (vs : List Expr), vs.all simple = true → ∀ (σ : State N),
      evalEs call ρ k env vs σ = .ok (vs.map (atomVal env σ)) σ
  | [], _, σ => by simp [evalEs]
  | [e], h, σ => by
    simp only [List.all_cons, List.all_nil, Bool.and_true] at h
    simp [evalEs, evalE_simple call ρ k env h σ]
  | e :: e2 :: es, h, σ => by
    simp only [List.all_cons, Bool.and_eq_true] at h
    have ih := evalEs_simple call ρ k env (e2 :: es) (by simp [List.all_cons, h.2]) σ
    simp only [evalEs, evalE_simple call ρ k env h.1 σ, Res.bind, ih, first, List.headD_cons, List.map_cons]

/-- the expression paired with the `i`-th name: missing values are `nil` -/
def padE : List String → List Expr → List Expr
  | [], _ => []
  | _ :: as, vs => vs.headD .nil :: padE as (vs.drop 1)

theorem valsOf_map (env : Env N) (σ : State N) : ∀ (A : List String) (vs : List Expr),
    valsOf A (vs.map (atomVal env σ)) = (padE A vs).map (atomVal env σ)
  | [], _ => rfl
  | _ :: as, vs => by
    cases vs with
    | nil =>
      have ih := valsOf_map env σ as []
      simp only [List.map_nil] at ih
      simp [valsOf, padE, first, atomVal, ih]
    | cons v rest => simp [valsOf, padE, first, valsOf_map env σ as rest]

/-- the expression a declaration pairs with a name -/
def exprOf (n : String) (A : List String) (vs : List Expr) : Option Expr :=
  match idx n A with
  | some i => (padE A vs)[i]?
  | none => none

theorem valOf_map (env : Env N) (σ : State N) (n : String) (A : List String) (vs : List Expr) :
    valOf n A (vs.map (atomVal env σ)) = (exprOf n A vs).map (atomVal env σ) := by
  simp only [valOf, exprOf]
  cases idx n A with
  | none => rfl
  | some i => simp [valsOf_map]

def optEq : Option Expr → Option Expr → Bool
  | some a, some b => sEq a b
  | none, none => true
  | _, _ => false

theorem optEq_eq {a b : Option Expr} (h : optEq a b = true) : a = b := by
  cases a <;> cases b <;> simp [optEq] at h
  · rfl
  · rw [sEq_eq h]

def nodupB : List String → Bool
  | [] => true
  | a :: as => !as.contains a && nodupB as

theorem nodupB_nodup : ∀ {A : List String}, nodupB A = true → A.Nodup
  | [], _ => List.nodup_nil
  | a :: as, h => by
    simp only [nodupB, Bool.and_eq_true, Bool.not_eq_true'] at h
    refine List.nodup_cons.mpr ⟨?_, nodupB_nodup h.2⟩
    intro hm
    have : as.contains a = true := List.contains_iff_mem.mpr hm
    rw [this] at h; exact absurd h.1 (by simp)

/-- validation of one rewrite `local A = vs ↦ local B = vs'` -/
def checkPerm (A : List String) (vs : List Expr) (B : List String) (vs' : List Expr) : Bool :=
  vs.all simple && vs'.all simple && nodupB A && nodupB B &&
  A.all (fun n => B.contains n) && B.all (fun n => A.contains n) &&
  vs'.all (fun e => vs.any (fun e' => sEq e e')) &&
  A.all (fun n => optEq (exprOf n A vs) (exprOf n B vs'))

theorem checkPerm_equiv {A B : List String} {vs vs' : List Expr} (h : checkPerm A vs B vs' = true) :
    LocalEquiv A vs B vs' := by
  simp only [checkPerm, Bool.and_eq_true] at h
  obtain ⟨⟨⟨⟨⟨⟨⟨hs, hs'⟩, hA⟩, hB⟩, hAB⟩, hBA⟩, _⟩, hpair⟩ := h
  have hmem : ∀ n, n ∈ A ↔ n ∈ B := fun n =>
    ⟨fun hn => List.contains_iff_mem.mp (List.all_eq_true.mp hAB n hn),
     fun hn => List.contains_iff_mem.mp (List.all_eq_true.mp hBA n hn)⟩
  refine ⟨nodupB_nodup hA, nodupB_nodup hB, hmem, ?_⟩
  intro N call ρ k env σ
  rw [evalEs_simple call ρ k env vs hs σ]
  refine ⟨vs'.map (atomVal env σ), evalEs_simple call ρ k env vs' hs' σ, ?_⟩
  intro n
  rw [valOf_map, valOf_map]
  by_cases hn : n ∈ A
  · rw [optEq_eq (List.all_eq_true.mp hpair n hn)]
  · have hnB : n ∉ B := fun hb => hn ((hmem n).mpr hb)
    simp only [exprOf, idx_none_iff.mpr hn, idx_none_iff.mpr hnB]

theorem noRefEs_iff {D : List DName} : ∀ {es : List Expr}, NoRefEs D es ↔ ∀ e ∈ es, NoRefE D e
  | [] => by simp [NoRefEs, Expr.refsList]
  | e :: es => by
    rw [NoRefEs.cons, noRefEs_iff (es := es)]
    simp

theorem checkPerm_noRef {A B : List String} {vs vs' : List Expr} (h : checkPerm A vs B vs' = true) :
    ∀ D, NoRefEs D vs → NoRefEs D vs' := by
  simp only [checkPerm, Bool.and_eq_true] at h
  obtain ⟨⟨_, hsub⟩, _⟩ := h
  intro D hn
  rw [noRefEs_iff] at hn ⊢
  intro e he
  obtain ⟨e', he', heq⟩ := List.any_eq_true.mp (List.all_eq_true.mp hsub e he)
  rw [sEq_eq heq]; exact hn e' he'

/-- the rule's rewrite of a statement, performed only when validated -/
def guardedLocal (api : EvalApi) (s : Stmt) : Stmt :=
  match s, processLocal api s with
  | .localAssign _ ns vs, .localAssign k' ns' vs' =>
    if checkPerm (ns.map TName.name) vs (ns'.map TName.name) vs' then .localAssign k' ns' vs' else s
  | _, _ => s

theorem guardedLocal_link (api : EvalApi) (s : Stmt) : (LkS Cx.none) s (guardedLocal api s) := by
  unfold guardedLocal
  split
  · rename_i k ns vs k' ns' vs' _
    split
    · rename_i hc
      exact LkS.permLocal (checkPerm_equiv hc) (checkPerm_noRef hc)
    · exact LkS.refl _
  · exact LkS.refl _

def processorG (api : EvalApi) : Processor Unit := { stmtNode := fun s u => (guardedLocal api s, u) }

theorem hooksHeap (api : EvalApi) : HooksHeap Cx.none (processorG api) where
  stmtNode := fun s _ => .single (guardedLocal_link api s)

/-- the rule restricted to validated rewrites -/
def applyG (api : EvalApi) (b : Block) : Block := (Visitor.runDefault (processorG api) b ()).1

/-- **whole rule, every program**: the guarded rule preserves the observable outcome -/
theorem applyG_refines (api : EvalApi) (b : Block) {N : NumOps} (ρ : ExtOracle N) (n : Nat) (externs : List String) :
    runProgram ρ n externs (applyG api b) = runProgram ρ n externs b :=
  Visitor.runDefault_heap (hooksHeap api) b () (fun _ h => by cases h) ρ n externs (fun _ h => by cases h)

theorem apply_refines_of_agree (api : EvalApi) (b : Block) (h : applyG api b = apply api b)
    {N : NumOps} (ρ : ExtOracle N) (n : Nat) (externs : List String) :
    runProgram ρ n externs (apply api b) = runProgram ρ n externs b := by
  rw [← h]; exact applyG_refines api b ρ n externs

end DarkluaModel.Rules.NilDeclaration.Guarded
