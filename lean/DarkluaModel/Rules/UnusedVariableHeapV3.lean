import DarkluaModel.Rules.UnusedVariableHeapV2
/-!
# `remove_unused_variable` — unused declarations whose single value is effectful but NOT a call

Since the fix of F25 the rule turns `local u = t.k` (with `u` unused, `t.k` effectful for the evaluator) into
`do local _ = t.k end`. New stage-4 leaf `localToDo_sound`: the declaration and the block perform the same
evaluation; the cells bound on either side are garbage (the names of the left are dead afterwards, the `_` of the
right is out of scope after the block).

* `VkB.localToDo` / `VkRep.localToDo` — the links;
* `GuardedV3.applyG` — the guarded rule: the rewrites of `GuardedV2` plus this one.
-/
namespace DarkluaModel.Sem.HeapV
open Heap (refNames tailRefs)
open DarkluaModel.Rules.UnusedVariable (getInner)

variable {Q : QRel} {D : List DName}

/-- `do local _ = v end` -/
def doDiscard (v : Expr) : Stmt := .doBlock (.mk [.localAssign .loc [.mk "_" none] [v]] none)

theorem execS_doDiscard {N : NumOps} (call : CallFn N) (ρ : ExtOracle N) (k : Nat) (env : Env N) (v : Expr) (σ : State N) :
    execS call ρ k env (doDiscard v) σ =
      (evalE call ρ k env v σ).bind fun vs σ1 => .ok (.next env) (bindLocals ["_"] vs env.locals σ1).2 := by
  simp only [doDiscard, execS, execB, execSs, evalEs]
  cases evalE call ρ k env v σ <;> simp [Res.bind, TName.name]

/-- **leaf**: `local ns = e; rest` against `do local _ = v end; rest'` when `e` and `v` have the same effects and
the names are dead in the rest -/
theorem localToDo_sound {D' : List DName} {kind : LocalKind} {ns : List TName} {e v : Expr}
    {rest rest' : List Stmt} (heff : EffE Q D e v) (hrest : SoundSs Q (refNames ns ++ D) rest rest' D') :
    SoundSs Q D (.localAssign kind ns [e] :: rest) (doDiscard v :: rest') D' :=
  ⟨(DSub.refs _ D).trans hrest.1, fun N call ρ k env env' σ σ' β hp hs he => by
    have h0 := heff N call ρ k env env' σ σ' β hp hs he
    simp only [execSs, execS_doDiscard]
    simp only [execS, evalEs]
    revert h0
    generalize evalE call ρ k env e σ = r
    generalize evalE call ρ k env' v σ' = r'
    intro h0
    cases r <;> cases r' <;> simp only [RRel, Res.bind] at h0 ⊢
    all_goals try (first | exact h0 | trivial)
    · rename_i ws σ1 ws' σ1'
      obtain ⟨β1, h1, _, h3⟩ := h0
      have he1 := he.mono h1
      have hb := h3.bindLocalsLeft (D := refNames ns ++ D) (ns.map TName.name) refNames_mem ws
        (he1.loc.weaken (DSub.refs _ D))
      have hr := hb.1.bindLocalsRight (D := DName.ref "_" :: (refNames ns ++ D)) ["_"]
        (fun n hn => by simp only [List.mem_singleton] at hn; subst hn; exact List.mem_cons_self) ws'
        (hb.2.weaken fun x hx => List.mem_cons_of_mem _ hx)
      exact RRel.mono h1 (hrest.2 N call ρ k _ _ _ _ _ hp hr.1 ⟨he1.va, hb.2⟩)⟩

theorem noRefS_doDiscard {v : Expr} (hw : WOK D) (hv : NoRefE D v) : NoRefS D (doDiscard v) :=
  NoRefS.doBlock.mpr (NoRefB.none.mpr (NoRefSs.cons.mpr
    ⟨NoRefS.localAssign.mpr ⟨NoWat.cons.mpr ⟨hw "_", fun _ _ => rfl⟩, NoRefEs.cons.mpr ⟨hv, fun _ _ => rfl⟩⟩,
      fun _ _ => rfl⟩))

theorem VkB.localToDo {pre rest : List Stmt} {last : Option Last} {kind : LocalKind} {ns : List TName}
    {e : Expr} (hx : ∀ n ∈ ns.map TName.name, tailRefs n rest last = false) :
    VkB (.mk (pre ++ .localAssign kind ns [e] :: rest) last) (.mk (pre ++ doDiscard (getInner e) :: rest) last) := by
  intro D hw hn
  have hx1 : ∀ n ∈ ns.map TName.name, Stmt.refsList (.ref n) rest = false := fun n h => by
    have := hx n h; simp only [tailRefs, Bool.or_eq_false_iff] at this; exact this.1
  cases last with
  | none =>
    have h1 := Heap.NoRefSs.append.mp (NoRefB.none.mp hn)
    have h2 := NoRefSs.cons.mp h1.2
    have he : NoRefE D e := (NoRefEs.cons.mp (NoRefS.localAssign.mp h2.1).2).1
    exact ⟨⟨_, .blockNone (.ssPrefix pre h1.1 (.genSs fun Q hq =>
        localToDo_sound (effE_inner hq e he) (reflSs hq rest _ (Heap.NoRefSs.consName h2.2 hx1))))⟩,
      NoRefB.none.mpr (Heap.NoRefSs.append.mpr ⟨h1.1, NoRefSs.cons.mpr ⟨noRefS_doDiscard hw (noRefE_inner e he), h2.2⟩⟩)⟩
  | some l =>
    have h0 := NoRefB.some.mp hn
    have h1 := Heap.NoRefSs.append.mp h0.1
    have h2 := NoRefSs.cons.mp h1.2
    have he : NoRefE D e := (NoRefEs.cons.mp (NoRefS.localAssign.mp h2.1).2).1
    have hx2 : ∀ n ∈ ns.map TName.name, l.refs (.ref n) = false := fun n h => by
      have := hx n h; simp only [tailRefs, Bool.or_eq_false_iff] at this; exact this.2
    exact ⟨⟨_, .blockSome (.ssPrefix pre h1.1 (.genSs fun Q hq =>
        localToDo_sound (effE_inner hq e he) (reflSs hq rest _ (Heap.NoRefSs.consName h2.2 hx1))))
        (.reflL (Heap.NoRefL.consName h0.2 hx2))⟩,
      NoRefB.some.mpr ⟨Heap.NoRefSs.append.mpr ⟨h1.1, NoRefSs.cons.mpr ⟨noRefS_doDiscard hw (noRefE_inner e he), h2.2⟩⟩, h0.2⟩⟩

theorem VkRep.localToDo {pre rest : List Stmt} {last : Option Last} {kind : LocalKind} {ns : List TName}
    {e c : Expr} (hx : ∀ n ∈ ns.map TName.name, tailRefs n rest last = false)
    (hc : ∀ n ∈ ns.map TName.name, c.refs (.ref n) = false) :
    VkRep (.mk (pre ++ .localAssign kind ns [e] :: rest) last, c) (.mk (pre ++ doDiscard (getInner e) :: rest) last, c) := by
  intro D hw hnb hnc
  have hx1 : ∀ n ∈ ns.map TName.name, Stmt.refsList (.ref n) rest = false := fun n h => by
    have := hx n h; simp only [tailRefs, Bool.or_eq_false_iff] at this; exact this.1
  cases last with
  | none =>
    have h1 := Heap.NoRefSs.append.mp (NoRefB.none.mp hnb)
    have h2 := NoRefSs.cons.mp h1.2
    have he : NoRefE D e := (NoRefEs.cons.mp (NoRefS.localAssign.mp h2.1).2).1
    exact ⟨.rep (.blockNone (.ssPrefix pre h1.1 (.genSs fun Q hq =>
        localToDo_sound (effE_inner hq e he) (reflSs hq rest _ (Heap.NoRefSs.consName h2.2 hx1)))))
        (.reflE (Heap.NoRefE.consName hnc hc)),
      NoRefB.none.mpr (Heap.NoRefSs.append.mpr ⟨h1.1, NoRefSs.cons.mpr ⟨noRefS_doDiscard hw (noRefE_inner e he), h2.2⟩⟩), hnc⟩
  | some l =>
    have h0 := NoRefB.some.mp hnb
    have h1 := Heap.NoRefSs.append.mp h0.1
    have h2 := NoRefSs.cons.mp h1.2
    have he : NoRefE D e := (NoRefEs.cons.mp (NoRefS.localAssign.mp h2.1).2).1
    have hx2 : ∀ n ∈ ns.map TName.name, l.refs (.ref n) = false := fun n h => by
      have := hx n h; simp only [tailRefs, Bool.or_eq_false_iff] at this; exact this.2
    exact ⟨.rep (.blockSome (.ssPrefix pre h1.1 (.genSs fun Q hq =>
        localToDo_sound (effE_inner hq e he) (reflSs hq rest _ (Heap.NoRefSs.consName h2.2 hx1))))
          (.reflL (Heap.NoRefL.consName h0.2 hx2))) (.reflE (Heap.NoRefE.consName hnc hc)),
      NoRefB.some.mpr ⟨Heap.NoRefSs.append.mpr ⟨h1.1, NoRefSs.cons.mpr ⟨noRefS_doDiscard hw (noRefE_inner e he), h2.2⟩⟩, h0.2⟩, hnc⟩

end DarkluaModel.Sem.HeapV

namespace DarkluaModel.Rules.UnusedVariable.GuardedV3
open DarkluaModel.Sem DarkluaModel.Sem.HeapV DarkluaModel.Rules DarkluaModel.Rules.UnusedVariable
open DarkluaModel.Sem.Heap (tailRefs)

/-- an unused declaration with ONE value that is effectful and (under parentheses / casts) not a call, which the
rule turns into `do local _ = value end`, and that the `localToDo` link covers -/
def doOK (api : EvalApi) (last : Option Last) (inExtra : List String) (cr : String → Bool) (s : Stmt)
    (rest : List Stmt) : Bool :=
  match s with
  | .localAssign _ ns [e] =>
    !ns.isEmpty &&
    ((tnames ns).map fun id => isUsedAfter id rest last inExtra).all (!·) &&
    api.hasSideEffects e && !GuardedV2.isCall (getInner e) && !(tnames ns).contains "_" &&
    (ns.map TName.name).all (fun n => !tailRefs n rest last && !cr n)
  | _ => false

def doOf : Stmt → Stmt
  | .localAssign _ _ [e] => doDiscard (getInner e)
  | s => s

/-- the rewrites of `GuardedV2` plus the `do local _ = … end` replacements -/
def rewriteG (api : EvalApi) (last : Option Last) (inExtra : List String) (cr : String → Bool) :
    List Stmt → Bool → List Stmt × Bool
  | [], m => ([], m)
  | s :: rest, m =>
    if GuardedV.dropOK api last inExtra cr s rest then rewriteG api last inExtra cr rest true
    else
      let (r, m') := rewriteG api last inExtra cr rest m
      if GuardedV2.callOK api last inExtra cr s rest then (GuardedV2.callOf s :: r, m')
      else if doOK api last inExtra cr s rest then (doOf s :: r, m')
      else (s :: r, m')

theorem drop_chain (api : EvalApi) (last : Option Last) (inExtra : List String)
    (ss : List Stmt) (m : Bool) (pre : List Stmt) :
    Chain VkB (.mk (pre ++ ss) last) (.mk (pre ++ (rewriteG api last inExtra (fun _ => false) ss m).1) last) := by
  induction ss generalizing pre m with
  | nil => exact .refl _
  | cons s rest ih =>
    by_cases hd : GuardedV.dropOK api last inExtra (fun _ => false) s rest = true
    · simp only [rewriteG, hd, if_true]
      cases s with
      | localAssign kind ns vs =>
        simp only [GuardedV.dropOK, Bool.and_eq_true, List.all_eq_true, Bool.not_eq_true'] at hd
        obtain ⟨⟨_, hatoms⟩, hrefs⟩ := hd
        refine .cons (VkB.dropLocal (allocPureAll_sound vs hatoms) fun n hn => ?_) (ih true pre)
        have := hrefs n hn
        first | exact this.1 | exact this | (simp at this; exact this)
      | localFn kind name f =>
        simp only [GuardedV.dropOK, Bool.and_eq_true, Bool.not_eq_true'] at hd
        exact .cons (VkB.dropLocalFn hd.1.2) (ih true pre)
      | _ => simp [GuardedV.dropOK] at hd
    · simp only [rewriteG, hd, Bool.false_eq_true, if_false]
      by_cases hc : GuardedV2.callOK api last inExtra (fun _ => false) s rest = true
      · simp only [hc, if_true]
        match s, hc with
        | .localAssign kind ns [e], hc =>
          simp only [GuardedV2.callOK, Bool.and_eq_true, List.all_eq_true, Bool.not_eq_true'] at hc
          obtain ⟨_, hrefs⟩ := hc
          have hx : ∀ n ∈ ns.map TName.name, tailRefs n rest last = false := fun n hn => by
            have := hrefs n hn
            first | exact this.1 | exact this | (simp at this; exact this)
          have := ih m (pre ++ [.callStmt (getInner e)])
          simp only [List.append_assoc, List.singleton_append] at this
          exact .cons (VkB.localToCall hx) this
      · simp only [hc, Bool.false_eq_true, if_false]
        by_cases hdo : doOK api last inExtra (fun _ => false) s rest = true
        · simp only [hdo, if_true]
          match s, hdo with
          | .localAssign kind ns [e], hdo =>
            simp only [doOK, Bool.and_eq_true, List.all_eq_true, Bool.not_eq_true'] at hdo
            obtain ⟨_, hrefs⟩ := hdo
            have hx : ∀ n ∈ ns.map TName.name, tailRefs n rest last = false := fun n hn => by
              have := hrefs n hn
              first | exact this.1 | exact this | (simp at this; exact this)
            have := ih m (pre ++ [doDiscard (getInner e)])
            simp only [List.append_assoc, List.singleton_append] at this
            exact .cons (VkB.localToDo hx) this
        · simp only [hdo, Bool.false_eq_true, if_false]
          have := ih m (pre ++ [s])
          simpa [List.append_assoc] using this

theorem drop_chain_rep (api : EvalApi) (last : Option Last) (inExtra : List String) (c : Expr)
    (ss : List Stmt) (m : Bool) (pre : List Stmt) :
    Chain VkRep (.mk (pre ++ ss) last, c)
      (.mk (pre ++ (rewriteG api last inExtra (fun n => c.refs (.ref n)) ss m).1) last, c) := by
  induction ss generalizing pre m with
  | nil => exact .refl _
  | cons s rest ih =>
    by_cases hd : GuardedV.dropOK api last inExtra (fun n => c.refs (.ref n)) s rest = true
    · simp only [rewriteG, hd, if_true]
      cases s with
      | localAssign kind ns vs =>
        simp only [GuardedV.dropOK, Bool.and_eq_true, List.all_eq_true, Bool.not_eq_true'] at hd
        obtain ⟨⟨_, hatoms⟩, hrefs⟩ := hd
        have h2 : ∀ n ∈ ns.map TName.name, tailRefs n rest last = false ∧ c.refs (.ref n) = false := fun n hn => by
          have := hrefs n hn
          simpa only [Bool.and_eq_true, Bool.not_eq_true'] using this
        exact .cons (VkRep.dropLocal (allocPureAll_sound vs hatoms) (fun n hn => (h2 n hn).1) (fun n hn => (h2 n hn).2))
          (ih true pre)
      | localFn kind name f =>
        simp only [GuardedV.dropOK, Bool.and_eq_true, Bool.not_eq_true'] at hd
        exact .cons (VkRep.dropLocalFn hd.1.2 hd.2) (ih true pre)
      | _ => simp [GuardedV.dropOK] at hd
    · simp only [rewriteG, hd, Bool.false_eq_true, if_false]
      by_cases hc : GuardedV2.callOK api last inExtra (fun n => c.refs (.ref n)) s rest = true
      · simp only [hc, if_true]
        match s, hc with
        | .localAssign kind ns [e], hc =>
          simp only [GuardedV2.callOK, Bool.and_eq_true, List.all_eq_true, Bool.not_eq_true'] at hc
          obtain ⟨_, hrefs⟩ := hc
          have h2 : ∀ n ∈ ns.map TName.name, tailRefs n rest last = false ∧ c.refs (.ref n) = false := fun n hn => by
            have := hrefs n hn
            simpa only [Bool.and_eq_true, Bool.not_eq_true'] using this
          have := ih m (pre ++ [.callStmt (getInner e)])
          simp only [List.append_assoc, List.singleton_append] at this
          exact .cons (VkRep.localToCall (fun n hn => (h2 n hn).1) (fun n hn => (h2 n hn).2)) this
      · simp only [hc, Bool.false_eq_true, if_false]
        by_cases hdo : doOK api last inExtra (fun n => c.refs (.ref n)) s rest = true
        · simp only [hdo, if_true]
          match s, hdo with
          | .localAssign kind ns [e], hdo =>
            simp only [doOK, Bool.and_eq_true, List.all_eq_true, Bool.not_eq_true'] at hdo
            obtain ⟨_, hrefs⟩ := hdo
            have h2 : ∀ n ∈ ns.map TName.name, tailRefs n rest last = false ∧ c.refs (.ref n) = false := fun n hn => by
              have := hrefs n hn
              simpa only [Bool.and_eq_true, Bool.not_eq_true'] using this
            have := ih m (pre ++ [doDiscard (getInner e)])
            simp only [List.append_assoc, List.singleton_append] at this
            exact .cons (VkRep.localToDo (fun n hn => (h2 n hn).1) (fun n hn => (h2 n hn).2)) this
        · simp only [hdo, Bool.false_eq_true, if_false]
          have := ih m (pre ++ [s])
          simpa [List.append_assoc] using this

/-- the guarded `process_scope` -/
def scopeG (api : EvalApi) : Block → Option Expr → Bool → (Block × Option Expr) × Bool
  | .mk stmts last, extra, m =>
    let (stmts', m') := rewriteG api last (usagesInExtra stmts extra) (GuardedV.condRefs extra) stmts m
    ((.mk stmts' last, extra), m')

def processorG (api : EvalApi) : Processor Bool := { scope := scopeG api }

theorem scopeG_none_chain (api : EvalApi) (b : Block) (m : Bool) :
    Chain VkB b (scopeG api b none m).1.1 := by
  cases b with
  | mk ss last =>
    simp only [scopeG, GuardedV.condRefs]
    simpa using drop_chain api last (usagesInExtra ss none) ss m []

theorem hooksV (api : EvalApi) : HooksV (processorG api) where
  scopeB := fun b s => scopeG_none_chain api b s
  scopeR := fun b c s => by
    cases b with
    | mk ss last =>
      simp only [processorG, scopeG, GuardedV.condRefs, Option.getD]
      simpa using drop_chain_rep api last (usagesInExtra ss (some c)) c ss s []

def passG (api : EvalApi) (b : Block) : Block × Bool :=
  let ((b1, _), m1) := scopeG api b none false
  Visitor.runDefault (processorG api) b1 m1

def loopG (api : EvalApi) : Nat → Block → Block
  | 0, b => b
  | n + 1, b =>
    let (b', mutated) := passG api b
    if mutated then loopG api n b' else b'

/-- the rule restricted to the (still larger) fragment -/
def applyG (api : EvalApi) (b : Block) : Block := loopG api (b.size + 1) b

theorem passG_refines (api : EvalApi) (b : Block) {N : NumOps} (ρ : ExtOracle N) (hρ : OracleFlat ρ) (n : Nat)
    (externs : List String) : runProgram ρ n externs (passG api b).1 = runProgram ρ n externs b := by
  simp only [passG]
  have h1 := chain_runProgram (scopeG_none_chain api b false) ρ hρ n externs
  have h2 := Visitor.runDefault_v (hooksV api) (scopeG api b none false).1.1 (scopeG api b none false).2 ρ hρ n externs
  exact h2.trans h1

theorem loopG_refines (api : EvalApi) : ∀ (k : Nat) (b : Block) {N : NumOps} (ρ : ExtOracle N) (_ : OracleFlat ρ)
    (n : Nat) (externs : List String), runProgram ρ n externs (loopG api k b) = runProgram ρ n externs b
  | 0, _, _, _, _, _, _ => rfl
  | k + 1, b, N, ρ, hρ, n, externs => by
    simp only [loopG]
    split
    · exact (loopG_refines api k _ ρ hρ n externs).trans (passG_refines api b ρ hρ n externs)
    · exact passG_refines api b ρ hρ n externs

/-- **whole rule, every program**: the guarded rule preserves the observable outcome -/
theorem applyG_refines (api : EvalApi) (b : Block) {N : NumOps} (ρ : ExtOracle N) (hρ : OracleFlat ρ) (n : Nat)
    (externs : List String) : runProgram ρ n externs (applyG api b) = runProgram ρ n externs b :=
  loopG_refines api _ b ρ hρ n externs

theorem apply_refines_of_agree (api : EvalApi) (b : Block) (h : applyG api b = apply api b)
    {N : NumOps} (ρ : ExtOracle N) (hρ : OracleFlat ρ) (n : Nat) (externs : List String) :
    runProgram ρ n externs (apply api b) = runProgram ρ n externs b := by
  rw [← h]; exact applyG_refines api b ρ hρ n externs

end DarkluaModel.Rules.UnusedVariable.GuardedV3
